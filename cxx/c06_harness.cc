// C06 harness: the repository's CRC routines, IsValid() and (as a consumer of the CRC) the framer.
//
// Built on every run by tools/props/c06.py from $FE_REPO/src:
//   clang++ -std=c++14 -O1 -g -fsanitize=address,undefined -fno-sanitize-recover=all -I$FE_REPO/src \
//       cxx/c06_harness.cc $FE_REPO/src/point_one/fusion_engine/messages/crc.cc \
//       $FE_REPO/src/point_one/fusion_engine/parsers/fusion_engine_framer.cc \
//       $FE_REPO/src/point_one/fusion_engine/common/logging.cc
// together with cxx/c06_startup.cc, in BOTH link orders (c06_startup.cc + this file before the repository's sources, and
// after them).  With C06_SERVE_AT_STARTUP=<n> in the environment the first n request lines are answered from the constructor
// of a namespace-scope object of c06_startup.cc - before main(), and in the first link order before the dynamic initialisers
// of crc.cc have run - and the remaining lines from main().  The answers must not depend on that.
//
// Line protocol (stdin -> stdout, one answer line per request line, same order).  `-` is the empty buffer.
// Every buffer handed to the code under test is an exact-size heap block (malloc => 16-aligned, ASan redzone
// directly behind it).
//   crc <init> <hex>,<hex>,...   CalculateCRC(buffer, length, init) per buffer          -> v,v,...
//   exh <init> <n>               n = 1: all 256 one-byte buffers; n = 2: all 65536 two-byte buffers
//                                (first byte major)                                       -> v,v,...
//   split <hex>                  for k = 0..len: CalculateCRC(b + k, len - k, CalculateCRC(b, k))   -> v,v,...
//   msg <hex>                    one buffer as a message:
//                                -> crc=<CalculateCRC(const void*) | oob> valid=<IsValid() 0|1 | oob>
//                                   framer=<number of callbacks>[:<seq>.<type>.<size>.<crc>]...
//                                   hdr=<type>,<version>,<seq>,<source>,<size>,<crc>
//                                "oob": the routine would read past the bytes given (fewer than 24 bytes, or fewer
//                                than 24 + payload_size_bytes and, for IsValid, within its size limit); it is then not
//                                called.
//   mut <hex> <spec>;<spec>;...  spec = <byte offset>:<xor pattern hex>[+<byte offset>:<xor pattern hex>]...
//                                for each spec, on a fresh copy of the message with the pattern(s) xored in:
//                                -> <v><c><f> per spec, joined by ','   v = IsValid (0|1|o), c = header.crc ==
//                                   CalculateCRC(buffer) (0|1|o), f = number of framer callbacks (one digit, 9 = 9 or
//                                   more) when the altered bytes alone are given to a fresh framer
//   mutp <hex> <total> <fill> <spec>;...   as `mut`, but each altered copy is followed by (total - len) bytes of
//                                value <fill> (decimal) in the same exact-size heap block of <total> bytes: the altered
//                                message at the start of a larger caller buffer.  IsValid()/CalculateCRC(const void*)
//                                take no length, so 'o' is judged against the <total> bytes that exist.  The framer is
//                                given the first min(total, 2^18) bytes.
//   pairs <hex> <lo> <hi>        every double bit flip {i, j}, lo <= i < j < hi (bit index = 8 * byte + bit):
//                                -> <number of pairs> <accepted by IsValid> <accepted by crc compare> <first accepted
//                                   pair i.j or ->      (oob counts as not accepted)
#include <cstdint>
#include <cstdio>
#include <cstdlib>
#include <cstring>
#include <iostream>
#include <sstream>
#include <string>
#include <vector>

#include "point_one/fusion_engine/messages/crc.h"
#include "point_one/fusion_engine/parsers/fusion_engine_framer.h"

using point_one::fusion_engine::messages::CalculateCRC;
using point_one::fusion_engine::messages::IsValid;
using point_one::fusion_engine::messages::MessageHeader;
using point_one::fusion_engine::parsers::FusionEngineFramer;

static bool unhex(const std::string& h, std::vector<uint8_t>* out) {
  out->clear();
  if (h == "-") return true;
  if (h.size() % 2) return false;
  for (size_t i = 0; i < h.size(); i += 2) {
    int v = 0;
    for (int k = 0; k < 2; ++k) {
      char c = h[i + k];
      int d = (c >= '0' && c <= '9') ? c - '0' : (c >= 'a' && c <= 'f') ? c - 'a' + 10 : -1;
      if (d < 0) return false;
      v = v * 16 + d;
    }
    out->push_back(static_cast<uint8_t>(v));
  }
  return true;
}

// Exact-size heap copy.
struct Block {
  uint8_t* p;
  size_t n;
  explicit Block(const std::vector<uint8_t>& v) : n(v.size()) {
    p = static_cast<uint8_t*>(malloc(n ? n : 1));
    if (n) memcpy(p, v.data(), n);
  }
  Block(const uint8_t* q, size_t len) : n(len) {
    p = static_cast<uint8_t*>(malloc(n ? n : 1));
    if (n) memcpy(p, q, n);
  }
  ~Block() { free(p); }
  Block(const Block&) = delete;
  Block& operator=(const Block&) = delete;
};

static std::vector<std::string> splitc(const std::string& s, char c) {
  std::vector<std::string> r;
  std::string cur;
  for (char ch : s) {
    if (ch == c) {
      r.push_back(cur);
      cur.clear();
    } else {
      cur.push_back(ch);
    }
  }
  r.push_back(cur);
  return r;
}

static uint32_t rd32(const uint8_t* p) {
  return (uint32_t)p[0] | ((uint32_t)p[1] << 8) | ((uint32_t)p[2] << 16) | ((uint32_t)p[3] << 24);
}

// 'o' if the call would read outside the block, otherwise '0'/'1'.
static char call_isvalid(const Block& b) {
  if (b.n < sizeof(MessageHeader)) return 'o';
  uint64_t size = rd32(b.p + 16);
  if (sizeof(MessageHeader) + size <= MessageHeader::MAX_MESSAGE_SIZE_BYTES && sizeof(MessageHeader) + size > b.n) {
    return 'o';
  }
  return IsValid(b.p) ? '1' : '0';
}

static bool crc_readable(const Block& b) {
  if (b.n < sizeof(MessageHeader)) return false;
  uint64_t size = rd32(b.p + 16);
  return sizeof(MessageHeader) + size <= b.n;
}

static char call_crccmp(const Block& b) {
  if (!crc_readable(b)) return 'o';
  const MessageHeader* h = reinterpret_cast<const MessageHeader*>(b.p);
  return CalculateCRC(b.p) == h->crc ? '1' : '0';
}

struct CbLog {
  int count = 0;
  std::string text;
};

static void raw_cb(void* ctx, const MessageHeader& header, const void* payload) {
  (void)payload;
  CbLog* log = static_cast<CbLog*>(ctx);
  log->count++;
  std::ostringstream os;
  os << ":" << header.sequence_number << "." << (unsigned)header.message_type << "." << header.payload_size_bytes
     << "." << header.crc;
  log->text += os.str();
}

static FusionEngineFramer* g_framer = nullptr;
static const size_t FRAMER_CAPACITY = (1u << 17) + 64;

static void run_framer(const Block& b, CbLog* log, size_t limit = static_cast<size_t>(-1)) {
  if (g_framer == nullptr) {
    g_framer = new FusionEngineFramer(FRAMER_CAPACITY);
    g_framer->WarnOnError(false);
  }
  g_framer->Reset();
  g_framer->SetMessageCallback(raw_cb, log);
  g_framer->OnData(b.p, b.n < limit ? b.n : limit);
}

static bool apply_spec(const std::string& spec, std::vector<uint8_t>* m) {
  for (const std::string& part : splitc(spec, '+')) {
    size_t colon = part.find(':');
    if (colon == std::string::npos) return false;
    size_t off = strtoull(part.substr(0, colon).c_str(), nullptr, 10);
    std::vector<uint8_t> pat;
    if (!unhex(part.substr(colon + 1), &pat)) return false;
    if (off + pat.size() > m->size()) return false;
    for (size_t i = 0; i < pat.size(); ++i) (*m)[off + i] ^= pat[i];
  }
  return true;
}

// Answers up to `max_requests` request lines (all that follow when negative).  Called from main(), and - see c06_startup.cc -
// from the constructor of a namespace-scope object, i.e. DURING STATIC INITIALISATION, for the first requests of the input.
long c06_serve(long max_requests) {
  std::ios::sync_with_stdio(false);
  std::string line;
  long served = 0;
  while ((max_requests < 0 || served < max_requests) && std::getline(std::cin, line)) {
    ++served;
    std::istringstream is(line);
    std::string cmd;
    is >> cmd;
    std::ostringstream out;
    if (cmd == "crc") {
      unsigned long long init;
      std::string bufs;
      is >> init >> bufs;
      bool first = true;
      for (const std::string& h : splitc(bufs, ',')) {
        std::vector<uint8_t> v;
        if (!unhex(h, &v)) {
          out << "bad-args";
          break;
        }
        Block b(v);
        if (!first) out << ",";
        first = false;
        out << CalculateCRC(b.p, b.n, static_cast<uint32_t>(init));
      }
    } else if (cmd == "exh") {
      unsigned long long init;
      int n;
      is >> init >> n;
      if (n == 1) {
        for (int a = 0; a < 256; ++a) {
          uint8_t x[1] = {static_cast<uint8_t>(a)};
          Block b(x, 1);
          out << (a ? "," : "") << CalculateCRC(b.p, 1, static_cast<uint32_t>(init));
        }
      } else {
        for (int a = 0; a < 65536; ++a) {
          uint8_t x[2] = {static_cast<uint8_t>(a >> 8), static_cast<uint8_t>(a & 0xFF)};
          Block b(x, 2);
          out << (a ? "," : "") << CalculateCRC(b.p, 2, static_cast<uint32_t>(init));
        }
      }
    } else if (cmd == "split") {
      std::string h;
      is >> h;
      std::vector<uint8_t> v;
      if (!unhex(h, &v)) {
        out << "bad-args";
      } else {
        for (size_t k = 0; k <= v.size(); ++k) {
          Block a(v.data(), k);
          Block c(v.data() + k, v.size() - k);
          uint32_t first = CalculateCRC(a.p, a.n);
          out << (k ? "," : "") << CalculateCRC(c.p, c.n, first);
        }
      }
    } else if (cmd == "msg") {
      std::string h;
      is >> h;
      std::vector<uint8_t> v;
      if (!unhex(h, &v)) {
        out << "bad-args";
      } else {
        Block b(v);
        out << "crc=";
        if (crc_readable(b)) {
          out << CalculateCRC(b.p);
        } else {
          out << "oob";
        }
        char iv = call_isvalid(b);
        out << " valid=";
        if (iv == 'o') {
          out << "oob";
        } else {
          out << iv;
        }
        CbLog log;
        run_framer(b, &log);
        out << " framer=" << log.count << log.text;
        if (b.n >= sizeof(MessageHeader)) {
          const MessageHeader* hd = reinterpret_cast<const MessageHeader*>(b.p);
          out << " hdr=" << (unsigned)hd->message_type << "," << (unsigned)hd->message_version << ","
              << hd->sequence_number << "," << hd->source_identifier << "," << hd->payload_size_bytes << ","
              << hd->crc;
        } else {
          out << " hdr=-";
        }
      }
    } else if (cmd == "mut" || cmd == "mutp") {
      std::string h, specs;
      unsigned long long total = 0, fill = 0;
      is >> h;
      if (cmd == "mutp") is >> total >> fill;
      is >> specs;
      std::vector<uint8_t> v;
      if (!unhex(h, &v) || (cmd == "mutp" && (total < v.size() || total > (1ull << 26) || fill > 255))) {
        out << "bad-args";
      } else {
        bool first = true;
        for (const std::string& spec : splitc(specs, ';')) {
          std::vector<uint8_t> m = v;
          if (!first) out << ",";
          first = false;
          if (!apply_spec(spec, &m)) {
            out << "bad";
            continue;
          }
          if (cmd == "mutp") m.resize(static_cast<size_t>(total), static_cast<uint8_t>(fill));
          Block b(m);
          CbLog log;
          run_framer(b, &log, cmd == "mutp" ? (1u << 18) : static_cast<size_t>(-1));
          out << call_isvalid(b) << call_crccmp(b) << (log.count > 9 ? 9 : log.count);
        }
      }
    } else if (cmd == "pairs") {
      std::string h;
      size_t lo, hi;
      is >> h >> lo >> hi;
      std::vector<uint8_t> v;
      if (!unhex(h, &v) || hi > 8 * v.size() || lo > hi) {
        out << "bad-args";
      } else {
        Block b(v);
        unsigned long long n = 0, acc_v = 0, acc_c = 0;
        long fi = -1, fj = -1;
        for (size_t i = lo; i < hi; ++i) {
          b.p[i / 8] ^= static_cast<uint8_t>(1u << (i % 8));
          for (size_t j = i + 1; j < hi; ++j) {
            b.p[j / 8] ^= static_cast<uint8_t>(1u << (j % 8));
            ++n;
            bool a1 = call_isvalid(b) == '1';
            bool a2 = call_crccmp(b) == '1';
            if (a1) ++acc_v;
            if (a2) ++acc_c;
            if ((a1 || a2) && fi < 0) {
              fi = static_cast<long>(i);
              fj = static_cast<long>(j);
            }
            b.p[j / 8] ^= static_cast<uint8_t>(1u << (j % 8));
          }
          b.p[i / 8] ^= static_cast<uint8_t>(1u << (i % 8));
        }
        out << n << " " << acc_v << " " << acc_c << " ";
        if (fi < 0) {
          out << "-";
        } else {
          out << fi << "." << fj;
        }
      }
    } else {
      out << "bad-op";
    }
    std::cout << out.str() << "\n";
  }
  std::cout.flush();
  return served;
}

int main() {
  c06_serve(-1);
  delete g_framer;
  return 0;
}
