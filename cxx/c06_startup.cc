// C06 harness, second translation unit: the request loop of c06_harness.cc run DURING STATIC INITIALISATION.
//
// A program may call CalculateCRC() / IsValid() / a framer from the constructor of one of its own namespace-scope objects
// (a request message prepared once at start-up, a self-test).  The order in which the namespace-scope objects of different
// translation units are initialised follows the link order, so such a call may run before the dynamic initialisers of crc.cc
// (or of the framer) have.  The property does not exempt those calls: the CRC of a buffer is the CRC of the buffer.
//
// C06_SERVE_AT_STARTUP=<n>: answer the first n request lines here; main() answers the rest (same process, so anything the
// early calls left behind is seen by the later ones).  Unset: nothing happens here.
// <iostream> is included before the object below, so std::cin / std::cout are initialised before its constructor runs.
#include <cstdlib>
#include <iostream>

long c06_serve(long max_requests);

namespace {
struct ServeAtStartup {
  long served = 0;
  ServeAtStartup() {
    const char* n = getenv("C06_SERVE_AT_STARTUP");
    if (n != nullptr && atol(n) > 0) served = c06_serve(atol(n));
  }
};
const ServeAtStartup serve_at_startup;
}  // namespace
