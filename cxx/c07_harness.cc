// C07 harness: drives the repository's FusionEngineFramer and records what it does.
//
// Built on every run by tools/props/c07.py from $FE_REPO/src:
//   clang++ -std=c++14 -O1 -g -fsanitize=address,undefined -fno-sanitize-recover=all -I$FE_REPO/src \
//       cxx/c07_harness.cc $FE_REPO/src/point_one/fusion_engine/parsers/fusion_engine_framer.cc \
//       $FE_REPO/src/point_one/fusion_engine/messages/crc.cc $FE_REPO/src/point_one/fusion_engine/common/logging.cc
//
// Line protocol (stdin -> stdout, one answer line per request line, same order) -- the same request and answer
// syntax as the Lean driver command `cxxframer` (lean/FeVerif/Driver/CxxFramer.lean):
//   <capacity> <mode> <op>,<op>,...
//     mode 0..3 : FusionEngineFramer(user_buf, capacity); user_buf is the last `capacity` bytes of a heap block of
//                 exactly capacity + mode bytes (malloc => 16-aligned), so user_buf % 4 == mode and the byte after
//                 the buffer is an ASan redzone
//          i    : FusionEngineFramer(capacity)  (internally allocated)
//     op   hex  : OnData() with these bytes, handed over in an exact-size heap block
//          -    : OnData(ptr, 0)
//          R    : Reset()
//          Bu<k>:<c> : SetBuffer(p, c) with p = the last c bytes of a new heap block of exactly c + k bytes (k = 0..3,
//                 so p % 4 == k).  When the framer took the new buffer (buffer_ lies inside the new block) the block
//                 of the previous caller-supplied buffer is freed, otherwise the new block is: at any time the only
//                 live caller storage is the exact-size block in use, and any access through a stale pointer or
//                 beyond the NEW capacity is a sanitizer report
//          Bi:<c>    : SetBuffer(nullptr, c); the previous caller block is freed when the framer then manages its buffer
//   answer: records joined by ';'
//     init|<buffer_ != nullptr>|<capacity_bytes_>
//     <a>:<hex>,...|<ret>|<state_>|<next_byte_index_>|<current_message_size_>   per OnData; one <a>:<hex> per callback,
//                 a = address of the header argument mod 4, hex = the header re-packed from its fields followed by
//                 payload_size_bytes bytes read through the payload pointer; '-' if there was no callback
//     R|<state_>|<next_byte_index_>|<current_message_size_>                      per Reset
//     B|<buffer_ != nullptr>|<capacity_bytes_>|<state_>|<next_byte_index_>|<current_message_size_>   per SetBuffer
//          F<path>:<off>:<len> : OnData() with bytes [off, off + len) of the file (for multi-megabyte streams); in the
//                 answer a payload of more than 2^20 bytes is written as #<length>.<adler32>.<crc32> (decimal) after the
//                 24 header bytes instead of its hex
//   M <n> <schedule> <capacity> <mode> <ops> ... (n times): n <= 4 framer objects alive in this process at the same
//                 time, each with its own buffer, callbacks and operations; schedule = digits, digit i = execute the next
//                 operation of framer i (what is left runs afterwards framer by framer).  Answer: the n answers joined by
//                 tab characters; each must be what `<capacity> <mode> <ops>` alone answers
//   Both callback kinds (std::function and raw function pointer) are installed; they must see the same calls
//   (otherwise the record carries "!cbmismatch").
//
// Requests are executed in a forked child; when a child dies (sanitizer report, signal) during request i, the
// answer of request i is "fault" ("timeout" if the request ran for more than 10 s and was killed by alarm()) and a
// new child continues with request i + 1; after the second timeout the remaining requests are answered "skipped".
// Sanitizer reports go to stderr.
#include <signal.h>
#include <sys/wait.h>
#include <unistd.h>

#include <cstdint>
#include <cstdio>
#include <cstdlib>
#include <cstring>
#include <functional>
#include <iostream>
#include <memory>
#include <ostream>
#include <sstream>
#include <string>
#include <vector>

#define private public
#include "point_one/fusion_engine/parsers/fusion_engine_framer.h"
#undef private

using point_one::fusion_engine::messages::MessageHeader;
using point_one::fusion_engine::parsers::FusionEngineFramer;

static bool unhex(const std::string& h, std::vector<uint8_t>* out) {
  out->clear();
  if (h == "-") return true;
  if (h.size() % 2) return false;
  for (size_t i = 0; i < h.size(); i += 2) {
    int v = 0;
    for (int k = 0; k < 2; ++k) {
      char c = h[i + k];
      int d = (c >= '0' && c <= '9') ? c - '0' : (c >= 'a' && c <= 'f') ? c - 'a' + 10 : -1;
      if (d < 0) return false;
      v = v * 16 + d;
    }
    out->push_back((uint8_t)v);
  }
  return true;
}

static void put_hex(std::string* s, const uint8_t* p, size_t n) {
  static const char* d = "0123456789abcdef";
  for (size_t i = 0; i < n; ++i) {
    s->push_back(d[p[i] >> 4]);
    s->push_back(d[p[i] & 15]);
  }
}

static void put_le(std::string* s, uint64_t v, int n) {
  uint8_t b[8];
  for (int i = 0; i < n; ++i) b[i] = (uint8_t)(v >> (8 * i));
  put_hex(s, b, n);
}

struct Recorder {
  std::string cbs;
  int n_function = 0;
  int n_raw = 0;
};

// Digests of very large payloads (own implementations, independent of the code under test).
static uint32_t adler32_of(const uint8_t* p, size_t n) {
  uint32_t a = 1, b = 0;
  for (size_t i = 0; i < n; ++i) {
    a += p[i];
    if (a >= 65521) a -= 65521;
    b += a;
    if (b >= 65521) b -= 65521;
  }
  return (b << 16) | a;
}

static uint32_t crc32_of(const uint8_t* p, size_t n) {
  static uint32_t table[256];
  static bool ready = false;
  if (!ready) {
    for (uint32_t i = 0; i < 256; ++i) {
      uint32_t c = i;
      for (int k = 0; k < 8; ++k) c = (c & 1) ? (0xEDB88320u ^ (c >> 1)) : (c >> 1);
      table[i] = c;
    }
    ready = true;
  }
  uint32_t c = 0xFFFFFFFFu;
  for (size_t i = 0; i < n; ++i) c = table[(c ^ p[i]) & 0xFF] ^ (c >> 8);
  return c ^ 0xFFFFFFFFu;
}

static const size_t DIGEST_ABOVE = 1u << 20;  // payloads larger than this are recorded as length + digests

static void record(Recorder* r, const MessageHeader& header, const void* payload) {
  if (!r->cbs.empty()) r->cbs.push_back(',');
  r->cbs += std::to_string((unsigned)(reinterpret_cast<uintptr_t>(&header) % 4));
  r->cbs.push_back(':');
  put_le(&r->cbs, header.sync[0], 1);
  put_le(&r->cbs, header.sync[1], 1);
  put_le(&r->cbs, header.reserved[0], 1);
  put_le(&r->cbs, header.reserved[1], 1);
  put_le(&r->cbs, header.crc, 4);
  put_le(&r->cbs, header.protocol_version, 1);
  put_le(&r->cbs, header.message_version, 1);
  put_le(&r->cbs, (uint16_t)header.message_type, 2);
  put_le(&r->cbs, header.sequence_number, 4);
  put_le(&r->cbs, header.payload_size_bytes, 4);
  put_le(&r->cbs, header.source_identifier, 4);
  const uint8_t* q = static_cast<const uint8_t*>(payload);
  if (header.payload_size_bytes > DIGEST_ABOVE) {
    // every payload byte is still read through the pointer (ASan checks the range)
    r->cbs += "#" + std::to_string(header.payload_size_bytes) + "." + std::to_string(adler32_of(q, header.payload_size_bytes)) +
              "." + std::to_string(crc32_of(q, header.payload_size_bytes));
  } else {
    put_hex(&r->cbs, q, header.payload_size_bytes);
  }
}

static void raw_cb(void* ctx, const MessageHeader&, const void*) { static_cast<Recorder*>(ctx)->n_raw++; }

static std::string state_of(const FusionEngineFramer& f) {
  return std::to_string((int)f.state_) + "|" + std::to_string(f.next_byte_index_) + "|" +
         std::to_string(f.current_message_size_);
}

// Files named by F operations, read once per process.
static const std::vector<uint8_t>* file_bytes(const std::string& path) {
  static std::vector<std::pair<std::string, std::vector<uint8_t>>> cache;
  for (auto& e : cache)
    if (e.first == path) return &e.second;
  FILE* f = fopen(path.c_str(), "rb");
  if (!f) return nullptr;
  std::vector<uint8_t> v;
  uint8_t buf[1 << 16];
  size_t n;
  while ((n = fread(buf, 1, sizeof(buf), f)) > 0) v.insert(v.end(), buf, buf + n);
  fclose(f);
  cache.emplace_back(path, std::move(v));
  return &cache.back().second;
}

// One framer object with its buffer, operations and record.
struct Unit {
  uint8_t* block = nullptr;
  std::unique_ptr<FusionEngineFramer> framer;
  Recorder rec;
  std::vector<std::string> ops;
  size_t next_op = 0;
  std::string out;
  std::string error;  // "bad-args" etc.

  bool construct(const std::string& cap_s, const std::string& mode, const std::string& ops_text) {
    size_t capacity = (size_t)strtoull(cap_s.c_str(), nullptr, 10);
    if (mode == "i") {
      framer.reset(new FusionEngineFramer(capacity));
    } else {
      int r = atoi(mode.c_str());
      if (mode.size() != 1 || r < 0 || r > 3) { error = "bad-args"; return false; }
      block = static_cast<uint8_t*>(malloc(capacity + r));
      if ((reinterpret_cast<uintptr_t>(block) & 3) != 0) { error = "bad-malloc-alignment"; return false; }
      framer.reset(new FusionEngineFramer(block + r, capacity));
    }
    Recorder* rp = &rec;
    framer->SetMessageCallback([rp](const MessageHeader& h, const void* p) {
      rp->n_function++;
      record(rp, h, p);
    });
    framer->SetMessageCallback(raw_cb, rp);
    framer->WarnOnError(false);
    out = "init|" + std::string(framer->buffer_ != nullptr ? "1" : "0") + "|" + std::to_string(framer->capacity_bytes_);
    if (ops_text != "=") {
      size_t pos = 0;
      while (pos != std::string::npos) {
        size_t comma = ops_text.find(',', pos);
        ops.push_back(ops_text.substr(pos, comma == std::string::npos ? std::string::npos : comma - pos));
        pos = comma == std::string::npos ? comma : comma + 1;
      }
    }
    return true;
  }

  bool pending() const { return error.empty() && next_op < ops.size(); }

  void on_data(const uint8_t* p, size_t n) {
    uint8_t* exact = static_cast<uint8_t*>(malloc(n));
    if (n) memcpy(exact, p, n);
    rec.cbs.clear();
    size_t ret = framer->OnData(exact, n);
    free(exact);
    out += (rec.cbs.empty() ? std::string("-") : rec.cbs) + "|" + std::to_string(ret) + "|" + state_of(*framer);
    if (rec.n_function != rec.n_raw) out += "!cbmismatch";
  }

  // Executes the next operation.
  void step() {
    if (!pending()) return;
    const std::string& op = ops[next_op++];
    out.push_back(';');
    if (op == "R") {
      framer->Reset();
      out += "R|" + state_of(*framer);
      return;
    }
    if (!op.empty() && op[0] == 'B') {
      size_t colon = op.find(':');
      if (colon == std::string::npos || op.size() < 2) { error = "bad-args"; return; }
      size_t c = (size_t)strtoull(op.c_str() + colon + 1, nullptr, 10);
      if (op[1] == 'i' && colon == 2) {
        framer->SetBuffer(nullptr, c);
        if (framer->is_buffer_managed_ && block != nullptr) {
          free(block);
          block = nullptr;
        }
      } else if (op[1] == 'u' && colon == 3 && op[2] >= '0' && op[2] <= '3') {
        size_t k = (size_t)(op[2] - '0');
        uint8_t* fresh = static_cast<uint8_t*>(malloc(c + k));
        if ((reinterpret_cast<uintptr_t>(fresh) & 3) != 0) { error = "bad-malloc-alignment"; return; }
        framer->SetBuffer(fresh + k, c);
        uintptr_t b = reinterpret_cast<uintptr_t>(framer->buffer_);
        uintptr_t lo = reinterpret_cast<uintptr_t>(fresh);
        if (framer->buffer_ != nullptr && !framer->is_buffer_managed_ && b >= lo && b <= lo + c + k) {
          free(block);
          block = fresh;
        } else {
          free(fresh);
        }
      } else {
        error = "bad-args";
        return;
      }
      out += "B|" + std::string(framer->buffer_ != nullptr ? "1" : "0") + "|" +
             std::to_string(framer->capacity_bytes_) + "|" + state_of(*framer);
      return;
    }
    if (!op.empty() && op[0] == 'F') {  // F<path>:<offset>:<length>
      size_t c2 = op.rfind(':');
      size_t c1 = c2 == std::string::npos || c2 == 0 ? std::string::npos : op.rfind(':', c2 - 1);
      if (c1 == std::string::npos) { error = "bad-args"; return; }
      const std::vector<uint8_t>* file = file_bytes(op.substr(1, c1 - 1));
      size_t off = (size_t)strtoull(op.c_str() + c1 + 1, nullptr, 10);
      size_t len = (size_t)strtoull(op.c_str() + c2 + 1, nullptr, 10);
      if (file == nullptr || off > file->size() || len > file->size() - off) { error = "bad-file"; return; }
      on_data(file->data() + off, len);
      return;
    }
    std::vector<uint8_t> data;
    if (!unhex(op, &data)) { error = "bad-args"; return; }
    on_data(data.data(), data.size());
  }

  std::string finish() {
    framer.reset();
    free(block);
    block = nullptr;
    return error.empty() ? out : error;
  }
};

static std::string run_request(const std::string& line) {
  std::istringstream is(line);
  std::string first;
  if (!(is >> first)) return "bad-args";
  if (first == "M") {
    // M <n> <schedule> (<capacity> <mode> <ops>) x n : n framer objects alive at the same time; schedule digit i = the
    // next operation of framer i; the rest runs framer by framer.  Answers joined by tabs.
    int n = 0;
    std::string sched;
    if (!(is >> n >> sched) || n < 1 || n > 4) return "bad-args";
    std::vector<std::unique_ptr<Unit>> units;
    for (int i = 0; i < n; ++i) {
      std::string cap_s, mode, ops;
      if (!(is >> cap_s >> mode >> ops)) return "bad-args";
      units.emplace_back(new Unit());
      units.back()->construct(cap_s, mode, ops);
    }
    for (char c : sched) {
      int i = c - '0';
      if (i >= 0 && i < n) units[i]->step();
    }
    for (auto& u : units)
      while (u->pending()) u->step();
    std::vector<std::string> texts(n);
    for (int i = n - 1; i >= 0; --i) texts[i] = units[i]->finish();
    std::string r;
    for (int i = 0; i < n; ++i) r += (i ? "\t" : "") + texts[i];
    return r;
  }
  std::string mode, ops;
  if (!(is >> mode >> ops)) return "bad-args";
  Unit u;
  if (u.construct(first, mode, ops)) {
    while (u.pending()) u.step();
  }
  return u.finish();
}

int main() {
  std::vector<std::string> lines;
  std::string line;
  while (std::getline(std::cin, line)) lines.push_back(line);
  std::vector<std::string> answers(lines.size(), "fault");
  size_t start = 0;
  int timeouts = 0;
  while (start < lines.size()) {
    int fd[2];
    if (pipe(fd) != 0) return 2;
    fflush(stdout);
    pid_t pid = fork();
    if (pid < 0) return 2;
    if (pid == 0) {
      close(fd[0]);
      FILE* w = fdopen(fd[1], "w");
      for (size_t i = start; i < lines.size(); ++i) {
        fprintf(stderr, "@request %zu\n", i);
        // a framer that does not terminate kills this child with SIGALRM (requests that read multi-megabyte files get longer)
        alarm(lines[i].find(",F") != std::string::npos || lines[i].find(" F") != std::string::npos ? 180 : 10);
        std::string a = run_request(lines[i]);
        alarm(0);
        fprintf(w, "%zu %s\n", i, a.c_str());
        fflush(w);
      }
      fclose(w);
      _exit(0);
    }
    close(fd[1]);
    FILE* r = fdopen(fd[0], "r");
    size_t last = start;
    bool any = false;
    char* buf = nullptr;
    size_t cap = 0;
    ssize_t n;
    while ((n = getline(&buf, &cap, r)) > 0) {
      if (buf[n - 1] != '\n') break;  // partial line from a dying child
      buf[n - 1] = 0;
      char* sp = strchr(buf, ' ');
      if (!sp) break;
      size_t idx = (size_t)strtoull(buf, nullptr, 10);
      if (idx >= lines.size()) break;
      answers[idx] = sp + 1;
      last = idx;
      any = true;
    }
    free(buf);
    fclose(r);
    int status = 0;
    waitpid(pid, &status, 0);
    size_t done = any ? last + 1 : start;  // first request without an answer
    if (done >= lines.size()) break;
    if (WIFSIGNALED(status) && WTERMSIG(status) == SIGALRM) {
      answers[done] = "timeout";
      if (++timeouts >= 2) {  // do not spend 10 s on each of thousands of requests
        for (size_t i = done + 1; i < lines.size(); ++i) answers[i] = "skipped";
        break;
      }
    }
    start = done + 1;  // request `done` killed the child: its answer stays "fault"
  }
  for (const auto& a : answers) puts(a.c_str());
  return 0;
}
