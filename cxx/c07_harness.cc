// C07 harness: drives the repository's FusionEngineFramer and records what it does.
//
// Built on every run by tools/props/c07.py from $FE_REPO/src:
//   clang++ -std=c++14 -O1 -g -fsanitize=address,undefined -fno-sanitize-recover=all -I$FE_REPO/src \
//       cxx/c07_harness.cc $FE_REPO/src/point_one/fusion_engine/parsers/fusion_engine_framer.cc \
//       $FE_REPO/src/point_one/fusion_engine/messages/crc.cc $FE_REPO/src/point_one/fusion_engine/common/logging.cc
//
// Line protocol (stdin -> stdout, one answer line per request line, same order) -- the same request and answer
// syntax as the Lean driver command `cxxframer` (lean/FeVerif/Driver/CxxFramer.lean):
//   <capacity> <mode> <op>,<op>,...
//     mode 0..3 : FusionEngineFramer(user_buf, capacity); user_buf is the last `capacity` bytes of a heap block of
//                 exactly capacity + mode bytes (malloc => 16-aligned), so user_buf % 4 == mode and the byte after
//                 the buffer is an ASan redzone
//          i    : FusionEngineFramer(capacity)  (internally allocated)
//     op   hex  : OnData() with these bytes, handed over in an exact-size heap block
//          -    : OnData(ptr, 0)
//          R    : Reset()
//          Bu<k>:<c> : SetBuffer(p, c) with p = the last c bytes of a new heap block of exactly c + k bytes (k = 0..3,
//                 so p % 4 == k).  When the framer took the new buffer (buffer_ lies inside the new block) the block
//                 of the previous caller-supplied buffer is freed, otherwise the new block is: at any time the only
//                 live caller storage is the exact-size block in use, and any access through a stale pointer or
//                 beyond the NEW capacity is a sanitizer report
//          Bi:<c>    : SetBuffer(nullptr, c); the previous caller block is freed when the framer then manages its buffer
//   answer: records joined by ';'
//     init|<buffer_ != nullptr>|<capacity_bytes_>
//     <a>:<hex>,...|<ret>|<state_>|<next_byte_index_>|<current_message_size_>   per OnData; one <a>:<hex> per callback,
//                 a = address of the header argument mod 4, hex = the header re-packed from its fields followed by
//                 payload_size_bytes bytes read through the payload pointer; '-' if there was no callback
//     R|<state_>|<next_byte_index_>|<current_message_size_>                      per Reset
//     B|<buffer_ != nullptr>|<capacity_bytes_>|<state_>|<next_byte_index_>|<current_message_size_>   per SetBuffer
//   Both callback kinds (std::function and raw function pointer) are installed; they must see the same calls
//   (otherwise the record carries "!cbmismatch").
//
// Requests are executed in a forked child; when a child dies (sanitizer report, signal) during request i, the
// answer of request i is "fault" ("timeout" if the request ran for more than 10 s and was killed by alarm()) and a
// new child continues with request i + 1; after the second timeout the remaining requests are answered "skipped".
// Sanitizer reports go to stderr.
#include <signal.h>
#include <sys/wait.h>
#include <unistd.h>

#include <cstdint>
#include <cstdio>
#include <cstdlib>
#include <cstring>
#include <functional>
#include <iostream>
#include <memory>
#include <ostream>
#include <sstream>
#include <string>
#include <vector>

#define private public
#include "point_one/fusion_engine/parsers/fusion_engine_framer.h"
#undef private

using point_one::fusion_engine::messages::MessageHeader;
using point_one::fusion_engine::parsers::FusionEngineFramer;

static bool unhex(const std::string& h, std::vector<uint8_t>* out) {
  out->clear();
  if (h == "-") return true;
  if (h.size() % 2) return false;
  for (size_t i = 0; i < h.size(); i += 2) {
    int v = 0;
    for (int k = 0; k < 2; ++k) {
      char c = h[i + k];
      int d = (c >= '0' && c <= '9') ? c - '0' : (c >= 'a' && c <= 'f') ? c - 'a' + 10 : -1;
      if (d < 0) return false;
      v = v * 16 + d;
    }
    out->push_back((uint8_t)v);
  }
  return true;
}

static void put_hex(std::string* s, const uint8_t* p, size_t n) {
  static const char* d = "0123456789abcdef";
  for (size_t i = 0; i < n; ++i) {
    s->push_back(d[p[i] >> 4]);
    s->push_back(d[p[i] & 15]);
  }
}

static void put_le(std::string* s, uint64_t v, int n) {
  uint8_t b[8];
  for (int i = 0; i < n; ++i) b[i] = (uint8_t)(v >> (8 * i));
  put_hex(s, b, n);
}

struct Recorder {
  std::string cbs;
  int n_function = 0;
  int n_raw = 0;
};

static void record(Recorder* r, const MessageHeader& header, const void* payload) {
  if (!r->cbs.empty()) r->cbs.push_back(',');
  r->cbs += std::to_string((unsigned)(reinterpret_cast<uintptr_t>(&header) % 4));
  r->cbs.push_back(':');
  put_le(&r->cbs, header.sync[0], 1);
  put_le(&r->cbs, header.sync[1], 1);
  put_le(&r->cbs, header.reserved[0], 1);
  put_le(&r->cbs, header.reserved[1], 1);
  put_le(&r->cbs, header.crc, 4);
  put_le(&r->cbs, header.protocol_version, 1);
  put_le(&r->cbs, header.message_version, 1);
  put_le(&r->cbs, (uint16_t)header.message_type, 2);
  put_le(&r->cbs, header.sequence_number, 4);
  put_le(&r->cbs, header.payload_size_bytes, 4);
  put_le(&r->cbs, header.source_identifier, 4);
  put_hex(&r->cbs, static_cast<const uint8_t*>(payload), header.payload_size_bytes);
}

static void raw_cb(void* ctx, const MessageHeader&, const void*) { static_cast<Recorder*>(ctx)->n_raw++; }

static std::string state_of(const FusionEngineFramer& f) {
  return std::to_string((int)f.state_) + "|" + std::to_string(f.next_byte_index_) + "|" +
         std::to_string(f.current_message_size_);
}

static std::string run_request(const std::string& line) {
  std::istringstream is(line);
  std::string cap_s, mode, ops;
  if (!(is >> cap_s >> mode >> ops)) return "bad-args";
  size_t capacity = (size_t)strtoull(cap_s.c_str(), nullptr, 10);
  uint8_t* block = nullptr;
  std::unique_ptr<FusionEngineFramer> framer;
  if (mode == "i") {
    framer.reset(new FusionEngineFramer(capacity));
  } else {
    int r = atoi(mode.c_str());
    if (r < 0 || r > 3) return "bad-args";
    block = static_cast<uint8_t*>(malloc(capacity + r));
    if ((reinterpret_cast<uintptr_t>(block) & 3) != 0) return "bad-malloc-alignment";
    framer.reset(new FusionEngineFramer(block + r, capacity));
  }
  Recorder rec;
  framer->SetMessageCallback([&rec](const MessageHeader& h, const void* p) {
    rec.n_function++;
    record(&rec, h, p);
  });
  framer->SetMessageCallback(raw_cb, &rec);
  framer->WarnOnError(false);

  std::string out = "init|" + std::string(framer->buffer_ != nullptr ? "1" : "0") + "|" +
                    std::to_string(framer->capacity_bytes_);
  std::vector<uint8_t> data;
  size_t pos = 0;
  if (ops == "=") pos = std::string::npos;
  while (pos != std::string::npos) {
    size_t comma = ops.find(',', pos);
    std::string op = ops.substr(pos, comma == std::string::npos ? std::string::npos : comma - pos);
    pos = comma == std::string::npos ? comma : comma + 1;
    out.push_back(';');
    if (op == "R") {
      framer->Reset();
      out += "R|" + state_of(*framer);
      continue;
    }
    if (op[0] == 'B') {
      size_t colon = op.find(':');
      if (colon == std::string::npos || op.size() < 2) return "bad-args";
      size_t c = (size_t)strtoull(op.c_str() + colon + 1, nullptr, 10);
      if (op[1] == 'i' && colon == 2) {
        framer->SetBuffer(nullptr, c);
        if (framer->is_buffer_managed_ && block != nullptr) {
          free(block);
          block = nullptr;
        }
      } else if (op[1] == 'u' && colon == 3 && op[2] >= '0' && op[2] <= '3') {
        size_t k = (size_t)(op[2] - '0');
        uint8_t* fresh = static_cast<uint8_t*>(malloc(c + k));
        if ((reinterpret_cast<uintptr_t>(fresh) & 3) != 0) return "bad-malloc-alignment";
        framer->SetBuffer(fresh + k, c);
        uintptr_t b = reinterpret_cast<uintptr_t>(framer->buffer_);
        uintptr_t lo = reinterpret_cast<uintptr_t>(fresh);
        if (framer->buffer_ != nullptr && !framer->is_buffer_managed_ && b >= lo && b <= lo + c + k) {
          free(block);
          block = fresh;
        } else {
          free(fresh);
        }
      } else {
        return "bad-args";
      }
      out += "B|" + std::string(framer->buffer_ != nullptr ? "1" : "0") + "|" +
             std::to_string(framer->capacity_bytes_) + "|" + state_of(*framer);
      continue;
    }
    if (!unhex(op, &data)) return "bad-args";
    uint8_t* exact = static_cast<uint8_t*>(malloc(data.size()));
    if (!data.empty()) memcpy(exact, data.data(), data.size());
    rec.cbs.clear();
    size_t ret = framer->OnData(exact, data.size());
    free(exact);
    out += (rec.cbs.empty() ? std::string("-") : rec.cbs) + "|" + std::to_string(ret) + "|" + state_of(*framer);
    if (rec.n_function != rec.n_raw) out += "!cbmismatch";
  }
  framer.reset();
  free(block);
  return out;
}

int main() {
  std::vector<std::string> lines;
  std::string line;
  while (std::getline(std::cin, line)) lines.push_back(line);
  std::vector<std::string> answers(lines.size(), "fault");
  size_t start = 0;
  int timeouts = 0;
  while (start < lines.size()) {
    int fd[2];
    if (pipe(fd) != 0) return 2;
    fflush(stdout);
    pid_t pid = fork();
    if (pid < 0) return 2;
    if (pid == 0) {
      close(fd[0]);
      FILE* w = fdopen(fd[1], "w");
      for (size_t i = start; i < lines.size(); ++i) {
        fprintf(stderr, "@request %zu\n", i);
        alarm(10);  // a framer that does not terminate kills this child with SIGALRM
        std::string a = run_request(lines[i]);
        alarm(0);
        fprintf(w, "%zu %s\n", i, a.c_str());
        fflush(w);
      }
      fclose(w);
      _exit(0);
    }
    close(fd[1]);
    FILE* r = fdopen(fd[0], "r");
    size_t last = start;
    bool any = false;
    char* buf = nullptr;
    size_t cap = 0;
    ssize_t n;
    while ((n = getline(&buf, &cap, r)) > 0) {
      if (buf[n - 1] != '\n') break;  // partial line from a dying child
      buf[n - 1] = 0;
      char* sp = strchr(buf, ' ');
      if (!sp) break;
      size_t idx = (size_t)strtoull(buf, nullptr, 10);
      if (idx >= lines.size()) break;
      answers[idx] = sp + 1;
      last = idx;
      any = true;
    }
    free(buf);
    fclose(r);
    int status = 0;
    waitpid(pid, &status, 0);
    size_t done = any ? last + 1 : start;  // first request without an answer
    if (done >= lines.size()) break;
    if (WIFSIGNALED(status) && WTERMSIG(status) == SIGALRM) {
      answers[done] = "timeout";
      if (++timeouts >= 2) {  // do not spend 10 s on each of thousands of requests
        for (size_t i = done + 1; i < lines.size(); ++i) answers[i] = "skipped";
        break;
      }
    }
    start = done + 1;  // request `done` killed the child: its answer stays "fault"
  }
  for (const auto& a : answers) puts(a.c_str());
  return 0;
}
