// C14 correspondence harness for point_one::rtcm::RTCMFramer.
//
// Compiled on every run from $FE_REPO/src with clang++ -fsanitize=address,undefined (see tools/props/c14.py).
// One request per line on stdin, one answer per line on stdout (flushed after every line, so that after a
// sanitizer abort the caller knows which request was being processed):
//
//   <spec> <capacity> <op,op,...>
//     spec  i          RTCMFramer(capacity)            (buffer allocated by the framer)
//           u<k>       RTCMFramer(base + k, capacity)  base = malloc(k + capacity): exact-size heap block
//           n          RTCMFramer()                    (no buffer)
//     op    <hex>      OnData(bytes)    "-" = OnData with 0 bytes
//           R          Reset()
//           Q / q      WarnOnError(false) / WarnOnError(true)
//           Bi:<c>     SetBuffer(nullptr, c)
//           Bu<k>:<c>  SetBuffer(base + k, c) on a new exact-size heap block
//           "="        no operations
//   M <n> <schedule> <spec> <capacity> <ops> ... (n times)
//     n framers (n <= 4) alive in this process at the same time, each with its own buffer, operations and callback
//     function.  <schedule> is a string of digits: digit i = execute the next operation of framer i (operations left
//     over run afterwards, framer by framer).  Answer: the n answers joined by tab characters - each must be what
//     the single-framer request `<spec> <capacity> <ops>` answers: framer objects are independent of each other.
//
//   L <spec> <capacity> <seed> <chunkseed> <maxchunk> <events> <item:item:...>
//     LONG run of one framer object.  The stream is generated here (nothing long crosses the pipe): item number i of
//     the stream is items[r_i % #items], r_i = i-th output of xorshift64* seeded with <seed> (the caller runs the same
//     generator and so knows the stream).  It is fed in pieces of 1..<maxchunk> bytes (sizes from a second generator
//     seeded with <chunkseed>; pieces cross item boundaries).  <events> is an ascending comma list of "<n>" (after n
//     items: feed whatever is still held back, report) and "R<n>" (the same, then Reset(), then report).  Answer:
//       L|<state>;K|<items>|<callbacks so far>|<callbacks since Reset>|<sum of OnData returns>|<sum of callback
//       lengths>|<digest>|<state>;R|...   followed by " ok" or complaints
//     digest: running FNV-style mix over (type, length, fnv1a64(bytes)) of every callback since the start.
//
// Answer: the same text the Lean model prints for `rtcm <spec> <capacity> <ops>`:
//   C|<state>;D|<callbacks>|<return>|<state>;R|<state>;...      followed by " " and "ok" or a list of harness-side
//   complaints (callback pointer not buffer_, not 4-byte aligned).
//   <state> = hasbuf|capacity_bytes_|state_|next_byte_index_|current_message_size_|decoded|errors|0
//   <callbacks> = type:length:fnv1a64 joined by "/"
#include <cstdint>
#include <cstdio>
#include <cstdlib>
#include <cstring>
#include <iostream>
#include <sstream>
#include <string>
#include <vector>

#define private public
#include "point_one/rtcm/rtcm_framer.h"
#undef private

using point_one::rtcm::RTCMFramer;

// Up to MAX_UNITS framer objects can be alive at the same time (request form "M", see below); each has its own
// callback function (the callback type is a plain function pointer without a context argument) and its own record.
static const int MAX_UNITS = 4;
struct Unit {
  RTCMFramer* f = nullptr;
  std::ostringstream out;
  std::ostringstream cbs;
  bool first_cb = true;
  std::string complaints;
  std::vector<void*> blocks;
  std::vector<std::string> ops;
  size_t next_op = 0;
  bool bad = false;
};
static Unit* g_units[MAX_UNITS] = {nullptr, nullptr, nullptr, nullptr};

static uint64_t Fnv64(const uint8_t* p, size_t n) {
  uint64_t h = 0xcbf29ce484222325ULL;
  for (size_t i = 0; i < n; ++i) {
    h ^= p[i];
    h *= 0x100000001b3ULL;
  }
  return h;
}

template <int I>
static void Callback(uint16_t type, const void* data, size_t len) {
  Unit* u = g_units[I];
  if (u == nullptr) return;
  const uint8_t* p = static_cast<const uint8_t*>(data);
  if (!u->first_cb) u->cbs << "/";
  u->first_cb = false;
  // Reads every byte handed to the callback: ASan checks [data, data + len).
  u->cbs << type << ":" << len << ":" << Fnv64(p, len);
  if (u->f != nullptr && p != u->f->buffer_) u->complaints += "callback-pointer-not-buffer,";
  if (reinterpret_cast<uintptr_t>(p) % 4 != 0) u->complaints += "callback-pointer-misaligned,";
}
static const RTCMFramer::MessageCallback kCallbacks[MAX_UNITS] = {Callback<0>, Callback<1>, Callback<2>, Callback<3>};

static std::string StateText(const RTCMFramer& f) {
  std::ostringstream o;
  o << (f.buffer_ != nullptr ? 1 : 0) << "|" << f.capacity_bytes_ << "|" << static_cast<int>(f.state_) << "|"
    << f.next_byte_index_ << "|" << f.current_message_size_ << "|" << f.GetNumDecodedMessages() << "|"
    << f.GetNumErrors() << "|0";
  return o.str();
}

static bool ParseHex(const std::string& s, std::vector<uint8_t>* out) {
  if (s.size() % 2) return false;
  auto val = [](char c) -> int {
    if (c >= '0' && c <= '9') return c - '0';
    if (c >= 'a' && c <= 'f') return c - 'a' + 10;
    if (c >= 'A' && c <= 'F') return c - 'A' + 10;
    return -1;
  };
  for (size_t i = 0; i < s.size(); i += 2) {
    int a = val(s[i]), b = val(s[i + 1]);
    if (a < 0 || b < 0) return false;
    out->push_back(static_cast<uint8_t>(a * 16 + b));
  }
  return true;
}

// "u<k>" -> exact-size heap block, returns base + k.
static uint8_t* UserBuffer(Unit* u, size_t k, size_t capacity) {
  uint8_t* base = static_cast<uint8_t*>(malloc(k + capacity == 0 ? 1 : k + capacity));
  if (reinterpret_cast<uintptr_t>(base) % 4 != 0) {
    u->complaints += "malloc-not-4-aligned,";
  }
  u->blocks.push_back(base);
  return base + k;
}

// Constructs the framer of unit `index`.
static bool Construct(int index, const std::string& spec, unsigned long long capacity, const std::string& ops_text) {
  Unit* u = new Unit();
  g_units[index] = u;
  if (spec == "i") {
    u->f = new RTCMFramer(static_cast<size_t>(capacity));
  } else if (spec == "n") {
    u->f = new RTCMFramer();
  } else if (spec.size() >= 2 && spec[0] == 'u') {
    size_t k = strtoull(spec.c_str() + 1, nullptr, 10);
    u->f = new RTCMFramer(UserBuffer(u, k, capacity), static_cast<size_t>(capacity));
  } else {
    return false;
  }
  u->f->SetMessageCallback(kCallbacks[index]);
  u->out << "C|" << StateText(*u->f);
  if (ops_text != "=") {
    std::istringstream ops(ops_text);
    std::string op;
    while (std::getline(ops, op, ',')) u->ops.push_back(op);
  }
  return true;
}

// Executes the next operation of a unit (nothing if it has none left).
static void Step(Unit* u) {
  if (u->bad || u->next_op >= u->ops.size()) return;
  const std::string& op = u->ops[u->next_op++];
  RTCMFramer* f = u->f;
  std::ostringstream& out = u->out;
  out << ";";
  if (op == "R") {
    f->Reset();
    out << "R|" << StateText(*f);
  } else if (op == "Q" || op == "q") {
    f->WarnOnError(op == "q");
    out << op << "|" << StateText(*f);
  } else if (op.size() >= 2 && op[0] == 'B') {
    size_t colon = op.find(':');
    if (colon == std::string::npos) { u->bad = true; return; }
    size_t c = strtoull(op.c_str() + colon + 1, nullptr, 10);
    if (op[1] == 'i') {
      f->SetBuffer(nullptr, c);
    } else if (op[1] == 'u') {
      size_t k = strtoull(op.c_str() + 2, nullptr, 10);
      f->SetBuffer(UserBuffer(u, k, c), c);
    } else { u->bad = true; return; }
    out << "B|" << StateText(*f);
  } else {
    std::vector<uint8_t> data;
    if (op != "-" && !ParseHex(op, &data)) { u->bad = true; return; }
    // The input is an exact-size heap block as well (reads past the caller's data are caught).
    uint8_t* copy = static_cast<uint8_t*>(malloc(data.empty() ? 1 : data.size()));
    if (!data.empty()) memcpy(copy, data.data(), data.size());
    u->cbs.str("");
    u->first_cb = true;
    size_t ret = f->OnData(copy, data.size());
    free(copy);
    out << "D|" << u->cbs.str() << "|" << ret << "|" << StateText(*f);
  }
}

// Destroys the framer of a unit and returns its answer text.
static std::string Finish(int index) {
  Unit* u = g_units[index];
  if (u == nullptr) return "bad-args";
  RTCMFramer* f = u->f;
  u->f = nullptr;
  delete f;
  for (void* b : u->blocks) free(b);
  std::string r = u->bad ? std::string("bad-args") : u->out.str() + " " + (u->complaints.empty() ? "ok" : u->complaints);
  g_units[index] = nullptr;
  delete u;
  return r;
}

// ---- long runs (request form "L") ---------------------------------------------------------------------------------
struct LongRec {
  RTCMFramer* f = nullptr;
  unsigned long long cbs_total = 0, cbs_since_reset = 0, cb_len_total = 0;
  uint64_t digest = 0xcbf29ce484222325ULL;
  std::string complaints;
};
static LongRec* g_long = nullptr;

static void LongCallback(uint16_t type, const void* data, size_t len) {
  LongRec* r = g_long;
  if (r == nullptr) return;
  const uint8_t* p = static_cast<const uint8_t*>(data);
  uint64_t parts[3] = {type, static_cast<uint64_t>(len), Fnv64(p, len)};   // reads [data, data + len)
  for (uint64_t x : parts) {
    r->digest ^= x;
    r->digest *= 0x100000001b3ULL;
  }
  ++r->cbs_total;
  ++r->cbs_since_reset;
  r->cb_len_total += len;
  if (r->f != nullptr && p != r->f->buffer_ && r->complaints.empty()) r->complaints += "callback-pointer-not-buffer,";
  if (reinterpret_cast<uintptr_t>(p) % 4 != 0 && r->complaints.empty()) r->complaints += "callback-pointer-misaligned,";
}

struct XorShift {
  uint64_t x;
  uint32_t Next() {
    x ^= x >> 12;
    x ^= x << 25;
    x ^= x >> 27;
    return static_cast<uint32_t>((x * 0x2545F4914F6CDD1DULL) >> 32);
  }
};

static std::string RunLong(std::istringstream& in) {
  std::string spec, events_text, items_text;
  unsigned long long capacity = 0, seed = 0, chunkseed = 0, maxchunk = 0;
  if (!(in >> spec >> capacity >> seed >> chunkseed >> maxchunk >> events_text >> items_text)) return "bad-args";
  if (seed == 0 || chunkseed == 0 || maxchunk == 0) return "bad-args";
  std::vector<std::vector<uint8_t>> items;
  {
    std::istringstream is(items_text);
    std::string it;
    while (std::getline(is, it, ':')) {
      std::vector<uint8_t> b;
      if (it.empty() || !ParseHex(it, &b)) return "bad-args";
      items.push_back(b);
    }
  }
  if (items.empty()) return "bad-args";
  Unit blocks;   // owner of a caller-supplied buffer
  LongRec rec;
  if (spec == "i") {
    rec.f = new RTCMFramer(static_cast<size_t>(capacity));
  } else if (spec.size() >= 2 && spec[0] == 'u') {
    size_t k = strtoull(spec.c_str() + 1, nullptr, 10);
    rec.f = new RTCMFramer(UserBuffer(&blocks, k, capacity), static_cast<size_t>(capacity));
  } else {
    return "bad-args";
  }
  g_long = &rec;
  rec.f->SetMessageCallback(LongCallback);
  std::ostringstream out;
  out << "L|" << StateText(*rec.f);
  XorShift gen{seed}, cgen{chunkseed};
  std::vector<uint8_t> pend;
  size_t pend_off = 0;
  unsigned long long n_items = 0, ret_total = 0;
  size_t next_chunk = 1 + cgen.Next() % maxchunk;
  auto feed = [&](size_t n) {
    uint8_t* copy = static_cast<uint8_t*>(malloc(n == 0 ? 1 : n));   // exact-size block
    memcpy(copy, pend.data() + pend_off, n);
    ret_total += rec.f->OnData(copy, n);
    free(copy);
    pend_off += n;
    if (pend_off == pend.size()) {
      pend.clear();
      pend_off = 0;
    }
  };
  bool bad = false;
  std::istringstream es(events_text);
  std::string ev;
  while (std::getline(es, ev, ',')) {
    bool reset = !ev.empty() && ev[0] == 'R';
    unsigned long long target = strtoull(ev.c_str() + (reset ? 1 : 0), nullptr, 10);
    if (target < n_items) { bad = true; break; }
    while (n_items < target) {
      const std::vector<uint8_t>& it = items[gen.Next() % items.size()];
      pend.insert(pend.end(), it.begin(), it.end());
      ++n_items;
      while (pend.size() - pend_off >= next_chunk) {
        feed(next_chunk);
        next_chunk = 1 + cgen.Next() % maxchunk;
      }
    }
    if (pend.size() > pend_off) feed(pend.size() - pend_off);
    if (reset) {
      rec.f->Reset();
      rec.cbs_since_reset = 0;
    }
    out << ";" << (reset ? "R" : "K") << "|" << n_items << "|" << rec.cbs_total << "|" << rec.cbs_since_reset << "|"
        << ret_total << "|" << rec.cb_len_total << "|" << rec.digest << "|" << StateText(*rec.f);
  }
  RTCMFramer* f = rec.f;
  rec.f = nullptr;
  g_long = nullptr;
  delete f;
  for (void* b : blocks.blocks) free(b);
  if (bad) return "bad-args";
  std::string complaints = blocks.complaints + rec.complaints;
  return out.str() + " " + (complaints.empty() ? "ok" : complaints);
}

static std::string RunLine(const std::string& line) {
  std::istringstream in(line);
  std::string first;
  if (!(in >> first)) return "bad-args";
  if (first == "L") return RunLong(in);
  if (first == "M") {
    // Several framers alive at once: all are constructed, then the schedule says whose next operation runs, then
    // whatever is left runs unit by unit, then all are destroyed.  One answer text per unit, joined by tabs.
    int n = 0;
    std::string sched;
    if (!(in >> n >> sched) || n < 1 || n > MAX_UNITS) return "bad-args";
    bool ok = true;
    int built = 0;
    for (int i = 0; i < n && ok; ++i) {
      std::string spec, ops_text;
      unsigned long long capacity = 0;
      if (!(in >> spec >> capacity >> ops_text)) { ok = false; break; }
      ok = Construct(i, spec, capacity, ops_text);
      built = i + 1;
    }
    if (ok) {
      for (char c : sched) {
        int i = c - '0';
        if (i >= 0 && i < n) Step(g_units[i]);
      }
      for (int i = 0; i < n; ++i) {
        while (!g_units[i]->bad && g_units[i]->next_op < g_units[i]->ops.size()) Step(g_units[i]);
      }
    }
    std::string r;
    // destroyed in reverse order of construction
    std::vector<std::string> texts(built);
    for (int i = built - 1; i >= 0; --i) texts[i] = Finish(i);
    if (!ok) return "bad-args";
    for (int i = 0; i < n; ++i) r += (i ? "\t" : "") + texts[i];
    return r;
  }
  std::string ops_text;
  unsigned long long capacity = 0;
  if (!(in >> capacity >> ops_text)) return "bad-args";
  if (!Construct(0, first, capacity, ops_text)) {
    Finish(0);
    return "bad-args";
  }
  while (!g_units[0]->bad && g_units[0]->next_op < g_units[0]->ops.size()) Step(g_units[0]);
  return Finish(0);
}

int main() {
  std::string line;
  while (std::getline(std::cin, line)) {
    if (!line.empty() && line.back() == '\r') line.pop_back();
    std::string r = RunLine(line);
    fputs(r.c_str(), stdout);
    fputc('\n', stdout);
    fflush(stdout);
  }
  return 0;
}
