// C14 correspondence harness for point_one::rtcm::RTCMFramer.
//
// Compiled on every run from $FE_REPO/src with clang++ -fsanitize=address,undefined (see tools/props/c14.py).
// One request per line on stdin, one answer per line on stdout (flushed after every line, so that after a
// sanitizer abort the caller knows which request was being processed):
//
//   <spec> <capacity> <op,op,...>
//     spec  i          RTCMFramer(capacity)            (buffer allocated by the framer)
//           u<k>       RTCMFramer(base + k, capacity)  base = malloc(k + capacity): exact-size heap block
//           n          RTCMFramer()                    (no buffer)
//     op    <hex>      OnData(bytes)    "-" = OnData with 0 bytes
//           R          Reset()
//           Q / q      WarnOnError(false) / WarnOnError(true)
//           Bi:<c>     SetBuffer(nullptr, c)
//           Bu<k>:<c>  SetBuffer(base + k, c) on a new exact-size heap block
//           "="        no operations
//
// Answer: the same text the Lean model prints for `rtcm <spec> <capacity> <ops>`:
//   C|<state>;D|<callbacks>|<return>|<state>;R|<state>;...      followed by " " and "ok" or a list of harness-side
//   complaints (callback pointer not buffer_, not 4-byte aligned).
//   <state> = hasbuf|capacity_bytes_|state_|next_byte_index_|current_message_size_|decoded|errors|0
//   <callbacks> = type:length:fnv1a64 joined by "/"
#include <cstdint>
#include <cstdio>
#include <cstdlib>
#include <cstring>
#include <iostream>
#include <sstream>
#include <string>
#include <vector>

#define private public
#include "point_one/rtcm/rtcm_framer.h"
#undef private

using point_one::rtcm::RTCMFramer;

static RTCMFramer* g_framer = nullptr;
static std::ostringstream g_cbs;
static bool g_first_cb = true;
static std::string g_complaints;

static uint64_t Fnv64(const uint8_t* p, size_t n) {
  uint64_t h = 0xcbf29ce484222325ULL;
  for (size_t i = 0; i < n; ++i) {
    h ^= p[i];
    h *= 0x100000001b3ULL;
  }
  return h;
}

static void Callback(uint16_t type, const void* data, size_t len) {
  const uint8_t* p = static_cast<const uint8_t*>(data);
  if (!g_first_cb) g_cbs << "/";
  g_first_cb = false;
  // Reads every byte handed to the callback: ASan checks [data, data + len).
  g_cbs << type << ":" << len << ":" << Fnv64(p, len);
  if (g_framer != nullptr && p != g_framer->buffer_) g_complaints += "callback-pointer-not-buffer,";
  if (reinterpret_cast<uintptr_t>(p) % 4 != 0) g_complaints += "callback-pointer-misaligned,";
}

static std::string StateText(const RTCMFramer& f) {
  std::ostringstream o;
  o << (f.buffer_ != nullptr ? 1 : 0) << "|" << f.capacity_bytes_ << "|" << static_cast<int>(f.state_) << "|"
    << f.next_byte_index_ << "|" << f.current_message_size_ << "|" << f.GetNumDecodedMessages() << "|"
    << f.GetNumErrors() << "|0";
  return o.str();
}

static bool ParseHex(const std::string& s, std::vector<uint8_t>* out) {
  if (s.size() % 2) return false;
  auto val = [](char c) -> int {
    if (c >= '0' && c <= '9') return c - '0';
    if (c >= 'a' && c <= 'f') return c - 'a' + 10;
    if (c >= 'A' && c <= 'F') return c - 'A' + 10;
    return -1;
  };
  for (size_t i = 0; i < s.size(); i += 2) {
    int a = val(s[i]), b = val(s[i + 1]);
    if (a < 0 || b < 0) return false;
    out->push_back(static_cast<uint8_t>(a * 16 + b));
  }
  return true;
}

// "u<k>" -> exact-size heap block, returns base + k.
static uint8_t* UserBuffer(size_t k, size_t capacity, std::vector<void*>* blocks) {
  uint8_t* base = static_cast<uint8_t*>(malloc(k + capacity == 0 ? 1 : k + capacity));
  if (reinterpret_cast<uintptr_t>(base) % 4 != 0) {
    g_complaints += "malloc-not-4-aligned,";
  }
  blocks->push_back(base);
  return base + k;
}

static std::string RunLine(const std::string& line) {
  std::istringstream in(line);
  std::string spec, ops_text;
  unsigned long long capacity = 0;
  if (!(in >> spec >> capacity >> ops_text)) return "bad-args";
  std::vector<void*> blocks;
  std::ostringstream out;
  g_complaints.clear();
  RTCMFramer* f = nullptr;
  if (spec == "i") {
    f = new RTCMFramer(static_cast<size_t>(capacity));
  } else if (spec == "n") {
    f = new RTCMFramer();
  } else if (spec.size() >= 2 && spec[0] == 'u') {
    size_t k = strtoull(spec.c_str() + 1, nullptr, 10);
    f = new RTCMFramer(UserBuffer(k, capacity, &blocks), static_cast<size_t>(capacity));
  } else {
    return "bad-args";
  }
  g_framer = f;
  f->SetMessageCallback(Callback);
  out << "C|" << StateText(*f);
  bool bad = false;
  if (ops_text != "=") {
    std::istringstream ops(ops_text);
    std::string op;
    while (std::getline(ops, op, ',')) {
      out << ";";
      if (op == "R") {
        f->Reset();
        out << "R|" << StateText(*f);
      } else if (op == "Q" || op == "q") {
        f->WarnOnError(op == "q");
        out << op << "|" << StateText(*f);
      } else if (op.size() >= 2 && op[0] == 'B') {
        size_t colon = op.find(':');
        if (colon == std::string::npos) { bad = true; break; }
        size_t c = strtoull(op.c_str() + colon + 1, nullptr, 10);
        if (op[1] == 'i') {
          f->SetBuffer(nullptr, c);
        } else if (op[1] == 'u') {
          size_t k = strtoull(op.c_str() + 2, nullptr, 10);
          f->SetBuffer(UserBuffer(k, c, &blocks), c);
        } else { bad = true; break; }
        out << "B|" << StateText(*f);
      } else {
        std::vector<uint8_t> data;
        if (op != "-" && !ParseHex(op, &data)) { bad = true; break; }
        // The input is an exact-size heap block as well (reads past the caller's data are caught).
        uint8_t* copy = static_cast<uint8_t*>(malloc(data.empty() ? 1 : data.size()));
        if (!data.empty()) memcpy(copy, data.data(), data.size());
        g_cbs.str("");
        g_first_cb = true;
        size_t ret = f->OnData(copy, data.size());
        free(copy);
        out << "D|" << g_cbs.str() << "|" << ret << "|" << StateText(*f);
      }
    }
  }
  g_framer = nullptr;
  delete f;
  for (void* b : blocks) free(b);
  if (bad) return "bad-args";
  out << " " << (g_complaints.empty() ? "ok" : g_complaints);
  return out.str();
}

int main() {
  std::string line;
  while (std::getline(std::cin, line)) {
    if (!line.empty() && line.back() == '\r') line.pop_back();
    std::string r = RunLine(line);
    fputs(r.c_str(), stdout);
    fputc('\n', stdout);
    fflush(stdout);
  }
  return 0;
}
