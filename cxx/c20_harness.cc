// C20 harness: runs the repository's DataVersion text conversion and comparison operators.
//
// Built on every run by tools/props/c20.py from $FE_REPO/src:
//   clang++ -std=c++14 -O1 -g -fsanitize=address,undefined -I$FE_REPO/src \
//       cxx/c20_harness.cc $FE_REPO/src/point_one/fusion_engine/messages/data_version.cc
//
// Line protocol (stdin -> stdout, one answer line per request line, same order):
//   p <hex>             FromString(const char*) on the bytes, copied into an exact-size heap block
//                       (malloc(len + 1), NUL at [len]) so that reading [len + 1] is a heap-buffer-overflow
//                         -> "ok <major> <minor>" | "invalid"
//   s <hex>             the same through the std::string overload          -> as above
//   f <major> <minor>   ToString(DataVersion{major, minor})                 -> "<hex of the text>"
//   o <major> <minor>   operator<< into a std::ostringstream                -> "<hex of the text>"
//   c <M1> <m1> <M2> <m2>   the six operators a?b in the order == != < > <= >= -> six 0/1 digits
//   v <major> <minor>   IsValid()                                           -> 0 | 1
//   r <Mlo> <Mhi> <mlo> <mhi>   for every version in the box (inclusive): text = ToString(v), copied to an
//                       exact-size heap block, back = FromString(text).  -> "<count> <bad> <fnv1a64 of all
//                       texts, each followed by '\n'> <first bad as M.m or ->"
//                       bad = back != v (field-wise) for a valid v, or back valid for the invalid v.
//   t <hex> <start>     strtol(p + start, &end, 10) on the exact-size heap copy (start <= length)
//                         -> "<value> <end - p>"            (validates the model of strtol itself)
//   q <hex>             FromStringBeforeFix() below: the function as it was before repository commit a4e1937, kept
//                       here verbatim so that the model of strtol (blanks, signs, clamping, where it stops reading)
//                       and the theorems about the old code stay tied to libc under ASan  -> as `p`
//   "-" as <hex> is the empty string.
//
// The environment of a request.  A request may start with "@<k> ": the request is then executed with a C++ locale
// whose numpunct facet groups digits (no system locale is needed; the facet is built here), and the classic locale is
// restored afterwards:
//   k = 1..4    std::locale::global(L_k) - what an application does with std::locale::global(std::locale("")) - so that
//               every stream constructed afterwards (inside ToString(), and the user's stream of `o`/`O`) carries it
//   k = 11..14  the global locale stays classic; only the user's stream of `o`/`O` is imbue()d with L_(k-10)
//   L_1: grouping "\3", thousands ',', decimal point '.'     L_2: grouping "\3", thousands '.', decimal point ','
//   L_3: grouping "\1", thousands ' ', decimal point ';'     L_4: grouping "\2\3", thousands '\'', decimal point '.'
//
// DataVersion objects as a receiver gets them: <w> is 8 hex digits = the 4 wire bytes reserved, major, minor (little
// endian), copied into a DataVersion with memcpy (the constructors always produce reserved = 0xFF).
//   C <w> <w>           the six operators on two such objects                -> six 0/1 digits, as `c`
//   W <w>               v = the object; text = ToString(v); otext = operator<<; back = FromString(text) (exact-size block)
//                         -> "<hex text> <hex otext> <back as ok:M:m | invalid> <IsValid(v)> <seven 0/1 digits>"
//                       digits: back==v, v==back, !(back!=v), !(back<v), !(back>v), back<=v, back>=v
//   r <Mlo> <Mhi> <mlo> <mhi> <reserved>   as `r`, every v built from wire bytes with that reserved byte; a version
//                       is also bad when back == v (operator==) is false or back != v is true
//   O <major> <minor> <flags>   operator<< into a user's stream on which <flags> were set before:
//                       hex | oct | showpos | showbase-hex | upper-hex | w9r | w9l | w9i (width 9, fill '*', adjustfield)
//                       | w3r | boolalpha-sci (flags that must not matter at all)     -> "<hex of the text>"
//
// Every request is executed in a forked child (one child per run of requests; a new child is forked after a
// child dies).  A child that dies (sanitizer report, signal) while executing request i makes the answer of
// request i "fault"; all other answers are unaffected.  The sanitizer's report goes to stderr.
#include <sys/mman.h>
#include <sys/wait.h>
#include <unistd.h>

#include <cstdint>
#include <cstdio>
#include <cstdlib>
#include <cstring>
#include <iomanip>
#include <locale>
#include <sstream>
#include <string>
#include <vector>

#include "point_one/fusion_engine/messages/data_version.h"

using point_one::fusion_engine::messages::DataVersion;
using point_one::fusion_engine::messages::FromString;
using point_one::fusion_engine::messages::ToString;

static const size_t SLOT = 96;

static bool unhex(const std::string& h, std::string* out) {
  out->clear();
  if (h == "-") return true;
  if (h.size() % 2) return false;
  for (size_t i = 0; i < h.size(); i += 2) {
    int v = 0;
    for (int k = 0; k < 2; ++k) {
      char c = h[i + k];
      int d = (c >= '0' && c <= '9') ? c - '0' : (c >= 'a' && c <= 'f') ? c - 'a' + 10 : -1;
      if (d < 0) return false;
      v = v * 16 + d;
    }
    out->push_back((char)v);
  }
  return true;
}

static std::string hex(const std::string& s) {
  static const char* d = "0123456789abcdef";
  std::string r;
  for (unsigned char c : s) {
    r.push_back(d[c >> 4]);
    r.push_back(d[c & 15]);
  }
  return r.empty() ? "-" : r;
}

static std::string show(const DataVersion& v) {
  if (!v.IsValid()) return "invalid";
  return "ok " + std::to_string((int)v.major_version) + " " + std::to_string((int)v.minor_version);
}

// FromString() of data_version.cc before the fix, verbatim.
static DataVersion FromStringBeforeFix(const char* str) {
  using point_one::fusion_engine::messages::INVALID_DATA_VERSION;
  char* end_c = nullptr;
  long tmp = 0;
  DataVersion version;

  tmp = strtol(str, &end_c, 10);
  if (end_c == str || tmp > 0xFF || tmp < 0) {
    return INVALID_DATA_VERSION;
  }
  version.major_version = (uint8_t)tmp;

  const char* minor_str = end_c + 1;

  tmp = strtol(minor_str, &end_c, 10);
  if (end_c == minor_str || tmp > 0xFFFF || tmp < 0) {
    return INVALID_DATA_VERSION;
  }
  version.minor_version = (uint16_t)tmp;

  return version;
}

// A numpunct facet of our own: digit grouping without any system locale.
class Punct : public std::numpunct<char> {
 public:
  Punct(const char* grouping, char sep, char point) : grouping_(grouping), sep_(sep), point_(point) {}

 protected:
  char do_thousands_sep() const override { return sep_; }
  char do_decimal_point() const override { return point_; }
  std::string do_grouping() const override { return grouping_; }

 private:
  std::string grouping_;
  char sep_, point_;
};

static std::locale grouping_locale(int k) {
  switch (k) {
    case 1: return std::locale(std::locale::classic(), new Punct("\3", ',', '.'));
    case 2: return std::locale(std::locale::classic(), new Punct("\3", '.', ','));
    case 3: return std::locale(std::locale::classic(), new Punct("\1", ' ', ';'));
    case 4: return std::locale(std::locale::classic(), new Punct("\2\3", '\'', '.'));
    default: return std::locale::classic();
  }
}

// The environment of the current request (see the head of the file).
static int g_env = 0;

static void prepare_user_stream(std::ostream& os) {
  if (g_env >= 11) os.imbue(grouping_locale(g_env - 10));
}

static DataVersion from_wire(const unsigned char* w) {
  DataVersion v;
  static_assert(sizeof(DataVersion) == 4, "DataVersion is 4 wire bytes");
  memcpy((void*)&v, w, 4);
  return v;
}

static bool unhex_wire(const std::string& h, unsigned char* w) {
  std::string b;
  if (h.size() != 8) return false;
  std::string tmp;
  for (size_t i = 0; i < 8; i += 2) {
    int v = 0;
    for (int k = 0; k < 2; ++k) {
      char c = h[i + k];
      int d = (c >= '0' && c <= '9') ? c - '0' : (c >= 'a' && c <= 'f') ? c - 'a' + 10 : -1;
      if (d < 0) return false;
      v = v * 16 + d;
    }
    w[i / 2] = (unsigned char)v;
  }
  return true;
}

static std::string six(const DataVersion& a, const DataVersion& b) {
  std::string r;
  r += (a == b) ? '1' : '0';
  r += (a != b) ? '1' : '0';
  r += (a < b) ? '1' : '0';
  r += (a > b) ? '1' : '0';
  r += (a <= b) ? '1' : '0';
  r += (a >= b) ? '1' : '0';
  return r;
}

// The string in a heap block of exactly len + 1 bytes.
static char* exact_copy(const std::string& bytes) {
  char* p = (char*)malloc(bytes.size() + 1);
  memcpy(p, bytes.data(), bytes.size());
  p[bytes.size()] = 0;
  return p;
}

static DataVersion parse_exact(const std::string& bytes, bool before_fix = false) {
  char* p = exact_copy(bytes);
  DataVersion v = before_fix ? FromStringBeforeFix((const char*)p) : FromString((const char*)p);
  free(p);
  return v;
}

static std::string answer1(const std::string& line) {
  std::istringstream is(line);
  is.imbue(std::locale::classic());  // the harness's own reading of the request must not depend on the environment under test
  std::string op;
  is >> op;
  if (op == "p" || op == "s" || op == "q") {
    std::string h, bytes;
    is >> h;
    if (!unhex(h, &bytes)) return "bad-args";
    if (op == "p") return show(parse_exact(bytes));
    if (op == "q") return show(parse_exact(bytes, true));
    return show(FromString(std::string(bytes)));
  } else if (op == "t") {
    std::string h, bytes;
    size_t start = 0;
    if (!(is >> h >> start) || !unhex(h, &bytes) || start > bytes.size()) return "bad-args";
    char* p = exact_copy(bytes);
    char* e = nullptr;
    long v = strtol(p + start, &e, 10);
    std::string r = std::to_string(v) + " " + std::to_string((long)(e - p));
    free(p);
    return r;
  } else if (op == "f" || op == "o" || op == "v") {
    unsigned M = 0, m = 0;
    if (!(is >> M >> m) || M > 255 || m > 65535) return "bad-args";
    DataVersion v((uint8_t)M, (uint16_t)m);
    if (op == "v") return v.IsValid() ? "1" : "0";
    if (op == "f") return hex(ToString(v));
    std::ostringstream os;
    prepare_user_stream(os);
    os << v;
    return hex(os.str());
  } else if (op == "O") {
    unsigned M = 0, m = 0;
    std::string fl;
    if (!(is >> M >> m >> fl) || M > 255 || m > 65535) return "bad-args";
    DataVersion v((uint8_t)M, (uint16_t)m);
    std::ostringstream os;
    prepare_user_stream(os);
    if (fl == "hex") os << std::hex;
    else if (fl == "oct") os << std::oct;
    else if (fl == "showpos") os << std::showpos;
    else if (fl == "showbase-hex") os << std::showbase << std::hex;
    else if (fl == "upper-hex") os << std::uppercase << std::hex;
    else if (fl == "boolalpha-sci") os << std::boolalpha << std::scientific << std::showpoint << std::setprecision(3);
    else if (fl == "w9r") os << std::setfill('*') << std::right << std::setw(9);
    else if (fl == "w9l") os << std::setfill('*') << std::left << std::setw(9);
    else if (fl == "w9i") os << std::setfill('*') << std::internal << std::setw(9);
    else if (fl == "w3r") os << std::setfill('*') << std::right << std::setw(3);
    else return "bad-args";
    os << v;
    return hex(os.str());
  } else if (op == "C") {
    std::string ha, hb;
    unsigned char wa[4], wb[4];
    if (!(is >> ha >> hb) || !unhex_wire(ha, wa) || !unhex_wire(hb, wb)) return "bad-args";
    return six(from_wire(wa), from_wire(wb));
  } else if (op == "W") {
    std::string hw;
    unsigned char w[4];
    if (!(is >> hw) || !unhex_wire(hw, w)) return "bad-args";
    DataVersion v = from_wire(w);
    std::string text = ToString(v);
    std::ostringstream os;
    prepare_user_stream(os);
    os << v;
    DataVersion back = parse_exact(text);
    std::string r = hex(text) + " " + hex(os.str()) + " ";
    r += back.IsValid() ? "ok:" + std::to_string((int)back.major_version) + ":" + std::to_string((int)back.minor_version)
                        : std::string("invalid");
    r += v.IsValid() ? " 1 " : " 0 ";
    r += (back == v) ? '1' : '0';
    r += (v == back) ? '1' : '0';
    r += !(back != v) ? '1' : '0';
    r += !(back < v) ? '1' : '0';
    r += !(back > v) ? '1' : '0';
    r += (back <= v) ? '1' : '0';
    r += (back >= v) ? '1' : '0';
    return r;
  } else if (op == "c") {
    unsigned M1, m1, M2, m2;
    if (!(is >> M1 >> m1 >> M2 >> m2) || M1 > 255 || M2 > 255 || m1 > 65535 || m2 > 65535) return "bad-args";
    DataVersion a((uint8_t)M1, (uint16_t)m1), b((uint8_t)M2, (uint16_t)m2);
    return six(a, b);
  } else if (op == "r") {
    unsigned Mlo, Mhi, mlo, mhi;
    if (!(is >> Mlo >> Mhi >> mlo >> mhi) || Mhi > 255 || mhi > 65535) return "bad-args";
    int reserved = -1;  // -1: built by the constructor
    if (is >> reserved) {
      if (reserved < 0 || reserved > 255) return "bad-args";
    } else {
      reserved = -1;
    }
    uint64_t h = 14695981039346656037ull, count = 0, bad = 0;
    std::string first = "-";
    for (unsigned M = Mlo; M <= Mhi; ++M) {
      for (unsigned m = mlo; m <= mhi; ++m) {
        DataVersion v((uint8_t)M, (uint16_t)m);
        if (reserved >= 0) {
          unsigned char w[4] = {(unsigned char)reserved, (unsigned char)M, (unsigned char)(m & 255), (unsigned char)(m >> 8)};
          v = from_wire(w);
        }
        std::string text = ToString(v);
        for (unsigned char c : text) h = (h ^ c) * 1099511628211ull;
        h = (h ^ (unsigned char)'\n') * 1099511628211ull;
        DataVersion back = parse_exact(text);
        bool ok = v.IsValid() ? (back.major_version == v.major_version && back.minor_version == v.minor_version)
                              : !back.IsValid();
        if (reserved >= 0 && (!(back == v) || (back != v))) ok = false;
        ++count;
        if (!ok) {
          if (!bad) first = std::to_string(M) + "." + std::to_string(m);
          ++bad;
        }
      }
    }
    return std::to_string(count) + " " + std::to_string(bad) + " " + std::to_string(h) + " " + first;
  }
  return "bad-op";
}

static std::string answer(const std::string& line) {
  g_env = 0;
  if (line.empty() || line[0] != '@') return answer1(line);
  size_t sp = line.find(' ');
  if (sp == std::string::npos) return "bad-args";
  int k = atoi(line.c_str() + 1);
  if (!((k >= 1 && k <= 4) || (k >= 11 && k <= 14))) return "bad-args";
  g_env = k;
  if (k <= 4) std::locale::global(grouping_locale(k));
  std::string a = answer1(line.substr(sp + 1));
  std::locale::global(std::locale::classic());
  g_env = 0;
  return a;
}

struct Shared {
  volatile size_t cur;   // request being executed by the child
};

int main() {
  std::vector<std::string> reqs;
  {
    std::string line;
    char buf[1 << 16];
    while (fgets(buf, sizeof buf, stdin)) {
      line = buf;
      while (!line.empty() && (line.back() == '\n' || line.back() == '\r')) line.pop_back();
      reqs.push_back(line);
    }
  }
  const size_t n = reqs.size();
  if (n == 0) return 0;
  Shared* sh = (Shared*)mmap(nullptr, sizeof(Shared), PROT_READ | PROT_WRITE, MAP_SHARED | MAP_ANONYMOUS, -1, 0);
  char* slots = (char*)mmap(nullptr, n * SLOT, PROT_READ | PROT_WRITE, MAP_SHARED | MAP_ANONYMOUS, -1, 0);
  if (sh == MAP_FAILED || slots == MAP_FAILED) {
    perror("mmap");
    return 3;
  }
  size_t next = 0;
  while (next < n) {
    sh->cur = next;
    fflush(stdout);
    pid_t pid = fork();
    if (pid < 0) {
      perror("fork");
      return 3;
    }
    if (pid == 0) {
      for (size_t i = next; i < n; ++i) {
        sh->cur = i;
        std::string a = answer(reqs[i]);
        if (a.size() >= SLOT) a = "too-long";
        memcpy(slots + i * SLOT, a.c_str(), a.size() + 1);
      }
      sh->cur = n;
      _exit(0);
    }
    int status = 0;
    waitpid(pid, &status, 0);
    size_t cur = sh->cur;
    if (cur >= n && WIFEXITED(status) && WEXITSTATUS(status) == 0) {
      next = n;
    } else {
      if (cur >= n) cur = n - 1;  // died after the last request: blame it
      fprintf(stderr, "C20-HARNESS: child died on request %zu: %s\n", cur, reqs[cur].c_str());
      strcpy(slots + cur * SLOT, "fault");
      next = cur + 1;
    }
  }
  for (size_t i = 0; i < n; ++i) {
    fputs(slots + i * SLOT, stdout);
    fputc('\n', stdout);
  }
  fflush(stdout);
  return 0;
}
