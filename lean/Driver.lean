/-
Line-protocol driver: one request per line on stdin, one answer per line on stdout.
Imports models and specs only (no Mathlib), so it can be compiled to a native executable.
-/
import FeVerif.Driver.Cmds

open FeVerif

partial def loop (h : IO.FS.Stream) (out : IO.FS.Stream) : IO Unit := do
  let line ← h.getLine
  if line.isEmpty then return ()
  let l := (line.dropEndWhile (fun c => c == '\n' || c == '\r')).toString
  out.putStrLn (dispatch l)
  loop h out

def main : IO Unit := do
  let out ← IO.getStdout
  loop (← IO.getStdin) out
  out.flush
