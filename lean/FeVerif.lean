import FeVerif.Basic.Bytes
