-- Root: every property theorem module (built by the setup command)
import FeVerif.Props.C01
import FeVerif.Props.C02
import FeVerif.Props.C03
import FeVerif.Props.C04
import FeVerif.Props.C05
import FeVerif.Props.C06
import FeVerif.Props.C08
import FeVerif.Props.C09
import FeVerif.Props.C10
import FeVerif.Props.C11
import FeVerif.Props.C12
import FeVerif.Props.C14
import FeVerif.Props.C15
import FeVerif.Props.C16
import FeVerif.Props.C18
import FeVerif.Props.C19
import FeVerif.Props.C20
