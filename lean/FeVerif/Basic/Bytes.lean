/-
Bytes and little-endian integers.  Core Lean only (the driver links against this).
-/
namespace FeVerif

abbrev Byte := UInt8
abbrev Bytes := List Byte

/-- `bs[i]` with 0 for a read past the end (only used behind explicit length checks). -/
def byteAt (bs : Bytes) (i : Nat) : Nat := (bs.getD i 0).toNat

def u16le (bs : Bytes) (off : Nat) : Nat := byteAt bs off + 256 * byteAt bs (off + 1)

def u32le (bs : Bytes) (off : Nat) : Nat :=
  byteAt bs off + 256 * byteAt bs (off + 1) + 65536 * byteAt bs (off + 2) + 16777216 * byteAt bs (off + 3)

def u64le (bs : Bytes) (off : Nat) : Nat := u32le bs off + 4294967296 * u32le bs (off + 4)

/-- Little-endian encoding of `v` on `n` bytes (truncating). -/
def leBytes : Nat → Nat → Bytes
  | 0, _ => []
  | n + 1, v => UInt8.ofNat (v % 256) :: leBytes n (v / 256)

@[simp] theorem leBytes_length (n v : Nat) : (leBytes n v).length = n := by
  induction n generalizing v with
  | zero => rfl
  | succ n ih => simp [leBytes, ih]

def slice (bs : List α) (off len : Nat) : List α := (bs.drop off).take len

def hexDigit (n : Nat) : Char :=
  if n < 10 then Char.ofNat (48 + n) else Char.ofNat (87 + n)

def toHex (bs : Bytes) : String :=
  String.ofList (bs.flatMap fun b => [hexDigit (b.toNat / 16), hexDigit (b.toNat % 16)])

def hexVal (c : Char) : Option Nat :=
  if '0' ≤ c ∧ c ≤ '9' then some (c.toNat - 48)
  else if 'a' ≤ c ∧ c ≤ 'f' then some (c.toNat - 87)
  else if 'A' ≤ c ∧ c ≤ 'F' then some (c.toNat - 55)
  else none

def ofHexChars : List Char → Option Bytes
  | [] => some []
  | [_] => none
  | a :: b :: rest => do
    let x ← hexVal a
    let y ← hexVal b
    let r ← ofHexChars rest
    pure (UInt8.ofNat (16 * x + y) :: r)

def ofHex (s : String) : Option Bytes := ofHexChars s.toList

end FeVerif
