/-
Driver commands for C15 (time alignment).

  align     <drop|insert> <req> <data>   model of DataLoader.time_align_data
  alignspec <drop|insert> <req> <data>   specification (specAlign)
  alignseq     <data> <drop|insert> <req> [<drop|insert> <req> ...]   model of several calls on the same dict (alignSeq)
  alignseqspec <data> <drop|insert> <req> [<drop|insert> <req> ...]   specification applied call by call (specAlignSeq)
  npunique  <times>                      model of np.unique
  npisect   <times> <times>              model of np.intersect1d(a, b, return_indices=True)

<req>   `*` (message_types=None), `-` (empty collection) or comma separated type keys
<data>  `-` (empty dict) or entries joined by `;`, each `key:p|x:times` (p = class has p1_time)
<times> `-` (empty) or comma separated decimal integers / `n` (NaN)
Answer of align/alignspec: entries joined by `;`, each `key:` + comma separated messages, a message being
`o<index in the input list of that type>@<time>` or `f@<time>` (fabricated default instance).
-/
import FeVerif.Model.Align

namespace FeVerif.AlignDrv
open FeVerif.Align

def parseTime (s : String) : Option Time :=
  if s == "n" then some none else s.toInt?.map some

def parseTimes (s : String) : Option (List Time) :=
  if s == "-" || s == "" then some [] else (s.splitOn ",").mapM parseTime

def showTime : Time → String
  | none => "n"
  | some v => toString v

def showTimes (l : List Time) : String := ",".intercalate (l.map showTime)

def parseEntry (s : String) : Option Entry :=
  match s.splitOn ":" with
  | [k, f, ts] =>
    match k.toNat?, parseTimes ts with
    | some k, some ts =>
      if f == "p" || f == "x" then
        some { key := k, hasP1 := f == "p", msgs := ts.zipIdx.map fun (t, i) => Msg.orig t i }
      else none
    | _, _ => none
  | _ => none

def parseData (s : String) : Option (List Entry) :=
  if s == "-" then some [] else (s.splitOn ";").mapM parseEntry

def parseReq (s : String) : Option (Option (List Nat)) :=
  if s == "*" then some none
  else if s == "-" then some (some [])
  else ((s.splitOn ",").mapM String.toNat?).map some

def parseMode (s : String) : Option Mode :=
  if s == "drop" then some .drop else if s == "insert" then some .insert else none

def showMsg : Msg → String
  | .orig t i => s!"o{i}@{showTime t}"
  | .fab t => s!"f@{showTime t}"

def showData (d : List Entry) : String :=
  ";".intercalate (d.map fun e => s!"{e.key}:" ++ ",".intercalate (e.msgs.map showMsg))

def cmdAlign (spec : Bool) (args : List String) : String :=
  match args with
  | [m, r, d] =>
    match parseMode m, parseReq r, parseData d with
    | some m, some r, some d =>
      if spec then showData (specAlign m r d)
      else match align m r d with
        | .ok d' => showData d'
        | .error .indexError => "error:IndexError"
    | _, _, _ => "bad-args"
  | _ => "bad-args"

def parseCalls : List String → Option (List Call)
  | [] => some []
  | m :: r :: rest =>
    match parseMode m, parseReq r, parseCalls rest with
    | some m, some r, some cs => some (⟨m, r⟩ :: cs)
    | _, _, _ => none
  | _ => none

def cmdAlignSeq (spec : Bool) (args : List String) : String :=
  match args with
  | d :: calls =>
    match parseData d, parseCalls calls with
    | some d, some cs =>
      if spec then showData (specAlignSeq cs d)
      else match alignSeq cs d with
        | .ok d' => showData d'
        | .error .indexError => "error:IndexError"
    | _, _ => "bad-args"
  | _ => "bad-args"

def cmdNpUnique (args : List String) : String :=
  match args with
  | [a] => match parseTimes a with
    | some a => showTimes (npUnique a)
    | none => "bad-args"
  | _ => "bad-args"

def cmdNpIsect (args : List String) : String :=
  match args with
  | [a, b] => match parseTimes a, parseTimes b with
    | some a, some b =>
      let r := npIntersect1d a b
      s!"{showTimes (r.map Common.val)}|{",".intercalate (r.map fun c => toString c.ia)}|{",".intercalate (r.map fun c => toString c.ib)}"
    | _, _ => "bad-args"
  | _ => "bad-args"

end FeVerif.AlignDrv

namespace FeVerif

def dispatchAlign (cmd : String) (args : List String) : Option String :=
  match cmd with
  | "align" => some (AlignDrv.cmdAlign false args)
  | "alignspec" => some (AlignDrv.cmdAlign true args)
  | "alignseq" => some (AlignDrv.cmdAlignSeq false args)
  | "alignseqspec" => some (AlignDrv.cmdAlignSeq true args)
  | "npunique" => some (AlignDrv.cmdNpUnique args)
  | "npisect" => some (AlignDrv.cmdNpIsect args)
  | _ => none

end FeVerif
