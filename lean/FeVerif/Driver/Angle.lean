/-
Driver commands for C19 (yaw/heading conversions).  A double is passed as the 16 hex digits of its IEEE-754
bit pattern and converted to its exact rational value; answers are exact rationals `num/den` (lowest terms,
`den > 0`).

  angle <fn> <halfTurnBits> <xBits>              fn ∈ y2h | h2y | y2h_r | h2y_r | y2h_old | h2y_old | id
                                                 (`_r`: every addition and subtraction rounded to binary64, ties to even)
  anglearr <fn> <halfTurnBits> <xBits>,<xBits>…  the array form (`List.map`), answers joined by `,`

  anglecall <fn> <piBits> <form> <xBits>         the call `f(x[, flag | deg=flag])`: fn ∈ y2h | h2y | y2h_r | h2y_r,
                                                 form ∈ omitted | pos1 | pos0 | kw1 | kw0 (`Angle.UnitArg`); `piBits` = `math.pi`

`halfTurnBits` is the double used as the half turn (`180.0`, or `math.pi` for the `deg=False` branch).
-/
import FeVerif.Model.Angle

namespace FeVerif

open Angle

def hexDigit? (c : Char) : Option Nat :=
  if '0' ≤ c ∧ c ≤ '9' then some (c.toNat - '0'.toNat)
  else if 'a' ≤ c ∧ c ≤ 'f' then some (c.toNat - 'a'.toNat + 10)
  else none

/-- exactly 16 lower-case hex digits -/
def parseBits (s : String) : Option Nat :=
  if s.length = 16 then s.toList.foldlM (fun acc c => (hexDigit? c).map (acc * 16 + ·)) 0 else none

def showRat (q : Rat) : String := s!"{q.num}/{q.den}"

def angleFn (fn : String) : Option (Rat → Rat → Rat) :=
  match fn with
  | "y2h" => some yawToHeadingH
  | "h2y" => some headingToYawH
  | "y2h_old" => some (fun _ y => yawToHeadingOld y)
  | "h2y_old" => some (fun _ h => headingToYawOld h)
  | "y2h_r" => some (yawToHeadingR roundDouble)
  | "h2y_r" => some (headingToYawR roundDouble)
  | "id" => some (fun _ x => x)
  | _ => none

def cmdAngle (args : List String) : String :=
  match args with
  | [fn, hb, xb] =>
    match angleFn fn, parseBits hb, parseBits xb with
    | some f, some hb, some xb =>
      match ofBits hb, ofBits xb with
      | some H, some x => showRat (f H x)
      | _, _ => "nonfinite"
    | _, _, _ => "bad-args"
  | _ => "bad-args"

def cmdAngleArr (args : List String) : String :=
  match args with
  | [fn, hb, xs] =>
    match parseBits hb, (xs.splitOn ",").mapM parseBits with
    | some hb, some xbs =>
      match ofBits hb, xbs.mapM ofBits with
      | some H, some xs =>
        match fn with
        | "y2h" => ",".intercalate ((yawToHeadingArr H xs).map showRat)
        | "h2y" => ",".intercalate ((headingToYawArr H xs).map showRat)
        | _ => "bad-args"
      | _, _ => "nonfinite"
    | _, _ => "bad-args"
  | _ => "bad-args"

def unitArg? (s : String) : Option UnitArg :=
  match s with
  | "omitted" => some .omitted
  | "pos1" => some (.positional true)
  | "pos0" => some (.positional false)
  | "kw1" => some (.keyword true)
  | "kw0" => some (.keyword false)
  | _ => none

def cmdAngleCall (args : List String) : String :=
  match args with
  | [fn, pb, form, xb] =>
    match unitArg? form, parseBits pb, parseBits xb with
    | some u, some pb, some xb =>
      match ofBits pb, ofBits xb with
      | some piD, some x =>
        match fn with
        | "y2h" => showRat (yawToHeadingCall piD u x)
        | "h2y" => showRat (headingToYawCall piD u x)
        | "y2h_r" => showRat (yawToHeadingR roundDouble (halfTurn piD u.deg) x)
        | "h2y_r" => showRat (headingToYawR roundDouble (halfTurn piD u.deg) x)
        | _ => "bad-args"
      | _, _ => "nonfinite"
    | _, _, _ => "bad-args"
  | _ => "bad-args"

def dispatchAngle (cmd : String) (args : List String) : Option String :=
  match cmd with
  | "angle" => some (cmdAngle args)
  | "anglearr" => some (cmdAngleArr args)
  | "anglecall" => some (cmdAngleCall args)
  | _ => none

end FeVerif
