/-
Driver commands for C02 (table of C++ layouts + the generic fixed-layout codec).

  c02leaves <struct code>                       -> sizeof|path:off:size:kind:elemkind:elemsize:extent;...   (flattened members)
  c02poke   <struct code> <leaf#> <hex> <hexnew> -> hex of `overwrite bytes (offset of leaf#) new`
  c02iso    <struct code> <leaf#> <hexA> <hexB>  -> the field-isolation spec evaluated on two byte strings:
                                                   `ok`  parse B = (parse A) with field leaf# replaced by B's bytes there
                                                   `diff:j,k,...`  other fields j,k differ
Answers `unknown` (no such struct), `short` (fewer than sizeof bytes), `bad-args`.
-/
import FeVerif.Generated.C02CxxLayout

namespace FeVerif
open FixedLayout C02Gen

def c02Lookup (code : String) : Option (CxxStruct × List Member) :=
  match code.toNat? with
  | none => none
  | some c =>
    match findStruct cxxStructs c with
    | none => none
    | some s =>
      match flatten cxxStructs s with
      | none => none
      | some ls => some (s, ls)

def cmdC02Leaves (args : List String) : String :=
  match args with
  | [code] =>
    match c02Lookup code with
    | none => "unknown"
    | some (s, ls) =>
      s!"{s.sizeof}|" ++ ";".intercalate (ls.map fun m =>
        s!"{m.name}:{m.offset}:{m.size}:{m.kind.tag}:{m.elemKind.tag}:{m.elemSize}:{m.arrayLen}")
  | _ => "bad-args"

def cmdC02Poke (args : List String) : String :=
  match args with
  | [code, idx, hex, hexNew] =>
    match c02Lookup code, idx.toNat?, ofHex hex, ofHex hexNew with
    | some (_, ls), some i, some bs, some new =>
      match ls[i]? with
      | none => "bad-args"
      | some m =>
        if new.length = m.size ∧ m.offset + m.size ≤ bs.length then toHex (overwrite bs m.offset new) else "bad-args"
    | none, _, _, _ => "unknown"
    | _, _, _, _ => "bad-args"
  | _ => "bad-args"

def cmdC02Iso (args : List String) : String :=
  match args with
  | [code, idx, hexA, hexB] =>
    match c02Lookup code, idx.toNat?, ofHex hexA, ofHex hexB with
    | some (_, ls), some i, some a, some b =>
      let d := ls.map Member.toField
      match d[i]?, parseFixed d a, parseFixed d b with
      | some f, some pa, some pb =>
        let expected := pa.set i (f.name, slice b (offsetOf d i) f.width)
        if pb == expected then "ok"
        else
          let bad := (List.range pb.length).filter fun j => pb[j]? != expected[j]?
          "diff:" ++ ",".intercalate (bad.map toString)
      | none, _, _ => "bad-args"
      | _, _, _ => "short"
    | none, _, _, _ => "unknown"
    | _, _, _, _ => "bad-args"
  | _ => "bad-args"

def dispatchC02 (cmd : String) (args : List String) : Option String :=
  match cmd with
  | "c02leaves" => some (cmdC02Leaves args)
  | "c02poke" => some (cmdC02Poke args)
  | "c02iso" => some (cmdC02Iso args)
  | _ => none

end FeVerif
