/-
Registry of driver commands.  Each property contributes `FeVerif/Driver/<X>.lean` with a
`dispatch<X> : String → List String → Option String` (command word, space-separated arguments).
-/
import FeVerif.Driver.Frame
import FeVerif.Driver.CxxFramer
import FeVerif.Driver.Indexer
import FeVerif.Driver.FileIndex
import FeVerif.Driver.Reader
import FeVerif.Driver.Extract
import FeVerif.Driver.Angle
import FeVerif.Driver.DataVersion
import FeVerif.Driver.Align
import FeVerif.Driver.Numpy
import FeVerif.Driver.C02
import FeVerif.Driver.Rtcm
import FeVerif.Driver.Crc
import FeVerif.Driver.Loader
import FeVerif.Driver.Layout
import FeVerif.Driver.TimeRange
import FeVerif.Driver.DynEnum

namespace FeVerif

def dispatchers : List (String → List String → Option String) :=
  [dispatchFrame, dispatchCxxFramer, dispatchIndexer, dispatchFileIndex, dispatchReader, dispatchExtract, dispatchAngle, dispatchDataVersion, dispatchAlign, dispatchNumpy, dispatchC02, dispatchRtcm, dispatchCrc, dispatchLoader, dispatchLayout, dispatchTimeRange, dispatchDynEnum]

def dispatch (line : String) : String :=
  match line.splitOn " " with
  | [] => "bad-op"
  | cmd :: args =>
    match dispatchers.findSome? (fun d => d cmd args) with
    | some r => r
    | none => "bad-op"

end FeVerif
