/-
Driver commands of C06: the CRC specification and table algorithm, the encoder model, the
validators' models.
-/
import FeVerif.Model.Encoder
import FeVerif.Spec.Integrity

namespace FeVerif

/-- `-` is the empty buffer. -/
def parseBuf (s : String) : Option Bytes := if s == "-" then some [] else ofHex s

def parseBufs (s : String) : Option (List Bytes) := (s.splitOn ",").mapM parseBuf

def joinNats (l : List Nat) : String := ",".intercalate (l.map toString)

/-- `crcspec <hex>,<hex>,…` : bit-serial CRC-32 of each buffer. -/
def cmdCrcSpec (args : List String) : String :=
  match args with
  | [bufs] => match parseBufs bufs with
    | some bs => joinNats (bs.map fun b => (crcBitwise b).toNat)
    | none => "bad-args"
  | _ => "bad-args"

/-- `crctab <init> <hex>,<hex>,…` : table algorithm with an initial value. -/
def cmdCrcTab (args : List String) : String :=
  match args with
  | [i, bufs] => match i.toNat?, parseBufs bufs with
    | some i, some bs => joinNats (bs.map fun b => (crc32 (BitVec.ofNat 32 i) b).toNat)
    | _, _ => "bad-args"
  | _ => "bad-args"

/-- `crcsplit <hex>` : `crc32 (crc32 0 (take k)) (drop k)` for every split point `k = 0 … n`. -/
def cmdCrcSplit (args : List String) : String :=
  match args with
  | [buf] => match parseBuf buf with
    | some b => joinNats ((List.range (b.length + 1)).map fun k =>
        (crc32 (crc32 0#32 (b.take k)) (b.drop k)).toNat)
    | none => "bad-args"
  | _ => "bad-args"

/-- `crclin <hex>,…` : linear remainder of each error pattern. -/
def cmdCrcLin (args : List String) : String :=
  match args with
  | [bufs] => match parseBufs bufs with
    | some bs => joinNats (bs.map fun b => (crcLin b).toNat)
    | none => "bad-args"
  | _ => "bad-args"

def showErr : PyErr → String
  | .structError => "structError"
  | .packError => "packError"

/-- `encode <type> <version> <seq> <source> <payloadhex | - | !>` (`!` = `message.pack()` raises):
`ok <hex> <next seq>` or `err <kind> <next seq>`. -/
def cmdEncode (args : List String) : String :=
  match args with
  | [t, v, q, s, p] =>
    match t.toNat?, v.toNat?, q.toNat?, s.toNat?, (if p == "!" then some none else (parseBuf p).map some) with
    | some t, some v, some q, some s, some p =>
      match encodeMessage ⟨q⟩ t v s p with
      | (.ok out, e) => s!"ok {toHex out} {e.sequenceNumber}"
      | (.error er, e) => s!"err {showErr er} {e.sequenceNumber}"
    | _, _, _, _, _ => "bad-args"
  | _ => "bad-args"

/-- One call of a `session` request: `<type>:<version>:<source | _>:<payloadhex | - | !>`; `_` = the call omits
`source_identifier`, the source may be negative, `!` = `message.pack()` raises. -/
def parseCall (s : String) : Option EncCall :=
  match s.splitOn ":" with
  | [t, v, src, p] =>
    match t.toNat?, v.toNat?, (if src == "_" then some none else src.toInt?.map some),
        (if p == "!" then some none else (parseBuf p).map some) with
    | some t, some v, some src, some p => some ⟨t, v, src, p⟩
    | _, _, _, _ => none
  | _ => none

/-- The model stepped over a history: per call `ok <hex> <seq after>` / `err <kind> <seq after>`. -/
def sessionSteps : Encoder → List EncCall → List String
  | _, [] => []
  | e, c :: cs =>
    (match encodeCall e c with
     | (.ok out, e') => s!"ok {toHex out} {e'.sequenceNumber}"
     | (.error er, e') => s!"err {showErr er} {e'.sequenceNumber}") :: sessionSteps (encodeCall e c).2 cs

/-- `session <start seq> <call> <call> …` : one encoder object driven through a history of calls; the per-call
answers joined by `|`. -/
def cmdSession (args : List String) : String :=
  match args with
  | q :: calls =>
    match q.toNat?, calls.mapM parseCall with
    | some q, some cs => "|".intercalate (sessionSteps ⟨q⟩ cs)
    | _, _ => "bad-args"
  | _ => "bad-args"

def showOptBool : Option Bool → String
  | none => "oob"
  | some true => "1"
  | some false => "0"

/-- `validate <hex>` : the validators' models on one buffer:
`py=<validate_crc> cxx=<IsValid | oob> framer=<crc compare> exact=<…> type=… ver=… seq=… src=… size=…`. -/
def cmdValidate (args : List String) : String :=
  match args with
  | [buf] => match parseBuf buf with
    | some b =>
      let h := parseHeader b
      s!"py={match pyUnpackValidate b with | none => "structError" | some true => "1" | some false => "0"} cxx={showOptBool (cxxIsValid b)} framer={if cxxFramerCrcOk b then 1 else 0} exact={if b.length == HDR + u32le b 16 then 1 else 0} type={h.messageType} ver={h.messageVersion} seq={h.sequenceNumber} src={h.sourceId} size={h.payloadSize} crc={h.crc}"
    | none => "bad-args"
  | _ => "bad-args"

def dispatchCrc (cmd : String) (args : List String) : Option String :=
  match cmd with
  | "crcspec" => some (cmdCrcSpec args)
  | "crctab" => some (cmdCrcTab args)
  | "crcsplit" => some (cmdCrcSplit args)
  | "crclin" => some (cmdCrcLin args)
  | "encode" => some (cmdEncode args)
  | "session" => some (cmdSession args)
  | "validate" => some (cmdValidate args)
  | _ => none

end FeVerif
