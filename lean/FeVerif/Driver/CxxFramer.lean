/-
Driver commands of C07.
  cxxframer <capacity> <mode> <op>,<op>,…   literal model of one framer object
      mode  0..3 : FusionEngineFramer(user_buf, capacity) with user_buf ≡ mode (mod 4)
            i    : FusionEngineFramer(capacity) (internal allocation, allocator returns 4-aligned memory)
      op    hex bytes = one OnData call, `-` = OnData with no bytes, `R` = Reset(),
            `Bu<k>:<c>` = SetBuffer(p, c) with caller storage p ≡ k (mod 4), `Bi:<c>` = SetBuffer(nullptr, c)
      answer: records joined by `;`
            init|<buffer_ != nullptr>|<capacity_bytes_>
            <a>:<hex>,…|<ret>|<state_>|<next_byte_index_>|<current_message_size_>|<s>     per OnData (callbacks: address
                      of the header mod 4 and the bytes header+payload, `-` if none; s = 1 iff every buffer index
                      accessed so far was < capacity_bytes_, i.e. the ghost field `hi ≤ cap`)
            R|<state_>|<next_byte_index_>|<current_message_size_>                         per Reset
            B|<buffer_ != nullptr>|<capacity_bytes_>|<state_>|<next_byte_index_>|<current_message_size_>   per SetBuffer
      (the C++ harness cxx/c07_harness.cc answers the same request with the same records, without <s>)
  cxxscan <capacity_bytes_> <hex>           the specification: `(cfgCxx cap).run` → msgs|restlen|off
-/
import FeVerif.Model.CxxFramer
import FeVerif.Driver.Frame

namespace FeVerif.Cxx

def showState (f : Framer) : String := s!"{f.state.toNat}|{f.next}|{f.cur}"

def showCbs (f : Framer) (cbs : List Bytes) : String :=
  if cbs.isEmpty then "-" else ",".intercalate (cbs.map fun m => s!"{f.addr % 4}:{toHex m}")

/-- `Bu<k>:<c>` → caller storage at an address ≡ k (mod 4); `Bi:<c>` → `nullptr` (allocator returns 4-aligned memory). -/
def parseSetBuffer (op : String) : Option (Option Nat × Nat × Nat) :=
  match op.splitOn ":" with
  | [kind, c] =>
    match c.toNat? with
    | none => none
    | some c =>
      if c > 4194304 then none
      else if kind == "Bi" then some (none, 8192, c)
      else if kind.startsWith "Bu" then
        match (kind.drop 2).toNat? with
        | some k => if k < 4 then some (some (12288 + k), 0, c) else none
        | none => none
      else none
  | _ => none

def cxxOps (f : Framer) (ops : List String) (acc : List String) : Option (List String) :=
  match ops with
  | [] => some acc.reverse
  | op :: rest =>
    if op == "R" then
      cxxOps f.reset rest (s!"R|{showState f.reset}" :: acc)
    else if op.startsWith "B" then
      match parseSetBuffer op with
      | none => none
      | some (user, alloc, c) =>
        let g := f.setBuffer user alloc c
        cxxOps g rest (s!"B|{if g.hasBuf then 1 else 0}|{g.cap}|{showState g}" :: acc)
    else
      match (if op == "-" then some [] else ofHex op) with
      | none => none
      | some d =>
        let r := onData f d
        cxxOps r.f rest (s!"{showCbs r.f r.cbs}|{r.ret}|{showState r.f}|{if r.f.hi ≤ r.f.cap then 1 else 0}" :: acc)

def cmdCxxFramer (args : List String) : String :=
  match args with
  | [c, mode, ops] =>
    match c.toNat? with
    | some c =>
      if c > 4194304 then "bad-args" else
      let f? : Option Framer :=
        if mode == "i" then some (Framer.construct none 4096 c)
        else match mode.toNat? with
          | some r => if r < 4 then some (Framer.construct (some (4096 + r)) 0 c) else none
          | none => none
      match f? with
      | none => "bad-args"
      | some f =>
        match cxxOps f (if ops == "=" then [] else ops.splitOn ",") [s!"init|{if f.hasBuf then 1 else 0}|{f.cap}"] with
        | some l => ";".intercalate l
        | none => "bad-args"
    | none => "bad-args"
  | _ => "bad-args"

def cmdCxxScan (args : List String) : String :=
  match args with
  | [m, hex] =>
    match m.toNat?, (if hex == "-" then some [] else ofHex hex) with
    | some m, some bs =>
      let r := (cfgCxx m).run bs 0
      s!"{showPairs r.msgs}|{r.rest.length}|{r.off}"
    | _, _ => "bad-args"
  | _ => "bad-args"

end FeVerif.Cxx

namespace FeVerif

def dispatchCxxFramer (cmd : String) (args : List String) : Option String :=
  match cmd with
  | "cxxframer" => some (Cxx.cmdCxxFramer args)
  | "cxxscan" => some (Cxx.cmdCxxScan args)
  | _ => none

end FeVerif
