/-
Driver commands of C20 (model FeVerif/Model/DataVersion.lean).

  dvparse  <hex|->            fromString   -> `ok <major> <minor>` | `invalid` | `fault`
  dvparse0 <hex|->            fromStringV0 (the code before the fix), same answers
  dvstrtol <hex|-> <start>    strtol s start -> `<value> <end index>` | `fault`
  dvfmt    <major> <minor>    toStr        -> hex of the text
  dvvalid  <major> <minor>    isValid      -> 0 | 1
  dvcmp    <M1> <m1> <M2> <m2>  the six operators `== != < > <= >=` -> six 0/1 digits
  dvrt     <Mlo> <Mhi> <mlo> <mhi>   every version of the box: text = toStr v, back = fromString text
                              -> `<count> <bad> <fnv1a64 of all texts, each followed by '\n'> <first bad | ->`
-/
import FeVerif.Basic.Bytes
import FeVerif.Model.DataVersion

namespace FeVerif
open DV

def dvChars (h : String) : Option (List Char) :=
  if h == "-" then some [] else (ofHex h).map fun bs => bs.map fun b => Char.ofNat b.toNat

def dvShow : Mem DataVersion → String
  | .fault => "fault"
  | .ok v => if v.isValid then s!"ok {v.major.toNat} {v.minor.toNat}" else "invalid"

def dvVersion (M m : String) : Option DataVersion :=
  match M.toNat?, m.toNat? with
  | some M, some m => if M ≤ 255 ∧ m ≤ 65535 then some ⟨UInt8.ofNat M, UInt16.ofNat m⟩ else none
  | _, _ => none

def dvHex (l : List Char) : String :=
  if l.isEmpty then "-" else toHex (l.map fun c => UInt8.ofNat c.toNat)

def bit (b : Bool) : String := if b then "1" else "0"

def fnvStep (h : UInt64) (c : Char) : UInt64 := (h ^^^ UInt64.ofNat c.toNat) * 1099511628211

structure RtAcc where
  count : Nat := 0
  bad : Nat := 0
  hash : UInt64 := 14695981039346656037
  first : String := "-"

def rtOne (acc : RtAcc) (M m : Nat) : RtAcc :=
  let v : DataVersion := ⟨UInt8.ofNat M, UInt16.ofNat m⟩
  let text := toStr v
  let h := fnvStep (text.foldl fnvStep acc.hash) '\n'
  let good := match fromString text with
    | .fault => false
    | .ok back => if v.isValid then back == v else !back.isValid
  { count := acc.count + 1,
    bad := if good then acc.bad else acc.bad + 1,
    hash := h,
    first := if !good && acc.bad == 0 then s!"{M}.{m}" else acc.first }

def dvRoundTrips (Mlo Mhi mlo mhi : Nat) : String :=
  let r := (List.range (Mhi + 1 - Mlo)).foldl
    (fun acc i => (List.range (mhi + 1 - mlo)).foldl (fun acc j => rtOne acc (Mlo + i) (mlo + j)) acc) ({} : RtAcc)
  s!"{r.count} {r.bad} {r.hash.toNat} {r.first}"

def dispatchDataVersion (cmd : String) (args : List String) : Option String :=
  match cmd, args with
  | "dvparse", [h] => some (match dvChars h with | some s => dvShow (fromString s) | none => "bad-args")
  | "dvparse0", [h] => some (match dvChars h with | some s => dvShow (fromStringV0 s) | none => "bad-args")
  | "dvstrtol", [h, st] =>
    some (match dvChars h, st.toNat? with
      | some s, some i => (match strtol s i with | .fault => "fault" | .ok (v, e) => s!"{v} {e}")
      | _, _ => "bad-args")
  | "dvfmt", [M, m] => some (match dvVersion M m with | some v => dvHex (toStr v) | none => "bad-args")
  | "dvvalid", [M, m] => some (match dvVersion M m with | some v => bit v.isValid | none => "bad-args")
  | "dvcmp", [M1, m1, M2, m2] =>
    some (match dvVersion M1 m1, dvVersion M2 m2 with
      | some a, some b => bit (opEq a b) ++ bit (opNe a b) ++ bit (opLt a b) ++ bit (opGt a b) ++ bit (opLe a b) ++ bit (opGe a b)
      | _, _ => "bad-args")
  | "dvrt", [a, b, c, d] =>
    some (match a.toNat?, b.toNat?, c.toNat?, d.toNat? with
      | some Mlo, some Mhi, some mlo, some mhi =>
        if Mhi ≤ 255 ∧ mhi ≤ 65535 then dvRoundTrips Mlo Mhi mlo mhi else "bad-args"
      | _, _, _, _ => "bad-args")
  | "dvparse", _ | "dvparse0", _ | "dvstrtol", _ | "dvfmt", _ | "dvvalid", _ | "dvcmp", _ | "dvrt", _ => some "bad-args"
  | _, _ => none

end FeVerif
