import FeVerif.Model.DynEnum

/-!
Driver commands for the `DynamicEnumMeta` / `enum_bitmask` model.

  dynenum <defs> <ops>            defs = `NAME=value,...` (class body order) or `-`
                                   ops  = `;`-separated: `c<int>` lenient call, `s<int>` strict call,
                                          `n<name>` strict call by name, `N<name>` lenient call by name,
                                          `g<name>` cls[name], `i` list(cls), `l` len(cls), `r` list(reversed(cls)),
                                          `j` len(cls) and len(list(cls)) as `<n>/<n>`, `w<int>` `<int> in cls`,
                                          `W<name>` `cls[name] in cls`, `H<int>` `cls(<int>, lenient) in cls`
                                          (answers `T` / `F`); `-` = no ops
                                   answer: one token per op joined by `;` - a member is `NAME=value:U|R`
                                          (U = is_unrecognized()), a list is `NAME=value:R,...` (`-` if empty),
                                          an exception is `!ValueError` / `!KeyError` / `!TypeError`
  masktb <offset> <attrs> <items> to_bitmask: attrs = `NAME=value,...` or `-`; items = `<int>` or `@<name>`,
                                   comma separated, `-` = empty list; answer: lower-case hex or `!Err`
  masktv <offset> <members> <hex> to_values over the captured members; answer: `NAME=value:R,...` / `-` / `!Err`
  maskts <offset> <members> <hex> to_string over the captured members; answer: `=` followed by the string, or `!Err`
-/
namespace FeVerif

def dynNameOfString (s : String) : Name := s.toList.map Char.toNat
def dynNameToString (n : Name) : String := String.ofList (n.map Char.ofNat)

def dynShowErr : EnumErr → String
  | .valueError => "!ValueError"
  | .keyError => "!KeyError"
  | .typeError => "!TypeError"
  | .attributeError => "!AttributeError"
  | .outOfModel => "!OutOfModel"

def dynShowMember (m : EnumMember) : String :=
  s!"{dynNameToString m.name}={m.value}:{if m.isUnrecognized then "U" else "R"}"

def dynShowMembers (ms : List EnumMember) : String :=
  if ms.isEmpty then "-" else ",".intercalate (ms.map dynShowMember)

def dynShowRes : Except EnumErr EnumMember → String
  | .ok m => dynShowMember m
  | .error e => dynShowErr e

def dynShowBool (b : Bool) : String := if b then "T" else "F"

/-- `NAME=value` -/
def dynParsePair (s : String) : Option (Name × Int) :=
  match s.splitOn "=" with
  | [n, v] => v.toInt?.map fun v => (dynNameOfString n, v)
  | _ => none

def dynParsePairs (s : String) : Option (List (Name × Int)) :=
  if s == "-" then some [] else (s.splitOn ",").mapM dynParsePair

def runEnumOp (e : DynEnum) (op : String) : Option (String × DynEnum) :=
  match op.toList with
  | 'c' :: r => (String.ofList r).toInt?.map fun v => let x := e.call v false; (dynShowRes x.1, x.2)
  | 's' :: r => (String.ofList r).toInt?.map fun v => let x := e.call v true; (dynShowRes x.1, x.2)
  | 'n' :: r => let x := e.callName (r.map Char.toNat) true; some (dynShowRes x.1, x.2)
  | 'N' :: r => let x := e.callName (r.map Char.toNat) false; some (dynShowRes x.1, x.2)
  | 'g' :: r => some (dynShowRes (e.getItem (r.map Char.toNat)), e)
  | ['i'] => some ((match e.iter with | .ok ms => dynShowMembers ms | .error err => dynShowErr err), e)
  | ['l'] => some ((match e.len with | .ok n => toString n | .error err => dynShowErr err), e)
  | ['r'] => some ((match e.reversedIter with | .ok ms => dynShowMembers ms | .error err => dynShowErr err), e)
  | ['j'] => some ((match e.len, e.iter with
      | .ok n, .ok ms => s!"{n}/{ms.length}"
      | .error err, _ => dynShowErr err
      | _, .error err => dynShowErr err), e)
  | 'w' :: r => (String.ofList r).toInt?.map fun v => (dynShowBool (e.containsValue v), e)
  | 'W' :: r => some ((match e.getItem (r.map Char.toNat) with
      | .ok m => dynShowBool (e.containsMember m) | .error err => dynShowErr err), e)
  | 'H' :: r => (String.ofList r).toInt?.map fun v =>
      let x := e.call v false
      ((match x.1 with | .ok m => dynShowBool (x.2.containsMember m) | .error err => dynShowErr err), x.2)
  | _ => none

def runEnumOps (e : DynEnum) (ops : List String) (acc : List String) : Option (List String) :=
  match ops with
  | [] => some acc.reverse
  | op :: rest =>
    match runEnumOp e op with
    | none => none
    | some (out, e') => runEnumOps e' rest (out :: acc)

def cmdDynEnum (args : List String) : String :=
  match args with
  | [defs, ops] =>
    match dynParsePairs defs with
    | none => "bad-args"
    | some d =>
      match runEnumOps (DynEnum.ofDefined d) (if ops == "-" then [] else ops.splitOn ";") [] with
      | some outs => ";".intercalate outs
      | none => "bad-args"
  | _ => "bad-args"

def dynHexDigitVal (c : Char) : Option Nat :=
  if '0' ≤ c ∧ c ≤ '9' then some (c.toNat - 48)
  else if 'a' ≤ c ∧ c ≤ 'f' then some (c.toNat - 87)
  else none

def dynNatOfHex (s : String) : Option Nat :=
  if s.isEmpty then none
  else s.toList.foldlM (fun acc c => (dynHexDigitVal c).map fun d => 16 * acc + d) 0

def dynNatToHex (n : Nat) : String := String.ofList (Nat.toDigits 16 n)

def dynParseMaskItem (s : String) : Option MaskItem :=
  match s.toList with
  | '@' :: r => some (.str (r.map Char.toNat))
  | _ => s.toInt?.map .val

def cmdMaskTb (args : List String) : String :=
  match args with
  | [off, attrs, items] =>
    match off.toInt?, dynParsePairs attrs, (if items == "-" then some [] else (items.splitOn ",").mapM dynParseMaskItem) with
    | some off, some attrs, some items =>
      match toBitmask off attrs items with
      | .ok m => dynNatToHex m
      | .error e => dynShowErr e
    | _, _, _ => "bad-args"
  | _ => "bad-args"

def cmdMaskTv (args : List String) : String :=
  match args with
  | [off, members, mask] =>
    match off.toInt?, dynParsePairs members, dynNatOfHex mask with
    | some off, some ms, some mask =>
      match toValues off mask (ms.map fun p => ⟨p.1, p.2⟩) with
      | .ok out => dynShowMembers out
      | .error e => dynShowErr e
    | _, _, _ => "bad-args"
  | _ => "bad-args"

def cmdMaskTs (args : List String) : String :=
  match args with
  | [off, members, mask] =>
    match off.toInt?, dynParsePairs members, dynNatOfHex mask with
    | some off, some ms, some mask =>
      match maskToString off mask (ms.map fun p => ⟨p.1, p.2⟩) with
      | .ok out => "=" ++ dynNameToString out
      | .error e => dynShowErr e
    | _, _, _ => "bad-args"
  | _ => "bad-args"

def dispatchDynEnum (cmd : String) (args : List String) : Option String :=
  match cmd with
  | "dynenum" => some (cmdDynEnum args)
  | "masktb" => some (cmdMaskTb args)
  | "masktv" => some (cmdMaskTv args)
  | "maskts" => some (cmdMaskTs args)
  | _ => none

end FeVerif
