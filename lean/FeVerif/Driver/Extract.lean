import FeVerif.Model.Extract
import FeVerif.Driver.Frame

namespace FeVerif

/-- `extract <hex>` : `<count>|<output hex or nofile>|<builder offsets>` -/
def cmdExtract (args : List String) : String :=
  match args with
  | [hex] =>
    match (if hex == "-" then some [] else ofHex hex) with
    | some bs =>
      let r := Extract.extract bs
      s!"{r.2}|{match r.1 with | some o => toHex o | none => "nofile"}|{showPairs (Extract.builderOffsets (Extract.messages bs) 0)}"
    | none => "bad-args"
  | _ => "bad-args"

def dispatchExtract (cmd : String) (args : List String) : Option String :=
  match cmd with
  | "extract" => some (cmdExtract args)
  | _ => none

end FeVerif
