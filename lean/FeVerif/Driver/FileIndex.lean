import FeVerif.Model.FileIndex
import FeVerif.Driver.Frame

namespace FeVerif
open FileIndex

def showRecs (l : List Rec) : String :=
  ",".intercalate (l.map fun r => s!"{match r.time with | some t => toString t | none => "n"}:{r.type}:{r.offset}")

/-- `p1iload <indexhex> <datahex>` : `ok <recs>` | `ValueError <deleted>` -/
def cmdP1iLoad (args : List String) : String :=
  match args with
  | [ih, dh] =>
    match (if ih == "-" then some [] else ofHex ih), (if dh == "-" then some [] else ofHex dh) with
    | some ib, some db =>
      match load ib db with
      | .ok l => s!"ok {showRecs l}"
      | .valueError d => s!"ValueError {if d then 1 else 0}"
    | _, _ => "bad-args"
  | _ => "bad-args"

def parseRec (s : String) : Option Rec :=
  match s.splitOn ":" with
  | [t, ty, off] => do
    let ty ← ty.toNat?
    let off ← off.toNat?
    if t == "n" then pure ⟨none, ty, off⟩ else do
      let t ← t.toNat?
      pure ⟨some t, ty, off⟩
  | _ => none

/-- `p1isave <datasize> <recs>` : hex of the bytes written, or `nothing` -/
def cmdP1iSave (args : List String) : String :=
  match args with
  | [sz, recs] =>
    match sz.toNat?, (if recs == "-" then some [] else (recs.splitOn ",").mapM parseRec) with
    | some sz, some l =>
      match saveBytes l sz with
      | some b => toHex b
      | none => "nothing"
    | _, _ => "bad-args"
  | _ => "bad-args"

def dispatchFileIndex (cmd : String) (args : List String) : Option String :=
  match cmd with
  | "p1iload" => some (cmdP1iLoad args)
  | "p1isave" => some (cmdP1iSave args)
  | _ => none

end FeVerif
