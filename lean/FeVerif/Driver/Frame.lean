import FeVerif.Model.PyDecoder

namespace FeVerif

def showPairs (l : List (Nat × Nat)) : String :=
  ",".intercalate (l.map fun (a, b) => s!"{a}:{b}")

/-- `a,b,-,c` : comma separated hex chunks, `-` is the empty chunk, `=` the empty list. -/
def parseChunks (s : String) : Option (List Bytes) :=
  if s == "=" then some [] else (s.splitOn ",").mapM fun x => if x == "-" then some [] else ofHex x

/-- `pydec <max> <hex>,<hex>,…` : per call `msgs|buflen|hdrCached|processed`, joined by `;`. -/
def cmdPyDec (args : List String) : String :=
  match args with
  | [m, chunks] =>
    match m.toNat?, parseChunks chunks with
    | some m, some cs =>
      let rec go (s : PyDec) (cs : List Bytes) (acc : List String) : List String :=
        match cs with
        | [] => acc.reverse
        | d :: ds =>
          let r := pyOnData m s d
          go r.2 ds (s!"{showPairs r.1}|{r.2.buf.length}|{if r.2.hdr.isSome then 1 else 0}|{r.2.processed}" :: acc)
      ";".intercalate (go PyDec.init cs [])
    | _, _ => "bad-args"
  | _ => "bad-args"

/-- `scan <max> <hex>` : the streaming scan: `msgs|restlen|off`. -/
def cmdScan (args : List String) : String :=
  match args with
  | [m, hex] =>
    match m.toNat?, ofHex hex with
    | some m, some bs =>
      let r := (cfgPy m).run bs 0
      s!"{showPairs r.msgs}|{r.rest.length}|{r.off}"
    | _, _ => "bad-args"
  | _ => "bad-args"

/-- `scanfile <hex>` : the sequential scan of a complete file (`cfgFile`). -/
def cmdScanFile (args : List String) : String :=
  match args with
  | [hex] =>
    match ofHex hex with
    | some bs => showPairs (cfgFile.runFile bs 0)
    | none => "bad-args"
  | _ => "bad-args"

/-- `crc32 <hex>` -/
def cmdCrc (args : List String) : String :=
  match args with
  | [hex] => match ofHex hex with
    | some bs => toString (crc32 0#32 bs).toNat
    | none => "bad-args"
  | _ => "bad-args"

def dispatchFrame (cmd : String) (args : List String) : Option String :=
  match cmd with
  | "pydec" => some (cmdPyDec args)
  | "scan" => some (cmdScan args)
  | "scanfile" => some (cmdScanFile args)
  | "crc32" => some (cmdCrc args)
  | _ => none

end FeVerif
