import FeVerif.Model.Indexer
import FeVerif.Driver.Frame

namespace FeVerif

/-- `index <R> <M> <nt> <hex>` : the indexer model: `off:size:type,…` -/
def cmdIndex (args : List String) : String :=
  match args with
  | [r, m, nt, hex] =>
    match r.toNat?, m.toNat?, nt.toNat?, ofHex hex with
    | some r, some m, some nt, some bs =>
      if r = 0 ∨ nt = 0 then "bad-args" else
      ",".intercalate ((Indexer.index bs r m nt).map fun e => s!"{e.off}:{e.size}:{e.type}")
    | _, _, _, _ => "bad-args"
  | _ => "bad-args"

def dispatchIndexer (cmd : String) (args : List String) : Option String :=
  match cmd with
  | "index" => some (cmdIndex args)
  | _ => none

end FeVerif
