/-
Driver commands of C01 (layout language).
  laylist                        -> names of the descriptors, comma separated
  layparse <class> <off> <hex>   -> `none` | `<consumed> <value tree>`
  layrt    <class> <off> <hex>   -> `none` | `<consumed> <value tree> <build hex|none> <sizeOf> <buildInto hex|none> <reparse>`
       build / sizeOf of the parsed value, buildInto the same buffer at the same offset, and
       reparse = `same:<consumed>` if parsing the serialisation gives the identical tree, else `diff` / `none`
Value trees: decimal integers, `nan`, `x<hex>` byte strings, `[a,b,…]` lists.  Empty hex is `-`.
-/
import FeVerif.Generated.C01Layouts

namespace FeVerif
open Lay

def layHex (s : String) : Option Bytes := if s == "-" then some [] else ofHex s
def layShowHex (b : Bytes) : String := if b.isEmpty then "-" else toHex b

def layFind (name : String) : Option Layout := (Gen.allLayouts.find? (fun p => p.1 == name)).map (·.2)

def layEnv : Env := envOf Gen.extTable

def cmdLayParse (args : List String) : String :=
  match args with
  | [cls, off, hex] =>
    match layFind cls, off.toNat?, layHex hex with
    | some l, some off, some buf =>
      match parseAt layEnv l buf off with
      | none => "none"
      | some (v, n) => s!"{n} {v.text}"
    | _, _, _ => "bad-args"
  | _ => "bad-args"

def cmdLayRt (args : List String) : String :=
  match args with
  | [cls, off, hex] =>
    match layFind cls, off.toNat?, layHex hex with
    | some l, some off, some buf =>
      match parseAt layEnv l buf off with
      | none => "none"
      | some (v, n) =>
        let b := build layEnv l v
        let into := buildInto layEnv l v buf off
        let re := match b with
          | none => "none"
          | some out =>
            match parse layEnv l out with
            | none => "none"
            | some (v', n') => if v'.text == v.text then s!"same:{n'}" else "diff"
        let bs := match b with | none => "none" | some o => layShowHex o
        let is := match into with | none => "none" | some o => layShowHex o
        s!"{n} {v.text} {bs} {sizeOf l v} {is} {re}"
    | _, _, _ => "bad-args"
  | _ => "bad-args"

def dispatchLayout (cmd : String) (args : List String) : Option String :=
  match cmd with
  | "laylist" => some (",".intercalate (Gen.allLayouts.map (·.1)))
  | "layparse" => some (cmdLayParse args)
  | "layrt" => some (cmdLayRt args)
  | _ => none

end FeVerif
