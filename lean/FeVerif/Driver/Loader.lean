/-
Driver command for the data-loader model (C12).

  loader <variant> <registry> <reader> <log> <history>

  variant   seven 0/1 digits: keyPost keyTypes newOnly sliceExact dequeFull sliceNonPos keyT0   (1111111 = the code as
            it is; digits left out at the end are 0)
  registry  t:known:hasP1:hasSys:alignP1:numpyP1,...        in the order of list(message_type_to_class.keys())
  reader    <dropsUntimed 0/1>/<keepsUnavailable 0/1>/<available ids a.b.c or ->/<s_e_abs=ord.ord...|...>   (index[time_range] per range used)
  log       ord:type:time:src,...             time = scaled integer or n; `-` = empty log
  history   call;call;...   call = types,range,sources,ignore_cache,max,require_p1,require_sys,in_order,
            return_index,return_numpy,keep_messages,remove_nan,align,aligned
            (lists a.b.c, `*` = None, `-` = empty; max = integer or n; range = s_e_abs or s_e_abs_t0 with n for None,
            t0 = the explicit p1_t0 of a relative range)

  loaderspec <registry> <reader> <log> <call>     the specification (Spec/Loader.lean `freshSpec`) of one fresh call

Answer: one result per call joined by `;` (stops after the first exception):
  D|type/messages/message_index/arrays|...   messages: ordinals or d<time> for inserted defaults; arrays `~` = not converted
  O/messages/message_index
  E:<exception>
-/
import FeVerif.Spec.Loader

namespace FeVerif
open Loader

namespace LoaderDrv

def bit (s : String) : Option Bool :=
  if s == "1" then some true else if s == "0" then some false else none

def natList (s : String) : Option (List Nat) :=
  if s == "-" then some [] else (s.splitOn ".").mapM String.toNat?

def optInt (s : String) : Option (Option Int) :=
  if s == "n" then some none else s.toInt?.map some

def parseTR (s : String) : Option TimeRange :=
  match s.splitOn "_" with
  | [a, b, c] => do
    let a ← optInt a
    let b ← optInt b
    let c ← bit c
    pure ⟨a, b, c, none⟩
  | [a, b, c, d] => do
    let a ← optInt a
    let b ← optInt b
    let c ← bit c
    let d ← optInt d
    pure ⟨a, b, c, d⟩
  | _ => none

def parseVariant (s : String) : Option Variant :=
  match s.toList.map (fun c => bit (String.singleton c)) with
  | [some a, some b, some c, some d, some e] => some ⟨a, b, c, d, e, false, false⟩
  | [some a, some b, some c, some d, some e, some f] => some ⟨a, b, c, d, e, f, false⟩
  | [some a, some b, some c, some d, some e, some f, some g] => some ⟨a, b, c, d, e, f, g⟩
  | _ => none

def parseReg (s : String) : Option Reg := do
  let rows ← (s.splitOn ",").mapM (fun r =>
    match r.splitOn ":" with
    | [t, k, p, y, a, n] => do
      let t ← t.toNat?
      let k ← bit k
      let p ← bit p
      let y ← bit y
      let a ← bit a
      let n ← bit n
      pure (t, k, p, y, a, n)
    | _ => none)
  let look (f : Nat × Bool × Bool × Bool × Bool × Bool → Bool) (t : Nat) : Bool :=
    match rows.find? (fun r => r.1 == t) with
    | some r => f r
    | none => false
  pure { allTypes := rows.map (·.1), known := look (·.2.1), hasP1 := look (·.2.2.1), hasSys := look (·.2.2.2.1),
         alignP1 := look (·.2.2.2.2.1), numpyP1 := look (·.2.2.2.2.2) }

def parseLog (s : String) : Option (List Entry) :=
  if s == "-" then some [] else
  (s.splitOn ",").mapM (fun r =>
    match r.splitOn ":" with
    | [o, t, tm, sr] => do
      let o ← o.toNat?
      let t ← t.toNat?
      let tm ← optInt tm
      let sr ← sr.toNat?
      pure ⟨o, t, tm, sr⟩
    | _ => none)

def parseReader (s : String) : Option Reader :=
  match s.splitOn "/" with
  | [nan, keep, av, sel] => do
    let nan ← bit nan
    let keep ← bit keep
    let av ← natList av
    let tbl ← (if sel == "-" then some [] else (sel.splitOn "|").mapM (fun kv =>
      match kv.splitOn "=" with
      | [k, ords] => do
        let k ← parseTR k
        let ords ← natList ords
        pure (k, ords)
      | _ => none))
    pure { dropsUntimed := nan
           keepsUnavailable := keep
           available := fun _ => av
           timeSel := fun tr log =>
             match tbl.find? (fun kv => kv.1 == tr) with
             | some kv => log.filter (fun x => kv.2.contains x.ord)
             | none => log }
  | _ => none

def optList (s : String) : Option (Option (List Nat)) :=
  if s == "*" then some none else (natList s).map some

def parseCall (s : String) : Option Args :=
  match s.splitOn "," with
  | [ty, tr, sr, ic, mx, rp, rs, io, ri, np, km, rn, al, atys] => do
    let ty ← (if ty == "*" then some [] else natList ty)
    let tr ← parseTR tr
    let sr ← optList sr
    let ic ← bit ic
    let mx ← optInt mx
    let rp ← bit rp
    let rs ← bit rs
    let io ← bit io
    let ri ← bit ri
    let np ← bit np
    let km ← bit km
    let rn ← bit rn
    let al ← (if al == "0" then some Align.none else if al == "1" then some Align.drop
      else if al == "2" then some Align.insert else none)
    let atys ← optList atys
    pure { types := ty, timeRange := tr, sourceIds := sr, ignoreCache := ic, maxMessages := mx,
           requireP1 := rp, requireSys := rs, inOrder := io, returnIndex := ri, returnNumpy := np,
           keepMessages := km, removeNan := rn, align := al, alignedTypes := atys }
  | _ => none

def showMsg : Msg → String
  | .orig e => toString e.ord
  | .dflt _ t => s!"d{t}"

def showList (l : List String) : String := if l.isEmpty then "-" else ".".intercalate l

def showMData (d : MData) : String :=
  let arr := match d.arrays with
    | none => "~"
    | some a => showList (a.map showMsg)
  s!"{showList (d.msgs.map showMsg)}/{showList (d.idx.map toString)}/{arr}"

def showResult : Except Err Result → String
  | .error .keyError => "E:KeyError"
  | .error .attributeError => "E:AttributeError"
  | .ok (.ordered d) => s!"O/{showList (d.msgs.map showMsg)}/{showList (d.idx.map toString)}"
  | .ok (.dict l) => "|".intercalate ("D" :: l.map (fun td => s!"{td.1}/{showMData td.2}"))

def cmdLoader (args : List String) : String :=
  match args with
  | [v, reg, rd, log, hist] =>
    match parseVariant v, parseReg reg, parseReader rd, parseLog log, (hist.splitOn ";").mapM parseCall with
    | some v, some reg, some rd, some log, some calls =>
      ";".intercalate ((runHist v reg rd log Cache.empty calls).map showResult)
    | _, _, _, _, _ => "bad-args"
  | _ => "bad-args"

/-- `loaderspec <registry> <reader> <log> <call>` : the specification `freshSpec` of one call on a fresh loader. -/
def cmdLoaderSpec (args : List String) : String :=
  match args with
  | [reg, rd, log, call] =>
    match parseReg reg, parseReader rd, parseLog log, parseCall call with
    | some reg, some rd, some log, some a => showResult (.ok (freshSpec reg rd log a))
    | _, _, _, _ => "bad-args"
  | _ => "bad-args"

end LoaderDrv

def dispatchLoader (cmd : String) (args : List String) : Option String :=
  match cmd with
  | "loader" => some (LoaderDrv.cmdLoader args)
  | "loaderspec" => some (LoaderDrv.cmdLoaderSpec args)
  | _ => none

end FeVerif
