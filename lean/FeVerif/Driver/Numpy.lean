/-
Driver commands for C16 (text protocol, one request line -> one answer line).

  scalar   i<decimal> | f<hex of the binary64 bit pattern>
  value    scalar | t<hex> (Timestamp) | v<scalar>/<scalar>/… | m<cols>/<scalar>/… (2-D, row-major) | o
  message  path=value,path=value,…   (path = dotted attribute names)   `_` = no attributes
  messages message;message;…         `-` = empty list
  array    s:<scalar> | 1:<n>:<scalars> | 2:<r>x<c>:<scalars> | 3:<n>x<r>x<c>:<scalars> | ? | ?? | !
  dict     key=array|key=array|…     `-` = empty

  np_tonumpy <Class> <messages>            -> dict | unmodelled | bad-args
  np_generic <f,f,…|-> <messages>          -> dict
  np_rmnan <0|1> <k,k,…|-> <dict>          -> dict | unmodelled
  np_mdstep <0|1> <k,k,…|-> <count> <first> <last> <cached dict> <converted dict>
                                           -> dict | raises | unmodelled     (first/last: f<hex> | ! = no such attribute)
  np_loader <letters>                      -> DataLoader.to_numpy over a dictionary whose entries' own to_numpy() returns (c),
                                              raises ValueError (v) or raises something else (x): one letter per entry afterwards
                                              (C converted, k kept as it was) or `raises`, then the number of entries attempted
  np_table <Class>                         -> the (include-expanded) table, for cross-checking the translator
-/
import FeVerif.Generated.Numpy

namespace FeVerif
open FeVerif.Numpy

namespace NumpyDrv

def hexVal? (s : String) : Option Nat :=
  if s.isEmpty then none else
  s.foldl (fun acc c => acc.bind fun a =>
    if '0' ≤ c ∧ c ≤ '9' then some (a * 16 + (c.toNat - '0'.toNat))
    else if 'a' ≤ c ∧ c ≤ 'f' then some (a * 16 + (c.toNat - 'a'.toNat + 10))
    else none) (some 0)

def hexDigits (n : Nat) : String := String.ofList (Nat.toDigits 16 n)

def parseScalar (s : String) : Option Scalar :=
  match s.toList with
  | 'i' :: r => (String.ofList r).toInt?.map .int
  | 'f' :: r => (hexVal? (String.ofList r)).map .flt
  | _ => none

def showScalar : Scalar → String
  | .int v => s!"i{v}"
  | .flt b => "f" ++ hexDigits b

def parseScalars (s : String) : Option (List Scalar) :=
  if s.isEmpty then some [] else (s.splitOn "/").mapM parseScalar

def showScalars (xs : List Scalar) : String := "/".intercalate (xs.map showScalar)

def chunk (c : Nat) : Nat → List Scalar → List (List Scalar)
  | 0, _ => []
  | r + 1, xs => xs.take c :: chunk c r (xs.drop c)

def parseVal (s : String) : Option Val :=
  match s.toList with
  | ['o'] => some .other
  | 't' :: r => (hexVal? (String.ofList r)).map .time
  | 'v' :: r => (parseScalars (String.ofList r)).map .vec
  | 'm' :: r =>
    match (String.ofList r).splitOn "/" with
    | c :: rest =>
      match c.toNat?, rest.mapM parseScalar with
      | some c, some xs => if c = 0 ∨ xs.length % c ≠ 0 then none else some (.mat (chunk c (xs.length / c) xs))
      | _, _ => none
    | [] => none
  | _ => (parseScalar s).map .s

def parsePath (s : String) : Path := (s.splitOn ".").map encodeName

def parseMsg (s : String) : Option Msg :=
  if s == "_" then some [] else
  (s.splitOn ",").mapM fun kv =>
    match kv.splitOn "=" with
    | [p, v] => (parseVal v).map fun x => (parsePath p, x)
    | _ => none

def parseMsgs (s : String) : Option (List Msg) :=
  if s == "-" then some [] else (s.splitOn ";").mapM parseMsg

def parseNames (s : String) : List Nat :=
  if s == "-" then [] else (s.splitOn ",").map encodeName

def showArr (cond : Bool) : Arr → String
  | .a0 x => "s:" ++ showScalar x
  | .a1 xs => s!"1:{xs.length}:" ++ showScalars xs
  | .a2 rows c => s!"2:{rows.length}x{c}:" ++ showScalars rows.flatten
  | .a3 b r c => s!"3:{b.length}x{r}x{c}:" ++ showScalars (b.flatten.flatten)
  | .opq => if cond then "??" else "?"
  | .bad => "!"

def parseArr (s : String) : Option Arr :=
  match s.splitOn ":" with
  | ["?"] => some .opq
  | ["!"] => some .bad
  | ["s", x] => (parseScalar x).map .a0
  | ["1", _, xs] => (parseScalars xs).map .a1
  | ["2", shape, xs] =>
    match shape.splitOn "x", parseScalars xs with
    | [r, c], some xs => match r.toNat?, c.toNat? with
      | some r, some c => if xs.length = r * c then some (.a2 (chunk c r xs) c) else none
      | _, _ => none
    | _, _ => none
  | ["3", shape, xs] =>
    match shape.splitOn "x", parseScalars xs with
    | [n, r, c], some xs => match n.toNat?, r.toNat?, c.toNat? with
      | some n, some r, some c =>
        if xs.length = n * r * c then
          some (.a3 ((List.range n).map fun i => chunk c r ((xs.drop (i * r * c)).take (r * c))) r c)
        else none
      | _, _, _ => none
    | _, _ => none
  | _ => none

def showDict (conds : List Nat) (d : Dict) : String :=
  if d.isEmpty then "-" else
  "|".intercalate (d.map fun ka => decodeName ka.1 ++ "=" ++ showArr (conds.contains ka.1) ka.2)

def parseDict (s : String) : Option Dict :=
  if s == "-" then some [] else
  (s.splitOn "|").mapM fun kv =>
    match kv.splitOn "=" with
    | [k, a] => (parseArr a).map fun x => (encodeName k, x)
    | _ => none

def findTable (name : String) : Option ClassTable :=
  Gen.allTables.find? (fun t => t.name == encodeName name)

def showKind : Kind → String
  | .perMsg e d tr =>
    let es := match e with | .id => "id" | .int => "int" | .float => "float"
    let ds := match d with | .none => "none" | .int => "int" | .bool => "bool" | .uint32 => "uint32" | .uint64 => "uint64"
    s!"perMsg/{es}/{ds}/{if tr then 1 else 0}"
  | .first .nanScalar => "first/nanScalar"
  | .first (.nanVec n) => s!"first/nanVec/{n}"
  | .fillNaN fb c v => s!"fillNaN/{".".intercalate (fb.map decodeName)}/{".".intercalate (c.map decodeName)}/{v}"
  | .opq => "opaque"

def cmdTable (args : List String) : String :=
  match args with
  | [c] => match findTable c with
    | some t =>
      let pre := match t.prelude with
        | .none => "none"
        | .trimLeadingEq p v => s!"trimLeadingEq/{".".intercalate (p.map decodeName)}/{v}"
        | .opq => "opaque"
      s!"{if t.generic then "generic" else "table"};{if t.embedsDetails then 1 else 0};{pre};" ++
        ",".intercalate (t.fields.map decodeName) ++ ";" ++ ",".intercalate (t.notTimeDependent.map decodeName) ++ ";" ++
        ",".intercalate (t.entries.map fun e =>
          s!"{decodeName e.key}:{".".intercalate (e.path.map decodeName)}:{showKind e.kind}:{if e.conditional then 1 else 0}")
    | none => "no-such-class"
  | _ => "bad-args"

def cmdToNumpy (args : List String) : String :=
  match args with
  | [c, ms] =>
    match findTable c, parseMsgs ms with
    | some t, some msgs =>
      if t.generic then "bad-args" else
      match toNumpy t msgs with
      | some d => showDict ((t.entries.filter (·.conditional)).map (·.key)) d
      | none => "unmodelled"
    | _, _ => "bad-args"
  | _ => "bad-args"

def cmdGeneric (args : List String) : String :=
  match args with
  | [fs, ms] =>
    match parseMsgs ms with
    | some msgs => showDict [] (genericToNumpy (parseNames fs) msgs)
    | none => "bad-args"
  | _ => "bad-args"

def cmdRmNan (args : List String) : String :=
  match args with
  | [flag, ntd, d] =>
    match parseDict d with
    | some d => match removeNan (flag == "1") (parseNames ntd) d with
      | some r => showDict [] r
      | none => "unmodelled"
    | none => "bad-args"
  | _ => "bad-args"

def parseEnd (s : String) : Option (Option Nat) :=
  if s == "!" || s == "-" then some none else
  match parseScalar s with
  | some (.flt b) => some (some b)
  | _ => none

def cmdMdStep (args : List String) : String :=
  match args with
  | [flag, ntd, n, f, l, cached, conv] =>
    match n.toNat?, parseEnd f, parseEnd l, parseDict cached, parseDict conv with
    | some n, some f, some l, some cached, some conv =>
      match mdToNumpy (flag == "1") (parseNames ntd) cached ⟨n, f, l⟩ conv with
      | .ok d => showDict [] d
      | .raises => "raises"
      | .unmodelled => "unmodelled"
    | _, _, _, _, _ => "bad-args"
  | _ => "bad-args"

def cmdLoader (args : List String) : String :=
  match args with
  | [letters] =>
    let es := if letters == "-" then [] else letters.toList
    if es.any (fun c => c != 'c' && c != 'v' && c != 'x') then "bad-args" else
    let step : Char → EntryStep Char := fun c => if c == 'c' then .converted 'C' else if c == 'v' then .valueError else .raises
    let res := match loaderToNumpy step es with
      | some r => String.ofList (r.map fun c => if c == 'v' then 'k' else c)
      | none => "raises"
    s!"{if res.isEmpty then "-" else res} {loaderAttempted step es}"
  | _ => "bad-args"

end NumpyDrv

def dispatchNumpy (cmd : String) (args : List String) : Option String :=
  match cmd with
  | "np_tonumpy" => some (NumpyDrv.cmdToNumpy args)
  | "np_generic" => some (NumpyDrv.cmdGeneric args)
  | "np_rmnan" => some (NumpyDrv.cmdRmNan args)
  | "np_mdstep" => some (NumpyDrv.cmdMdStep args)
  | "np_loader" => some (NumpyDrv.cmdLoader args)
  | "np_table" => some (NumpyDrv.cmdTable args)
  | _ => none

end FeVerif
