import FeVerif.Spec.Reader
import FeVerif.Driver.Frame

namespace FeVerif
open Reader

def optNat (s : String) : Option (Option Nat) := if s == "n" then some none else s.toNat?.map some

def parseMsg (s : String) : Option Msg :=
  match s.splitOn ":" with
  | [o, sz, ty, src, t] => do
    let o ← o.toNat?; let sz ← sz.toNat?; let ty ← ty.toNat?; let src ← src.toNat?; let t ← optNat t
    pure ⟨o, sz, ty, src, t⟩
  | _ => none

def parseLog (s : String) : Option (List Msg) := if s == "-" then some [] else (s.splitOn ";").mapM parseMsg

def parseNats (s : String) : Option (Option (List Nat)) :=
  if s == "-" then some none else if s == "=" then some (some []) else ((s.splitOn ",").mapM (fun (x : String) => x.toNat?)).map some

/-- `a|r,start,stop,t0` -/
def parseRange (s : String) : Option (Option TRange) :=
  if s == "-" then some none else
  match s.splitOn "," with
  | [k, st, sp, t0] => do
    let st ← optNat st; let sp ← optNat sp; let t0 ← optNat t0
    pure (some ⟨k == "a", st, sp, t0⟩)
  | _ => none

def showNats (l : List Nat) : String := ",".intercalate (l.map toString)

/-- `rdread <log> <types> <range> <sources> <maxbytes> <reqp1>` : model of constructor + read everything;
`rdreadfip` : the time range handed to `filter_in_place()` of a reader constructed with the other criteria -/
def cmdRdRead (viaFilterInPlace : Bool) (args : List String) : String :=
  match args with
  | [lg, ty, rg, src, mb, rq] =>
    match parseLog lg, parseNats ty, parseRange rg, parseNats src, optNat mb with
    | some log, some types, some range, some sources, some maxBytes =>
      match (if viaFilterInPlace then constructThenFilterTime log types range else construct log types range) with
      | none => "IndexError"
      | some cur => showNats (readAll log sources maxBytes (rq == "1") cur)
    | _, _, _, _, _ => "bad-args"
  | _ => "bad-args"

/-- `rdspec <log> <types> <range> <sources> <maxbytes>` : the specification -/
def cmdRdSpec (args : List String) : String :=
  match args with
  | [lg, ty, rg, src, mb] =>
    match parseLog lg, parseNats ty, parseRange rg, parseNats src, optNat mb with
    | some log, some types, some range, some sources, some maxBytes =>
      match filterSpec log ⟨types, range, sources, maxBytes⟩ with
      | none => "IndexError"
      | some l => showNats l
    | _, _, _, _, _ => "bad-args"
  | _ => "bad-args"

def parseOp (s : String) : Option Op :=
  match s.splitOn ":" with
  | ["r"] => some .readNext
  | ["t", ts] => (parseNats ts).bind fun x => x.map Op.filterTypes
  | ["T", r] => (parseRange (r.replace "/" ",")).bind fun x => x.map Op.filterTime
  | ["s", i, j] => do let i ← i.toNat?; let j ← j.toNat?; pure (.filterSlice i j)
  | ["s", i, j, k] => do let i ← i.toNat?; let j ← j.toNat?; let k ← k.toNat?; if k = 0 then none else pure (.filterStride i j k)
  | ["u"] => some .removeUntimed
  | ["c"] => some .clear
  | ["w"] => some .rewind
  | ["k", i, f] => do let i ← i.toNat?; pure (.seek i (f == "1"))
  | ["e"] => some .seekEof
  | _ => none

def showRes : Res → String
  | .msg o => s!"m{o}"
  | .stop => "stop"
  | .done => "done"
  | .valueError => "VE"
  | .indexError => "IE"

/-- `rdcursor <log> <op;op;…>` : model: results, then `|next|len(cur)` ; `rdcursorspec` : the abstract cursor -/
def cmdRdCursor (spec : Bool) (args : List String) : String :=
  match args with
  | [lg, ops] =>
    match parseLog lg, (if ops == "-" then some [] else (ops.splitOn ";").mapM parseOp) with
    | some log, some ops =>
      if spec then
        let r := absRun ⟨indexOf log, indexOf log, none⟩ ops
        ",".intercalate (r.2.map showRes)
      else
        let r := run (Cur.init (indexOf log)) ops
        ",".intercalate (r.2.map showRes) ++ s!"|{r.1.next}|{r.1.cur.length}"
    | _, _ => "bad-args"
  | _ => "bad-args"

def dispatchReader (cmd : String) (args : List String) : Option String :=
  match cmd with
  | "rdread" => some (cmdRdRead false args)
  | "rdreadfip" => some (cmdRdRead true args)
  | "rdspec" => some (cmdRdSpec args)
  | "rdcursor" => some (cmdRdCursor false args)
  | "rdcursorspec" => some (cmdRdCursor true args)
  | _ => none

end FeVerif
