import FeVerif.Model.RtcmFramer
import FeVerif.Spec.Rtcm

namespace FeVerif.RtcmFramer

/-- FNV-1a, 64 bit: a digest for "same bytes" in the line protocol. -/
def fnv64 (bs : Bytes) : UInt64 :=
  bs.foldl (fun h b => (h ^^^ b.toUInt64) * 0x100000001b3) 0xcbf29ce484222325

def showCb (c : RtcmCb) : String := s!"{c.msgType}:{c.frame.length}:{(fnv64 c.frame).toNat}"

def showCbs (l : List RtcmCb) : String := "/".intercalate (l.map showCb)

/-- `hasbuf|cap|state|next|cur|decoded|errors|fault` -/
def showRtcm (s : Rtcm) : String :=
  s!"{if s.hasBuf then 1 else 0}|{s.cap}|{s.state.toNat}|{s.next}|{s.cur}|{s.decoded}|{s.errors}|{if s.fault then 1 else 0}"

/-- `i` internal buffer, `u<a>` caller buffer at address `a`, `n` default-constructed. -/
def rtcmConstruct (spec : String) (capacity : Nat) : Option Rtcm :=
  if spec == "i" then some (Rtcm.construct none capacity 4096 (fun _ => 0))
  else if spec == "n" then some Rtcm.empty
  else if spec.startsWith "u" then
    match (spec.drop 1).toNat? with
    | some a => some (Rtcm.construct (some a) capacity 4096 (fun _ => 0))
    | none => none
  else none

def rtcmOps (s : Rtcm) (ops : List String) (acc : List String) : Option (List String) :=
  match ops with
  | [] => some acc.reverse
  | op :: rest =>
    if op == "R" then rtcmOps s.reset rest (s!"R|{showRtcm s.reset}" :: acc)
    else if op == "Q" then rtcmOps (s.warnOnError false) rest (s!"Q|{showRtcm s}" :: acc)
    else if op == "q" then rtcmOps (s.warnOnError true) rest (s!"q|{showRtcm s}" :: acc)
    else if op.startsWith "B" then
      match (op.drop 1).toString.splitOn ":" with
      | [b, c] =>
        match c.toNat?, (if b == "i" then some none else if b.startsWith "u" then (b.drop 1).toNat?.map some else none) with
        | some c, some buffer =>
          let s' := s.setBuffer buffer c 4096 (fun _ => 0)
          rtcmOps s' rest (s!"B|{showRtcm s'}" :: acc)
        | _, _ => none
      | _ => none
    else
      match (if op == "-" then some [] else ofHex op) with
      | none => none
      | some d =>
        let r := onData s d
        rtcmOps r.s rest (s!"D|{showCbs r.cbs}|{r.ret}|{showRtcm r.s}" :: acc)

/-- `rtcm <i|u<addr>|n> <capacity> <op,op,…>` : literal model; `C|state` after construction, then one
record per operation (`D|callbacks|return|state` for `OnData`), joined by `;`. -/
def cmdRtcm (args : List String) : String :=
  match args with
  | [spec, cap, ops] =>
    match cap.toNat?, (if ops == "=" then [] else ops.splitOn ",") with
    | some cap, ops =>
      match rtcmConstruct spec cap with
      | some s0 =>
        match rtcmOps s0 ops [s!"C|{showRtcm s0}"] with
        | some l => ";".intercalate l
        | none => "bad-args"
      | none => "bad-args"
    | _, _ => "bad-args"
  | _ => "bad-args"

/-- `rtcmscan <capacity> <hex>` : the specification: `offset:length:msgnum:digest,…|restlen|off`. -/
def cmdRtcmScan (args : List String) : String :=
  match args with
  | [cap, hex] =>
    match cap.toNat?, (if hex == "-" then some [] else ofHex hex) with
    | some cap, some bs =>
      let r := (cfgRtcm cap).run bs 0
      let ms := r.msgs.map fun (o, n) =>
        s!"{o}:{n}:{rtcmMsgNum (slice bs o n)}:{(fnv64 (slice bs o n)).toNat}"
      s!"{",".intercalate ms}|{r.rest.length}|{r.off}"
    | _, _ => "bad-args"
  | _ => "bad-args"

/-- `crc24 <hex>` : `source-table value|polynomial-table value`. -/
def cmdCrc24 (args : List String) : String :=
  match args with
  | [hex] =>
    match (if hex == "-" then some [] else ofHex hex) with
    | some bs => s!"{crc24Src bs}|{crc24q bs}"
    | none => "bad-args"
  | _ => "bad-args"

end FeVerif.RtcmFramer

namespace FeVerif
open RtcmFramer

def dispatchRtcm (cmd : String) (args : List String) : Option String :=
  match cmd with
  | "rtcm" => some (cmdRtcm args)
  | "rtcmscan" => some (cmdRtcmScan args)
  | "crc24" => some (cmdCrc24 args)
  | _ => none

end FeVerif
