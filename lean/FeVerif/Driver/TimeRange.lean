/-
Driver commands for the TimeRange model and the interval specification (property C13).
Times are decimal integers (the harness uses quarter seconds).

  bound   := N | <int> | inf | T<int> | Tinf | TX          (None, float, Timestamp, invalid Timestamp)
  ctor    := <bound>,<bound>,<N|0|1>,<N|int>               (start, end, absolute, p1_t0)
  event   := <message> | R (restart()), a message may be prefixed with `t` (return_timestamps=True)
  message := b | u | s | n | <int> | m<src>.<mt>.<p1> | p<p1>.<sys>       (a message by its members)
             b raw bytes, u payload without P1 time, s payload with system_time_ns only, n payload with invalid P1
             time, <int> payload whose p1_time member is that time;
             m: a sensor measurement, details.measurement_time_source <src> (0 invalid, 1 P1 time, 2 timestamped on
                reception, 3 sender system time, 4 GPS time), details.measurement_time <mt> and details.p1_time <p1>
                (N: invalid Timestamp, else the time);
             p: any other payload, p1_time member <p1> (A: none / None, X: invalid Timestamp, else the time),
                system_time_ns member <sys> (A: none, else nanoseconds)
             `trange`/`trscript` hand the model of is_in_range what the model of get_p1_time() answers for the
             members; `trangespec` hands the specification the message as documented (Obj.docMsg)
  state   := start,end,absolute,t0,specified,started,ended

  trange <ctor> <events,…|=>                -> <0/1/r per event>|<state>
  trangespec <start>,<end>,<0|1>,<origin> <msgs,…|=>   -> <0/1 per message>
  trmkabs <ctor> <N|int>                    -> <state> | err:ValueError
  trinter <ctor> <ctor>                     -> <state> | err:ValueError
  trparse <string> <N|0|1>                  -> <state> | err:ValueError
  trmsg <message>                           -> <model of get_p1_time: raw|none|invalid|int>|<model of get_system_time_ns:
                                               none|nan|ns<int>|t<time>>|<documented P1 time N|int>|<documented
                                               system time>|<members consistent 0|1>
  trscript <ctorA> <eventsA|=> <ctorB|-> <eventsB|=> <op> <events|=>
      op := ab (A.intersect(B)) | ba (B.intersect(A)) | mk<N|int> (A.make_absolute) | id (a copy of A),
      applied after A and B have been shown their events; the further events go to the result
                                            -> <0/1/r per event>|<state> | err:ValueError
-/
import FeVerif.Spec.TimeRange

namespace FeVerif.TR

def trOptInt (s : String) : Option (Option Int) :=
  if s == "N" then some none else s.toInt?.map some

def trExt (s : String) : Option Ext :=
  if s == "inf" then some .inf else s.toInt?.map .fin

def trBound (s : String) : Option BoundArg :=
  if s == "N" then some .none
  else if s == "TX" then some (.ts none)
  else if s.startsWith "T" then (trExt (s.drop 1).toString).map fun x => .ts (some x)
  else (trExt s).map .num

def trOptBool (s : String) : Option (Option Bool) :=
  if s == "N" then some none else if s == "0" then some (some false) else if s == "1" then some (some true) else none

def trCtor (s : String) : Option TimeRange :=
  match s.splitOn "," with
  | [a, b, c, d] =>
    match trBound a, trBound b, trOptBool c, trOptInt d with
    | some a, some b, some c, some d => some (TimeRange.new a b c d)
    | _, _, _, _ => none
  | _ => none

def trSource (s : String) : Option TimeSource :=
  if s == "0" then some .invalid else if s == "1" then some .p1Time else if s == "2" then some .timestampedOnReception
  else if s == "3" then some .senderSystemTime else if s == "4" then some .gpsTime else none

/-- A message by its members (see the header): the short forms are ordinary payloads. -/
def trObj (s : String) : Option Obj :=
  if s == "b" then some .raw
  else if s == "u" then some (.plain none none)
  else if s == "s" then some (.plain none (some 3000000000))
  else if s == "n" then some (.plain (some none) none)
  else if s.startsWith "m" then
    match (s.drop 1).toString.splitOn "." with
    | [src, mt, p1] =>
      match trSource src, trOptInt mt, trOptInt p1 with
      | some src, some mt, some p1 => some (.meas ⟨mt, src, p1⟩)
      | _, _, _ => none
    | _ => none
  else if s.startsWith "p" then
    match (s.drop 1).toString.splitOn "." with
    | [p1, sys] =>
      let p1v : Option (Option (Option Int)) :=
        if p1 == "A" then some none else if p1 == "X" then some (some none) else p1.toInt?.map fun t => some (some t)
      let sysv : Option (Option Int) := if sys == "A" then some none else sys.toInt?.map some
      match p1v, sysv with
      | some p1v, some sysv => some (.plain p1v sysv)
      | _, _ => none
    | _ => none
  else s.toInt?.map fun t => .plain (some (some t)) none

/-- What the model of `is_in_range` is given: the accessors' answer. -/
def trMsg (s : String) : Option Msg := (trObj s).map Obj.msg

/-- What the specification is given: the message as documented. -/
def trDocMsg (s : String) : Option Msg := (trObj s).map Obj.docMsg

def trEvent (s : String) : Option TREvent :=
  if s == "R" then some .restart
  else if s.startsWith "t" then (trMsg (s.drop 1).toString).map (.msg true)
  else (trMsg s).map (.msg false)

def trList (f : String → Option α) (s : String) : Option (List α) :=
  if s == "=" then some [] else (s.splitOn ",").mapM f

def showExt : Ext → String
  | .fin v => toString v
  | .inf => "inf"

def showOpt (f : α → String) : Option α → String
  | none => "N"
  | some x => f x

def showBool (b : Bool) : String := if b then "1" else "0"

def showMsg : Msg → String
  | .raw => "raw"
  | .noP1 => "none"
  | .invalidP1 => "invalid"
  | .p1 t => toString t

def showSys : SysTime → String
  | .none => "none"
  | .nan => "nan"
  | .ns v => s!"ns{v}"
  | .ofTime t => s!"t{t}"

def cmdTRMsg (args : List String) : String :=
  match args with
  | [m] =>
    match trObj m with
    | some o => s!"{showMsg o.msg}|{showSys o.getSystemTimeNs}|{showOpt toString o.docP1}|{showSys o.docSys}|{showBool o.unambiguous}"
    | none => "bad-args"
  | _ => "bad-args"

def showState (r : TimeRange) : String :=
  s!"{showOpt showExt r.start},{showOpt toString r.stop},{showBool r.absolute},{showOpt toString r.t0},{showBool r.specified},{showBool r.started},{showBool r.ended}"

def showRes : Except TRErr TimeRange → String
  | .ok r => showState r
  | .error .valueError => "err:ValueError"

def cmdTRange (args : List String) : String :=
  match args with
  | [c, evs] =>
    match trCtor c, trList trEvent evs with
    | some r, some es =>
      let out := r.runEvents es
      String.join (out.2.map fun | some b => showBool b | none => "r") ++ "|" ++ showState out.1
    | _, _ => "bad-args"
  | _ => "bad-args"

def cmdTRangeSpec (args : List String) : String :=
  match args with
  | [i, ms] =>
    match i.splitOn ",", trList trDocMsg ms with
    | [a, b, c, d], some ms =>
      match (if a == "N" then some none else (trExt a).map some), trOptInt b, trOptBool c, trOptInt d with
      | some a, some b, some (some c), some d => String.join ((Interval.seq ⟨a, b, c, d⟩ ms).map showBool)
      | _, _, _, _ => "bad-args"
    | _, _ => "bad-args"
  | _ => "bad-args"

def cmdTRMkAbs (args : List String) : String :=
  match args with
  | [c, p] =>
    match trCtor c, trOptInt p with
    | some r, some p => showRes (r.makeAbsolute p)
    | _, _ => "bad-args"
  | _ => "bad-args"

def cmdTRInter (args : List String) : String :=
  match args with
  | [a, b] =>
    match trCtor a, trCtor b with
    | some a, some b => showRes (a.intersect b)
    | _, _ => "bad-args"
  | _ => "bad-args"

def cmdTRScript (args : List String) : String :=
  match args with
  | [ca, ea, cb, eb, op, es] =>
    match trCtor ca, trList trEvent ea, trList trEvent es with
    | some a, some ea, some es =>
      let a' := (a.runEvents ea).1
      let res : Option (Except TRErr TimeRange) :=
        if op == "id" then some (.ok a')
        else if op.startsWith "mk" then (trOptInt (op.drop 2).toString).map fun p => a'.makeAbsolute p
        else
          match trCtor cb, trList trEvent eb with
          | some b, some eb =>
            let b' := (b.runEvents eb).1
            if op == "ab" then some (a'.intersect b') else if op == "ba" then some (b'.intersect a') else none
          | _, _ => none
      match res with
      | some (.ok r) =>
        let out := r.runEvents es
        String.join (out.2.map fun | some b => showBool b | none => "r") ++ "|" ++ showState out.1
      | some (.error .valueError) => "err:ValueError"
      | none => "bad-args"
    | _, _, _ => "bad-args"
  | _ => "bad-args"

/-- The subset of `float()` syntax used by the harness: `[+-]digits[.digits]` with a value that is a multiple of
0.25 (result in quarter units), `inf`, `-inf`; anything else is "raises ValueError". -/
def fltQuarter (s : String) : Option FloatVal :=
  if s == "inf" || s == "+inf" then some .inf
  else if s == "-inf" then some .negInf
  else
    let neg := s.startsWith "-"
    let body := if neg || s.startsWith "+" then (s.drop 1).toString else s
    let sign : Int := if neg then -1 else 1
    match body.splitOn "." with
    | [ip] =>
      if ip.isEmpty || !ip.all Char.isDigit then none
      else ip.toNat?.map fun n => .fin (sign * (4 * n))
    | [ip, fp] =>
      if (ip.isEmpty && fp.isEmpty) || !ip.all Char.isDigit || !fp.all Char.isDigit then none
      else
        let n := if ip.isEmpty then 0 else ip.toNat!
        let fpad := (fp ++ "00").take 2
        let rest := (fp ++ "00").drop 2
        if !rest.all (· == '0') then none
        else
          let q : Option Nat :=
            if fpad.toString == "00" then some 0 else if fpad.toString == "25" then some 1
            else if fpad.toString == "50" then some 2 else if fpad.toString == "75" then some 3 else none
          q.map fun q => .fin (sign * (4 * n + q))
    | _ => none

def cmdTRParse (args : List String) : String :=
  match args with
  | [s, a] =>
    match trOptBool a with
    | some a => showRes (TimeRange.parseParts fltQuarter (s.splitOn ":") a)
    | none => "bad-args"
  | _ => "bad-args"

end FeVerif.TR

namespace FeVerif
open TR

def dispatchTimeRange (cmd : String) (args : List String) : Option String :=
  match cmd with
  | "trange" => some (cmdTRange args)
  | "trangespec" => some (cmdTRangeSpec args)
  | "trmkabs" => some (cmdTRMkAbs args)
  | "trinter" => some (cmdTRInter args)
  | "trparse" => some (cmdTRParse args)
  | "trscript" => some (cmdTRScript args)
  | "trmsg" => some (cmdTRMsg args)
  | _ => none

end FeVerif
