/-
Model of `DataLoader.time_align_data` (python/fusion_engine_client/analysis/data_loader.py) and of the
three numpy functions it is built from, plus the short specification C15 is stated against.

Times.  `float(m.p1_time)` is a float; the model uses `Time := Option Int`: `some t` is a valid time,
`none` is NaN (an invalid `Timestamp`).  For dicts built in memory the harness uses exactly representable
values, so float `==`/`<` is `=`/`<` on the integers.  For data read from a log the harness writes the wire
timestamp (seconds, nanoseconds) of every message itself and `t` is that wire value
`seconds * 10^9 + nanoseconds` - not a decoded float: the model says what the alignment of the epochs
stored in the log is, and an implementation whose decoders or helpers turn one stored epoch into two
different floats (or an inserted default into a third) is judged against it (tools/props/c15.py, WireClock).  numpy semantics of NaN that the code depends on, all modelled:
sorting puts NaN last, `np.unique` collapses all NaN into one trailing entry, `np.intersect1d` compares
with `==` so NaN never matches anything.

Messages.  `Msg.orig t id` is an input object (identity `id`, P1 time `t`); `Msg.fab t` is the object
built by `default = cls(); default.p1_time = t`.

Data.  The `dict` of `MessageData` is the list of its items in iteration order; `hasP1` is the truth
value of `'p1_time' in entry.message_class().__dict__`; `key` is `entry.message_type`.
-/
namespace FeVerif.Align

abbrev Time := Option Int

inductive Msg where
  | orig (t : Time) (id : Nat)
  | fab (t : Time)
  deriving DecidableEq, Repr

/-- `float(m.p1_time)` -/
def Msg.time : Msg → Time
  | .orig t _ => t
  | .fab t => t

structure Entry where
  key : Nat
  hasP1 : Bool
  msgs : List Msg
  deriving DecidableEq, Repr

inductive Mode where
  | drop | insert
  deriving DecidableEq, Repr

/-- The only exception kind the body can raise by itself: a list / array subscript out of range. -/
inductive AlignErr where
  | indexError
  deriving DecidableEq, Repr

/-! ### numpy -/

/-- insertion into a strictly ascending list, an equal element is not inserted again -/
def insertSorted (x : Int) : List Int → List Int
  | [] => [x]
  | y :: ys => if x < y then x :: y :: ys else if x = y then y :: ys else y :: insertSorted x ys

/-- sorted, duplicates removed -/
def sortDedup (l : List Int) : List Int := l.foldr insertSorted []

/-- the non-NaN values of an array, in order -/
def valid (a : List Time) : List Int := a.filterMap id

/-- `np.unique(a)`: sorted distinct values; all NaN collapse into a single last entry -/
def npUnique (a : List Time) : List Time :=
  (sortDedup (valid a)).map some ++ (if a.contains none then [none] else [])

/-- `np.hstack((a, b))` -/
def npHstack (a b : List Time) : List Time := a ++ b

/-- One column of the three parallel arrays `np.intersect1d(a, b, return_indices=True)` returns. -/
structure Common where
  val : Time
  ia : Nat
  ib : Nat
  deriving DecidableEq, Repr

/-- `np.intersect1d(a, b, return_indices=True)`: the sorted distinct values found in both arrays
(compared with `==`, so never NaN), each with the index of its FIRST occurrence in `a` and in `b`. -/
def npIntersect1d (a b : List Time) : List Common :=
  ((sortDedup (valid a)).filter fun v => b.contains (some v)).map
    fun v => { val := some v, ia := a.idxOf (some v), ib := b.idxOf (some v) }

/-! ### `time_align_data` -/

/-- `'p1_time' in default.__dict__ and (message_types is None or entry.message_type in message_types)` -/
def selected (req : Option (List Nat)) (e : Entry) : Bool :=
  e.hasP1 && (match req with | none => true | some ks => ks.contains e.key)

/-- `p1_time = np.array([float(m.p1_time) for m in entry.messages])` -/
def p1Times (e : Entry) : List Time := e.msgs.map Msg.time

/-- body of the first loop for one selected type; `none` is Python's `time_set = None` -/
def timeStep (mode : Mode) (ts : Option (List Time)) (p1 : List Time) : Option (List Time) :=
  match ts with
  | none => some p1
  | some s =>
    match mode with
    | .drop => some ((npIntersect1d s p1).map Common.val)
    | .insert => some (npHstack s p1)

/-- `time_set` after the first loop (`info_by_type` is `data.filter (selected req)`, same order) -/
def timeSet (mode : Mode) (req : Option (List Nat)) (data : List Entry) : Option (List Time) :=
  (data.filter (selected req)).foldl (fun ts e => timeStep mode ts (p1Times e)) none

/-- DROP: `[entry['messages'][i] for i in idx]` with `_, idx, _ = np.intersect1d(p1_time, time_set, …)` -/
def dropMsgs (msgs : List Msg) (ts : List Time) : Except AlignErr (List Msg) :=
  (npIntersect1d (msgs.map Msg.time) ts).mapM fun c =>
    match msgs[c.ia]? with
    | some m => .ok m
    | none => .error .indexError

/-- one assignment of `message_indices[all_idx] = idx`; `-1` is `none` -/
def assignIdx (acc : List (Option Nat)) (c : Common) : Except AlignErr (List (Option Nat)) :=
  if c.ib < acc.length then .ok (acc.set c.ib (some c.ia)) else .error .indexError

/-- `message_indices = np.full_like(time_set, -1, dtype=int); message_indices[all_idx] = idx` -/
def messageIndices (ts : List Time) (r : List Common) : Except AlignErr (List (Option Nat)) :=
  r.foldlM assignIdx (List.replicate ts.length none)

/-- `_get_value(i)` -/
def getValue (msgs : List Msg) (ts : List Time) (mi : List (Option Nat)) (i : Nat) : Except AlignErr Msg :=
  match mi[i]? with
  | none => .error .indexError
  | some (some k) =>
    match msgs[k]? with
    | some m => .ok m
    | none => .error .indexError
  | some none =>
    match ts[i]? with
    | some t => .ok (.fab t)
    | none => .error .indexError

/-- INSERT, body of the second loop for one type (`ts` is already `np.unique(time_set)`) -/
def insertMsgs (msgs : List Msg) (ts : List Time) : Except AlignErr (List Msg) :=
  match messageIndices ts (npIntersect1d (msgs.map Msg.time) ts) with
  | .error e => .error e
  | .ok mi => (List.range ts.length).mapM (getValue msgs ts mi)

/-- the new `data[type].messages` of one selected type -/
def realign (mode : Mode) (ts : List Time) (msgs : List Msg) : Except AlignErr (List Msg) :=
  match mode with
  | .drop => dropMsgs msgs ts
  | .insert => insertMsgs msgs (npUnique ts)

/-- `DataLoader.time_align_data(data, mode, message_types = req)` for `mode ∈ {DROP, INSERT}`.
When no type is selected `time_set` stays `None` and both second loops run zero times. -/
def align (mode : Mode) (req : Option (List Nat)) (data : List Entry) : Except AlignErr (List Entry) :=
  match timeSet mode req data with
  | none => .ok data
  | some ts =>
    data.mapM fun e =>
      if selected req e then
        match realign mode ts e.msgs with
        | .ok ms => .ok { e with msgs := ms }
        | .error x => .error x
      else .ok e

/-- One call of a history: `DataLoader.time_align_data(data, mode, message_types = req)`. -/
structure Call where
  mode : Mode
  req : Option (List Nat)
  deriving DecidableEq, Repr

/-- Several alignments of the SAME dict, one after the other (each call replaces `entry.messages` in place, the
next call starts from those lists; nothing else is carried from one call to the next).  A message fabricated by
an earlier call is an ordinary element of the list the next call reads. -/
def alignSeq (calls : List Call) (data : List Entry) : Except AlignErr (List Entry) :=
  calls.foldlM (fun d c => align c.mode c.req d) data

/-! ### Specification -/

/-- `v` is a (valid) time of every aligned type / of some aligned type / some aligned type has a NaN time -/
def InAll (req : Option (List Nat)) (data : List Entry) (v : Int) : Prop :=
  ∀ e ∈ data, selected req e = true → some v ∈ p1Times e
def InSome (req : Option (List Nat)) (data : List Entry) (v : Int) : Prop :=
  ∃ e ∈ data, selected req e = true ∧ some v ∈ p1Times e
def AnyNaN (req : Option (List Nat)) (data : List Entry) : Prop :=
  ∃ e ∈ data, selected req e = true ∧ none ∈ p1Times e

/-- `ts` lists exactly the values satisfying `P`, each once, ascending. -/
def IsSortedSet (ts : List Int) (P : Int → Prop) : Prop :=
  ts.Pairwise (· < ·) ∧ ∀ v, v ∈ ts ↔ P v

/-- total order of the result: valid times ascending, NaN (at most one) after them -/
def Time.lt : Time → Time → Prop
  | some a, some b => a < b
  | some _, none => True
  | none, _ => False

/-- the message a type shows at time `t`: its FIRST message with that time, else a fabricated one -/
def pick (msgs : List Msg) (t : Time) : Msg :=
  match t with
  | none => .fab none
  | some v =>
    match msgs.find? (fun m => m.time == some v) with
    | some m => m
    | none => .fab (some v)

/-- executable specification of the common time axis -/
def specTimes (mode : Mode) (req : Option (List Nat)) (data : List Entry) : List Time :=
  match mode with
  | .drop =>
    match data.filter (selected req) with
    | [] => []
    | e :: es => ((sortDedup (valid (p1Times e))).filter fun v => es.all fun e' => (p1Times e').contains (some v)).map some
  | .insert => npUnique ((data.filter (selected req)).flatMap p1Times)

/-- executable specification of the whole operation -/
def specAlign (mode : Mode) (req : Option (List Nat)) (data : List Entry) : List Entry :=
  data.map fun e => if selected req e then { e with msgs := (specTimes mode req data).map (pick e.msgs) } else e

/-- specification of a history of calls: the one-call specification applied to the lists the previous call left -/
def specAlignSeq (calls : List Call) (data : List Entry) : List Entry :=
  calls.foldl (fun d c => specAlign c.mode c.req d) data

end FeVerif.Align
