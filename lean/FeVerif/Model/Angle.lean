/-
C19 — yaw/heading conversions of `python/fusion_engine_client/messages/defs.py`
(`_wrap_angle`, `yaw_to_heading`, `heading_to_yaw`), modelled over exact rational arithmetic.

Core Lean only: `Rat` is the rational number type of Lean's own library (`Init.Data.Rat`), so this file is
compiled into the native driver AND is the object the theorems of `Props/C19.lean` are about (Mathlib's `ℚ`
is this same type).  Every finite double is a dyadic rational, hence a `Rat`; `+`, `-`, `*`, `/` here are
exact, IEEE rounding is NOT modelled (see `Props/C19.lean`, "partial").

Python (after the fix):
```
def _wrap_angle(angle, full_turn):
    return np.fmod(np.fmod(angle, full_turn) + full_turn, full_turn)

def yaw_to_heading(yaw, deg=True):
    if deg:  heading_deg = 90.0 - yaw;           return _wrap_angle(heading_deg, 360.0)
    else:    heading_rad = math.pi / 2.0 - yaw;  return _wrap_angle(heading_rad, 2.0 * math.pi)

def heading_to_yaw(heading, deg=True):
    if deg:  yaw_deg = 90.0 - heading;           return _wrap_angle(yaw_deg + 180.0, 360.0) - 180.0
    else:    yaw_rad = math.pi / 2.0 - heading;  return _wrap_angle(yaw_rad + math.pi, 2.0 * math.pi) - math.pi
```
The two branches of each function have the same shape with the half turn `H` = `180.0` resp. `math.pi`
(`90.0 = H/2`, `360.0 = 2*H`; `math.pi / 2.0` and `2.0 * math.pi` are exact in binary floating point).
-/

namespace FeVerif.Angle

/-- C `trunc`: round toward zero. -/
def trunc (q : Rat) : Int := if 0 ≤ q then q.floor else q.ceil

/-- `np.fmod` (C `fmod`) without rounding: `x - y * trunc (x / y)`; the result has the sign of the dividend `x`. -/
def fmod (x y : Rat) : Rat := x - y * (trunc (x / y) : Rat)

/-- `_wrap_angle(angle, full_turn)`. -/
def wrapAngle (angle fullTurn : Rat) : Rat := fmod (fmod angle fullTurn + fullTurn) fullTurn

/-- `yaw_to_heading(yaw, deg)` with half turn `H` (`180.0` for `deg=True`, `math.pi` for `deg=False`). -/
def yawToHeadingH (H yaw : Rat) : Rat := wrapAngle (H / 2 - yaw) (2 * H)

/-- `heading_to_yaw(heading, deg)` with half turn `H`. -/
def headingToYawH (H heading : Rat) : Rat := wrapAngle (H / 2 - heading + H) (2 * H) - H

/-- `yaw_to_heading(yaw)` (degrees). -/
def yawToHeading (yaw : Rat) : Rat := yawToHeadingH 180 yaw

/-- `heading_to_yaw(heading)` (degrees). -/
def headingToYaw (heading : Rat) : Rat := headingToYawH 180 heading

/-- A NumPy array argument: `np.fmod`, `+`, `-` are element-wise ufuncs. -/
def yawToHeadingArr (H : Rat) (yaws : List Rat) : List Rat := yaws.map (yawToHeadingH H)

def headingToYawArr (H : Rat) (headings : List Rat) : List Rat := headings.map (headingToYawH H)

/-- The formulas as they were before the repair (kept to document the defect, see `C19_prefix_formula_fails`):
`np.fmod(90.0 - yaw + 180.0, 360.0)` and `np.fmod(90.0 - heading + 180.0, 360.0) - 180.0`. -/
def yawToHeadingOld (yaw : Rat) : Rat := fmod (90 - yaw + 180) 360

def headingToYawOld (heading : Rat) : Rat := fmod (90 - heading + 180) 360 - 180

/-! ### Calls: how the documented signature `(angle, deg=True)` binds the unit

Both functions are documented as `f(angle, deg=True)`: the unit flag is the SECOND positional parameter and the keyword
`deg`; it is tested with `if deg:`, so every truthy / falsy spelling (`True`/`False`, `1`/`0`, `np.True_`/`np.False_`)
means the same.  A call states the unit in one of three ways; what it asks for depends only on the truth value. -/

inductive UnitArg where
  /-- `f(angle)` -/
  | omitted
  /-- `f(angle, flag)` -/
  | positional (truthy : Bool)
  /-- `f(angle, deg=flag)` -/
  | keyword (truthy : Bool)
  deriving Repr, DecidableEq

/-- the value the parameter `deg` is bound to: `True` by default -/
def UnitArg.deg : UnitArg → Bool
  | .omitted => true
  | .positional b => b
  | .keyword b => b

/-- the half turn of the branch taken: `180.0`, or `piD` (= the double `math.pi`) when `deg` is false -/
def halfTurn (piD : Rat) (deg : Bool) : Rat := if deg then 180 else piD

/-- `yaw_to_heading(yaw[, flag | deg=flag])` -/
def yawToHeadingCall (piD : Rat) (u : UnitArg) (yaw : Rat) : Rat := yawToHeadingH (halfTurn piD u.deg) yaw

/-- `heading_to_yaw(heading[, flag | deg=flag])` -/
def headingToYawCall (piD : Rat) (u : UnitArg) (heading : Rat) : Rat := headingToYawH (halfTurn piD u.deg) heading

/-! ### The same formulas with every `+` / `-` rounded

`rnd` is the rounding of the floating-point format (for the real code: IEEE-754 binary64, round to nearest even).
`np.fmod` is exact in IEEE arithmetic (the exact remainder is representable), so it is not rounded; `H / 2` and
`2 * H` are exact too (`90.0`, `360.0` are literals; `math.pi / 2.0`, `2.0 * math.pi` only change the exponent). -/

def wrapAngleR (rnd : Rat → Rat) (angle fullTurn : Rat) : Rat :=
  fmod (rnd (fmod angle fullTurn + fullTurn)) fullTurn

def yawToHeadingR (rnd : Rat → Rat) (H yaw : Rat) : Rat := wrapAngleR rnd (rnd (H / 2 - yaw)) (2 * H)

def headingToYawR (rnd : Rat → Rat) (H heading : Rat) : Rat :=
  rnd (wrapAngleR rnd (rnd (rnd (H / 2 - heading) + H)) (2 * H) - H)

/-! ### Exact value of an IEEE-754 binary64 bit pattern -/

/-- `2^e` as a rational for any integer `e`. -/
def pow2 (e : Int) : Rat := if 0 ≤ e then ((2 ^ e.toNat : Nat) : Rat) else 1 / ((2 ^ (-e).toNat : Nat) : Rat)

/-- The exact value of the double with the given 64 bits; `none` for infinities and NaNs. -/
def ofBits (b : Nat) : Option Rat :=
  let sign : Rat := if b / 2 ^ 63 % 2 = 1 then -1 else 1
  let ex : Nat := b / 2 ^ 52 % 2 ^ 11
  let frac : Nat := b % 2 ^ 52
  if ex = 2047 then none
  else if ex = 0 then some (sign * (frac : Rat) * pow2 (-1074))
  else some (sign * ((2 ^ 52 + frac : Nat) : Rat) * pow2 ((ex : Int) - 1075))

/-! ### Round to nearest even into binary64 (executable; overflow to infinity is not modelled) -/

/-- `⌊log₂ q⌋` for `q > 0`. -/
def ilog2 (q : Rat) : Int :=
  let c : Int := (Nat.log2 q.num.natAbs : Int) - (Nat.log2 q.den : Int)
  if pow2 c ≤ q then c else c - 1

/-- nearest integer, ties to even -/
def roundHalfEven (q : Rat) : Int :=
  let f : Int := q.floor
  let r : Rat := q - (f : Rat)
  if r < 1 / 2 then f else if 1 / 2 < r then f + 1 else if f % 2 = 0 then f else f + 1

/-- The binary64 value nearest to `q` (ties to even), as an exact rational: 53-bit significand, exponent of the
unit in the last place at least `-1074` (subnormals). -/
def roundDouble (q : Rat) : Rat :=
  if q = 0 then 0
  else
    let e : Int := ilog2 (if q < 0 then -q else q)
    let ue : Int := if e - 52 < -1074 then -1074 else e - 52
    (roundHalfEven (q / pow2 ue) : Rat) * pow2 ue

#guard roundDouble (1 / 10) == 3602879701896397 / 36028797018963968
#guard roundDouble (360 - 1 / 100000000000000000) == 360
#guard roundDouble (-(1 / 3)) == -(6004799503160661 / 18014398509481984)
#guard roundDouble (pow2 (-1075)) == 0 && roundDouble (3 * pow2 (-1075)) == 2 * pow2 (-1074)
#guard roundDouble (pow2 53 + 1) == pow2 53 && roundDouble (pow2 53 + 3) == pow2 53 + 4
#guard yawToHeadingR roundDouble 180 (90 + pow2 (-46)) == 0     -- 90.00000000000001: the sum rounds to 360.0, the second fmod maps it to 0
#guard ofBits 0x4076800000000000 == some 360
#guard ofBits 0xC066800000000000 == some (-180)
#guard ofBits 0x3FB999999999999A == some (3602879701896397 / 36028797018963968)
#guard ofBits 0x7FF0000000000000 == none
#guard yawToHeading 0 == 90 && yawToHeading 300 == 150 && headingToYaw 300 == 150 && headingToYaw 270 == -180
#guard yawToHeadingOld 0 == 270 && yawToHeadingOld 300 == -30 && headingToYawOld 300 == -210
#guard headingToYawCall (355 / 113) (.positional true) 270 == -180 && headingToYawCall (355 / 113) .omitted 270 == -180
#guard headingToYawCall (355 / 113) (.positional false) 0 == 355 / 226 && headingToYawCall (355 / 113) (.keyword false) 0 == 355 / 226
#guard fmod (-7) 3 == -1 && fmod 7 (-3) == 1 && fmod (-15/2) 2 == -3/2

end FeVerif.Angle
