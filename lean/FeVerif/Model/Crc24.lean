/-
CRC-24Q (Qualcomm, polynomial 0x1864CFB, MSB first, initial value 0, no final xor) as used by RTCM 3.
`crc24With table` transcribes `CRC24Hash` of src/point_one/rtcm/rtcm_framer.cc for a given 256-entry table;
`crc24Src` uses the literal table of the source (regenerated into Generated/Crc24.lean on every run),
`crc24q` the table recomputed from the polynomial.  `C14_crc24_table_correct` shows the tables equal.
-/
import FeVerif.Basic.Bytes
import FeVerif.Generated.Crc24

namespace FeVerif

/-- `crc = (crc << 8) ^ table[data[i] ^ (unsigned char)(crc >> 16)]` on a 32-bit `unsigned`. -/
def crc24Step (table : List Nat) (crc : BitVec 32) (b : Byte) : BitVec 32 :=
  (crc <<< 8) ^^^
    BitVec.ofNat 32 (table.getD (b ^^^ UInt8.ofNat ((crc >>> 16).toNat % 256)).toNat 0)

/-- `CRC24Hash(data, len)` with the given 256-entry table: start at 0, final `& 0x00ffffff`. -/
def crc24With (table : List Nat) (data : Bytes) : Nat :=
  ((data.foldl (crc24Step table) 0#32) &&& 0x00ffffff#32).toNat

/-- One bit of the MSB-first CRC-24Q register: shift left, reduce by the polynomial 0x1864CFB
(x²⁴+x²³+x¹⁸+x¹⁷+x¹⁴+x¹¹+x¹⁰+x⁷+x⁶+x⁵+x⁴+x³+x+1) when bit 24 comes out. -/
def crc24Bit (c : Nat) : Nat :=
  if (c * 2) &&& 0x1000000 ≠ 0 then (c * 2) ^^^ 0x1864CFB else c * 2

/-- Table entry `i` recomputed from the polynomial: the byte in the top of the register, eight steps. -/
def crc24TableGen (i : Nat) : Nat :=
  crc24Bit (crc24Bit (crc24Bit (crc24Bit (crc24Bit (crc24Bit (crc24Bit (crc24Bit (i * 65536))))))))

def crc24Table : List Nat := (List.range 256).map crc24TableGen

/-- CRC-24Q as the source computes it (with the source's literal table). -/
def crc24Src (data : Bytes) : Nat := crc24With Generated.rtcmCrc24qLiteral data

/-- CRC-24Q with the table derived from the polynomial (used by the specification). -/
def crc24q (data : Bytes) : Nat := crc24With crc24Table data

end FeVerif
