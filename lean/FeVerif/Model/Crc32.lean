/-
CRC-32 (ISO-HDLC, as zlib.crc32 and `CalculateCRC` in crc.cc).
`crcBitwise` is the specification (bit-serial, reflected polynomial 0xEDB88320);
`crcTableGen`/`crcUpdate`/`crc32` transcribe crc.cc (table generation loop, byte-wise update, the
`initial_value ^ 0xFFFFFFFF` on entry and exit).
-/
import FeVerif.Basic.Bytes

namespace FeVerif

abbrev W32 := BitVec 32

def crcPoly : W32 := 0xEDB88320#32

/-- One bit step of the reflected CRC register. -/
def crcShift (c : W32) : W32 :=
  if c &&& 1#32 = 1#32 then crcPoly ^^^ (c >>> 1) else c >>> 1

def crcShift8 (c : W32) : W32 :=
  crcShift (crcShift (crcShift (crcShift (crcShift (crcShift (crcShift (crcShift c)))))))

/-- Bit-serial update with one byte: xor the byte into the low bits, shift eight times. -/
def crcByteSpec (c : W32) (b : Byte) : W32 := crcShift8 (c ^^^ (BitVec.ofNat 32 b.toNat))

/-- The specification: register initialised to all ones, final complement. -/
def crcBitwise (bs : Bytes) : W32 := ~~~ (bs.foldl crcByteSpec 0xFFFFFFFF#32)

/-- `crc_table[i]` as computed by the loop in `GetCRCTable()`. -/
def crcTableGen (i : Nat) : W32 := crcShift8 (BitVec.ofNat 32 i)

def crcTable : Array W32 := Array.ofFn (n := 256) fun i => crcTableGen i.val

/-- `c = crc_table[(c ^ u[i]) & 0xFF] ^ (c >> 8)`. -/
def crcUpdate (c : W32) (b : Byte) : W32 :=
  crcTable.getD ((c ^^^ BitVec.ofNat 32 b.toNat) &&& 0xFF#32).toNat 0#32 ^^^ (c >>> 8)

/-- `CalculateCRC(buffer, length, initial_value)` / `zlib.crc32(data, value)`. -/
def crc32 (init : W32) (bs : Bytes) : W32 :=
  (bs.foldl crcUpdate (init ^^^ 0xFFFFFFFF#32)) ^^^ 0xFFFFFFFF#32

end FeVerif
