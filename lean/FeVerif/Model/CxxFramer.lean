/-
Literal model of the C++ `FusionEngineFramer`
(src/point_one/fusion_engine/parsers/fusion_engine_framer.cc/.h, messages/crc.cc).

* `cfgCxx cap`  : the specification side — the shared left-to-right scan (`Cfg.run`) with the C++ header
                  acceptance (sync, no uint32 overflow of 24 + payload, reserved = 0, 24 + payload ≤ capacity).
* `Framer`      : `buffer_ != nullptr`, `capacity_bytes_`, the `capacity_bytes_` bytes at `buffer_`,
                  `state_`, `next_byte_index_`, `current_message_size_`, the aligned address.
                  `hi` is a ghost field: 1 + the highest buffer index read or written so far; the model never
                  consults it.  Memory safety is the theorem `hi ≤ cap` (Props/C07.lean).
* `onByte`      : `OnByte(quiet)`, same branches in the same order.
* `resync`      : `Resync()`, the `for` loop with explicit `offset` / `available_bytes`, `memmove` as list
                  shifting, re-entry into `onByte`, the three continuations.  A duplicated SYNC0 met inside the loop
                  rejects the first one (the search restarts behind it).
* `onData`      : fold over the bytes of one call, accumulating the return value and the callbacks.
* `setBuffer`, `construct`, `reset`; `Op` / `runOps`: histories of `OnData`, `Reset()` and `SetBuffer()` calls.

Core Lean only.  `uint32_t` values are `Nat`s kept below 2^32 (`% U32` where the source can wrap).
-/
import FeVerif.Model.Header

/- Everything of this model lives in `FeVerif.Cxx` (other framers are modelled next to it). -/
namespace FeVerif.Cxx

def U32 : Nat := 4294967296

/-! ### Specification side -/

/-- Header acceptance of the C++ framer with `capacity_bytes_ = cap`, on the 24 header bytes. -/
def cxxHeaderOk (cap : Nat) (h : Bytes) : Bool :=
  decide (byteAt h 0 = SYNC0) && decide (byteAt h 1 = SYNC1) &&
    decide (HDR + u32le h 16 < U32) && decide (u16le h 2 = 0) && decide (HDR + u32le h 16 ≤ cap)

/-- `CalculateCRC(buffer) == header->crc` on a whole message: CRC-32 of bytes `[8, 24 + payload)`. -/
def cxxCrcOk (msg : Bytes) : Bool :=
  decide ((crc32 0#32 ((msg.take (HDR + u32le msg 16)).drop 8)).toNat = u32le msg 4)

def cfgCxx (cap : Nat) : Cfg where
  hdrLen := HDR
  hdrLen_pos := by decide
  headerOk := cxxHeaderOk cap
  payload := fun h => u32le h 16
  bodyOk := cxxCrcOk

/-! ### State -/

inductive FState
  | sync0 | sync1 | header | data
  deriving DecidableEq, Repr

def FState.toNat : FState → Nat
  | .sync0 => 0 | .sync1 => 1 | .header => 2 | .data => 3

structure Framer where
  hasBuf : Bool          -- buffer_ != nullptr
  managed : Bool         -- is_buffer_managed_
  addr : Nat             -- buffer_ as an address (meaningful when hasBuf)
  cap : Nat              -- capacity_bytes_
  buf : Bytes            -- the bytes at buffer_[0 .. capacity_bytes_)
  state : FState         -- state_
  next : Nat             -- next_byte_index_
  cur : Nat              -- current_message_size_
  hi : Nat               -- ghost: 1 + highest index of buffer_ accessed so far
  deriving DecidableEq, Repr

/-- Default-constructed framer: no buffer. -/
def Framer.empty : Framer := ⟨false, false, 0, 0, [], .sync0, 0, 0, 0⟩

/-- Ghost bookkeeping of an access to `buffer_[lo .. lo + n)`. -/
def Framer.touch (f : Framer) (lo n : Nat) : Framer :=
  if n = 0 then f else { f with hi := max f.hi (lo + n) }

@[simp] theorem Framer.touch_state (f : Framer) (lo n : Nat) : (f.touch lo n).state = f.state := by
  unfold Framer.touch; split <;> rfl

/-- `Reset()` -/
def Framer.reset (f : Framer) : Framer := { f with state := .sync0, next := 0, cur := 0 }

/-! ### Construction -/

/-- `(p + 3) & ~3` -/
def alignUp (p : Nat) : Nat := (p + 3) / 4 * 4

/-- `SetBuffer(buffer, capacity_bytes)`.  `user = some a`: caller storage at address `a`;
`user = none`: `nullptr`, and `alloc` is the address `new uint8_t[capacity]` returns.
The capacity is tested against the header size together with the bytes a caller's buffer loses to
the 4-byte alignment; a rejected call leaves the framer as it was. -/
def Framer.setBuffer (f : Framer) (user : Option Nat) (alloc : Nat) (capacity : Nat) : Framer :=
  if capacity < HDR + (match user with | some a => alignUp a - a | none => 0) then f
  else
    { hasBuf := true
      managed := user.isNone
      addr := alignUp (user.getD alloc)
      cap := (min capacity 0x7FFFFFFF - (alignUp (user.getD alloc) - user.getD alloc)) % U32
      buf := List.replicate ((min capacity 0x7FFFFFFF - (alignUp (user.getD alloc) - user.getD alloc)) % U32) 0
      state := .sync0, next := 0, cur := 0, hi := 0 }

/-- `FusionEngineFramer(buffer, capacity_bytes)`: an internal buffer gets 3 extra bytes. -/
def Framer.construct (user : Option Nat) (alloc : Nat) (capacity : Nat) : Framer :=
  match user with
  | none => Framer.empty.setBuffer none alloc (capacity + 3)
  | some a => Framer.empty.setBuffer (some a) alloc capacity

/-! ### OnByte -/

structure ByteOut where
  f : Framer
  ret : Int                -- int32_t return value of OnByte
  cb : Option Bytes        -- callback invocation: the bytes `*header` and `payload[0 .. payload_size)` point at
  deriving Repr

/-- The tail of `OnByte`: `CalculateCRC(buffer_)` against `header->crc`, dispatch or reject.
`CalculateCRC` reads `payload_size_bytes` from the header and then bytes `[8, 24 + payload_size)`. -/
def crcCheck (f : Framer) : ByteOut :=
  if (crc32 0#32 ((f.buf.drop 8).take (16 + u32le f.buf 16))).toNat = u32le f.buf 4 then
    ⟨{ (f.touch 0 (HDR + u32le f.buf 16)) with state := .sync0 }, Int.ofNat f.cur,
      some (f.buf.take (HDR + u32le f.buf 16))⟩
  else
    ⟨{ (f.touch 0 (HDR + u32le f.buf 16)) with state := .sync0 }, -1, none⟩

/-- `state_ == HEADER` with the 24th byte in: `current_message_size_` has just been assigned. -/
def onHeader (f : Framer) : ByteOut :=
  if f.cur < u32le f.buf 16 then ⟨{ f with state := .sync0 }, -1, none⟩                 -- uint32 overflow
  else if byteAt f.buf 2 ≠ 0 ∨ byteAt f.buf 3 ≠ 0 then ⟨{ f with state := .sync0 }, -1, none⟩  -- reserved
  else if f.cur > f.cap then ⟨{ f with state := .sync0 }, -1, none⟩                      -- too large
  else if u32le f.buf 16 = 0 then crcCheck f                                              -- no payload
  else ⟨{ f with state := .data }, 0, none⟩

def onByteState (f : Framer) (byte : Nat) : ByteOut :=
  match f.state with
  | .sync0 =>
    if byte = SYNC0 then ⟨{ f with state := .sync1 }, 0, none⟩
    else ⟨{ f with next := f.next - 1 }, 0, none⟩
  | .sync1 =>
    if byte = SYNC0 then ⟨{ f with state := .sync1, next := f.next - 1 }, 0, none⟩
    else if byte = SYNC1 then ⟨{ f with state := .header }, 0, none⟩
    else ⟨{ f with state := .sync0, next := 0, cur := 0 }, 0, none⟩
  | .header =>
    if f.next = HDR then onHeader { (f.touch 0 HDR) with cur := (HDR + u32le f.buf 16) % U32 }
    else ⟨f, 0, none⟩
  | .data =>
    if f.next = f.cur then crcCheck f else ⟨f, 0, none⟩

/-- `OnByte(quiet)`; `quiet` only selects the log level. (`State` is an `enum class` with exactly four
values, so the "impossible parsing state" branch has no counterpart.) -/
def onByte (_quiet : Bool) (f : Framer) : ByteOut :=
  if f.hasBuf = false then ⟨f, 0, none⟩
  else if f.next = 0 then ⟨f, 0, none⟩
  else onByteState (f.touch (f.next - 1) 1) (byteAt f.buf (f.next - 1))

/-! ### Resync -/

/-- `memmove(buffer_, buffer_ + offset, n)` -/
def Framer.memmove (f : Framer) (offset n : Nat) : Framer :=
  { ((f.touch offset n).touch 0 n) with buf := (f.buf.drop offset).take n ++ f.buf.drop n }

/-- What the loop does after `OnByte` returned: new framer and the value of `offset` before `++offset`. -/
def resyncAfter (r : ByteOut) (offset : Nat) : Framer × Nat :=
  if r.f.state = .sync0 then
    if r.ret > 0 then ({ r.f with next := 0 }, (r.ret - 1).toNat)
    else ({ r.f with next := 0 }, 0)
  else (r.f, offset)

theorem resyncAfter_cases (r : ByteOut) (offset : Nat) :
    (resyncAfter r offset).1.state = .sync0 ∨
      ((resyncAfter r offset).1.state ≠ .sync0 ∧ (resyncAfter r offset).2 = offset) := by
  unfold resyncAfter
  by_cases h : r.f.state = .sync0
  · left; rw [if_pos h]; split <;> exact h
  · right; rw [if_neg h]; exact ⟨h, rfl⟩

/-- `if (state_ == State::SYNC1 && offset > 0) state_ = State::SYNC0;` — a duplicated SYNC0 found while
replaying buffered bytes rejects the first one. -/
def resyncDup (r : ByteOut) (offset : Nat) : ByteOut :=
  if r.f.state = .sync1 ∧ 0 < offset then { r with f := { r.f with state := .sync0 } } else r

/-- `next_byte_index_ = offset + 1; message_size = OnByte(true);` and the duplicate-SYNC0 test. -/
def resyncByte (f : Framer) (offset : Nat) : ByteOut :=
  resyncDup (onByte true { f with next := offset + 1 }) offset

def addRet (total : Nat) (r : ByteOut) : Nat :=
  if r.f.state = .sync0 ∧ r.ret > 0 then total + r.ret.toNat else total

structure Out where
  f : Framer
  ret : Nat
  cbs : List Bytes
  deriving Repr

/-- The `for (offset = 1; offset < available_bytes; ++offset)` loop; the loop variable is `o + 1`. -/
def resyncLoop (f : Framer) (o avail total : Nat) (cbs : List Bytes) : Out :=
  if h : o + 1 < avail then
    if hs : f.state = .sync0 then
      if byteAt f.buf (o + 1) = SYNC0 then
        -- candidate start: shift left, then process it at offset 0
        resyncLoop
          (resyncAfter (resyncByte ((f.touch (o + 1) 1).memmove (o + 1) (avail - (o + 1))) 0) 0).1
          (resyncAfter (resyncByte ((f.touch (o + 1) 1).memmove (o + 1) (avail - (o + 1))) 0) 0).2
          (avail - (o + 1))
          (addRet total (resyncByte ((f.touch (o + 1) 1).memmove (o + 1) (avail - (o + 1))) 0))
          (cbs ++ (resyncByte ((f.touch (o + 1) 1).memmove (o + 1) (avail - (o + 1))) 0).cb.toList)
      else
        resyncLoop (f.touch (o + 1) 1) (o + 1) avail total cbs          -- `continue`
    else
      resyncLoop
        (resyncAfter (resyncByte (f.touch (o + 1) 1) (o + 1)) (o + 1)).1
        (resyncAfter (resyncByte (f.touch (o + 1) 1) (o + 1)) (o + 1)).2
        avail
        (addRet total (resyncByte (f.touch (o + 1) 1) (o + 1)))
        (cbs ++ (resyncByte (f.touch (o + 1) 1) (o + 1)).cb.toList)
  else ⟨f, total, cbs⟩
termination_by (avail, (if f.state = .sync0 then 0 else 1), avail - o)
decreasing_by
  · -- shift: available_bytes decreases by offset ≥ 1
    apply Prod.Lex.left; omega
  · -- skip a byte in SYNC0: same state, offset + 1
    rw [Framer.touch_state]
    apply Prod.Lex.right
    apply Prod.Lex.right; omega
  · -- mid-candidate: either back to SYNC0 (rejection / dispatch) or one byte further
    apply Prod.Lex.right
    rw [if_neg hs]
    rcases resyncAfter_cases (resyncByte (f.touch (o + 1) 1) (o + 1)) (o + 1) with h0 | ⟨h0, h1⟩
    · rw [if_pos h0]; apply Prod.Lex.left; omega
    · rw [if_neg h0, h1]; apply Prod.Lex.right; omega

/-- `Resync()` -/
def resync (f : Framer) : Out :=
  resyncLoop { f with state := .sync0, next := 0 } 0 f.next 0 []

/-! ### OnData -/

/-- One iteration of the loop in `OnData`. -/
def onDataByte (f : Framer) (b : Byte) : Out :=
  match onByte false { (f.touch f.next 1) with buf := f.buf.set f.next b, next := f.next + 1 } with
  | ⟨f', ret, cb⟩ =>
    if ret = 0 then ⟨f', 0, cb.toList⟩
    else if ret > 0 then ⟨{ f' with next := 0 }, ret.toNat, cb.toList⟩
    else if f'.next > 0 then
      ⟨(resync f').f, (resync f').ret, cb.toList ++ (resync f').cbs⟩
    else ⟨f', 0, cb.toList⟩

def onDataLoop : Framer → Bytes → Out
  | f, [] => ⟨f, 0, []⟩
  | f, b :: bs =>
    ⟨(onDataLoop (onDataByte f b).f bs).f, (onDataByte f b).ret + (onDataLoop (onDataByte f b).f bs).ret,
      (onDataByte f b).cbs ++ (onDataLoop (onDataByte f b).f bs).cbs⟩

/-- `OnData(buffer, length_bytes)` -/
def onData (f : Framer) (data : Bytes) : Out :=
  if f.hasBuf then onDataLoop f data else ⟨f, 0, []⟩

/-- A sequence of `OnData` calls: final framer, return values per call, all callbacks in order. -/
def onDataCalls : Framer → List Bytes → Framer × List Nat × List Bytes
  | f, [] => (f, [], [])
  | f, d :: ds =>
    ((onDataCalls (onData f d).f ds).1, (onData f d).ret :: (onDataCalls (onData f d).f ds).2.1,
      (onData f d).cbs ++ (onDataCalls (onData f d).f ds).2.2)

/-- What a user of the object can do with it after construction. -/
inductive Op
  | data (d : Bytes)     -- OnData(d)
  | reset                -- Reset()
  | setBuffer (user : Option Nat) (alloc capacity : Nat)
                         -- SetBuffer(buffer, capacity): `user = some a` caller storage at address `a`,
                         -- `user = none` is `nullptr` and `alloc` the address `new uint8_t[capacity]` returns
  deriving Repr

/-- The one assumption about the environment: `operator new[]` returns 4-byte aligned storage. -/
def Op.ok : Op → Prop
  | .setBuffer none alloc _ => alloc % 4 = 0
  | _ => True

/-- Operations other than `SetBuffer`. -/
def Op.keepsBuffer : Op → Prop
  | .setBuffer _ _ _ => False
  | _ => True

/-- The bytes of a caller's buffer in front of the first 4-byte aligned address (none for an internal buffer). -/
def slackOf (user : Option Nat) : Nat :=
  match user with
  | some a => alignUp a - a
  | none => 0

def applyOp (f : Framer) : Op → Framer
  | .data d => (onData f d).f
  | .reset => f.reset
  | .setBuffer user alloc capacity => f.setBuffer user alloc capacity

def runOps (f : Framer) (ops : List Op) : Framer := ops.foldl applyOp f

/-- The callbacks made by a history of operations, in order. -/
def opsCbs (f : Framer) : List Op → List Bytes
  | [] => []
  | .data d :: ops => (onData f d).cbs ++ opsCbs (onData f d).f ops
  | .reset :: ops => opsCbs f.reset ops
  | .setBuffer user alloc capacity :: ops => opsCbs (f.setBuffer user alloc capacity) ops

/-- `capacity_bytes_` of an object that has a buffer. -/
def capOf (f : Framer) : Option Nat := if f.hasBuf then some f.cap else none

/-- States reachable by a user of the class: construct (with a caller buffer at any address, or an
internal one), then any sequence of `OnData` calls, `Reset`s and `SetBuffer`s (a caller buffer at any
address and of any size, or an internal one of any size, at any point of the stream). -/
def Reachable (f : Framer) : Prop :=
  ∃ (user : Option Nat) (alloc capacity : Nat) (ops : List Op),
    (user = none → alloc % 4 = 0) ∧ (∀ op ∈ ops, op.ok) ∧ f = runOps (Framer.construct user alloc capacity) ops

/-- A framer in the reset state (freshly constructed, or after `Reset()`). -/
def Fresh (f : Framer) : Prop :=
  f.hasBuf = true ∧ HDR ≤ f.cap ∧ f.buf.length = f.cap ∧ f.hi ≤ f.cap ∧ f.state = .sync0 ∧ f.next = 0


end FeVerif.Cxx
