/-
C20 — model of `src/point_one/fusion_engine/messages/data_version.{h,cc}` (C++), core Lean only.

Memory model.  A C string handed to `FromString(const char*)` is `s : List Char` (the bytes before the
terminator, one `Char` per byte, code point = byte value) living in an allocation of exactly
`s.length + 1` bytes: `read s i` is the byte for `i < s.length`, the NUL terminator for `i = s.length`
and a FAULT (read outside the allocation) for `i > s.length`.  Every access of the modelled code goes
through `read`; nothing else can observe the string.

`strtol` (base 10) is the libc contract: skip `isspace` characters, take one optional sign, consume
decimal digits, stop AT the first non-digit (it is read, nothing after it is), clamp to
`LONG_MIN/LONG_MAX` (64-bit `long`), report the end index; with no digits the end index is the start
index and the value is 0.

`fromString` is `FromString(const char*)` as it stands in the repository after commit a4e1937
("fix: DataVersion FromString(): accept only ..."), branch for branch, with C's left-to-right
short-circuit evaluation of `||` (which decides whether `*end_c` is read at all).
`fromStringV0` is the function as it stood before that commit.
-/
namespace FeVerif
namespace DV

/-- Outcome of code that reads memory. -/
inductive Mem (α : Type) where
  | ok (a : α)
  | fault
  deriving Repr, DecidableEq

abbrev CStr := List Char

def NUL : Char := Char.ofNat 0

/-- `str[i]` in an allocation of exactly `s.length + 1` bytes. -/
def read (s : CStr) (i : Nat) : Mem Char :=
  if h : i < s.length then .ok s[i]
  else if i = s.length then .ok NUL
  else .fault

/-- `isspace` in the "C" locale: space, `\t \n \v \f \r`. -/
def isSpace (c : Char) : Bool := c.toNat == 32 || (9 ≤ c.toNat && c.toNat ≤ 13)

/-- `'0' ≤ c ≤ '9'` -/
def isDigit (c : Char) : Bool := 48 ≤ c.toNat && c.toNat ≤ 57

def digitVal (c : Char) : Nat := c.toNat - 48

theorem read_ok_le {s : CStr} {i : Nat} {c : Char} (h : read s i = .ok c) : i ≤ s.length := by
  unfold read at h
  split at h
  · omega
  · split at h
    · omega
    · cases h

/-- `while (isspace(*p)) ++p;` -/
def skipSpaces (s : CStr) (i : Nat) : Mem Nat :=
  match h : read s i with
  | .fault => .fault
  | .ok c => if isSpace c then skipSpaces s (i + 1) else .ok i
termination_by s.length + 1 - i
decreasing_by have := read_ok_le h; omega

/-- The digit loop: returns the index of the first non-digit (which has been read) and the
accumulated value (unbounded here; `strtol` clamps it afterwards). -/
def scanDigits (s : CStr) (i : Nat) (acc : Nat) : Mem (Nat × Nat) :=
  match h : read s i with
  | .fault => .fault
  | .ok c => if isDigit c then scanDigits s (i + 1) (10 * acc + digitVal c) else .ok (i, acc)
termination_by s.length + 1 - i
decreasing_by have := read_ok_le h; omega

def LONG_MAX : Int := 9223372036854775807
def LONG_MIN : Int := -9223372036854775808

/-- The `long` that `strtol` returns for magnitude `n` with/without a minus sign. -/
def clampLong (neg : Bool) (n : Nat) : Int :=
  if neg then (if (n : Int) ≥ 9223372036854775808 then LONG_MIN else -(n : Int))
  else (if (n : Int) > LONG_MAX then LONG_MAX else (n : Int))

def isSign (c : Char) : Bool := c == '-' || c == '+'

/-- `strtol(s + start, &end, 10)`: `(value, end index)`. -/
def strtol (s : CStr) (start : Nat) : Mem (Int × Nat) :=
  match skipSpaces s start with
  | .fault => .fault
  | .ok i =>
    match read s i with
    | .fault => .fault
    | .ok c =>
      match scanDigits s (if isSign c then i + 1 else i) 0 with
      | .fault => .fault
      | .ok (k, n) =>
        if k = (if isSign c then i + 1 else i) then .ok (0, start)      -- no digits: no conversion
        else .ok (clampLong (c == '-') n, k)

/-- `struct DataVersion` (the `reserved` byte takes no part in any modelled function). -/
structure DataVersion where
  major : UInt8
  minor : UInt16
  deriving Repr, DecidableEq

/-- `INVALID_DATA_VERSION` (default member initialisers `0xFF`, `0xFFFF`). -/
def INVALID : DataVersion := ⟨0xFF, 0xFFFF⟩

/-- `IsValid()` -/
def DataVersion.isValid (v : DataVersion) : Bool := v.major != 0xFF || v.minor != 0xFFFF

/-- `FromString(const char* str)` (current code). -/
def fromString (s : CStr) : Mem DataVersion :=
  match read s 0 with                                            -- if (!IsDecimalDigit(*str))
  | .fault => .fault
  | .ok c0 =>
    if !isDigit c0 then .ok INVALID else
    match strtol s 0 with                                        -- tmp = strtol(str, &end_c, 10)
    | .fault => .fault
    | .ok (tmp, e) =>
      if e = 0 ∨ tmp > 0xFF ∨ tmp < 0 then .ok INVALID else      -- end_c == str || tmp > 0xFF || tmp < 0
      match read s e with                                        --   || *end_c != '.'
      | .fault => .fault
      | .ok sep =>
        if sep ≠ '.' then .ok INVALID else
        match read s (e + 1) with                                -- minor_str = end_c + 1; IsDecimalDigit(*minor_str)
        | .fault => .fault
        | .ok c1 =>
          if !isDigit c1 then .ok INVALID else
          match strtol s (e + 1) with                            -- tmp = strtol(minor_str, &end_c, 10)
          | .fault => .fault
          | .ok (tmp2, e2) =>
            if e2 = e + 1 ∨ tmp2 > 0xFFFF ∨ tmp2 < 0 then .ok INVALID else
            match read s e2 with                                 --   || *end_c != '\0'
            | .fault => .fault
            | .ok t =>
              if t ≠ NUL then .ok INVALID
              else .ok ⟨UInt8.ofNat tmp.toNat, UInt16.ofNat tmp2.toNat⟩

/-- `FromString` as it was before the fix: no look at the separator, at what `strtol` skipped, or
at what follows the second number. -/
def fromStringV0 (s : CStr) : Mem DataVersion :=
  match strtol s 0 with
  | .fault => .fault
  | .ok (tmp, e) =>
    if e = 0 ∨ tmp > 0xFF ∨ tmp < 0 then .ok INVALID else
    match strtol s (e + 1) with
    | .fault => .fault
    | .ok (tmp2, e2) =>
      if e2 = e + 1 ∨ tmp2 > 0xFFFF ∨ tmp2 < 0 then .ok INVALID
      else .ok ⟨UInt8.ofNat tmp.toNat, UInt16.ofNat tmp2.toNat⟩

def digitChar (d : Nat) : Char := Char.ofNat (48 + d)

/-- `std::to_string` of a non-negative `int`: decimal, no leading zeros, `"0"` for zero. -/
def decDigits (n : Nat) : List Char :=
  if n < 10 then [digitChar n] else decDigits (n / 10) ++ [digitChar (n % 10)]

/-- `ToString(const DataVersion&)`; `operator<<` writes the same characters. -/
def toStr (v : DataVersion) : List Char :=
  if v.isValid then decDigits v.major.toNat ++ '.' :: decDigits v.minor.toNat
  else "<invalid>".toList

/-! The six comparison operators, as written in the header. -/
def opEq (a b : DataVersion) : Bool := a.major == b.major && a.minor == b.minor
def opNe (a b : DataVersion) : Bool := !(opEq a b)
def opLt (a b : DataVersion) : Bool :=
  decide (a.major < b.major) || (a.major == b.major && decide (a.minor < b.minor))
def opGt (a b : DataVersion) : Bool := opLt b a
def opLe (a b : DataVersion) : Bool := !(opGt a b)
def opGe (a b : DataVersion) : Bool := !(opLt a b)

end DV
end FeVerif
