/-
Model of `DynamicEnumMeta` / `IntEnum` and of the `enum_bitmask` helpers
(python/fusion_engine_client/utils/enum_utils.py), together with the two library routines they call:
`aenum.extend_enum` (stdlib-Enum, non-Flag path) and CPython 3.12 `enum.Enum.__new__` /
`enum._proto_member.__set_name__` (value lookup and class construction).

A Python `str` is the list of its Unicode code points (`Name := List Nat`), a Python `int` is `Int`,
an insertion-ordered `dict` is an association list with unique keys.  An enum class is the three tables
the real code mutates:

  `names` = `_member_names_`        canonical (non-alias) member names, definition order
  `map`   = `_member_map_`          name -> member, aliases included
  `v2m`   = `_value2member_map_`    value -> canonical member

A member object is `(name, value)`; Python object identity of members is equality of that pair (a member
is created once and only ever shared).  Core Lean only - this file is linked into the native driver.
-/
namespace FeVerif

abbrev Name := List Nat

structure EnumMember where
  name : Name
  value : Int
deriving DecidableEq, Repr

/-- The exception kinds the modelled code can raise. -/
inductive EnumErr where
  | valueError | keyError | typeError | attributeError | outOfModel
deriving DecidableEq, Repr

/-! ### dict -/

/-- `d.get(k)` on an insertion-ordered dict. -/
def dget [DecidableEq κ] (k : κ) : List (κ × β) → Option β
  | [] => none
  | p :: t => if p.1 = k then some p.2 else dget k t

/-- `d[k] = v`: overwrite in place, or append a new key at the end. -/
def dset [DecidableEq κ] (k : κ) (v : β) : List (κ × β) → List (κ × β)
  | [] => [(k, v)]
  | p :: t => if p.1 = k then (k, v) :: t else p :: dset k v t

/-! ### strings -/

/-- `DynamicEnumMeta.UNRECOGNIZED_PREFIX = '_U'`. -/
def unrecognizedPrefix : Name := [95, 85]

/-- `s.startswith(p)`. -/
def startsWith (s p : Name) : Bool := p.isPrefixOf s

/-- Decimal digits of a natural number, most significant first (`'0'` = 48). -/
def natDigits (n : Nat) : Name :=
  if n < 10 then [48 + n] else natDigits (n / 10) ++ [48 + n % 10]
decreasing_by omega

/-- `f'{v}'` for a Python `int` (`'-'` = 45). -/
def intStr : Int → Name
  | .ofNat n => natDigits n
  | .negSucc n => 45 :: natDigits (n + 1)

/-- `f'{cls.UNRECOGNIZED_PREFIX}_{value}'`. -/
def hiddenName (v : Int) : Name := unrecognizedPrefix ++ 95 :: intStr v

/-- `s.upper()` restricted to ASCII letters (all names in the package and in the harness are ASCII). -/
def upperName (s : Name) : Name := s.map fun c => if 97 ≤ c ∧ c ≤ 122 then c - 32 else c

/-- `member.is_unrecognized()`: `self.name.startswith(cls.UNRECOGNIZED_PREFIX)`. -/
def EnumMember.isUnrecognized (m : EnumMember) : Bool := startsWith m.name unrecognizedPrefix

/-! ### the enum class -/

structure DynEnum where
  names : List Name
  map : List (Name × EnumMember)
  v2m : List (Int × EnumMember)
deriving DecidableEq, Repr

namespace DynEnum

def empty : DynEnum := ⟨[], [], []⟩

/-- `enum._proto_member.__set_name__` for one `NAME = value` line of a class body: a value already in
`_value2member_map_` makes the name an alias of the existing member; otherwise a new canonical member. -/
def defineMember (e : DynEnum) (name : Name) (value : Int) : DynEnum :=
  match dget value e.v2m with
  | some canonical => { e with map := dset name canonical e.map }
  | none =>
    { names := e.names ++ [name]
      map := dset name ⟨name, value⟩ e.map
      v2m := e.v2m ++ [(value, ⟨name, value⟩)] }

/-- Class construction, fed with the body in reverse order (so that proofs go by plain induction). -/
def ofDefinedRev : List (Name × Int) → DynEnum
  | [] => empty
  | p :: t => defineMember (ofDefinedRev t) p.1 p.2

/-- The class object right after `class X(IntEnum): NAME = value ...` (names assumed distinct: Python
rejects a repeated name in a class body). -/
def ofDefined (d : List (Name × Int)) : DynEnum := ofDefinedRev d.reverse

/-- `aenum.extend_enum(cls, name, value)`: `TypeError` if the name is in use; a value equal to that of a
member in `_member_map_.values()` makes the name an alias; otherwise a brand new member is appended to all
three tables. -/
def extendEnum (e : DynEnum) (name : Name) (value : Int) : Except EnumErr DynEnum :=
  if (dget name e.map).isSome then .error .typeError
  else
    match e.map.find? (fun p => p.2.value == value) with
    | some p => .ok { e with map := dset name p.2 e.map, v2m := dset value p.2 e.v2m }
    | none =>
      .ok { names := e.names ++ [name]
            map := dset name ⟨name, value⟩ e.map
            v2m := dset value ⟨name, value⟩ e.v2m }

/-- `EnumType.__call__(cls, value)` -> `Enum.__new__`: by-value lookup; `_missing_` returns `None`, hence
`ValueError`.  A class without members takes the functional-API branch and raises `TypeError`. -/
def lookupValue (e : DynEnum) (v : Int) : Except EnumErr EnumMember :=
  if e.map.isEmpty then .error .typeError
  else
    match dget v e.v2m with
    | some m => .ok m
    | none => .error .valueError

/-- `DynamicEnumMeta.__call__(cls, value: int, raise_on_unrecognized=strict)`: result and new class state. -/
def call (e : DynEnum) (v : Int) (strict : Bool) : Except EnumErr EnumMember × DynEnum :=
  match lookupValue e v with
  | .ok result =>
    -- the ValueError raised here is caught by `except ValueError` and re-raised because `strict` holds
    if strict && result.isUnrecognized then (.error .valueError, e) else (.ok result, e)
  | .error .valueError =>
    if strict then (.error .valueError, e)
    else
      match extendEnum e (hiddenName v) v with
      | .error err => (.error err, e)
      | .ok e' => (lookupValue e' v, e')
  | .error err => (.error err, e)

/-- `DynamicEnumMeta.from_string(name, case_insensitive=False)` = `cls[name]` for a `str`. -/
def getItem (e : DynEnum) (name : Name) : Except EnumErr EnumMember :=
  match dget name e.map with
  | some m => .ok m
  | none =>
    match dget (upperName name) e.map with
    | some m => .ok m
    | none => .error .keyError

/-- The members behind `_member_names_` (`EnumType.__iter__`); a name missing from the map is a `KeyError`. -/
def membersOf (map : List (Name × EnumMember)) : List Name → Except EnumErr (List EnumMember)
  | [] => .ok []
  | n :: ns =>
    match dget n map with
    | none => .error .keyError
    | some m =>
      match membersOf map ns with
      | .ok ms => .ok (m :: ms)
      | .error err => .error err

/-- `list(cls)`: `DynamicEnumMeta.__iter__` filters names with the prefix. -/
def iter (e : DynEnum) : Except EnumErr (List EnumMember) :=
  match membersOf e.map e.names with
  | .ok ms => .ok (ms.filter fun m => !m.isUnrecognized)
  | .error err => .error err

/-- `len(cls)` = `len(list(iter(cls)))`. -/
def len (e : DynEnum) : Except EnumErr Nat :=
  match iter e with
  | .ok ms => .ok ms.length
  | .error err => .error err

/-- `list(reversed(cls))`: `DynamicEnumMeta.__reversed__` filters names with the prefix out of
`EnumType.__reversed__` (the members behind `reversed(_member_names_)`). -/
def reversedIter (e : DynEnum) : Except EnumErr (List EnumMember) :=
  match membersOf e.map e.names.reverse with
  | .ok ms => .ok (ms.filter fun m => !m.isUnrecognized)
  | .error err => .error err

/-- `value in cls` for an `int` (`DynamicEnumMeta.__contains__` on top of `EnumType.__contains__`, CPython 3.12):
the value must be a key of `_value2member_map_` and the member found there must not carry the hidden prefix. -/
def containsValue (e : DynEnum) (v : Int) : Bool :=
  match dget v e.v2m with
  | some m => !m.isUnrecognized
  | none => false

/-- `member in cls` for a member object of the class (`isinstance(value, cls)` holds): its name must not carry the
hidden prefix. -/
def containsMember (_e : DynEnum) (m : EnumMember) : Bool := !m.isUnrecognized

/-- `min(xs)` of a non-empty list. -/
def minOf (x : Int) (xs : List Int) : Int := xs.foldl min x

/-- `DynamicEnumMeta.__call__(cls, value: str, raise_on_unrecognized=strict)`. -/
def callName (e : DynEnum) (name : Name) (strict : Bool) : Except EnumErr EnumMember × DynEnum :=
  match getItem e name with
  | .ok result =>
    if strict && result.isUnrecognized then (.error .keyError, e) else (.ok result, e)
  | .error _ =>
    if strict then (.error .keyError, e)
    else
      match iter e with
      | .error err => (.error err, e)
      | .ok [] => (.error .valueError, e)            -- min() of an empty set
      | .ok (m :: ms) =>
        match extendEnum e name (min (minOf m.value (ms.map (·.value))) 0 - 1) with
        | .error err => (.error err, e)
        | .ok e' => (getItem e' name, e')

end DynEnum

/-! ### operation scripts (histories) -/

/-- The operations of the property's histories.  All of them are integer conversions or read-only lookups;
the lenient *string* conversion (`callName _ false`), which by design adds a visible member, is not one. -/
inductive EnumOp where
  | conv (v : Int) (strict : Bool)
  | byName (n : Name)
  | item (n : Name)
deriving DecidableEq, Repr

def DynEnum.step (e : DynEnum) : EnumOp → DynEnum
  | .conv v strict => (e.call v strict).2
  | .byName n => (e.callName n true).2
  | .item _ => e

def DynEnum.run (e : DynEnum) : List EnumOp → DynEnum
  | [] => e
  | op :: ops => (e.step op).run ops

/-! ### bit-mask helpers (`enum_bitmask`) -/

/-- An element of the list given to `to_bitmask`: an enum member / integer, or a name. -/
inductive MaskItem where
  | val (v : Int)
  | str (n : Name)
deriving DecidableEq, Repr

/-- `1 << (int(value) - cls._enum_offset)`; a negative shift count is a `ValueError`. -/
def maskBit (offset v : Int) : Except EnumErr Nat :=
  if v - offset < 0 then .error .valueError else .ok (1 <<< (v - offset).toNat)

/-- `WrappedCls.to_bitmask(values)` with accumulator `mask`.  `attrs` are the mask class's own members by
name (`getattr(cls, value.upper())`); masks are natural numbers, a negative attribute is outside the model. -/
def toBitmaskFrom (offset : Int) (attrs : List (Name × Int)) (mask : Nat) : List MaskItem → Except EnumErr Nat
  | [] => .ok mask
  | .val v :: rest =>
    match maskBit offset v with
    | .ok b => toBitmaskFrom offset attrs (mask ||| b) rest
    | .error err => .error err
  | .str n :: rest =>
    match dget (upperName n) attrs with
    | none => .error .attributeError
    | some a => if a < 0 then .error .outOfModel else toBitmaskFrom offset attrs (mask ||| a.toNat) rest

def toBitmask (offset : Int) (attrs : List (Name × Int)) (items : List MaskItem) : Except EnumErr Nat :=
  toBitmaskFrom offset attrs 0 items

/-- `WrappedCls.to_values(mask)` over `cls._enum_values` (the members of the base enum captured when the
mask class was created). -/
def toValues (offset : Int) (mask : Nat) : List EnumMember → Except EnumErr (List EnumMember)
  | [] => .ok []
  | m :: rest =>
    match maskBit offset m.value with
    | .error err => .error err
    | .ok b =>
      match toValues offset mask rest with
      | .error err => .error err
      | .ok out => .ok (if (mask &&& b) != 0 then m :: out else out)

/-- `str(member)` (`IntEnum.__str__`): the name, or `(Unrecognized)` for a hidden member. -/
def EnumMember.str (m : EnumMember) : Name :=
  if m.isUnrecognized then [40, 85, 110, 114, 101, 99, 111, 103, 110, 105, 122, 101, 100, 41] else m.name

/-- `', '.join(parts)`. -/
def joinCommaSpace : List Name → Name
  | [] => []
  | [x] => x
  | x :: y :: rest => x ++ 44 :: 32 :: joinCommaSpace (y :: rest)

/-- `WrappedCls.to_string(mask)`: `', '.join(str(s) for s in cls.to_values(mask))`. -/
def maskToString (offset : Int) (mask : Nat) (vals : List EnumMember) : Except EnumErr Name :=
  match toValues offset mask vals with
  | .ok ms => .ok (joinCommaSpace (ms.map (·.str)))
  | .error err => .error err

/-! The three helpers are functions of the class constants (`_enum_offset`, `_enum_values`, the attributes) and of
their own argument only: there is no state for a caller to disturb.  In Python terms every call builds a new result
object; whatever a caller does to a list it got back (append, remove, clear, sort ...) is invisible to every later
call.  The harness checks exactly this: each call of a script in which earlier results are edited between calls
must give the value of the function below for its own argument. -/

/-! ### per-enum facts decided on the generated tables -/

def namesDistinct : List Name → Bool
  | [] => true
  | n :: ns => !ns.contains n && namesDistinct ns

/-- What the theorems need of a class body: at least one member, distinct names, no name with the hidden prefix. -/
def enumOk (d : List (Name × Int)) : Bool :=
  !d.isEmpty && namesDistinct (d.map (·.1)) && d.all fun p => !startsWith p.1 unrecognizedPrefix

/-- Canonical members of a class body given in reverse: a line whose value already occurred earlier is an alias. -/
def canonRev : List (Name × Int) → List EnumMember
  | [] => []
  | p :: t => if p.2 ∈ t.map (·.2) then canonRev t else canonRev t ++ [⟨p.1, p.2⟩]

/-- The members of the enumeration a class body defines (what `list(E)` has to show): the first line of every
value, in order.  The later lines of a repeated value are alias NAMES of that member, not members. -/
def canonicalMembers (d : List (Name × Int)) : List EnumMember := canonRev d.reverse

/-- The translator's reading of the interpreter's table (`members` = first name of every distinct value, in
declaration order) is the canonical member list of the body: decided per class on the generated tables. -/
def membersAre (d : List (Name × Int)) (members : List (Name × Int)) : Bool :=
  (canonicalMembers d).map (fun m => (m.name, m.value)) == members

structure PyEnum where
  qualname : String
  wireBits : Nat              -- 8 / 16 / 32 / 64, or 0 when no wire field is known
  defn : List (Name × Int)

/-- A mask class of the package: offset, captured base members, its own members. -/
structure PyMask where
  qualname : String
  offset : Int
  enumValues : List EnumMember
  attrs : List (Name × Int)

def valuesDistinct : List Int → Bool
  | [] => true
  | v :: vs => !vs.contains v && valuesDistinct vs

/-- Captured values are distinct and not below the offset; every captured member has its bit as an attribute. -/
def maskOk (m : PyMask) : Bool :=
  valuesDistinct (m.enumValues.map (·.value)) &&
  m.enumValues.all fun x => decide (m.offset ≤ x.value) &&
    (dget (upperName x.name) m.attrs == some (Int.ofNat (1 <<< (x.value - m.offset).toNat)))

end FeVerif
