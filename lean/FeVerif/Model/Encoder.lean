/-
Model of the Python encoder (`FusionEngineEncoder.encode_message`, `MessageHeader.pack`,
`MessageHeader.calculate_crc` in python/fusion_engine_client) and of the C++ CRC entry points that
look at a whole message (`CalculateCRC(const void*)` in crc.cc, `IsValid()` in crc.h, the CRC
comparison of `FusionEngineFramer::OnByte`).  Core Lean only.

Python integers are `Nat` in `encodeMessage`; a caller's source identifier is an `Int` in `EncCall`
(`struct.pack` rejects a negative one like any other out-of-range value, the `.structError` path of
`encodeCall`).
-/
import FeVerif.Model.Header

namespace FeVerif

inductive PyErr
  | structError     -- struct.error: a header field does not fit its wire type
  | packError       -- `message.pack()` raised
  deriving DecidableEq, Repr

/-- `struct.pack('<BBHIBBHIII', ...)` accepts exactly the values that fit the field widths. -/
def structFits (h : Header) : Bool :=
  decide (h.sync0 < 256) && decide (h.sync1 < 256) && decide (h.reserved < 65536) &&
  decide (h.crc < 4294967296) && decide (h.protocolVersion < 256) && decide (h.messageVersion < 256) &&
  decide (h.messageType < 65536) && decide (h.sequenceNumber < 4294967296) &&
  decide (h.payloadSize < 4294967296) && decide (h.sourceId < 4294967296)

/-- `MessageHeader(message_type)`. -/
def pyHeaderInit (type : Nat) : Header :=
  { sync0 := SYNC0, sync1 := SYNC1, reserved := 0, crc := 0, protocolVersion := 2, messageVersion := 0,
    messageType := type, sequenceNumber := 0, payloadSize := 0, sourceId := 0xFFFFFFFF }

/-- What `pack()` hands to `struct.pack`: the class constants for the sync bytes, reserved forced
to zero, the object's fields otherwise. -/
def pyPackArgs (h : Header) : Header := { h with sync0 := SYNC0, sync1 := SYNC1, reserved := 0 }

/-- `MessageHeader.pack()` (no payload): the 24 header bytes. -/
def pyHeaderPack (h : Header) : Except PyErr Bytes :=
  if structFits (pyPackArgs h) = true then .ok (packHeader (pyPackArgs h)) else .error .structError

/-- `MessageHeader.calculate_crc(payload)`: sets `payload_size_bytes`, packs the header, runs
`crc32(header_buffer[8:])` and then `crc32(payload, crc)`; returns the updated header object. -/
def pyCalculateCrc (h : Header) (payload : Bytes) : Except PyErr Header :=
  match pyHeaderPack { h with payloadSize := payload.length } with
  | .error e => .error e
  | .ok hb =>
    .ok { h with payloadSize := payload.length,
                 crc := (crc32 (crc32 0#32 (hb.drop 8)) payload).toNat }

/-- `MessageHeader.pack(payload=payload)`: header with CRC and size filled in, then the payload. -/
def pyPackMessage (h : Header) (payload : Bytes) : Except PyErr Bytes :=
  match pyCalculateCrc h payload with
  | .error e => .error e
  | .ok h' =>
    match pyHeaderPack h' with
    | .error e => .error e
    | .ok hb => .ok (hb ++ payload)

/-- The encoder object: its running sequence number - and nothing else.  No header, message type, version or class
of an earlier payload is kept from one call to the next: `encode_message` builds `MessageHeader(message.get_type())`
anew on every call, so type and version are inputs of the call (`EncCall.type`, `EncCall.version`), never state
(`C06_encoder_call_fields`, `C06_encoder_labels_independent_of_history`). -/
structure Encoder where
  sequenceNumber : Nat
  deriving DecidableEq, Repr

def Encoder.init : Encoder := ⟨0⟩

/-- The header `encode_message` builds before packing. -/
def encHeader (e : Encoder) (type version source : Nat) : Header :=
  { pyHeaderInit type with messageVersion := version, sequenceNumber := e.sequenceNumber, sourceId := source }

/-- `FusionEngineEncoder.encode_message(message, source_identifier)`.
`type`/`version` are `message.get_type()`/`get_version()`, `payload` is the result of
`message.pack()` (`none` when it raises).  The sequence number advances, modulo 2^32, only when a
message has been produced. -/
def encodeMessage (e : Encoder) (type version source : Nat) (payload : Option Bytes) :
    Except PyErr Bytes × Encoder :=
  match payload with
  | none => (.error .packError, e)
  | some p =>
    match pyPackMessage (encHeader e type version source) p with
    | .error er => (.error er, e)
    | .ok out => (.ok out, ⟨(e.sequenceNumber + 1) % 4294967296⟩)

/-- One call of a history.  `source = none`: the call omits the `source_identifier` argument (its documented
default is 0); `some s`: the caller's integer, negative values included. -/
structure EncCall where
  type : Nat
  version : Nat
  source : Option Int
  payload : Option Bytes

/-- The source identifier a call asks for: the argument of THAT call, 0 when it is omitted.  Nothing an earlier
call was given enters here - the encoder object keeps no source identifier. -/
def EncCall.sourceArg (c : EncCall) : Int := c.source.getD 0

/-- One `encode_message` call as written by a caller.  `message.pack()` runs before the header is serialized, so a
payload that raises is reported first; a negative source identifier is refused by `struct.pack` like any other
value outside the 32-bit field. -/
def encodeCall (e : Encoder) (c : EncCall) : Except PyErr Bytes × Encoder :=
  match c.payload, c.sourceArg with
  | none, _ => (.error .packError, e)
  | some p, .ofNat s => encodeMessage e c.type c.version s (some p)
  | some _, .negSucc _ => (.error .structError, e)

/-- A sequence of `encode_message` calls on one encoder: the results in call order. -/
def encodeAll : Encoder → List EncCall → List (Except PyErr Bytes)
  | _, [] => []
  | e, c :: cs => (encodeCall e c).1 :: encodeAll (encodeCall e c).2 cs

/-- The encoder object after a history of calls. -/
def encodeState : Encoder → List EncCall → Encoder
  | e, [] => e
  | e, c :: cs => encodeState (encodeCall e c).2 cs

/-- The messages produced by one encoder. -/
def okOutputs : List (Except PyErr Bytes) → List Bytes
  | [] => []
  | .ok b :: rest => b :: okOutputs rest
  | .error _ :: rest => okOutputs rest

/-! ### Python header validation -/

/-- `MessageHeader().unpack(buffer, validate_crc=True)` (equally `unpack` followed by
`validate_crc(buffer)`, which is what the decoder does): `none` when `struct.unpack_from` raises because
the buffer is shorter than a header; otherwise `some true` when no `ValueError` is raised.  The checks of
`validate_crc` in order: payload length sanity limit, the whole message is in the buffer, CRC of bytes
`[8, 24 + payload_size)` equals the stored CRC. -/
def pyUnpackValidate (msg : Bytes) : Option Bool :=
  if msg.length < HDR then none
  else if u32le msg 16 > MAX_EXPECTED then some false
  else if msg.length < HDR + u32le msg 16 then some false
  else some (decide ((crc32 0#32 ((msg.take (HDR + u32le msg 16)).drop 8)).toNat = u32le msg 4))

/-! ### C++ -/

/-- `CalculateCRC(const void* buffer)`: reads `payload_size_bytes` from the header at `buffer` and
runs the table CRC over the `16 + payload_size_bytes` bytes starting at `protocol_version`
(offset 8).  `none`: the routine would read outside the `msg.length` bytes that exist. -/
def cxxCalculateCRC (msg : Bytes) : Option W32 :=
  if msg.length < HDR then none
  else if msg.length < HDR + u32le msg 16 then none
  else some (crc32 0#32 ((msg.drop 8).take (16 + u32le msg 16)))

/-- `IsValid(const void* buffer)` of crc.h: size sanity check
(`sizeof(MessageHeader) + payload_size_bytes > MAX_MESSAGE_SIZE_BYTES` → false), then
`header.crc == CalculateCRC(buffer)`. -/
def cxxIsValid (msg : Bytes) : Option Bool :=
  if msg.length < HDR then none
  else if HDR + u32le msg 16 > MAX_EXPECTED then some false
  else match cxxCalculateCRC msg with
    | none => none
    | some c => some (decide (c.toNat = u32le msg 4))

/-- The comparison `crc == header->crc` in `FusionEngineFramer::OnByte` once `current_message_size_`
bytes have been collected in the framer's buffer. -/
def cxxFramerCrcOk (msg : Bytes) : Bool :=
  match cxxCalculateCRC msg with
  | none => false
  | some c => decide (c.toNat = u32le msg 4)

end FeVerif
