/-
Model of `extract_fusion_engine_log` (python/fusion_engine_client/utils/log.py): iterate the reader
over the input with `return_bytes`, append each message's bytes to the output, remove the output if
nothing was found.  The reader returns the messages of the input's index, i.e. (C08) of the sequential
scan `cfgFile.runFile`.
-/
import FeVerif.Model.Header

namespace FeVerif
namespace Extract

/-- What `MixedLogReader._read_next` does for one index entry at file offset `off`: seek, read the
24-byte header (short read → skip), reject payload sizes above the sanity limit, read the payload
(short read → skip), validate the CRC; on success the message's bytes are `data = header ++ payload`. -/
def readEntry (file : Bytes) (off : Nat) : Option Bytes :=
  if (file.drop off).length < HDR then none
  else if u32le (file.drop off) 16 > MAX_EXPECTED then none
  else if (file.drop off).length < HDR + u32le (file.drop off) 16 then none
  else if pyCrcOk ((file.drop off).take (HDR + u32le (file.drop off) 16)) = true
  then some ((file.drop off).take (HDR + u32le (file.drop off) 16)) else none

/-- Iterating an index: the entries whose re-validation succeeds, in index order. -/
def readIndexed (file : Bytes) (idx : List (Nat × Nat)) : List Bytes := idx.filterMap fun p => readEntry file p.1

/-- The raw bytes of the messages the scan accepts, in order. -/
def messages (input : Bytes) : List Bytes := (cfgFile.runFile input 0).map fun p => slice input p.1 p.2

/-- Output file content; `none` = the output file is removed (no message found). -/
def extract (input : Bytes) : Option Bytes × Nat :=
  if (messages input).isEmpty then (none, 0) else (some (messages input).flatten, (messages input).length)

/-- Offsets the index builder records: `out.tell()` before each write. -/
def builderOffsets : List Bytes → Nat → List (Nat × Nat)
  | [], _ => []
  | m :: ms, off => (off, m.length) :: builderOffsets ms (off + m.length)

end Extract
end FeVerif
