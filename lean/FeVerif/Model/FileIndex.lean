/-
Model of the `.p1i` index file (python/fusion_engine_client/parsers/file_index.py: `_RAW_DTYPE`,
`_to_raw`/`_from_raw`, `FileIndex.save`, `FileIndex.load`) and of how `fast_generate_index` uses it.
A record is 14 bytes: u32 whole-second P1 time (0xFFFFFFFF = none), u16 message type, u64 file offset.
-/
import FeVerif.Model.Header

namespace FeVerif
namespace FileIndex

structure Rec where
  time : Option Nat
  type : Nat
  offset : Nat
  deriving DecidableEq, Repr

def INVALID_TIME : Nat := 0xFFFFFFFF
def INVALID_TYPE : Nat := 0           -- MessageType.INVALID
def REC : Nat := 14

/-- `_to_raw` followed by `tofile` for one entry. -/
def encodeRec (r : Rec) : Bytes :=
  leBytes 4 (match r.time with | some t => t | none => INVALID_TIME) ++ leBytes 2 r.type ++ leBytes 8 r.offset

def decodeRec (b : Bytes) : Rec :=
  { time := if u32le b 0 = INVALID_TIME then none else some (u32le b 0), type := u16le b 4, offset := u64le b 6 }

/-- `np.fromfile(path, dtype=_RAW_DTYPE)`: as many whole records as the file holds. -/
def decodeRecs (b : Bytes) : List Rec :=
  if _h : b.length < REC then [] else decodeRec (b.take REC) :: decodeRecs (b.drop REC)
termination_by b.length
decreasing_by simp only [List.length_drop]; unfold REC at *; omega

def encodeRecs (l : List Rec) : Bytes := (l.map encodeRec).flatten

/-- `FileIndex.save(index_path, data_path)`: `none` = nothing is written (empty index); otherwise the
old file is removed and these bytes are written: the entries, then the end-of-file marker
`(none, INVALID, data file size)` unless the last entry already has type INVALID. -/
def saveBytes (idx : List Rec) (dataSize : Nat) : Option Bytes :=
  match idx.getLast? with
  | none => none
  | some last =>
    if last.type ≠ INVALID_TYPE then some (encodeRecs (idx ++ [⟨none, INVALID_TYPE, dataSize⟩]))
    else some (encodeRecs idx)

inductive LoadResult
  | ok (idx : List Rec)
  | valueError (indexDeleted : Bool)
  deriving DecidableEq, Repr

/-- `FileIndex.load(index_path, data_path)` with `delete_on_error = True`, `data_path` existing. -/
def load (ibytes data : Bytes) : LoadResult :=
  if data.length = 0 ∧ decodeRecs ibytes ≠ [] then .valueError true
  else if data.length ≠ 0 ∧ decodeRecs ibytes = [] then .valueError true
  else match (decodeRecs ibytes).getLast? with
    | none => .ok []
    | some last =>
      if last.type = INVALID_TYPE then
        if data.length = last.offset then .ok (decodeRecs ibytes).dropLast else .valueError true
      else if last.offset + HDR > data.length then .valueError true
      else if last.offset + HDR + u32le data (last.offset + 16) = data.length then .ok (decodeRecs ibytes)
      else .valueError true

end FileIndex
end FeVerif
