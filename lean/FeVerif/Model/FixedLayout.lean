/-
C02 — fixed-layout records: the table format of the compiler-derived C++ layouts
(`Generated/C02CxxLayout.lean`), the descriptor derived from one table entry, and a small generic
codec over a descriptor (`parseFixed`, `buildFixed`).  Core Lean only (linked into the driver).

The codec is the meaning of "both languages implement the descriptor": a record is the list of its
members' raw byte strings, in declaration order, without padding.
-/
import FeVerif.Basic.Bytes

namespace FeVerif.FixedLayout

/-- Kind of a member as classified by the C++ compiler (type traits on `decltype(S::m)`). -/
inductive Kind
  | u | i | f | bool | enum | struct | array | bytes
  deriving DecidableEq, Repr, Inhabited

def Kind.tag : Kind → String
  | .u => "u" | .i => "i" | .f => "f" | .bool => "bool" | .enum => "enum"
  | .struct => "struct" | .array => "array" | .bytes => "bytes"

/-- One non-static data member: name code, `offsetof`, `sizeof`, kind (`array`/`bytes` for members with
an extent), kind and size of one element, total extent (0 = not an array), name code of the packed
struct an element is an instance of (0 = none). -/
structure Member where
  name : Nat
  offset : Nat
  size : Nat
  kind : Kind
  elemKind : Kind
  elemSize : Nat
  arrayLen : Nat
  sub : Nat
  deriving DecidableEq, Repr

structure CxxStruct where
  name : Nat
  sizeof : Nat
  alignof : Nat
  msgType : Option Nat
  members : List Member
  deriving Repr

/-! ### Packedness of one table entry -/

/-- Walk the members in table order: each starts where the previous one ended. Result: the end. -/
def tiledFrom (pos : Nat) : List Member → Option Nat
  | [] => some pos
  | m :: ms => if m.offset = pos ∧ 0 < m.size then tiledFrom (pos + m.size) ms else none

/-- Decidable form of "packed": members tile `[0, sizeof)` in table order and `sizeof` is a multiple of 4. -/
def packedB (s : CxxStruct) : Bool :=
  tiledFrom 0 s.members == some s.sizeof && s.sizeof % 4 == 0 && s.alignof == 4

/-- The readable statement of packedness (what `packedB` is proved to imply). -/
structure Packed (s : CxxStruct) : Prop where
  /-- sorted by offset and non-overlapping: an earlier member ends no later than a later one starts -/
  sorted : s.members.Pairwise (fun a b => a.offset + a.size ≤ b.offset)
  /-- contiguous: every member starts exactly where its predecessor ends, the first at 0 -/
  contiguous : ∀ i, (h : i < s.members.length) →
    s.members[i].offset = ((s.members.take i).map (·.size)).sum
  /-- no empty member -/
  nonempty : ∀ m ∈ s.members, 0 < m.size
  /-- the member sizes add up to `sizeof` -/
  total : (s.members.map (·.size)).sum = s.sizeof
  /-- `sizeof` is a multiple of the declared 4-byte alignment -/
  aligned : s.sizeof % 4 = 0 ∧ s.alignof = 4

/-! ### The descriptor and the generic codec -/

/-- What the codec needs to know about one field. -/
structure Field where
  name : Nat
  width : Nat
  kind : Kind
  deriving DecidableEq, Repr

def Member.toField (m : Member) : Field := ⟨m.name, m.size, m.kind⟩

/-- The descriptor used by the codec for a C++ struct: its members in table order. -/
def descriptor (s : CxxStruct) : List Field := s.members.map Member.toField

def totalWidth (d : List Field) : Nat := (d.map (·.width)).sum

/-- `(offset, width)` of every field when the record starts at `pos` (running sum of the widths). -/
def offsetsOf : List Field → Nat → List (Nat × Nat)
  | [], _ => []
  | f :: fs, pos => (pos, f.width) :: offsetsOf fs (pos + f.width)

/-- Offset of field `i` (sum of the widths before it). -/
def offsetOf (d : List Field) (i : Nat) : Nat := totalWidth (d.take i)

/-- Interpret the front of `bs` as a record: each field's raw bytes, by name. `none`: too few bytes. -/
def parseFixed : List Field → Bytes → Option (List (Nat × Bytes))
  | [], _ => some []
  | f :: fs, bs =>
    if bs.length < f.width then none
    else match parseFixed fs (bs.drop f.width) with
      | none => none
      | some r => some ((f.name, bs.take f.width) :: r)

/-- Serialise a record. `none`: a value is missing, misnamed, out of order or of the wrong width. -/
def buildFixed : List Field → List (Nat × Bytes) → Option Bytes
  | [], [] => some []
  | f :: fs, (n, v) :: vs =>
    if n = f.name ∧ v.length = f.width then
      match buildFixed fs vs with
      | none => none
      | some r => some (v ++ r)
    else none
  | _, _ => none

/-- Replace `new.length` bytes of `bs` starting at `off`. -/
def overwrite (bs : Bytes) (off : Nat) (new : Bytes) : Bytes :=
  bs.take off ++ new ++ bs.drop (off + new.length)

/-! ### Nested structs: the leaves the member probing works on -/

def findStruct (tbl : List CxxStruct) (code : Nat) : Option CxxStruct :=
  tbl.find? (fun s => s.name == code)

/-- Number of bytes of the UTF-8 name a code stands for. -/
def codeLen (fuel c : Nat) : Nat :=
  match fuel with
  | 0 => 0
  | fuel + 1 => if c = 0 then 0 else codeLen fuel (c / 256) + 1

/-- Code of `a ++ "." ++ b`. -/
def joinCode (a b : Nat) : Nat :=
  if a = 0 then b else (a * 256 + 46) * 256 ^ codeLen 64 b + b

/-- Members with scalar struct type are replaced by the members of that struct (recursively, `fuel`
levels deep), renamed `outer.inner` and moved to their absolute offset: the *leaves* the member
probing works on. `none` if a referenced struct is missing from the table or the nesting is too deep. -/
def flattenMembers (tbl : List CxxStruct) : Nat → Nat → Nat → List Member → Option (List Member)
  | 0, _, _, _ => none
  | fuel + 1, pre, base, ms =>
    ms.foldr (fun m acc =>
      match acc with
      | none => none
      | some rest =>
        if m.kind = .struct then
          match findStruct tbl m.sub with
          | none => none
          | some t =>
            if t.sizeof = m.size then
              match flattenMembers tbl fuel (joinCode pre m.name) (base + m.offset) t.members with
              | none => none
              | some inner => some (inner ++ rest)
            else none
        else some (⟨joinCode pre m.name, base + m.offset, m.size, m.kind, m.elemKind, m.elemSize, m.arrayLen, 0⟩ :: rest))
      (some [])

def flatten (tbl : List CxxStruct) (s : CxxStruct) : Option (List Member) :=
  flattenMembers tbl 4 0 0 s.members

/-- The flattened descriptor (one field per leaf); empty if flattening fails. -/
def flatDescriptor (tbl : List CxxStruct) (s : CxxStruct) : List Field :=
  match flatten tbl s with
  | some ls => ls.map Member.toField
  | none => []

def nodupB : List Nat → Bool
  | [] => true
  | a :: l => !l.contains a && nodupB l

/-- No two structs share a name code, and no two structs share a MESSAGE_TYPE: looking a struct up by
name, and mapping a struct to a Python class by message type, are functions. -/
def keysDistinctB (tbl : List CxxStruct) : Bool :=
  nodupB (tbl.map (·.name)) && nodupB (tbl.filterMap (·.msgType))

/-- Shape of one member: extents and element sizes multiply out, a struct-typed element has the size of
the struct it names, and only arrays have extents. -/
def memberShapeB (tbl : List CxxStruct) (m : Member) : Bool :=
  (if m.arrayLen = 0 then m.size == m.elemSize && m.kind == m.elemKind
   else m.size == m.arrayLen * m.elemSize && (m.kind == .array || (m.kind == .bytes && m.elemKind == .u && m.elemSize == 1))) &&
  (if m.elemKind = .struct then
     match findStruct tbl m.sub with
     | some t => t.sizeof == m.elemSize
     | none => false
   else m.sub == 0) &&
  (m.elemKind != .array && m.elemKind != .bytes) &&
  (match m.elemKind with
   | .f => m.elemSize == 4 || m.elemSize == 8
   | .bool => m.elemSize == 1
   | .u | .i | .enum => 0 < m.elemSize && m.elemSize ≤ 8
   | _ => true)

def shapesB (tbl : List CxxStruct) (s : CxxStruct) : Bool := s.members.all (memberShapeB tbl)

/-- The flattened descriptor exists and tiles `[0, sizeof)` too. -/
def flatB (tbl : List CxxStruct) (s : CxxStruct) : Bool :=
  match flatten tbl s with
  | none => false
  | some ls => tiledFrom 0 ls == some s.sizeof

/-- README, "Message Packing": the struct definitions manually keep every `float`/`double` on a 4-byte
boundary. Checked on the flattened members (array elements follow: element sizes are 4 or 8). -/
def floatsAlignedB (tbl : List CxxStruct) (s : CxxStruct) : Bool :=
  match flatten tbl s with
  | none => false
  | some ls => ls.all fun m => m.elemKind != .f || m.offset % 4 == 0

end FeVerif.FixedLayout
