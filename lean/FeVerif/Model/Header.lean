/-
The 24-byte FusionEngine message header (`MessageHeader._FORMAT = '<BBHIBBHIII'`,
`struct MessageHeader` in defs.h) and the two framing configurations built on it.
-/
import FeVerif.Spec.Frame
import FeVerif.Model.Crc32

namespace FeVerif

def SYNC0 : Nat := 0x2E
def SYNC1 : Nat := 0x31
def HDR : Nat := 24
def MAX_EXPECTED : Nat := 16777216   -- MessageHeader._MAX_EXPECTED_SIZE_BYTES = 1 << 24

structure Header where
  sync0 : Nat
  sync1 : Nat
  reserved : Nat
  crc : Nat
  protocolVersion : Nat
  messageVersion : Nat
  messageType : Nat
  sequenceNumber : Nat
  payloadSize : Nat
  sourceId : Nat
  deriving DecidableEq, Repr

def parseHeader (b : Bytes) : Header :=
  { sync0 := byteAt b 0, sync1 := byteAt b 1, reserved := u16le b 2, crc := u32le b 4,
    protocolVersion := byteAt b 8, messageVersion := byteAt b 9, messageType := u16le b 10,
    sequenceNumber := u32le b 12, payloadSize := u32le b 16, sourceId := u32le b 20 }

def packHeader (h : Header) : Bytes :=
  leBytes 1 h.sync0 ++ leBytes 1 h.sync1 ++ leBytes 2 h.reserved ++ leBytes 4 h.crc ++
  leBytes 1 h.protocolVersion ++ leBytes 1 h.messageVersion ++ leBytes 2 h.messageType ++
  leBytes 4 h.sequenceNumber ++ leBytes 4 h.payloadSize ++ leBytes 4 h.sourceId

/-- `MessageHeader.validate_crc(buffer)` on a buffer that starts with the header and holds at
least the whole message: sanity limit on the payload length, CRC over bytes `[8, 24 + payload)`. -/
def pyCrcOk (msg : Bytes) : Bool :=
  decide (u32le msg 16 ≤ MAX_EXPECTED) &&
    decide ((crc32 0#32 ((msg.take (HDR + u32le msg 16)).drop 8)).toNat = u32le msg 4)

/-- Header acceptance of the Python decoder: sync bytes, reserved = 0, payload within the limit. -/
def pyHeaderOk (maxPayload : Nat) (h : Bytes) : Bool :=
  decide (byteAt h 0 = SYNC0) && decide (byteAt h 1 = SYNC1) && decide (u16le h 2 = 0) &&
    decide (u32le h 16 ≤ maxPayload)

/-- The framing configuration of the Python decoder with `max_payload_len_bytes = maxPayload`. -/
def cfgPy (maxPayload : Nat) : Cfg where
  hdrLen := HDR
  hdrLen_pos := by decide
  headerOk := pyHeaderOk maxPayload
  payload := fun h => u32le h 16
  bodyOk := pyCrcOk

/-- Header acceptance when scanning a file (`MixedLogReader._read_next`, the indexer's
`header.unpack(validate_crc=True)`): sync bytes and the payload sanity limit; the reserved bytes are not
looked at. -/
def fileHeaderOk (h : Bytes) : Bool :=
  decide (byteAt h 0 = SYNC0) && decide (byteAt h 1 = SYNC1) && decide (u32le h 16 ≤ MAX_EXPECTED)

/-- The framing configuration of a sequential scan of a file. -/
def cfgFile : Cfg where
  hdrLen := HDR
  hdrLen_pos := by decide
  headerOk := fileHeaderOk
  payload := fun h => u32le h 16
  bodyOk := pyCrcOk

end FeVerif
