/-
Literal model of `fast_generate_index` / `_search_blocks_for_fe`
(python/fusion_engine_client/parsers/fast_indexer.py), parametric in the read size `R`
(`_READ_SIZE_BYTES`), the overlap `M` (`_MAX_FE_MSG_SIZE_BYTES`) and the number of workers `nt`.
`Pool.starmap` is modelled as `List.map` in argument order.
-/
import FeVerif.Model.Header

namespace FeVerif
namespace Indexer

/-- An index entry as a worker produces it: absolute offset, message size, message type. -/
structure Entry where
  off : Nat
  size : Nat
  type : Nat
  deriving DecidableEq, Repr

/-- `header.unpack(buffer=data, offset=i, validate_crc=True)` on the block's buffer, as a verdict:
`some size` if accepted.  `struct.unpack_from` needs 24 bytes; `validate_crc` rejects payload sizes above
2^24, requires the whole message to lie inside the buffer, and compares the CRC-32 of bytes
`[i+8, i+24+payload)` with the stored one. -/
def acceptAt (data : Bytes) (i : Nat) : Option Nat :=
  if data.length < i + HDR then none
  else if u32le data (i + 16) > MAX_EXPECTED then none
  else if data.length < i + HDR + u32le data (i + 16) then none
  else if (crc32 0#32 (slice data (i + 8) (16 + u32le data (i + 16)))).toNat = u32le data (i + 4)
  then some (HDR + u32le data (i + 16)) else none

/-- The candidate loop of one block: positions `i, i+1, …, limit-1` of `data` (read at absolute offset
`b`); every sync word is validated (no skipping inside earlier messages). -/
def scanBlock (data : Bytes) (b : Nat) (limit : Nat) (i : Nat) : List Entry :=
  if h : i < limit then
    if byteAt data i = SYNC0 ∧ byteAt data (i + 1) = SYNC1 then
      match acceptAt data i with
      | some sz => ⟨b + i, sz, u16le data (i + 10)⟩ :: scanBlock data b limit (i + 1)
      | none => scanBlock data b limit (i + 1)
    else scanBlock data b limit (i + 1)
  else []
termination_by limit - i

/-- Number of candidate positions in a block whose read returned `len` bytes; `none` = `break`. -/
def candidateLimit (R M b len : Nat) : Option Nat :=
  if len = R + M then some (2 * (R / 2))
  else if b = 0 ∨ len ≥ M then some (2 * (len / 2 - 1))
  else none

/-- One worker: its blocks in order, stops at the first `break`. -/
def worker (file : Bytes) (R M : Nat) : List Nat → List Entry
  | [] => []
  | b :: bs =>
    match candidateLimit R M b (slice file b (R + M)).length with
    | none => []
    | some limit => scanBlock (slice file b (R + M)) b limit 0 ++ worker file R M bs

/-- The allocation loop: worker `i` gets `per + 1` blocks if `i < rem` else `per`, as
`list(range(byte_offset, byte_offset + blocks * R, R))`; `fuel` = workers still to serve. -/
def allocGo (R per rem : Nat) : Nat → Nat → Nat → List (List Nat)
  | _, 0, _ => []
  | i, fuel + 1, byteOffset =>
    ((List.range (if i < rem then per + 1 else per)).map fun k => byteOffset + k * R) ::
      allocGo R per rem (i + 1) fuel (byteOffset + (if i < rem then per + 1 else per) * R)

def allocate (R numBlocks nt : Nat) : List (List Nat) :=
  allocGo R (numBlocks / nt) (numBlocks % nt) 0 nt 0

/-- The sequential pass over the candidates: keep a candidate iff it starts at or after the end of
the previously kept one. -/
def sequentialPass : Nat → List Entry → List Entry
  | _, [] => []
  | prevEnd, e :: es =>
    if e.off ≥ prevEnd then e :: sequentialPass (e.off + e.size) es
    else sequentialPass prevEnd es

def candidates (file : Bytes) (R M nt : Nat) : List Entry :=
  ((allocate R ((file.length + R - 1) / R) nt).map fun bs => worker file R M bs).flatten

def index (file : Bytes) (R M nt : Nat) : List Entry :=
  sequentialPass 0 (candidates file R M nt)

end Indexer
end FeVerif
