/-
C01 — a small layout language for the FusionEngine wire formats, with executable parser, serialiser and
size function.  Core Lean only (linked into the driver).

A `Layout` is a chain of items.  Items that carry a value contribute one `Value` to the list of values of the
chain; `pad` and `count` items contribute none (a count field is *derived*: it is read while parsing so that
later items know their length, and recomputed from the values while serialising — this is what the Python
classes do: `values['x_length'] = len(self.x)`).

Names (of fields, counts, tags) are natural numbers; the generator keeps the id ↔ attribute-name table.
-/
import FeVerif.Basic.Bytes

namespace FeVerif
namespace Lay

/-- Value trees.  Floats are their IEEE bit pattern (`int bits`) or `nan` (every NaN pattern). -/
inductive Value where
  | int (n : Int)
  | nan
  | bytes (b : Bytes)
  | list (vs : List Value)

abbrev Ctx := List (Nat × Nat)

def lookup (k : Nat) : Ctx → Option Nat
  | [] => none
  | (a, v) :: r => if a = k then some v else lookup k r

/-- Little-endian natural number of a byte string (inverse of `leBytes`). -/
def leNat : Bytes → Nat
  | [] => 0
  | b :: r => b.toNat + 256 * leNat r

def zeros (n : Nat) : Bytes := List.replicate n 0

/-- Trailing NUL bytes removed (`construct.PaddedString` → `NullStripped`). -/
def stripZ (b : Bytes) : Bytes := (b.reverse.dropWhile (fun x => x == 0)).reverse

def isAscii (b : Bytes) : Bool := b.all (fun x => x.toNat < 128)

/-- Where the length of an array / byte string comes from. -/
inductive Cnt where
  | fixed (n : Nat)
  | ref (nm : Nat)

def Cnt.resolve (c : Cnt) (cs : Ctx) : Option Nat :=
  match c with
  | .fixed n => some n
  | .ref nm => lookup nm cs

/-- number of bytes a byte-string item occupies when its value has `len` bytes -/
def Cnt.outLen (c : Cnt) (len : Nat) : Nat :=
  match c with
  | .fixed n => n
  | .ref _ => len

/-- a byte-string value of `len` bytes fits the item (fixed text may be shorter: it is NUL padded) -/
def Cnt.fits (c : Cnt) (str : Bool) (len : Nat) : Bool :=
  match c with
  | .fixed n => if str then decide (len ≤ n) else len == n
  | .ref _ => true

/-- an array value of `len` elements fits the item -/
def Cnt.lenOk (c : Cnt) (len : Nat) : Bool :=
  match c with
  | .fixed n => len == n
  | .ref _ => true

/-- Value codecs: how the `w` raw bytes of a field (as a little-endian number `< 256^w`) become a value. -/
inductive CodecId where
  | uint | sint | bool | f32 | f64 | raw
  | enumStrict (ms : List Nat)     -- unknown integer → parse error
  | enumLenient (ms : List Nat)    -- unknown integer preserved
  | discard (fill : Nat)           -- content ignored when parsing, written as the constant `fill`
  | ext (id : Nat)                 -- float-arithmetic codec, supplied by the environment

structure Codec where
  dec : Nat → Nat → Option Value      -- width, raw number
  enc : Nat → Value → Option Nat

abbrev Env := Nat → Codec

def isNaN32 (r : Nat) : Bool := (r / 2 ^ 23) % 256 == 255 && r % 2 ^ 23 != 0
def isNaN64 (r : Nat) : Bool := (r / 2 ^ 52) % 2048 == 2047 && r % 2 ^ 52 != 0
def qNaN32 : Nat := 0x7FC00000
def qNaN64 : Nat := 0x7FF8000000000000

def uintCodec : Codec where
  dec := fun _ r => some (.int r)
  enc := fun w v => match v with
    | .int n => if 0 ≤ n ∧ n.toNat < 256 ^ w then some n.toNat else none
    | _ => none

def sintCodec : Codec where
  dec := fun w r => if r < 256 ^ w / 2 then some (.int r) else some (.int ((r : Int) - (256 ^ w : Nat)))
  enc := fun w v => match v with
    | .int n =>
      if 0 ≤ n then (if n.toNat < 256 ^ w / 2 then some n.toNat else none)
      else (if (-n).toNat ≤ 256 ^ w / 2 then some (256 ^ w - (-n).toNat) else none)
    | _ => none

def boolCodec : Codec where
  dec := fun _ r => some (.int (if r = 0 then 0 else 1))
  enc := fun _ v => match v with
    | .int n => if n = 0 then some 0 else if n = 1 then some 1 else none
    | _ => none

def f32Codec : Codec where
  dec := fun _ r => if isNaN32 r then some .nan else some (.int r)
  enc := fun _ v => match v with
    | .nan => some qNaN32
    | .int n => if 0 ≤ n ∧ n.toNat < 2 ^ 32 ∧ isNaN32 n.toNat = false then some n.toNat else none
    | _ => none

def f64Codec : Codec where
  dec := fun _ r => if isNaN64 r then some .nan else some (.int r)
  enc := fun _ v => match v with
    | .nan => some qNaN64
    | .int n => if 0 ≤ n ∧ n.toNat < 2 ^ 64 ∧ isNaN64 n.toNat = false then some n.toNat else none
    | _ => none

def rawCodec : Codec where
  dec := fun w r => some (.bytes (leBytes w r))
  enc := fun w v => match v with
    | .bytes b => if b.length = w then some (leNat b) else none
    | _ => none

def enumStrictCodec (ms : List Nat) : Codec where
  dec := fun _ r => if ms.contains r then some (.int r) else none
  enc := fun w v => match v with
    | .int n => if 0 ≤ n ∧ n.toNat < 256 ^ w ∧ ms.contains n.toNat then some n.toNat else none
    | _ => none

def discardCodec (fill : Nat) : Codec where
  dec := fun _ _ => some .nan
  enc := fun _ v => match v with
    | .nan => some fill
    | _ => none

def codecOf (E : Env) : CodecId → Codec
  | .uint => uintCodec
  | .sint => sintCodec
  | .bool => boolCodec
  | .f32 => f32Codec
  | .f64 => f64Codec
  | .raw => rawCodec
  | .enumStrict ms => enumStrictCodec ms
  | .enumLenient _ => uintCodec
  | .discard fill => discardCodec fill
  | .ext id => E id

/-- Width requirements of the built-in codecs (part of well-formedness). -/
def CodecId.widthOk : CodecId → Nat → Bool
  | .sint, w => 1 ≤ w
  | .bool, w => 1 ≤ w
  | .f32, w => w == 4
  | .f64, w => w == 8
  | .discard fill, w => decide (fill < 256 ^ w)
  | _, _ => true

mutual
inductive Layout where
  | nil
  | field (nm w : Nat) (c : CodecId) (rest : Layout)
  | pad (n : Nat) (rest : Layout)
  | count (nm w : Nat) (rest : Layout)                       -- derived length/count field
  | struct (nm : Nat) (inner rest : Layout)
  | array (nm : Nat) (c : Cnt) (elem rest : Layout)
  | bytes (nm : Nat) (c : Cnt) (str : Bool) (rest : Layout)  -- str: ASCII text, trailing NULs stripped
  | greedy (nm : Nat)                                        -- the rest of the buffer; last item
  | lenPref (nm w : Nat) (inner rest : Layout)               -- w-byte length L, then an L-byte region holding `inner`
  | switch (nm tag : Nat) (cases : Cases) (rest : Layout)    -- content chosen by an earlier integer field
inductive Cases where
  | fail                                                     -- unknown tag: explicit error
  | dflt (body : Layout)
  | case (t : Nat) (body : Layout) (more : Cases)
end

/-- An integer-valued field is remembered as a possible switch tag. -/
def pushTag (nm : Nat) (v : Value) (ts : Ctx) : Ctx :=
  match v with
  | .int n => (nm, n.toNat) :: ts
  | _ => ts

def parseRep (f : Bytes → Option (List Value × Bytes)) : Nat → Bytes → Option (List Value × Bytes)
  | 0, bs => some ([], bs)
  | n + 1, bs =>
    match f bs with
    | none => none
    | some (v, r) =>
      match parseRep f n r with
      | none => none
      | some (vs, r') => some (.list v :: vs, r')

mutual
/-- `parseGo E l cs ts bs` : values of the chain `l` and the unconsumed suffix.
`cs` = count fields read so far in this chain, `ts` = integer fields seen so far (switch tags). -/
def parseGo (E : Env) : Layout → Ctx → Ctx → Bytes → Option (List Value × Bytes)
  | .nil, _, _, bs => some ([], bs)
  | .field nm w c rest, cs, ts, bs =>
    if bs.length < w then none else
    match (codecOf E c).dec w (leNat (bs.take w)) with
    | none => none
    | some v =>
      match parseGo E rest cs (pushTag nm v ts) (bs.drop w) with
      | none => none
      | some (vs, r) => some (v :: vs, r)
  | .pad n rest, cs, ts, bs =>
    if bs.length < n then none else parseGo E rest cs ts (bs.drop n)
  | .count nm w rest, cs, ts, bs =>
    if bs.length < w then none else parseGo E rest ((nm, leNat (bs.take w)) :: cs) ts (bs.drop w)
  | .struct _ inner rest, cs, ts, bs =>
    match parseGo E inner [] [] bs with
    | none => none
    | some (ivs, r) =>
      match parseGo E rest cs ts r with
      | none => none
      | some (vs, r') => some (.list ivs :: vs, r')
  | .array _ c elem rest, cs, ts, bs =>
    match c.resolve cs with
    | none => none
    | some n =>
      match parseRep (fun b => parseGo E elem [] [] b) n bs with
      | none => none
      | some (es, r) =>
        match parseGo E rest cs ts r with
        | none => none
        | some (vs, r') => some (.list es :: vs, r')
  | .bytes _ c str rest, cs, ts, bs =>
    match c.resolve cs with
    | none => none
    | some n =>
      if bs.length < n then none else
      if str && !(isAscii (bs.take n)) then none else
      match parseGo E rest cs ts (bs.drop n) with
      | none => none
      | some (vs, r) => some (.bytes (if str then stripZ (bs.take n) else bs.take n) :: vs, r)
  | .greedy _, _, _, bs => some ([.bytes bs], [])
  | .lenPref _ w inner rest, cs, ts, bs =>
    if bs.length < w then none else
    if (bs.drop w).length < leNat (bs.take w) then none else
    match parseGo E inner [] ts ((bs.drop w).take (leNat (bs.take w))) with
    | none => none
    | some (ivs, _) =>
      match parseGo E rest cs ts ((bs.drop w).drop (leNat (bs.take w))) with
      | none => none
      | some (vs, r) => some (.list ivs :: vs, r)
  | .switch _ tag cases rest, cs, ts, bs =>
    match lookup tag ts with
    | none => none
    | some t =>
      match parseCases E cases t ts bs with
      | none => none
      | some (ivs, r) =>
        match parseGo E rest cs ts r with
        | none => none
        | some (vs, r') => some (.list ivs :: vs, r')
def parseCases (E : Env) : Cases → Nat → Ctx → Bytes → Option (List Value × Bytes)
  | .fail, _, _, _ => none
  | .dflt body, _, ts, bs => parseGo E body [] ts bs
  | .case t body more, k, ts, bs => if t = k then parseGo E body [] ts bs else parseCases E more k ts bs
end

/-- The value a derived count field must take: the length of the (first) item it counts. -/
def findCount (nm : Nat) : Layout → List Value → Option Nat
  | .nil, _ => none
  | .field _ _ _ rest, _ :: vs => findCount nm rest vs
  | .pad _ rest, vs => findCount nm rest vs
  | .count nm' _ rest, vs => if nm' = nm then none else findCount nm rest vs
  | .struct _ _ rest, _ :: vs => findCount nm rest vs
  | .array _ c _ rest, v :: vs =>
    match c, v with
    | .ref k, .list es => if k = nm then some es.length else findCount nm rest vs
    | _, _ => findCount nm rest vs
  | .bytes _ c _ rest, v :: vs =>
    match c, v with
    | .ref k, .bytes b => if k = nm then some b.length else findCount nm rest vs
    | _, _ => findCount nm rest vs
  | .lenPref _ _ _ rest, _ :: vs => findCount nm rest vs
  | .switch _ _ _ rest, _ :: vs => findCount nm rest vs
  | _, _ => none

def buildRep (g : List Value → Option Bytes) : List Value → Option Bytes
  | [] => some []
  | .list vs :: r =>
    match g vs with
    | none => none
    | some a =>
      match buildRep g r with
      | none => none
      | some b => some (a ++ b)
  | _ :: _ => none

mutual
/-- Serialisation of the values of a chain.  `none` when the values do not fit the layout. -/
def buildGo (E : Env) : Layout → Ctx → List Value → Option Bytes
  | .nil, _, [] => some []
  | .field nm w c rest, ts, v :: vs =>
    match (codecOf E c).enc w v with
    | none => none
    | some r =>
      if 256 ^ w ≤ r then none else
      match buildGo E rest (pushTag nm v ts) vs with
      | none => none
      | some out => some (leBytes w r ++ out)
  | .pad n rest, ts, vs =>
    match buildGo E rest ts vs with
    | none => none
    | some out => some (zeros n ++ out)
  | .count nm w rest, ts, vs =>
    match findCount nm rest vs with
    | none => none
    | some c =>
      if 256 ^ w ≤ c then none else
      match buildGo E rest ts vs with
      | none => none
      | some out => some (leBytes w c ++ out)
  | .struct _ inner rest, ts, .list ivs :: vs =>
    match buildGo E inner [] ivs with
    | none => none
    | some a =>
      match buildGo E rest ts vs with
      | none => none
      | some out => some (a ++ out)
  | .array _ c elem rest, ts, .list es :: vs =>
    if !(c.lenOk es.length) then none else
    match buildRep (fun ivs => buildGo E elem [] ivs) es with
    | none => none
    | some a =>
      match buildGo E rest ts vs with
      | none => none
      | some out => some (a ++ out)
  | .bytes _ c str rest, ts, .bytes b :: vs =>
    if str && !(isAscii b && stripZ b == b) then none else
    if !(c.fits str b.length) then none else
    match buildGo E rest ts vs with
    | none => none
    | some out => some (b ++ zeros (c.outLen b.length - b.length) ++ out)
  | .greedy _, _, [.bytes b] => some b
  | .lenPref _ w inner rest, ts, .list ivs :: vs =>
    match buildGo E inner ts ivs with
    | none => none
    | some a =>
      if 256 ^ w ≤ a.length then none else
      match buildGo E rest ts vs with
      | none => none
      | some out => some (leBytes w a.length ++ a ++ out)
  | .switch _ tag cases rest, ts, .list ivs :: vs =>
    match lookup tag ts with
    | none => none
    | some t =>
      match buildCases E cases t ts ivs with
      | none => none
      | some a =>
        match buildGo E rest ts vs with
        | none => none
        | some out => some (a ++ out)
  | _, _, _ => none
def buildCases (E : Env) : Cases → Nat → Ctx → List Value → Option Bytes
  | .fail, _, _, _ => none
  | .dflt body, _, ts, vs => buildGo E body ts vs
  | .case t body more, k, ts, vs => if t = k then buildGo E body ts vs else buildCases E more k ts vs
end

def sizeRep (g : List Value → Nat) : List Value → Nat
  | [] => 0
  | .list vs :: r => g vs + sizeRep g r
  | _ :: r => sizeRep g r

mutual
/-- Self-reported size: computed from the layout and the value, without serialising. -/
def sizeGo : Layout → Ctx → List Value → Nat
  | .nil, _, _ => 0
  | .field nm w _ rest, ts, v :: vs => w + sizeGo rest (pushTag nm v ts) vs
  | .pad n rest, ts, vs => n + sizeGo rest ts vs
  | .count _ w rest, ts, vs => w + sizeGo rest ts vs
  | .struct _ inner rest, ts, .list ivs :: vs => sizeGo inner [] ivs + sizeGo rest ts vs
  | .array _ _ elem rest, ts, .list es :: vs => sizeRep (fun ivs => sizeGo elem [] ivs) es + sizeGo rest ts vs
  | .bytes _ c _ rest, ts, .bytes b :: vs =>
    c.outLen b.length + sizeGo rest ts vs
  | .greedy _, _, [.bytes b] => b.length
  | .lenPref _ w inner rest, ts, .list ivs :: vs => w + sizeGo inner ts ivs + sizeGo rest ts vs
  | .switch _ tag cases rest, ts, .list ivs :: vs =>
    (match lookup tag ts with | none => 0 | some t => sizeCases cases t ts ivs) + sizeGo rest ts vs
  | _, _, _ => 0
def sizeCases : Cases → Nat → Ctx → List Value → Nat
  | .fail, _, _, _ => 0
  | .dflt body, _, ts, vs => sizeGo body ts vs
  | .case t body more, k, ts, vs => if t = k then sizeGo body ts vs else sizeCases more k ts vs
end

/-! ### Top-level API -/

/-- `parse l bs` = value tree and number of bytes consumed. -/
def parse (E : Env) (l : Layout) (bs : Bytes) : Option (Value × Nat) :=
  match parseGo E l [] [] bs with
  | none => none
  | some (vs, r) => some (.list vs, bs.length - r.length)

def build (E : Env) (l : Layout) (v : Value) : Option Bytes :=
  match v with
  | .list vs => buildGo E l [] vs
  | _ => none

def sizeOf (l : Layout) (v : Value) : Nat :=
  match v with
  | .list vs => sizeGo l [] vs
  | _ => 0

/-- `cls().unpack(buf, off)` -/
def parseAt (E : Env) (l : Layout) (buf : Bytes) (off : Nat) : Option (Value × Nat) :=
  if buf.length < off then none else parse E l (buf.drop off)

/-- `obj.pack(buf, off)` into a caller-supplied buffer: overwrite `[off, off + size)`. -/
def buildInto (E : Env) (l : Layout) (v : Value) (buf : Bytes) (off : Nat) : Option Bytes :=
  match build E l v with
  | none => none
  | some out => if buf.length < off + out.length then none
                else some (buf.take off ++ out ++ buf.drop (off + out.length))

/-! ### Well-formedness (decidable: all `Bool`) -/

/-- some counted item of the chain refers to count `nm` (before `nm` is declared again). -/
def refs (nm : Nat) : Layout → Bool
  | .nil => false
  | .field _ _ _ rest => refs nm rest
  | .pad _ rest => refs nm rest
  | .count nm' _ rest => if nm' = nm then false else refs nm rest
  | .struct _ _ rest => refs nm rest
  | .array _ c _ rest => (match c with | .ref k => k == nm | .fixed _ => false) || refs nm rest
  | .bytes _ c _ rest => (match c with | .ref k => k == nm | .fixed _ => false) || refs nm rest
  | .greedy _ => false
  | .lenPref _ _ _ rest => refs nm rest
  | .switch _ _ _ rest => refs nm rest

def Cnt.freeIn (c : Cnt) (rest : Layout) : Bool :=
  match c with
  | .fixed _ => true
  | .ref k => !(refs k rest)

def Cnt.declared (c : Cnt) (decl : List Nat) : Bool :=
  match c with
  | .fixed _ => true
  | .ref k => decl.contains k

mutual
/-- no `greedy` item anywhere (required of every nested layout). -/
def noGreedy : Layout → Bool
  | .nil => true
  | .field _ _ _ rest => noGreedy rest
  | .pad _ rest => noGreedy rest
  | .count _ _ rest => noGreedy rest
  | .struct _ inner rest => noGreedy inner && noGreedy rest
  | .array _ _ elem rest => noGreedy elem && noGreedy rest
  | .bytes _ _ _ rest => noGreedy rest
  | .greedy _ => false
  | .lenPref _ _ inner rest => noGreedy inner && noGreedy rest
  | .switch _ _ cases rest => noGreedyCases cases && noGreedy rest
def noGreedyCases : Cases → Bool
  | .fail => true
  | .dflt body => noGreedy body
  | .case _ body more => noGreedy body && noGreedyCases more
end

mutual
/-- `wfGo decl tags l` : count fields precede what they count (`decl`), each is used by exactly one later item,
switch tags precede the switch (`tags`), codecs sit on fields of the right width, nested layouts are closed and
have no greedy item. -/
def wfGo : List Nat → List Nat → Layout → Bool
  | _, _, .nil => true
  | decl, tags, .field nm w c rest => c.widthOk w && wfGo decl (nm :: tags) rest
  | decl, tags, .pad _ rest => wfGo decl tags rest
  | decl, tags, .count nm w rest => 1 ≤ w && !(decl.contains nm) && refs nm rest && wfGo (nm :: decl) tags rest
  | decl, tags, .struct _ inner rest => wfGo [] [] inner && noGreedy inner && wfGo decl tags rest
  | decl, tags, .array _ c elem rest =>
    c.declared decl && c.freeIn rest && wfGo [] [] elem && noGreedy elem && wfGo decl tags rest
  | decl, tags, .bytes _ c _ rest => c.declared decl && c.freeIn rest && wfGo decl tags rest
  | _, _, .greedy _ => true
  | decl, tags, .lenPref _ w inner rest => 1 ≤ w && wfGo [] tags inner && noGreedy inner && wfGo decl tags rest
  | decl, tags, .switch _ tag cases rest =>
    tags.contains tag && wfCases tags cases && noGreedyCases cases && wfGo decl tags rest
def wfCases : List Nat → Cases → Bool
  | _, .fail => true
  | tags, .dflt body => wfGo [] tags body
  | tags, .case _ body more => wfGo [] tags body && wfCases tags more
end

/-- Well-formed top-level layout. -/
def WF (l : Layout) : Prop := wfGo [] [] l = true

instance (l : Layout) : Decidable (WF l) := by unfold WF; infer_instance

/-- the chain ends in a `greedy` item (then nothing may follow the serialisation in the buffer). -/
def endsGreedy : Layout → Bool
  | .nil => false
  | .field _ _ _ rest => endsGreedy rest
  | .pad _ rest => endsGreedy rest
  | .count _ _ rest => endsGreedy rest
  | .struct _ _ rest => endsGreedy rest
  | .array _ _ _ rest => endsGreedy rest
  | .bytes _ _ _ rest => endsGreedy rest
  | .greedy _ => true
  | .lenPref _ _ _ rest => endsGreedy rest
  | .switch _ _ _ rest => endsGreedy rest

mutual
/-- the ext codec ids used by a layout, with the widths they are used at -/
def extUses : Layout → List (Nat × Nat)
  | .nil => []
  | .field _ w c rest => (match c with | .ext id => [(id, w)] | _ => []) ++ extUses rest
  | .pad _ rest => extUses rest
  | .count _ _ rest => extUses rest
  | .struct _ inner rest => extUses inner ++ extUses rest
  | .array _ _ elem rest => extUses elem ++ extUses rest
  | .bytes _ _ _ rest => extUses rest
  | .greedy _ => []
  | .lenPref _ _ inner rest => extUses inner ++ extUses rest
  | .switch _ _ cases rest => extUsesCases cases ++ extUses rest
def extUsesCases : Cases → List (Nat × Nat)
  | .fail => []
  | .dflt body => extUses body
  | .case _ body more => extUses body ++ extUsesCases more
end

end Lay
end FeVerif
