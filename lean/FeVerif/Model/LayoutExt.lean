/-
C01 — the float-arithmetic value codecs of the Python classes, executed with Lean `Float` (binary64, same
operations as CPython) so that the correspondence with the implementation is bit-exact.  No theorem is proved
through these definitions: in `Props/C01.lean` their stability is a hypothesis (`ExtStable`).
Float values travel as the 64 bits of the double (`Value.int bits`), NaN as `Value.nan`.
-/
import FeVerif.Model.Layout

namespace FeVerif
namespace Lay

/-- Python `round(x)` / `numpy.round(x)` to an integer: half to even. -/
def roundHalfEven (x : Float) : Int :=
  let f := x.floor
  let d := x - f
  let n := f.toInt64.toInt
  if d < 0.5 then n else if d > 0.5 then n + 1 else (if n % 2 = 0 then n else n + 1)

def f64OfValue (v : Value) : Option Float :=
  match v with
  | .nan => some (Float.ofBits 0x7FF8000000000000)
  | .int n => if 0 ≤ n ∧ n.toNat < 2 ^ 64 then some (Float.ofBits (UInt64.ofNat n.toNat)) else none
  | _ => none

def valueOfF64 (x : Float) : Value := if x.isNaN then .nan else .int x.toBits.toNat

def tsInvalid : Nat := 0xFFFFFFFF
def f1em9 : Float := Float.ofBits 0x3E112E0BE826D695     -- 1e-9
def f1e9 : Float := 1000000000.0

/-- `Timestamp.unpack` / `Timestamp.pack` (8 bytes: u32 seconds, u32 nanoseconds). -/
def timestampCodec : Codec where
  dec := fun _ r =>
    let ip := r % 2 ^ 32
    let fr := r / 2 ^ 32
    if ip = tsInvalid ∨ fr = tsInvalid then some .nan
    else some (valueOfF64 (Float.ofNat ip + Float.ofNat fr * f1em9))
  enc := fun _ v =>
    match v with
    | .nan => some (tsInvalid + 2 ^ 32 * tsInvalid)
    | _ =>
      match f64OfValue v with
      | none => none
      | some s =>
        if s < 0 ∨ s.isInf then none else
        let ip := s.floor.toUInt64.toNat
        let fr := roundHalfEven ((s - Float.ofNat ip) * f1e9)
        let ip' := if fr ≥ 1000000000 then ip + 1 else ip
        let fr' := if fr ≥ 1000000000 then fr - 1000000000 else fr
        if fr' < 0 ∨ 2 ^ 32 ≤ ip' then none else some (ip' + 2 ^ 32 * fr'.toNat)

/-- A scaled integer with an optional "invalid" sentinel.
decode: `raw == sentinel → NaN`, else `raw * decK` or `raw / decK`;
encode: `NaN → sentinel`, else `round(x * encK)` or `round(x / encK)`, optionally clamped. -/
structure Scaled where
  signed : Bool
  sentinel : Option Int
  decMul : Bool
  decK : Float
  encMul : Bool
  encK : Float
  clamp : Option (Int × Int)

def toSigned (w r : Nat) : Int := if r < 256 ^ w / 2 then (r : Int) else (r : Int) - (256 ^ w : Nat)

def scaledCodec (s : Scaled) : Codec where
  dec := fun w r =>
    let x : Int := if s.signed then toSigned w r else (r : Int)
    if s.sentinel = some x then some .nan
    else some (valueOfF64 (if s.decMul then Float.ofInt x * s.decK else Float.ofInt x / s.decK))
  enc := fun w v =>
    match v with
    | .nan => match s.sentinel with
      | some t => some (if t < 0 then (256 ^ w - (-t).toNat) else t.toNat)
      | none => none
    | _ =>
      match f64OfValue v with
      | none => none
      | some x =>
        if x.isInf then none else
        let y := roundHalfEven (if s.encMul then x * s.encK else x / s.encK)
        let y := match s.clamp with
          | some (lo, hi) => if y > hi then hi else if y < lo then lo else y
          | none => y
        let lo : Int := if s.signed then -((256 ^ w / 2 : Nat) : Int) else 0
        let hi : Int := if s.signed then ((256 ^ w / 2 : Nat) : Int) - 1 else ((256 ^ w : Nat) : Int) - 1
        if y < lo ∨ hi < y then none
        else some (if y < 0 then (256 ^ w - (-y).toNat) else y.toNat)

inductive ExtSpec where
  | timestamp
  | scaled (s : Scaled)

def extCodec : ExtSpec → Codec
  | .timestamp => timestampCodec
  | .scaled s => scaledCodec s

def badCodec : Codec := ⟨fun _ _ => none, fun _ _ => none⟩

def envOf (tbl : List ExtSpec) : Env := fun id =>
  match tbl[id]? with
  | some s => extCodec s
  | none => badCodec

/-! ### canonical text of value trees (driver output) -/

mutual
def Value.text : Value → String
  | .int n => toString n
  | .nan => "nan"
  | .bytes b => "x" ++ toHex b
  | .list vs => "[" ++ Value.textList vs ++ "]"
def Value.textList : List Value → String
  | [] => ""
  | [v] => v.text
  | v :: w :: r => v.text ++ "," ++ Value.textList (w :: r)
end

end Lay
end FeVerif
