/-
Literal model of the caching logic of `DataLoader._read`
(python/fusion_engine_client/analysis/data_loader.py) and of `MessageData.to_numpy` /
`DataLoader.time_align_data` as far as they decide *which* messages a `MessageData` holds.

What is abstract
* A log is the list of its (CRC-valid) messages in file order: `Entry` = ordinal (`message_index`),
  message type, P1 time (scaled integer, `none` = no valid P1 time: NaN in the index), source id.
* The log reader (`MixedLogReader` with its index; specified by C10/C11) is the parameter `Reader`:
  which index entries a `TimeRange` selects, whether `filter_out_invalid_p1_times` removes untimed
  entries, which source identifiers it reports as available and whether it keeps requested ones it has not seen.  Everything the loader itself does with
  the reader (order of the filter calls, the index slice for `max_messages`, the conditions tested when
  a message is read) is modelled here.
* The registry (`message_type_to_class`, `messages_with_p1_time`, `messages_with_system_time`) is `Reg`.

State that is constant after `DataLoader.open()` on an indexed file (`have_index() = True`,
`_need_t0 = _need_system_t0 = False`; observed on the real object by the harness after open() and after
every call, also on logs whose first system-timestamped / P1-timestamped message lies beyond the 1 MiB
that open() searches) is not carried, so the "postponed filter" branch (`filters_applied = False`) does
not appear.  `open()` empties the cache (926a823): a history of the model starts at an `open()`.  `max_bytes = None`,
`return_bytes = False` in every modelled call (the keys are present in `Params` with those values).

`Variant` switches the repairs made to the code on or off (six in `_read`, the seventh in
`TimeRange.__eq__`); `Variant.current` (all on) is the code as it is, `Variant.legacy` (all off) the
code before the repairs.  `Variant.current` is compared with the working tree on every run; the variants 00000, 10000, 11000, 11100, 11110 (sixth bit 0) were
compared once with the repository commits 7b12b66, aa1fd47, de0a08a, f5bc4ad, c531000 (1214 call
histories each, no difference; `C12_VARIANT=<bits> FE_REPO=<worktree at that commit> ./check C12`), and
111110 is the code before the sixth repair (positive `max_messages` no longer cuts the index), 1111110 the
code before 20ca4d6 (`TimeRange.__eq__` ignored the t0 of relative ranges).

The set of available source identifiers (`Reader.available`, the default of `source_ids`) is sampled by
the reader from the first messages of each type when the file is opened and never changes afterwards:
it is a function of the log, not part of the state a call can modify.  A log may contain identifiers
that are not in it; a read with the default then leaves their messages out (at read time).
-/
namespace FeVerif.Loader

structure Entry where
  ord : Nat
  type : Nat
  time : Option Int
  src : Nat
  deriving DecidableEq, Repr, Inhabited

/-- A payload object held in `MessageData.messages`: a message read from the log, or a
default-constructed one inserted by `TimeAlignmentMode.INSERT` (its `p1_time` set to the epoch). -/
inductive Msg where
  | orig (e : Entry)
  | dflt (type : Nat) (time : Int)
  deriving DecidableEq, Repr

def Msg.time : Msg → Option Int
  | .orig e => e.time
  | .dflt _ t => some t

/-- A `TimeRange` argument.  `t0` is the `p1_t0` the caller gave a *relative* range explicitly (`none` = not
given: the reader evaluates the range from the t0 of the log; for an absolute range the code uses `p1_t0`
neither in `__eq__` nor in the selection, and the model carries `none`).  `TimeRange.__eq__` compares the
bounds, `absolute` and - since 20ca4d6, for relative ranges - t0; before, t0 was ignored although
`FileIndex.get_time_range()` evaluates the range with it (`Variant.keyT0`). -/
structure TimeRange where
  start : Option Int
  stop : Option Int
  absolute : Bool
  t0 : Option Int := none
  deriving DecidableEq, Repr

inductive Align where
  | none | drop | insert
  deriving DecidableEq, Repr

structure Reg where
  allTypes : List Nat          -- list(message_type_to_class.keys())
  known : Nat → Bool           -- t in message_type_to_class
  hasP1 : Nat → Bool           -- t in messages_with_p1_time      (hasattr(cls(), 'p1_time'))
  hasSys : Nat → Bool          -- t in messages_with_system_time
  alignP1 : Nat → Bool         -- 'p1_time' in cls().__dict__     (what time_align_data tests)
  numpyP1 : Nat → Bool         -- 'p1_time' in cls.to_numpy(...)  (what MessageData.to_numpy finds in its __dict__)

structure Reader where
  timeSel : TimeRange → List Entry → List Entry    -- index[time_range] on the unfiltered index
  dropsUntimed : Bool                              -- does get_time_range(hint='remove_nans') remove NaN entries
  available : List Entry → List Nat                -- get_available_source_ids()
  keepsUnavailable : Bool                          -- does filter_in_place(source_ids=) keep requested ids it has not seen

/-- Arguments of one `read()` call, after the trivial normalisations (`message_types` to a set of type
numbers given as a sorted list, `[]` = `None`/empty = all registered types; `source_ids` to a set given
as a sorted list). -/
structure Args where
  types : List Nat
  timeRange : TimeRange
  sourceIds : Option (List Nat)
  ignoreCache : Bool
  maxMessages : Option Int
  requireP1 : Bool
  requireSys : Bool
  inOrder : Bool
  returnIndex : Bool
  returnNumpy : Bool
  keepMessages : Bool
  removeNan : Bool
  align : Align
  alignedTypes : Option (List Nat)
  deriving DecidableEq, Repr

/-- The `params` dictionary stored with every cache entry and compared with `!=`.  The first nine are
the keys of the original code; the last five were added by the repairs (`none`/`false` when the
variant does not store them, so that they never distinguish two dictionaries). -/
structure Params where
  timeRange : TimeRange
  maxMessages : Option Int
  maxBytes : Option Nat
  requireP1 : Bool
  requireSys : Bool
  returnBytes : Bool
  returnIndex : Bool
  removeNan : Bool
  sourceIds : List Nat
  returnNumpy : Bool
  keepMessages : Bool
  align : Align
  alignedTypes : Option (List Nat)
  messageTypes : Option (List Nat)
  deriving DecidableEq, Repr

structure Variant where
  keyPost : Bool       -- return_numpy, keep_messages, time_align, aligned_message_types are in the key
  keyTypes : Bool      -- message_types is in the key when max_messages / time_align apply; then all-or-nothing
  newOnly : Bool       -- only entries created by this call are filled and converted
  sliceExact : Bool    -- index slice for max_messages only when nothing is tested at read time
  dequeFull : Bool     -- the last-N buffer sees the whole stream (no early `break`)
  sliceNonPos : Bool   -- the index is cut only for N ≤ 0; for N > 0 the running counter ends the read
  keyT0 : Bool         -- `TimeRange.__eq__` (the `time_range` key) tells relative ranges with different explicit t0 apart
  deriving DecidableEq, Repr

def Variant.current : Variant := ⟨true, true, true, true, true, true, true⟩
def Variant.legacy : Variant := ⟨false, false, false, false, false, false, false⟩

/-- `MessageData`. `arrays` = the messages the numpy members were last computed from (after NaN
removal), `none` while `to_numpy` has not run; `idxArr` = `message_index` is an `ndarray`
(then `add_message(..., message_index=i)` raises `AttributeError`). -/
structure MData where
  params : Params
  msgs : List Msg
  idx : List Nat
  arrays : Option (List Msg)
  idxArr : Bool
  deriving DecidableEq, Repr

def MData.fresh (p : Params) : MData := ⟨p, [], [], none, false⟩

inductive Err where
  | keyError
  | attributeError
  deriving DecidableEq, Repr

inductive Result where
  | dict (l : List (Nat × MData))
  | ordered (d : MData)
  deriving DecidableEq, Repr

abbrev Cache := Nat → Option MData

def Cache.empty : Cache := fun _ => none

def Cache.set (c : Cache) (t : Nat) (d : MData) : Cache := fun u => if u = t then some d else c u

/-! ### Effective arguments -/

/-- Everything the reading and post-processing part of `_read` uses after the argument parsing at its
top (`ignore_cache` and `return_in_order` themselves are used by `read` directly). -/
structure Eff where
  types : List Nat
  timeRange : TimeRange
  srcs : List Nat
  maxMessages : Option Int
  requireP1 : Bool
  requireSys : Bool
  returnIndex : Bool
  numpy : Bool
  keepMessages : Bool
  removeNan : Bool
  align : Align
  alignedTypes : Option (List Nat)
  deriving DecidableEq, Repr

/-- `across_types` -/
def Eff.across (e : Eff) : Bool := e.maxMessages.isSome || e.align != Align.none

def eff (reg : Reg) (rd : Reader) (log : List Entry) (a : Args) : Eff :=
  { types := if a.types = [] then reg.allTypes else a.types
    timeRange := a.timeRange
    srcs := match a.sourceIds with
      | none => rd.available log
      | some s => s
    maxMessages := a.maxMessages
    requireP1 := a.requireP1
    requireSys := a.requireSys
    returnIndex := a.returnIndex
    numpy := !a.inOrder && a.returnNumpy
    keepMessages := a.keepMessages
    removeNan := a.removeNan
    align := if a.inOrder then Align.none else a.align
    alignedTypes := a.alignedTypes }

/-- The `params` dictionary.  It is built before `return_in_order` overrides `return_numpy` and
`time_align`, so it holds the caller's values of those two. -/
def mkParams (v : Variant) (a : Args) (e : Eff) : Params :=
  { timeRange := if v.keyT0 then e.timeRange else { e.timeRange with t0 := none }
    maxMessages := e.maxMessages
    maxBytes := none
    requireP1 := e.requireP1
    requireSys := e.requireSys
    returnBytes := false
    returnIndex := e.returnIndex
    removeNan := e.removeNan
    sourceIds := e.srcs
    returnNumpy := v.keyPost && a.returnNumpy
    keepMessages := v.keyPost && a.keepMessages
    align := if v.keyPost then a.align else Align.none
    alignedTypes := if v.keyPost then a.alignedTypes else none
    messageTypes := if v.keyTypes && e.across then some e.types else none }

/-! ### The reader as the loader drives it -/

/-- `reader.filter_in_place(None, source_ids=source_ids)` : the identifiers tested when a message is read
(before 9c95f72 the reader intersected the request with the identifiers it had discovered). -/
def requestedSrcs (keepsUnavailable : Bool) (avail srcs : List Nat) : List Nat :=
  if keepsUnavailable || avail = srcs then srcs else srcs.filter (fun s => avail.contains s)

/-- `needed_message_types` after the `require_*` filtering by type tables. -/
def neededAfterRequire (reg : Reg) (e : Eff) (supported : List Nat) : List Nat :=
  if e.requireP1 && e.requireSys then supported.filter (fun t => reg.hasP1 t || reg.hasSys t)
  else if e.requireP1 then supported.filter reg.hasP1
  else if e.requireSys then supported.filter reg.hasSys
  else supported

/-- First `n` (n ≥ 0) or last `|n|` (n < 0): `index[:n]` / `index[n:]`. -/
def sliceN (n : Int) (l : List α) : List α :=
  if 0 ≤ n then l.take n.toNat else l.drop (l.length - n.natAbs)

/-- The index after the loader's `filter_in_place` calls (time range, then types, then untimed removal). -/
def indexFiltered (rd : Reader) (log : List Entry) (e : Eff) (sysReq : Bool) : List Entry :=
  let byType := (rd.timeSel e.timeRange log).filter (fun x => e.types.contains x.type)
  if e.requireP1 && !sysReq && rd.dropsUntimed then byType.filter (fun x => x.time.isSome) else byType

/-- `max_messages <= 0` -/
def nonPos : Option Int → Bool
  | some n => decide (n ≤ 0)
  | none => false

/-- Is the index cut to `max_messages` entries before reading?  (`reader_max_messages_applied`, which the
code also sets for N > 0 without cutting anything since the sixth repair: there the flag is only looked
at for N < 0.) -/
def sliceApplied (v : Variant) (rd : Reader) (log : List Entry) (e : Eff) (sysReq : Bool) : Bool :=
  e.maxMessages.isSome &&
    (if v.sliceExact then !e.requireP1 && !e.requireSys && e.srcs == rd.available log
     else !(e.requireSys && sysReq)) &&
    (!v.sliceNonPos || nonPos e.maxMessages)

/-- Conditions tested per message while reading (`_read_next`: source identifier, `require_*`;
`_read`: `payload is None`). -/
def readOk (reg : Reg) (rd : Reader) (log : List Entry) (e : Eff) (x : Entry) : Bool :=
  (requestedSrcs rd.keepsUnavailable (rd.available log) e.srcs).contains x.src &&
    (!e.requireP1 || reg.hasP1 x.type) && (!e.requireSys || reg.hasSys x.type) && reg.known x.type

/-- The messages the `while True:` loop gets from `read_next`, in order, until `StopIteration`. -/
def stream (v : Variant) (reg : Reg) (rd : Reader) (log : List Entry) (e : Eff) (sysReq : Bool) : List Entry :=
  let idx := indexFiltered rd log e sysReq
  let idx := if sliceApplied v rd log e sysReq then
      match e.maxMessages with
      | some n => sliceN n idx
      | none => idx
    else idx
  idx.filter (readOk reg rd log e)

/-- Which of the streamed messages are stored: the running counter with its `break`, or the
`deque(maxlen=|N|)` for negative N when the index was not cut. -/
def stored (v : Variant) (e : Eff) (sliced : Bool) (s : List Entry) : List Entry :=
  match e.maxMessages with
  | none => s
  | some n =>
    if n < 0 && !sliced then
      -- newest_messages: the loop appends every message; before the repair it also left the loop
      -- after |N| messages
      let seen := if v.dequeFull then s else s.take n.natAbs
      seen.drop (seen.length - n.natAbs)
    else s.take n.natAbs

/-! ### Filling `MessageData` objects -/

/-- `MessageData.add_message(payload, message_index=i if return_message_index else None)` -/
def addMessage (returnIndex : Bool) (d : MData) (x : Entry) : Except Err MData :=
  if returnIndex && d.idxArr then .error .attributeError
  else .ok { d with msgs := d.msgs ++ [Msg.orig x], idx := if returnIndex then d.idx ++ [x.ord] else d.idx }

/-- `data_cache[header.message_type].add_message(...)` for every stored message, in order. -/
def storeAll (v : Variant) (e : Eff) (newTypes : List Nat) (dc : Cache) : List Entry → Except Err Cache
  | [] => .ok dc
  | x :: xs =>
    if v.newOnly && !newTypes.contains x.type then storeAll v e newTypes dc xs
    else match dc x.type with
      | none => .error .keyError
      | some d =>
        match addMessage e.returnIndex d x with
        | .error err => .error err
        | .ok d' => storeAll v e newTypes (dc.set x.type d') xs

/-- In-order result: one `MessageData` receives every stored message. -/
def storeOrdered (e : Eff) (d : MData) : List Entry → Except Err MData
  | [] => .ok d
  | x :: xs =>
    match addMessage e.returnIndex d x with
    | .error err => .error err
    | .ok d' => storeOrdered e d' xs

/-! ### Time alignment (`DataLoader.time_align_data`, no NaN P1 times among aligned types) -/

def timesOf (ms : List Msg) : List Int := ms.filterMap Msg.time

/-- insert into a strictly increasing list, keeping it strictly increasing -/
def insertUniq (x : Int) : List Int → List Int
  | [] => [x]
  | y :: ys => if x < y then x :: y :: ys else if x = y then y :: ys else y :: insertUniq x ys

/-- sorted, duplicates removed (`np.unique`) -/
def sortUniq (l : List Int) : List Int := l.foldr insertUniq []

/-- first message of the list with this P1 time (`np.intersect1d(..., return_indices=True)` reports the
first occurrence) -/
def firstAt (ms : List Msg) (t : Int) : Option Msg := ms.find? (fun m => m.time == some t)

def participates (reg : Reg) (aligned : Option (List Nat)) (t : Nat) : Bool :=
  reg.alignP1 t && (match aligned with
    | none => true
    | some l => l.contains t)

/-- DROP: intersection of the P1 times of all participating types. -/
def commonTimes : List (List Int) → List Int
  | [] => []
  | [l] => l
  | l :: rest => l.filter (fun t => (commonTimes rest).contains t)

def alignOne (mode : Align) (timeSet : List Int) (t : Nat) (d : MData) : MData :=
  match mode with
  | .none => d
  | .drop => { d with msgs := timeSet.filterMap (firstAt d.msgs) }
  | .insert => { d with msgs := timeSet.map (fun tm =>
      match firstAt d.msgs tm with
      | some m => m
      | none => Msg.dflt t tm) }

/-- The epochs all participating types are aligned to: the intersection (DROP) or the union (INSERT)
of their P1 times, sorted, without duplicates. -/
def timeSetOf (reg : Reg) (mode : Align) (aligned : Option (List Nat)) (l : List (Nat × MData)) : List Int :=
  match mode with
  | .drop => sortUniq (commonTimes ((l.filter (fun td => participates reg aligned td.1)).map (fun td => timesOf td.2.msgs)))
  | _ => sortUniq ((l.filter (fun td => participates reg aligned td.1)).map (fun td => timesOf td.2.msgs)).flatten

/-- `time_align_data(result, mode, message_types=aligned)` on a dict result. -/
def alignDict (reg : Reg) (mode : Align) (aligned : Option (List Nat)) (l : List (Nat × MData)) :
    List (Nat × MData) :=
  l.map (fun td =>
    if participates reg aligned td.1 then (td.1, alignOne mode (timeSetOf reg mode aligned l) td.1 td.2) else td)

/-! ### `MessageData.to_numpy` -/

def firstTime (ms : List Msg) : Option (Option Int) := ms.head?.map Msg.time
def lastTime (ms : List Msg) : Option (Option Int) := ms.getLast?.map Msg.time

/-- `float(a) != b` on P1 times: NaN differs from everything. -/
def timeNe (a b : Option (Option Int)) : Bool :=
  match a, b with
  | some (some x), some (some y) => x != y
  | _, _ => true

/-- `do_conversion`: convert unless numpy members are cached that still match the messages. -/
def doConversion (reg : Reg) (t : Nat) (d : MData) : Bool :=
  if d.arrays.isSome && reg.numpyP1 t then      -- have_cached_numpy_data: 'p1_time' in self.__dict__
    match d.arrays with
    | none => true
    | some arr =>
      if d.msgs.isEmpty then false
      else d.msgs.length != arr.length || timeNe (firstTime d.msgs) (firstTime arr) ||
        timeNe (lastTime d.msgs) (lastTime arr)
  else true

/-- The conversion proper: numpy members from the messages, `message_index` to an `ndarray`, then the
removal of the entries whose P1 time is NaN from every member as long as the time vector. -/
def convert (reg : Reg) (removeNan : Bool) (t : Nat) (d : MData) : MData :=
  if removeNan && reg.numpyP1 t && (d.msgs.map (fun m => m.time.isNone)).any id then
    { d with
      arrays := some (d.msgs.filter (fun m => m.time.isSome))
      idx := if d.idx.length = d.msgs.length then
          ((d.idx.zip (d.msgs.map (fun m => m.time.isNone))).filter (fun p => !p.2)).map Prod.fst else d.idx
      idxArr := true }
  else { d with arrays := some d.msgs, idxArr := true }

/-- `if not keep_messages: self.messages = []` -/
def dropMsgs (keepMessages : Bool) (d : MData) : MData := if keepMessages then d else { d with msgs := [] }

/-- `if not keep_message_index: self.message_index = []` -/
def dropIdx (keepIndex : Bool) (d : MData) : MData := if keepIndex then d else { d with idx := [], idxArr := false }

def toNumpy (reg : Reg) (removeNan keepMessages keepIndex : Bool) (t : Nat) (d : MData) : MData :=
  if !reg.known t then d      -- hasattr(None, 'to_numpy') is False: ValueError, swallowed by DataLoader.to_numpy
  else dropIdx keepIndex (dropMsgs keepMessages (if doConversion reg t d then convert reg removeNan t d else d))

/-! ### `_read` -/

def lookupAll (dc : Cache) : List Nat → Except Err (List (Nat × MData))
  | [] => .ok []
  | t :: ts =>
    match dc t with
    | none => .error .keyError
    | some d =>
      match lookupAll dc ts with
      | .error err => .error err
      | .ok r => .ok ((t, d) :: r)

/-- write the (post-processed) entries of a dict result back through the references held by the cache -/
def writeBack (dc : Cache) : List (Nat × MData) → Cache
  | [] => dc
  | (t, d) :: r => writeBack (dc.set t d) r

def createEntries (p : Params) (dc : Cache) : List Nat → Cache
  | [] => dc
  | t :: ts => createEntries p (dc.set t (MData.fresh p)) ts

/-- Requested types that are not cached with exactly these parameters. -/
def missesOf (cache : Cache) (p : Params) (types : List Nat) : List Nat :=
  types.filter (fun t =>
    match cache t with
    | none => true
    | some d => d.params != p)

/-- `needed_message_types` as first computed (before the `supported` / `require_*` filtering); also
`new_message_types`. -/
def needed0Of (v : Variant) (ignoreCache : Bool) (e : Eff) (misses : List Nat) : List Nat :=
  if ignoreCache then e.types
  else if v.keyTypes && e.across && !misses.isEmpty then e.types
  else misses

/-- `needed_message_types` when the reader is set up. -/
def neededOf (reg : Reg) (e : Eff) (needed0 : List Nat) : List Nat :=
  neededAfterRequire reg e (needed0.filter reg.known)

/-- `system_time_messages_requested` -/
def sysReqOf (reg : Reg) (e : Eff) (needed0 : List Nat) : Bool := (neededOf reg e needed0).any reg.hasSys

/-- The messages the loop stores, in order. -/
def selected (v : Variant) (reg : Reg) (rd : Reader) (log : List Entry) (e : Eff) (needed0 : List Nat) : List Entry :=
  stored v e (sliceApplied v rd log e (sysReqOf reg e needed0)) (stream v reg rd log e (sysReqOf reg e needed0))

/-- `DataLoader.to_numpy(...)` over a dict result; since the repair only over the entries created by this call. -/
def numpyDict (reg : Reg) (e : Eff) (skipOld : Bool) (newTypes : List Nat) (res : List (Nat × MData)) :
    List (Nat × MData) :=
  res.map (fun td =>
    if skipOld && !newTypes.contains td.1 then td
    else (td.1, toNumpy reg e.removeNan e.keepMessages e.returnIndex td.1 td.2))

/-- Time alignment, then numpy conversion, of a dict result. -/
def postDict (v : Variant) (reg : Reg) (e : Eff) (newTypes : List Nat) (res : List (Nat × MData)) :
    List (Nat × MData) :=
  if e.numpy then
    numpyDict reg e v.newOnly newTypes
      (if e.align != Align.none then alignDict reg e.align e.alignedTypes res else res)
  else if e.align != Align.none then alignDict reg e.align e.alignedTypes res else res

/-- `return_in_order = True`: nothing is cached, one `MessageData` is filled and returned. -/
def readOrdered (v : Variant) (reg : Reg) (rd : Reader) (log : List Entry) (cache : Cache) (e : Eff) (p : Params) :
    Except Err (Cache × Result) :=
  if (neededOf reg e e.types).isEmpty then .ok (cache, Result.ordered (MData.fresh p))
  else
    match storeOrdered e (MData.fresh p) (selected v reg rd log e e.types) with
    | .error err => .error err
    | .ok d => .ok (cache, Result.ordered d)

/-- The dict-returning path, from the point where `needed_message_types` is known.  `dc0` is
`data_cache` (`self.data`, or `{}` with `ignore_cache`); `out` says what `self.data` is afterwards. -/
def readDict (v : Variant) (reg : Reg) (rd : Reader) (log : List Entry) (dc0 : Cache) (out : Cache → Cache)
    (e : Eff) (p : Params) (needed0 : List Nat) : Except Err (Cache × Result) :=
  match lookupAll (createEntries p dc0 needed0) e.types with
  | .error err => .error err
  | .ok res0 =>
    if (neededOf reg e needed0).isEmpty then
      -- "Nothing to read": since the repair, entries created by this call still get their (empty) numpy members
      if v.newOnly && e.numpy then
        .ok (out (writeBack (createEntries p dc0 needed0) (numpyDict reg e true needed0 res0)),
             Result.dict (numpyDict reg e true needed0 res0))
      else .ok (out (createEntries p dc0 needed0), Result.dict res0)
    else
      match storeAll v e needed0 (createEntries p dc0 needed0) (selected v reg rd log e needed0) with
      | .error err => .error err
      | .ok dc2 =>
        match lookupAll dc2 e.types with
        | .error err => .error err
        | .ok res1 =>
          .ok (out (writeBack dc2 (postDict v reg e needed0 res1)), Result.dict (postDict v reg e needed0 res1))

/-- One call of `_read`.  Returns the new cache (`self.data`) and the value returned. -/
def read (v : Variant) (reg : Reg) (rd : Reader) (log : List Entry) (cache : Cache) (a : Args) :
    Except Err (Cache × Result) :=
  if a.inOrder then
    readOrdered v reg rd log cache (eff reg rd log a) (mkParams v a (eff reg rd log a))
  else if a.ignoreCache then
    readDict v reg rd log Cache.empty (fun _ => cache) (eff reg rd log a) (mkParams v a (eff reg rd log a))
      (eff reg rd log a).types
  else
    readDict v reg rd log cache id (eff reg rd log a) (mkParams v a (eff reg rd log a))
      (needed0Of v false (eff reg rd log a)
        (missesOf cache (mkParams v a (eff reg rd log a)) (eff reg rd log a).types))

/-- A call history on one loader: the value of every call, stopping at the first exception. -/
def runHist (v : Variant) (reg : Reg) (rd : Reader) (log : List Entry) :
    Cache → List Args → List (Except Err Result)
  | _, [] => []
  | c, a :: as =>
    match read v reg rd log c a with
    | .error err => [.error err]
    | .ok (c', r) => .ok r :: runHist v reg rd log c' as

/-- The value of the last call of a history (`none` for the empty history or when an earlier call raised). -/
def lastOf (v : Variant) (reg : Reg) (rd : Reader) (log : List Entry) :
    Cache → List Args → Option (Except Err Result)
  | _, [] => none
  | c, [a] => some ((read v reg rd log c a).map Prod.snd)
  | c, a :: b :: as =>
    match read v reg rd log c a with
    | .error _ => none
    | .ok (c', _) => lastOf v reg rd log c' (b :: as)

/-- The same call on a freshly opened loader. -/
def readFresh (v : Variant) (reg : Reg) (rd : Reader) (log : List Entry) (a : Args) : Except Err Result :=
  (read v reg rd log Cache.empty a).map Prod.snd

end FeVerif.Loader
