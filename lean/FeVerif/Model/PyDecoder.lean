/-
Literal model of `FusionEngineDecoder.on_data` (python/fusion_engine_client/parsers/decoder.py).

State: the byte buffer, the cached candidate header (only its payload size matters for framing;
the header object itself is `parseHeader (buf.take 24)`), the count of bytes processed.
One call of `pyIter` is one iteration of the `while self._buffer:` loop.
Payload deserialisation does not influence framing (a payload that fails to deserialise is
returned as raw bytes), so it does not appear here.
-/
import FeVerif.Model.Header

namespace FeVerif

structure PyDec where
  buf : Bytes
  hdr : Option Nat
  processed : Nat
  deriving DecidableEq, Repr

def PyDec.init : PyDec := ⟨[], none, 0⟩

/-- `self._header = None; self._buffer.pop(0); self._bytes_processed += 1` -/
def PyDec.pop (s : PyDec) : PyDec := ⟨s.buf.drop 1, none, s.processed + 1⟩

inductive PyIter
  | brk (s : PyDec)
  | cont (s : PyDec)
  | emit (off len : Nat) (s : PyDec)
  deriving Repr

/-- The part of the loop body after a candidate header (payload size `p`) is in hand. -/
def pyBody (s : PyDec) (p : Nat) : PyIter :=
  if s.buf.length < HDR + p then .brk ⟨s.buf, some p, s.processed⟩
  else if pyCrcOk s.buf = false then .cont s.pop
  else .emit s.processed (HDR + p) ⟨s.buf.drop (HDR + p), none, s.processed + (HDR + p)⟩

def pyIter (maxPayload : Nat) (s : PyDec) : PyIter :=
  if s.buf.length < HDR then .brk s
  else match s.hdr with
    | some p => pyBody s p
    | none =>
      if byteAt s.buf 0 ≠ SYNC0 then .cont s.pop
      else if byteAt s.buf 1 ≠ SYNC1 then .cont s.pop
      else if u16le s.buf 2 ≠ 0 then .cont s.pop
      else if u32le s.buf 16 > maxPayload then .cont s.pop
      else pyBody s (u32le s.buf 16)

theorem pyBody_shrinks {s : PyDec} {p : Nat} :
    (∀ s', pyBody s p = .cont s' → HDR ≤ s.buf.length → s'.buf.length < s.buf.length) ∧
    (∀ o l s', pyBody s p = .emit o l s' → s'.buf.length < s.buf.length) := by
  unfold pyBody PyDec.pop HDR
  constructor
  · intro s' h hl
    split at h; · cases h
    split at h
    · injection h with h; subst h; simp; omega
    · cases h
  · intro o l s' h
    split at h; · cases h
    split at h; · cases h
    injection h with _ _ h; subst h; simp; omega

theorem pyIter_shrinks {m : Nat} {s : PyDec} :
    (∀ s', pyIter m s = .cont s' → s'.buf.length < s.buf.length) ∧
    (∀ o l s', pyIter m s = .emit o l s' → s'.buf.length < s.buf.length) := by
  unfold pyIter
  by_cases hl : s.buf.length < HDR
  · simp [hl]
  · simp only [if_neg hl]
    have hl' : HDR ≤ s.buf.length := by omega
    have hpop : s.pop.buf.length < s.buf.length := by
      unfold PyDec.pop; simp; unfold HDR at hl'; omega
    cases hh : s.hdr with
    | some p => exact ⟨fun s' h => pyBody_shrinks.1 s' h hl', pyBody_shrinks.2⟩
    | none =>
      simp only
      constructor
      · intro s' h
        split at h; · injection h with h; subst h; exact hpop
        split at h; · injection h with h; subst h; exact hpop
        split at h; · injection h with h; subst h; exact hpop
        split at h; · injection h with h; subst h; exact hpop
        exact pyBody_shrinks.1 s' h hl'
      · intro o l s' h
        split at h; · cases h
        split at h; · cases h
        split at h; · cases h
        split at h; · cases h
        exact pyBody_shrinks.2 o l s' h

/-- The `while` loop: accepted `(stream offset, length)` pairs and the state it leaves. -/
def pyLoop (m : Nat) (s : PyDec) : List (Nat × Nat) × PyDec :=
  match _h : pyIter m s with
  | .brk s' => ([], s')
  | .cont s' => pyLoop m s'
  | .emit o l s' => ((o, l) :: (pyLoop m s').1, (pyLoop m s').2)
termination_by s.buf.length
decreasing_by
  all_goals first
    | exact pyIter_shrinks.1 _ _h
    | exact pyIter_shrinks.2 _ _ _ _h

/-- `on_data(data)`. -/
def pyOnData (m : Nat) (s : PyDec) (data : Bytes) : List (Nat × Nat) × PyDec :=
  if data.length = 0 then ([], s) else pyLoop m ⟨s.buf ++ data, s.hdr, s.processed⟩

/-- Feeding a list of chunks: concatenated outputs and the final state. -/
def pyFeed (m : Nat) : PyDec → List Bytes → List (Nat × Nat) × PyDec
  | s, [] => ([], s)
  | s, d :: ds => ((pyOnData m s d).1 ++ (pyFeed m (pyOnData m s d).2 ds).1, (pyFeed m (pyOnData m s d).2 ds).2)

end FeVerif
