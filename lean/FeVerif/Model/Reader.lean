/-
Model of `MixedLogReader` reading through its index
(python/fusion_engine_client/parsers/mixed_log_reader.py, `FileIndex.__getitem__` / `get_time_range`
in file_index.py).  The reader always has an index (`fast_generate_index` always returns one), so the
`self.index is None` paths of the source are dead and are not modelled.

A log is the list of its messages in file order (what an unfiltered read returns): offset, size, type,
source identifier, exact P1 time in nanoseconds (or none).  The index stores whole seconds.
-/
import FeVerif.Basic.Bytes

namespace FeVerif
namespace Reader

def NS : Nat := 1000000000

structure Msg where
  offset : Nat
  size : Nat
  type : Nat
  src : Nat
  timeNs : Option Nat
  deriving DecidableEq, Repr

/-- An index entry: whole-second P1 time or none, type, offset, ordinal among all messages. -/
structure Ent where
  time : Option Nat
  type : Nat
  offset : Nat
  ordinal : Nat
  deriving DecidableEq, Repr

def indexFrom : List Msg → Nat → List Ent
  | [], _ => []
  | m :: ms, i => ⟨m.timeNs.map (· / NS), m.type, m.offset, i⟩ :: indexFrom ms (i + 1)

def indexOf (log : List Msg) : List Ent := indexFrom log 0

/-- `FileIndex.t0`: the first P1 time in the index (whole seconds). -/
def t0Of (idx : List Ent) : Option Nat := idx.findSome? (·.time)

/-- A `TimeRange` after its constructor's normalisation: bounds in nanoseconds. -/
structure TRange where
  absolute : Bool
  start : Option Nat
  stop : Option Nat
  t0 : Option Nat
  deriving DecidableEq, Repr

/-- Absolute bounds used for slicing: for a relative range the origin is the range's own `p1_t0` if set,
else the index's `t0` (whole seconds). `none` for the origin stands for an invalid `Timestamp()`. -/
def bounds (r : TRange) (t0 : Option Nat) : Option Nat × Option Nat :=
  if r.absolute then (r.start, r.stop)
  else
    match (match r.t0 with | some t => some t | none => t0.map (· * NS)) with
    | some base => (r.start.map (base + ·), r.stop.map (base + ·))
    | none => (r.start.map fun _ => 0, r.stop.map fun _ => 0)   -- NaN; the caller raises IndexError (t0 is none)

def timeGe (sec : Nat) (e : Ent) : Bool := match e.time with | some t => decide (t ≥ sec) | none => false
def timeGeNs (ns : Nat) (e : Ent) : Bool := match e.time with | some t => decide (t * NS ≥ ns) | none => false

/-- `find_first(time >= floor(start))`, 0 without a start, the length when nothing qualifies. -/
def startIdx (idx : List Ent) (start : Option Nat) : Nat :=
  match start with | none => 0 | some st => idx.findIdx (timeGe (st / NS))

/-- `find_first(time >= stop)`, the length without a stop or when nothing qualifies. -/
def stopIdx (idx : List Ent) (stop : Option Nat) : Nat :=
  match stop with | none => idx.length | some sp => idx.findIdx (timeGeNs sp)

/-- `FileIndex.get_time_range(start, stop, hint='include_nans')`; `none` = `IndexError`. -/
def sliceByTime (idx : List Ent) (t0 : Option Nat) (start stop : Option Nat) : Option (List Ent) :=
  if idx.isEmpty then some idx
  else if start.isNone && stop.isNone then some idx
  else match t0 with
    | none => none
    | some _ => some ((idx.take (stopIdx idx stop)).drop (startIdx idx start))

def sliceByRange (idx : List Ent) (t0 : Option Nat) (r : TRange) : Option (List Ent) :=
  sliceByTime idx t0 (bounds r t0).1 (bounds r t0).2

def sliceByTypes (idx : List Ent) (types : List Nat) : List Ent := idx.filter fun e => types.contains e.type

/-- `get_time_range(hint='remove_nans')` without bounds. -/
def removeUntimed (idx : List Ent) : List Ent := idx.filter fun e => e.time.isSome

def applyTypes (types : Option (List Nat)) (l : List Ent) : List Ent :=
  match types with | none => l | some ts => sliceByTypes l ts

def applyRange (range : Option TRange) (idx : List Ent) : Option (List Ent) :=
  match range with | none => some idx | some r => sliceByRange idx (t0Of idx) r

/-- Constructor filters: time range on the complete index first, then the message types.
`types = none`: all types; `range = none`: no time range. `none` = IndexError. -/
def construct (log : List Msg) (types : Option (List Nat)) (range : Option TRange) : Option (List Ent) :=
  (applyRange range (indexOf log)).map (applyTypes types)

/-- The other route to the same criteria: the reader is constructed with the message types only and the time
range is handed to `filter_in_place()` before the first read.  The index path of `filter_in_place` slices the
CURRENT index (`self.index = self.index[key]`), here the type-filtered one, with the `t0` the slices of the
complete index carry along; an empty current index is returned as it is (`__getitem__`: "No data available"). -/
def constructThenFilterTime (log : List Msg) (types : Option (List Nat)) (range : Option TRange) :
    Option (List Ent) :=
  match range with
  | none => some (applyTypes types (indexOf log))
  | some r => sliceByRange (applyTypes types (indexOf log)) (t0Of (indexOf log)) r

/-- Reading everything: per index entry the source test, the two `max_bytes` cuts (which end the read)
and `require_p1_time`. Returns ordinals. -/
def readAll (log : List Msg) (sources : Option (List Nat)) (maxBytes : Option Nat) (requireP1 : Bool) :
    List Ent → List Nat
  | [] => []
  | e :: es =>
    match log[e.ordinal]? with
    | none => readAll log sources maxBytes requireP1 es
    | some m =>
      if (match maxBytes with | some mb => decide (m.offset + 24 > mb) | none => false) then []
      else if (match sources with | some ss => !ss.contains m.src | none => false) then
        readAll log sources maxBytes requireP1 es
      else if (match maxBytes with | some mb => decide (m.offset + m.size > mb) | none => false) then []
      else if requireP1 && m.timeNs.isNone then readAll log sources maxBytes requireP1 es
      else e.ordinal :: readAll log sources maxBytes requireP1 es

/-! ### The reader as a cursor -/

structure Cur where
  orig : List Ent
  cur : List Ent
  next : Nat
  prevOff : Option Nat      -- `_prev_entry_offset_bytes`; none = -1
  deriving DecidableEq, Repr

inductive Op
  | readNext
  | filterTypes (ts : List Nat)
  | filterTime (r : TRange)
  | filterSlice (i j : Nat)
  | filterStride (i j k : Nat)
  | removeUntimed
  | clear
  | rewind
  | seek (i : Nat) (filtered : Bool)
  | seekEof
  deriving Repr

inductive Res
  | msg (ordinal : Nat)
  | stop
  | done
  | valueError
  | indexError
  deriving DecidableEq, Repr

/-- Every `k`-th entry, starting with the first (`index[i:j:k]` after the `i:j` part; `k = 0` is refused by
Python and is not sent by the harness; here it behaves as `k = 1`). -/
def stride (k : Nat) : List Ent → List Ent
  | [] => []
  | x :: xs => x :: stride k (xs.drop (k - 1))
termination_by l => l.length
decreasing_by simp only [List.length_drop, List.length_cons]; omega

/-- The repositioning at the end of `filter_in_place`: first entry after the last consumed offset. -/
def reposition (cur : List Ent) (prevOff : Option Nat) : Nat :=
  if cur.isEmpty then 0
  else match prevOff with
    | none => 0
    | some p => cur.findIdx fun e => decide (e.offset > p)

def Cur.init (orig : List Ent) : Cur := ⟨orig, orig, 0, none⟩

def Cur.withCur (s : Cur) (c : List Ent) : Cur := ⟨s.orig, c, reposition c s.prevOff, s.prevOff⟩

def step (s : Cur) : Op → Cur × Res
  | .readNext =>
    match s.cur[s.next]? with
    | none => (s, .stop)
    | some e => (⟨s.orig, s.cur, s.next + 1, some e.offset⟩, .msg e.ordinal)
  | .filterTypes ts => (s.withCur (sliceByTypes s.cur ts), .done)
  | .filterTime r =>
    match sliceByRange s.cur (t0Of s.orig) r with
    | none => (s, .indexError)
    | some c => (s.withCur c, .done)
  | .filterSlice i j => (s.withCur ((s.cur.take j).drop i), .done)
  | .filterStride i j k => (s.withCur (stride k ((s.cur.take j).drop i)), .done)
  | .removeUntimed => (s.withCur (removeUntimed s.cur), .done)
  | .clear => (s.withCur s.orig, .done)
  | .rewind => (⟨s.orig, s.cur, 0, none⟩, .done)
  | .seek i filtered =>
    if i ≥ (if filtered then s.cur.length else s.orig.length) then (s, .valueError)
    else
      (⟨s.orig, if filtered then s.cur else s.orig, i,
        if i = 0 then none else ((if filtered then s.cur else s.orig)[i - 1]?).map (·.offset)⟩, .done)
  | .seekEof =>
    if s.next = s.cur.length then (s, .done)
    else match s.cur.getLast? with
      | none => (⟨s.orig, s.cur, 0, s.prevOff⟩, .done)
      | some l => (⟨s.orig, s.cur, s.cur.length, some l.offset⟩, .done)

def run (s : Cur) : List Op → Cur × List Res
  | [] => (s, [])
  | op :: ops => ((run (step s op).1 ops).1, (step s op).2 :: (run (step s op).1 ops).2)

end Reader
end FeVerif
