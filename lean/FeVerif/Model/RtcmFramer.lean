/-
Literal model of `point_one::rtcm::RTCMFramer` (src/point_one/rtcm/rtcm_framer.cc, rtcm_framer.h).

* The framing buffer is the list `buf` of exactly `cap = capacity_bytes_` bytes that start at the
  (aligned) `buffer_`.  Every read or write of `buffer_[i]` goes through `touch`/`touchRange`/`wr`,
  which set the sticky flag `fault` as soon as an index `≥ cap` is used (and then continue with the
  byte 0 / without writing).  "Never accesses memory outside its buffer" is `fault = false`
  (`C14_rtcm_safe`); no default hides an access: every `getD` below is guarded by the flag.
* `uint32_t` counters wrap (`% 2^32`); `next_byte_index_`, `offset`, `available_bytes`,
  `current_message_size_` never exceed the capacity (`≤ 2^31 - 1`, shown as part of the invariant), so
  they are `Nat`.  `static_cast<int32_t>(current_message_size_)` is the identity because
  `current_message_size_ ≤ 1029` (also part of the invariant).  `total_message_size` of `Resync` (a
  `uint32_t`) is a sum of sizes of disjoint frames inside a window of at most `capacity_bytes_` bytes
  and the return value of `OnData` a `size_t`; both are `Nat`.
* Logging is compiled out in the harness build; `quiet` only selects `VLOG` vs `LOG(WARNING)`.
  The ghost counter `warnings` counts the `LOG(WARNING)` statements reached, so that the parameter
  has its source meaning.
* `State` has exactly the three enumerators of the source, so the "Impossible parsing state" branch of
  `OnByte` has no counterpart.
* A callback is always installed (`callback_ != nullptr`); what it is handed is recorded as
  `(message_type, the current_message_size_ bytes at buffer_)`.
-/
import FeVerif.Model.Crc24

namespace FeVerif.RtcmFramer

/-! ### State -/

inductive RState
  | sync | header | data
  deriving DecidableEq, Repr

def RState.toNat : RState → Nat
  | .sync => 0 | .header => 1 | .data => 2

/-- One invocation of the callback: `callback_(message_type, buffer_, current_message_size_)`. -/
structure RtcmCb where
  msgType : Nat
  frame : Bytes
  deriving DecidableEq, Repr

structure Rtcm where
  hasBuf : Bool      -- buffer_ != nullptr
  managed : Bool     -- is_buffer_managed_
  cap : Nat          -- capacity_bytes_
  buf : Bytes        -- the `cap` bytes at buffer_
  warn : Bool        -- warn_on_error_
  state : RState
  next : Nat         -- next_byte_index_
  cur : Nat          -- current_message_size_
  errors : Nat       -- error_count_
  decoded : Nat      -- decoded_msg_count_
  warnings : Nat     -- ghost: number of LOG(WARNING) statements reached
  fault : Bool       -- ghost: an index ≥ capacity_bytes_ has been read or written
  deriving DecidableEq, Repr

/-- What a function returns besides the new state: its return value and the callbacks it made. -/
structure ROut (α : Type) where
  s : Rtcm
  ret : α
  cbs : List RtcmCb

def U32 : Nat := 4294967296

/-- An access to `buffer_[i]`. -/
def Rtcm.touch (s : Rtcm) (i : Nat) : Rtcm :=
  if i < s.cap then s else { s with fault := true }

/-- An access to `buffer_[0 .. n)`. -/
def Rtcm.touchRange (s : Rtcm) (n : Nat) : Rtcm :=
  if n ≤ s.cap then s else { s with fault := true }

/-- The value read at `buffer_[i]` (the access itself is recorded by `touch`). -/
def Rtcm.rd (s : Rtcm) (i : Nat) : Byte := s.buf.getD i 0

/-- `buffer_[i] = b`. -/
def Rtcm.wr (s : Rtcm) (i : Nat) (b : Byte) : Rtcm :=
  if i < s.cap then { s with buf := s.buf.set i b } else { s with fault := true }

/-- `EndianSwap16(buffer_ + i)` : `(p[0] << 8) | p[1]`. -/
def Rtcm.be16 (s : Rtcm) (i : Nat) : Nat := ((s.rd i).toNat <<< 8) ||| (s.rd (i + 1)).toNat

/-- `EndianSwap24(buffer_ + i)` : `(p[0] << 16) | (p[1] << 8) | p[2]`. -/
def Rtcm.be24 (s : Rtcm) (i : Nat) : Nat :=
  ((s.rd i).toNat <<< 16) ||| ((s.rd (i + 1)).toNat <<< 8) ||| (s.rd (i + 2)).toNat

/-- Default-constructed framer (`RTCMFramer() = default`): no buffer. -/
def Rtcm.empty : Rtcm :=
  { hasBuf := false, managed := false, cap := 0, buf := [], warn := true, state := .sync, next := 0,
    cur := 0, errors := 0, decoded := 0, warnings := 0, fault := false }

/-- `Reset()`. -/
def Rtcm.reset (s : Rtcm) : Rtcm :=
  { s with state := .sync, next := 0, cur := 0, errors := 0, decoded := 0 }

/-- `WarnOnError(enabled)`. -/
def Rtcm.warnOnError (s : Rtcm) (enabled : Bool) : Rtcm := { s with warn := enabled }

/-- `ClearManagedBuffer()`: `delete[] buffer_; is_buffer_managed_ = false; buffer_ = nullptr`. -/
def Rtcm.clearManaged (s : Rtcm) : Rtcm :=
  if s.managed && s.hasBuf then { s with managed := false, hasBuf := false, buf := [] } else s

/-- `(addr + 3) & ~3`. -/
def alignUp4 (addr : Nat) : Nat := (addr + 3) / 4 * 4

/-- `if (capacity_bytes > 0x7FFFFFFF) capacity_bytes = 0x7FFFFFFF`. -/
def clampCapacity (c : Nat) : Nat := if c > 0x7FFFFFFF then 0x7FFFFFFF else c

/-- The tail of `SetBuffer`: `buffer_ = align(buffer)`,
`capacity_bytes_ = capacity_bytes - (buffer_ - buffer_unaligned)`, `Reset()`.
`fill` is the (unspecified) content of the memory at the aligned address. -/
def Rtcm.install (s : Rtcm) (addr capacity : Nat) (fill : Nat → Byte) : Rtcm :=
  ({ s with hasBuf := true, cap := capacity - (alignUp4 addr - addr),
            buf := (List.range (capacity - (alignUp4 addr - addr))).map fill }).reset

/-- `SetBuffer(buffer, capacity_bytes)`.
`buffer = none` is `nullptr`, `some a` a caller buffer at address `a`;
`allocAddr` is the address `new uint8_t[capacity_bytes]` returns if it is called. -/
def Rtcm.setBuffer (s : Rtcm) (buffer : Option Nat) (capacityBytes : Nat) (allocAddr : Nat)
    (fill : Nat → Byte) : Rtcm :=
  if capacityBytes < 6 then s   -- LOG(ERROR) "RTCM framing buffer too small"; return
  else match buffer with
    | none => ({ s.clearManaged with managed := true }).install allocAddr (clampCapacity capacityBytes) fill
    | some a => s.clearManaged.install a (clampCapacity capacityBytes) fill

/-- `RTCMFramer(buffer, capacity_bytes)` (`RTCMFramer(capacity)` is `buffer = none`):
an internal buffer is allocated 3 bytes larger (`size_t` arithmetic). -/
def Rtcm.construct (buffer : Option Nat) (capacityBytes : Nat) (allocAddr : Nat) (fill : Nat → Byte) : Rtcm :=
  match buffer with
  | none => Rtcm.empty.setBuffer none ((capacityBytes + 3) % 18446744073709551616) allocAddr fill
  | some a => Rtcm.empty.setBuffer (some a) capacityBytes allocAddr fill

/-! ### OnByte -/

/-- `header_byte_1_2_le & 0x3FF` -/
def Rtcm.payloadSize (s : Rtcm) : Nat := s.be16 1 &&& 0x3FF

/-- `check_size = current_message_size_ - RTCM_CRC_BYTES` (`size_t`). -/
def Rtcm.checkSize (s : Rtcm) : Nat :=
  if 3 ≤ s.cur then s.cur - 3 else s.cur + 18446744073709551616 - 3

/-- `error_count_++` and the `quiet ? VLOG(2) : LOG(WARNING)` that follows it. -/
def Rtcm.countError (s : Rtcm) (quiet : Bool) : Rtcm :=
  { s with errors := (s.errors + 1) % U32, warnings := if quiet then s.warnings else s.warnings + 1 }

/-- `state_ == State::SYNC` branch. -/
def onByteSync (s : Rtcm) (byte : Byte) : ROut Int :=
  if byte = 0xD3 then ⟨{ s with state := .header }, 0, []⟩
  else ⟨{ s with next := s.next - 1 }, 0, []⟩

/-- `state_ == State::HEADER` branch, header complete: the size is stored, then tested. -/
def onByteHeaderDone (s : Rtcm) (quiet : Bool) : ROut Int :=
  if s.cur ≤ s.cap ∧ s.cur ≤ 3 + 1023 + 3 then ⟨{ s with state := .data }, 0, []⟩
  else ⟨{ s.countError quiet with state := .sync }, -1, []⟩

/-- `state_ == State::HEADER` branch. -/
def onByteHeader (s : Rtcm) (quiet : Bool) : ROut Int :=
  if s.next = 3 then
    -- reads buffer_[1], buffer_[2]; current_message_size_ = payload_size_bytes + RTCM_OVERHEAD_BYTES
    onByteHeaderDone { (s.touch 1).touch 2 with cur := s.payloadSize + 6 } quiet
  else ⟨s, 0, []⟩

/-- `if (crc_check_needed)`: reads `buffer_[3..4]`, `buffer_[0..check_size)`, `buffer_[check_size..+3)`. -/
def onByteCrc (s : Rtcm) (quiet : Bool) : ROut Int :=
  if crc24Src (s.buf.take s.checkSize) = s.be24 s.checkSize then
    ⟨{ (((s.touch 3).touch 4).touchRange s.checkSize).touchRange (s.checkSize + 3) with
        decoded := (s.decoded + 1) % U32, state := .sync },
      Int.ofNat s.cur, [⟨s.be16 3 >>> 4, s.buf.take s.cur⟩]⟩
  else
    ⟨{ ((((s.touch 3).touch 4).touchRange s.checkSize).touchRange (s.checkSize + 3)).countError quiet with
        state := .sync }, -1, []⟩

/-- `state_ == State::DATA` branch. -/
def onByteData (s : Rtcm) (quiet : Bool) : ROut Int :=
  if s.next = s.cur then onByteCrc s quiet else ⟨s, 0, []⟩

/-- `OnByte(quiet)`: the byte is at `buffer_[next_byte_index_ - 1]`. -/
def onByte (s : Rtcm) (quiet : Bool) : ROut Int :=
  if s.hasBuf = false then ⟨s, 0, []⟩
  else if s.next = 0 then ⟨s, 0, []⟩      -- LOG(ERROR) "Byte not found in buffer."
  else
    match s.state with
    | .sync => onByteSync (s.touch (s.next - 1)) (s.rd (s.next - 1))
    | .header => onByteHeader (s.touch (s.next - 1)) (quiet || !s.warn)
    | .data => onByteData (s.touch (s.next - 1)) (quiet || !s.warn)

/-! ### Resync -/

/-- `memmove(buffer_, buffer_ + offset, n)`. -/
def Rtcm.memmove (s : Rtcm) (offset n : Nat) : Rtcm :=
  { s.touchRange (offset + n) with buf := (s.buf.drop offset).take n ++ s.buf.drop n }

/-- The variables of the `for` loop of `Resync()`; the loop variable is kept as `prev = offset - 1`
(the value before the `++offset` of the loop header), so `offset = prev + 1`. -/
structure RLoop where
  s : Rtcm
  prev : Nat
  available : Nat
  total : Nat

/-- From `next_byte_index_ = offset + 1; message_size = OnByte(true);` to the end of the loop body. -/
def resyncProcess (s : Rtcm) (offset available total : Nat) : RLoop × List RtcmCb :=
  (fun (r : ROut Int) =>
    if r.s.state = .sync then
      if r.ret > 0 then
        -- total_message_size += message_size; offset = message_size - 1; next_byte_index_ = 0
        (⟨{ r.s with next := 0 }, r.ret.toNat - 1, available, total + r.ret.toNat⟩, r.cbs)
      else
        -- offset = 0; next_byte_index_ = 0
        (⟨{ r.s with next := 0 }, 0, available, total⟩, r.cbs)
    else (⟨r.s, offset, available, total⟩, r.cbs))
  (onByte { s with next := offset + 1 } true)

/-- One execution of the loop body (with `offset = x.prev + 1 < x.available`). -/
def resyncIter (x : RLoop) : RLoop × List RtcmCb :=
  -- current_byte = buffer_[offset]
  if x.s.state = .sync then
    if x.s.rd (x.prev + 1) = 0xD3 then
      -- available_bytes -= offset; memmove(buffer_, buffer_ + offset, available_bytes); offset = 0
      resyncProcess ((x.s.touch (x.prev + 1)).memmove (x.prev + 1) (x.available - (x.prev + 1)))
        0 (x.available - (x.prev + 1)) x.total
    else (⟨x.s.touch (x.prev + 1), x.prev + 1, x.available, x.total⟩, [])   -- continue
  else resyncProcess (x.s.touch (x.prev + 1)) (x.prev + 1) x.available x.total

/-- Termination measure of the loop: `(available_bytes, not searching, available_bytes - offset)`. -/
def RLoop.phase (x : RLoop) : Nat := if x.s.state = .sync then 0 else 1

theorem resyncProcess_measure (s : Rtcm) (offset available total : Nat) :
    (resyncProcess s offset available total).1.available = available ∧
    ((resyncProcess s offset available total).1.s.state = .sync ∨
      ((resyncProcess s offset available total).1.prev = offset)) := by
  unfold resyncProcess
  simp only
  split
  · split <;> simp_all
  · simp_all

theorem resyncIter_decreases (x : RLoop) (h : x.prev + 1 < x.available) :
    Prod.Lex (· < ·) (Prod.Lex (· < ·) (· < ·))
      ((resyncIter x).1.available, (resyncIter x).1.phase, (resyncIter x).1.available - (resyncIter x).1.prev)
      (x.available, x.phase, x.available - x.prev) := by
  unfold resyncIter
  by_cases hs : x.s.state = .sync
  · simp only [hs, if_true]
    by_cases hb : x.s.rd (x.prev + 1) = 0xD3
    · simp only [hb, if_true]
      have := (resyncProcess_measure ((x.s.touch (x.prev + 1)).memmove (x.prev + 1) (x.available - (x.prev + 1)))
        0 (x.available - (x.prev + 1)) x.total).1
      apply Prod.Lex.left
      rw [this]; omega
    · simp only [hb, if_false]
      have hp : RLoop.phase ⟨x.s.touch (x.prev + 1), x.prev + 1, x.available, x.total⟩ = x.phase := by
        unfold RLoop.phase Rtcm.touch
        split <;> simp
      rw [hp]
      apply Prod.Lex.right
      apply Prod.Lex.right
      omega
  · simp only [hs, if_false]
    obtain ⟨h1, h2⟩ := resyncProcess_measure (x.s.touch (x.prev + 1)) (x.prev + 1) x.available x.total
    rw [h1]
    apply Prod.Lex.right
    have hx : x.phase = 1 := by unfold RLoop.phase; simp [hs]
    rcases h2 with h2 | h2
    · have : (resyncProcess (x.s.touch (x.prev + 1)) (x.prev + 1) x.available x.total).1.phase = 0 := by
        unfold RLoop.phase; simp [h2]
      rw [this, hx]
      apply Prod.Lex.left; omega
    · rw [h2]
      by_cases h3 : (resyncProcess (x.s.touch (x.prev + 1)) (x.prev + 1) x.available x.total).1.s.state = .sync
      · have : (resyncProcess (x.s.touch (x.prev + 1)) (x.prev + 1) x.available x.total).1.phase = 0 := by
          unfold RLoop.phase; simp [h3]
        rw [this, hx]
        apply Prod.Lex.left; omega
      · have : (resyncProcess (x.s.touch (x.prev + 1)) (x.prev + 1) x.available x.total).1.phase = 1 := by
          unfold RLoop.phase; simp [h3]
        rw [this, hx]
        apply Prod.Lex.right; omega

/-- `for (offset = 1; offset < available_bytes; ++offset) { body }`, entered with `offset - 1 = x.prev`. -/
def resyncLoop (x : RLoop) : ROut Nat :=
  if _h : x.prev + 1 < x.available then
    ⟨(resyncLoop (resyncIter x).1).s, (resyncLoop (resyncIter x).1).ret,
      (resyncIter x).2 ++ (resyncLoop (resyncIter x).1).cbs⟩
  else ⟨x.s, x.total, []⟩
termination_by (x.available, x.phase, x.available - x.prev)
decreasing_by
  all_goals exact resyncIter_decreases x (by assumption)

/-- `Resync()`: `available_bytes = next_byte_index_; state_ = SYNC; next_byte_index_ = 0; loop`. -/
def resync (s : Rtcm) : ROut Nat :=
  resyncLoop ⟨{ s with state := .sync, next := 0 }, 0, s.next, 0⟩

/-! ### OnData -/

/-- What `OnData` does with the result of `OnByte(false)`. -/
def onDataAfter (r : ROut Int) : ROut Nat :=
  if r.ret = 0 then ⟨r.s, 0, r.cbs⟩
  else if r.ret > 0 then ⟨{ r.s with next := 0 }, r.ret.toNat, r.cbs⟩
  else if r.s.next > 0 then
    ⟨(resync r.s).s, (resync r.s).ret, r.cbs ++ (resync r.s).cbs⟩
  else ⟨r.s, 0, r.cbs⟩

/-- One iteration of the loop of `OnData`: `buffer_[next_byte_index_++] = byte; OnByte(false); …`. -/
def onDataByte (s : Rtcm) (byte : Byte) : ROut Nat :=
  onDataAfter (onByte { s.wr s.next byte with next := s.next + 1 } false)

/-- The loop of `OnData` over the bytes of the call, accumulating `total_dispatched_bytes`. -/
def onDataLoop : Rtcm → Bytes → ROut Nat
  | s, [] => ⟨s, 0, []⟩
  | s, b :: bs =>
    ⟨(onDataLoop (onDataByte s b).s bs).s, (onDataByte s b).ret + (onDataLoop (onDataByte s b).s bs).ret,
      (onDataByte s b).cbs ++ (onDataLoop (onDataByte s b).s bs).cbs⟩

/-- `OnData(buffer, length_bytes)`. -/
def onData (s : Rtcm) (data : Bytes) : ROut Nat :=
  if s.hasBuf then onDataLoop s data else ⟨s, 0, []⟩

/-- A sequence of `OnData` calls: final state, the return values, all callbacks in order. -/
def rtcmFeed : Rtcm → List Bytes → Rtcm × List Nat × List RtcmCb
  | s, [] => (s, [], [])
  | s, d :: ds =>
    ((rtcmFeed (onData s d).s ds).1, (onData s d).ret :: (rtcmFeed (onData s d).s ds).2.1,
      (onData s d).cbs ++ (rtcmFeed (onData s d).s ds).2.2)

/-! ### The public interface as a whole -/

/-- One call of a public member function. -/
inductive RtcmOp
  | onData (data : Bytes)
  | reset
  | warnOnError (enabled : Bool)
  | setBuffer (buffer : Option Nat) (capacityBytes allocAddr : Nat) (fill : Nat → Byte)

def Rtcm.apply (s : Rtcm) : RtcmOp → Rtcm
  | .onData d => (onData s d).s
  | .reset => s.reset
  | .warnOnError e => s.warnOnError e
  | .setBuffer b c a f => s.setBuffer b c a f

/-- The states a framer object can be in: constructed by one of the three constructors, then any
sequence of public calls. -/
inductive RtcmReach : Rtcm → Prop
  | default : RtcmReach Rtcm.empty
  | construct (buffer : Option Nat) (capacityBytes allocAddr : Nat) (fill : Nat → Byte) :
      RtcmReach (Rtcm.construct buffer capacityBytes allocAddr fill)
  | call {s : Rtcm} (op : RtcmOp) : RtcmReach s → RtcmReach (s.apply op)

end FeVerif.RtcmFramer
