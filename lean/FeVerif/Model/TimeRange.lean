/-
Literal model of `TimeRange` (python/fusion_engine_client/utils/time_range.py).

Times are integers in an arbitrary fixed resolution (the harness uses quarter seconds, on which
the float arithmetic of the implementation is exact).  A bound handed to the constructor is
`None`, a number (finite or `+inf`) or a `Timestamp` object (valid or invalid); `-inf` and NaN
bounds are outside the model.  A message is reduced to what `is_in_range` looks at: whether it is
a `MessagePayload` and what `get_p1_time()` returns.

Mutation is state passing: every method returns the new object state.  `copy`/`deepcopy` are the
identity on states; which object is updated is visible in what the caller does with the result.
Core Lean only (linked into the driver).
-/
namespace FeVerif.TR

/-! ## values -/

/-- A float bound: a finite time or `+inf`. -/
inductive Ext
  | fin (v : Int)
  | inf
  deriving DecidableEq, Repr

/-- `c < x` for a finite `c`. -/
def Ext.above : Ext → Int → Bool
  | .fin v, c => decide (c < v)
  | .inf, _ => true

/-- `x += z` -/
def Ext.add : Ext → Int → Ext
  | .fin v, z => .fin (v + z)
  | .inf, _ => .inf

/-- `max(x, y)` -/
def Ext.max : Ext → Ext → Ext
  | .fin a, .fin b => if a < b then .fin b else .fin a
  | _, _ => .inf

/-- `math.isinf(x)` -/
def Ext.isInf : Ext → Bool
  | .inf => true
  | .fin _ => false

/-- What `is_in_range` can see of a message. -/
inductive Msg
  /-- not a `MessagePayload` (raw bytes, `None`, …): no timestamps are extracted -/
  | raw
  /-- a payload whose `get_p1_time()` is `None` (it may or may not carry a system time) -/
  | noP1
  /-- a payload whose P1 `Timestamp` is invalid (NaN) -/
  | invalidP1
  /-- a payload with a valid P1 time -/
  | p1 (t : Int)
  deriving DecidableEq, Repr

/-- `p1_time` of lines 221-228, as "valid value or nothing" (`bool(Timestamp)` is `not isnan`). -/
def Msg.p1? : Msg → Option Int
  | .p1 t => some t
  | _ => none

/-! ## the time accessors of a message

`MessagePayload.get_p1_time()` and `get_system_time_ns()` (python/fusion_engine_client/messages/defs.py), which
`is_in_range` calls to find out what kind of message it was handed, on the members they read. -/

/-- `SystemTimeSource` (messages/measurement_details.py): what the clock of `measurement_time` is. -/
inductive TimeSource
  | invalid
  | p1Time
  | timestampedOnReception
  | senderSystemTime
  | gpsTime
  deriving DecidableEq, Repr

/-- `MeasurementDetails`: its two `Timestamp` members (`none`: an invalid one, NaN) and the source of the first. -/
structure Details where
  measurementTime : Option Int
  source : TimeSource
  p1Time : Option Int
  deriving DecidableEq, Repr

/-- The object handed to `is_in_range`, reduced to the members the time accessors read. -/
inductive Obj
  /-- not a `MessagePayload` -/
  | raw
  /-- a payload whose `details` member is a `MeasurementDetails` (the sensor measurement messages) -/
  | meas (d : Details)
  /-- any other payload: its `p1_time` attribute (`none`: there is none, or it is `None`; `some none`: an invalid
  `Timestamp`) and its `system_time_ns` attribute (`none`: there is none) -/
  | plain (p1 : Option (Option Int)) (sys : Option Int)
  deriving DecidableEq, Repr

/-- `get_p1_time()`: `none` is Python's `None`, `some none` an invalid `Timestamp`.
For a message with measurement details: `measurement_time` when its source is P1 time, else `details.p1_time`. -/
def Obj.getP1Time : Obj → Option (Option Int)
  | .raw => none
  | .meas d => some (if d.source = .p1Time then d.measurementTime else d.p1Time)
  | .plain p1 _ => p1

/-- What `get_system_time_ns()` returns. -/
inductive SysTime
  /-- `None` -/
  | none
  /-- `numpy.nan` -/
  | nan
  /-- the `system_time_ns` attribute -/
  | ns (v : Int)
  /-- `float(measurement_time) * 1e9` for the measurement time `t` (in the resolution of the model) -/
  | ofTime (t : Int)
  deriving DecidableEq, Repr

/-- `get_system_time_ns()`: for a message with measurement details the measurement time when it was stamped on
reception (NaN when that `Timestamp` is invalid), else NaN; otherwise the `system_time_ns` attribute, if any. -/
def Obj.getSystemTimeNs : Obj → SysTime
  | .raw => .none
  | .meas d =>
    if d.source = .timestampedOnReception then
      match d.measurementTime with
      | some t => .ofTime t
      | none => .nan
    else .nan
  | .plain _ sys =>
    match sys with
    | some v => .ns v
    | none => .none

/-- Lines 221-228 of `is_in_range`: the `isinstance` test and the call of `get_p1_time()`. -/
def Obj.msg : Obj → Msg
  | .raw => .raw
  | .meas d =>
    match (Obj.meas d).getP1Time with
    | some (some t) => .p1 t
    | some none => .invalidP1
    | none => .noP1
  | .plain p1 sys =>
    match (Obj.plain p1 sys).getP1Time with
    | some (some t) => .p1 t
    | some none => .invalidP1
    | none => .noP1

/-- The only exception kind raised by this class. -/
inductive TRErr
  | valueError
  deriving DecidableEq, Repr

/-! ## the object -/

structure TimeRange where
  /-- `self.start` : `None`, or a float (possibly `inf`) -/
  start : Option Ext
  /-- `self.end` : `None` or a finite float (the constructor turns `inf` into `None`) -/
  stop : Option Int
  absolute : Bool
  /-- `self.p1_t0` : an invalid `Timestamp` is `none` -/
  t0 : Option Int
  /-- `self._range_specified` -/
  specified : Bool
  /-- `self._in_range_started` -/
  started : Bool
  /-- `self._in_range_ended` -/
  ended : Bool
  deriving DecidableEq, Repr

/-- A constructor argument for `start` / `end`. -/
inductive BoundArg
  | none
  | num (x : Ext)
  /-- a `Timestamp` object; `ts none` is an invalid one -/
  | ts (x : Option Ext)
  deriving DecidableEq, Repr

def BoundArg.isTs : BoundArg → Bool
  | .ts _ => true
  | _ => false

/-- lines 114-124: a `Timestamp` becomes its float value, an invalid one `None`. -/
def BoundArg.seconds : BoundArg → Option Ext
  | .none => Option.none
  | .num x => some x
  | .ts x => x

/-- lines 102-110 -/
def ctorAbsolute (start stop : BoundArg) : Option Bool → Bool
  | some b => b
  | Option.none => start.isTs || stop.isTs

/-- lines 127-128: `if self.start == 0.0 and self.absolute: self.start = None` -/
def normStart (s : Option Ext) (absolute : Bool) : Option Ext :=
  if s = some (.fin 0) ∧ absolute = true then none else s

/-- lines 130-131: `if self.end is not None and math.isinf(self.end): self.end = None` -/
def normStop : Option Ext → Option Int
  | some (.fin v) => some v
  | some .inf => none
  | none => none

/-- `TimeRange.__init__` -/
def TimeRange.new (start stop : BoundArg) (absolute : Option Bool) (t0 : Option Int) : TimeRange :=
  { start := normStart start.seconds (ctorAbsolute start stop absolute)
    stop := normStop stop.seconds
    absolute := ctorAbsolute start stop absolute
    t0 := t0
    specified := (normStart start.seconds (ctorAbsolute start stop absolute)).isSome || (normStop stop.seconds).isSome
    started := false
    ended := false }

/-- `restart()` -/
def TimeRange.restart (r : TimeRange) : TimeRange :=
  { r with started := false, ended := false }

/-- `is_specified()` -/
def TimeRange.isSpecified (r : TimeRange) : Bool := r.specified

/-- `in_range_started()` -/
def TimeRange.inRangeStarted (r : TimeRange) : Bool := r.started

/-! ## is_in_range -/

/-- `self.p1_t0` after lines 230-231 when the message has the valid P1 time `t`:
`if p1_time and not self.p1_t0: self.p1_t0 = Timestamp(p1_time)` (the value is stored; here values are all there is). -/
def TimeRange.t0After (r : TimeRange) (t : Int) : Int :=
  match r.t0 with
  | some z => z
  | none => t

/-- lines 224-231 -/
def TimeRange.extract (r : TimeRange) (m : Msg) : TimeRange :=
  match m.p1? with
  | some t => { r with t0 := some (r.t0After t) }
  | none => r

/-- lines 273-277 (after `extract`, so `p1_t0` is valid) -/
def TimeRange.cmpTime (r : TimeRange) (t : Int) : Int :=
  if r.absolute then t else t - r.t0After t

/-- `self.start is not None and comparison_time_sec < self.start` -/
def TimeRange.below (r : TimeRange) (c : Int) : Bool :=
  match r.start with
  | some s => s.above c
  | none => false

/-- `self.end is not None and comparison_time_sec >= self.end` -/
def TimeRange.beyond (r : TimeRange) (c : Int) : Bool :=
  match r.stop with
  | some e => decide (e ≤ c)
  | none => false

/-- lines 242-284: `in_range`, and `_in_range_ended` as left by that block (the branch for a P1 time at or
beyond the end latches it). -/
def TimeRange.test (r : TimeRange) (p : Option Int) : Bool × Bool :=
  if r.ended then (false, r.ended)
  else match p with
    | none => (if r.start.isNone then true else r.started, r.ended)
    | some t =>
      if r.below (r.cmpTime t) then (false, r.ended)
      else if r.beyond (r.cmpTime t) then (false, true)
      else (true, r.ended)

/-- lines 288-293 -/
def TimeRange.latch (r : TimeRange) (timed inRange ended : Bool) : TimeRange :=
  if inRange then { r with started := true, ended := ended }
  else if r.started && timed then { r with ended := true }
  else { r with ended := ended }

/-- `is_in_range(message, return_timestamps)`: the new state and the boolean result (the timestamps of the
tuple form are the extracted ones and carry no state).  The first shortcut (no range specified, no timestamps
asked for) is only taken once `p1_t0` is known: until then the message is still looked at, so that the first P1
time to arrive is recorded. -/
def TimeRange.isInRange (r : TimeRange) (retTs : Bool) (m : Msg) : TimeRange × Bool :=
  if r.specified = false ∧ retTs = false ∧ r.t0.isSome = true then ({ r with started := true }, true)
  else if r.specified = false then ({ r.extract m with started := true }, true)
  else ((r.extract m).latch m.p1?.isSome (r.test m.p1?).1 (r.test m.p1?).2, (r.test m.p1?).1)

/-- An event applied to a range object in a read loop. -/
inductive TREvent
  | msg (retTs : Bool) (m : Msg)
  | restart
  deriving DecidableEq, Repr

/-- Successive calls of `is_in_range`. -/
def TimeRange.run (r : TimeRange) (retTs : Bool) : List Msg → TimeRange × List Bool
  | [] => (r, [])
  | m :: ms => (((r.isInRange retTs m).1.run retTs ms).1, (r.isInRange retTs m).2 :: ((r.isInRange retTs m).1.run retTs ms).2)

/-- Calls of `is_in_range` interleaved with `restart()`; `none` marks a restart in the output. -/
def TimeRange.runEvents (r : TimeRange) : List TREvent → TimeRange × List (Option Bool)
  | [] => (r, [])
  | .msg retTs m :: es =>
    (((r.isInRange retTs m).1.runEvents es).1, some (r.isInRange retTs m).2 :: ((r.isInRange retTs m).1.runEvents es).2)
  | .restart :: es => ((r.restart.runEvents es).1, none :: (r.restart.runEvents es).2)

/-! ## make_absolute, intersect -/

/-- `make_absolute(p1_t0)` (in place; with `in_place=False` the same is done to a deep copy).  When it
raises nothing has been assigned. -/
def TimeRange.makeAbsolute (r : TimeRange) (p : Option Int) : Except TRErr TimeRange :=
  if r.absolute then .ok { r with t0 := if p.isSome ∧ r.t0.isNone then p else r.t0 }
  else match (if p.isSome ∧ r.t0.isNone then p else r.t0) with
    | none => .error .valueError
    | some z => .ok { r with t0 := some z, start := r.start.map (·.add z), stop := r.stop.map (· + z), absolute := true }

/-- lines 171-179 -/
def meetStart : Option Ext → Option Ext → Option Ext
  | none, y => y
  | some x, none => some x
  | some x, some y => some (x.max y)

def meetStop : Option Int → Option Int → Option Int
  | none, y => y
  | some x, none => some x
  | some x, some y => some (if y < x then y else x)

/-- lines 170-184: intersect the bounds, update the metadata. -/
def TimeRange.meet (a b : TimeRange) : TimeRange :=
  { a with
    start := meetStart a.start b.start
    stop := meetStop a.stop b.stop
    specified := (meetStart a.start b.start).isSome || (meetStop a.stop b.stop).isSome
    t0 := match a.t0 with
      | some z => some z
      | none => b.t0 }

/-- `self.intersect(other)`: the new state of `self` (of the deep copy when `in_place=False`); `other` is
never modified (the promotion works on a deep copy). -/
def TimeRange.intersect (a b : TimeRange) : Except TRErr TimeRange :=
  if a.absolute = true ∧ b.absolute = false then
    match b.makeAbsolute a.t0 with
    | .ok b' => .ok (a.meet b')
    | .error e => .error e
  else if a.absolute = false ∧ b.absolute = true then
    match a.makeAbsolute b.t0 with
    | .ok a' => .ok (a'.meet b)
    | .error e => .error e
  else .ok (a.meet b)

/-! ## parse (the part after `str.split(':')`; `float()` is external) -/

/-- Result of `float(s)` as far as `parse` distinguishes it. -/
inductive FloatVal
  | fin (v : Int)
  | inf
  | negInf
  deriving DecidableEq, Repr

/-- `_str_to_time` applied to a present part: `''` is `None`, a negative value is `None`, `float()` may raise. -/
def strToTime (flt : String → Option FloatVal) (s : String) : Except TRErr (Option Ext) :=
  if s = "" then .ok none
  else match flt s with
    | none => .error .valueError
    | some (.fin v) => .ok (if v < 0 then none else some (.fin v))
    | some .inf => .ok (some .inf)
    | some .negInf => .ok none

def optBound : Option Ext → BoundArg
  | none => .none
  | some x => .num x

/-- lines 357-365: the type specifier. -/
def parseType (parts : List String) (absolute : Option Bool) : Except TRErr (Option Bool) :=
  match parts with
  | [_, _, ty] =>
    if ty = "abs" then .ok (some true)
    else if ty = "rel" then .ok (some false)
    else .error .valueError
  | _ => if parts.length > 3 then .error .valueError else .ok absolute

/-- `TimeRange.parse(time_range, absolute)` for a string already split on `':'`.  The type specifier is
checked before the numbers are converted. -/
def TimeRange.parseParts (flt : String → Option FloatVal) (parts : List String) (absolute : Option Bool) :
    Except TRErr TimeRange :=
  match parseType parts absolute with
  | .error e => .error e
  | .ok ab =>
    match parts with
    | [] => .ok (TimeRange.new .none .none ab none)
    | [s] =>
      match strToTime flt s with
      | .error e => .error e
      | .ok s' => .ok (TimeRange.new (optBound s') .none ab none)
    | s :: e :: _ =>
      match strToTime flt s with
      | .error x => .error x
      | .ok s' =>
        match strToTime flt e with
        | .error x => .error x
        | .ok e' => .ok (TimeRange.new (optBound s') (optBound e') ab none)

/-- `TimeRange.parse(None, absolute)` -/
def TimeRange.parseNone (absolute : Option Bool) : TimeRange := TimeRange.new .none .none absolute none

end FeVerif.TR
