/-
`align` (the literal model of `DataLoader.time_align_data`) never raises and equals `specAlign`.
Core Lean only.
-/
import FeVerif.Model.Align

namespace FeVerif.Align

/-! ### sorted-dedup lists -/

theorem mem_insertSorted {x v : Int} {l : List Int} : v ∈ insertSorted x l ↔ v = x ∨ v ∈ l := by
  induction l with
  | nil => simp [insertSorted]
  | cons y ys ih =>
    unfold insertSorted
    split
    · simp
    · split
      · rename_i _ h; subst h; simp
      · simp [ih]; constructor <;> (intro h; rcases h with h | h | h <;> simp [h])

theorem insertSorted_pairwise {x : Int} {l : List Int} (h : l.Pairwise (· < ·)) :
    (insertSorted x l).Pairwise (· < ·) := by
  induction l with
  | nil => simp [insertSorted]
  | cons y ys ih =>
    unfold insertSorted
    rw [List.pairwise_cons] at h
    split
    · rename_i hxy
      refine List.pairwise_cons.2 ⟨?_, List.pairwise_cons.2 h⟩
      intro a ha
      rcases List.mem_cons.1 ha with rfl | ha
      · exact hxy
      · have := h.1 a ha; omega
    · split
      · exact List.pairwise_cons.2 h
      · rename_i h1 h2
        refine List.pairwise_cons.2 ⟨?_, ih h.2⟩
        intro a ha
        rcases mem_insertSorted.1 ha with rfl | ha
        · omega
        · exact h.1 a ha

theorem mem_sortDedup {v : Int} {l : List Int} : v ∈ sortDedup l ↔ v ∈ l := by
  induction l with
  | nil => simp [sortDedup]
  | cons y ys ih =>
    have : sortDedup (y :: ys) = insertSorted y (sortDedup ys) := rfl
    rw [this, mem_insertSorted, ih]; simp

theorem sortDedup_pairwise (l : List Int) : (sortDedup l).Pairwise (· < ·) := by
  induction l with
  | nil => simp [sortDedup]
  | cons y ys ih =>
    have : sortDedup (y :: ys) = insertSorted y (sortDedup ys) := rfl
    rw [this]; exact insertSorted_pairwise ih

/-- a strictly ascending list is determined by its set of members -/
theorem sorted_unique {a b : List Int} (ha : a.Pairwise (· < ·)) (hb : b.Pairwise (· < ·))
    (h : ∀ v, v ∈ a ↔ v ∈ b) : a = b := by
  induction a generalizing b with
  | nil =>
    cases b with
    | nil => rfl
    | cons y ys => exact absurd ((h y).2 (by simp)) (by simp)
  | cons x xs ih =>
    cases b with
    | nil => exact absurd ((h x).1 (by simp)) (by simp)
    | cons y ys =>
      rw [List.pairwise_cons] at ha hb
      have hxy : x = y := by
        have h1 := (h x).1 (by simp)
        have h2 := (h y).2 (by simp)
        rcases List.mem_cons.1 h1 with h1 | h1
        · exact h1
        · rcases List.mem_cons.1 h2 with h2 | h2
          · exact h2.symm
          · have := ha.1 y h2; have := hb.1 x h1; omega
      subst hxy
      congr 1
      apply ih ha.2 hb.2
      intro v
      constructor
      · intro hv
        have := (h v).1 (List.mem_cons_of_mem _ hv)
        rcases List.mem_cons.1 this with rfl | h3
        · have := ha.1 v hv; omega
        · exact h3
      · intro hv
        have := (h v).2 (List.mem_cons_of_mem _ hv)
        rcases List.mem_cons.1 this with rfl | h3
        · have := hb.1 v hv; omega
        · exact h3

theorem IsSortedSet.unique {a b : List Int} {P : Int → Prop} (ha : IsSortedSet a P) (hb : IsSortedSet b P) : a = b :=
  sorted_unique ha.1 hb.1 (fun v => (ha.2 v).trans (hb.2 v).symm)

theorem mem_valid {v : Int} {a : List Time} : v ∈ valid a ↔ some v ∈ a := by
  simp [valid, List.mem_filterMap]

/-! ### first-occurrence indices -/

theorem getElem?_idxOf_time (msgs : List Msg) (t : Time) :
    msgs[(msgs.map Msg.time).idxOf t]? = msgs.find? (fun m => m.time == t) := by
  induction msgs with
  | nil => simp
  | cons m ms ih =>
    rw [List.map_cons, List.idxOf_cons, List.find?_cons]
    cases h : (m.time == t) <;> simp [ih]

theorem getElem?_idxOf {t : Time} {U : List Time} (h : t ∈ U) : U[U.idxOf t]? = some t := by
  have hlt := List.idxOf_lt_length_of_mem h
  rw [List.getElem?_eq_getElem hlt, List.getElem_idxOf hlt]

theorem idxOf_of_getElem? {U : List Time} (hU : U.Pairwise (· ≠ ·)) {j : Nat} {t : Time}
    (h : U[j]? = some t) : U.idxOf t = j := by
  induction U generalizing j with
  | nil => simp at h
  | cons x xs ih =>
    rw [List.pairwise_cons] at hU
    cases j with
    | zero => simp at h; subst h; simp
    | succ j =>
      simp at h
      have hm : t ∈ xs := List.mem_of_getElem? h
      have hne : x ≠ t := hU.1 t hm
      rw [List.idxOf_cons]
      have : (x == t) = false := by simpa using hne
      rw [this]; simp [ih hU.2 h]

/-! ### `Except` plumbing -/

theorem mapM_ok {α β : Type} (f : α → Except AlignErr β) (g : α → β) (l : List α)
    (h : ∀ x ∈ l, f x = .ok (g x)) : l.mapM f = .ok (l.map g) := by
  induction l with
  | nil => rfl
  | cons a as ih =>
    rw [List.mapM_cons, h a (by simp), ih (fun x hx => h x (List.mem_cons_of_mem _ hx))]
    rfl

/-! ### the numpy models -/

/-- the values `np.intersect1d(a, b)` returns -/
def commonVals (a b : List Time) : List Int := (sortDedup (valid a)).filter fun v => b.contains (some v)

theorem mem_commonVals {a b : List Time} {v : Int} : v ∈ commonVals a b ↔ some v ∈ a ∧ some v ∈ b := by
  simp [commonVals, mem_sortDedup, mem_valid]

theorem commonVals_pairwise (a b : List Time) : (commonVals a b).Pairwise (· < ·) :=
  (sortDedup_pairwise _).filter _

theorem intersect_vals (a b : List Time) : (npIntersect1d a b).map Common.val = (commonVals a b).map some := by
  simp [npIntersect1d, commonVals, List.map_map, Function.comp_def]

theorem time_pick (msgs : List Msg) (t : Time) : (pick msgs t).time = t := by
  unfold pick
  split
  · rfl
  · split
    · rename_i v m h
      have := List.find?_some h
      simpa using this
    · rfl

theorem pick_of_mem {msgs : List Msg} {v : Int} (h : some v ∈ msgs.map Msg.time) :
    msgs.find? (fun m => m.time == some v) = some (pick msgs (some v)) := by
  unfold pick
  split
  · rename_i h'; cases h'
  · rename_i w heq
    cases heq
    split
    · rename_i m hm; exact hm
    · rename_i hnone
      rw [List.find?_eq_none] at hnone
      obtain ⟨m, hm, hmt⟩ := List.mem_map.1 h
      exact absurd (by simp [hmt]) (hnone m hm)

/-! ### DROP for one type -/

theorem dropMsgs_eq (msgs : List Msg) (ts : List Time) :
    dropMsgs msgs ts = .ok (((commonVals (msgs.map Msg.time) ts).map some).map (pick msgs)) := by
  unfold dropMsgs npIntersect1d
  rw [List.mapM_map]
  have := mapM_ok
    (fun v : Int => match msgs[(msgs.map Msg.time).idxOf (some v)]? with
      | some m => Except.ok m
      | none => Except.error AlignErr.indexError)
    (fun v => pick msgs (some v)) (commonVals (msgs.map Msg.time) ts) (by
      intro v hv
      have hm := (mem_commonVals.1 hv).1
      simp only [getElem?_idxOf_time, pick_of_mem hm])
  simp only [commonVals] at this ⊢
  rw [List.map_map]
  exact this

/-! ### INSERT for one type -/

theorem foldlM_assign (U p : List Time) (hU : U.Pairwise (· ≠ ·)) (W : List Int) (hW : ∀ w ∈ W, some w ∈ U)
    (acc : List (Option Nat)) (hlen : acc.length = U.length) :
    ∃ acc', (W.map fun v => ({ val := some v, ia := p.idxOf (some v), ib := U.idxOf (some v) } : Common)).foldlM assignIdx acc
        = .ok acc' ∧ acc'.length = U.length ∧
      (∀ (j : Nat) (v : Int), U[j]? = some (some v) → v ∈ W → acc'[j]? = some (some (p.idxOf (some v)))) ∧
      (∀ j : Nat, (∀ v : Int, U[j]? = some (some v) → v ∉ W) → acc'[j]? = acc[j]?) := by
  induction W generalizing acc with
  | nil => exact ⟨acc, rfl, hlen, by simp, by simp⟩
  | cons w W ih =>
    have hwU : some w ∈ U := hW w (by simp)
    have hk : U.idxOf (some w) < acc.length := hlen ▸ List.idxOf_lt_length_of_mem hwU
    obtain ⟨acc', h1, h2, h3, h4⟩ := ih (fun x hx => hW x (List.mem_cons_of_mem _ hx))
      (acc.set (U.idxOf (some w)) (some (p.idxOf (some w)))) (by simpa using hlen)
    refine ⟨acc', ?_, h2, ?_, ?_⟩
    · rw [List.map_cons, List.foldlM_cons]
      simp only [assignIdx, hk, if_true]
      exact h1
    · intro j v hj hv
      by_cases hvW : v ∈ W
      · exact h3 j v hj hvW
      · have hvw : v = w := by
          rcases List.mem_cons.1 hv with h | h
          · exact h
          · exact absurd h hvW
        subst hvw
        have hjk : U.idxOf (some v) = j := idxOf_of_getElem? hU hj
        rw [h4 j (by
          intro v' hv'
          rw [hj] at hv'
          cases hv'
          exact hvW)]
        rw [← hjk]
        exact List.getElem?_set_self hk
    · intro j hj
      have hne : U.idxOf (some w) ≠ j := by
        intro he
        have := getElem?_idxOf hwU
        rw [he] at this
        exact hj w this (by simp)
      rw [h4 j (fun v hv hvW => hj v hv (List.mem_cons_of_mem _ hvW))]
      exact List.getElem?_set_ne hne

theorem insertMsgs_eq (msgs : List Msg) (U : List Time) (hU : U.Pairwise (· ≠ ·)) :
    insertMsgs msgs U = .ok (U.map (pick msgs)) := by
  unfold insertMsgs messageIndices npIntersect1d
  obtain ⟨mi, h1, h2, h3, h4⟩ := foldlM_assign U (msgs.map Msg.time) hU
    ((sortDedup (valid (msgs.map Msg.time))).filter fun v => U.contains (some v))
    (by intro w hw; simpa using (List.mem_filter.1 hw).2)
    (List.replicate U.length none) (by simp)
  rw [h1]
  simp only
  have hg := mapM_ok (getValue msgs U mi)
    (fun i => match U[i]? with | some t => pick msgs t | none => Msg.fab none) (List.range U.length) (by
      intro i hi
      have hi : i < U.length := List.mem_range.1 hi
      have hUi : U[i]? = some U[i] := List.getElem?_eq_getElem hi
      rw [hUi]
      simp only
      cases ht : U[i] with
      | none =>
        have hmi : mi[i]? = some none := by
          rw [h4 i (by intro v hv; rw [hUi, ht] at hv; cases hv)]
          simp [hi]
        simp only [getValue, hmi, hUi, ht, pick]
      | some v =>
        by_cases hv : some v ∈ msgs.map Msg.time
        · have hvW : v ∈ (sortDedup (valid (msgs.map Msg.time))).filter fun v => U.contains (some v) := by
            have hm : some v ∈ U := by rw [← ht]; exact List.getElem_mem hi
            simp only [List.mem_filter, mem_sortDedup, mem_valid, List.contains_iff_mem]
            simp only [List.mem_map] at hv
            simpa using ⟨hv, hm⟩
          have hmi := h3 i v (by rw [hUi, ht]) hvW
          simp only [getValue, hmi, getElem?_idxOf_time, pick_of_mem hv]
        · have hmi : mi[i]? = some none := by
            rw [h4 i (by
              intro v' hv' hW
              rw [hUi, ht] at hv'
              cases hv'
              have := (List.mem_filter.1 hW).1
              rw [mem_sortDedup, mem_valid] at this
              exact hv this)]
            simp [hi]
          have hfind : msgs.find? (fun m => m.time == some v) = none := by
            rw [List.find?_eq_none]
            intro m hm hmt
            exact hv (List.mem_map.2 ⟨m, hm, by simpa using hmt⟩)
          simp only [getValue, hmi, hUi, ht, pick, hfind])
  rw [hg]
  congr 1
  apply List.ext_getElem
  · simp
  · intro i h1 h2
    simp at h1
    simp [List.getElem?_eq_getElem h1]

/-! ### the common time axis -/

theorem Time.ne_of_lt {a b : Time} (h : Time.lt a b) : a ≠ b := by
  intro e; subst e
  cases a with
  | none => exact h
  | some v => exact absurd h (Int.lt_irrefl v)

theorem npUnique_pairwise (a : List Time) : (npUnique a).Pairwise Time.lt := by
  unfold npUnique
  rw [List.pairwise_append]
  refine ⟨?_, ?_, ?_⟩
  · rw [List.pairwise_map]; exact sortDedup_pairwise _
  · split <;> simp
  · intro x hx y hy
    obtain ⟨v, _, rfl⟩ := List.mem_map.1 hx
    split at hy
    · simp at hy; subst hy; trivial
    · simp at hy

theorem npUnique_nodup (a : List Time) : (npUnique a).Pairwise (· ≠ ·) :=
  (npUnique_pairwise a).imp Time.ne_of_lt

theorem foldl_drop (es : List Entry) (s : List Time) :
    ∃ s', es.foldl (fun ts e => timeStep .drop ts (p1Times e)) (some s) = some s' ∧
      ∀ v : Int, some v ∈ s' ↔ some v ∈ s ∧ ∀ e ∈ es, some v ∈ p1Times e := by
  induction es generalizing s with
  | nil => exact ⟨s, rfl, by simp⟩
  | cons e es ih =>
    obtain ⟨s', h1, h2⟩ := ih ((npIntersect1d s (p1Times e)).map Common.val)
    refine ⟨s', by simpa [timeStep] using h1, ?_⟩
    intro v
    rw [h2, intersect_vals]
    simp only [List.mem_map, Option.some.injEq, exists_eq_right, mem_commonVals, List.mem_cons, forall_eq_or_imp]
    exact and_assoc

theorem foldl_insert (es : List Entry) (s : List Time) :
    es.foldl (fun ts e => timeStep .insert ts (p1Times e)) (some s) = some (s ++ es.flatMap p1Times) := by
  induction es generalizing s with
  | nil => simp
  | cons e es ih =>
    rw [List.foldl_cons]
    have : timeStep .insert (some s) (p1Times e) = some (s ++ p1Times e) := rfl
    rw [this, ih]; simp

theorem timeSet_of_nil {mode : Mode} {req : Option (List Nat)} {data : List Entry}
    (h : data.filter (selected req) = []) : timeSet mode req data = none := by
  simp [timeSet, h]

theorem timeSet_of_cons {mode : Mode} {req : Option (List Nat)} {data : List Entry} {e0 : Entry} {es : List Entry}
    (h : data.filter (selected req) = e0 :: es) :
    timeSet mode req data = es.foldl (fun ts e => timeStep mode ts (p1Times e)) (some (p1Times e0)) := by
  simp [timeSet, h, timeStep]

/-- the valid part of the DROP axis, as a list of integers -/
def dropVals (e0 : Entry) (es : List Entry) : List Int :=
  (sortDedup (valid (p1Times e0))).filter fun v => es.all fun e' => (p1Times e').contains (some v)

theorem mem_dropVals {e0 : Entry} {es : List Entry} {v : Int} :
    v ∈ dropVals e0 es ↔ ∀ e ∈ e0 :: es, some v ∈ p1Times e := by
  simp [dropVals, mem_sortDedup, mem_valid]

theorem dropVals_pairwise (e0 : Entry) (es : List Entry) : (dropVals e0 es).Pairwise (· < ·) :=
  (sortDedup_pairwise _).filter _

theorem specTimes_drop {req : Option (List Nat)} {data : List Entry} {e0 : Entry} {es : List Entry}
    (h : data.filter (selected req) = e0 :: es) : specTimes .drop req data = (dropVals e0 es).map some := by
  simp [specTimes, h, dropVals]

/-! ### the whole operation -/

theorem realign_eq (mode : Mode) (req : Option (List Nat)) (data : List Entry) (ts : List Time)
    (hts : timeSet mode req data = some ts) (e : Entry) (he : e ∈ data) (hsel : selected req e = true) :
    realign mode ts e.msgs = .ok ((specTimes mode req data).map (pick e.msgs)) := by
  cases hf : data.filter (selected req) with
  | nil => rw [timeSet_of_nil hf] at hts; cases hts
  | cons e0 es =>
    have hmem : e ∈ e0 :: es := by rw [← hf]; exact List.mem_filter.2 ⟨he, hsel⟩
    rw [timeSet_of_cons hf] at hts
    cases mode with
    | drop =>
      obtain ⟨s', h1, h2⟩ := foldl_drop es (p1Times e0)
      rw [h1] at hts; cases hts
      simp only [realign]
      rw [dropMsgs_eq, specTimes_drop hf]
      congr 3
      apply sorted_unique (commonVals_pairwise _ _) (dropVals_pairwise _ _)
      intro v
      rw [mem_commonVals, mem_dropVals, h2]
      constructor
      · rintro ⟨_, h0, hes⟩ x hx
        rcases List.mem_cons.1 hx with rfl | hx
        · exact h0
        · exact hes x hx
      · intro hall
        exact ⟨hall e hmem, hall e0 (by simp), fun x hx => hall x (List.mem_cons_of_mem _ hx)⟩
    | insert =>
      rw [foldl_insert] at hts; cases hts
      simp only [realign]
      rw [insertMsgs_eq _ _ (npUnique_nodup _)]
      simp [specTimes, hf]

/-- The model never raises and computes exactly the specification. -/
theorem align_eq_spec (mode : Mode) (req : Option (List Nat)) (data : List Entry) :
    align mode req data = .ok (specAlign mode req data) := by
  unfold align specAlign
  cases hts : timeSet mode req data with
  | none =>
    simp only
    congr 1
    have hnil : data.filter (selected req) = [] := by
      cases hf : data.filter (selected req) with
      | nil => rfl
      | cons e0 es =>
        rw [timeSet_of_cons hf] at hts
        cases mode with
        | drop => obtain ⟨s', h1, _⟩ := foldl_drop es (p1Times e0); rw [h1] at hts; cases hts
        | insert => rw [foldl_insert] at hts; cases hts
    symm
    have : ∀ e ∈ data, (if selected req e = true then
        ({ e with msgs := (specTimes mode req data).map (pick e.msgs) } : Entry) else e) = id e := by
      intro e he
      have : selected req e = false := by
        cases hs : selected req e with
        | false => rfl
        | true => exact absurd (List.mem_filter.2 ⟨he, hs⟩) (by simp [hnil])
      simp [this]
    rw [List.map_congr_left this, List.map_id]
  | some ts =>
    simp only
    apply mapM_ok
    intro e he
    cases hs : selected req e with
    | false => simp
    | true =>
      simp only [if_true]
      rw [realign_eq mode req data ts hts e he hs]

/-! ### reading the specification -/

theorem mem_zip_map {α β : Type} {f : α → β} {l : List α} {a : α} {b : β} (h : (a, b) ∈ l.zip (l.map f)) :
    a ∈ l ∧ b = f a := by
  induction l with
  | nil => simp at h
  | cons x xs ih =>
    simp only [List.map_cons, List.zip_cons_cons, List.mem_cons, Prod.mk.injEq] at h
    rcases h with ⟨rfl, rfl⟩ | h
    · simp
    · exact ⟨List.mem_cons_of_mem _ (ih h).1, (ih h).2⟩

theorem specAlign_pair {mode : Mode} {req : Option (List Nat)} {d : List Entry} {e e' : Entry}
    (h : (e, e') ∈ d.zip (specAlign mode req d)) :
    e ∈ d ∧ e' = if selected req e then { e with msgs := (specTimes mode req d).map (pick e.msgs) } else e :=
  mem_zip_map (f := fun e : Entry =>
    if selected req e then ({ e with msgs := (specTimes mode req d).map (pick e.msgs) } : Entry) else e) h

theorem times_map_pick (msgs : List Msg) (ts : List Time) : (ts.map (pick msgs)).map Msg.time = ts := by
  rw [List.map_map]
  conv => rhs; rw [← List.map_id ts]
  apply List.map_congr_left
  intro t _
  exact time_pick msgs t

theorem specTimes_drop_sortedSet {req : Option (List Nat)} {d : List Entry} {e : Entry} (he : e ∈ d)
    (hs : selected req e = true) :
    ∃ T : List Int, specTimes .drop req d = T.map some ∧ IsSortedSet T (InAll req d) := by
  cases hf : d.filter (selected req) with
  | nil => exact absurd (List.mem_filter.2 ⟨he, hs⟩) (by simp [hf])
  | cons e0 es =>
    refine ⟨dropVals e0 es, specTimes_drop hf, dropVals_pairwise _ _, ?_⟩
    intro v
    rw [mem_dropVals, ← hf]
    simp only [List.mem_filter, InAll]
    constructor
    · intro h x hx hsx; exact h x ⟨hx, hsx⟩
    · intro h x hx; exact h x hx.1 hx.2

theorem specTimes_insert_sortedSet (req : Option (List Nat)) (d : List Entry) :
    ∃ T : List Int, IsSortedSet T (InSome req d) ∧
      ((¬ AnyNaN req d ∧ specTimes .insert req d = T.map some) ∨
       (AnyNaN req d ∧ specTimes .insert req d = T.map some ++ [none])) := by
  refine ⟨sortDedup (valid ((d.filter (selected req)).flatMap p1Times)), ⟨sortDedup_pairwise _, ?_⟩, ?_⟩
  · intro v
    rw [mem_sortDedup, mem_valid, List.mem_flatMap]
    simp only [List.mem_filter, InSome]
    constructor
    · rintro ⟨x, ⟨hx, hsx⟩, hv⟩; exact ⟨x, hx, hsx, hv⟩
    · rintro ⟨x, hx, hsx, hv⟩; exact ⟨x, ⟨hx, hsx⟩, hv⟩
  · have hnan : AnyNaN req d ↔ none ∈ (d.filter (selected req)).flatMap p1Times := by
      rw [List.mem_flatMap]
      simp only [List.mem_filter, AnyNaN]
      constructor
      · rintro ⟨x, hx, hsx, hv⟩; exact ⟨x, ⟨hx, hsx⟩, hv⟩
      · rintro ⟨x, ⟨hx, hsx⟩, hv⟩; exact ⟨x, hx, hsx, hv⟩
    by_cases hn : none ∈ (d.filter (selected req)).flatMap p1Times
    · right
      refine ⟨hnan.2 hn, ?_⟩
      simp only [specTimes, npUnique]
      rw [if_pos (List.contains_iff_mem.2 hn)]
    · left
      refine ⟨fun h => hn (hnan.1 h), ?_⟩
      simp only [specTimes, npUnique]
      rw [if_neg (fun h => hn (List.contains_iff_mem.1 h))]
      simp

theorem specTimes_pairwise (mode : Mode) (req : Option (List Nat)) (d : List Entry) :
    (specTimes mode req d).Pairwise Time.lt := by
  cases mode with
  | insert => exact npUnique_pairwise _
  | drop =>
    cases hf : d.filter (selected req) with
    | nil => simp [specTimes, hf]
    | cons e0 es =>
      rw [specTimes_drop hf, List.pairwise_map]
      exact dropVals_pairwise e0 es

theorem pick_spec (msgs : List Msg) (t : Time) :
    (∃ v, t = some v ∧ msgs.find? (fun m => m.time == some v) = some (pick msgs t)) ∨
    (pick msgs t = .fab t ∧ (t = none ∨ t ∉ msgs.map Msg.time)) := by
  cases t with
  | none => right; exact ⟨rfl, Or.inl rfl⟩
  | some v =>
    by_cases hv : some v ∈ msgs.map Msg.time
    · left; exact ⟨v, rfl, pick_of_mem hv⟩
    · right
      have hfind : msgs.find? (fun m => m.time == some v) = none := by
        rw [List.find?_eq_none]
        intro m hm hmt
        exact hv (List.mem_map.2 ⟨m, hm, by simpa using hmt⟩)
      refine ⟨?_, Or.inr hv⟩
      simp only [pick, hfind]

end FeVerif.Align
