/-
Lemmas about `trunc`, `fmod` and `wrapAngle` of `Model/Angle.lean` over the rationals.
-/
import FeVerif.Spec.Angle
import Mathlib.Algebra.Order.Field.Rat
import Mathlib.Algebra.Order.Field.Basic
import Mathlib.Tactic.Ring
import Mathlib.Tactic.Linarith
import Mathlib.Tactic.FieldSimp
import Mathlib.Tactic.NormNum

namespace FeVerif.Angle

/-- `trunc q` lies between `0` and `q` and within one of `q`. -/
theorem trunc_nonneg {q : Rat} (h : 0 ≤ q) : (trunc q : Rat) ≤ q ∧ q < (trunc q : Rat) + 1 := by
  have h1 := Rat.floor_le q
  have h2 := Rat.lt_floor_add_one q
  simp only [trunc, h, if_true]
  refine ⟨h1, ?_⟩
  push_cast at h2
  exact h2

theorem trunc_neg {q : Rat} (h : q < 0) : q ≤ (trunc q : Rat) ∧ (trunc q : Rat) - 1 < q := by
  have h1 := @Rat.le_ceil q
  have h2 := @Rat.ceil_lt q
  have hn : ¬ (0 ≤ q) := not_le.mpr h
  simp only [trunc, hn, if_false]
  exact ⟨h1, by linarith⟩

theorem fmod_eq (x y : Rat) : fmod x y = x - y * (trunc (x / y) : Rat) := rfl

/-- `fmod` of a non-negative dividend by a positive divisor lies in `[0, y)`. -/
theorem fmod_nonneg_range {x y : Rat} (hy : 0 < y) (hx : 0 ≤ x) : 0 ≤ fmod x y ∧ fmod x y < y := by
  have hq : 0 ≤ x / y := div_nonneg hx hy.le
  obtain ⟨h1, h2⟩ := trunc_nonneg hq
  have hxy : x = y * (x / y) := by field_simp
  rw [fmod_eq]
  constructor
  · have : y * (trunc (x / y) : Rat) ≤ y * (x / y) := mul_le_mul_of_nonneg_left h1 hy.le
    linarith
  · have : y * (x / y) < y * ((trunc (x / y) : Rat) + 1) := mul_lt_mul_of_pos_left h2 hy
    linarith

/-- `fmod` of a negative dividend by a positive divisor lies in `(-y, 0]` (sign of the dividend). -/
theorem fmod_neg_range {x y : Rat} (hy : 0 < y) (hx : x < 0) : -y < fmod x y ∧ fmod x y ≤ 0 := by
  have hq : x / y < 0 := div_neg_of_neg_of_pos hx hy
  obtain ⟨h1, h2⟩ := trunc_neg hq
  have hxy : x = y * (x / y) := by field_simp
  rw [fmod_eq]
  constructor
  · have : y * ((trunc (x / y) : Rat) - 1) < y * (x / y) := mul_lt_mul_of_pos_left h2 hy
    linarith
  · have : y * (x / y) ≤ y * (trunc (x / y) : Rat) := mul_le_mul_of_nonneg_left h1 hy.le
    linarith

theorem fmod_abs_lt {x y : Rat} (hy : 0 < y) : -y < fmod x y ∧ fmod x y < y := by
  rcases le_or_gt 0 x with hx | hx
  · obtain ⟨h1, h2⟩ := fmod_nonneg_range hy hx
    exact ⟨by linarith, h2⟩
  · obtain ⟨h1, h2⟩ := fmod_neg_range hy hx
    exact ⟨h1, by linarith⟩

/-- Scaling dividend and divisor by the same non-zero factor scales the remainder. -/
theorem fmod_scale {c : Rat} (hc : c ≠ 0) (x y : Rat) : fmod (c * x) (c * y) = c * fmod x y := by
  rw [fmod_eq, fmod_eq, mul_div_mul_left x y hc]
  ring

theorem wrapAngle_range {a T : Rat} (hT : 0 < T) : 0 ≤ wrapAngle a T ∧ wrapAngle a T < T := by
  have h := (fmod_abs_lt (x := a) hT).1
  exact fmod_nonneg_range hT (by linarith)

theorem wrapAngle_congr (a T : Rat) : ∃ k : Int, wrapAngle a T = a + T * (k : Rat) := by
  refine ⟨1 - trunc (a / T) - trunc ((fmod a T + T) / T), ?_⟩
  simp only [wrapAngle]
  rw [fmod_eq (fmod a T + T) T, fmod_eq a T]
  push_cast
  ring

theorem wrapAngle_scale {c : Rat} (hc : c ≠ 0) (a T : Rat) : wrapAngle (c * a) (c * T) = c * wrapAngle a T := by
  simp only [wrapAngle]
  rw [fmod_scale hc a T, ← mul_add, fmod_scale hc]

/-- Two numbers in the same half-open interval of length `T` that differ by a multiple of `T` are equal. -/
theorem eq_of_congr_of_range {a b lo T : Rat} {k : Int} (hT : 0 < T) (ha : lo ≤ a ∧ a < lo + T)
    (hb : lo ≤ b ∧ b < lo + T) (h : a = b + T * (k : Rat)) : a = b := by
  have h1 : T * (k : Rat) < T * 1 := by linarith [ha.2, hb.1]
  have h2 : T * (-1) < T * (k : Rat) := by linarith [ha.1, hb.2]
  have h3 : (k : Rat) < 1 := lt_of_mul_lt_mul_left h1 hT.le
  have h4 : (-1 : Rat) < (k : Rat) := lt_of_mul_lt_mul_left h2 hT.le
  have h5 : k < 1 := by exact_mod_cast h3
  have h6 : -1 < k := by exact_mod_cast h4
  have h7 : k = 0 := by omega
  rw [h, h7]
  simp

/-- Evaluation lemma: the truncation of a value in `(-1, 1)` is `0`. -/
theorem trunc_eq_zero {q : Rat} (h1 : -1 < q) (h2 : q < 1) : trunc q = 0 := by
  rcases le_or_gt 0 q with hq | hq
  · obtain ⟨a, b⟩ := trunc_nonneg hq
    have a' : (trunc q : Rat) < 1 := by linarith
    have b' : (-1 : Rat) < (trunc q : Rat) := by linarith
    have : trunc q < 1 := by exact_mod_cast a'
    have : -1 < trunc q := by exact_mod_cast b'
    omega
  · obtain ⟨a, b⟩ := trunc_neg hq
    have a' : (trunc q : Rat) < 1 := by linarith
    have b' : (-1 : Rat) < (trunc q : Rat) := by linarith
    have : trunc q < 1 := by exact_mod_cast a'
    have : -1 < trunc q := by exact_mod_cast b'
    omega

/-! ### Rounded arithmetic -/

theorem wrapAngleR_range (R : Rounding) (h0 : R.rep 0) {a T : Rat} (hT : 0 < T) :
    0 ≤ wrapAngleR R.rnd a T ∧ wrapAngleR R.rnd a T < T := by
  have h := (fmod_abs_lt (x := a) hT).1
  have h1 : R.rnd 0 ≤ R.rnd (fmod a T + T) := R.mono (by linarith)
  rw [R.fix h0] at h1
  exact fmod_nonneg_range hT h1

theorem wrapAngleR_rep (R : Rounding) {T : Rat} (hT : R.rep T) (a : Rat) : R.rep (wrapAngleR R.rnd a T) :=
  R.rep_fmod (R.rep_rnd _) hT

/-! ### binary64 facts -/

theorem isDouble_zero : IsDouble 0 := ⟨0, 0, by norm_num, Or.inr ⟨by norm_num, by norm_num⟩⟩

theorem isDouble_360 : IsDouble 360 := ⟨360, 0, by norm_num, Or.inr ⟨by norm_num, by norm_num⟩⟩

theorem isDouble_neg_180 : IsDouble (-180) := ⟨-180, 0, by norm_num, Or.inr ⟨by norm_num, by norm_num⟩⟩

/-- the double just below 180 -/
theorem isDouble_pred_180 : IsDouble (180 - 1 / 2 ^ 45) :=
  ⟨180 * 2 ^ 45 - 1, 45, by norm_num, Or.inl ⟨by norm_num, by norm_num⟩⟩

/-- Doubles in `[256, 512)` are spaced `2^-44` apart: a double below 360 is at most `360 - 2^-44`. -/
theorem isDouble_lt_360 {w : Rat} (hw : IsDouble w) (h : w < 360) : w ≤ 360 - 1 / 2 ^ 44 := by
  rcases lt_or_ge w 256 with hlt | hge
  · have : (256 : Rat) ≤ 360 - 1 / 2 ^ 44 := by norm_num
    linarith
  obtain ⟨m, k, hm, ⟨hk, rfl⟩ | ⟨hk, rfl⟩⟩ := hw
  · -- w = m / 2^k
    have hP : (0 : Rat) < ((2 ^ k : Nat) : Rat) := by positivity
    have h1 : (256 : Rat) * ((2 ^ k : Nat) : Rat) ≤ (m : Rat) := (le_div_iff₀ hP).mp hge
    have h1' : (256 : Int) * ((2 ^ k : Nat) : Int) ≤ m := by exact_mod_cast h1
    have hm' : m < 2 ^ 53 := by omega
    have h2 : (2 : Nat) ^ k < 2 ^ 45 := by
      have : (256 : Int) * ((2 ^ k : Nat) : Int) < 2 ^ 53 := lt_of_le_of_lt h1' hm'
      have e : (2 : Int) ^ 53 = 256 * 2 ^ 45 := by norm_num
      rw [e] at this
      have : ((2 ^ k : Nat) : Int) < 2 ^ 45 := lt_of_mul_lt_mul_left this (by norm_num)
      exact_mod_cast this
    have hk45 : k < 45 := (Nat.pow_lt_pow_iff_right (by norm_num : 1 < 2)).mp h2
    have hP44 : ((2 ^ k : Nat) : Rat) ≤ 2 ^ 44 := by
      have : (2 : Nat) ^ k ≤ 2 ^ 44 := Nat.pow_le_pow_right (by norm_num) (by omega)
      exact_mod_cast this
    have h3 : (m : Rat) < 360 * ((2 ^ k : Nat) : Rat) := (div_lt_iff₀ hP).mp h
    have h3' : m < 360 * ((2 ^ k : Nat) : Int) := by exact_mod_cast h3
    have h4 : m ≤ 360 * ((2 ^ k : Nat) : Int) - 1 := by omega
    have h4' : (m : Rat) ≤ 360 * ((2 ^ k : Nat) : Rat) - 1 := by exact_mod_cast h4
    have h5 : (m : Rat) / ((2 ^ k : Nat) : Rat) ≤ 360 - 1 / ((2 ^ k : Nat) : Rat) := by
      rw [div_le_iff₀ hP, sub_mul, one_div, inv_mul_cancel₀ hP.ne']
      exact h4'
    have h6 : (1 : Rat) / 2 ^ 44 ≤ 1 / ((2 ^ k : Nat) : Rat) := one_div_le_one_div_of_le hP hP44
    linarith
  · -- w = m * 2^k is an integer
    have h3 : m * ((2 ^ k : Nat) : Int) < 360 := by exact_mod_cast h
    have h4 : m * ((2 ^ k : Nat) : Int) ≤ 359 := by omega
    have h4' : (m : Rat) * ((2 ^ k : Nat) : Rat) ≤ 359 := by exact_mod_cast h4
    have : (359 : Rat) ≤ 360 - 1 / 2 ^ 44 := by norm_num
    linarith

end FeVerif.Angle
