/-
C03 — decision procedures for the relations of Spec/C03.lean (so that the kernel can decide them over the
generated tables) and the injectivity of the name encoding (one Mathlib module: reverse induction on lists).
-/
import FeVerif.Spec.C03
import Mathlib.Data.List.Induction

namespace FeVerif.C03

instance decSameMembers (a b : Members) : Decidable (SameMembers a b) :=
  decidable_of_iff ((∀ x ∈ a, x ∈ b) ∧ (∀ x ∈ b, x ∈ a))
    ⟨fun h nv => ⟨h.1 nv, h.2 nv⟩, fun h => ⟨fun x hx => (h x).1 hx, fun x hx => (h x).2 hx⟩⟩

/-- `∃ c q, A = some c ∧ B = some q ∧ P c q` is decided by looking at `A` and `B`. -/
instance decExSome {α β : Type} (A : Option α) (B : Option β) (P : α → β → Prop) [∀ c q, Decidable (P c q)] :
    Decidable (∃ c q, A = some c ∧ B = some q ∧ P c q) :=
  match A, B with
  | some c, some q =>
    if h : P c q then isTrue ⟨c, q, rfl, rfl, h⟩
    else isFalse (by rintro ⟨c', q', hc, hq, hp⟩; cases hc; cases hq; exact h hp)
  | none, _ => isFalse (by rintro ⟨_, _, hc, _, _⟩; cases hc)
  | some _, none => isFalse (by rintro ⟨_, _, _, hq, _⟩; cases hq)

instance decPairAgrees (p : Pair) : Decidable (PairAgrees p) :=
  decExSome (lookup p.cxx cxxAll) (lookup p.py Py.enums)
    (fun c q => SameMembers (wire c p.cxxSentinels) (wire q p.pySentinels))

instance decSentinelsJustified (p : Pair) : Decidable (SentinelsJustified p) :=
  decExSome (lookup p.cxx cxxAll) (lookup p.py Py.enums)
    (fun c q => (∀ s ∈ p.cxxSentinels, ∃ nv ∈ c, nv.1 = s ∧ ∃ nv' ∈ wire c p.cxxSentinels, nv'.2 = nv.2) ∧
      (∀ s ∈ p.pySentinels, ∃ nv ∈ q, nv.1 = s ∧ ∀ nv' ∈ c, nv'.2 < nv.2))

instance decCoversByValue (c v : Members) : Decidable (CoversByValue c v) := by
  unfold CoversByValue; infer_instance

instance decViewRel : ∀ (b : Bool) (c q : Members), Decidable (ViewRel b c q)
  | false, c, q => decSameMembers c q
  | true, c, q => decCoversByValue c q

instance decViewAgrees (b : Bool) (view : List (Nat × Members)) (p : Pair) : Decidable (ViewAgrees b view p) :=
  decExSome (lookup p.cxx cxxAll) (lookup p.py view)
    (fun c q => ViewRel b (wire c p.cxxSentinels) (wire q p.pySentinels))

instance decTheOnly (l : List Decl) (Q : Decl → Prop) [DecidablePred Q] : Decidable (TheOnly l Q) :=
  match l with
  | [k] =>
    if h : Q k then isTrue ⟨k, rfl, h⟩
    else isFalse (by rintro ⟨k', hk, hq⟩; cases hk; exact h hq)
  | [] => isFalse (by rintro ⟨_, hk, _⟩; cases hk)
  | _ :: _ :: _ => isFalse (by rintro ⟨_, hk, _⟩; cases hk)

/-- `TheOnly` means what it says: some element of `l` satisfies `Q`, every element of `l` equals it, and `l` has
length one (no second declaration, not even an identical one). -/
theorem theOnly_iff (l : List Decl) (Q : Decl → Prop) :
    TheOnly l Q ↔ ∃ k, k ∈ l ∧ Q k ∧ (∀ k' ∈ l, k' = k) ∧ l.length = 1 := by
  constructor
  · rintro ⟨k, rfl, hq⟩
    exact ⟨k, by simp, hq, by simp, rfl⟩
  · rintro ⟨k, hk, hq, hall, hlen⟩
    match l, hlen with
    | [a], _ =>
      have : a = k := hall a (by simp)
      exact ⟨k, by rw [this], hq⟩

/-! ### the name encoding is injective -/

/-- Big-endian base-256 value of a byte string (bytes as naturals `< 256`). -/
def encode (bs : List Nat) : Nat := bs.foldl (fun a b => a * 256 + b) 0

theorem encode_append_singleton (bs : List Nat) (b : Nat) : encode (bs ++ [b]) = encode bs * 256 + b := by
  simp [encode, List.foldl_append]

theorem encode_pos_of_head (bs : List Nat) (h : ∀ b ∈ bs.head?, 0 < b) (hne : bs ≠ []) : 0 < encode bs := by
  induction bs using List.reverseRecOn with
  | nil => exact absurd rfl hne
  | append_singleton xs x ih =>
    rw [encode_append_singleton]
    cases xs with
    | nil => have := h x (by simp); omega
    | cons y ys =>
      have := ih (by intro b hb; exact h b (by simpa using hb)) (by simp)
      omega

/-- Two byte strings without a leading NUL byte and with the same code are equal: equality of name codes in the
generated tables is equality of names. -/
theorem encode_injective (xs ys : List Nat) (hx : ∀ b ∈ xs, b < 256) (hy : ∀ b ∈ ys, b < 256)
    (hx0 : ∀ b ∈ xs.head?, 0 < b) (hy0 : ∀ b ∈ ys.head?, 0 < b) (h : encode xs = encode ys) : xs = ys := by
  induction xs using List.reverseRecOn generalizing ys with
  | nil =>
    cases ys with
    | nil => rfl
    | cons y ys' =>
      have := encode_pos_of_head (y :: ys') hy0 (by simp)
      simp [encode] at h
      simp [encode] at this
      omega
  | append_singleton xs' x ih =>
    induction ys using List.reverseRecOn with
    | nil =>
      have := encode_pos_of_head (xs' ++ [x]) hx0 (by simp)
      rw [h] at this
      simp [encode] at this
    | append_singleton ys' y _ =>
      rw [encode_append_singleton, encode_append_singleton] at h
      have hxl : x < 256 := hx x (by simp)
      have hyl : y < 256 := hy y (by simp)
      have hxy : x = y := by omega
      have hrest : encode xs' = encode ys' := by omega
      have hx0' : ∀ b ∈ xs'.head?, 0 < b := by
        intro b hb
        cases xs' with
        | nil => simp at hb
        | cons a as => exact hx0 b (by simpa using hb)
      have hy0' : ∀ b ∈ ys'.head?, 0 < b := by
        intro b hb
        cases ys' with
        | nil => simp at hb
        | cons a as => exact hy0 b (by simpa using hb)
      have := ih ys' (fun b hb => hx b (by simp [hb])) (fun b hb => hy b (by simp [hb])) hx0' hy0' hrest
      rw [this, hxy]

end FeVerif.C03
