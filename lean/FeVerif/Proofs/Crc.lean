/-
Lemmas about the CRC-32 definitions (Model/Crc32.lean, Spec/CrcBits.lean): linearity of the
zero-feed step, table lookup = eight bit steps, incremental computation, the affine law, and
detection of bursts.
-/
import FeVerif.Spec.CrcBits
namespace FeVerif

theorem and_one_eq_one_iff (c : W32) : (c &&& 1#32 = 1#32) ↔ c.getLsbD 0 = true := by
  constructor
  · intro h
    have := congrArg (fun x => x.getLsbD 0) h
    simpa using this
  · intro h
    apply BitVec.eq_of_getLsbD_eq
    intro i hi
    by_cases h0 : i = 0
    · subst h0; simp [h]
    · simp [BitVec.getLsbD_one, h0]

/-- The zero-feed step written as an xor. -/
theorem crcShift_eq (c : W32) :
    crcShift c = (c >>> 1) ^^^ (if c.getLsbD 0 then crcPoly else 0#32) := by
  unfold crcShift
  by_cases h : c.getLsbD 0 = true
  · rw [if_pos ((and_one_eq_one_iff c).2 h), if_pos h, BitVec.xor_comm]
  · rw [if_neg (fun h' => h ((and_one_eq_one_iff c).1 h')), if_neg h, BitVec.xor_zero]

theorem xor_cancel4 (x y p : W32) : (x ^^^ p) ^^^ (y ^^^ p) = x ^^^ y := by
  apply BitVec.eq_of_getLsbD_eq; intro i _
  simp only [BitVec.getLsbD_xor]
  cases x.getLsbD i <;> cases y.getLsbD i <;> cases p.getLsbD i <;> rfl

theorem crcShift_xor (a b : W32) : crcShift (a ^^^ b) = crcShift a ^^^ crcShift b := by
  simp only [crcShift_eq, BitVec.getLsbD_xor, BitVec.ushiftRight_xor_distrib]
  cases a.getLsbD 0 <;> cases b.getLsbD 0
  · simp
  · simp; ac_rfl
  · simp; ac_rfl
  · simp [xor_cancel4]

theorem crcShift_zero : crcShift 0#32 = 0#32 := by decide

theorem crcShift_even {c : W32} (h : c.getLsbD 0 = false) : crcShift c = c >>> 1 := by
  rw [crcShift_eq, h]; simp

theorem crcIter_xor (k : Nat) (a b : W32) :
    crcIter k (a ^^^ b) = crcIter k a ^^^ crcIter k b := by
  induction k generalizing a b with
  | zero => rfl
  | succ k ih => simp only [crcIter, crcShift_xor, ih]

theorem crcIter_zero (k : Nat) : crcIter k 0#32 = 0#32 := by
  induction k with
  | zero => rfl
  | succ k ih => simp only [crcIter, crcShift_zero, ih]

/-- While only zero bits reach the feedback position the step is a plain shift. -/
theorem crcIter_low_zero (k : Nat) (c : W32) (h : ∀ i, i < k → c.getLsbD i = false) :
    crcIter k c = c >>> k := by
  induction k generalizing c with
  | zero => simp [crcIter]
  | succ k ih =>
    rw [crcIter, crcShift_even (h 0 (by omega)), ih]
    · rw [← BitVec.shiftRight_add, Nat.add_comm]
    · intro i hi; rw [BitVec.getLsbD_ushiftRight]; exact h (1 + i) (by omega)

theorem crcShift8_eq (c : W32) : crcShift8 c = crcIter 8 c := rfl

theorem crcShift8_xor (a b : W32) : crcShift8 (a ^^^ b) = crcShift8 a ^^^ crcShift8 b := by
  simp only [crcShift8_eq, crcIter_xor]

theorem crcTable_getD (i : Nat) (h : i < 256) : crcTable.getD i 0#32 = crcShift8 (BitVec.ofNat 32 i) := by
  simp [crcTable, Array.getD, h, crcTableGen]

theorem split_low8 (x : W32) : x = (x &&& 0xFF#32) ^^^ (x &&& 0xFFFFFF00#32) := by
  apply BitVec.eq_of_getLsbD_eq; intro i hi
  simp only [BitVec.getLsbD_xor, BitVec.getLsbD_and]
  have : (0xFF#32).getLsbD i = !(0xFFFFFF00#32).getLsbD i := by
    have : ∀ i : Fin 32, (0xFF#32).getLsbD i.val = !(0xFFFFFF00#32).getLsbD i.val := by decide
    exact this ⟨i, hi⟩
  rw [this]; cases x.getLsbD i <;> cases (0xFFFFFF00#32).getLsbD i <;> rfl

theorem crcUpdate_eq_spec (c : W32) (b : Byte) : crcUpdate c b = crcByteSpec c b := by
  unfold crcUpdate crcByteSpec
  generalize hx : c ^^^ BitVec.ofNat 32 b.toNat = x
  have hlt : (x &&& 0xFF#32).toNat < 256 := by
    rw [BitVec.toNat_and]; exact Nat.lt_of_le_of_lt Nat.and_le_right (by decide)
  rw [crcTable_getD _ hlt, BitVec.ofNat_toNat, BitVec.setWidth_eq]
  conv => rhs; rw [split_low8 x, crcShift8_xor]
  congr 1
  rw [crcShift8_eq, crcIter_low_zero]
  · subst hx
    apply BitVec.eq_of_getLsbD_eq; intro i hi
    simp only [BitVec.getLsbD_ushiftRight]
    by_cases hi24 : i < 24
    case neg => rw [BitVec.getLsbD_of_ge _ _ (by omega), BitVec.getLsbD_of_ge _ _ (by omega)]
    have hb : (BitVec.ofNat 32 b.toNat).getLsbD (8 + i) = false := by
      rw [BitVec.getLsbD_ofNat]
      have : b.toNat < 2 ^ (8 + i) := Nat.lt_of_lt_of_le b.toNat_lt (Nat.pow_le_pow_right (by decide) (by omega))
      rw [Nat.testBit_lt_two_pow this]; simp
    have hm : (0xFFFFFF00#32).getLsbD (8 + i) = true := by
      have : ∀ i : Fin 24, (0xFFFFFF00#32).getLsbD (8 + i.val) = true := by decide
      exact this ⟨i, by omega⟩
    simp only [BitVec.getLsbD_and, BitVec.getLsbD_xor, hb, hm]
    simp
  · intro i hi
    have : ∀ i : Fin 8, (0xFFFFFF00#32).getLsbD i.val = false := by decide
    rw [BitVec.getLsbD_and, this ⟨i, hi⟩]; simp

/-! ### Table algorithm = bit-serial specification; incremental use -/

theorem foldl_crcUpdate (c : W32) (bs : Bytes) : bs.foldl crcUpdate c = bs.foldl crcByteSpec c := by
  induction bs generalizing c with
  | nil => rfl
  | cons b bs ih => simp only [List.foldl_cons, crcUpdate_eq_spec, ih]

theorem xor_ones (x : W32) : x ^^^ 0xFFFFFFFF#32 = ~~~ x := by
  apply BitVec.eq_of_getLsbD_eq; intro i hi
  have : ∀ i : Fin 32, (0xFFFFFFFF#32).getLsbD i.val = true := by decide
  rw [BitVec.getLsbD_xor, this ⟨i, hi⟩, BitVec.getLsbD_not]; simp [hi]

theorem crc32_eq_spec (init : W32) (bs : Bytes) :
    crc32 init bs = ~~~ (bs.foldl crcByteSpec (~~~ init)) := by
  unfold crc32; rw [foldl_crcUpdate, xor_ones, xor_ones]

theorem crc32_append (init : W32) (a b : Bytes) : crc32 init (a ++ b) = crc32 (crc32 init a) b := by
  simp only [crc32_eq_spec, List.foldl_append, BitVec.not_not]

/-! ### Affine law -/

theorem ofNat_byte_xor (a b : Byte) :
    BitVec.ofNat 32 (a ^^^ b).toNat = BitVec.ofNat 32 a.toNat ^^^ BitVec.ofNat 32 b.toNat := by
  rw [UInt8.toNat_xor]; simp [BitVec.ofNat_xor]

theorem crcByteSpec_xor (c₁ c₂ : W32) (b₁ b₂ : Byte) :
    crcByteSpec (c₁ ^^^ c₂) (b₁ ^^^ b₂) = crcByteSpec c₁ b₁ ^^^ crcByteSpec c₂ b₂ := by
  unfold crcByteSpec
  rw [ofNat_byte_xor, ← crcShift8_xor]; congr 1; ac_rfl

theorem foldl_crcByteSpec_xor (a e : Bytes) (c₁ c₂ : W32) (h : a.length = e.length) :
    (xorBytes a e).foldl crcByteSpec (c₁ ^^^ c₂) = a.foldl crcByteSpec c₁ ^^^ e.foldl crcByteSpec c₂ := by
  induction a generalizing e c₁ c₂ with
  | nil => cases e with
    | nil => rfl
    | cons _ _ => simp at h
  | cons x a ih => cases e with
    | nil => simp at h
    | cons y e =>
      simp only [xorBytes, List.zipWith_cons_cons, List.foldl_cons, crcByteSpec_xor]
      exact ih e _ _ (by simpa using h)

theorem not_xor_left (x y : W32) : ~~~ (x ^^^ y) = ~~~ x ^^^ y := by
  apply BitVec.eq_of_getLsbD_eq; intro i hi
  simp only [BitVec.getLsbD_xor, BitVec.getLsbD_not, hi, decide_true, Bool.true_and]
  cases x.getLsbD i <;> cases y.getLsbD i <;> rfl

theorem crc32_xor (init : W32) (a e : Bytes) (h : a.length = e.length) :
    crc32 init (xorBytes a e) = crc32 init a ^^^ crcLin e := by
  rw [crc32_eq_spec, crc32_eq_spec, crcLin, ← not_xor_left, ← foldl_crcByteSpec_xor a e _ _ h, BitVec.xor_zero]

/-! ### Bit-level view -/

theorem bitW_false : bitW false = 0#32 := rfl

theorem crcBits_zeros (q : Nat) (c : W32) : crcBits c (zeros q) = crcIter q c := by
  induction q generalizing c with
  | zero => rfl
  | succ q ih =>
    show crcBits (crcBitStep c false) (zeros q) = crcIter q (crcShift c)
    rw [ih, crcBitStep, bitW_false, BitVec.xor_zero]

theorem crcBits_append (c : W32) (u v : List Bool) : crcBits c (u ++ v) = crcBits (crcBits c u) v := by
  simp [crcBits, List.foldl_append]

theorem packBits_high (w : List Bool) (i : Nat) (h : w.length ≤ i) : (packBits w).getLsbD i = false := by
  induction w generalizing i with
  | nil => simp [packBits]
  | cons b w ih =>
    simp only [List.length_cons] at h
    simp only [packBits, BitVec.getLsbD_xor, BitVec.getLsbD_shiftLeft]
    have h1 : (bitW b).getLsbD i = false := by
      cases b
      · simp [bitW]
      · simp only [bitW, if_true, BitVec.getLsbD_one]; simp; omega
    rw [h1, ih (i - 1) (by omega)]; simp

theorem crcShift_shl (p : W32) (h : p.getLsbD 31 = false) : crcShift (p <<< 1) = p := by
  rw [crcShift_even (by simp)]
  apply BitVec.eq_of_getLsbD_eq; intro i hi
  rw [BitVec.getLsbD_ushiftRight, BitVec.getLsbD_shiftLeft]
  by_cases h31 : i = 31
  · subst h31; rw [h]; simp
  · simp; omega

theorem crcBits_eq_iter (w : List Bool) (c : W32) (h : w.length ≤ 32) :
    crcBits c w = crcIter w.length (c ^^^ packBits w) := by
  induction w generalizing c with
  | nil => simp [crcBits, crcIter, packBits]
  | cons b w ih =>
    simp only [List.length_cons] at h
    show crcBits (crcBitStep c b) w = crcIter w.length (crcShift (c ^^^ packBits (b :: w)))
    rw [ih _ (by omega), packBits, ← BitVec.xor_assoc, crcShift_xor (c ^^^ bitW b),
      crcShift_shl _ (packBits_high w 31 (by omega)), crcBitStep]

theorem packBits_bitsOfByte (b : Byte) : packBits (bitsOfByte b) = BitVec.ofNat 32 b.toNat := by
  have : ∀ n : Fin 256, packBits (bitsOfByte (UInt8.ofNat n.val)) = BitVec.ofNat 32 n.val := by
    decide +kernel
  have := this ⟨b.toNat, b.toNat_lt⟩
  simpa using this

theorem crcByteSpec_eq_bits (c : W32) (b : Byte) : crcByteSpec c b = crcBits c (bitsOfByte b) := by
  rw [crcBits_eq_iter _ _ (by simp [bitsOfByte]), packBits_bitsOfByte]; rfl

theorem foldl_crcByteSpec_eq_bits (bs : Bytes) (c : W32) :
    bs.foldl crcByteSpec c = crcBits c (bitsOf bs) := by
  induction bs generalizing c with
  | nil => rfl
  | cons b bs ih =>
    rw [List.foldl_cons, ih, crcByteSpec_eq_bits]
    simp [bitsOf, crcBits_append]

theorem crcLin_eq_bits (e : Bytes) : crcLin e = crcBits 0#32 (bitsOf e) := foldl_crcByteSpec_eq_bits e _

/-! ### Bursts -/

theorem crcShift_eq_zero {c : W32} (h : crcShift c = 0#32) : c = 0#32 := by
  rw [crcShift_eq] at h
  by_cases h0 : c.getLsbD 0 = true
  · rw [if_pos h0] at h
    have := congrArg (fun x => x.getLsbD 31) h
    simp [crcPoly] at this
  · rw [if_neg h0, BitVec.xor_zero] at h
    apply BitVec.eq_of_getLsbD_eq; intro i hi
    cases i with
    | zero => simpa using h0
    | succ i =>
      have := congrArg (fun x => x.getLsbD i) h
      simpa [BitVec.getLsbD_ushiftRight, Nat.add_comm] using this

theorem crcIter_ne_zero (k : Nat) {c : W32} (h : c ≠ 0#32) : crcIter k c ≠ 0#32 := by
  induction k generalizing c with
  | zero => exact h
  | succ k ih => exact ih (fun h' => h (crcShift_eq_zero h'))

theorem packBits_ne_zero (w : List Bool) (hl : w.length ≤ 32) (ht : true ∈ w) : packBits w ≠ 0#32 := by
  induction w with
  | nil => cases ht
  | cons b w ih =>
    simp only [List.length_cons] at hl
    intro h0
    cases b with
    | true =>
      have := congrArg (fun x => x.getLsbD 0) h0
      simp [packBits, bitW] at this
    | false =>
      have ht' : true ∈ w := by simpa using ht
      apply ih (by omega) ht'
      have h1 : packBits w <<< 1 = 0#32 := by simpa [packBits, bitW] using h0
      have := crcShift_shl (packBits w) (packBits_high w 31 (by omega))
      rw [h1, crcShift_zero] at this
      exact this.symm

theorem crcBits_burst_ne_zero {bits : List Bool} (h : IsBurst bits) : crcBits 0#32 bits ≠ 0#32 := by
  obtain ⟨p, w, q, rfl, hl, ht⟩ := h
  rw [crcBits_append, crcBits_append, crcBits_zeros, crcBits_zeros, crcIter_zero,
    crcBits_eq_iter w _ hl, BitVec.zero_xor]
  exact crcIter_ne_zero _ (crcIter_ne_zero _ (packBits_ne_zero w hl ht))

/-! ### Single-bit patterns -/


theorem bitsOf_append (a b : Bytes) : bitsOf (a ++ b) = bitsOf a ++ bitsOf b := by
  simp [bitsOf]

theorem zeros_append (a b : Nat) : zeros a ++ zeros b = zeros (a + b) := by
  simp [zeros, List.replicate_append_replicate]

theorem bitsOf_replicate_zero (m : Nat) : bitsOf (List.replicate m (0 : Byte)) = zeros (8 * m) := by
  induction m with
  | zero => rfl
  | succ m ih =>
    rw [List.replicate_succ, show (0 : Byte) :: List.replicate m 0 = [0] ++ List.replicate m 0 from rfl,
      bitsOf_append, ih]
    show zeros 8 ++ zeros (8 * m) = _
    rw [zeros_append]; congr 1; omega

theorem bitsOfByte_pow (k : Nat) (hk : k < 8) :
    bitsOfByte (UInt8.ofNat (2 ^ k)) = zeros k ++ true :: zeros (7 - k) := by
  have : ∀ k : Fin 8, bitsOfByte (UInt8.ofNat (2 ^ k.val)) = zeros k.val ++ true :: zeros (7 - k.val) := by
    decide
  exact this ⟨k, hk⟩

/-- Flipping one bit is a burst. -/
theorem bitsOf_flipPattern (n i k : Nat) (hi : i < n) (hk : k < 8) :
    bitsOf (flipPattern n i k) = zeros (8 * i + k) ++ [true] ++ zeros ((7 - k) + 8 * (n - (i + 1))) := by
  unfold flipPattern
  rw [List.set_eq_take_append_cons_drop, if_pos (by simpa using hi)]
  rw [List.take_replicate, List.drop_replicate, Nat.min_eq_left (by omega),
    bitsOf_append, show ∀ (v : Byte) l, v :: l = [v] ++ l from fun _ _ => rfl, bitsOf_append,
    bitsOf_replicate_zero, bitsOf_replicate_zero]
  show zeros (8 * i) ++ (bitsOfByte _ ++ []  ++ _) = _
  rw [bitsOfByte_pow k hk]
  simp only [List.append_nil, List.append_assoc, List.cons_append, List.nil_append, ← zeros_append]

theorem isBurst_flipPattern (n i k : Nat) (hi : i < n) (hk : k < 8) : IsBurst (bitsOf (flipPattern n i k)) :=
  ⟨8 * i + k, [true], (7 - k) + 8 * (n - (i + 1)), bitsOf_flipPattern n i k hi hk, by simp, by simp⟩

theorem flipPattern_length (n i k : Nat) : (flipPattern n i k).length = n := by simp [flipPattern]

theorem crcBits_single_true (c : W32) : crcBits c [true] = crcShift (c ^^^ 1#32) := rfl

theorem crcShift_one : crcShift 1#32 = crcPoly := by decide

theorem xor_eq_zero_iff {a b : W32} : a ^^^ b = 0#32 ↔ a = b := by
  constructor
  · intro h
    have : a ^^^ b ^^^ b = 0#32 ^^^ b := by rw [h]
    rwa [BitVec.xor_assoc, BitVec.xor_self, BitVec.xor_zero, BitVec.zero_xor] at this
  · intro h; rw [h, BitVec.xor_self]

theorem crcIter_add (a b : Nat) (v : W32) : crcIter (a + b) v = crcIter b (crcIter a v) := by
  induction a generalizing v with
  | zero => simp [crcIter]
  | succ a ih => rw [Nat.add_right_comm]; exact ih (crcShift v)

theorem crcShift_crcIter (k : Nat) (v : W32) : crcShift (crcIter k v) = crcIter k (crcShift v) := by
  have h1 := crcIter_add k 1 v
  have h2 := crcIter_add 1 k v
  rw [Nat.add_comm] at h2
  rw [h1] at h2
  exact h2

/-- Linear remainder of a single flipped bit followed by `q` further bits: `q + 1` steps from `1`. -/
theorem crcLin_flipPattern (n i k : Nat) (hi : i < n) (hk : k < 8) :
    crcLin (flipPattern n i k) = crcIter ((7 - k) + 8 * (n - (i + 1))) crcPoly := by
  rw [crcLin_eq_bits, bitsOf_flipPattern n i k hi hk, crcBits_append, crcBits_append, crcBits_zeros,
    crcBits_zeros, crcIter_zero, crcBits_single_true, BitVec.zero_xor, crcShift_one]

end FeVerif
