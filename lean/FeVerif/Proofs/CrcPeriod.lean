/-
The zero-feed step of the CRC-32 register has minimal period 2^32 - 1 at the polynomial's own bit pattern
(the reflected polynomial is primitive): the step as a 32x32 bit matrix, powers by repeated squaring
evaluated by the kernel, and the divisor argument with Mathlib's `Function.minimalPeriod`.
-/
import FeVerif.Proofs.Crc
import Mathlib.Dynamics.PeriodicPts.Defs
import Mathlib.Tactic.NormNum.Prime
namespace FeVerif

/-- A linear map on the register as its 32 columns (column `i` = image of bit `i`), given as a list. -/
def applyM : List W32 → W32 → W32
  | [], _ => 0#32
  | c :: cs, v => (if v.getLsbD 0 then c else 0#32) ^^^ applyM cs (v >>> 1)

def mulM (A B : List W32) : List W32 := B.map (applyM A)

theorem applyM_zero (M : List W32) : applyM M 0#32 = 0#32 := by
  induction M with
  | nil => rfl
  | cons c cs ih => simp [applyM, ih]

theorem applyM_xor (M : List W32) (a b : W32) : applyM M (a ^^^ b) = applyM M a ^^^ applyM M b := by
  induction M generalizing a b with
  | nil => simp [applyM]
  | cons c cs ih =>
    simp only [applyM, BitVec.getLsbD_xor, BitVec.ushiftRight_xor_distrib, ih]
    cases a.getLsbD 0 <;> cases b.getLsbD 0 <;> simp
    · ac_rfl
    · ac_rfl
    · rw [show c ^^^ applyM cs (a >>> 1) ^^^ (c ^^^ applyM cs (b >>> 1)) =
        (applyM cs (a >>> 1) ^^^ c) ^^^ (applyM cs (b >>> 1) ^^^ c) by ac_rfl, xor_cancel4]

theorem applyM_mul (A B : List W32) (v : W32) : applyM (mulM A B) v = applyM A (applyM B v) := by
  induction B generalizing v with
  | nil => simp [mulM, applyM, applyM_zero]
  | cons c cs ih =>
    have ih' := ih (v >>> 1)
    unfold mulM at ih' ⊢
    simp only [List.map_cons, applyM, applyM_xor, ih']
    cases v.getLsbD 0
    · simp [applyM_zero]
    · simp

/-- Columns `2^k, 2^(k+1), …` (`n` of them). -/
def idCols : Nat → Nat → List W32
  | _, 0 => []
  | k, n + 1 => (1#32 <<< k) :: idCols (k + 1) n

theorem getLsbD_one_shl (k j : Nat) : (1#32 <<< k).getLsbD j = (decide (j < 32) && decide (j = k)) := by
  rw [BitVec.getLsbD_shiftLeft, BitVec.getLsbD_one]
  by_cases h1 : j < 32 <;> by_cases h2 : j = k <;> simp [h1, h2] <;> omega

theorem applyM_idCols (n k : Nat) (w : W32) (j : Nat) :
    (applyM (idCols k n) w).getLsbD j =
      (decide (k ≤ j ∧ j < k + n ∧ j < 32) && w.getLsbD (j - k)) := by
  induction n generalizing k w with
  | zero =>
    simp [idCols, applyM]
    intro a b; omega
  | succ n ih =>
    simp only [idCols, applyM, BitVec.getLsbD_xor, ih, BitVec.getLsbD_ushiftRight]
    by_cases hjk : j = k
    · subst hjk
      have : ¬ (j + 1 ≤ j ∧ j < j + 1 + n ∧ j < 32) := by omega
      simp only [this, decide_false, Bool.false_and, Bool.xor_false, Nat.sub_self]
      cases h0 : w.getLsbD 0
      · simp
      · simp
    · have h1 : (if w.getLsbD 0 = true then 1#32 <<< k else 0#32).getLsbD j = false := by
        split
        · rw [getLsbD_one_shl]; simp [hjk]
        · simp
      rw [h1, Bool.false_xor]
      by_cases hlt : k + 1 ≤ j
      · have e : 1 + (j - (k + 1)) = j - k := by omega
        rw [e]
        congr 1
        apply decide_eq_decide.2
        omega
      · have a1 : ¬ (k + 1 ≤ j ∧ j < k + 1 + n ∧ j < 32) := by omega
        have a2 : ¬ (k ≤ j ∧ j < k + (n + 1) ∧ j < 32) := by omega
        simp [a1, a2]

/-- The zero-feed step as a matrix. -/
def stepM : List W32 := crcPoly :: idCols 0 31

theorem applyM_stepM (v : W32) : applyM stepM v = crcShift v := by
  rw [crcShift_eq, BitVec.xor_comm]
  show (if v.getLsbD 0 then crcPoly else 0#32) ^^^ applyM (idCols 0 31) (v >>> 1) = _
  congr 1
  apply BitVec.eq_of_getLsbD_eq; intro j hj
  rw [applyM_idCols]
  by_cases h31 : j = 31
  · subst h31; simp
  · have : (0 ≤ j ∧ j < 0 + 31 ∧ j < 32) := by omega
    simp [this]


def bitsVal : List Bool → Nat → Nat
  | [], _ => 0
  | b :: bs, k => (if b then 2 ^ k else 0) + bitsVal bs (k + 1)

/-- Square-and-multiply on the matrix of the step: the bits of the exponent, least significant first. -/
def iterSq : List Bool → List W32 → W32 → W32
  | [], _, v => v
  | b :: bs, S, v => iterSq bs (mulM S S) (if b then applyM S v else v)

theorem iterSq_eq (bs : List Bool) (S : List W32) (k : Nat) (v : W32)
    (hS : ∀ w, applyM S w = crcIter (2 ^ k) w) : iterSq bs S v = crcIter (bitsVal bs k) v := by
  induction bs generalizing S k v with
  | nil => rfl
  | cons b bs ih =>
    have hS2 : ∀ w, applyM (mulM S S) w = crcIter (2 ^ (k + 1)) w := by
      intro w; rw [applyM_mul, hS, hS, ← crcIter_add, Nat.pow_succ, Nat.mul_two]
    rw [iterSq, ih _ (k + 1) _ hS2, bitsVal]
    cases b
    · simp
    · simp only [if_true]; rw [hS, ← crcIter_add]

theorem stepM_spec (w : W32) : applyM stepM w = crcIter (2 ^ 0) w := by
  rw [applyM_stepM]; rfl

def bitsOfNat : Nat → Nat → List Bool
  | 0, _ => []
  | n + 1, x => (x % 2 == 1) :: bitsOfNat n (x / 2)

theorem bitsVal_bitsOfNat_N : bitsVal (bitsOfNat 32 4294967295) 0 = 4294967295 := by decide +kernel
theorem bitsVal_bitsOfNat_3 : bitsVal (bitsOfNat 32 1431655765) 0 = 1431655765 := by decide +kernel
theorem bitsVal_bitsOfNat_5 : bitsVal (bitsOfNat 32 858993459) 0 = 858993459 := by decide +kernel
theorem bitsVal_bitsOfNat_17 : bitsVal (bitsOfNat 32 252645135) 0 = 252645135 := by decide +kernel
theorem bitsVal_bitsOfNat_257 : bitsVal (bitsOfNat 32 16711935) 0 = 16711935 := by decide +kernel
theorem bitsVal_bitsOfNat_65537 : bitsVal (bitsOfNat 32 65535) 0 = 65535 := by decide +kernel

set_option maxRecDepth 100000 in
theorem pow_N : iterSq (bitsOfNat 32 4294967295) stepM crcPoly = crcPoly := by decide +kernel
set_option maxRecDepth 100000 in
theorem pow_3 : iterSq (bitsOfNat 32 1431655765) stepM crcPoly ≠ crcPoly := by decide +kernel
set_option maxRecDepth 100000 in
theorem pow_5 : iterSq (bitsOfNat 32 858993459) stepM crcPoly ≠ crcPoly := by decide +kernel
set_option maxRecDepth 100000 in
theorem pow_17 : iterSq (bitsOfNat 32 252645135) stepM crcPoly ≠ crcPoly := by decide +kernel
set_option maxRecDepth 100000 in
theorem pow_257 : iterSq (bitsOfNat 32 16711935) stepM crcPoly ≠ crcPoly := by decide +kernel
set_option maxRecDepth 100000 in
theorem pow_65537 : iterSq (bitsOfNat 32 65535) stepM crcPoly ≠ crcPoly := by decide +kernel

theorem crcIter_N : crcIter 4294967295 crcPoly = crcPoly := by
  rw [← bitsVal_bitsOfNat_N, ← iterSq_eq _ stepM 0 _ stepM_spec]; exact pow_N
theorem crcIter_3 : crcIter 1431655765 crcPoly ≠ crcPoly := by
  rw [← bitsVal_bitsOfNat_3, ← iterSq_eq _ stepM 0 _ stepM_spec]; exact pow_3
theorem crcIter_5 : crcIter 858993459 crcPoly ≠ crcPoly := by
  rw [← bitsVal_bitsOfNat_5, ← iterSq_eq _ stepM 0 _ stepM_spec]; exact pow_5
theorem crcIter_17 : crcIter 252645135 crcPoly ≠ crcPoly := by
  rw [← bitsVal_bitsOfNat_17, ← iterSq_eq _ stepM 0 _ stepM_spec]; exact pow_17
theorem crcIter_257 : crcIter 16711935 crcPoly ≠ crcPoly := by
  rw [← bitsVal_bitsOfNat_257, ← iterSq_eq _ stepM 0 _ stepM_spec]; exact pow_257
theorem crcIter_65537 : crcIter 65535 crcPoly ≠ crcPoly := by
  rw [← bitsVal_bitsOfNat_65537, ← iterSq_eq _ stepM 0 _ stepM_spec]; exact pow_65537

theorem crcIter_eq_iterate (k : Nat) (v : W32) : crcIter k v = crcShift^[k] v := by
  induction k generalizing v with
  | zero => rfl
  | succ k ih => rw [crcIter, ih, Function.iterate_succ_apply]

open Function in
theorem minimalPeriod_crcPoly : minimalPeriod crcShift crcPoly = 4294967295 := by
  have hN : IsPeriodicPt crcShift 4294967295 crcPoly := by
    show crcShift^[4294967295] crcPoly = crcPoly
    rw [← crcIter_eq_iterate]; exact crcIter_N
  have hdvd : minimalPeriod crcShift crcPoly ∣ 4294967295 := hN.minimalPeriod_dvd
  by_contra hne
  obtain ⟨r, hr⟩ := hdvd
  have hr1 : r ≠ 1 := by
    intro h; rw [h, Nat.mul_one] at hr; exact hne hr.symm
  obtain ⟨q, hq, hqr⟩ := Nat.exists_prime_and_dvd hr1
  obtain ⟨s, hs⟩ := hqr
  -- the minimal period divides N / q
  have hper : ∀ n, n * q = 4294967295 → IsPeriodicPt crcShift n crcPoly := by
    intro n hn
    apply (isPeriodicPt_minimalPeriod crcShift crcPoly).trans_dvd
    refine ⟨s, ?_⟩
    have hq0 : 0 < q := hq.pos
    apply Nat.eq_of_mul_eq_mul_right hq0
    rw [hn, hr, hs]; ac_rfl
  have hqN : q ∣ 3 * (5 * (17 * (257 * 65537))) := ⟨minimalPeriod crcShift crcPoly * s, by rw [hs] at hr; rw [← show (4294967295 : Nat) = 3 * (5 * (17 * (257 * 65537))) by norm_num, hr]; ac_rfl⟩
  have key : ∀ n, IsPeriodicPt crcShift n crcPoly → crcIter n crcPoly = crcPoly := by
    intro n h; rw [crcIter_eq_iterate]; exact h
  rcases (Nat.Prime.dvd_mul hq).1 hqN with h | h
  · have := (Nat.prime_dvd_prime_iff_eq hq (by norm_num)).1 h; subst this
    exact crcIter_3 (key _ (hper 1431655765 (by norm_num)))
  rcases (Nat.Prime.dvd_mul hq).1 h with h | h
  · have := (Nat.prime_dvd_prime_iff_eq hq (by norm_num)).1 h; subst this
    exact crcIter_5 (key _ (hper 858993459 (by norm_num)))
  rcases (Nat.Prime.dvd_mul hq).1 h with h | h
  · have := (Nat.prime_dvd_prime_iff_eq hq (by norm_num)).1 h; subst this
    exact crcIter_17 (key _ (hper 252645135 (by norm_num)))
  rcases (Nat.Prime.dvd_mul hq).1 h with h | h
  · have := (Nat.prime_dvd_prime_iff_eq hq (by norm_num)).1 h; subst this
    exact crcIter_257 (key _ (hper 16711935 (by norm_num)))
  · have := (Nat.prime_dvd_prime_iff_eq hq (by norm_num)).1 h; subst this
    exact crcIter_65537 (key _ (hper 65535 (by norm_num)))

/-- The orbit of the polynomial pattern under the zero-feed step does not return before 2^32 - 1 steps. -/
theorem crcIter_poly_ne (d : Nat) (h0 : 0 < d) (h1 : d < 4294967295) : crcIter d crcPoly ≠ crcPoly := by
  intro h
  have hp : Function.IsPeriodicPt crcShift d crcPoly := by
    show crcShift^[d] crcPoly = crcPoly
    rw [← crcIter_eq_iterate]; exact h
  have := hp.minimalPeriod_dvd
  rw [minimalPeriod_crcPoly] at this
  have := Nat.le_of_dvd h0 this
  omega

end FeVerif
