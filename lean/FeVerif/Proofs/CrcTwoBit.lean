/-
Two flipped bits at any distance below the period of the CRC-32 polynomial (2^32 - 1) leave a non-zero
linear remainder; one flipped data bit never has a single-bit remainder.
-/
import FeVerif.Proofs.CrcPeriod

namespace FeVerif

theorem crcIter_succ' (k : Nat) (v : W32) : crcShift (crcIter k v) = crcIter (k + 1) v := by
  rw [crcIter_add k 1 v]; rfl

/-! ### Two flipped bits at any distance below the period -/

theorem crcBits_twoBits_ne_zero {bits : List Bool} (h : TwoBits bits) : crcBits 0#32 bits ≠ 0#32 := by
  obtain ⟨p, d, q, hd0, hd, rfl⟩ := h
  have e1 : crcBits 0#32 [true] = crcPoly := by
    rw [crcBits_single_true, BitVec.zero_xor, crcShift_one]
  rw [crcBits_append, crcBits_append, crcBits_append, crcBits_append, crcBits_zeros, crcBits_zeros,
    crcBits_zeros, crcIter_zero, e1, crcBits_single_true, crcShift_xor, crcShift_one, crcIter_succ',
    show d - 1 + 1 = d by omega]
  apply crcIter_ne_zero
  intro h
  exact crcIter_poly_ne d hd0 hd (xor_eq_zero_iff.1 h)

/-- One flipped data bit can never have a single-bit linear remainder: for a bit followed by `q` further
bits and a CRC bit position `m`, as long as `q + 1 + m` stays below the period. -/
theorem crcIter_poly_ne_bit (q m : Nat) (hm : m < 32) (hq : q + 1 + m < 4294967295) :
    crcIter q crcPoly ≠ 1#32 <<< m := by
  intro h
  have h1 : crcIter m (1#32 <<< m) = 1#32 := by
    rw [crcIter_low_zero]
    · apply BitVec.eq_of_getLsbD_eq; intro j hj
      rw [BitVec.getLsbD_ushiftRight, getLsbD_one_shl, BitVec.getLsbD_one]
      by_cases hj0 : j = 0
      · subst hj0; simp; omega
      · simp [hj0]
    · intro i hi; rw [getLsbD_one_shl]; simp; omega
  have h2 : crcIter (q + m) crcPoly = 1#32 := by rw [crcIter_add, h, h1]
  have h3 : crcIter (q + m + 1) crcPoly = crcPoly := by
    rw [crcIter_add, h2]; exact crcShift_one
  exact crcIter_poly_ne (q + m + 1) (by omega) (by omega) h3

end FeVerif
