/-
The reader's `next_index_elem` bookkeeping refines the abstract cursor (filtered list + position).
-/
import FeVerif.Spec.Reader

namespace FeVerif
namespace Reader

/-- Strictly increasing file offsets. -/
def Sorted (l : List Ent) : Prop := l.Pairwise fun a b => a.offset < b.offset

theorem find?_eq_getElem?_findIdx (l : List Ent) (p : Ent → Bool) : l.find? p = l[l.findIdx p]? := by
  induction l with
  | nil => rfl
  | cons a r ih =>
    rw [List.find?_cons, List.findIdx_cons]
    by_cases h : p a = true
    · simp [h]
    · have h' : p a = false := by simpa using h
      simp [h', ih]

theorem reposition_eq (cur : List Ent) (pos : Option Nat) : reposition cur pos = cur.findIdx (after pos) := by
  unfold reposition after
  cases cur with
  | nil => rfl
  | cons a r =>
    cases pos with
    | none => simp [List.findIdx_cons]
    | some p => simp

/-- In a strictly sorted list, the first entry after the offset of entry `i` is entry `i + 1`. -/
theorem findIdx_after_getElem (l : List Ent) (hs : Sorted l) (i : Nat) (hi : i < l.length) :
    l.findIdx (after (some (l[i]).offset)) = i + 1 := by
  induction l generalizing i with
  | nil => simp at hi
  | cons a r ih =>
    unfold Sorted at hs
    rw [List.pairwise_cons] at hs
    rw [List.findIdx_cons]
    cases i with
    | zero =>
      simp only [List.getElem_cons_zero, after]
      have : decide (a.offset > a.offset) = false := by simp
      rw [this]
      simp only [cond_false]
      cases r with
      | nil => rfl
      | cons b r' =>
        rw [List.findIdx_cons]
        have := hs.1 b (by simp)
        have hb : after (some a.offset) b = true := by unfold after; simp; omega
        rw [hb]; rfl
    | succ i' =>
      simp only [List.getElem_cons_succ]
      have hi' : i' < r.length := by simpa using hi
      have hlt : a.offset < (r[i']).offset := hs.1 _ (List.getElem_mem hi')
      have : after (some (r[i']).offset) a = false := by
        unfold after; simp; omega
      rw [this]
      simp only [cond_false]
      rw [ih hs.2 i' hi']

theorem findIdx_after_last (l : List Ent) (hs : Sorted l) (x : Ent) (hx : l.getLast? = some x) :
    l.findIdx (after (some x.offset)) = l.length := by
  rw [List.findIdx_eq_length]
  intro e he
  unfold after
  simp only [decide_eq_false_iff_not, Nat.not_lt]
  -- every element is at or before the last one
  induction l with
  | nil => cases he
  | cons a r ih =>
    unfold Sorted at hs
    rw [List.pairwise_cons] at hs
    cases r with
    | nil =>
      simp at hx he
      subst hx; subst he; exact Nat.le_refl _
    | cons b r' =>
      have hx' : (b :: r').getLast? = some x := by simpa [List.getLast?_cons_cons] using hx
      rcases List.mem_cons.1 he with rfl | h
      · have : x ∈ b :: r' := List.mem_of_getLast? hx'
        exact Nat.le_of_lt (hs.1 x this)
      · exact ih hs.2 hx' h

/-- The simulation relation between the reader state and the abstract cursor. -/
structure Rel (s : Cur) (a : Abs) : Prop where
  orig : s.orig = a.orig
  cur : s.cur = a.sel
  pos : s.prevOff = a.pos
  next : s.next = s.cur.findIdx (after s.prevOff)
  sortedOrig : Sorted s.orig
  sortedCur : Sorted s.cur

theorem Sorted.sublist {l l' : List Ent} (h : Sorted l) (hs : l'.Sublist l) : Sorted l' :=
  List.Pairwise.sublist hs h

theorem rel_withCur {s : Cur} {a : Abs} (r : Rel s a) (c : List Ent) (hc : Sorted c) :
    Rel (s.withCur c) { a with sel := c } := by
  refine ⟨r.orig, rfl, r.pos, ?_, r.sortedOrig, hc⟩
  show reposition c s.prevOff = c.findIdx (after s.prevOff)
  exact reposition_eq c s.prevOff

theorem sliceByTime_sublist (idx : List Ent) (t0 start stop : Option Nat) (c : List Ent)
    (h : sliceByTime idx t0 start stop = some c) : c.Sublist idx := by
  unfold sliceByTime at h
  split at h
  · injection h with h; subst h; exact List.Sublist.refl _
  split at h
  · injection h with h; subst h; exact List.Sublist.refl _
  cases t0 with
  | none => cases h
  | some t =>
    injection h with h; subst h
    exact (List.drop_sublist _ _).trans (List.take_sublist _ _)

theorem stride_sublist (k : Nat) (l : List Ent) : (stride k l).Sublist l := by
  fun_induction stride k l with
  | case1 => exact List.Sublist.refl _
  | case2 x xs ih => exact List.Sublist.cons_cons _ (ih.trans (List.drop_sublist _ _))

/-- **One operation.** Related states give the same answer and remain related. -/
theorem step_sim (s : Cur) (a : Abs) (r : Rel s a) (op : Op) :
    (step s op).2 = (absStep a op).2 ∧ Rel (step s op).1 (absStep a op).1 := by
  obtain ⟨so, sc, sn, sp⟩ := s
  obtain ⟨ao, asel, ap⟩ := a
  have h1 : so = ao := r.orig
  have h2 : sc = asel := r.cur
  have h3 : sp = ap := r.pos
  subst h1; subst h2; subst h3
  have hnext : sn = sc.findIdx (after sp) := r.next
  have hso : Sorted so := r.sortedOrig
  have hsc : Sorted sc := r.sortedCur
  have mk : ∀ (c : List Ent), Sorted c → Rel (Cur.withCur ⟨so, sc, sn, sp⟩ c) ⟨so, c, sp⟩ := fun c hc =>
    ⟨rfl, rfl, rfl, reposition_eq c sp, hso, hc⟩
  cases op with
  | readNext =>
    dsimp only [step, absStep]
    rw [find?_eq_getElem?_findIdx, ← hnext]
    cases hg : sc[sn]? with
    | none => exact ⟨rfl, r⟩
    | some e =>
      refine ⟨rfl, rfl, rfl, rfl, ?_, hso, hsc⟩
      have hlt : sn < sc.length := by
        rcases Nat.lt_or_ge sn sc.length with h | h
        · exact h
        · rw [List.getElem?_eq_none h] at hg; cases hg
      have he : sc[sn] = e := by
        rw [List.getElem?_eq_getElem hlt] at hg; injection hg
      show sn + 1 = sc.findIdx (after (some e.offset))
      rw [← he, findIdx_after_getElem sc hsc sn hlt]
  | filterTypes ts =>
    dsimp only [step, absStep]
    exact ⟨rfl, mk _ (hsc.sublist List.filter_sublist)⟩
  | filterTime tr =>
    dsimp only [step, absStep]
    cases hsl : sliceByRange sc (t0Of so) tr with
    | none => exact ⟨rfl, r⟩
    | some c => exact ⟨rfl, mk _ (hsc.sublist (sliceByTime_sublist _ _ _ _ _ hsl))⟩
  | filterSlice i j =>
    dsimp only [step, absStep]
    exact ⟨rfl, mk _ (hsc.sublist ((List.drop_sublist _ _).trans (List.take_sublist _ _)))⟩
  | filterStride i j k =>
    dsimp only [step, absStep]
    exact ⟨rfl, mk _ (hsc.sublist ((stride_sublist _ _).trans ((List.drop_sublist _ _).trans (List.take_sublist _ _))))⟩
  | removeUntimed =>
    dsimp only [step, absStep]
    exact ⟨rfl, mk _ (hsc.sublist List.filter_sublist)⟩
  | clear =>
    dsimp only [step, absStep]
    exact ⟨rfl, mk _ hso⟩
  | rewind =>
    dsimp only [step, absStep]
    refine ⟨rfl, rfl, rfl, rfl, ?_, hso, hsc⟩
    show 0 = sc.findIdx (after none)
    cases sc with
    | nil => rfl
    | cons x xs => simp [List.findIdx_cons, after]
  | seek i filtered =>
    dsimp only [step, absStep]
    by_cases hge : i ≥ (if filtered = true then sc.length else so.length)
    · rw [if_pos hge, if_pos hge]; exact ⟨rfl, r⟩
    · rw [if_neg hge, if_neg hge]
      have hsorted : Sorted (if filtered = true then sc else so) := by
        cases filtered
        · exact hso
        · exact hsc
      have hlen : i < (if filtered = true then sc else so).length := by
        cases filtered <;> simp at hge ⊢ <;> omega
      refine ⟨rfl, rfl, rfl, rfl, ?_, hso, hsorted⟩
      show i = (if filtered = true then sc else so).findIdx
        (after (if i = 0 then none else ((if filtered = true then sc else so)[i - 1]?).map (·.offset)))
      by_cases h0 : i = 0
      · subst h0
        simp only [if_true]
        cases hl : (if filtered = true then sc else so) with
        | nil => rw [hl] at hlen; simp at hlen
        | cons x xs => simp [List.findIdx_cons, after]
      · rw [if_neg h0]
        have hi1 : i - 1 < (if filtered = true then sc else so).length := by omega
        rw [List.getElem?_eq_getElem hi1]
        simp only [Option.map_some]
        rw [findIdx_after_getElem _ hsorted (i - 1) hi1]
        omega
  | seekEof =>
    dsimp only [step, absStep]
    rw [find?_eq_getElem?_findIdx, ← hnext]
    by_cases hn : sn = sc.length
    · rw [if_pos hn, hn, List.getElem?_eq_none (Nat.le_refl _)]
      exact ⟨rfl, hn ▸ r⟩
    · rw [if_neg hn]
      have hle : sn ≤ sc.length := by rw [hnext]; exact List.findIdx_le_length
      have hlt : sn < sc.length := by omega
      rw [List.getElem?_eq_getElem hlt]
      cases hl : sc.getLast? with
      | none =>
        have := List.getLast?_eq_none_iff.1 hl
        rw [this] at hlt; simp at hlt
      | some x =>
        refine ⟨rfl, rfl, rfl, rfl, ?_, hso, hsc⟩
        show sc.length = sc.findIdx (after (some x.offset))
        rw [findIdx_after_last sc hsc x hl]

end Reader
end FeVerif
