/-
Simulation between the literal C++ framer model (Model/CxxFramer.lean) and the re-feed machine `settle`
(Proofs/CxxScan.lean).
-/
import FeVerif.Proofs.CxxScan

namespace FeVerif

open Cxx

open Cfg

/-! ### Small facts about bytes -/

theorem byteAt_lt (bs : Bytes) (i : Nat) : byteAt bs i < 256 := by
  unfold byteAt; exact UInt8.toNat_lt _

theorem u32le_lt (bs : Bytes) (i : Nat) : u32le bs i < U32 := by
  unfold u32le U32
  have := byteAt_lt bs i; have := byteAt_lt bs (i + 1); have := byteAt_lt bs (i + 2); have := byteAt_lt bs (i + 3)
  omega

theorem u16le_eq_zero (bs : Bytes) (i : Nat) : u16le bs i = 0 ↔ (byteAt bs i = 0 ∧ byteAt bs (i + 1) = 0) := by
  unfold u16le; omega

theorem byteAt_of_take {l w : Bytes} {k i : Nat} (h : l.take k = w) (hi : i < k) : byteAt l i = byteAt w i := by
  rw [← h, byteAt_take hi]

theorem u32le_of_take {l w : Bytes} {k i : Nat} (h : l.take k = w) (hi : i + 3 < k) : u32le l i = u32le w i := by
  rw [← h, u32le_take hi]

theorem u16le_of_take {l w : Bytes} {k i : Nat} (h : l.take k = w) (hi : i + 1 < k) : u16le l i = u16le w i := by
  rw [← h, u16le_take hi]

theorem byteAt_append_right (p : Bytes) (b : Byte) : byteAt (p ++ [b]) p.length = b.toNat := by
  unfold byteAt; simp [List.getD_eq_getElem?_getD]

theorem take_set_succ (l : Bytes) (n : Nat) (b : Byte) (h : n < l.length) :
    (l.set n b).take (n + 1) = l.take n ++ [b] := by
  apply List.ext_getElem
  · simp; omega
  · intro i h1 h2
    simp at h1
    by_cases hi : i = n
    · subst hi
      rw [List.getElem_take, List.getElem_set_self, List.getElem_append_right (by simp; omega)]
      simp
    · have : i < n := by omega
      rw [List.getElem_take, List.getElem_set_ne (by omega), List.getElem_append_left (by simp; omega)]
      simp

theorem length_of_take_eq {l w : Bytes} {k : Nat} (h : l.take k = w) (hk : k = w.length) : w.length ≤ l.length := by
  have := congrArg List.length h
  simp at this; omega

/-! ### Invariants -/

structure Core (f : Framer) : Prop where
  hasBuf : f.hasBuf = true
  cap24 : HDR ≤ f.cap
  len : f.buf.length = f.cap
  hi : f.hi ≤ f.cap

/-- `f'` differs from `g` in control fields only, and has touched nothing outside the buffer. -/
structure Frame (f' g : Framer) : Prop where
  core : Core f'
  cap : f'.cap = g.cap
  buf : f'.buf = g.buf
  addr : f'.addr = g.addr

def StateOf (f : Framer) (p : Bytes) : Prop :=
  (p.length = 0 → f.state = .sync0) ∧ (p.length = 1 → f.state = .sync1) ∧
  (2 ≤ p.length → p.length < HDR → f.state = .header) ∧
  (HDR ≤ p.length → f.state = .data ∧ f.cur = HDR + u32le p 16)

theorem Core.touch {f : Framer} (h : Core f) {lo n : Nat} (hb : lo + n ≤ f.cap) : Core (f.touch lo n) := by
  unfold Framer.touch
  split
  · exact h
  · exact ⟨h.hasBuf, h.cap24, h.len, by simp only [Nat.max_le]; exact ⟨h.hi, hb⟩⟩

@[simp] theorem touch_buf (f : Framer) (lo n : Nat) : (f.touch lo n).buf = f.buf := by
  unfold Framer.touch; split <;> rfl
@[simp] theorem touch_cap (f : Framer) (lo n : Nat) : (f.touch lo n).cap = f.cap := by
  unfold Framer.touch; split <;> rfl
@[simp] theorem touch_next (f : Framer) (lo n : Nat) : (f.touch lo n).next = f.next := by
  unfold Framer.touch; split <;> rfl
@[simp] theorem touch_cur (f : Framer) (lo n : Nat) : (f.touch lo n).cur = f.cur := by
  unfold Framer.touch; split <;> rfl
@[simp] theorem touch_hasBuf (f : Framer) (lo n : Nat) : (f.touch lo n).hasBuf = f.hasBuf := by
  unfold Framer.touch; split <;> rfl
@[simp] theorem touch_addr (f : Framer) (lo n : Nat) : (f.touch lo n).addr = f.addr := by
  unfold Framer.touch; split <;> rfl

/-! ### What a pending window looks like -/

theorem stop_sync0 {cap : Nat} {p : Bytes} (h : stepT cap p = .stop) (h1 : 1 ≤ p.length) : byteAt p 0 = SYNC0 := by
  unfold stepT at h
  rw [if_neg (by omega)] at h
  by_cases h0 : byteAt p 0 = SYNC0
  · exact h0
  · rw [if_pos h0] at h; cases h

theorem stop_sync1 {cap : Nat} {p : Bytes} (h : stepT cap p = .stop) (h2 : 2 ≤ p.length) : byteAt p 1 = SYNC1 := by
  have h0 := stop_sync0 h (by omega)
  unfold stepT at h
  rw [if_neg (by omega), if_neg (by simpa using h0), if_neg (by omega)] at h
  by_cases h1 : byteAt p 1 = SYNC1
  · exact h1
  · rw [if_pos h1] at h; cases h

theorem stop_long {cap : Nat} {p : Bytes} (h : stepT cap p = .stop) (h24 : HDR ≤ p.length) :
    cxxHeaderOk cap (p.take HDR) = true ∧ p.length < HDR + u32le p 16 := by
  rw [stepT_of_long h24] at h
  rcases stop_iff.1 h with h' | ⟨h1, h2⟩
  · exact absurd h' (by show ¬ p.length < HDR; omega)
  · rw [cfgCxx_msgLen] at h2; exact ⟨h1, h2⟩

theorem headerOk_facts {cap : Nat} {p : Bytes} (h : cxxHeaderOk cap (p.take HDR) = true) :
    HDR + u32le p 16 < U32 ∧ u16le p 2 = 0 ∧ HDR + u32le p 16 ≤ cap := by
  rw [cxxHeaderOk_take] at h
  simp at h
  exact ⟨h.1.1.2, h.1.2, h.2⟩

theorem pend_lt_cap {cap : Nat} {p : Bytes} (h : stepT cap p = .stop) (hc : HDR ≤ cap) : p.length < cap := by
  by_cases h24 : HDR ≤ p.length
  · have := stop_long h h24
    have := headerOk_facts this.1
    omega
  · omega

/-! ### `crcCheck` -/

theorem crcCheck_spec {g : Framer} {w : Bytes} (hc : Core g) (hwin : g.buf.take w.length = w)
    (hlen : w.length = HDR + u32le w 16) (hcur : g.cur = w.length) (hcap : w.length ≤ g.cap) :
    Frame (crcCheck g).f g ∧ (crcCheck g).f.state = .sync0 ∧ (crcCheck g).f.next = g.next ∧
    (cxxCrcOk w = true → (crcCheck g).ret = (w.length : Int) ∧ (crcCheck g).cb = some w) ∧
    (cxxCrcOk w = false → (crcCheck g).ret = -1 ∧ (crcCheck g).cb = none) := by
  have h24 : 24 ≤ w.length := by unfold HDR at hlen; omega
  have e16 : u32le g.buf 16 = u32le w 16 := u32le_of_take hwin (by omega)
  have e4 : u32le g.buf 4 = u32le w 4 := u32le_of_take hwin (by omega)
  have ecrc : (g.buf.drop 8).take (16 + u32le g.buf 16) = (w.take (HDR + u32le w 16)).drop 8 := by
    rw [← hlen, List.take_length, ← hwin, List.drop_take, e16]
    congr 1; unfold HDR at hlen; omega
  have hcore : Core (g.touch 0 (HDR + u32le g.buf 16)) := hc.touch (by rw [e16, ← hlen]; omega)
  unfold crcCheck cxxCrcOk
  rw [ecrc, e4]
  by_cases hok : (crc32 0#32 ((w.take (HDR + u32le w 16)).drop 8)).toNat = u32le w 4
  · rw [if_pos hok]
    refine ⟨⟨⟨hcore.hasBuf, hcore.cap24, hcore.len, hcore.hi⟩, by simp, by simp, by simp⟩, rfl, by simp, ?_, ?_⟩
    · intro _
      refine ⟨by simp [hcur], ?_⟩
      simp only [e16, ← hlen, hwin]
    · intro h; simp [hok] at h
  · rw [if_neg hok]
    refine ⟨⟨⟨hcore.hasBuf, hcore.cap24, hcore.len, hcore.hi⟩, by simp, by simp, by simp⟩, rfl, by simp, ?_, ?_⟩
    · intro h; simp [hok] at h
    · intro _; exact ⟨rfl, rfl⟩

/-! ### `onByte` against the verdict on the window -/

/-- The framer right before `onByte`: byte `b` has just been placed behind the pending window `p`. -/
structure Pre (cap : Nat) (g : Framer) (p : Bytes) (b : Byte) : Prop where
  core : Core g
  capEq : g.cap = cap
  next : g.next = p.length + 1
  win : g.buf.take (p.length + 1) = p ++ [b]
  pend : stepT cap p = .stop
  st : StateOf g p

/-- What `onByte` must do, as a function of the verdict on the window `p ++ [b]`. -/
def Post (cap : Nat) (g : Framer) (p : Bytes) (b : Byte) (R : ByteOut) : Prop :=
  Frame R.f g ∧
  match stepT cap (p ++ [b]) with
  | .stop => R.ret = 0 ∧ R.cb = none ∧ R.f.next = g.next ∧ StateOf R.f (p ++ [b])
  | .emit n => n = p.length + 1 ∧ R.ret = (n : Int) ∧ R.cb = some (p ++ [b]) ∧ R.f.state = .sync0
  | .drop => R.cb = none ∧
      ((p.length ≤ 1 ∧ R.ret = 0 ∧
          ((b.toNat = SYNC0 ∧ R.f.state = .sync1 ∧ R.f.next = 1) ∨
           (b.toNat ≠ SYNC0 ∧ R.f.state = .sync0 ∧ R.f.next = 0))) ∨
       (2 ≤ p.length ∧ R.ret = -1 ∧ R.f.state = .sync0 ∧ R.f.next = g.next))

theorem Pre.byte {cap : Nat} {g : Framer} {p : Bytes} {b : Byte} (h : Pre cap g p b) :
    byteAt g.buf (g.next - 1) = b.toNat := by
  rw [h.next, Nat.add_sub_cancel, byteAt_of_take h.win (by omega), byteAt_append_right]

theorem Pre.len_le {cap : Nat} {g : Framer} {p : Bytes} {b : Byte} (h : Pre cap g p b) :
    p.length + 1 ≤ g.cap := by
  have := length_of_take_eq h.win (by simp)
  simp at this
  rw [h.core.len] at this; exact this

theorem onByte_eq {cap : Nat} {g : Framer} {p : Bytes} {b : Byte} (q : Bool) (h : Pre cap g p b) :
    onByte q g = onByteState (g.touch p.length 1) b.toNat := by
  unfold onByte
  rw [if_neg (by simp [h.core.hasBuf]), if_neg (by rw [h.next]; omega), h.byte, h.next, Nat.add_sub_cancel]

theorem u16le2_eq_zero (bs : Bytes) : u16le bs 2 = 0 ↔ (byteAt bs 2 = 0 ∧ byteAt bs 3 = 0) := by
  show byteAt bs 2 + 256 * byteAt bs 3 = 0 ↔ _
  omega

theorem onHeader_post {cap : Nat} {g g2 : Framer} {p : Bytes} {b : Byte} (h : Pre cap g p b)
    (hfull : p.length + 1 = HDR) (hp2 : 2 ≤ p.length)
    (e1 : g2.hasBuf = g.hasBuf) (e2 : g2.cap = g.cap) (e3 : g2.buf = g.buf) (e4 : g2.addr = g.addr)
    (e5 : g2.hi ≤ g.cap) (e6 : g2.next = g.next) (e7 : g2.cur = (HDR + u32le g.buf 16) % U32) :
    Post cap g p b (onHeader g2) := by
  have hp23 : p.length = 23 := by unfold HDR at hfull; omega
  have hwl24 : (p ++ [b]).length = 24 := by simp; omega
  have h0 := stop_sync0 h.pend (by omega)
  have h1 := stop_sync1 h.pend hp2
  have hw0 : byteAt (p ++ [b]) 0 = SYNC0 := by rw [byteAt_append (by omega)]; exact h0
  have hw1 : byteAt (p ++ [b]) 1 = SYNC1 := by rw [byteAt_append (by omega)]; exact h1
  have hlong : stepT cap (p ++ [b]) = (cfgCxx cap).step (p ++ [b]) := by
    unfold stepT
    rw [if_neg (by omega), if_neg (by simpa using hw0), if_neg (by omega), if_neg (by simpa using hw1)]
  unfold Post
  rw [hlong]
  have hwin : g.buf.take 24 = p ++ [b] := by have := h.win; rwa [hp23] at this
  have e16 : u32le g.buf 16 = u32le (p ++ [b]) 16 := u32le_of_take hwin (by omega)
  have eb2 : byteAt g.buf 2 = byteAt (p ++ [b]) 2 := byteAt_of_take hwin (by omega)
  have eb3 : byteAt g.buf 3 = byteAt (p ++ [b]) 3 := byteAt_of_take hwin (by omega)
  have hpl := u32le_lt (p ++ [b]) 16
  have hcap24 := h.core.cap24
  have hcore2 : Core g2 := ⟨by rw [e1]; exact h.core.hasBuf, by rw [e2]; exact h.core.cap24,
    by rw [e3, e2]; exact h.core.len, by rw [e2]; exact e5⟩
  have hframe2 : ∀ f' : Framer, f'.hasBuf = g2.hasBuf → f'.cap = g.cap → f'.buf = g.buf → f'.addr = g2.addr →
      f'.hi = g2.hi → Frame f' g := by
    intro f' a1 a2 a3 a4 a5
    exact ⟨⟨by rw [a1, e1]; exact h.core.hasBuf, by rw [a2]; exact h.core.cap24,
      by rw [a3, a2]; exact h.core.len, by rw [a5, a2]; exact e5⟩, a2, a3, by rw [a4, e4]⟩
  have hstep := cfgCxx_step cap (p ++ [b])
  rw [if_neg (by unfold HDR; omega), cxxHeaderOk_take] at hstep
  unfold onHeader
  rw [e7, e3, e2, e16, eb2, eb3]
  by_cases ho : HDR + u32le (p ++ [b]) 16 < U32
  · have hmod : (HDR + u32le (p ++ [b]) 16) % U32 = HDR + u32le (p ++ [b]) 16 := Nat.mod_eq_of_lt ho
    rw [hmod, if_neg (by omega)]
    by_cases hr : byteAt (p ++ [b]) 2 ≠ 0 ∨ byteAt (p ++ [b]) 3 ≠ 0
    · rw [if_pos hr]
      have hv : (cfgCxx cap).step (p ++ [b]) = .drop := by
        rw [hstep, if_pos]
        have : ¬ u16le (p ++ [b]) 2 = 0 := by rw [u16le2_eq_zero]; omega
        simp [this]
      rw [hv]
      exact ⟨hframe2 _ rfl rfl rfl rfl rfl, rfl, Or.inr ⟨hp2, rfl, rfl, e6⟩⟩
    · rw [if_neg hr]
      have hr0 : u16le (p ++ [b]) 2 = 0 := by rw [u16le2_eq_zero]; omega
      by_cases hc : HDR + u32le (p ++ [b]) 16 > g.cap
      · rw [if_pos hc]
        have hv : (cfgCxx cap).step (p ++ [b]) = .drop := by
          rw [hstep, if_pos]
          have : ¬ HDR + u32le (p ++ [b]) 16 ≤ cap := by rw [← h.capEq]; omega
          simp [this]
        rw [hv]
        exact ⟨hframe2 _ rfl rfl rfl rfl rfl, rfl, Or.inr ⟨hp2, rfl, rfl, e6⟩⟩
      · rw [if_neg hc]
        have hok : (decide (byteAt (p ++ [b]) 0 = SYNC0) && decide (byteAt (p ++ [b]) 1 = SYNC1) &&
            decide (HDR + u32le (p ++ [b]) 16 < U32) && decide (u16le (p ++ [b]) 2 = 0) &&
            decide (HDR + u32le (p ++ [b]) 16 ≤ cap)) = true := by
          have : HDR + u32le (p ++ [b]) 16 ≤ cap := by rw [← h.capEq]; omega
          simp [hw0, hw1, ho, hr0, this]
        rw [hok, if_neg (by simp)] at hstep
        by_cases hz : u32le (p ++ [b]) 16 = 0
        · rw [if_pos hz]
          have hspec := crcCheck_spec (g := g2) (w := p ++ [b]) hcore2
            (by rw [hwl24, e3]; exact hwin) (by rw [hwl24, hz]; rfl)
            (by rw [e7, e16, hmod, hwl24, hz]; rfl)
            (by rw [hwl24, e2]; exact hcap24)
          obtain ⟨hf, hst, hnx, hyes, hno⟩ := hspec
          have hfr : Frame (crcCheck g2).f g :=
            ⟨hf.core, by rw [hf.cap, e2], by rw [hf.buf, e3], by rw [hf.addr, e4]⟩
          rw [if_neg (by rw [hwl24, hz]; unfold HDR; omega)] at hstep
          by_cases hcrc : cxxCrcOk (p ++ [b]) = true
          · rw [if_pos hcrc] at hstep
            rw [hstep]
            obtain ⟨hret, hcb⟩ := hyes hcrc
            refine ⟨hfr, ?_, ?_, hcb, hst⟩
            · rw [hz]; unfold HDR; omega
            · rw [hret, hwl24, hz]; rfl
          · rw [if_neg hcrc] at hstep
            rw [hstep]
            obtain ⟨hret, hcb⟩ := hno (by simpa using hcrc)
            exact ⟨hfr, hcb, Or.inr ⟨hp2, hret, hst, by rw [hnx, e6]⟩⟩
        · rw [if_neg hz]
          rw [if_pos (by rw [hwl24]; unfold HDR; omega)] at hstep
          rw [hstep]
          refine ⟨hframe2 _ rfl rfl rfl rfl rfl, rfl, rfl, e6, ?_⟩
          refine ⟨by omega, by omega, fun _ hh => by unfold HDR at hh; omega, fun _ => ⟨rfl, ?_⟩⟩
          show (HDR + u32le (p ++ [b]) 16) = _
          rfl
  · have hlt : (HDR + u32le (p ++ [b]) 16) % U32 < u32le (p ++ [b]) 16 := by
      have : (HDR + u32le (p ++ [b]) 16) % U32 = HDR + u32le (p ++ [b]) 16 - U32 := by
        rw [Nat.mod_eq_sub_mod (by omega)]
        exact Nat.mod_eq_of_lt (by unfold HDR U32 at *; omega)
      rw [this]; unfold HDR U32 at *; omega
    rw [if_pos hlt]
    have hv : (cfgCxx cap).step (p ++ [b]) = .drop := by
      rw [hstep, if_pos]
      simp [ho]
    rw [hv]
    exact ⟨hframe2 _ rfl rfl rfl rfl rfl, rfl, Or.inr ⟨hp2, rfl, rfl, e6⟩⟩

theorem onByte_spec {cap : Nat} {g : Framer} {p : Bytes} {b : Byte} (q : Bool) (h : Pre cap g p b) :
    Post cap g p b (onByte q g) := by
  rw [onByte_eq q h]
  have hlen := h.len_le
  have hcore : Core (g.touch p.length 1) := h.core.touch hlen
  have hframe : ∀ f' : Framer, f'.hasBuf = g.hasBuf → f'.cap = g.cap → f'.buf = g.buf → f'.addr = g.addr →
      f'.hi = (g.touch p.length 1).hi → Frame f' g := by
    intro f' e1 e2 e3 e4 e5
    exact ⟨⟨by rw [e1]; exact h.core.hasBuf, by rw [e2]; exact h.core.cap24, by rw [e3, e2]; exact h.core.len,
      by rw [e5, e2]; exact hcore.hi⟩, e2, e3, e4⟩
  have hwl : (p ++ [b]).length = p.length + 1 := by simp
  obtain ⟨s0, s1, s2, s3⟩ := h.st
  -- classes of |p|
  rcases Nat.lt_or_ge p.length 1 with hp0 | hp1
  · -- SYNC0
    have hp : p = [] := List.eq_nil_of_length_eq_zero (by omega)
    subst hp
    have hs := s0 rfl
    unfold Post onByteState
    simp only [Framer.touch_state, hs, List.nil_append]
    by_cases hb : b.toNat = SYNC0
    · have hv : stepT cap [b] = .stop := by
        unfold stepT byteAt; simp [hb]
      rw [if_pos hb, hv]
      refine ⟨hframe _ (by simp) (by simp) (by simp) (by simp) rfl, rfl, rfl, by simp, ?_⟩
      refine ⟨by simp, fun _ => rfl, by simp, by simp [HDR]⟩
    · have hv : stepT cap [b] = .drop := by
        unfold stepT byteAt; simp [hb]
      rw [if_neg hb, hv]
      refine ⟨hframe _ (by simp) (by simp) (by simp) (by simp) rfl, rfl, Or.inl ⟨by simp, rfl, Or.inr ⟨hb, rfl, ?_⟩⟩⟩
      simp [h.next]
  rcases Nat.lt_or_ge p.length 2 with hp1' | hp2
  · -- SYNC1
    have hp1e : p.length = 1 := by omega
    have hs := s1 hp1e
    have h0 := stop_sync0 h.pend (by omega)
    have hw0 : byteAt (p ++ [b]) 0 = SYNC0 := by rw [byteAt_append (by omega)]; exact h0
    have hw1 : byteAt (p ++ [b]) 1 = b.toNat := by rw [← hp1e]; exact byteAt_append_right p b
    unfold Post onByteState
    simp only [Framer.touch_state, hs]
    by_cases hb : b.toNat = SYNC0
    · have hv : stepT cap (p ++ [b]) = .drop := by
        unfold stepT
        rw [if_neg (by omega), if_neg (by simpa using hw0), if_neg (by omega), if_pos (by rw [hw1, hb]; decide)]
      rw [if_pos hb, hv]
      refine ⟨hframe _ (by simp) (by simp) (by simp) (by simp) rfl, rfl, Or.inl ⟨by omega, rfl, Or.inl ⟨hb, rfl, ?_⟩⟩⟩
      simp [h.next, hp1e]
    · rw [if_neg hb]
      by_cases hb1 : b.toNat = SYNC1
      · have hv : stepT cap (p ++ [b]) = .stop := by
          unfold stepT
          rw [if_neg (by omega), if_neg (by simpa using hw0), if_neg (by omega), if_neg (by rw [hw1]; simpa using hb1)]
          exact stop_iff.2 (Or.inl (by show (p ++ [b]).length < 24; omega))
        rw [if_pos hb1, hv]
        refine ⟨hframe _ (by simp) (by simp) (by simp) (by simp) rfl, rfl, rfl, by simp, ?_⟩
        refine ⟨by omega, by omega, fun _ _ => rfl, fun hh => by unfold HDR at hh; omega⟩
      · have hv : stepT cap (p ++ [b]) = .drop := by
          unfold stepT
          rw [if_neg (by omega), if_neg (by simpa using hw0), if_neg (by omega), if_pos (by rw [hw1]; exact hb1)]
        rw [if_neg hb1, hv]
        exact ⟨hframe _ (by simp) (by simp) (by simp) (by simp) rfl, rfl,
          Or.inl ⟨by omega, rfl, Or.inr ⟨hb, rfl, rfl⟩⟩⟩
  have h0 := stop_sync0 h.pend (by omega)
  have h1 := stop_sync1 h.pend hp2
  have hlong : stepT cap (p ++ [b]) = (cfgCxx cap).step (p ++ [b]) := by
    unfold stepT
    rw [if_neg (by omega), if_neg (by rw [byteAt_append (by omega)]; simpa using h0), if_neg (by omega),
      if_neg (by rw [byteAt_append (by omega)]; simpa using h1)]
  rcases Nat.lt_or_ge p.length HDR with hp24 | hp24
  · -- HEADER
    have hs := s2 hp2 hp24
    unfold onByteState
    simp only [Framer.touch_state, hs, touch_next, h.next]
    by_cases hfull : p.length + 1 = HDR
    · rw [if_pos hfull]
      refine onHeader_post h hfull hp2 (by simp) (by simp) (by simp) (by simp) ?_ (by simp [h.next]) (by simp)
      have := (hcore.touch (lo := 0) (n := HDR) (by simpa using h.core.cap24)).hi
      simpa using this
    · rw [if_neg hfull]
      have hv : (cfgCxx cap).step (p ++ [b]) = .stop := stop_iff.2 (Or.inl (by show (p ++ [b]).length < HDR; omega))
      unfold Post
      rw [hlong, hv]
      refine ⟨hframe _ (by simp) (by simp) (by simp) (by simp) rfl, rfl, rfl, by simp [h.next], ?_⟩
      refine ⟨by omega, by omega, fun _ _ => by simp [hs], fun hh => by omega⟩
  · -- DATA
    obtain ⟨hs, hcur⟩ := s3 hp24
    obtain ⟨hok, hinc⟩ := stop_long h.pend hp24
    have hfacts := headerOk_facts hok
    have e16 : u32le (p ++ [b]) 16 = u32le p 16 := u32le_append (by unfold HDR at hp24; omega)
    have etake : (p ++ [b]).take HDR = p.take HDR := List.take_append_of_le_length hp24
    have hstep := cfgCxx_step cap (p ++ [b])
    rw [if_neg (by omega), etake, hok, if_neg (by simp), e16] at hstep
    unfold Post onByteState
    rw [hlong]
    simp only [Framer.touch_state, hs, touch_next, touch_cur, h.next, hcur]
    by_cases hfull : p.length + 1 = HDR + u32le p 16
    · rw [if_pos hfull]
      have hspec := crcCheck_spec (g := g.touch p.length 1) (w := p ++ [b]) hcore
        (by simpa [hwl] using h.win) (by rw [hwl, e16]; exact hfull) (by simp [hcur, hfull])
        (by simp only [touch_cap]; rw [hwl]; exact hlen)
      obtain ⟨hf, hst, hnx, hyes, hno⟩ := hspec
      have hfr : Frame (crcCheck (g.touch p.length 1)).f g :=
        ⟨hf.core, by rw [hf.cap]; simp, by rw [hf.buf]; simp, by rw [hf.addr]; simp⟩
      rw [if_neg (by omega)] at hstep
      by_cases hcrc : cxxCrcOk (p ++ [b]) = true
      · rw [if_pos hcrc] at hstep
        rw [hstep]
        obtain ⟨hret, hcb⟩ := hyes hcrc
        exact ⟨hfr, hfull.symm, by rw [hret, hwl, hfull], hcb, hst⟩
      · rw [if_neg hcrc] at hstep
        rw [hstep]
        obtain ⟨hret, hcb⟩ := hno (by simpa using hcrc)
        exact ⟨hfr, hcb, Or.inr ⟨hp2, hret, hst, by rw [hnx]; simp [h.next]⟩⟩
    · rw [if_neg hfull]
      rw [if_pos (by omega)] at hstep
      rw [hstep]
      refine ⟨hframe _ (by simp) (by simp) (by simp) (by simp) rfl, rfl, rfl, by simp [h.next], ?_⟩
      refine ⟨by omega, by omega, fun _ hh => by omega, fun _ => ⟨by simp [hs], by simp [hcur, e16]⟩⟩


/-! ### Unfolding `resyncLoop` -/

theorem resyncLoop_exit {f : Framer} {o avail total : Nat} {cbs : List Bytes} (h : ¬ o + 1 < avail) :
    resyncLoop f o avail total cbs = ⟨f, total, cbs⟩ := by
  rw [resyncLoop.eq_def]; simp [h]

theorem resyncLoop_skip {f : Framer} {o avail total : Nat} {cbs : List Bytes} (h : o + 1 < avail)
    (hs : f.state = .sync0) (hb : byteAt f.buf (o + 1) ≠ SYNC0) :
    resyncLoop f o avail total cbs = resyncLoop (f.touch (o + 1) 1) (o + 1) avail total cbs := by
  rw [resyncLoop.eq_def]; simp [h, hs, hb]

theorem resyncLoop_shift {f : Framer} {o avail total : Nat} {cbs : List Bytes} (h : o + 1 < avail)
    (hs : f.state = .sync0) (hb : byteAt f.buf (o + 1) = SYNC0) :
    resyncLoop f o avail total cbs =
      resyncLoop
        (resyncAfter (resyncByte ((f.touch (o + 1) 1).memmove (o + 1) (avail - (o + 1))) 0) 0).1
        (resyncAfter (resyncByte ((f.touch (o + 1) 1).memmove (o + 1) (avail - (o + 1))) 0) 0).2
        (avail - (o + 1))
        (addRet total (resyncByte ((f.touch (o + 1) 1).memmove (o + 1) (avail - (o + 1))) 0))
        (cbs ++ (resyncByte ((f.touch (o + 1) 1).memmove (o + 1) (avail - (o + 1))) 0).cb.toList) := by
  rw [resyncLoop.eq_def]; simp [h, hs, hb]

theorem resyncLoop_mid {f : Framer} {o avail total : Nat} {cbs : List Bytes} (h : o + 1 < avail)
    (hs : f.state ≠ .sync0) :
    resyncLoop f o avail total cbs =
      resyncLoop
        (resyncAfter (resyncByte (f.touch (o + 1) 1) (o + 1)) (o + 1)).1
        (resyncAfter (resyncByte (f.touch (o + 1) 1) (o + 1)) (o + 1)).2
        avail
        (addRet total (resyncByte (f.touch (o + 1) 1) (o + 1)))
        (cbs ++ (resyncByte (f.touch (o + 1) 1) (o + 1)).cb.toList) := by
  rw [resyncLoop.eq_def]; simp [h, hs]


/-! ### The simulation relation -/

def sumLen (l : List Bytes) : Nat := (l.map List.length).sum

/-- The literal framer holds exactly the pending window `p` of the re-feed machine. -/
structure Rel (cap : Nat) (f : Framer) (p : Bytes) : Prop where
  core : Core f
  capEq : f.cap = cap
  next : f.next = p.length
  win : f.buf.take p.length = p
  pend : stepT cap p = .stop
  st : StateOf f p

/-- What a stretch of execution (accumulators `total`, `cbs` on entry) owes for the window `w`. -/
def Delivers (cap : Nat) (R : Cxx.Out) (total : Nat) (cbs : List Bytes) (w : Bytes) (addr : Nat) : Prop :=
  Rel cap R.f (settle cap w).2 ∧ R.cbs = cbs ++ (settle cap w).1 ∧
    R.ret = total + sumLen (settle cap w).1 ∧ R.f.addr = addr

/-- Loop invariant of `Resync` while searching for a `SYNC0` (`state_ == SYNC0`). -/
structure LA (cap : Nat) (f : Framer) (avail : Nat) (W : Bytes) : Prop where
  core : Core f
  capEq : f.cap = cap
  st : f.state = .sync0
  next : f.next = 0
  le : avail ≤ cap
  win : f.buf.take avail = W

/-- Loop invariant of `Resync` inside a candidate: bytes `[0, o]` have been replayed. -/
structure LB (cap : Nat) (f : Framer) (o avail : Nat) (W : Bytes) : Prop where
  core : Core f
  capEq : f.cap = cap
  lo : o + 1 ≤ avail
  le : avail ≤ cap
  win : f.buf.take avail = W
  pend : stepT cap (W.take (o + 1)) = .stop
  st : StateOf f (W.take (o + 1))
  next : f.next = o + 1

theorem byteAt_drop (l : Bytes) (k i : Nat) : byteAt (l.drop k) i = byteAt l (k + i) := by
  unfold byteAt; simp [List.getD_eq_getElem?_getD]

theorem win_length {f : Framer} {avail : Nat} {W : Bytes} (hc : Core f) (hle : avail ≤ f.cap)
    (hw : f.buf.take avail = W) : W.length = avail := by
  rw [← hw, List.length_take, hc.len]; omega

theorem stepT_drop_of_byte {cap : Nat} {w : Bytes} (hl : 0 < w.length) (hb : byteAt w 0 ≠ SYNC0) :
    stepT cap w = .drop := by
  unfold stepT; rw [if_neg (by omega), if_pos hb]

theorem stateOf_ge2 {f : Framer} {w : Bytes} (h : StateOf f w) (h2 : 2 ≤ w.length) :
    f.state ≠ .sync0 ∧ f.state ≠ .sync1 := by
  obtain ⟨_, _, s2, s3⟩ := h
  rcases Nat.lt_or_ge w.length HDR with hl | hl
  · rw [s2 h2 hl]; exact ⟨by decide, by decide⟩
  · rw [(s3 hl).1]; exact ⟨by decide, by decide⟩


/-! ### `Resync`, searching for a candidate -/

theorem rel_nil {cap : Nat} {f : Framer} (hc : Core f) (he : f.cap = cap) (hs : f.state = .sync0) (hn : f.next = 0) :
    Rel cap f [] :=
  ⟨hc, he, hn, rfl, by simp [stepT], ⟨fun _ => hs, fun h => by simp at h, fun h => by simp at h,
    fun h => by simp [HDR] at h⟩⟩

theorem modeA_exit {cap : Nat} {f : Framer} {o avail total : Nat} {cbs : List Bytes} {W : Bytes}
    (hA : LA cap f avail W) (hlt : ¬ o + 1 < avail) :
    Delivers cap (resyncLoop f o avail total cbs) total cbs (W.drop (o + 1)) f.addr := by
  have hWl := win_length hA.core (by rw [hA.capEq]; exact hA.le) hA.win
  rw [resyncLoop_exit hlt, List.drop_eq_nil_of_le (by omega), ]
  unfold Delivers
  rw [settle_nil]
  exact ⟨rel_nil hA.core hA.capEq hA.st hA.next, by simp, by simp [sumLen], rfl⟩

theorem memmove_buf (f : Framer) (o n : Nat) : (f.memmove o n).buf = (f.buf.drop o).take n ++ f.buf.drop n := rfl
@[simp] theorem memmove_cap (f : Framer) (o n : Nat) : (f.memmove o n).cap = f.cap := by simp [Framer.memmove]
@[simp] theorem memmove_state (f : Framer) (o n : Nat) : (f.memmove o n).state = f.state := by simp [Framer.memmove]
@[simp] theorem memmove_addr (f : Framer) (o n : Nat) : (f.memmove o n).addr = f.addr := by simp [Framer.memmove]
@[simp] theorem memmove_hasBuf (f : Framer) (o n : Nat) : (f.memmove o n).hasBuf = f.hasBuf := by simp [Framer.memmove]

theorem memmove_core {f : Framer} (hc : Core f) {o n : Nat} (h : o + n ≤ f.cap) : Core (f.memmove o n) := by
  have h1 : Core (f.touch o n) := hc.touch h
  have h2 : Core ((f.touch o n).touch 0 n) := h1.touch (by simp; omega)
  refine ⟨by simpa using hc.hasBuf, by simpa using hc.cap24, ?_, ?_⟩
  · rw [memmove_buf, memmove_cap, List.length_append, List.length_take, List.length_drop, List.length_drop, hc.len]
    omega
  · have := h2.hi
    simpa [Framer.memmove] using this

theorem memmove_take {f : Framer} (hc : Core f) {o n : Nat} (h : o + n ≤ f.cap) :
    (f.memmove o n).buf.take n = (f.buf.take (o + n)).drop o := by
  rw [memmove_buf, List.take_append_of_le_length (by rw [List.length_take, List.length_drop, hc.len]; omega),
    List.take_take, Nat.min_self, List.drop_take]
  congr 1; omega

theorem shift_step {cap : Nat} {f : Framer} {o avail : Nat} {W : Bytes} (hA : LA cap f avail W)
    (hlt : o + 1 < avail) (hb : byteAt f.buf (o + 1) = SYNC0) :
    (resyncByte ((f.touch (o + 1) 1).memmove (o + 1) (avail - (o + 1))) 0).cb = none ∧
    (resyncByte ((f.touch (o + 1) 1).memmove (o + 1) (avail - (o + 1))) 0).f.state = .sync1 ∧
    (resyncByte ((f.touch (o + 1) 1).memmove (o + 1) (avail - (o + 1))) 0).f.addr = f.addr ∧
    LB cap (resyncByte ((f.touch (o + 1) 1).memmove (o + 1) (avail - (o + 1))) 0).f 0 (avail - (o + 1))
      (W.drop (o + 1)) := by
  have hcapf : avail ≤ f.cap := by rw [hA.capEq]; exact hA.le
  have hWl := win_length hA.core hcapf hA.win
  have hct : Core (f.touch (o + 1) 1) := hA.core.touch (by omega)
  have hsum : o + 1 + (avail - (o + 1)) = avail := by omega
  have hc1 : Core ((f.touch (o + 1) 1).memmove (o + 1) (avail - (o + 1))) :=
    memmove_core hct (by simp; omega)
  have htk : ((f.touch (o + 1) 1).memmove (o + 1) (avail - (o + 1))).buf.take (avail - (o + 1)) = W.drop (o + 1) := by
    rw [memmove_take hct (by simp; omega), hsum, touch_buf, hA.win]
  -- the first byte of the shifted window
  have hW'l : (W.drop (o + 1)).length = avail - (o + 1) := by simp [hWl]
  obtain ⟨b, W'', hW'⟩ : ∃ b W'', W.drop (o + 1) = b :: W'' := by
    cases hh : W.drop (o + 1) with
    | nil => rw [hh] at hW'l; simp at hW'l; omega
    | cons b t => exact ⟨b, t, rfl⟩
  have hb0 : b.toNat = SYNC0 := by
    have : byteAt f.buf (o + 1) = byteAt (W.drop (o + 1)) 0 := by
      rw [byteAt_drop, ← hA.win, byteAt_take (by omega)]
    rw [this, hW'] at hb
    simpa [byteAt] using hb
  have hpre : Pre cap { ((f.touch (o + 1) 1).memmove (o + 1) (avail - (o + 1))) with next := 0 + 1 } [] b := by
    refine ⟨⟨hc1.hasBuf, hc1.cap24, hc1.len, hc1.hi⟩, by simp [hA.capEq], rfl, ?_, by simp [stepT], ?_⟩
    · show ((f.touch (o + 1) 1).memmove (o + 1) (avail - (o + 1))).buf.take 1 = [b]
      have : ((f.touch (o + 1) 1).memmove (o + 1) (avail - (o + 1))).buf.take 1 =
          (((f.touch (o + 1) 1).memmove (o + 1) (avail - (o + 1))).buf.take (avail - (o + 1))).take 1 := by
        rw [List.take_take]; congr 1; omega
      rw [this, htk, hW']; rfl
    · exact ⟨fun _ => by simp [hA.st], fun h => by simp at h, fun h => by simp at h, fun h => by simp [HDR] at h⟩
  have hpost := onByte_spec true hpre
  unfold Post at hpost
  have hv : stepT cap ([] ++ [b]) = .stop := by
    unfold stepT byteAt; simp [hb0]
  rw [hv] at hpost
  obtain ⟨hfr, hret, hcb, hnx, hst⟩ := hpost
  have hs1 : (onByte true { ((f.touch (o + 1) 1).memmove (o + 1) (avail - (o + 1))) with next := 0 + 1 }).f.state = .sync1 :=
    hst.2.1 (by simp)
  have hrb : resyncByte ((f.touch (o + 1) 1).memmove (o + 1) (avail - (o + 1))) 0 =
      onByte true { ((f.touch (o + 1) 1).memmove (o + 1) (avail - (o + 1))) with next := 0 + 1 } := by
    unfold resyncByte resyncDup
    rw [if_neg (by simp)]
  rw [hrb]
  refine ⟨hcb, hs1, by rw [hfr.addr]; simp, ⟨hfr.core, by rw [hfr.cap]; simp [hA.capEq], by omega, by have := hA.le; omega, ?_, ?_, ?_, by rw [hnx]⟩⟩
  · rw [hfr.buf]; exact htk
  · rw [hW']; simpa using hv
  · rw [hW']; simpa using hst

theorem modeA {cap avail : Nat}
    (HB : ∀ a', a' < avail → ∀ (f : Framer) (o : Nat) (W : Bytes) (total : Nat) (cbs : List Bytes),
      LB cap f o a' W → Delivers cap (resyncLoop f o a' total cbs) total cbs W f.addr) :
    ∀ (k : Nat) (f : Framer) (o : Nat) (W : Bytes) (total : Nat) (cbs : List Bytes), avail - o = k →
      LA cap f avail W → Delivers cap (resyncLoop f o avail total cbs) total cbs (W.drop (o + 1)) f.addr := by
  intro k
  induction k with
  | zero => intro f o W total cbs hk hA; exact modeA_exit hA (by omega)
  | succ k ih =>
    intro f o W total cbs hk hA
    by_cases hlt : o + 1 < avail
    · have hWl := win_length hA.core (by rw [hA.capEq]; exact hA.le) hA.win
      have hcapf : avail ≤ f.cap := by rw [hA.capEq]; exact hA.le
      have hbyte : byteAt f.buf (o + 1) = byteAt (W.drop (o + 1)) 0 := by
        rw [byteAt_drop, ← hA.win, byteAt_take (by omega)]
      by_cases hb : byteAt f.buf (o + 1) = SYNC0
      · -- candidate start: shift left and replay it
        rw [resyncLoop_shift hlt hA.st hb]
        obtain ⟨hcb, hs1, haddr, hLB⟩ := shift_step hA hlt hb
        have hne : (resyncByte ((f.touch (o + 1) 1).memmove (o + 1) (avail - (o + 1))) 0).f.state ≠ .sync0 := by
          rw [hs1]; decide
        have hafter : resyncAfter (resyncByte ((f.touch (o + 1) 1).memmove (o + 1) (avail - (o + 1))) 0) 0 =
            ((resyncByte ((f.touch (o + 1) 1).memmove (o + 1) (avail - (o + 1))) 0).f, 0) := by
          unfold resyncAfter; rw [if_neg hne]
        have hadd : addRet total (resyncByte ((f.touch (o + 1) 1).memmove (o + 1) (avail - (o + 1))) 0) = total := by
          unfold addRet; rw [if_neg (fun hh => hne hh.1)]
        rw [hafter, hadd, hcb]
        have := HB (avail - (o + 1)) (by omega) _ 0 _ total cbs hLB
        rw [haddr] at this
        simpa using this
      · rw [resyncLoop_skip hlt hA.st hb]
        have hd : stepT cap (W.drop (o + 1)) = .drop :=
          stepT_drop_of_byte (by simp; omega) (by rw [← hbyte]; exact hb)
        have := ih (f.touch (o + 1) 1) (o + 1) W total cbs (by omega)
          ⟨hA.core.touch (by omega), by simp [hA.capEq], by simp [hA.st], by simp [hA.next], hA.le,
            by simp [hA.win]⟩
        unfold Delivers at this ⊢
        rw [settle_drop hd, List.drop_drop]
        simpa using this
    · exact modeA_exit hA hlt


/-! ### `Resync`, inside a candidate -/

theorem Core.congr {f f' : Framer} (h : Core f) (e1 : f'.hasBuf = f.hasBuf) (e2 : f'.cap = f.cap)
    (e3 : f'.buf = f.buf) (e4 : f'.hi = f.hi) : Core f' :=
  ⟨by rw [e1]; exact h.hasBuf, by rw [e2]; exact h.cap24, by rw [e3, e2]; exact h.len, by rw [e4, e2]; exact h.hi⟩

theorem stateOf_ge1 {f : Framer} {w : Bytes} (h : StateOf f w) (h1 : 1 ≤ w.length) : f.state ≠ .sync0 := by
  rcases Nat.lt_or_ge w.length 2 with h2 | h2
  · rw [h.2.1 (by omega)]; decide
  · exact (stateOf_ge2 h h2).1

theorem take_succ_of_drop {W : Bytes} {k : Nat} {b : Byte} {rest : Bytes} (h : W.drop k = b :: rest) :
    W.take (k + 1) = W.take k ++ [b] := by
  have hk : k < W.length := by
    rcases Nat.lt_or_ge k W.length with h' | h'
    · exact h'
    · rw [List.drop_eq_nil_of_le h'] at h; cases h
  have hb : W[k] = b := by
    have := List.getElem_drop (xs := W) (i := k) (j := 0) (h := by simp; omega)
    simp only [h, Nat.add_zero] at this
    simpa using this.symm
  rw [List.take_succ, List.getElem?_eq_getElem hk, hb]; rfl

/-- A rejected candidate: the loop restarts the search at offset 1. -/
theorem reject_restart {cap : Nat} {f : Framer} {avail : Nat} {W : Bytes} {r : ByteOut} {off total : Nat}
    {cbs : List Bytes}
    (HA : ∀ (f : Framer) (o : Nat) (W : Bytes) (total : Nat) (cbs : List Bytes),
      LA cap f avail W → Delivers cap (resyncLoop f o avail total cbs) total cbs (W.drop (o + 1)) f.addr)
    (hs : r.f.state = .sync0) (hret : ¬ r.ret > 0) (hcb : r.cb = none) (hfr : Frame r.f f)
    (hcap : f.cap = cap) (hle : avail ≤ cap) (hwin : f.buf.take avail = W)
    (hd : stepT cap W = .drop) :
    Delivers cap (resyncLoop (resyncAfter r off).1 (resyncAfter r off).2 avail (addRet total r)
      (cbs ++ r.cb.toList)) total cbs W f.addr := by
  have h1 : resyncAfter r off = ({ r.f with next := 0 }, 0) := by
    unfold resyncAfter; rw [if_pos hs, if_neg hret]
  have h2 : addRet total r = total := by
    unfold addRet; rw [if_neg (fun hh => hret hh.2)]
  rw [h1, h2, hcb]
  have := HA { r.f with next := 0 } 0 W total cbs
    ⟨hfr.core.congr rfl rfl rfl rfl, by show r.f.cap = cap; rw [hfr.cap, hcap], hs, rfl, hle,
      by show r.f.buf.take avail = W; rw [hfr.buf]; exact hwin⟩
  unfold Delivers at this ⊢
  rw [settle_drop hd]
  have ha : ({ r.f with next := 0 } : Framer).addr = f.addr := hfr.addr
  rw [ha] at this
  simpa using this


theorem modeB {cap avail : Nat}
    (HA : ∀ (f : Framer) (o : Nat) (W : Bytes) (total : Nat) (cbs : List Bytes),
      LA cap f avail W → Delivers cap (resyncLoop f o avail total cbs) total cbs (W.drop (o + 1)) f.addr) :
    ∀ (k : Nat) (f : Framer) (o : Nat) (W : Bytes) (total : Nat) (cbs : List Bytes), avail - o = k →
      LB cap f o avail W → Delivers cap (resyncLoop f o avail total cbs) total cbs W f.addr := by
  intro k
  induction k with
  | zero => intro f o W total cbs hk hB; have := hB.lo; omega
  | succ k ih =>
    intro f o W total cbs hk hB
    have hcapf : avail ≤ f.cap := by rw [hB.capEq]; exact hB.le
    have hWl := win_length hB.core hcapf hB.win
    have hpl : (W.take (o + 1)).length = o + 1 := by rw [List.length_take]; have := hB.lo; omega
    by_cases hlt : o + 1 < avail
    · have hne : f.state ≠ .sync0 := stateOf_ge1 hB.st (by omega)
      rw [resyncLoop_mid hlt hne]
      obtain ⟨b, rest, hdrop⟩ : ∃ b rest, W.drop (o + 1) = b :: rest := by
        cases hh : W.drop (o + 1) with
        | nil => have := congrArg List.length hh; simp at this; omega
        | cons b t => exact ⟨b, t, rfl⟩
      have htk : W.take (o + 1 + 1) = W.take (o + 1) ++ [b] := take_succ_of_drop hdrop
      have hWsplit : W = (W.take (o + 1) ++ [b]) ++ rest := by
        rw [List.append_assoc]
        have := List.take_append_drop (o + 1) W
        rw [hdrop] at this; exact this.symm
      have hpre : Pre cap { (f.touch (o + 1) 1) with next := o + 1 + 1 } (W.take (o + 1)) b := by
        refine ⟨(hB.core.touch (by omega)).congr rfl rfl rfl rfl, by simp [hB.capEq], by rw [hpl], ?_, hB.pend, ?_⟩
        · show (f.touch (o + 1) 1).buf.take ((W.take (o + 1)).length + 1) = _
          rw [hpl, touch_buf, ← htk, ← hB.win, List.take_take]; congr 1; omega
        · obtain ⟨a, b', c, d⟩ := hB.st
          exact ⟨fun h => by simpa using a h, fun h => by simpa using b' h, fun h h' => by simpa using c h h',
            fun h => by simpa using d h⟩
      have hpost := onByte_spec true hpre
      have hfr0 : Frame (onByte true { (f.touch (o + 1) 1) with next := o + 1 + 1 }).f f := by
        have := hpost.1
        exact ⟨this.core, by rw [this.cap]; simp, by rw [this.buf]; simp, by rw [this.addr]; simp⟩
      have hrb : resyncByte (f.touch (o + 1) 1) (o + 1) =
          resyncDup (onByte true { (f.touch (o + 1) 1) with next := o + 1 + 1 }) (o + 1) := rfl
      rw [hrb]
      unfold Post at hpost
      cases hv : stepT cap (W.take (o + 1) ++ [b]) with
      | stop =>
        rw [hv] at hpost
        obtain ⟨_, hret, hcb, hnx, hst⟩ := hpost
        have hst2 := stateOf_ge2 hst (by simp; omega)
        have hdup : resyncDup (onByte true { (f.touch (o + 1) 1) with next := o + 1 + 1 }) (o + 1) =
            onByte true { (f.touch (o + 1) 1) with next := o + 1 + 1 } := by
          unfold resyncDup; rw [if_neg (fun hh => hst2.2 hh.1)]
        rw [hdup]
        have hafter : resyncAfter (onByte true { (f.touch (o + 1) 1) with next := o + 1 + 1 }) (o + 1) =
            ((onByte true { (f.touch (o + 1) 1) with next := o + 1 + 1 }).f, o + 1) := by
          unfold resyncAfter; rw [if_neg hst2.1]
        have hadd : addRet total (onByte true { (f.touch (o + 1) 1) with next := o + 1 + 1 }) = total := by
          unfold addRet; rw [if_neg (fun hh => hst2.1 hh.1)]
        rw [hafter, hadd, hcb]
        have := ih _ (o + 1) W total cbs (by omega)
          ⟨hfr0.core, by rw [hfr0.cap]; exact hB.capEq, by omega, hB.le, by rw [hfr0.buf]; exact hB.win,
            by rw [htk]; exact hv, by rw [htk]; exact hst, by rw [hnx]⟩
        rw [hfr0.addr] at this
        simpa using this
      | emit n =>
        rw [hv] at hpost
        obtain ⟨_, hn, hret, hcb, hst⟩ := hpost
        rw [hpl] at hn
        subst hn
        have hdup : resyncDup (onByte true { (f.touch (o + 1) 1) with next := o + 1 + 1 }) (o + 1) =
            onByte true { (f.touch (o + 1) 1) with next := o + 1 + 1 } := by
          unfold resyncDup; rw [if_neg (fun hh => by rw [hst] at hh; exact absurd hh.1 (by decide))]
        rw [hdup]
        have hpos : (onByte true { (f.touch (o + 1) 1) with next := o + 1 + 1 }).ret > 0 := by rw [hret]; omega
        have htn : (((o + 1 + 1 : Nat) : Int) - 1).toNat = o + 1 := by omega
        have hafter : resyncAfter (onByte true { (f.touch (o + 1) 1) with next := o + 1 + 1 }) (o + 1) =
            ({ (onByte true { (f.touch (o + 1) 1) with next := o + 1 + 1 }).f with next := 0 }, o + 1) := by
          unfold resyncAfter; rw [if_pos hst, if_pos hpos, hret, htn]
        have hadd : addRet total (onByte true { (f.touch (o + 1) 1) with next := o + 1 + 1 }) = total + (o + 1 + 1) := by
          unfold addRet; rw [if_pos ⟨hst, hpos⟩, hret]; rfl
        rw [hafter, hadd, hcb]
        have hWn : stepT cap W = .emit (o + 1 + 1) := by
          rw [hWsplit, stepT_append_of_ne_stop rest (by rw [hv]; simp), hv]
        have := HA { (onByte true { (f.touch (o + 1) 1) with next := o + 1 + 1 }).f with next := 0 } (o + 1) W
          (total + (o + 1 + 1)) (cbs ++ [W.take (o + 1) ++ [b]])
          ⟨hfr0.core.congr rfl rfl rfl rfl, by show _ = cap; rw [← hB.capEq]; exact hfr0.cap, hst, rfl, hB.le,
            by show (onByte true _).f.buf.take avail = W; rw [hfr0.buf]; exact hB.win⟩
        unfold Delivers at this ⊢
        rw [settle_emit hWn]
        have ha : ({ (onByte true { (f.touch (o + 1) 1) with next := o + 1 + 1 }).f with next := 0 } : Framer).addr
            = f.addr := hfr0.addr
        rw [ha] at this
        obtain ⟨t1, t2, t3, t4⟩ := this
        refine ⟨t1, ?_, ?_, t4⟩
        · show _ = cbs ++ (W.take (o + 1 + 1) :: _)
          rw [htk]
          simpa using t2
        · show _ = total + sumLen (W.take (o + 1 + 1) :: _)
          rw [htk]
          simp only [Option.toList] at t3 ⊢
          rw [t3]; simp [sumLen, hpl]; omega
      | drop =>
        rw [hv] at hpost
        obtain ⟨_, hcb, hcase⟩ := hpost
        have hWd : stepT cap W = .drop := by
          rw [hWsplit, stepT_append_of_ne_stop rest (by rw [hv]; simp), hv]
        rcases hcase with ⟨hp1, hret, hsub⟩ | ⟨hp2, hret, hst, hnx⟩
        · rcases hsub with ⟨hb0, hst, hnx⟩ | ⟨hb0, hst, hnx⟩
          · -- duplicated SYNC0: Resync rejects the first one
            have hdup : resyncDup (onByte true { (f.touch (o + 1) 1) with next := o + 1 + 1 }) (o + 1) =
                { onByte true { (f.touch (o + 1) 1) with next := o + 1 + 1 } with
                  f := { (onByte true { (f.touch (o + 1) 1) with next := o + 1 + 1 }).f with state := .sync0 } } := by
              unfold resyncDup; rw [if_pos ⟨hst, by omega⟩]
            rw [hdup]
            exact reject_restart HA rfl (by show ¬ (onByte true _).ret > 0; rw [hret]; decide) hcb
              ⟨hfr0.core.congr rfl rfl rfl rfl, hfr0.cap, hfr0.buf, hfr0.addr⟩ hB.capEq hB.le hB.win hWd
          · have hdup : resyncDup (onByte true { (f.touch (o + 1) 1) with next := o + 1 + 1 }) (o + 1) =
                onByte true { (f.touch (o + 1) 1) with next := o + 1 + 1 } := by
              unfold resyncDup; rw [if_neg (fun hh => by rw [hst] at hh; exact absurd hh.1 (by decide))]
            rw [hdup]
            exact reject_restart HA hst (by rw [hret]; decide) hcb hfr0 hB.capEq hB.le hB.win hWd
        · have hdup : resyncDup (onByte true { (f.touch (o + 1) 1) with next := o + 1 + 1 }) (o + 1) =
              onByte true { (f.touch (o + 1) 1) with next := o + 1 + 1 } := by
            unfold resyncDup; rw [if_neg (fun hh => by rw [hst] at hh; exact absurd hh.1 (by decide))]
          rw [hdup]
          exact reject_restart HA hst (by rw [hret]; decide) hcb hfr0 hB.capEq hB.le hB.win hWd
    · -- all buffered bytes replayed
      have hoa : o + 1 = avail := by have := hB.lo; omega
      rw [resyncLoop_exit hlt]
      have hWW : W.take (o + 1) = W := List.take_of_length_le (by omega)
      have hpend := hB.pend
      have hst := hB.st
      rw [hWW] at hpend hst
      unfold Delivers
      rw [settle_stop hpend]
      exact ⟨⟨hB.core, hB.capEq, by rw [hB.next, hWl, hoa], by rw [hWl]; exact hB.win, hpend, hst⟩, by simp,
        by simp [sumLen], rfl⟩


/-! ### `Resync` as a whole -/

theorem resyncLoop_spec (cap : Nat) : ∀ (avail : Nat),
    (∀ (f : Framer) (o : Nat) (W : Bytes) (total : Nat) (cbs : List Bytes),
      LA cap f avail W → Delivers cap (resyncLoop f o avail total cbs) total cbs (W.drop (o + 1)) f.addr) ∧
    (∀ (f : Framer) (o : Nat) (W : Bytes) (total : Nat) (cbs : List Bytes),
      LB cap f o avail W → Delivers cap (resyncLoop f o avail total cbs) total cbs W f.addr) := by
  intro avail
  induction avail using Nat.strongRecOn with
  | ind avail ih =>
    have hA : ∀ (f : Framer) (o : Nat) (W : Bytes) (total : Nat) (cbs : List Bytes),
        LA cap f avail W → Delivers cap (resyncLoop f o avail total cbs) total cbs (W.drop (o + 1)) f.addr :=
      fun f o W total cbs h => modeA (fun a' ha' => (ih a' ha').2) (avail - o) f o W total cbs rfl h
    exact ⟨hA, fun f o W total cbs h => modeB hA (avail - o) f o W total cbs rfl h⟩

/-- `Resync()` after a rejected candidate `W` (the buffered bytes): the rest of `W` is re-examined. -/
theorem resync_spec {cap : Nat} {f : Framer} {W : Bytes} (hc : Core f) (he : f.cap = cap)
    (hle : f.next ≤ cap) (hw : f.buf.take f.next = W) :
    Delivers cap (resync f) 0 [] (W.drop 1) f.addr := by
  unfold resync
  exact (resyncLoop_spec cap f.next).1 { f with state := .sync0, next := 0 } 0 W 0 []
    ⟨hc.congr rfl rfl rfl rfl, he, rfl, rfl, hle, hw⟩


/-! ### One byte of `OnData` -/

theorem onDataByte_eq (f : Framer) (b : Byte) :
    onDataByte f b =
      if (onByte false { (f.touch f.next 1) with buf := f.buf.set f.next b, next := f.next + 1 }).ret = 0 then
        ⟨(onByte false { (f.touch f.next 1) with buf := f.buf.set f.next b, next := f.next + 1 }).f, 0,
          (onByte false { (f.touch f.next 1) with buf := f.buf.set f.next b, next := f.next + 1 }).cb.toList⟩
      else if (onByte false { (f.touch f.next 1) with buf := f.buf.set f.next b, next := f.next + 1 }).ret > 0 then
        ⟨{ (onByte false { (f.touch f.next 1) with buf := f.buf.set f.next b, next := f.next + 1 }).f with next := 0 },
          (onByte false { (f.touch f.next 1) with buf := f.buf.set f.next b, next := f.next + 1 }).ret.toNat,
          (onByte false { (f.touch f.next 1) with buf := f.buf.set f.next b, next := f.next + 1 }).cb.toList⟩
      else if (onByte false { (f.touch f.next 1) with buf := f.buf.set f.next b, next := f.next + 1 }).f.next > 0 then
        ⟨(resync (onByte false { (f.touch f.next 1) with buf := f.buf.set f.next b, next := f.next + 1 }).f).f,
          (resync (onByte false { (f.touch f.next 1) with buf := f.buf.set f.next b, next := f.next + 1 }).f).ret,
          (onByte false { (f.touch f.next 1) with buf := f.buf.set f.next b, next := f.next + 1 }).cb.toList ++
            (resync (onByte false { (f.touch f.next 1) with buf := f.buf.set f.next b, next := f.next + 1 }).f).cbs⟩
      else
        ⟨(onByte false { (f.touch f.next 1) with buf := f.buf.set f.next b, next := f.next + 1 }).f, 0,
          (onByte false { (f.touch f.next 1) with buf := f.buf.set f.next b, next := f.next + 1 }).cb.toList⟩ := rfl

theorem toNat_eq_byte {x b : Byte} (h : x.toNat = b.toNat) : x = b := UInt8.toNat_inj.1 h

theorem rel_pre {cap : Nat} {f : Framer} {p : Bytes} (b : Byte) (h : Rel cap f p) :
    Pre cap { (f.touch f.next 1) with buf := f.buf.set f.next b, next := f.next + 1 } p b := by
  have hlt : p.length < f.cap := by rw [h.capEq]; exact pend_lt_cap h.pend (by rw [← h.capEq]; exact h.core.cap24)
  have hct : Core (f.touch f.next 1) := h.core.touch (by rw [h.next]; omega)
  refine ⟨⟨by simpa using hct.hasBuf, by simpa using hct.cap24, ?_, by simpa using hct.hi⟩, by simp [h.capEq],
    by simp [h.next], ?_, h.pend, ?_⟩
  · show (f.buf.set f.next b).length = (f.touch f.next 1).cap
    simp [h.core.len]
  · show (f.buf.set f.next b).take (p.length + 1) = p ++ [b]
    rw [h.next, take_set_succ _ _ _ (by rw [h.core.len]; exact hlt), h.win]
  · obtain ⟨a, b', c, d⟩ := h.st
    exact ⟨fun h => by simpa using a h, fun h => by simpa using b' h, fun h h' => by simpa using c h h',
      fun h => by simpa using d h⟩


/-- What `OnData` does with the result of `OnByte`. -/
def afterByte (R : ByteOut) : Cxx.Out :=
  if R.ret = 0 then ⟨R.f, 0, R.cb.toList⟩
  else if R.ret > 0 then ⟨{ R.f with next := 0 }, R.ret.toNat, R.cb.toList⟩
  else if R.f.next > 0 then ⟨(resync R.f).f, (resync R.f).ret, R.cb.toList ++ (resync R.f).cbs⟩
  else ⟨R.f, 0, R.cb.toList⟩

theorem onDataByte_after (f : Framer) (b : Byte) :
    onDataByte f b =
      afterByte (onByte false { (f.touch f.next 1) with buf := f.buf.set f.next b, next := f.next + 1 }) := rfl

theorem afterByte_spec {cap : Nat} {g : Framer} {p : Bytes} {b : Byte} (q : Bool) (hpre : Pre cap g p b) :
    Delivers cap (afterByte (onByte q g)) 0 [] (p ++ [b]) g.addr := by
  have hpost := onByte_spec q hpre
  generalize onByte q g = R at hpost
  obtain ⟨hfr, hpost⟩ := hpost
  have hwl : (p ++ [b]).length = p.length + 1 := by simp
  have hle := hpre.len_le
  unfold afterByte Delivers
  cases hv : stepT cap (p ++ [b]) with
  | stop =>
    rw [hv] at hpost
    obtain ⟨hret, hcb, hnx, hst⟩ := hpost
    rw [if_pos hret, settle_stop hv, hcb]
    exact ⟨⟨hfr.core, by rw [hfr.cap, hpre.capEq], by rw [hnx, hpre.next, hwl],
      by rw [hfr.buf, hwl]; exact hpre.win, hv, hst⟩, rfl, by simp [sumLen], hfr.addr⟩
  | emit n =>
    rw [hv] at hpost
    obtain ⟨hn, hret, hcb, hst⟩ := hpost
    subst hn
    rw [if_neg (by rw [hret]; omega), if_pos (by rw [hret]; omega), settle_emit hv, hcb, hret]
    have e1 : (p ++ [b]).take (p.length + 1) = p ++ [b] := List.take_of_length_le (by simp)
    have e2 : (p ++ [b]).drop (p.length + 1) = [] := List.drop_eq_nil_of_le (by simp)
    rw [e1, e2, settle_nil]
    exact ⟨rel_nil (hfr.core.congr rfl rfl rfl rfl) (by show R.f.cap = cap; rw [hfr.cap, hpre.capEq]) hst rfl,
      by simp, by simp [sumLen], hfr.addr⟩
  | drop =>
    rw [hv] at hpost
    obtain ⟨hcb, hcase⟩ := hpost
    rw [settle_drop hv]
    rcases hcase with ⟨hp1, hret, hsub⟩ | ⟨hp2, hret, hst, hnx⟩
    · rw [if_pos hret, hcb]
      rcases hsub with ⟨hb0, hst, hnx⟩ | ⟨hb0, hst, hnx⟩
      · -- duplicated SYNC0 while waiting for SYNC1: the newer one is kept
        have hp1e : p.length = 1 := by
          rcases Nat.lt_or_ge p.length 1 with h0 | h0
          · exfalso
            have hp : p = [] := List.eq_nil_of_length_eq_zero (by omega)
            subst hp
            have : stepT cap ([] ++ [b]) = .stop := by unfold stepT byteAt; simp [hb0]
            rw [this] at hv; cases hv
          · omega
        obtain ⟨x, hx⟩ : ∃ x, p = [x] := by
          cases p with
          | nil => simp at hp1e
          | cons x t => cases t with
            | nil => exact ⟨x, rfl⟩
            | cons _ _ => simp at hp1e
        subst hx
        have hx0 := stop_sync0 hpre.pend (by simp)
        have hxb : x = b := toNat_eq_byte (by
          have : byteAt [x] 0 = x.toNat := by simp [byteAt]
          rw [← this, hx0, hb0])
        subst hxb
        have hs1 : stepT cap [x] = .stop := hpre.pend
        have e : ([x] ++ [x]).drop 1 = [x] := rfl
        rw [e, settle_stop hs1]
        refine ⟨⟨hfr.core, by rw [hfr.cap, hpre.capEq], by rw [hnx]; rfl, ?_, hs1,
          ⟨fun h => by simp at h, fun _ => hst, fun h => by simp at h, fun h => by simp [HDR] at h⟩⟩,
          rfl, by simp [sumLen], hfr.addr⟩
        rw [hfr.buf]
        have := hpre.win
        have h2 : g.buf.take 1 = (g.buf.take ([x].length + 1)).take 1 := by rw [List.take_take]; rfl
        show g.buf.take 1 = [x]
        rw [h2, this]; rfl
      · -- neither SYNC0 nor (in SYNC1) SYNC1: everything buffered is dropped
        have hrest : (settle cap ((p ++ [b]).drop 1)) = ([], []) := by
          rcases Nat.lt_or_ge p.length 1 with h0 | h0
          · have hp : p = [] := List.eq_nil_of_length_eq_zero (by omega)
            subst hp
            exact settle_nil cap
          · have hd1 : (p ++ [b]).drop 1 = [b] := by
              rw [List.drop_append_of_le_length (by omega), List.drop_eq_nil_of_le (by omega)]; rfl
            rw [hd1, settle_drop (stepT_drop_of_byte (by simp) (by simpa [byteAt] using hb0))]
            exact settle_nil cap
        rw [hrest]
        exact ⟨rel_nil hfr.core (by rw [hfr.cap, hpre.capEq]) hst hnx, rfl, by simp [sumLen], hfr.addr⟩
    · -- rejected candidate with data buffered: Resync
      rw [if_neg (by rw [hret]; decide), if_neg (by rw [hret]; decide), if_pos (by rw [hnx, hpre.next]; omega), hcb]
      have := resync_spec (cap := cap) (f := R.f) (W := p ++ [b]) hfr.core (by rw [hfr.cap, hpre.capEq])
        (by rw [hnx, hpre.next, ← hpre.capEq]; exact hle) (by rw [hnx, hpre.next, hfr.buf]; exact hpre.win)
      unfold Delivers at this
      obtain ⟨t1, t2, t3, t4⟩ := this
      exact ⟨t1, by simpa using t2, by simpa using t3, by rw [t4, hfr.addr]⟩

theorem onDataByte_spec {cap : Nat} {f : Framer} {p : Bytes} (b : Byte) (h : Rel cap f p) :
    Delivers cap (onDataByte f b) 0 [] (p ++ [b]) f.addr := by
  rw [onDataByte_after]
  have := afterByte_spec false (rel_pre b h)
  simpa using this

/-- `OnData`'s loop over the bytes of a call, from a state that holds the pending window `p`. -/
theorem onDataLoop_spec {cap : Nat} (bs : Bytes) : ∀ {f : Framer} {p : Bytes}, Rel cap f p →
    Delivers cap (onDataLoop f bs) 0 [] (p ++ bs) f.addr := by
  induction bs with
  | nil =>
    intro f p h
    unfold Delivers onDataLoop
    rw [List.append_nil, settle_stop h.pend]
    exact ⟨h, rfl, by simp [sumLen], rfl⟩
  | cons b bs ih =>
    intro f p h
    obtain ⟨r1, r2, r3, r4⟩ := onDataByte_spec b h
    obtain ⟨q1, q2, q3, q4⟩ := ih r1
    unfold Delivers onDataLoop
    have e : p ++ b :: bs = (p ++ [b]) ++ bs := by simp
    rw [e, settle_append]
    refine ⟨q1, ?_, ?_, by rw [q4, r4]⟩
    · show (onDataByte f b).cbs ++ (onDataLoop (onDataByte f b).f bs).cbs = _
      rw [r2, q2]; simp
    · show (onDataByte f b).ret + (onDataLoop (onDataByte f b).f bs).ret = _
      rw [r3, q3]; simp [sumLen]


/-! ### `buffer_ != nullptr` never changes (any state, reachable or not) -/

theorem crcCheck_hasBuf (f : Framer) : (crcCheck f).f.hasBuf = f.hasBuf := by
  unfold crcCheck; split <;> simp

theorem onHeader_hasBuf (f : Framer) : (onHeader f).f.hasBuf = f.hasBuf := by
  unfold onHeader
  split; · rfl
  split; · rfl
  split; · rfl
  split; · exact crcCheck_hasBuf f
  rfl

theorem onByteState_hasBuf (f : Framer) (byte : Nat) : (onByteState f byte).f.hasBuf = f.hasBuf := by
  unfold onByteState
  split
  · split <;> rfl
  · split; · rfl
    split <;> rfl
  · split
    · rw [onHeader_hasBuf]; simp
    · rfl
  · split
    · exact crcCheck_hasBuf f
    · rfl

theorem onByte_hasBuf (q : Bool) (f : Framer) : (onByte q f).f.hasBuf = f.hasBuf := by
  unfold onByte
  split; · rfl
  split; · rfl
  rw [onByteState_hasBuf]; simp

theorem resyncByte_hasBuf (f : Framer) (off : Nat) : (resyncByte f off).f.hasBuf = f.hasBuf := by
  unfold resyncByte resyncDup
  split
  · show (onByte true _).f.hasBuf = _; rw [onByte_hasBuf]
  · rw [onByte_hasBuf]

theorem resyncAfter_hasBuf (r : ByteOut) (off : Nat) : (resyncAfter r off).1.hasBuf = r.f.hasBuf := by
  unfold resyncAfter
  split
  · split <;> rfl
  · rfl

theorem resyncLoop_hasBuf (f : Framer) (o avail total : Nat) (cbs : List Bytes) :
    (resyncLoop f o avail total cbs).f.hasBuf = f.hasBuf := by
  induction f, o, avail, total, cbs using resyncLoop.induct with
  | case1 f o avail total cbs h hs hb ih =>
    rw [resyncLoop_shift h hs hb, ih, resyncAfter_hasBuf, resyncByte_hasBuf]; simp
  | case2 f o avail total cbs h hs hb ih =>
    rw [resyncLoop_skip h hs hb, ih]; simp
  | case3 f o avail total cbs h hs ih =>
    rw [resyncLoop_mid h hs, ih, resyncAfter_hasBuf, resyncByte_hasBuf]; simp
  | case4 f o avail total cbs h => rw [resyncLoop_exit h]

theorem afterByte_hasBuf (R : ByteOut) : (afterByte R).f.hasBuf = R.f.hasBuf := by
  unfold afterByte
  split; · rfl
  split; · rfl
  split
  · show (resync R.f).f.hasBuf = _
    unfold resync; rw [resyncLoop_hasBuf]
  · rfl

theorem onDataByte_hasBuf (f : Framer) (b : Byte) : (onDataByte f b).f.hasBuf = f.hasBuf := by
  rw [onDataByte_after, afterByte_hasBuf, onByte_hasBuf]; simp

theorem onDataLoop_hasBuf (bs : Bytes) : ∀ (f : Framer), (onDataLoop f bs).f.hasBuf = f.hasBuf := by
  induction bs with
  | nil => intro f; rfl
  | cons b bs ih => intro f; show (onDataLoop (onDataByte f b).f bs).f.hasBuf = _; rw [ih, onDataByte_hasBuf]

/-! ### Construction -/

/-- The alignment arithmetic of `SetBuffer`: a framer that got a buffer has at least a header's worth of
capacity, its buffer starts at a 4-byte aligned address and lies inside the storage it was given
(`capacity` bytes at the caller's address, resp. the `capacity + 3` bytes allocated internally);
it is in the reset state and has touched nothing.  (Internal allocations: `operator new[]` returns
4-byte aligned storage.) -/
theorem construct_spec (user : Option Nat) (alloc capacity : Nat) (halloc : user = none → alloc % 4 = 0)
    (hb : (Framer.construct user alloc capacity).hasBuf = true) :
    let f := Framer.construct user alloc capacity
    HDR ≤ f.cap ∧ f.buf.length = f.cap ∧ f.addr % 4 = 0 ∧ f.state = .sync0 ∧ f.next = 0 ∧ f.hi = 0 ∧
    (match user with
      | some a => a ≤ f.addr ∧ f.addr + f.cap ≤ a + capacity
      | none => alloc ≤ f.addr ∧ f.addr + f.cap ≤ alloc + (capacity + 3)) := by
  intro f
  cases user with
  | none =>
    have ha := halloc rfl
    have hf : f = Framer.empty.setBuffer none alloc (capacity + 3) := rfl
    unfold Framer.setBuffer at hf
    by_cases hc : capacity + 3 < HDR + 0
    · rw [if_pos hc] at hf
      have : f.hasBuf = false := by rw [hf]; rfl
      rw [this] at hb; cases hb
    · rw [if_neg hc] at hf
      have hal : alignUp alloc = alloc := by unfold alignUp; omega
      simp only [Option.getD_none, hal, Nat.sub_self, Nat.sub_zero] at hf
      have hlt : min (capacity + 3) 0x7FFFFFFF % U32 = min (capacity + 3) 0x7FFFFFFF :=
        Nat.mod_eq_of_lt (by unfold U32; omega)
      rw [hlt] at hf
      rw [hf]
      unfold HDR at hc ⊢
      refine ⟨?_, ?_, ?_, ?_, ?_, ?_, ?_, ?_⟩
      all_goals simp only [List.length_replicate]
      all_goals first | omega | trivial
  | some a =>
    have hf : f = Framer.empty.setBuffer (some a) alloc capacity := rfl
    unfold Framer.setBuffer at hf
    have hsl : a ≤ alignUp a ∧ alignUp a ≤ a + 3 ∧ alignUp a % 4 = 0 := by unfold alignUp; omega
    by_cases hc : capacity < HDR + (alignUp a - a)
    · rw [if_pos hc] at hf
      have : f.hasBuf = false := by rw [hf]; rfl
      rw [this] at hb; cases hb
    · rw [if_neg hc] at hf
      simp only [Option.getD_some] at hf
      have hlt : (min capacity 0x7FFFFFFF - (alignUp a - a)) % U32 = min capacity 0x7FFFFFFF - (alignUp a - a) :=
        Nat.mod_eq_of_lt (by unfold U32; omega)
      rw [hlt] at hf
      rw [hf]
      unfold HDR at hc ⊢
      refine ⟨?_, ?_, ?_, ?_, ?_, ?_, ?_, ?_⟩
      all_goals simp only [List.length_replicate]
      all_goals first | omega | trivial

/-- A refused `SetBuffer` (capacity below a header plus the alignment loss) changes nothing. -/
theorem setBuffer_refused (g : Framer) (user : Option Nat) (alloc capacity : Nat)
    (hc : capacity < HDR + slackOf user) : g.setBuffer user alloc capacity = g := by
  unfold Framer.setBuffer
  exact if_pos hc

/-- An accepted `SetBuffer` produces an object that does not depend on the previous one at all:
nothing of the old buffer, of the pending bytes or of the framing state survives. -/
theorem setBuffer_independent (g g' : Framer) (user : Option Nat) (alloc capacity : Nat)
    (hc : HDR + slackOf user ≤ capacity) :
    g.setBuffer user alloc capacity = g'.setBuffer user alloc capacity := by
  have hn : ¬ capacity < HDR + slackOf user := by omega
  unfold slackOf at hn
  unfold Framer.setBuffer
  rw [if_neg hn, if_neg hn]

/-- The alignment arithmetic of an accepted `SetBuffer`, for any previous object: at least a header's worth of
capacity, the capacity that remains of the given storage behind the first aligned address, a 4-byte aligned
buffer that lies inside the storage given, the reset state, nothing touched. -/
theorem setBuffer_spec (g : Framer) (user : Option Nat) (alloc capacity : Nat) (halloc : user = none → alloc % 4 = 0)
    (hc : HDR + slackOf user ≤ capacity) :
    let f := g.setBuffer user alloc capacity
    f.hasBuf = true ∧ HDR ≤ f.cap ∧ f.buf.length = f.cap ∧ f.addr % 4 = 0 ∧
    f.state = .sync0 ∧ f.next = 0 ∧ f.cur = 0 ∧ f.hi = 0 ∧
    f.cap = min capacity 0x7FFFFFFF - slackOf user ∧ f.managed = user.isNone ∧
    (match user with
      | some a => a ≤ f.addr ∧ f.addr + f.cap ≤ a + capacity
      | none => alloc ≤ f.addr ∧ f.addr + f.cap ≤ alloc + capacity) := by
  intro f
  have hn : ¬ capacity < HDR + slackOf user := by omega
  have hf : f = g.setBuffer user alloc capacity := rfl
  unfold Framer.setBuffer at hf
  cases user with
  | none =>
    have ha := halloc rfl
    simp only [slackOf] at hn hc ⊢
    rw [if_neg hn] at hf
    have hal : alignUp alloc = alloc := by unfold alignUp; omega
    simp only [Option.getD_none, hal, Nat.sub_self, Nat.sub_zero] at hf
    have hlt : min capacity 0x7FFFFFFF % U32 = min capacity 0x7FFFFFFF :=
      Nat.mod_eq_of_lt (by unfold U32; omega)
    rw [hlt] at hf
    rw [hf]
    unfold HDR at hc ⊢
    refine ⟨?_, ?_, ?_, ?_, ?_, ?_, ?_, ?_, ?_, ?_, ?_, ?_⟩
    all_goals simp only [List.length_replicate]
    all_goals first | omega | trivial
  | some a =>
    have hsl : a ≤ alignUp a ∧ alignUp a ≤ a + 3 ∧ alignUp a % 4 = 0 := by unfold alignUp; omega
    simp only [slackOf] at hn hc ⊢
    rw [if_neg hn] at hf
    simp only [Option.getD_some] at hf
    have hlt : (min capacity 0x7FFFFFFF - (alignUp a - a)) % U32 = min capacity 0x7FFFFFFF - (alignUp a - a) :=
      Nat.mod_eq_of_lt (by unfold U32; omega)
    rw [hlt] at hf
    rw [hf]
    unfold HDR at hc ⊢
    refine ⟨?_, ?_, ?_, ?_, ?_, ?_, ?_, ?_, ?_, ?_, ?_, ?_⟩
    all_goals simp only [List.length_replicate]
    all_goals first | omega | trivial

/-- Hence an accepted `SetBuffer` leaves a framer in the reset state, whatever it was applied to. -/
theorem setBuffer_fresh (g : Framer) (user : Option Nat) (alloc capacity : Nat) (halloc : user = none → alloc % 4 = 0)
    (hc : HDR + slackOf user ≤ capacity) : Fresh (g.setBuffer user alloc capacity) := by
  have h := setBuffer_spec g user alloc capacity halloc hc
  exact ⟨h.1, h.2.1, h.2.2.1, by rw [h.2.2.2.2.2.2.2.1]; exact Nat.zero_le _, h.2.2.2.2.1, h.2.2.2.2.2.1⟩

/-- A buffer that is too small — counting the bytes a caller's buffer loses to alignment — leaves the
framer without a buffer, and such a framer ignores all data (until a later `SetBuffer` is accepted). -/
theorem no_buffer (user : Option Nat) (alloc capacity : Nat)
    (hb : (Framer.construct user alloc capacity).hasBuf = false) (ops : List Op) (hops : ∀ op ∈ ops, op.keepsBuffer) :
    runOps (Framer.construct user alloc capacity) ops = Framer.empty := by
  have hf : Framer.construct user alloc capacity = Framer.empty := by
    cases user with
    | none =>
      have e : Framer.construct none alloc capacity = Framer.empty.setBuffer none alloc (capacity + 3) := rfl
      rw [e] at hb ⊢
      unfold Framer.setBuffer at hb ⊢
      by_cases hc : capacity + 3 < HDR + 0
      · exact if_pos hc
      · rw [if_neg hc] at hb; cases hb
    | some a =>
      have e : Framer.construct (some a) alloc capacity = Framer.empty.setBuffer (some a) alloc capacity := rfl
      rw [e] at hb ⊢
      unfold Framer.setBuffer at hb ⊢
      by_cases hc : capacity < HDR + (alignUp a - a)
      · exact if_pos hc
      · rw [if_neg hc] at hb; cases hb
  rw [hf]
  unfold runOps
  induction ops with
  | nil => rfl
  | cons op ops ih =>
    rw [List.foldl_cons]
    have : applyOp Framer.empty op = Framer.empty := by
      cases op with
      | data d => rfl
      | reset => rfl
      | setBuffer u a c => exact absurd (hops _ (List.mem_cons_self ..)) (by intro h; exact h)
    rw [this]; exact ih (fun op h => hops op (List.mem_cons_of_mem _ h))

/-! ### Reachable states -/

theorem Fresh.rel {f : Framer} (h : Fresh f) : Rel f.cap f [] :=
  rel_nil ⟨h.1, h.2.1, h.2.2.1, h.2.2.2.1⟩ rfl h.2.2.2.2.1 h.2.2.2.2.2

theorem onData_rel {cap : Nat} {f : Framer} {p : Bytes} (h : Rel cap f p) (d : Bytes) :
    Delivers cap (onData f d) 0 [] (p ++ d) f.addr := by
  unfold onData; rw [if_pos h.core.hasBuf]; exact onDataLoop_spec d h

/-- What holds of every object a user can get hold of: either it never got a buffer (and is the
default-constructed object), or it stands in the simulation relation with the bytes received since the last
`Reset()` / accepted `SetBuffer()` that the scan has not consumed, and its buffer is 4-byte aligned. -/
def Inv (g : Framer) : Prop :=
  (g.hasBuf = false ∧ g = Framer.empty) ∨ (∃ p, Rel g.cap g p ∧ g.addr % 4 = 0)

theorem inv_applyOp {g : Framer} (hg : Inv g) (op : Op) (hop : op.ok) : Inv (applyOp g op) := by
  cases op with
  | data d =>
    rcases hg with ⟨hb, he⟩ | ⟨p, hr, ha⟩
    · left
      have : applyOp g (.data d) = g := by show (onData g d).f = g; unfold onData; rw [hb]; rfl
      rw [this]; exact ⟨hb, he⟩
    · right
      obtain ⟨r1, _, _, r4⟩ := onData_rel hr d
      refine ⟨(settle g.cap (p ++ d)).2, ?_, by show (onData g d).f.addr % 4 = 0; rw [r4]; exact ha⟩
      show Rel (onData g d).f.cap (onData g d).f _
      rw [r1.capEq]; exact r1
  | reset =>
    rcases hg with ⟨hb, he⟩ | ⟨p, hr, ha⟩
    · left; rw [he]; exact ⟨rfl, rfl⟩
    · right; exact ⟨[], rel_nil (hr.core.congr rfl rfl rfl rfl) rfl rfl rfl, ha⟩
  | setBuffer user alloc capacity =>
    have halloc : user = none → alloc % 4 = 0 := by
      intro hu; subst hu; exact hop
    by_cases hc : capacity < HDR + slackOf user
    · show Inv (g.setBuffer user alloc capacity)
      rw [setBuffer_refused g user alloc capacity hc]; exact hg
    · right
      have hc' : HDR + slackOf user ≤ capacity := by omega
      exact ⟨[], Fresh.rel (setBuffer_fresh g user alloc capacity halloc hc'),
        (setBuffer_spec g user alloc capacity halloc hc').2.2.2.1⟩

theorem inv_runOps (ops : List Op) : ∀ (g : Framer), Inv g → (∀ op ∈ ops, op.ok) → Inv (runOps g ops) := by
  induction ops with
  | nil => intro g hg _; exact hg
  | cons op ops ih =>
    intro g hg hok
    unfold runOps; rw [List.foldl_cons]
    exact ih _ (inv_applyOp hg op (hok op (List.mem_cons_self ..))) (fun o h => hok o (List.mem_cons_of_mem _ h))

theorem inv_construct (user : Option Nat) (alloc capacity : Nat) (halloc : user = none → alloc % 4 = 0) :
    Inv (Framer.construct user alloc capacity) := by
  by_cases hc : (Framer.construct user alloc capacity).hasBuf = true
  · right
    have h0 := construct_spec user alloc capacity halloc hc
    exact ⟨[], Fresh.rel ⟨hc, h0.1, h0.2.1, by rw [h0.2.2.2.2.2.1]; exact Nat.zero_le _, h0.2.2.2.1,
      h0.2.2.2.2.1⟩, h0.2.2.1⟩
  · left
    have hb : (Framer.construct user alloc capacity).hasBuf = false := by simpa using hc
    have := no_buffer user alloc capacity hb [] (by intro op h; cases h)
    exact ⟨hb, this⟩

theorem reachable_inv {f : Framer} (h : Reachable f) : Inv f := by
  obtain ⟨user, alloc, capacity, ops, halloc, hok, hf⟩ := h
  rw [hf]
  exact inv_runOps ops _ (inv_construct user alloc capacity halloc) hok

theorem reachable_rel {f : Framer} (h : Reachable f) (hb : f.hasBuf = true) :
    ∃ p, Rel f.cap f p ∧ f.addr % 4 = 0 := by
  rcases reachable_inv h with ⟨hb', _⟩ | hr
  · rw [hb'] at hb; cases hb
  · exact hr

/-! ### Whole histories: `Reset()` and accepted `SetBuffer()` calls cut the stream into segments -/

/-- The messages of one segment: the scan with the capacity in force (`none`: no buffer, nothing). -/
def segMsgs (cap : Option Nat) (seg : Bytes) : List Bytes :=
  match cap with
  | some c => msgBytes seg 0 ((cfgCxx c).run seg 0).msgs
  | none => []

/-- The specification of a history: the stream is cut at every `Reset()` and every accepted `SetBuffer()`;
a segment (capacity `cap`, bytes received so far `seg`) contributes the messages of the scan over it. -/
def specCbs (cap : Option Nat) (seg : Bytes) : List Op → List Bytes
  | [] => segMsgs cap seg
  | .data d :: ops => specCbs cap (seg ++ d) ops
  | .reset :: ops => segMsgs cap seg ++ specCbs cap [] ops
  | .setBuffer user _ capacity :: ops =>
    if capacity < HDR + slackOf user then specCbs cap seg ops
    else segMsgs cap seg ++ specCbs (some (min capacity 0x7FFFFFFF - slackOf user)) [] ops

theorem segMsgs_some (c : Nat) (seg : Bytes) : segMsgs (some c) seg = (settle c seg).1 :=
  (settle_msgs c seg 0).symm

theorem segMsgs_nil (cap : Option Nat) : segMsgs cap [] = [] := by
  cases cap with
  | none => rfl
  | some c => rw [segMsgs_some, settle_nil]

/-- Invariant of a history inside a segment that has received `seg` so far. -/
def HInv (g : Framer) (seg : Bytes) : Prop :=
  (g.hasBuf = false ∧ g = Framer.empty) ∨ (g.hasBuf = true ∧ Rel g.cap g (settle g.cap seg).2)

theorem capOf_false {g : Framer} (h : g.hasBuf = false) : capOf g = none := by unfold capOf; rw [h]; rfl
theorem capOf_true {g : Framer} (h : g.hasBuf = true) : capOf g = some g.cap := by unfold capOf; rw [h]; rfl

theorem Fresh.hinv {g : Framer} (h : Fresh g) : HInv g [] := by
  right; refine ⟨h.1, ?_⟩; rw [settle_nil]; exact Fresh.rel h

theorem history (ops : List Op) : ∀ (g : Framer) (seg : Bytes), HInv g seg → (∀ op ∈ ops, op.ok) →
    segMsgs (capOf g) seg ++ opsCbs g ops = specCbs (capOf g) seg ops := by
  induction ops with
  | nil => intro g seg _ _; simp [opsCbs, specCbs]
  | cons op ops ih =>
    intro g seg hg hok
    have hok' : ∀ o ∈ ops, o.ok := fun o h => hok o (List.mem_cons_of_mem _ h)
    cases op with
    | data d =>
      rcases hg with ⟨hb, he⟩ | ⟨hb, hr⟩
      · have e : onData g d = ⟨g, 0, []⟩ := by unfold onData; rw [hb]; rfl
        have := ih g (seg ++ d) (Or.inl ⟨hb, he⟩) hok'
        simp only [opsCbs, specCbs, e, List.nil_append]
        rw [capOf_false hb] at this ⊢
        exact this
      · obtain ⟨r1, r2, _, _⟩ := onData_rel hr d
        have hb' : (onData g d).f.hasBuf = true := r1.core.hasBuf
        have hcap : (onData g d).f.cap = g.cap := r1.capEq
        have hs := settle_append g.cap seg d
        have hinv : HInv (onData g d).f (seg ++ d) := by
          right; refine ⟨hb', ?_⟩; rw [hcap, hs]; exact r1
        have := ih _ (seg ++ d) hinv hok'
        rw [capOf_true hb', hcap, segMsgs_some, hs] at this
        simp only [opsCbs, specCbs]
        rw [capOf_true hb, segMsgs_some, r2, List.nil_append, ← this]
        simp
    | reset =>
      have hinv : HInv g.reset [] := by
        rcases hg with ⟨hb, he⟩ | ⟨hb, hr⟩
        · left; rw [he]; exact ⟨rfl, rfl⟩
        · right; refine ⟨hb, ?_⟩; rw [settle_nil]
          exact rel_nil (hr.core.congr rfl rfl rfl rfl) rfl rfl rfl
      have hc : capOf g.reset = capOf g := rfl
      have := ih g.reset [] hinv hok'
      rw [hc, segMsgs_nil, List.nil_append] at this
      simp only [opsCbs, specCbs]
      rw [this]
    | setBuffer user alloc capacity =>
      have halloc : user = none → alloc % 4 = 0 := by
        intro hu; subst hu; exact hok _ (List.mem_cons_self ..)
      simp only [opsCbs, specCbs]
      by_cases hc : capacity < HDR + slackOf user
      · rw [if_pos hc, setBuffer_refused g user alloc capacity hc]
        exact ih g seg hg hok'
      · rw [if_neg hc]
        have hc' : HDR + slackOf user ≤ capacity := by omega
        have hf := setBuffer_fresh g user alloc capacity halloc hc'
        have hcap := (setBuffer_spec g user alloc capacity halloc hc').2.2.2.2.2.2.2.2.1
        have := ih _ [] (Fresh.hinv hf) hok'
        rw [capOf_true hf.1, hcap, segMsgs_nil, List.nil_append] at this
        rw [this]

theorem history_construct (user : Option Nat) (alloc capacity : Nat) (halloc : user = none → alloc % 4 = 0)
    (ops : List Op) (hok : ∀ op ∈ ops, op.ok) :
    opsCbs (Framer.construct user alloc capacity) ops =
      specCbs (capOf (Framer.construct user alloc capacity)) [] ops := by
  have hinv : HInv (Framer.construct user alloc capacity) [] := by
    rcases inv_construct user alloc capacity halloc with h | ⟨p, hr, _⟩
    · exact Or.inl h
    · by_cases hc : (Framer.construct user alloc capacity).hasBuf = true
      · have h0 := construct_spec user alloc capacity halloc hc
        exact Fresh.hinv ⟨hc, h0.1, h0.2.1, by rw [h0.2.2.2.2.2.1]; exact Nat.zero_le _, h0.2.2.2.1, h0.2.2.2.2.1⟩
      · rw [hr.core.hasBuf] at hc; exact absurd rfl hc
  have := history ops _ [] hinv hok
  rw [segMsgs_nil, List.nil_append] at this
  exact this

/-! ### Sequences of calls -/

theorem onDataCalls_rel {cap : Nat} (chunks : List Bytes) : ∀ {f : Framer} {p : Bytes}, Rel cap f p →
    (onDataCalls f chunks).2.2 = (settle cap (p ++ chunks.flatten)).1 ∧
    (onDataCalls f chunks).2.1.sum = sumLen (settle cap (p ++ chunks.flatten)).1 ∧
    Rel cap (onDataCalls f chunks).1 (settle cap (p ++ chunks.flatten)).2 := by
  induction chunks with
  | nil =>
    intro f p h
    simp only [onDataCalls, List.flatten_nil, List.append_nil, settle_stop h.pend]
    exact ⟨trivial, by simp [sumLen], h⟩
  | cons d ds ih =>
    intro f p h
    obtain ⟨r1, r2, r3, _⟩ := onData_rel h d
    obtain ⟨i1, i2, i3⟩ := ih r1
    have e : p ++ (d :: ds).flatten = (p ++ d) ++ ds.flatten := by simp
    rw [e, settle_append]
    simp only [onDataCalls, List.sum_cons]
    refine ⟨by rw [r2, i1]; simp, ?_, i3⟩
    rw [r3, i2]; simp [sumLen]

theorem run_congr {c₁ c₂ : Cfg} (h : ∀ buf, c₁.step buf = c₂.step buf) (buf : Bytes) (off : Nat) :
    c₁.run buf off = c₂.run buf off := by
  induction hlen : buf.length using Nat.strongRecOn generalizing buf off with
  | ind k ih =>
    cases hs : c₁.step buf with
    | stop => rw [Cfg.run_stop hs, Cfg.run_stop (c := c₂) (buf := buf) (by rw [← h buf]; exact hs)]
    | drop =>
      have hpos := Cfg.step_drop_pos hs
      rw [Cfg.run_drop hs, Cfg.run_drop (c := c₂) (buf := buf) (by rw [← h buf]; exact hs)]
      exact ih (buf.drop 1).length (by simp; omega) _ _ rfl
    | emit n =>
      have hpos := Cfg.step_emit_pos hs
      rw [Cfg.run_emit hs, Cfg.run_emit (c := c₂) (buf := buf) (by rw [← h buf]; exact hs)]
      rw [ih (buf.drop n).length (by simp; omega) _ _ rfl]


end FeVerif
