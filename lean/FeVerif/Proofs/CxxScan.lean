/-
Layer R of the C07 development: the "re-feed" machine as a pure function on the pending bytes.

`stepT cap w` is the verdict of the C++ state machine on a window `w` that starts at a candidate: unlike the
specification scan it does not wait for 24 bytes before dropping a byte that cannot start a message
(`SYNC0` / `SYNC1` states).  `settle cap w` re-feeds: a rejected window is re-examined from its second byte.
`settle_msgs` : it accepts exactly the messages of `(cfgCxx cap).run`.
-/
import FeVerif.Model.CxxFramer
import FeVerif.Proofs.PyDecoder

namespace FeVerif

open Cxx

open Cfg

/-- Verdict on the front of a window. -/
def stepT (cap : Nat) (w : Bytes) : Step :=
  if w.length = 0 then .stop
  else if byteAt w 0 ≠ SYNC0 then .drop
  else if w.length = 1 then .stop
  else if byteAt w 1 ≠ SYNC1 then .drop
  else (cfgCxx cap).step w

theorem cxxHeaderOk_take (cap : Nat) (buf : Bytes) :
    cxxHeaderOk cap (buf.take HDR) =
      (decide (byteAt buf 0 = SYNC0) && decide (byteAt buf 1 = SYNC1) &&
        decide (HDR + u32le buf 16 < U32) && decide (u16le buf 2 = 0) && decide (HDR + u32le buf 16 ≤ cap)) := by
  unfold cxxHeaderOk HDR
  rw [byteAt_take (by omega), byteAt_take (by omega), u16le_take (by omega), u32le_take (by omega)]

theorem cxxCrcOk_take (buf : Bytes) : cxxCrcOk (buf.take (HDR + u32le buf 16)) = cxxCrcOk buf := by
  unfold cxxCrcOk HDR
  rw [u32le_take (by omega), u32le_take (by omega), List.take_take, Nat.min_self]

theorem cfgCxx_msgLen (cap : Nat) (buf : Bytes) : (cfgCxx cap).msgLen buf = HDR + u32le buf 16 := by
  unfold Cfg.msgLen cfgCxx; simp only; unfold HDR; rw [u32le_take (by omega)]

theorem cfgCxx_step (cap : Nat) (buf : Bytes) :
    (cfgCxx cap).step buf =
      if buf.length < HDR then .stop
      else if cxxHeaderOk cap (buf.take HDR) = false then .drop
      else if buf.length < HDR + u32le buf 16 then .stop
      else if cxxCrcOk buf = true then .emit (HDR + u32le buf 16) else .drop := by
  unfold Cfg.step
  rw [cfgCxx_msgLen]
  show (if buf.length < HDR then _ else if cxxHeaderOk cap (buf.take HDR) = false then _ else
    if _ then _ else if cxxCrcOk (buf.take (HDR + u32le buf 16)) = true then _ else _) = _
  rw [cxxCrcOk_take]

/-- Where the early verdict waits or accepts, so does the specification (or it is still short of a header);
where the specification has a verdict on ≥ 24 bytes, the early verdict is the same. -/
theorem stepT_of_long {cap : Nat} {w : Bytes} (h : HDR ≤ w.length) : stepT cap w = (cfgCxx cap).step w := by
  unfold stepT
  have h24 : 24 ≤ w.length := h
  rw [if_neg (by omega)]
  by_cases h0 : byteAt w 0 = SYNC0
  · rw [if_neg (by simpa using h0), if_neg (by omega)]
    by_cases h1 : byteAt w 1 = SYNC1
    · rw [if_neg (by simpa using h1)]
    · rw [if_pos h1, cfgCxx_step, if_neg (by omega), cxxHeaderOk_take]
      simp [h1]
  · rw [if_pos h0, cfgCxx_step, if_neg (by omega), cxxHeaderOk_take]
    simp [h0]

theorem stepT_emit_pos {cap : Nat} {w : Bytes} {n : Nat} (h : stepT cap w = .emit n) :
    0 < n ∧ n ≤ w.length := by
  unfold stepT at h
  split at h; · cases h
  split at h; · cases h
  split at h; · cases h
  split at h; · cases h
  exact step_emit_pos h

theorem stepT_drop_pos {cap : Nat} {w : Bytes} (h : stepT cap w = .drop) : 0 < w.length := by
  unfold stepT at h
  split at h; · cases h
  omega

/-- The re-feed machine: accepted messages (their bytes) and the pending window. -/
def settle (cap : Nat) (w : Bytes) : List Bytes × Bytes :=
  match h : stepT cap w with
  | .stop => ([], w)
  | .drop => settle cap (w.drop 1)
  | .emit n => (w.take n :: (settle cap (w.drop n)).1, (settle cap (w.drop n)).2)
termination_by w.length
decreasing_by
  all_goals simp only [List.length_drop]
  all_goals first
    | (have := stepT_drop_pos h; omega)
    | (have := stepT_emit_pos h; omega)

theorem settle_stop {cap : Nat} {w : Bytes} (h : stepT cap w = .stop) : settle cap w = ([], w) := by
  rw [settle.eq_def]; split <;> simp_all

theorem settle_drop {cap : Nat} {w : Bytes} (h : stepT cap w = .drop) :
    settle cap w = settle cap (w.drop 1) := by
  rw [settle.eq_def]; split <;> simp_all

theorem settle_emit {cap : Nat} {w : Bytes} {n : Nat} (h : stepT cap w = .emit n) :
    settle cap w = (w.take n :: (settle cap (w.drop n)).1, (settle cap (w.drop n)).2) := by
  rw [settle.eq_def]; split <;> simp_all

theorem settle_nil (cap : Nat) : settle cap [] = ([], []) := settle_stop (by simp [stepT])

/-- A verdict other than "wait" is not changed by bytes that arrive later. -/
theorem stepT_append_of_ne_stop {cap : Nat} {w : Bytes} (more : Bytes) (h : stepT cap w ≠ .stop) :
    stepT cap (w ++ more) = stepT cap w := by
  unfold stepT at h ⊢
  by_cases h0 : w.length = 0
  · simp [h0] at h
  · have hl : (w ++ more).length ≠ 0 := by rw [List.length_append]; omega
    rw [if_neg h0] at h
    rw [if_neg h0, if_neg hl, byteAt_append (by omega)]
    by_cases h1 : byteAt w 0 ≠ SYNC0
    · simp [h1]
    · rw [if_neg h1] at h
      rw [if_neg h1, if_neg h1]
      by_cases h2 : w.length = 1
      · simp [h2] at h
      · have hl2 : (w ++ more).length ≠ 1 := by rw [List.length_append]; omega
        rw [if_neg h2] at h
        rw [if_neg h2, if_neg hl2, byteAt_append (by omega)]
        by_cases h3 : byteAt w 1 ≠ SYNC1
        · simp [h3]
        · rw [if_neg h3] at h
          rw [if_neg h3, if_neg h3]
          exact step_append_of_ne_stop more h

/-- The pending window cannot be judged yet. -/
theorem settle_pending (cap : Nat) (w : Bytes) : stepT cap (settle cap w).2 = .stop := by
  induction hlen : w.length using Nat.strongRecOn generalizing w with
  | ind k ih =>
    cases hs : stepT cap w with
    | stop => rw [settle_stop hs]; exact hs
    | drop =>
      have hpos := stepT_drop_pos hs
      rw [settle_drop hs]
      exact ih (w.drop 1).length (by simp; omega) _ rfl
    | emit n =>
      have hpos := stepT_emit_pos hs
      rw [settle_emit hs]
      exact ih (w.drop n).length (by simp; omega) _ rfl

theorem settle_append (cap : Nat) (w more : Bytes) :
    settle cap (w ++ more) =
      ((settle cap w).1 ++ (settle cap ((settle cap w).2 ++ more)).1,
        (settle cap ((settle cap w).2 ++ more)).2) := by
  induction hlen : w.length using Nat.strongRecOn generalizing w with
  | ind k ih =>
    cases hs : stepT cap w with
    | stop => rw [settle_stop hs]; simp
    | drop =>
      have hs' : stepT cap (w ++ more) = .drop := by
        rw [stepT_append_of_ne_stop more (by simp [hs]), hs]
      have hpos := stepT_drop_pos hs
      rw [settle_drop hs', settle_drop hs]
      have : (w ++ more).drop 1 = w.drop 1 ++ more := by
        rw [List.drop_append_of_le_length (by omega)]
      rw [this]
      exact ih (w.drop 1).length (by simp; omega) _ rfl
    | emit n =>
      have hs' : stepT cap (w ++ more) = .emit n := by
        rw [stepT_append_of_ne_stop more (by simp [hs]), hs]
      have hpos := stepT_emit_pos hs
      rw [settle_emit hs', settle_emit hs]
      have h1 : (w ++ more).drop n = w.drop n ++ more := by
        rw [List.drop_append_of_le_length (by omega)]
      have h2 : (w ++ more).take n = w.take n := by
        rw [List.take_append_of_le_length (by omega)]
      rw [h1, h2]
      have := ih (w.drop n).length (by simp; omega) (w.drop n) rfl
      rw [this]
      simp

/-- A window shorter than a header holds no message. -/
theorem settle_short {cap : Nat} {w : Bytes} (h : w.length < HDR) : (settle cap w).1 = [] := by
  induction hlen : w.length using Nat.strongRecOn generalizing w with
  | ind k ih =>
    cases hs : stepT cap w with
    | stop => rw [settle_stop hs]
    | drop =>
      have hpos := stepT_drop_pos hs
      rw [settle_drop hs]
      exact ih (w.drop 1).length (by simp; omega) (by simp; omega) rfl
    | emit n =>
      exfalso
      unfold stepT at hs
      split at hs; · cases hs
      split at hs; · cases hs
      split at hs; · cases hs
      split at hs; · cases hs
      have := (step_emit_iff.1 hs).1
      have e : (cfgCxx cap).hdrLen = HDR := rfl
      omega

/-- The bytes of the messages a scan result names. -/
def msgBytes (buf : Bytes) (off : Nat) (l : List (Nat × Nat)) : List Bytes :=
  l.map fun p => (buf.drop (p.1 - off)).take p.2

theorem msgBytes_drop {buf : Bytes} {off k lo : Nat} {l : List (Nat × Nat)}
    (hs : Sound c (buf.drop k) (off + k) lo l) (hlo : off + k ≤ lo) :
    msgBytes (buf.drop k) (off + k) l = msgBytes buf off l := by
  induction l generalizing lo with
  | nil => rfl
  | cons p rest ih =>
    obtain ⟨o, n⟩ := p
    obtain ⟨h1, h2, h3, h4, h5⟩ := hs
    unfold msgBytes at ih ⊢
    simp only [List.map_cons]
    rw [ih h5 (by omega), List.drop_drop]
    have : k + (o - (off + k)) = o - off := by omega
    rw [this]

/-- **Layer R = specification.**  The re-feed machine accepts exactly the messages of the scan. -/
theorem settle_msgs (cap : Nat) (w : Bytes) (off : Nat) :
    (settle cap w).1 = msgBytes w off ((cfgCxx cap).run w off).msgs := by
  induction hlen : w.length using Nat.strongRecOn generalizing w off with
  | ind k ih =>
    by_cases hl : HDR ≤ w.length
    · have hst := stepT_of_long (cap := cap) hl
      cases hs : (cfgCxx cap).step w with
      | stop =>
        rw [settle_stop (by rw [hst, hs]), run_stop hs]; rfl
      | drop =>
        have hpos := step_drop_pos hs
        rw [settle_drop (by rw [hst, hs]), run_drop hs]
        rw [ih (w.drop 1).length (by simp; omega) (w.drop 1) (off + 1) rfl]
        exact msgBytes_drop (run_sound _ _) (Nat.le_refl _)
      | emit n =>
        have hpos := step_emit_pos hs
        rw [settle_emit (by rw [hst, hs]), run_emit hs]
        simp only
        rw [ih (w.drop n).length (by simp; omega) (w.drop n) (off + n) rfl]
        rw [msgBytes_drop (run_sound _ _) (Nat.le_refl _)]
        simp [msgBytes]
    · have hshort : w.length < HDR := by omega
      have : (cfgCxx cap).step w = .stop := stop_iff.2 (Or.inl hshort)
      rw [settle_short hshort, run_stop this]; rfl

end FeVerif
