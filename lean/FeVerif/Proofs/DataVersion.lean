/-
Lemmas for C20: the memory model, `strtol` on digit runs, decimal digits, the list-level grammar.
-/
import FeVerif.Spec.DataVersion

namespace FeVerif
namespace DV

/-! ### reads -/

theorem read_lt {s : CStr} {i : Nat} (h : i < s.length) : read s i = .ok s[i] := by
  unfold read; rw [dif_pos h]

theorem read_len (s : CStr) : read s s.length = .ok NUL := by
  unfold read; simp

theorem read_le {s : CStr} {i : Nat} (h : i ≤ s.length) : ∃ c, read s i = .ok c := by
  by_cases h' : i < s.length
  · exact ⟨_, read_lt h'⟩
  · have : i = s.length := by omega
    subst this; exact ⟨_, read_len s⟩

theorem read_fault {s : CStr} {i : Nat} (h : s.length < i) : read s i = .fault := by
  unfold read; rw [dif_neg (by omega), if_neg (by omega)]

/-- A character other than the terminator is read strictly inside the string. -/
theorem read_ne_nul {s : CStr} {i : Nat} {c : Char} (h : read s i = .ok c) (hc : c ≠ NUL) :
    i < s.length := by
  unfold read at h
  split at h
  · assumption
  · split at h
    · injection h with h; exact absurd h.symm hc
    · cases h

theorem read_append_cons (pre : CStr) (c : Char) (rest : CStr) :
    read (pre ++ c :: rest) pre.length = .ok c := by
  rw [read_lt (by simp)]; simp

theorem read_append_nil (pre : CStr) : read (pre ++ []) pre.length = .ok NUL := by
  simpa using read_len pre

/-- What is read just after `pre` in `pre ++ rest`: the head of `rest`, or the terminator. -/
def headOrNul : List Char → Char
  | [] => NUL
  | c :: _ => c

theorem read_append (pre rest : CStr) : read (pre ++ rest) pre.length = .ok (headOrNul rest) := by
  cases rest with
  | nil => exact read_append_nil pre
  | cons c r => exact read_append_cons pre c r

/-! ### characters -/

theorem nul_not_digit : isDigit NUL = false := by decide
theorem nul_not_space : isSpace NUL = false := by decide
theorem dot_not_digit : isDigit '.' = false := by decide
theorem dot_ne_nul : '.' ≠ NUL := by decide

theorem digit_not_space {c : Char} (h : isDigit c = true) : isSpace c = false := by
  unfold isDigit at h; unfold isSpace
  simp at h ⊢; omega

theorem digit_not_sign {c : Char} (h : isDigit c = true) : isSign c = false := by
  unfold isSign
  by_cases h1 : c = '-'
  · subst h1; revert h; decide
  · by_cases h2 : c = '+'
    · subst h2; revert h; decide
    · simp [h1, h2]

theorem digit_ne_nul {c : Char} (h : isDigit c = true) : c ≠ NUL := by
  intro e; subst e; revert h; decide

theorem digit_ne_dot {c : Char} (h : isDigit c = true) : c ≠ '.' := by
  intro e; subst e; revert h; decide

theorem digit_ne_minus {c : Char} (h : isDigit c = true) : (c == '-') = false := by
  by_cases h1 : c = '-'
  · subst h1; revert h; decide
  · simp [h1]

/-! ### unfolding lemmas of the two loops -/

theorem skipSpaces_fault {s : CStr} {i : Nat} (h : read s i = .fault) : skipSpaces s i = .fault := by
  rw [skipSpaces.eq_def]; split <;> simp_all

theorem skipSpaces_space {s : CStr} {i : Nat} {c : Char} (h : read s i = .ok c) (hc : isSpace c = true) :
    skipSpaces s i = skipSpaces s (i + 1) := by
  rw [skipSpaces.eq_def]; split <;> simp_all

theorem skipSpaces_stop {s : CStr} {i : Nat} {c : Char} (h : read s i = .ok c) (hc : isSpace c = false) :
    skipSpaces s i = .ok i := by
  rw [skipSpaces.eq_def]; split <;> simp_all

theorem scanDigits_fault {s : CStr} {i acc : Nat} (h : read s i = .fault) : scanDigits s i acc = .fault := by
  rw [scanDigits.eq_def]; split <;> simp_all

theorem scanDigits_digit {s : CStr} {i acc : Nat} {c : Char} (h : read s i = .ok c) (hc : isDigit c = true) :
    scanDigits s i acc = scanDigits s (i + 1) (10 * acc + digitVal c) := by
  rw [scanDigits.eq_def]; split <;> simp_all

theorem scanDigits_stop {s : CStr} {i acc : Nat} {c : Char} (h : read s i = .ok c) (hc : isDigit c = false) :
    scanDigits s i acc = .ok (i, acc) := by
  rw [scanDigits.eq_def]; split <;> simp_all

/-! ### the loops never leave the allocation when started inside it -/

theorem skipSpaces_safe (s : CStr) (i : Nat) (hi : i ≤ s.length) :
    ∃ j, skipSpaces s i = .ok j ∧ i ≤ j ∧ j ≤ s.length ∧ ∃ c, read s j = .ok c ∧ isSpace c = false := by
  induction hk : s.length - i using Nat.strongRecOn generalizing i with
  | ind k ih =>
    obtain ⟨c, hc⟩ := read_le hi
    by_cases hsp : isSpace c = true
    · have hne : c ≠ NUL := by intro e; subst e; rw [nul_not_space] at hsp; cases hsp
      have hlt := read_ne_nul hc hne
      obtain ⟨j, h1, h2, h3, h4⟩ := ih (s.length - (i + 1)) (by omega) (i + 1) (by omega) rfl
      exact ⟨j, by rw [skipSpaces_space hc hsp]; exact h1, by omega, h3, h4⟩
    · have hsp' : isSpace c = false := by simpa using hsp
      exact ⟨i, skipSpaces_stop hc hsp', Nat.le_refl _, hi, c, hc, hsp'⟩

theorem scanDigits_safe (s : CStr) (i acc : Nat) (hi : i ≤ s.length) :
    ∃ k n, scanDigits s i acc = .ok (k, n) ∧ i ≤ k ∧ k ≤ s.length := by
  induction hk : s.length - i using Nat.strongRecOn generalizing i acc with
  | ind k ih =>
    obtain ⟨c, hc⟩ := read_le hi
    by_cases hd : isDigit c = true
    · have hlt := read_ne_nul hc (digit_ne_nul hd)
      obtain ⟨j, n, h1, h2, h3⟩ := ih (s.length - (i + 1)) (by omega) (i + 1) (10 * acc + digitVal c) (by omega) rfl
      exact ⟨j, n, by rw [scanDigits_digit hc hd]; exact h1, by omega, h3⟩
    · have hd' : isDigit c = false := by simpa using hd
      exact ⟨i, acc, scanDigits_stop hc hd', Nat.le_refl _, hi⟩

theorem sign_ne_nul {c : Char} (h : isSign c = true) : c ≠ NUL := by
  intro e; subst e; revert h; decide

/-- `strtol` started inside the allocation stays inside it and ends inside it. -/
theorem strtol_safe (s : CStr) (i : Nat) (hi : i ≤ s.length) :
    ∃ v e, strtol s i = .ok (v, e) ∧ e ≤ s.length := by
  obtain ⟨j, hj, _, hjl, c, hc, _⟩ := skipSpaces_safe s i hi
  unfold strtol
  rw [hj]; simp only [hc]
  have hstart : (if isSign c = true then j + 1 else j) ≤ s.length := by
    split
    · rename_i hs; have := read_ne_nul hc (sign_ne_nul hs); omega
    · exact hjl
  obtain ⟨k, n, hk, _, hkl⟩ := scanDigits_safe s _ 0 hstart
  rw [hk]
  simp only
  by_cases hkk : k = (if isSign c = true then j + 1 else j)
  · rw [if_pos hkk]; exact ⟨_, _, rfl, hi⟩
  · rw [if_neg hkk]; exact ⟨_, _, rfl, hkl⟩

/-! ### digit runs -/

/-- The list that follows a digit run does not continue it. -/
def StopsDigits (rest : List Char) : Prop := isDigit (headOrNul rest) = false

theorem stopsDigits_nil : StopsDigits [] := nul_not_digit

theorem scanDigits_run (pre ds rest : List Char) (acc : Nat) (hd : AllDigits ds) (hr : StopsDigits rest) :
    scanDigits (pre ++ ds ++ rest) pre.length acc =
      .ok (pre.length + ds.length, ds.foldl (fun n c => 10 * n + digitVal c) acc) := by
  induction ds generalizing pre acc with
  | nil =>
    simp only [List.append_nil, List.length_nil, Nat.add_zero, List.foldl_nil]
    exact scanDigits_stop (read_append pre rest) hr
  | cons d ds ih =>
    have hdd : isDigit d = true := hd d (by simp)
    have hread : read (pre ++ d :: ds ++ rest) pre.length = .ok d := by
      have := read_append_cons pre d (ds ++ rest)
      simpa using this
    rw [scanDigits_digit hread hdd]
    have := ih (pre ++ [d]) (10 * acc + digitVal d) (fun c hc => hd c (by simp [hc]))
    simp only [List.length_append, List.length_cons, List.length_nil, List.append_assoc, List.cons_append,
      List.nil_append] at this
    simp only [List.append_assoc, List.cons_append, List.length_cons, List.foldl_cons]
    rw [this]
    congr 2
    omega

/-- `strtol` at a run of at least one digit: the value of the run (clamped), the index after it. -/
theorem strtol_run (pre ds rest : List Char) (hne : ds ≠ []) (hd : AllDigits ds) (hr : StopsDigits rest) :
    strtol (pre ++ ds ++ rest) pre.length = .ok (clampLong false (decVal ds), pre.length + ds.length) := by
  obtain ⟨d, ds', rfl⟩ := List.exists_cons_of_ne_nil hne
  have hdd : isDigit d = true := hd d (by simp)
  have hread : read (pre ++ d :: ds' ++ rest) pre.length = .ok d := by
    have := read_append_cons pre d (ds' ++ rest)
    simpa using this
  unfold strtol
  rw [skipSpaces_stop hread (digit_not_space hdd)]
  simp only [hread, digit_not_sign hdd]
  have := scanDigits_run pre (d :: ds') rest 0 hd hr
  simp only [Bool.false_eq_true, if_false]
  rw [this]
  simp only [List.length_cons]
  rw [if_neg (by omega), digit_ne_minus hdd]
  rfl

/-- Every list is a maximal digit run followed by something that does not continue it. -/
theorem digit_split (l : List Char) : ∃ ds rest, l = ds ++ rest ∧ AllDigits ds ∧ StopsDigits rest := by
  induction l with
  | nil => exact ⟨[], [], rfl, fun _ h => (by cases h), stopsDigits_nil⟩
  | cons c l ih =>
    by_cases hc : isDigit c = true
    · obtain ⟨ds, rest, rfl, h1, h2⟩ := ih
      refine ⟨c :: ds, rest, rfl, ?_, h2⟩
      intro x hx
      rcases List.mem_cons.1 hx with rfl | hx
      · exact hc
      · exact h1 x hx
    · exact ⟨[], c :: l, rfl, fun _ h => (by cases h), by simpa [StopsDigits, headOrNul] using hc⟩

/-- `strtol` called where a digit is: it consumes exactly the maximal digit run there. -/
theorem strtol_at (pre l : List Char) (hd : isDigit (headOrNul l) = true) :
    ∃ ds rest, l = ds ++ rest ∧ ds ≠ [] ∧ AllDigits ds ∧ StopsDigits rest ∧
      strtol (pre ++ l) pre.length = .ok (clampLong false (decVal ds), pre.length + ds.length) := by
  obtain ⟨ds, rest, rfl, h1, h2⟩ := digit_split l
  have hne : ds ≠ [] := by
    rintro rfl
    simp only [List.nil_append] at hd
    rw [StopsDigits, hd] at h2; cases h2
  refine ⟨ds, rest, rfl, hne, h1, h2, ?_⟩
  have := strtol_run pre ds rest hne h1 h2
  simpa [List.append_assoc] using this

theorem clampLong_small {n : Nat} (h : n ≤ 65535) : clampLong false n = (n : Int) := by
  unfold clampLong LONG_MAX
  simp only [Bool.false_eq_true, if_false]
  rw [if_neg (by omega)]

theorem clampLong_le {n : Nat} {b : Int} (hb : b ≤ 65535) (h : ¬ clampLong false n > b) (_h0 : ¬ clampLong false n < 0) :
    clampLong false n = (n : Int) ∧ (n : Int) ≤ b := by
  unfold clampLong LONG_MAX at *
  simp only [Bool.false_eq_true, if_false] at *
  split at h
  · omega
  · rename_i h'; rw [if_neg h']; omega

theorem headOrNul_eq_dot {l : List Char} (h : headOrNul l = '.') : ∃ r, l = '.' :: r := by
  cases l with
  | nil => exact absurd h.symm dot_ne_nul
  | cons c r => exact ⟨r, by simp [headOrNul] at h; rw [h]⟩

theorem headOrNul_eq_nul {l : List Char} (hn : NUL ∉ l) (h : headOrNul l = NUL) : l = [] := by
  cases l with
  | nil => rfl
  | cons c r => simp [headOrNul] at h; subst h; simp at hn

/-- What `FromString` returns, by cases on the text (the terminator does not occur inside `s`). -/
theorem fromString_cases (s : List Char) (hn : NulFree s) :
    fromString s = .ok INVALID ∨
      ∃ M m, Grammar s M m ∧ fromString s = .ok ⟨UInt8.ofNat M, UInt16.ofNat m⟩ := by
  have h0 : read s 0 = .ok (headOrNul s) := read_append [] s
  unfold fromString
  rw [h0]
  by_cases hd0 : isDigit (headOrNul s) = true
  case neg => left; simp [hd0]
  obtain ⟨a, r1, rfl, hne1, had1, hst1, hs1⟩ := strtol_at [] s hd0
  simp only [List.nil_append, List.length_nil, Nat.zero_add] at hs1
  simp only [hd0, Bool.not_true, Bool.false_eq_true, if_false, hs1]
  split
  · left; rfl
  rename_i hc1
  have hlen1 : a.length ≠ 0 := by
    intro h; exact hne1 (List.length_eq_zero_iff.1 h)
  have hc1' : ¬ clampLong false (decVal a) > 255 ∧ ¬ clampLong false (decVal a) < 0 := by
    constructor <;> intro h <;> exact hc1 (by simp [h])
  obtain ⟨hv1, hb1⟩ := clampLong_le (by omega) hc1'.1 hc1'.2
  rw [read_append a r1]
  simp only
  split
  · left; rfl
  rename_i hsep
  obtain ⟨r, rfl⟩ := headOrNul_eq_dot (by simpa using hsep)
  have e1 : a ++ '.' :: r = (a ++ ['.']) ++ r := by simp
  have hr1 : read (a ++ '.' :: r) (a.length + 1) = .ok (headOrNul r) := by
    rw [e1]; have := read_append (a ++ ['.']) r; simpa using this
  rw [hr1]
  simp only
  by_cases hd1 : isDigit (headOrNul r) = true
  case neg => left; simp [hd1]
  obtain ⟨b, r3, rfl, hne2, had2, hst2, hs2⟩ := strtol_at (a ++ ['.']) r hd1
  simp only [List.length_append, List.length_cons, List.length_nil, Nat.zero_add, List.append_assoc,
    List.cons_append, List.nil_append] at hs2
  simp only [hd1, Bool.not_true, Bool.false_eq_true, if_false, hs2]
  have hlen2 : b.length ≠ 0 := by
    intro h; exact hne2 (List.length_eq_zero_iff.1 h)
  split
  · left; rfl
  rename_i hc2
  have hc2' : ¬ clampLong false (decVal b) > 65535 ∧ ¬ clampLong false (decVal b) < 0 := by
    constructor <;> intro h <;> exact hc2 (by simp [h])
  obtain ⟨hv2, hb2⟩ := clampLong_le (by omega) hc2'.1 hc2'.2
  have e2 : a ++ '.' :: (b ++ r3) = (a ++ '.' :: b) ++ r3 := by simp
  have hr2 : read (a ++ '.' :: (b ++ r3)) (a.length + 1 + b.length) = .ok (headOrNul r3) := by
    have hl : a.length + 1 + b.length = (a ++ '.' :: b).length := by simp; omega
    rw [e2, hl]; exact read_append (a ++ '.' :: b) r3
  rw [hr2]
  simp only
  split
  · left; rfl
  rename_i ht
  have hr3 : r3 = [] := by
    apply headOrNul_eq_nul _ (by simpa using ht)
    intro hmem; exact hn (by simp [hmem])
  subst hr3
  right
  refine ⟨decVal a, decVal b, ⟨a, b, by simp, hne1, had1, rfl, by omega, hne2, had2, rfl, by omega⟩, ?_⟩
  rw [hv1, hv2]; simp

theorem headOrNul_append_of_ne_nil {a : List Char} (rest : List Char) (h : a ≠ []) :
    headOrNul (a ++ rest) = headOrNul a := by
  cases a with
  | nil => exact absurd rfl h
  | cons c r => rfl

theorem headOrNul_digit {a : List Char} (h : a ≠ []) (hd : AllDigits a) : isDigit (headOrNul a) = true := by
  cases a with
  | nil => exact absurd rfl h
  | cons c r => exact hd c (by simp)

/-- A text of the grammar is parsed to the version it denotes. -/
theorem fromString_of_grammar {s : List Char} {M m : Nat} (h : Grammar s M m) :
    fromString s = .ok ⟨UInt8.ofNat M, UInt16.ofNat m⟩ := by
  obtain ⟨a, b, rfl, hne1, had1, rfl, hM, hne2, had2, rfl, hm⟩ := h
  have h0 : read (a ++ '.' :: b) 0 = .ok (headOrNul a) := by
    have := read_append [] (a ++ '.' :: b)
    rw [headOrNul_append_of_ne_nil _ hne1] at this
    simpa using this
  have hs1 : strtol (a ++ '.' :: b) 0 = .ok (clampLong false (decVal a), a.length) := by
    have := strtol_run [] a ('.' :: b) hne1 had1 dot_not_digit
    simpa using this
  have hsep : read (a ++ '.' :: b) a.length = .ok '.' := read_append_cons a '.' b
  have e1 : a ++ '.' :: b = (a ++ ['.']) ++ b := by simp
  have hr1 : read (a ++ '.' :: b) (a.length + 1) = .ok (headOrNul b) := by
    rw [e1]; have := read_append (a ++ ['.']) b; simpa using this
  have hs2 : strtol (a ++ '.' :: b) (a.length + 1) =
      .ok (clampLong false (decVal b), a.length + 1 + b.length) := by
    have := strtol_run (a ++ ['.']) b [] hne2 had2 stopsDigits_nil
    simpa using this
  have ht : read (a ++ '.' :: b) (a.length + 1 + b.length) = .ok NUL := by
    have hl : a.length + 1 + b.length = (a ++ '.' :: b).length := by simp; omega
    rw [hl]; exact read_len _
  have hlen1 : a.length ≠ 0 := fun h => hne1 (List.length_eq_zero_iff.1 h)
  have hlen2 : b.length ≠ 0 := fun h => hne2 (List.length_eq_zero_iff.1 h)
  unfold fromString
  rw [h0]
  simp only [headOrNul_digit hne1 had1, Bool.not_true, Bool.false_eq_true, if_false, hs1,
    clampLong_small (show decVal a ≤ 65535 by omega)]
  rw [if_neg (by omega), hsep]
  simp only [ne_eq, not_true_eq_false, if_false, hr1, headOrNul_digit hne2 had2, Bool.not_true,
    Bool.false_eq_true, hs2, clampLong_small hm]
  rw [if_neg (by omega), ht]
  simp

/-- `FromString` reads no byte after the terminator, whatever the string. -/
theorem fromString_ne_fault (s : List Char) : fromString s ≠ .fault := by
  obtain ⟨c0, h0⟩ := read_le (Nat.zero_le s.length)
  obtain ⟨v1, e1, hs1, he1⟩ := strtol_safe s 0 (Nat.zero_le _)
  obtain ⟨c, hc⟩ := read_le he1
  unfold fromString
  rw [h0]; simp only [hs1, hc]
  split
  · simp
  split
  · simp
  split
  · simp
  rename_i hsep
  have hdot : c = '.' := by simpa using hsep
  have hlt := read_ne_nul hc (hdot ▸ dot_ne_nul)
  obtain ⟨c1, hc1⟩ := read_le (show e1 + 1 ≤ s.length by omega)
  obtain ⟨v2, e2, hs2, he2⟩ := strtol_safe s (e1 + 1) (by omega)
  obtain ⟨t, ht⟩ := read_le he2
  simp only [hc1, hs2, ht]
  split
  · simp
  split
  · simp
  split <;> simp

/-! ### decimal digits -/

theorem digitChar_toNat : ∀ d : Fin 10, (digitChar d.val).toNat = 48 + d.val := by decide

theorem isDigit_digitChar {d : Nat} (h : d < 10) : isDigit (digitChar d) = true := by
  have := digitChar_toNat ⟨d, h⟩
  simp only at this
  unfold isDigit; rw [this]; simp; omega

theorem digitVal_digitChar {d : Nat} (h : d < 10) : digitVal (digitChar d) = d := by
  have := digitChar_toNat ⟨d, h⟩
  simp only at this
  unfold digitVal; rw [this]; omega

theorem decVal_append_single (l : List Char) (c : Char) : decVal (l ++ [c]) = 10 * decVal l + digitVal c := by
  simp [decVal, List.foldl_append]

/-- `std::to_string` produces a non-empty digit string whose value is the number. -/
theorem decDigits_spec (n : Nat) :
    decDigits n ≠ [] ∧ AllDigits (decDigits n) ∧ decVal (decDigits n) = n := by
  induction n using Nat.strongRecOn with
  | ind n ih =>
    rw [decDigits.eq_def]
    split
    · rename_i h
      refine ⟨by simp, ?_, ?_⟩
      · intro c hc; simp at hc; subst hc; exact isDigit_digitChar h
      · simp [decVal, digitVal_digitChar h]
    · rename_i h
      obtain ⟨_, h2, h3⟩ := ih (n / 10) (by omega)
      refine ⟨by simp, ?_, ?_⟩
      · intro c hc
        rcases List.mem_append.1 hc with hc | hc
        · exact h2 c hc
        · simp at hc; subst hc; exact isDigit_digitChar (by omega)
      · rw [decVal_append_single, h3, digitVal_digitChar (by omega)]; omega

/-! ### ordering -/

/-- `(major, minor)` as one number; the lexicographic order is the order of keys. -/
def key (v : DataVersion) : Nat := v.major.toNat * 65536 + v.minor.toNat

theorem lexLt_iff_key (a b : DataVersion) : LexLt a b ↔ key a < key b := by
  unfold LexLt key
  have h1 := a.minor.toNat_lt
  have h2 := b.minor.toNat_lt
  simp at h1 h2
  omega

theorem key_inj {a b : DataVersion} (h : key a = key b) : a = b := by
  unfold key at h
  have h1 := a.minor.toNat_lt
  have h2 := b.minor.toNat_lt
  simp at h1 h2
  cases a; cases b
  simp only [DataVersion.mk.injEq]
  simp only at h h1 h2
  exact ⟨UInt8.toNat_inj.1 (by omega), UInt16.toNat_inj.1 (by omega)⟩

theorem opLt_iff (a b : DataVersion) : opLt a b = true ↔ LexLt a b := by
  unfold opLt LexLt
  simp [UInt8.lt_iff_toNat_lt, UInt16.lt_iff_toNat_lt, ← UInt8.toNat_inj]

theorem opEq_iff (a b : DataVersion) : opEq a b = true ↔ a = b := by
  unfold opEq
  cases a; cases b
  simp

end DV
end FeVerif
