/-
Helper lemmas for C17: decimal strings are injective, dict lemmas, the representation of every reachable
enum state as "initial tables ++ one hidden member per unknown value seen", and bit lemmas for the masks.
-/
import FeVerif.Model.DynEnum

namespace FeVerif

/-! ### decimal strings -/

def decDigitsVal (l : Name) : Nat := l.foldl (fun a c => 10 * a + (c - 48)) 0

theorem decDigitsVal_append (a : Name) (c : Nat) : decDigitsVal (a ++ [c]) = 10 * decDigitsVal a + (c - 48) := by
  simp [decDigitsVal, List.foldl_append]

theorem decDigitsVal_natDigits (n : Nat) : decDigitsVal (natDigits n) = n := by
  induction n using Nat.strongRecOn with
  | ind n ih =>
    rw [natDigits]
    split
    · simp [decDigitsVal]
    · rw [decDigitsVal_append, ih (n / 10) (by omega)]; omega

theorem natDigits_inj {a b : Nat} (h : natDigits a = natDigits b) : a = b := by
  rw [← decDigitsVal_natDigits a, ← decDigitsVal_natDigits b, h]

theorem natDigits_head (n : Nat) : ∃ c t, natDigits n = c :: t ∧ 48 ≤ c := by
  induction n using Nat.strongRecOn with
  | ind n ih =>
    rw [natDigits]
    split
    · exact ⟨48 + n, [], rfl, by omega⟩
    · obtain ⟨c, t, h, hc⟩ := ih (n / 10) (by omega)
      exact ⟨c, t ++ [48 + n % 10], by rw [h]; rfl, hc⟩

theorem intStr_inj {a b : Int} (h : intStr a = intStr b) : a = b := by
  cases a with
  | ofNat x =>
    cases b with
    | ofNat y => simp only [intStr] at h; rw [natDigits_inj h]
    | negSucc y =>
      simp only [intStr] at h
      obtain ⟨c, t, hx, hc⟩ := natDigits_head x
      rw [hx] at h; injection h with h1 _; omega
  | negSucc x =>
    cases b with
    | ofNat y =>
      simp only [intStr] at h
      obtain ⟨c, t, hy, hc⟩ := natDigits_head y
      rw [hy] at h; injection h with h1 _; omega
    | negSucc y =>
      simp only [intStr] at h
      injection h with _ h2
      have := natDigits_inj h2
      have : x = y := by omega
      rw [this]

theorem hiddenName_inj {a b : Int} (h : hiddenName a = hiddenName b) : a = b := by
  unfold hiddenName at h
  have h1 := List.append_cancel_left h
  injection h1 with _ h2
  exact intStr_inj h2

theorem hiddenName_hidden (v : Int) : startsWith (hiddenName v) unrecognizedPrefix = true := by
  simp [startsWith, hiddenName, unrecognizedPrefix, List.isPrefixOf]

/-- The member `extend_enum` creates for an unknown value. -/
def hiddenMember (v : Int) : EnumMember := ⟨hiddenName v, v⟩

@[simp] theorem hiddenMember_value (v : Int) : (hiddenMember v).value = v := rfl
@[simp] theorem hiddenMember_name (v : Int) : (hiddenMember v).name = hiddenName v := rfl

theorem hiddenMember_unrecognized (v : Int) : (hiddenMember v).isUnrecognized = true :=
  hiddenName_hidden v

/-! ### dict -/

section dict
variable {κ : Type} {β : Type} [DecidableEq κ]

theorem dget_append_some {k : κ} {a b : List (κ × β)} {x : β} (h : dget k a = some x) :
    dget k (a ++ b) = some x := by
  induction a with
  | nil => simp [dget] at h
  | cons p t ih =>
    simp only [dget, List.cons_append] at h ⊢
    split
    · rename_i hp; rw [if_pos hp] at h; exact h
    · rename_i hp; rw [if_neg hp] at h; exact ih h

theorem dget_append_none {k : κ} {a b : List (κ × β)} (h : dget k a = none) :
    dget k (a ++ b) = dget k b := by
  induction a with
  | nil => rfl
  | cons p t ih =>
    simp only [dget, List.cons_append] at h ⊢
    split
    · rename_i hp; rw [if_pos hp] at h; cases h
    · rename_i hp; rw [if_neg hp] at h; exact ih h

theorem dget_eq_none_iff {k : κ} {d : List (κ × β)} : dget k d = none ↔ ∀ p ∈ d, p.1 ≠ k := by
  induction d with
  | nil => simp [dget]
  | cons p t ih =>
    simp only [dget, List.mem_cons, forall_eq_or_imp]
    split
    · rename_i hp; simp [hp]
    · rename_i hp; simp [hp, ih]

theorem dget_mem {k : κ} {d : List (κ × β)} {x : β} (h : dget k d = some x) : (k, x) ∈ d := by
  induction d with
  | nil => simp [dget] at h
  | cons p t ih =>
    simp only [dget] at h
    split at h
    · rename_i hp; injection h with h; subst h; subst hp; exact List.mem_cons_self
    · exact List.mem_cons_of_mem _ (ih h)

theorem dget_isSome_iff {k : κ} {d : List (κ × β)} : (dget k d).isSome = true ↔ k ∈ d.map (·.1) := by
  induction d with
  | nil => simp [dget]
  | cons p t ih =>
    simp only [dget, List.map_cons, List.mem_cons]
    split
    · rename_i hp; simp [hp]
    · rename_i hp
      rw [ih]
      constructor
      · exact Or.inr
      · rintro (h | h)
        · exact absurd h.symm hp
        · exact h

theorem dset_of_none {k : κ} {v : β} {d : List (κ × β)} (h : dget k d = none) : dset k v d = d ++ [(k, v)] := by
  induction d with
  | nil => rfl
  | cons p t ih =>
    simp only [dget] at h
    split at h
    · cases h
    · rename_i hp; simp only [dset, if_neg hp, List.cons_append, ih h]

theorem mem_dset {k : κ} {v : β} {d : List (κ × β)} {p : κ × β} (h : p ∈ dset k v d) : p = (k, v) ∨ p ∈ d := by
  induction d with
  | nil => simp only [dset, List.mem_singleton] at h; exact Or.inl h
  | cons q t ih =>
    simp only [dset] at h
    split at h
    · rcases List.mem_cons.1 h with h | h
      · exact Or.inl h
      · exact Or.inr (List.mem_cons_of_mem _ h)
    · rcases List.mem_cons.1 h with h | h
      · exact Or.inr (h ▸ List.mem_cons_self)
      · rcases ih h with h | h
        · exact Or.inl h
        · exact Or.inr (List.mem_cons_of_mem _ h)

theorem dget_dset_self (k : κ) (v : β) (d : List (κ × β)) : dget k (dset k v d) = some v := by
  induction d with
  | nil => simp [dset, dget]
  | cons q t ih =>
    simp only [dset]
    split
    · simp [dget]
    · rename_i hq; simp only [dget, if_neg hq, ih]

theorem dget_dset_ne {k k' : κ} (v : β) (d : List (κ × β)) (h : k ≠ k') : dget k' (dset k v d) = dget k' d := by
  induction d with
  | nil => simp [dset, dget, h]
  | cons q t ih =>
    simp only [dset]
    split
    · rename_i hq; simp only [dget, if_neg h]; rw [if_neg (by rw [hq]; exact h)]
    · simp only [dget, ih]

/-- A table whose keys and values are computed from the list elements. -/
theorem dget_map_none {α : Type} (f : α → κ) (g : α → β) (xs : List α) (k : κ) (h : ∀ x ∈ xs, f x ≠ k) :
    dget k (xs.map fun x => (f x, g x)) = none := by
  rw [dget_eq_none_iff]
  intro p hp
  obtain ⟨x, hx, rfl⟩ := List.mem_map.1 hp
  exact h x hx

theorem dget_map_some {α : Type} (f : α → κ) (g : α → β) (xs : List α) (hf : ∀ a b, f a = f b → a = b)
    {x : α} (hx : x ∈ xs) : dget (f x) (xs.map fun x => (f x, g x)) = some (g x) := by
  induction xs with
  | nil => cases hx
  | cons y t ih =>
    simp only [List.map_cons, dget]
    split
    · rename_i h; rw [hf _ _ h]
    · rename_i h
      rcases List.mem_cons.1 hx with rfl | hx
      · exact absurd rfl h
      · exact ih hx

theorem dget_map_mem {α : Type} (f : α → κ) (g : α → β) (xs : List α) {k : κ} {m : β}
    (h : dget k (xs.map fun x => (f x, g x)) = some m) : ∃ x ∈ xs, f x = k ∧ g x = m := by
  obtain ⟨x, hx, he⟩ := List.mem_map.1 (dget_mem h)
  injection he with h1 h2
  exact ⟨x, hx, h1, h2⟩

end dict

/-! ### reachable states: initial tables ++ one hidden member per unknown value seen -/

/-- What the history lemmas need of the initial class object. -/
structure EnumBase (e0 : DynEnum) : Prop where
  nonempty : e0.map.isEmpty = false
  noHiddenKey : ∀ p ∈ e0.map, startsWith p.1 unrecognizedPrefix = false
  mapVal : ∀ p ∈ e0.map, (dget p.2.value e0.v2m).isSome = true
  v2mVal : ∀ v m, dget v e0.v2m = some m → m.value = v ∧ m.isUnrecognized = false
  namesOk : ∀ n ∈ e0.names, (dget n e0.map).isSome = true

/-- The state after the unknown values `xs` (distinct, in order of first appearance) have been converted leniently. -/
def withExtras (e0 : DynEnum) (xs : List Int) : DynEnum :=
  { names := e0.names ++ xs.map hiddenName
    map := e0.map ++ xs.map (fun v => (hiddenName v, hiddenMember v))
    v2m := e0.v2m ++ xs.map (fun v => (v, hiddenMember v)) }

theorem withExtras_nil (e0 : DynEnum) : withExtras e0 [] = e0 := by
  cases e0; simp [withExtras]

/-- `xs` are values the initial class does not know. -/
def EnumFresh (e0 : DynEnum) (xs : List Int) : Prop := ∀ x ∈ xs, dget x e0.v2m = none

theorem dget_extrasV (xs : List Int) (v : Int) :
    dget v (xs.map fun x => (x, hiddenMember x)) = if v ∈ xs then some (hiddenMember v) else none := by
  split
  · rename_i h; exact dget_map_some (fun x => x) hiddenMember xs (fun _ _ h => h) h
  · rename_i h; exact dget_map_none (fun x => x) hiddenMember xs v (fun x hx e => h (e ▸ hx))

theorem dget_extrasN_hidden (xs : List Int) (v : Int) :
    dget (hiddenName v) (xs.map fun x => (hiddenName x, hiddenMember x)) =
      if v ∈ xs then some (hiddenMember v) else none := by
  split
  · rename_i h; exact dget_map_some hiddenName hiddenMember xs (fun _ _ h => hiddenName_inj h) h
  · rename_i h
    exact dget_map_none hiddenName hiddenMember xs _ (fun x hx e => h (hiddenName_inj e ▸ hx))

theorem dget_extrasN_unrec (xs : List Int) (n : Name) (m : EnumMember)
    (h : dget n (xs.map fun x => (hiddenName x, hiddenMember x)) = some m) :
    m.isUnrecognized = true ∧ startsWith n unrecognizedPrefix = true ∧ m.value ∈ xs ∧ m = hiddenMember m.value := by
  obtain ⟨x, hx, h1, h2⟩ := dget_map_mem hiddenName hiddenMember xs h
  subst h1; subst h2
  exact ⟨hiddenMember_unrecognized x, hiddenName_hidden x, hx, rfl⟩

theorem dget_extrasN_plain (xs : List Int) (n : Name) (hn : startsWith n unrecognizedPrefix = false) :
    dget n (xs.map fun x => (hiddenName x, hiddenMember x)) = none := by
  apply dget_map_none
  intro x _ e
  have := hiddenName_hidden x
  rw [e, hn] at this; cases this

namespace EnumBase
variable {e0 : DynEnum} (B : EnumBase e0)
include B

theorem map_hidden_none (v : Int) : dget (hiddenName v) e0.map = none := by
  rw [dget_eq_none_iff]
  intro p hp e
  have := B.noHiddenKey p hp
  rw [e, hiddenName_hidden] at this; cases this

theorem lookup_known {xs : List Int} {v : Int} {m : EnumMember} (h : dget v e0.v2m = some m) :
    (withExtras e0 xs).lookupValue v = .ok m := by
  have hne : (withExtras e0 xs).map.isEmpty = false := by
    have := B.nonempty
    simp only [withExtras]
    cases hm : e0.map with
    | nil => rw [hm] at this; cases this
    | cons a t => rfl
  simp only [DynEnum.lookupValue, hne]
  show (match dget v (e0.v2m ++ _) with | some m => Except.ok m | none => Except.error EnumErr.valueError) = _
  rw [dget_append_some h]

theorem lookup_unknown {xs : List Int} {v : Int} (h : dget v e0.v2m = none) :
    (withExtras e0 xs).lookupValue v = if v ∈ xs then .ok (hiddenMember v) else .error .valueError := by
  have hne : (withExtras e0 xs).map.isEmpty = false := by
    have := B.nonempty
    simp only [withExtras]
    cases hm : e0.map with
    | nil => rw [hm] at this; cases this
    | cons a t => rfl
  simp only [DynEnum.lookupValue, hne]
  show (match dget v (e0.v2m ++ _) with | some m => Except.ok m | none => Except.error EnumErr.valueError) = _
  rw [dget_append_none h, dget_extrasV]
  by_cases hx : v ∈ xs
  · simp only [if_pos hx]
  · simp only [if_neg hx]

/-- A value of the initial class: both conversions return its member and leave the class alone. -/
theorem call_known {xs : List Int} {v : Int} {m : EnumMember} (h : dget v e0.v2m = some m) (strict : Bool) :
    (withExtras e0 xs).call v strict = (.ok m, withExtras e0 xs) := by
  simp only [DynEnum.call, B.lookup_known h, (B.v2mVal v m h).2, Bool.and_false]
  rfl

/-- An unknown value seen before: lenient returns its hidden member, strict refuses; the class is unchanged. -/
theorem call_seen {xs : List Int} {v : Int} (h : dget v e0.v2m = none) (hx : v ∈ xs) (strict : Bool) :
    (withExtras e0 xs).call v strict =
      (if strict then .error .valueError else .ok (hiddenMember v), withExtras e0 xs) := by
  simp only [DynEnum.call, B.lookup_unknown h, if_pos hx, hiddenMember_unrecognized, Bool.and_true]
  cases strict <;> rfl

/-- An unknown value not seen before: strict refuses and leaves the class unchanged. -/
theorem call_new_strict {xs : List Int} {v : Int} (h : dget v e0.v2m = none) (hx : v ∉ xs) :
    (withExtras e0 xs).call v true = (.error .valueError, withExtras e0 xs) := by
  simp only [DynEnum.call, B.lookup_unknown h, if_neg hx]
  rfl

theorem extend_new {xs : List Int} {v : Int} (h : dget v e0.v2m = none) (hx : v ∉ xs) :
    (withExtras e0 xs).extendEnum (hiddenName v) v = .ok (withExtras e0 (xs ++ [v])) := by
  have h1 : dget (hiddenName v) (withExtras e0 xs).map = none := by
    show dget _ (e0.map ++ _) = none
    rw [dget_append_none (B.map_hidden_none v), dget_extrasN_hidden, if_neg hx]
  have h2 : dget v (withExtras e0 xs).v2m = none := by
    show dget _ (e0.v2m ++ _) = none
    rw [dget_append_none h, dget_extrasV, if_neg hx]
  have h3 : (withExtras e0 xs).map.find? (fun p => p.2.value == v) = none := by
    rw [List.find?_eq_none]
    intro p hp hv
    have hv : p.2.value = v := by simpa using hv
    rcases List.mem_append.1 hp with hp | hp
    · have := B.mapVal p hp
      rw [hv, h] at this; cases this
    · obtain ⟨x, hx', rfl⟩ := List.mem_map.1 hp
      exact hx (hv ▸ hx')
  simp only [DynEnum.extendEnum, h1, h3, Option.isSome_none, Bool.false_eq_true, if_false]
  rw [dset_of_none h1, dset_of_none h2]
  simp [withExtras, hiddenMember, List.append_assoc]

/-- An unknown value not seen before: lenient appends one hidden member and returns it. -/
theorem call_new_lenient {xs : List Int} {v : Int} (h : dget v e0.v2m = none) (hx : v ∉ xs) :
    (withExtras e0 xs).call v false = (.ok (hiddenMember v), withExtras e0 (xs ++ [v])) := by
  simp only [DynEnum.call, B.lookup_unknown h, if_neg hx, B.extend_new h hx, Bool.false_eq_true, if_false]
  rw [if_pos (List.mem_append_right _ List.mem_cons_self)]

end EnumBase

/-! ### histories -/

/-- The unknown values seen so far, in order of first lenient conversion. -/
def seenStep (e0 : DynEnum) (xs : List Int) : EnumOp → List Int
  | .conv v false => if (dget v e0.v2m).isSome || xs.contains v then xs else xs ++ [v]
  | _ => xs

def seenAfter (e0 : DynEnum) (xs : List Int) (ops : List EnumOp) : List Int := ops.foldl (seenStep e0) xs

theorem callName_strict_state (e : DynEnum) (n : Name) : (e.callName n true).2 = e := by
  unfold DynEnum.callName
  split
  · split <;> rfl
  · rfl

/-- The strict conversion by name is a function of the lookup. -/
theorem callName_strict_fst (e : DynEnum) (n : Name) :
    (e.callName n true).1 =
      match e.getItem n with
      | .ok r => if r.isUnrecognized then .error .keyError else .ok r
      | .error _ => .error .keyError := by
  unfold DynEnum.callName
  cases h : e.getItem n with
  | ok r => cases hr : r.isUnrecognized <;> simp [hr]
  | error err => simp

theorem EnumBase.step_withExtras {e0 : DynEnum} (B : EnumBase e0) {xs : List Int} (hf : EnumFresh e0 xs) (op : EnumOp) :
    (withExtras e0 xs).step op = withExtras e0 (seenStep e0 xs op) ∧ EnumFresh e0 (seenStep e0 xs op) := by
  cases op with
  | byName n => exact ⟨callName_strict_state _ _, hf⟩
  | item n => exact ⟨rfl, hf⟩
  | conv v strict =>
    cases hv : dget v e0.v2m with
    | some m =>
      have : seenStep e0 xs (.conv v strict) = xs := by cases strict <;> simp [seenStep, hv]
      rw [this]
      exact ⟨by simp only [DynEnum.step, B.call_known hv], hf⟩
    | none =>
      by_cases hx : v ∈ xs
      · have : seenStep e0 xs (.conv v strict) = xs := by cases strict <;> simp [seenStep, hx]
        rw [this]
        exact ⟨by simp only [DynEnum.step, B.call_seen hv hx], hf⟩
      · cases strict with
        | true => exact ⟨by simp only [DynEnum.step, B.call_new_strict hv hx]; rfl, hf⟩
        | false =>
          have : seenStep e0 xs (.conv v false) = xs ++ [v] := by simp [seenStep, hv, hx]
          rw [this]
          refine ⟨by simp only [DynEnum.step, B.call_new_lenient hv hx], ?_⟩
          intro x hx'
          rcases List.mem_append.1 hx' with h | h
          · exact hf x h
          · rw [List.mem_singleton.1 h]; exact hv

theorem EnumBase.run_withExtras {e0 : DynEnum} (B : EnumBase e0) (ops : List EnumOp) :
    ∀ {xs : List Int}, EnumFresh e0 xs →
      (withExtras e0 xs).run ops = withExtras e0 (seenAfter e0 xs ops) ∧ EnumFresh e0 (seenAfter e0 xs ops) := by
  induction ops with
  | nil => intro xs hf; exact ⟨rfl, hf⟩
  | cons op ops ih =>
    intro xs hf
    obtain ⟨h1, h2⟩ := B.step_withExtras hf op
    simp only [DynEnum.run, h1, seenAfter, List.foldl_cons]
    exact ih h2

/-- Every reachable state is the initial class plus hidden members for values it does not know. -/
theorem EnumBase.run_eq {e0 : DynEnum} (B : EnumBase e0) (ops : List EnumOp) :
    e0.run ops = withExtras e0 (seenAfter e0 [] ops) ∧ EnumFresh e0 (seenAfter e0 [] ops) := by
  have := B.run_withExtras ops (xs := []) (fun _ h => nomatch h)
  rwa [withExtras_nil] at this

/-! ### what can be observed of a reachable state -/

theorem membersOf_ext {map : List (Name × EnumMember)} (ex : List (Name × EnumMember)) (ns : List Name)
    (h : ∀ n ∈ ns, (dget n map).isSome = true) :
    DynEnum.membersOf (map ++ ex) ns = DynEnum.membersOf map ns := by
  induction ns with
  | nil => rfl
  | cons n ns ih =>
    have hn := h n List.mem_cons_self
    cases hd : dget n map with
    | none => rw [hd] at hn; cases hn
    | some m =>
      simp only [DynEnum.membersOf, dget_append_some hd, hd, ih (fun n hn => h n (List.mem_cons_of_mem _ hn))]

theorem membersOf_ok {map : List (Name × EnumMember)} (ns : List Name) (h : ∀ n ∈ ns, (dget n map).isSome = true) :
    ∃ ms, DynEnum.membersOf map ns = .ok ms := by
  induction ns with
  | nil => exact ⟨[], rfl⟩
  | cons n ns ih =>
    have hn := h n List.mem_cons_self
    obtain ⟨ms, hms⟩ := ih (fun n hn => h n (List.mem_cons_of_mem _ hn))
    cases hd : dget n map with
    | none => rw [hd] at hn; cases hn
    | some m => exact ⟨m :: ms, by simp only [DynEnum.membersOf, hd, hms]⟩

theorem membersOf_append (map : List (Name × EnumMember)) (a b : List Name) (ma mb : List EnumMember)
    (ha : DynEnum.membersOf map a = .ok ma) (hb : DynEnum.membersOf map b = .ok mb) :
    DynEnum.membersOf map (a ++ b) = .ok (ma ++ mb) := by
  induction a generalizing ma with
  | nil => simp only [DynEnum.membersOf] at ha; injection ha with ha; subst ha; exact hb
  | cons n ns ih =>
    simp only [DynEnum.membersOf, List.cons_append] at ha ⊢
    cases hd : dget n map with
    | none => rw [hd] at ha; cases ha
    | some m =>
      rw [hd] at ha
      cases hr : DynEnum.membersOf map ns with
      | error err => rw [hr] at ha; cases ha
      | ok ms =>
        rw [hr] at ha; injection ha with ha; subst ha
        simp only [ih ms hr]; rfl

theorem membersOf_hidden {e0 : DynEnum} (B : EnumBase e0) (xs ys : List Int) (hy : ∀ y ∈ ys, y ∈ xs) :
    ∃ hs, DynEnum.membersOf (withExtras e0 xs).map (ys.map hiddenName) = .ok hs ∧
      ∀ m ∈ hs, m.isUnrecognized = true := by
  induction ys with
  | nil => exact ⟨[], rfl, fun _ h => nomatch h⟩
  | cons y ys ih =>
    obtain ⟨hs, h1, h2⟩ := ih (fun y hy' => hy y (List.mem_cons_of_mem _ hy'))
    have hd : dget (hiddenName y) (withExtras e0 xs).map = some (hiddenMember y) := by
      show dget _ (e0.map ++ _) = _
      rw [dget_append_none (B.map_hidden_none y), dget_extrasN_hidden, if_pos (hy y List.mem_cons_self)]
    refine ⟨hiddenMember y :: hs, by simp only [List.map_cons, DynEnum.membersOf, hd, h1], ?_⟩
    intro m hm
    rcases List.mem_cons.1 hm with rfl | hm
    · exact hiddenMember_unrecognized y
    · exact h2 m hm

/-- Iteration does not show the hidden members. -/
theorem EnumBase.iter_withExtras {e0 : DynEnum} (B : EnumBase e0) (xs : List Int) :
    (withExtras e0 xs).iter = e0.iter ∧ ∃ ms, e0.iter = .ok ms := by
  obtain ⟨ms0, h0⟩ := membersOf_ok e0.names B.namesOk
  obtain ⟨hs, h1, h2⟩ := membersOf_hidden B xs xs (fun _ h => h)
  have h0' : DynEnum.membersOf (withExtras e0 xs).map e0.names = .ok ms0 := by
    show DynEnum.membersOf (e0.map ++ _) _ = _
    rw [membersOf_ext _ _ B.namesOk, h0]
  have := membersOf_append _ _ _ _ _ h0' h1
  have hf : hs.filter (fun m => !m.isUnrecognized) = [] := by
    rw [List.filter_eq_nil_iff]
    intro m hm; simp [h2 m hm]
  have hi : e0.iter = .ok (ms0.filter fun m => !m.isUnrecognized) := by simp only [DynEnum.iter, h0]
  refine ⟨?_, _, hi⟩
  rw [hi]
  show (match DynEnum.membersOf (withExtras e0 xs).map (e0.names ++ xs.map hiddenName) with
    | .ok ms => Except.ok (ms.filter fun (m : EnumMember) => !m.isUnrecognized) | .error err => .error err) = _
  rw [this]
  simp only [List.filter_append, hf, List.append_nil]

theorem EnumBase.len_withExtras {e0 : DynEnum} (B : EnumBase e0) (xs : List Int) :
    (withExtras e0 xs).len = e0.len := by
  simp only [DynEnum.len, (B.iter_withExtras xs).1]

/-- A name found in the initial class is found unchanged. -/
theorem getItem_withExtras_present {e0 : DynEnum} (xs : List Int) (n : Name) {m : EnumMember}
    (h : dget n e0.map = some m) : (withExtras e0 xs).getItem n = .ok m ∧ e0.getItem n = .ok m := by
  constructor
  · show (match dget n (e0.map ++ _) with | some m => Except.ok m | none => _) = _
    rw [dget_append_some h]
  · simp only [DynEnum.getItem, h]

/-- The only lookups that can change are those that now return a hidden (unrecognised) member. -/
theorem getItem_withExtras {e0 : DynEnum} (xs : List Int) (n : Name) :
    (withExtras e0 xs).getItem n = e0.getItem n ∨
      ∃ m, (withExtras e0 xs).getItem n = .ok m ∧ m.isUnrecognized = true ∧ m.value ∈ xs ∧
        (startsWith n unrecognizedPrefix = true ∨ startsWith (upperName n) unrecognizedPrefix = true) := by
  cases h1 : dget n e0.map with
  | some m => left; rw [(getItem_withExtras_present xs n h1).1, (getItem_withExtras_present xs n h1).2]
  | none =>
    have e1 : (withExtras e0 xs).getItem n =
        match dget n (xs.map fun x => (hiddenName x, hiddenMember x)) with
        | some m => .ok m
        | none => match dget (upperName n) (e0.map ++ xs.map fun x => (hiddenName x, hiddenMember x)) with
          | some m => .ok m
          | none => .error .keyError := by
      show (match dget n (e0.map ++ _) with | some m => Except.ok m | none => _) = _
      rw [dget_append_none h1]; rfl
    cases h2 : dget n (xs.map fun x => (hiddenName x, hiddenMember x)) with
    | some m =>
      right
      obtain ⟨a, b, c, _⟩ := dget_extrasN_unrec xs n m h2
      exact ⟨m, by rw [e1, h2], a, c, Or.inl b⟩
    | none =>
      rw [h2] at e1
      cases h3 : dget (upperName n) e0.map with
      | some m =>
        left
        rw [e1, dget_append_some h3]
        simp only [DynEnum.getItem, h1, h3]
      | none =>
        rw [dget_append_none h3] at e1
        cases h4 : dget (upperName n) (xs.map fun x => (hiddenName x, hiddenMember x)) with
        | some m =>
          right
          obtain ⟨a, b, c, _⟩ := dget_extrasN_unrec xs _ m h4
          exact ⟨m, by rw [e1, h4], a, c, Or.inr b⟩
        | none =>
          left
          rw [e1, h4]
          simp only [DynEnum.getItem, h1, h3]

/-! ### the class object built from a class body -/

theorem dget_isSome_of_mem {κ β : Type} [DecidableEq κ] {d : List (κ × β)} {p : κ × β} (h : p ∈ d) :
    (dget p.1 d).isSome = true := by
  rw [dget_isSome_iff]; exact List.mem_map.2 ⟨p, h, rfl⟩

theorem canonRev_mem {r : List (Name × Int)} {m : EnumMember} (h : m ∈ canonRev r) : (m.name, m.value) ∈ r := by
  induction r with
  | nil => cases h
  | cons p t ih =>
    simp only [canonRev] at h
    split at h
    · exact List.mem_cons_of_mem _ (ih h)
    · rcases List.mem_append.1 h with h | h
      · exact List.mem_cons_of_mem _ (ih h)
      · rw [List.mem_singleton.1 h]; exact List.mem_cons_self

structure DefInv (r : List (Name × Int)) (e : DynEnum) : Prop where
  keysN : ∀ n, (dget n e.map).isSome = true ↔ n ∈ r.map (·.1)
  keysV : ∀ v, (dget v e.v2m).isSome = true ↔ v ∈ r.map (·.2)
  mapVal : ∀ p ∈ e.map, (dget p.2.value e.v2m).isSome = true
  v2mVal : ∀ v m, dget v e.v2m = some m → m.value = v ∧ (m.name, v) ∈ r
  names : ∀ n ∈ e.names, n ∈ r.map (·.1)
  mapMem : ∀ p ∈ e.map, (p.2.name, p.2.value) ∈ r

theorem DefInv.empty : DefInv [] DynEnum.empty :=
  ⟨fun _ => (by simp [DynEnum.empty, dget]), fun _ => (by simp [DynEnum.empty, dget]),
   fun _ h => (nomatch h), fun _ _ h => (by simp [DynEnum.empty, dget] at h), fun _ h => (nomatch h),
   fun _ h => (nomatch h)⟩

theorem defineMember_map (e : DynEnum) (n : Name) (v : Int) (hv : ∀ v m, dget v e.v2m = some m → m.value = v) :
    ∃ x : EnumMember, x.value = v ∧ (e.defineMember n v).map = dset n x e.map := by
  unfold DynEnum.defineMember
  cases h : dget v e.v2m with
  | some c => exact ⟨c, hv v c h, rfl⟩
  | none => exact ⟨⟨n, v⟩, rfl, rfl⟩

theorem DefInv.step {t : List (Name × Int)} {e : DynEnum} (I : DefInv t e) (n : Name) (v : Int) :
    DefInv ((n, v) :: t) (e.defineMember n v) := by
  obtain ⟨x, hxv, hmap⟩ := defineMember_map e n v (fun v m h => (I.v2mVal v m h).1)
  have hkeysN : ∀ n', (dget n' (e.defineMember n v).map).isSome = true ↔ n' ∈ ((n, v) :: t).map (·.1) := by
    intro n'
    rw [hmap]
    by_cases hn : n = n'
    · subst hn; simp [dget_dset_self]
    · rw [dget_dset_ne _ _ hn, I.keysN]
      simp only [List.map_cons, List.mem_cons]
      exact ⟨Or.inr, fun h => h.resolve_left (fun e => hn e.symm)⟩
  cases h : dget v e.v2m with
  | some c =>
    have he : e.defineMember n v = { e with map := dset n c e.map } := by
      simp only [DynEnum.defineMember, h]
    have hvt : v ∈ t.map (·.2) := (I.keysV v).1 (by rw [h]; rfl)
    refine ⟨hkeysN, ?_, ?_, ?_, ?_, ?_⟩
    rotate_right
    · intro p hp
      rw [he] at hp
      rcases mem_dset hp with rfl | hp
      · have := I.v2mVal v c h
        show (c.name, c.value) ∈ _
        rw [this.1]; exact List.mem_cons_of_mem _ this.2
      · exact List.mem_cons_of_mem _ (I.mapMem p hp)
    · intro v'
      rw [he]; show (dget v' e.v2m).isSome = true ↔ _
      rw [I.keysV]
      simp only [List.map_cons, List.mem_cons]
      exact ⟨Or.inr, fun h' => h'.elim (fun e => e ▸ hvt) id⟩
    · intro p hp
      rw [he] at hp ⊢
      rcases mem_dset hp with rfl | hp
      · show (dget c.value e.v2m).isSome = true
        rw [(I.v2mVal v c h).1, h]; rfl
      · exact I.mapVal p hp
    · intro v' m hm
      rw [he] at hm
      obtain ⟨a, b⟩ := I.v2mVal v' m hm
      exact ⟨a, List.mem_cons_of_mem _ b⟩
    · intro n' hn'
      rw [he] at hn'
      exact List.mem_cons_of_mem _ (I.names n' hn')
  | none =>
    have he : e.defineMember n v =
        { names := e.names ++ [n], map := dset n ⟨n, v⟩ e.map, v2m := e.v2m ++ [(v, ⟨n, v⟩)] } := by
      simp only [DynEnum.defineMember, h]
    refine ⟨hkeysN, ?_, ?_, ?_, ?_, ?_⟩
    rotate_right
    · intro p hp
      rw [he] at hp
      rcases mem_dset hp with rfl | hp
      · exact List.mem_cons_self
      · exact List.mem_cons_of_mem _ (I.mapMem p hp)
    · intro v'
      rw [he]; show (dget v' (e.v2m ++ _)).isSome = true ↔ _
      simp only [List.map_cons, List.mem_cons]
      cases h' : dget v' e.v2m with
      | some m =>
        rw [dget_append_some h']
        exact ⟨fun _ => Or.inr ((I.keysV v').1 (by rw [h']; rfl)), fun _ => rfl⟩
      | none =>
        rw [dget_append_none h']
        have hnot : v' ∉ t.map (·.2) := fun hm => by
          have := (I.keysV v').2 hm
          rw [h'] at this; cases this
        by_cases hvv : v = v'
        · subst hvv; simp [dget]
        · simp only [dget, if_neg hvv]
          exact ⟨fun h => (nomatch h), fun h => h.elim (fun e => absurd e.symm hvv) (fun h => absurd h hnot)⟩
    · intro p hp
      rw [he] at hp ⊢
      show (dget p.2.value (e.v2m ++ _)).isSome = true
      rcases mem_dset hp with rfl | hp
      · rw [dget_append_none h]; simp [dget]
      · have := I.mapVal p hp
        cases h' : dget p.2.value e.v2m with
        | some m => rw [dget_append_some h']; rfl
        | none => rw [h'] at this; cases this
    · intro v' m hm
      rw [he] at hm
      have hm : dget v' (e.v2m ++ [(v, ⟨n, v⟩)]) = some m := hm
      cases h' : dget v' e.v2m with
      | some m' =>
        rw [dget_append_some h'] at hm
        injection hm with hm; subst hm
        obtain ⟨a, b⟩ := I.v2mVal v' m' h'
        exact ⟨a, List.mem_cons_of_mem _ b⟩
      | none =>
        rw [dget_append_none h'] at hm
        simp only [dget] at hm
        split at hm
        · rename_i hvv
          injection hm with hm; subst hm
          have hvv : v = v' := hvv
          subst hvv
          exact ⟨rfl, List.mem_cons_self⟩
        · cases hm
    · intro n' hn'
      rw [he] at hn'
      simp only [List.map_cons, List.mem_cons]
      rcases List.mem_append.1 hn' with h1 | h1
      · exact Or.inr (I.names n' h1)
      · exact Or.inl (List.mem_singleton.1 h1)

theorem DefInv.ofDefinedRev (r : List (Name × Int)) : DefInv r (DynEnum.ofDefinedRev r) := by
  induction r with
  | nil => exact DefInv.empty
  | cons p t ih => exact ih.step p.1 p.2

theorem DefInv.namesOk {r : List (Name × Int)} {e : DynEnum} (I : DefInv r e) :
    ∀ n ∈ e.names, (dget n e.map).isSome = true :=
  fun n hn => (I.keysN n).2 (I.names n hn)

/-- With distinct names, every line of the body is found under its name, with its value. -/
theorem lookup_ofDefinedRev (r : List (Name × Int)) (hnd : (r.map (·.1)).Nodup) :
    ∀ p ∈ r, ∃ m, dget p.1 (DynEnum.ofDefinedRev r).map = some m ∧ m.value = p.2 := by
  induction r with
  | nil => intro p h; cases h
  | cons q t ih =>
    have I := DefInv.ofDefinedRev t
    obtain ⟨x, hxv, hmap⟩ := defineMember_map (DynEnum.ofDefinedRev t) q.1 q.2 (fun v m h => (I.v2mVal v m h).1)
    rw [List.map_cons, List.nodup_cons] at hnd
    intro p hp
    show ∃ m, dget p.1 ((DynEnum.ofDefinedRev t).defineMember q.1 q.2).map = some m ∧ _
    rw [hmap]
    rcases List.mem_cons.1 hp with rfl | hp
    · exact ⟨x, dget_dset_self _ _ _, hxv⟩
    · have hne : q.1 ≠ p.1 := fun e => hnd.1 (e ▸ List.mem_map.2 ⟨p, hp, rfl⟩)
      rw [dget_dset_ne _ _ hne]
      exact ih hnd.2 p hp

/-- `_member_names_` of the constructed class resolve to the canonical members. -/
theorem membersOf_ofDefinedRev (r : List (Name × Int)) (hnd : (r.map (·.1)).Nodup) :
    DynEnum.membersOf (DynEnum.ofDefinedRev r).map (DynEnum.ofDefinedRev r).names = .ok (canonRev r) := by
  induction r with
  | nil => rfl
  | cons q t ih =>
    have I := DefInv.ofDefinedRev t
    rw [List.map_cons, List.nodup_cons] at hnd
    have ih := ih hnd.2
    have hq : dget q.1 (DynEnum.ofDefinedRev t).map = none := by
      cases h : dget q.1 (DynEnum.ofDefinedRev t).map with
      | none => rfl
      | some m => exact absurd ((I.keysN q.1).1 (by rw [h]; rfl)) hnd.1
    show DynEnum.membersOf ((DynEnum.ofDefinedRev t).defineMember q.1 q.2).map
      ((DynEnum.ofDefinedRev t).defineMember q.1 q.2).names = _
    cases h : dget q.2 (DynEnum.ofDefinedRev t).v2m with
    | some c =>
      have hvt : q.2 ∈ t.map (·.2) := (I.keysV q.2).1 (by rw [h]; rfl)
      simp only [DynEnum.defineMember, h, canonRev, if_pos hvt]
      rw [dset_of_none hq, membersOf_ext _ _ I.namesOk, ih]
    | none =>
      have hvt : q.2 ∉ t.map (·.2) := fun hm => by
        have := (I.keysV q.2).2 hm
        rw [h] at this; cases this
      simp only [DynEnum.defineMember, h, canonRev, if_neg hvt]
      rw [dset_of_none hq]
      apply membersOf_append
      · rw [membersOf_ext _ _ I.namesOk, ih]
      · simp only [DynEnum.membersOf, dget_append_none hq, dget, if_true]

theorem namesDistinct_nodup (l : List Name) (h : namesDistinct l = true) : l.Nodup := by
  induction l with
  | nil => exact List.nodup_nil
  | cons a t ih =>
    simp only [namesDistinct, Bool.and_eq_true, Bool.not_eq_true', List.contains_eq_mem, decide_eq_false_iff_not] at h
    exact List.nodup_cons.2 ⟨h.1, ih h.2⟩

/-- What `enumOk` (decided per class on the generated table) gives. -/
theorem enumOk_spec {d : List (Name × Int)} (h : enumOk d = true) :
    d ≠ [] ∧ (d.map (·.1)).Nodup ∧ ∀ p ∈ d, startsWith p.1 unrecognizedPrefix = false := by
  simp only [enumOk, Bool.and_eq_true, Bool.not_eq_true', List.all_eq_true] at h
  refine ⟨?_, namesDistinct_nodup _ h.1.2, fun p hp => h.2 p hp⟩
  intro e; rw [e] at h; simp at h

theorem nodup_reverse_map {d : List (Name × Int)} (h : (d.map (·.1)).Nodup) : (d.reverse.map (·.1)).Nodup := by
  rw [List.map_reverse]
  exact List.pairwise_reverse.2 (List.Pairwise.imp (fun h => Ne.symm h) h)

theorem base_ofDefined {d : List (Name × Int)} (h : enumOk d = true) : EnumBase (DynEnum.ofDefined d) := by
  obtain ⟨hne, _, hh⟩ := enumOk_spec h
  have I := DefInv.ofDefinedRev d.reverse
  have hmem : ∀ n, n ∈ d.reverse.map (·.1) → startsWith n unrecognizedPrefix = false := by
    intro n hn
    obtain ⟨p, hp, rfl⟩ := List.mem_map.1 hn
    exact hh p (List.mem_reverse.1 hp)
  refine ⟨?_, ?_, I.mapVal, ?_, I.namesOk⟩
  · obtain ⟨p, t, hd⟩ := List.exists_cons_of_ne_nil hne
    have : p.1 ∈ d.reverse.map (·.1) := List.mem_map.2 ⟨p, List.mem_reverse.2 (hd ▸ List.mem_cons_self), rfl⟩
    have := (I.keysN p.1).2 this
    show (DynEnum.ofDefinedRev d.reverse).map.isEmpty = false
    cases hm : (DynEnum.ofDefinedRev d.reverse).map with
    | nil => rw [hm] at this; cases this
    | cons a b => rfl
  · intro p hp
    exact hmem p.1 ((I.keysN p.1).1 (dget_isSome_of_mem hp))
  · intro v m hm
    obtain ⟨a, b⟩ := I.v2mVal v m hm
    exact ⟨a, hmem m.name (List.mem_map.2 ⟨_, b, rfl⟩)⟩

/-! ### reversed iteration, membership tests, and what the canonical members are -/

theorem membersOf_reverse (map : List (Name × EnumMember)) (ns : List Name) (ms : List EnumMember)
    (h : DynEnum.membersOf map ns = .ok ms) : DynEnum.membersOf map ns.reverse = .ok ms.reverse := by
  induction ns generalizing ms with
  | nil => simp only [DynEnum.membersOf] at h; injection h with h; subst h; rfl
  | cons n ns ih =>
    simp only [DynEnum.membersOf] at h
    cases hd : dget n map with
    | none => rw [hd] at h; cases h
    | some m =>
      rw [hd] at h
      cases hr : DynEnum.membersOf map ns with
      | error err => rw [hr] at h; cases h
      | ok ms' =>
        rw [hr] at h; injection h with h; subst h
        rw [List.reverse_cons, List.reverse_cons]
        exact membersOf_append map _ _ _ _ (ih ms' hr) (by simp only [DynEnum.membersOf, hd])

/-- Reversed iteration is iteration reversed, whenever `_member_names_` resolves. -/
theorem reversedIter_of_members {e : DynEnum} {ms : List EnumMember} (h : DynEnum.membersOf e.map e.names = .ok ms) :
    e.iter = .ok (ms.filter fun m => !m.isUnrecognized) ∧
      e.reversedIter = .ok (ms.filter fun m => !m.isUnrecognized).reverse := by
  refine ⟨by simp only [DynEnum.iter, h], ?_⟩
  simp only [DynEnum.reversedIter, membersOf_reverse _ _ _ h, List.filter_reverse]

/-- Reversed iteration does not show the hidden members either. -/
theorem EnumBase.reversed_withExtras {e0 : DynEnum} (B : EnumBase e0) (xs : List Int) :
    (withExtras e0 xs).reversedIter = e0.reversedIter := by
  obtain ⟨ms0, h0⟩ := membersOf_ok e0.names B.namesOk
  obtain ⟨hs, h1, h2⟩ := membersOf_hidden B xs xs (fun _ h => h)
  have h0' : DynEnum.membersOf (withExtras e0 xs).map e0.names = .ok ms0 := by
    show DynEnum.membersOf (e0.map ++ _) _ = _
    rw [membersOf_ext _ _ B.namesOk, h0]
  have hall : DynEnum.membersOf (withExtras e0 xs).map (withExtras e0 xs).names = .ok (ms0 ++ hs) :=
    membersOf_append _ _ _ _ _ h0' h1
  have hf : hs.filter (fun m => !m.isUnrecognized) = [] := by
    rw [List.filter_eq_nil_iff]
    intro m hm; simp [h2 m hm]
  rw [(reversedIter_of_members hall).2, (reversedIter_of_members h0).2]
  simp only [List.filter_append, hf, List.append_nil]

/-- `v in E` in a reachable state: exactly the values of the initial class. -/
theorem EnumBase.contains_withExtras {e0 : DynEnum} (B : EnumBase e0) (xs : List Int) (v : Int) :
    (withExtras e0 xs).containsValue v = (dget v e0.v2m).isSome := by
  show (match dget v (e0.v2m ++ _) with | some m => !m.isUnrecognized | none => false) = _
  cases h : dget v e0.v2m with
  | some m => rw [dget_append_some h]; simp [(B.v2mVal v m h).2]
  | none =>
    rw [dget_append_none h, dget_extrasV]
    by_cases hx : v ∈ xs
    · simp [if_pos hx, hiddenMember_unrecognized]
    · simp [if_neg hx]

/-- Everything the tables of a freshly built class point at is a canonical member. -/
structure CanonInv (r : List (Name × Int)) (e : DynEnum) : Prop where
  v2mCanon : ∀ v m, dget v e.v2m = some m → m ∈ canonRev r
  mapCanon : ∀ p ∈ e.map, p.2 ∈ canonRev r

theorem CanonInv.ofDefinedRev (r : List (Name × Int)) : CanonInv r (DynEnum.ofDefinedRev r) := by
  induction r with
  | nil => exact ⟨fun _ _ h => (by simp [DynEnum.ofDefinedRev, DynEnum.empty, dget] at h), fun _ h => (nomatch h)⟩
  | cons q t ih =>
    have I := DefInv.ofDefinedRev t
    show CanonInv (q :: t) ((DynEnum.ofDefinedRev t).defineMember q.1 q.2)
    cases h : dget q.2 (DynEnum.ofDefinedRev t).v2m with
    | some c =>
      have hvt : q.2 ∈ t.map (·.2) := (I.keysV q.2).1 (by rw [h]; rfl)
      have hc : canonRev (q :: t) = canonRev t := by simp only [canonRev, if_pos hvt]
      simp only [DynEnum.defineMember, h]
      refine ⟨fun v m hm => hc ▸ ih.v2mCanon v m hm, ?_⟩
      intro p hp
      rw [hc]
      rcases mem_dset hp with rfl | hp
      · exact ih.v2mCanon _ _ h
      · exact ih.mapCanon p hp
    | none =>
      have hvt : q.2 ∉ t.map (·.2) := fun hm => by
        have := (I.keysV q.2).2 hm
        rw [h] at this; cases this
      have hc : canonRev (q :: t) = canonRev t ++ [⟨q.1, q.2⟩] := by simp only [canonRev, if_neg hvt]
      simp only [DynEnum.defineMember, h]
      refine ⟨?_, ?_⟩
      · intro v m hm
        rw [hc]
        have hm : dget v ((DynEnum.ofDefinedRev t).v2m ++ [(q.2, ⟨q.1, q.2⟩)]) = some m := hm
        cases h' : dget v (DynEnum.ofDefinedRev t).v2m with
        | some m' =>
          rw [dget_append_some h'] at hm
          injection hm with hm; subst hm
          exact List.mem_append_left _ (ih.v2mCanon _ _ h')
        | none =>
          rw [dget_append_none h'] at hm
          simp only [dget] at hm
          split at hm
          · injection hm with hm; subst hm
            exact List.mem_append_right _ List.mem_cons_self
          · cases hm
      · intro p hp
        rw [hc]
        rcases mem_dset hp with rfl | hp
        · exact List.mem_append_right _ List.mem_cons_self
        · exact List.mem_append_left _ (ih.mapCanon p hp)

/-- Every value of the body is the value of a canonical member (and, by `canonRev_mem`, of no other value). -/
theorem canonRev_values (r : List (Name × Int)) (v : Int) : v ∈ (canonRev r).map (·.value) ↔ v ∈ r.map (·.2) := by
  constructor
  · intro h
    obtain ⟨m, hm, rfl⟩ := List.mem_map.1 h
    exact List.mem_map.2 ⟨_, canonRev_mem hm, rfl⟩
  · induction r with
    | nil => intro h; cases h
    | cons p t ih =>
      intro h
      rw [List.map_cons, List.mem_cons] at h
      simp only [canonRev]
      split
      · rename_i hp
        rcases h with h | h
        · exact ih (h ▸ hp)
        · exact ih h
      · rename_i hp
        rw [List.map_append, List.mem_append]
        rcases h with h | h
        · exact Or.inr (by simp [h])
        · exact Or.inl (ih h)

/-- Canonical members come in the order of the class body. -/
theorem canonRev_sublist (r : List (Name × Int)) :
    (canonRev r).Sublist (r.reverse.map fun p => (⟨p.1, p.2⟩ : EnumMember)) := by
  induction r with
  | nil => exact List.Sublist.slnil
  | cons p t ih =>
    simp only [canonRev, List.reverse_cons, List.map_append, List.map_cons, List.map_nil]
    split
    · exact List.Sublist.trans ih (List.sublist_append_left _ _)
    · exact List.Sublist.append ih (List.Sublist.refl _)

/-! ### bit masks -/

theorem and_bit_ne_zero (m k : Nat) : ((m &&& (1 <<< k)) != 0) = m.testBit k := by
  rw [Nat.one_shiftLeft]
  cases h : m.testBit k with
  | true =>
    have : (m &&& 2 ^ k).testBit k = true := by rw [Nat.testBit_and, h, Nat.testBit_two_pow_self]; rfl
    cases h0 : m &&& 2 ^ k with
    | zero => rw [h0, Nat.zero_testBit] at this; cases this
    | succ x => rfl
  | false =>
    have : m &&& 2 ^ k = 0 := by
      apply Nat.eq_of_testBit_eq
      intro i
      rw [Nat.testBit_and, Nat.testBit_two_pow, Nat.zero_testBit]
      by_cases hi : k = i
      · subst hi; rw [h]; rfl
      · simp [hi]
    rw [this]; rfl

def maskBitsOf (offset : Int) (S : List EnumMember) (mask : Nat) : Nat :=
  S.foldl (fun a m => a ||| 1 <<< (m.value - offset).toNat) mask

theorem toBitmaskFrom_members (offset : Int) (attrs : List (Name × Int)) (S : List EnumMember) :
    ∀ mask, (∀ m ∈ S, offset ≤ m.value) →
      toBitmaskFrom offset attrs mask (S.map fun m => .val m.value) = .ok (maskBitsOf offset S mask) := by
  induction S with
  | nil => intro mask _; rfl
  | cons a t ih =>
    intro mask h
    have ha : ¬ (a.value - offset < 0) := by have := h a List.mem_cons_self; omega
    simp only [List.map_cons, toBitmaskFrom, maskBit, if_neg ha, maskBitsOf, List.foldl_cons]
    exact ih _ (fun m hm => h m (List.mem_cons_of_mem _ hm))

theorem bitsOf_testBit (offset : Int) (S : List EnumMember) (k : Nat) :
    ∀ mask, (maskBitsOf offset S mask).testBit k =
      (mask.testBit k || S.any fun m => (m.value - offset).toNat == k) := by
  induction S with
  | nil => intro mask; simp [maskBitsOf]
  | cons a t ih =>
    intro mask
    have := ih (mask ||| 1 <<< (a.value - offset).toNat)
    simp only [maskBitsOf, List.foldl_cons] at this ⊢
    rw [this, Nat.testBit_or, Nat.one_shiftLeft, Nat.testBit_two_pow, List.any_cons, Bool.or_assoc]
    congr 2

theorem toValues_members (offset : Int) (mask : Nat) (vals : List EnumMember) (h : ∀ m ∈ vals, offset ≤ m.value) :
    toValues offset mask vals = .ok (vals.filter fun m => mask.testBit (m.value - offset).toNat) := by
  induction vals with
  | nil => rfl
  | cons a t ih =>
    have ha : ¬ (a.value - offset < 0) := by have := h a List.mem_cons_self; omega
    simp only [toValues, maskBit, if_neg ha, ih (fun m hm => h m (List.mem_cons_of_mem _ hm)), and_bit_ne_zero,
      List.filter_cons]

theorem enum_nodup_map_inj {α β : Type} (f : α → β) (l : List α) (h : (l.map f).Nodup) {a b : α}
    (ha : a ∈ l) (hb : b ∈ l) (e : f a = f b) : a = b := by
  induction l with
  | nil => cases ha
  | cons x t ih =>
    rw [List.map_cons, List.nodup_cons] at h
    rcases List.mem_cons.1 ha with ha' | ha' <;> rcases List.mem_cons.1 hb with hb' | hb'
    · rw [ha', hb']
    · subst ha'; exact absurd (e ▸ List.mem_map.2 ⟨b, hb', rfl⟩) h.1
    · subst hb'; exact absurd (e ▸ List.mem_map.2 ⟨a, ha', rfl⟩) h.1
    · exact ih h.2 ha' hb'

theorem valuesDistinct_nodup (l : List Int) (h : valuesDistinct l = true) : l.Nodup := by
  induction l with
  | nil => exact List.nodup_nil
  | cons a t ih =>
    simp only [valuesDistinct, Bool.and_eq_true, Bool.not_eq_true', List.contains_eq_mem, decide_eq_false_iff_not] at h
    exact List.nodup_cons.2 ⟨h.1, ih h.2⟩

/-- set -> mask -> set, for members with distinct values none of which is below the offset. -/
theorem mask_roundtrip (offset : Int) (attrs : List (Name × Int)) (vals S : List EnumMember)
    (hoff : ∀ m ∈ vals, offset ≤ m.value) (hnd : (vals.map (·.value)).Nodup) (hS : ∀ m ∈ S, m ∈ vals) :
    toBitmask offset attrs (S.map fun m => .val m.value) = .ok (maskBitsOf offset S 0) ∧
      toValues offset (maskBitsOf offset S 0) vals = .ok (vals.filter fun m => decide (m ∈ S)) := by
  refine ⟨toBitmaskFrom_members offset attrs S 0 (fun m hm => hoff m (hS m hm)), ?_⟩
  rw [toValues_members offset _ vals hoff]
  congr 1
  apply List.filter_congr
  intro m hm
  rw [bitsOf_testBit, Nat.zero_testBit, Bool.false_or]
  by_cases hmS : m ∈ S
  · rw [decide_eq_true hmS, List.any_eq_true]
    exact ⟨m, hmS, by simp⟩
  · rw [decide_eq_false hmS]
    cases ha : S.any fun s => (s.value - offset).toNat == (m.value - offset).toNat with
    | false => rfl
    | true =>
      obtain ⟨s, hs, he⟩ := List.any_eq_true.1 ha
      have he : (s.value - offset).toNat = (m.value - offset).toNat := by simpa using he
      have h1 := hoff s (hS s hs)
      have h2 := hoff m hm
      have : s.value = m.value := by omega
      exact absurd (enum_nodup_map_inj (·.value) vals hnd (hS s hs) hm this ▸ hs) hmS

/-- Canonical members have pairwise different values. -/
theorem canonRev_values_nodup (r : List (Name × Int)) : ((canonRev r).map (·.value)).Nodup := by
  induction r with
  | nil => exact List.nodup_nil
  | cons p t ih =>
    simp only [canonRev]
    split
    · exact ih
    · rename_i hp
      rw [List.map_append, List.nodup_append]
      refine ⟨ih, by simp, ?_⟩
      intro a ha b hb
      obtain ⟨m, hm, rfl⟩ := List.mem_map.1 ha
      have hb : b = p.2 := by simpa using hb
      intro e
      exact hp (List.mem_map.2 ⟨_, canonRev_mem hm, by rw [← hb, ← e]⟩)

/-- The string form of `to_bitmask` agrees with the member form when every member's bit is an attribute of the
mask class under the member's upper-cased name (what `define_bits=True` sets up; decided per mask class). -/
theorem toBitmaskFrom_names (offset : Int) (attrs : List (Name × Int)) (S : List EnumMember)
    (h : ∀ m ∈ S, offset ≤ m.value ∧
      dget (upperName m.name) attrs = some (Int.ofNat (1 <<< (m.value - offset).toNat))) :
    ∀ mask, toBitmaskFrom offset attrs mask (S.map fun m => .str m.name) =
      toBitmaskFrom offset attrs mask (S.map fun m => .val m.value) := by
  induction S with
  | nil => intro mask; rfl
  | cons a t ih =>
    intro mask
    obtain ⟨h1, h2⟩ := h a List.mem_cons_self
    have ha : ¬ (a.value - offset < 0) := by omega
    simp only [List.map_cons, toBitmaskFrom, h2, maskBit, if_neg ha, Int.toNat_natCast, Int.ofNat_eq_natCast]
    exact ih (fun m hm => h m (List.mem_cons_of_mem _ hm)) _

theorem maskOk_spec {m : PyMask} (h : maskOk m = true) :
    (m.enumValues.map (·.value)).Nodup ∧
      ∀ x ∈ m.enumValues, m.offset ≤ x.value ∧
        dget (upperName x.name) m.attrs = some (Int.ofNat (1 <<< (x.value - m.offset).toNat)) := by
  simp only [maskOk, Bool.and_eq_true, List.all_eq_true, decide_eq_true_eq, beq_iff_eq] at h
  exact ⟨valuesDistinct_nodup _ h.1, h.2⟩

/-- Test helpers for `#guard` lines (`Except` has no `BEq`). -/
def enumOkIs [BEq α] (r : Except EnumErr α) (x : α) : Bool := match r with | .ok y => y == x | .error _ => false
def enumErrIs (r : Except EnumErr α) (e : EnumErr) : Bool := match r with | .ok _ => false | .error e' => e' == e

/-- The values a class body defines. -/
def definedValues (d : List (Name × Int)) : List Int := d.map (·.2)

theorem known_iff_defined (d : List (Name × Int)) (v : Int) :
    (dget v (DynEnum.ofDefined d).v2m).isSome = true ↔ v ∈ definedValues d := by
  have := (DefInv.ofDefinedRev d.reverse).keysV v
  rw [List.map_reverse, List.mem_reverse] at this
  exact this

end FeVerif
