/-
Lemmas about the encoder model (Model/Encoder.lean): header pack/parse round trip, the packed
message passes the Python and C++ validators, characterisation of `encodeMessage`.
-/
import FeVerif.Proofs.Crc
import FeVerif.Proofs.PyDecoder
import FeVerif.Model.Encoder
namespace FeVerif

theorem packHeader_length (h : Header) : (packHeader h).length = 24 := by
  simp [packHeader]

theorem u8_toNat_ofNat_mod (v : Nat) : (UInt8.ofNat (v % 256)).toNat = v % 256 := by
  simp

theorem parse_pack (h : Header) (p : Bytes) (hf : structFits h = true) :
    parseHeader (packHeader h ++ p) = h := by
  simp only [structFits, Bool.and_eq_true, decide_eq_true_eq] at hf
  obtain ⟨⟨⟨⟨⟨⟨⟨⟨⟨h0, h1⟩, h2⟩, h3⟩, h4⟩, h5⟩, h6⟩, h7⟩, h8⟩, h9⟩ := hf
  cases h
  simp only [parseHeader, packHeader, leBytes, List.cons_append, List.nil_append,
    byteAt, u16le, u32le, List.getD_cons_zero, List.getD_cons_succ, u8_toNat_ofNat_mod, Header.mk.injEq] at *
  refine ⟨?_, ?_, ?_, ?_, ?_, ?_, ?_, ?_, ?_, ?_⟩ <;> omega

/-- The bytes after the CRC field do not depend on the CRC field. -/
theorem packHeader_drop8 (h : Header) (c : Nat) :
    (packHeader { h with crc := c }).drop 8 = (packHeader h).drop 8 := by
  simp [packHeader, leBytes]

/-- Header bytes `[8, 24)`. -/
def hdrTail (h : Header) : Bytes :=
  leBytes 1 h.protocolVersion ++ leBytes 1 h.messageVersion ++ leBytes 2 h.messageType ++
  leBytes 4 h.sequenceNumber ++ leBytes 4 h.payloadSize ++ leBytes 4 h.sourceId

theorem packHeader_drop8_eq (h : Header) : (packHeader h).drop 8 = hdrTail h := by
  simp [packHeader, hdrTail, leBytes]

/-- The CRC `calculate_crc` stores for header object `h` and `payload`. -/
def pyMessageCrc (h : Header) (payload : Bytes) : W32 :=
  crc32 (crc32 0#32 ((packHeader (pyPackArgs { h with payloadSize := payload.length })).drop 8)) payload

/-- The header `pack(payload=...)` writes. -/
def pyFinalHeader (h : Header) (payload : Bytes) : Header :=
  pyPackArgs { h with payloadSize := payload.length, crc := (pyMessageCrc h payload).toNat }

theorem structFits_crc (h : Header) (c : Nat) (hc : c < 4294967296) (hf : structFits h = true) :
    structFits { h with crc := c } = true := by
  simp only [structFits, Bool.and_eq_true, decide_eq_true_eq] at hf ⊢
  obtain ⟨⟨⟨⟨⟨⟨⟨⟨⟨h0, h1⟩, h2⟩, h3⟩, h4⟩, h5⟩, h6⟩, h7⟩, h8⟩, h9⟩ := hf
  exact ⟨⟨⟨⟨⟨⟨⟨⟨⟨h0, h1⟩, h2⟩, hc⟩, h4⟩, h5⟩, h6⟩, h7⟩, h8⟩, h9⟩

theorem pyHeaderPack_ok {h : Header} (hf : structFits (pyPackArgs h) = true) :
    pyHeaderPack h = .ok (packHeader (pyPackArgs h)) := by
  unfold pyHeaderPack; rw [if_pos hf]

theorem pyHeaderPack_err {h : Header} (hf : ¬ structFits (pyPackArgs h) = true) :
    pyHeaderPack h = .error .structError := by
  unfold pyHeaderPack; rw [if_neg hf]

theorem pyPackMessage_ok (h : Header) (p : Bytes)
    (hf : structFits (pyPackArgs { h with payloadSize := p.length }) = true) :
    pyPackMessage h p = .ok (packHeader (pyFinalHeader h p) ++ p) := by
  have h2 : structFits (pyPackArgs { h with payloadSize := p.length, crc := (pyMessageCrc h p).toNat }) = true :=
    structFits_crc _ (pyMessageCrc h p).toNat (pyMessageCrc h p).isLt hf
  have h1 : pyCalculateCrc h p = .ok { h with payloadSize := p.length, crc := (pyMessageCrc h p).toNat } := by
    unfold pyCalculateCrc; rw [pyHeaderPack_ok hf]; rfl
  unfold pyPackMessage
  rw [h1]; simp only []
  rw [pyHeaderPack_ok h2]; rfl

theorem pyPackMessage_err (h : Header) (p : Bytes)
    (hf : ¬ structFits (pyPackArgs { h with payloadSize := p.length }) = true) :
    pyPackMessage h p = .error .structError := by
  have h1 : pyCalculateCrc h p = .error .structError := by
    unfold pyCalculateCrc; rw [pyHeaderPack_err hf]
  unfold pyPackMessage
  rw [h1]


/-! ### A packed message passes the validators -/

section valid
variable (H : Header) (p : Bytes)

theorem u32le16_pack (hf : structFits H = true) : u32le (packHeader H ++ p) 16 = H.payloadSize :=
  congrArg Header.payloadSize (parse_pack H p hf)

theorem u32le4_pack (hf : structFits H = true) : u32le (packHeader H ++ p) 4 = H.crc :=
  congrArg Header.crc (parse_pack H p hf)

theorem drop8_pack : (packHeader H ++ p).drop 8 = (packHeader H).drop 8 ++ p := by
  rw [List.drop_append_of_le_length (by rw [packHeader_length]; omega)]

theorem protected_pack (hs : H.payloadSize = p.length) (hf : structFits H = true) :
    ((packHeader H ++ p).take (HDR + u32le (packHeader H ++ p) 16)).drop 8 = (packHeader H).drop 8 ++ p := by
  rw [u32le16_pack H p hf, hs, List.take_of_length_le (by simp [packHeader_length, HDR]), drop8_pack]

theorem pyCrcOk_pack (hf : structFits H = true) (hs : H.payloadSize = p.length)
    (hc : H.crc = (crc32 0#32 ((packHeader H).drop 8 ++ p)).toNat) (hm : p.length ≤ MAX_EXPECTED) :
    pyCrcOk (packHeader H ++ p) = true := by
  unfold pyCrcOk
  rw [protected_pack H p hs hf, u32le16_pack H p hf, u32le4_pack H p hf, hs, hc]
  simp [hm]

theorem cxxCalculateCRC_pack (hf : structFits H = true) (hs : H.payloadSize = p.length) :
    cxxCalculateCRC (packHeader H ++ p) = some (crc32 0#32 ((packHeader H).drop 8 ++ p)) := by
  unfold cxxCalculateCRC
  rw [u32le16_pack H p hf, hs, if_neg (by simp [packHeader_length, HDR]),
    if_neg (by simp [packHeader_length, HDR]), drop8_pack,
    List.take_of_length_le (by simp [packHeader_length])]

theorem cxxIsValid_pack (hf : structFits H = true) (hs : H.payloadSize = p.length)
    (hc : H.crc = (crc32 0#32 ((packHeader H).drop 8 ++ p)).toNat) (hm : HDR + p.length ≤ MAX_EXPECTED) :
    cxxIsValid (packHeader H ++ p) = some true := by
  unfold cxxIsValid
  rw [cxxCalculateCRC_pack H p hf hs, u32le16_pack H p hf, u32le4_pack H p hf, hs, hc,
    if_neg (by simp [packHeader_length, HDR]), if_neg (by omega)]
  simp

theorem cxxFramerCrcOk_pack (hf : structFits H = true) (hs : H.payloadSize = p.length)
    (hc : H.crc = (crc32 0#32 ((packHeader H).drop 8 ++ p)).toNat) :
    cxxFramerCrcOk (packHeader H ++ p) = true := by
  unfold cxxFramerCrcOk
  rw [cxxCalculateCRC_pack H p hf hs, u32le4_pack H p hf, hc]
  simp

end valid

/-- The header written by `pack(payload=…)` carries the CRC of its own bytes `[8, 24)` followed by the payload. -/
theorem pyFinalHeader_crc (h : Header) (p : Bytes) :
    (pyFinalHeader h p).crc = (crc32 0#32 ((packHeader (pyFinalHeader h p)).drop 8 ++ p)).toNat := by
  show (pyMessageCrc h p).toNat = _
  rw [crc32_append, packHeader_drop8_eq]
  unfold pyMessageCrc
  rw [packHeader_drop8_eq]
  rfl


/-! ### `encodeMessage` -/

/-- The arguments of a call fit the header's wire types. -/
def EncFits (e : Encoder) (type version source : Nat) (p : Bytes) : Prop :=
  e.sequenceNumber < 4294967296 ∧ type < 65536 ∧ version < 256 ∧ source < 4294967296 ∧ p.length < 4294967296

theorem structFits_enc (e : Encoder) (type version source : Nat) (p : Bytes) :
    structFits (pyPackArgs { encHeader e type version source with payloadSize := p.length }) = true ↔
      EncFits e type version source p := by
  simp [structFits, pyPackArgs, encHeader, pyHeaderInit, SYNC0, SYNC1, EncFits]
  constructor
  · rintro ⟨⟨⟨⟨h5, h6⟩, h7⟩, h8⟩, h9⟩
    exact ⟨of_decide_eq_true h7, of_decide_eq_true h6, of_decide_eq_true h5, of_decide_eq_true h9, of_decide_eq_true h8⟩
  · rintro ⟨h7, h6, h5, h9, h8⟩
    exact ⟨⟨⟨⟨decide_eq_true h5, decide_eq_true h6⟩, decide_eq_true h7⟩, decide_eq_true h8⟩, decide_eq_true h9⟩

/-- The bytes a successful call returns. -/
def encOutput (e : Encoder) (type version source : Nat) (p : Bytes) : Bytes :=
  packHeader (pyFinalHeader (encHeader e type version source) p) ++ p

theorem encodeMessage_ok {e : Encoder} {type version source : Nat} {p : Bytes}
    (h : EncFits e type version source p) :
    encodeMessage e type version source (some p) =
      (.ok (encOutput e type version source p), ⟨(e.sequenceNumber + 1) % 4294967296⟩) := by
  unfold encodeMessage
  simp only []
  rw [pyPackMessage_ok _ _ ((structFits_enc e type version source p).2 h)]
  rfl

theorem encodeMessage_err {e : Encoder} {type version source : Nat} {p : Bytes}
    (h : ¬ EncFits e type version source p) :
    encodeMessage e type version source (some p) = (.error .structError, e) := by
  unfold encodeMessage
  simp only []
  rw [pyPackMessage_err _ _ (fun hf => h ((structFits_enc e type version source p).1 hf))]

theorem structFits_final {e : Encoder} {type version source : Nat} {p : Bytes}
    (h : EncFits e type version source p) :
    structFits (pyFinalHeader (encHeader e type version source) p) = true :=
  structFits_crc _ _ (pyMessageCrc _ p).isLt ((structFits_enc e type version source p).2 h)

theorem okOutputs_cons_ok {e e' : Encoder} {c : EncCall} {cs : List EncCall} {out : Bytes}
    (h : encodeCall e c = (.ok out, e')) :
    okOutputs (encodeAll e (c :: cs)) = out :: okOutputs (encodeAll e' cs) := by
  show okOutputs ((encodeCall e c).1 :: encodeAll (encodeCall e c).2 cs) = _
  rw [h]; rfl

theorem okOutputs_cons_err {e e' : Encoder} {c : EncCall} {cs : List EncCall} {x : PyErr}
    (h : encodeCall e c = (.error x, e')) :
    okOutputs (encodeAll e (c :: cs)) = okOutputs (encodeAll e' cs) := by
  show okOutputs ((encodeCall e c).1 :: encodeAll (encodeCall e c).2 cs) = _
  rw [h]; rfl

/-- What one call as written by a caller does: either it is refused and the encoder is unchanged, or its
arguments fit, the source identifier is the (non-negative) one of this call and the bytes are `encOutput`. -/
theorem encodeCall_cases (e : Encoder) (c : EncCall) :
    (∃ x, encodeCall e c = (.error x, e)) ∨
    (∃ s p, c.sourceArg = Int.ofNat s ∧ c.payload = some p ∧ EncFits e c.type c.version s p ∧
      encodeCall e c = (.ok (encOutput e c.type c.version s p), ⟨(e.sequenceNumber + 1) % 4294967296⟩)) := by
  unfold encodeCall
  cases hp : c.payload with
  | none => exact .inl ⟨_, rfl⟩
  | some p =>
    cases hs : c.sourceArg with
    | negSucc n => exact .inl ⟨_, rfl⟩
    | ofNat s =>
      by_cases hfit : EncFits e c.type c.version s p
      · exact .inr ⟨s, p, rfl, rfl, hfit, encodeMessage_ok hfit⟩
      · exact .inl ⟨_, encodeMessage_err hfit⟩

end FeVerif
