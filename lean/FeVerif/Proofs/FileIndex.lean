/-
Index file codec: records survive save/load; a truncated file decodes to a prefix of the records.
-/
import FeVerif.Model.FileIndex
import FeVerif.Proofs.Indexer

namespace FeVerif
namespace FileIndex

/-- A record that fits its fields. -/
def Rec.WF (r : Rec) : Prop :=
  (match r.time with | some t => t < INVALID_TIME | none => True) ∧ r.type < 65536 ∧ r.offset < 18446744073709551616

theorem encodeRec_length (r : Rec) : (encodeRec r).length = REC := by
  unfold encodeRec; simp [REC]

theorem toNat_ofNat_mod (v : Nat) : (UInt8.ofNat (v % 256)).toNat = v % 256 := by
  rw [UInt8.toNat_ofNat']; omega

theorem decodeRec_encodeRec (r : Rec) (h : r.WF) (rest : Bytes) :
    decodeRec ((encodeRec r ++ rest).take REC) = r := by
  obtain ⟨ht, hty, hoff⟩ := h
  have htake : (encodeRec r ++ rest).take REC = encodeRec r := by
    rw [List.take_append_of_le_length (by rw [encodeRec_length]; exact Nat.le_refl _)]
    exact List.take_of_length_le (by rw [encodeRec_length]; exact Nat.le_refl _)
  rw [htake]
  obtain ⟨time, type, offset⟩ := r
  simp only at ht hty hoff
  unfold decodeRec encodeRec
  simp only [leBytes, List.cons_append, List.nil_append, u32le, u16le, u64le, byteAt, List.getD_cons_zero,
    List.getD_cons_succ, toNat_ofNat_mod, INVALID_TIME]
  cases time with
  | none =>
    simp only
    refine congr (congr (congrArg Rec.mk ?_) ?_) ?_
    · simp
    · omega
    · omega
  | some t =>
    simp only [INVALID_TIME] at ht
    simp only
    refine congr (congr (congrArg Rec.mk ?_) ?_) ?_
    · have : t % 256 + 256 * (t / 256 % 256) + 65536 * (t / 256 / 256 % 256) + 16777216 * (t / 256 / 256 / 256 % 256) = t := by
        omega
      rw [this, if_neg (by omega)]
    · omega
    · omega

theorem decodeRecs_unfold (b : Bytes) :
    decodeRecs b = if b.length < REC then [] else decodeRec (b.take REC) :: decodeRecs (b.drop REC) := by
  rw [decodeRecs.eq_def]; simp only [dite_eq_ite]

theorem encodeRecs_length (l : List Rec) : (encodeRecs l).length = REC * l.length := by
  induction l with
  | nil => rfl
  | cons r rs ih =>
    unfold encodeRecs at ih ⊢
    rw [List.map_cons, List.flatten_cons, List.length_append, ih, encodeRec_length, List.length_cons]
    unfold REC; omega

theorem encodeRecs_cons (r : Rec) (l : List Rec) : encodeRecs (r :: l) = encodeRec r ++ encodeRecs l := by
  unfold encodeRecs; simp

/-- Decoding any prefix of an encoded list of records gives the records that are completely there. -/
theorem decodeRecs_take (l : List Rec) (hwf : ∀ r ∈ l, r.WF) (k : Nat) :
    decodeRecs ((encodeRecs l).take k) = l.take (k / REC) := by
  induction l generalizing k with
  | nil =>
    rw [decodeRecs_unfold, if_pos (by simp [encodeRecs, REC])]; simp
  | cons r rs ih =>
    rw [decodeRecs_unfold, encodeRecs_cons]
    by_cases hk : k < REC
    · rw [if_pos (by simp only [List.length_take, List.length_append, encodeRec_length]; omega)]
      rw [Nat.div_eq_of_lt hk]; simp
    · have hk' : REC ≤ k := by omega
      rw [if_neg (by
        simp only [List.length_take, List.length_append, encodeRec_length]
        omega)]
      have e1 : ((encodeRec r ++ encodeRecs rs).take k).take REC = (encodeRec r ++ encodeRecs rs).take REC := by
        rw [List.take_take, Nat.min_eq_left hk']
      have e2 : ((encodeRec r ++ encodeRecs rs).take k).drop REC = (encodeRecs rs).take (k - REC) := by
        rw [List.drop_take, List.drop_append_of_le_length (by rw [encodeRec_length]; exact Nat.le_refl _)]
        rw [List.drop_of_length_le (by rw [encodeRec_length]; exact Nat.le_refl _)]
        simp
      rw [e1, e2, decodeRec_encodeRec r (hwf r (by simp)), ih (fun x hx => hwf x (by simp [hx]))]
      have : k / REC = (k - REC) / REC + 1 := by
        unfold REC at *; omega
      rw [this, List.take_succ_cons]

theorem decodeRecs_encodeRecs (l : List Rec) (hwf : ∀ r ∈ l, r.WF) : decodeRecs (encodeRecs l) = l := by
  have := decodeRecs_take l hwf (encodeRecs l).length
  rw [List.take_of_length_le (Nat.le_refl _), encodeRecs_length] at this
  rw [this, Nat.mul_div_cancel_left _ (by decide : 0 < REC)]
  exact List.take_of_length_le (Nat.le_refl _)

end FileIndex
end FeVerif
