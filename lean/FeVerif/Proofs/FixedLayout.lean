/-
Helper lemmas for C02: packedness of a member table, the running offsets of a descriptor, and the
generic fixed-layout codec (round trip, field isolation).  All by induction over the descriptor.
-/
import FeVerif.Model.FixedLayout

namespace FeVerif.FixedLayout

/-! ### `tiledFrom` -/

theorem tiledFrom_sum {p e : Nat} {ms : List Member} (h : tiledFrom p ms = some e) :
    p + (ms.map (·.size)).sum = e := by
  induction ms generalizing p with
  | nil => simpa [tiledFrom] using h
  | cons m ms ih =>
    simp only [tiledFrom] at h
    split at h
    · have := ih h
      simp only [List.map_cons, List.sum_cons]; omega
    · cases h

theorem tiledFrom_bounds {p e : Nat} {ms : List Member} (h : tiledFrom p ms = some e) :
    ∀ m ∈ ms, p ≤ m.offset ∧ 0 < m.size ∧ m.offset + m.size ≤ e := by
  induction ms generalizing p with
  | nil => intro m hm; cases hm
  | cons a ms ih =>
    simp only [tiledFrom] at h
    split at h
    · rename_i hc
      intro m hm
      have hs := tiledFrom_sum h
      rcases List.mem_cons.1 hm with rfl | hm
      · exact ⟨by omega, hc.2, by omega⟩
      · have := ih h m hm
        exact ⟨by omega, this.2.1, this.2.2⟩
    · cases h

theorem tiledFrom_pairwise {p e : Nat} {ms : List Member} (h : tiledFrom p ms = some e) :
    ms.Pairwise (fun a b => a.offset + a.size ≤ b.offset) := by
  induction ms generalizing p with
  | nil => exact List.Pairwise.nil
  | cons a ms ih =>
    simp only [tiledFrom] at h
    split at h
    · rename_i hc
      refine List.Pairwise.cons ?_ (ih h)
      intro b hb
      have := (tiledFrom_bounds h b hb).1
      omega
    · cases h

theorem tiledFrom_contiguous {p e : Nat} {ms : List Member} (h : tiledFrom p ms = some e) :
    ∀ i, (hi : i < ms.length) → ms[i].offset = p + ((ms.take i).map (·.size)).sum := by
  induction ms generalizing p with
  | nil => intro i hi; cases hi
  | cons a ms ih =>
    simp only [tiledFrom] at h
    split at h
    · rename_i hc
      intro i hi
      cases i with
      | zero => simp [hc.1]
      | succ j =>
        have := ih h j (by simpa using hi)
        simp only [List.getElem_cons_succ, List.take_succ_cons, List.map_cons, List.sum_cons]
        omega
    · cases h

theorem packedB_sound {s : CxxStruct} (h : packedB s = true) : Packed s := by
  simp only [packedB, Bool.and_eq_true, beq_iff_eq] at h
  obtain ⟨⟨ht, h4⟩, ha⟩ := h
  refine ⟨tiledFrom_pairwise ht, ?_, fun m hm => (tiledFrom_bounds ht m hm).2.1, ?_, h4, ha⟩
  · intro i hi
    have := tiledFrom_contiguous ht i hi
    omega
  · have := tiledFrom_sum ht
    omega

/-! ### Offsets of a descriptor -/

theorem totalWidth_cons (f : Field) (fs : List Field) : totalWidth (f :: fs) = f.width + totalWidth fs := by
  simp [totalWidth]

@[simp] theorem totalWidth_nil : totalWidth [] = 0 := rfl

theorem offsetOf_zero (d : List Field) : offsetOf d 0 = 0 := by simp [offsetOf]

theorem offsetOf_succ (f : Field) (fs : List Field) (j : Nat) :
    offsetOf (f :: fs) (j + 1) = f.width + offsetOf fs j := by
  simp [offsetOf, totalWidth_cons]

theorem offsetOf_add_width_le (d : List Field) (i : Nat) (hi : i < d.length) :
    offsetOf d i + d[i].width ≤ totalWidth d := by
  induction d generalizing i with
  | nil => cases hi
  | cons f fs ih =>
    cases i with
    | zero => simp [offsetOf_zero, totalWidth_cons]
    | succ j =>
      have := ih j (by simpa using hi)
      simp only [offsetOf_succ, totalWidth_cons, List.getElem_cons_succ]
      omega

theorem offsetsOf_length (d : List Field) (p : Nat) : (offsetsOf d p).length = d.length := by
  induction d generalizing p with
  | nil => rfl
  | cons f fs ih => simp [offsetsOf, ih]

/-- The running offsets are the prefix sums: entry `i` is `(pos + offsetOf d i, width i)`. -/
theorem offsetsOf_getElem (d : List Field) (p i : Nat) (hi : i < d.length) :
    (offsetsOf d p)[i]'(by rw [offsetsOf_length]; exact hi) = (p + offsetOf d i, d[i].width) := by
  induction d generalizing p i with
  | nil => cases hi
  | cons f fs ih =>
    cases i with
    | zero => simp [offsetsOf, offsetOf_zero]
    | succ j =>
      simp only [offsetsOf, List.getElem_cons_succ, offsetOf_succ]
      rw [ih (p + f.width) j (by simpa using hi)]
      simp; omega

/-- For a tiled member list the descriptor's running offsets are exactly the compiler's offsets. -/
theorem offsetsOf_of_tiled {p e : Nat} {ms : List Member} (h : tiledFrom p ms = some e) :
    offsetsOf (ms.map Member.toField) p = ms.map (fun m => (m.offset, m.size)) ∧
      p + totalWidth (ms.map Member.toField) = e := by
  induction ms generalizing p with
  | nil => simp [tiledFrom] at h; simp [offsetsOf, h]
  | cons m ms ih =>
    simp only [tiledFrom] at h
    split at h
    · rename_i hc
      obtain ⟨h1, h2⟩ := ih h
      refine ⟨?_, ?_⟩
      · simp only [List.map_cons, offsetsOf, Member.toField]
        rw [hc.1]
        exact congrArg _ h1
      · simp only [List.map_cons, totalWidth_cons, Member.toField] at h2 ⊢
        omega
    · cases h

/-! ### `overwrite` -/

theorem overwrite_length (bs : Bytes) (off : Nat) (new : Bytes) (h : off + new.length ≤ bs.length) :
    (overwrite bs off new).length = bs.length := by
  simp [overwrite]; omega

theorem overwrite_zero (bs new : Bytes) : overwrite bs 0 new = new ++ bs.drop new.length := by
  simp [overwrite]

theorem overwrite_append_left (v r : Bytes) (o : Nat) (new : Bytes) :
    overwrite (v ++ r) (v.length + o) new = v ++ overwrite r o new := by
  simp only [overwrite]
  rw [List.take_length_add_append, show v.length + o + new.length = v.length + (o + new.length) by omega,
    List.drop_length_add_append]
  simp

theorem overwrite_take_of_le (bs : Bytes) (w off : Nat) (new : Bytes) (h1 : w ≤ off) (h2 : w ≤ bs.length) :
    (overwrite bs off new).take w = bs.take w := by
  simp only [overwrite, List.append_assoc]
  rw [List.take_append_of_le_length (by simp; omega), List.take_take]
  congr 1; omega

theorem overwrite_drop_of_le (bs : Bytes) (w off : Nat) (new : Bytes) (h1 : w ≤ off) (h2 : w ≤ bs.length) :
    (overwrite bs off new).drop w = overwrite (bs.drop w) (off - w) new := by
  simp only [overwrite, List.append_assoc]
  rw [List.drop_append_of_le_length (by simp; omega), List.drop_take, List.drop_drop]
  congr 2
  congr 1; omega

/-- Bytes outside the overwritten range are untouched. -/
theorem overwrite_getElem?_outside (bs : Bytes) (off : Nat) (new : Bytes) (k : Nat)
    (h : off + new.length ≤ bs.length) (hk : k < off ∨ off + new.length ≤ k) :
    (overwrite bs off new)[k]? = bs[k]? := by
  simp only [overwrite]
  rcases hk with hk | hk
  · rw [List.append_assoc, List.getElem?_append_left (by simp; omega), List.getElem?_take_of_lt hk]
  · rw [List.getElem?_append_right (by simp; omega), List.getElem?_drop]
    simp only [List.length_append, List.length_take]
    congr 1; omega

/-- The overwritten range holds the new bytes. -/
theorem overwrite_slice (bs : Bytes) (off : Nat) (new : Bytes) (h : off ≤ bs.length) :
    slice (overwrite bs off new) off new.length = new := by
  simp only [slice, overwrite, List.append_assoc]
  rw [List.drop_append_of_le_length (by simp; omega)]
  have : (List.take off bs).drop off = [] := by
    apply List.drop_eq_nil_of_le; rw [List.length_take]; exact Nat.min_le_left _ _
  rw [this]; simp

/-! ### The codec -/

theorem parseFixed_cons (f : Field) (fs : List Field) (bs : Bytes) :
    parseFixed (f :: fs) bs =
      if bs.length < f.width then none
      else match parseFixed fs (bs.drop f.width) with
        | none => none
        | some r => some ((f.name, bs.take f.width) :: r) := by
  by_cases h : bs.length < f.width
  · simp [parseFixed, h]
  · simp only [parseFixed, if_neg h]
    cases parseFixed fs (bs.drop f.width) <;> rfl

/-- Parsing succeeds exactly when enough bytes are present. -/
theorem parseFixed_isSome (d : List Field) (bs : Bytes) :
    (parseFixed d bs).isSome = true ↔ totalWidth d ≤ bs.length := by
  induction d generalizing bs with
  | nil => simp [parseFixed]
  | cons f fs ih =>
    rw [parseFixed_cons, totalWidth_cons]
    by_cases h : bs.length < f.width
    · simp [h]; omega
    · rw [if_neg h]
      have := ih (bs.drop f.width)
      rw [List.length_drop] at this
      cases hp : parseFixed fs (bs.drop f.width) with
      | none => simp [hp] at this ⊢; omega
      | some r => simp [hp] at this ⊢; omega

theorem parseFixed_length {d : List Field} {bs : Bytes} {vs : List (Nat × Bytes)}
    (h : parseFixed d bs = some vs) : vs.length = d.length := by
  induction d generalizing bs vs with
  | nil => simp [parseFixed] at h; simp [← h]
  | cons f fs ih =>
    rw [parseFixed_cons] at h
    split at h
    · cases h
    · split at h
      · cases h
      · rename_i r hr
        injection h with h; subst h
        simp [ih hr]

/-- Field `i` of a parse is that member's name and exactly the bytes at its offset. -/
theorem parseFixed_getElem {d : List Field} {bs : Bytes} {vs : List (Nat × Bytes)}
    (h : parseFixed d bs = some vs) (i : Nat) (hi : i < d.length) :
    vs[i]'(by rw [parseFixed_length h]; exact hi) = (d[i].name, slice bs (offsetOf d i) d[i].width) := by
  induction d generalizing bs vs i with
  | nil => cases hi
  | cons f fs ih =>
    rw [parseFixed_cons] at h
    split at h
    · cases h
    · split at h
      · cases h
      · rename_i r hr
        injection h with h; subst h
        cases i with
        | zero => simp [slice, offsetOf_zero]
        | succ j =>
          simp only [List.getElem_cons_succ, offsetOf_succ]
          rw [ih hr j (by simpa using hi)]
          simp [slice, List.drop_drop]

/-- What was built parses back to the same values, whatever follows the record. -/
theorem parse_build {d : List Field} {vs : List (Nat × Bytes)} {bs : Bytes}
    (h : buildFixed d vs = some bs) (tail : Bytes) : parseFixed d (bs ++ tail) = some vs := by
  induction d generalizing vs bs with
  | nil =>
    cases vs with
    | nil => simp [parseFixed]
    | cons v vs => simp [buildFixed] at h
  | cons f fs ih =>
    cases vs with
    | nil => simp [buildFixed] at h
    | cons nv vs =>
      obtain ⟨n, v⟩ := nv
      simp only [buildFixed] at h
      split at h
      · rename_i hc
        split at h
        · cases h
        · rename_i r hr
          injection h with h; subst h
          rw [parseFixed_cons, if_neg (by simp; omega)]
          have e1 : (v ++ r ++ tail).drop f.width = r ++ tail := by
            rw [List.append_assoc, ← hc.2, List.drop_left]
          have e2 : (v ++ r ++ tail).take f.width = v := by
            rw [List.append_assoc, ← hc.2, List.take_left]
          rw [e1, e2, ih hr, hc.1]
      · cases h

/-- What was parsed builds back to the record's own bytes. -/
theorem build_parse {d : List Field} {bs : Bytes} {vs : List (Nat × Bytes)}
    (h : parseFixed d bs = some vs) : buildFixed d vs = some (bs.take (totalWidth d)) := by
  induction d generalizing bs vs with
  | nil => simp [parseFixed] at h; subst h; simp [buildFixed]
  | cons f fs ih =>
    rw [parseFixed_cons] at h
    split at h
    · cases h
    · rename_i hlen
      split at h
      · cases h
      · rename_i r hr
        injection h with h; subst h
        simp only [buildFixed]
        rw [if_pos ⟨trivial, by simp; omega⟩, ih hr, totalWidth_cons]
        simp only [Option.some.injEq]
        rw [List.take_add]

theorem buildFixed_length {d : List Field} {vs : List (Nat × Bytes)} {bs : Bytes}
    (h : buildFixed d vs = some bs) : bs.length = totalWidth d ∧ vs.length = d.length := by
  induction d generalizing vs bs with
  | nil =>
    cases vs with
    | nil => simp [buildFixed] at h; simp [← h]
    | cons v vs => simp [buildFixed] at h
  | cons f fs ih =>
    cases vs with
    | nil => simp [buildFixed] at h
    | cons nv vs =>
      obtain ⟨n, v⟩ := nv
      simp only [buildFixed] at h
      split at h
      · rename_i hc
        split at h
        · cases h
        · rename_i r hr
          injection h with h; subst h
          have := ih hr
          simp [totalWidth_cons, this.1, this.2, hc.2]
      · cases h

/-- Field isolation, reading direction: overwriting the bytes of member `i` replaces field `i` of the
parse by the new bytes and leaves every other field as it was. -/
theorem parse_overwrite (d : List Field) (bs : Bytes) (vs : List (Nat × Bytes)) (i : Nat) (hi : i < d.length)
    (new : Bytes) (hn : new.length = d[i].width) (hp : parseFixed d bs = some vs) :
    parseFixed d (overwrite bs (offsetOf d i) new) = some (vs.set i (d[i].name, new)) := by
  induction d generalizing bs vs i with
  | nil => cases hi
  | cons f fs ih =>
    rw [parseFixed_cons] at hp
    split at hp
    · cases hp
    · rename_i hlen
      split at hp
      · cases hp
      · rename_i r hr
        injection hp with hp; subst hp
        cases i with
        | zero =>
          simp only [List.getElem_cons_zero] at hn
          rw [offsetOf_zero, overwrite_zero, parseFixed_cons, if_neg (by simp; omega)]
          have e1 : (new ++ bs.drop new.length).drop f.width = bs.drop f.width := by
            rw [← hn, List.drop_left]
          have e2 : (new ++ bs.drop new.length).take f.width = new := by
            rw [← hn, List.take_left]
          rw [e1, e2, hr]
          simp
        | succ j =>
          simp only [List.getElem_cons_succ] at hn ⊢
          rw [offsetOf_succ, parseFixed_cons]
          have hw : f.width ≤ bs.length := by omega
          have hl : ¬ (overwrite bs (f.width + offsetOf fs j) new).length < f.width := by
            simp only [overwrite, List.length_append, List.length_take]; omega
          rw [if_neg hl, overwrite_take_of_le bs f.width _ new (by omega) hw,
            overwrite_drop_of_le bs f.width _ new (by omega) hw,
            show f.width + offsetOf fs j - f.width = offsetOf fs j by omega,
            ih (bs.drop f.width) r j (by simpa using hi) hn hr]
          simp

/-- Field isolation, writing direction: replacing value `i` replaces exactly the bytes of member `i`
in the serialisation. -/
theorem build_set (d : List Field) (vs : List (Nat × Bytes)) (bs : Bytes) (i : Nat) (hi : i < d.length)
    (new : Bytes) (hn : new.length = d[i].width) (hb : buildFixed d vs = some bs) :
    buildFixed d (vs.set i (d[i].name, new)) = some (overwrite bs (offsetOf d i) new) := by
  induction d generalizing vs bs i with
  | nil => cases hi
  | cons f fs ih =>
    cases vs with
    | nil => simp [buildFixed] at hb
    | cons nv vs =>
      obtain ⟨n, v⟩ := nv
      simp only [buildFixed] at hb
      split at hb
      · rename_i hc
        split at hb
        · cases hb
        · rename_i r hr
          injection hb with hb; subst hb
          cases i with
          | zero =>
            simp only [List.getElem_cons_zero] at hn
            simp only [List.set_cons_zero, List.getElem_cons_zero, buildFixed]
            rw [if_pos ⟨trivial, hn⟩, hr, offsetOf_zero, overwrite_zero, hn, ← hc.2, List.drop_left]
          | succ j =>
            simp only [List.getElem_cons_succ] at hn ⊢
            simp only [List.set_cons_succ, buildFixed]
            rw [if_pos hc, ih vs r j (by simpa using hi) hn hr, offsetOf_succ, ← hc.2, overwrite_append_left]
      · cases hb

/-! ### Table-level helpers -/

theorem offsetOf_descriptor_of_tiled {e : Nat} {ms : List Member} (h : tiledFrom 0 ms = some e)
    (i : Nat) (hi : i < ms.length) : offsetOf (ms.map Member.toField) i = ms[i].offset := by
  rw [tiledFrom_contiguous h i hi]
  simp only [offsetOf, totalWidth, ← List.map_take, List.map_map, Nat.zero_add]
  rfl

/-- Field isolation for any tiled member list, at the members' own (compiler-reported) offsets. -/
theorem isolation_of_tiled {e : Nat} {ms : List Member} (h : tiledFrom 0 ms = some e) (bs : Bytes)
    (vs : List (Nat × Bytes)) (i : Nat) (hi : i < ms.length) (new : Bytes) (hn : new.length = ms[i].size)
    (hp : parseFixed (ms.map Member.toField) bs = some vs) :
    parseFixed (ms.map Member.toField) (overwrite bs ms[i].offset new) = some (vs.set i (ms[i].name, new)) := by
  have hi' : i < (ms.map Member.toField).length := by simpa using hi
  have ho := offsetOf_descriptor_of_tiled h i hi
  have := parse_overwrite (ms.map Member.toField) bs vs i hi' new (by simpa [Member.toField] using hn) hp
  rw [ho] at this
  simpa [Member.toField] using this

theorem nodupB_sound {l : List Nat} (h : nodupB l = true) : l.Nodup := by
  induction l with
  | nil => exact List.nodup_nil
  | cons a l ih =>
    simp only [nodupB, Bool.and_eq_true, Bool.not_eq_true', List.contains_eq_mem, decide_eq_false_iff_not] at h
    exact List.nodup_cons.2 ⟨h.1, ih h.2⟩

theorem findStruct_some {tbl : List CxxStruct} {code : Nat} {t : CxxStruct} (h : findStruct tbl code = some t) :
    t ∈ tbl ∧ t.name = code := by
  unfold findStruct at h
  exact ⟨List.mem_of_find?_eq_some h, by simpa using List.find?_some h⟩

/-- Readable content of `memberShapeB`. -/
structure MemberShape (tbl : List CxxStruct) (m : Member) : Prop where
  scalar : m.arrayLen = 0 → m.size = m.elemSize ∧ m.kind = m.elemKind
  array : m.arrayLen ≠ 0 → m.size = m.arrayLen * m.elemSize ∧ (m.kind = .array ∨ m.kind = .bytes)
  nested : m.elemKind = .struct → ∃ t ∈ tbl, t.name = m.sub ∧ t.sizeof = m.elemSize
  elemScalar : m.elemKind ≠ .array ∧ m.elemKind ≠ .bytes

theorem memberShapeB_sound {tbl : List CxxStruct} {m : Member} (h : memberShapeB tbl m = true) :
    MemberShape tbl m := by
  simp only [memberShapeB, Bool.and_eq_true] at h
  obtain ⟨⟨⟨h1, h2⟩, h3⟩, _⟩ := h
  refine ⟨?_, ?_, ?_, ?_⟩
  · intro h0
    rw [if_pos h0] at h1
    simpa using h1
  · intro h0
    rw [if_neg h0] at h1
    simp only [Bool.and_eq_true, Bool.or_eq_true, beq_iff_eq] at h1
    exact ⟨h1.1, h1.2.imp id (fun x => x.1.1)⟩
  · intro hk
    rw [if_pos hk] at h2
    split at h2
    · rename_i t ht
      exact ⟨t, (findStruct_some ht).1, (findStruct_some ht).2, by simpa using h2⟩
    · cases h2
  · simpa using h3

theorem flatB_sound {tbl : List CxxStruct} {s : CxxStruct} (h : flatB tbl s = true) :
    ∃ leaves, flatten tbl s = some leaves ∧ tiledFrom 0 leaves = some s.sizeof := by
  unfold flatB at h
  split at h
  · cases h
  · rename_i ls hl
    exact ⟨ls, hl, by simpa using h⟩

end FeVerif.FixedLayout
