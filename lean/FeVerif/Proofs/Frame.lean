/-
Lemmas about the framing scan (`Cfg.run`, `Cfg.runFile`).
-/
import FeVerif.Spec.Frame

namespace FeVerif
namespace Cfg

variable {c : Cfg}

theorem run_stop {buf : Bytes} {off : Nat} (h : c.step buf = .stop) :
    c.run buf off = ⟨[], buf, off⟩ := by
  rw [run.eq_def]; split <;> simp_all

theorem run_drop {buf : Bytes} {off : Nat} (h : c.step buf = .drop) :
    c.run buf off = c.run (buf.drop 1) (off + 1) := by
  rw [run.eq_def]; split <;> simp_all

theorem run_emit {buf : Bytes} {off n : Nat} (h : c.step buf = .emit n) :
    c.run buf off = ⟨(off, n) :: (c.run (buf.drop n) (off + n)).msgs,
      (c.run (buf.drop n) (off + n)).rest, (c.run (buf.drop n) (off + n)).off⟩ := by
  rw [run.eq_def]; split <;> simp_all

theorem msgLen_append {buf more : Bytes} (h : c.hdrLen ≤ buf.length) :
    c.msgLen (buf ++ more) = c.msgLen buf := by
  unfold msgLen
  rw [List.take_append_of_le_length h]

/-- A verdict other than "cannot be judged yet" is not changed by bytes that arrive later. -/
theorem step_append_of_ne_stop {buf : Bytes} (more : Bytes) (h : c.step buf ≠ .stop) :
    c.step (buf ++ more) = c.step buf := by
  unfold step at h ⊢
  by_cases h1 : buf.length < c.hdrLen
  · simp [h1] at h
  · have hle : c.hdrLen ≤ buf.length := by omega
    have h1' : ¬ (buf ++ more).length < c.hdrLen := by simp; omega
    rw [if_neg h1] at h
    rw [if_neg h1, if_neg h1']
    rw [List.take_append_of_le_length hle, msgLen_append hle]
    by_cases h2 : c.headerOk (buf.take c.hdrLen) = false
    · simp [h2]
    · rw [if_neg h2] at h
      rw [if_neg h2, if_neg h2]
      by_cases h3 : buf.length < c.msgLen buf
      · simp [h3] at h
      · have h3' : ¬ (buf ++ more).length < c.msgLen buf := by simp; omega
        rw [if_neg h3, if_neg h3']
        rw [List.take_append_of_le_length (by omega)]

/-- What an accepted verdict means. -/
theorem step_emit_iff {buf : Bytes} {n : Nat} :
    c.step buf = .emit n ↔
      c.hdrLen ≤ buf.length ∧ c.headerOk (buf.take c.hdrLen) = true ∧ n = c.msgLen buf ∧
      n ≤ buf.length ∧ c.bodyOk (buf.take n) = true := by
  unfold step
  constructor
  · intro h
    split at h; · cases h
    split at h; · cases h
    split at h; · cases h
    split at h
    · injection h with h; subst h
      simp_all
    · cases h
  · rintro ⟨h1, h2, h3, h4, h5⟩
    subst h3
    rw [if_neg (by omega), if_neg (by simp [h2]), if_neg (by omega), if_pos h5]

/-- The streaming scan of `buf ++ more` is the scan of `buf`, resumed on what it left plus `more`. -/
theorem run_append (buf more : Bytes) (off : Nat) :
    c.run (buf ++ more) off =
      ⟨(c.run buf off).msgs ++ (c.run ((c.run buf off).rest ++ more) (c.run buf off).off).msgs,
       (c.run ((c.run buf off).rest ++ more) (c.run buf off).off).rest,
       (c.run ((c.run buf off).rest ++ more) (c.run buf off).off).off⟩ := by
  induction hlen : buf.length using Nat.strongRecOn generalizing buf off with
  | ind k ih =>
    cases hs : c.step buf with
    | stop => rw [run_stop hs]; simp
    | drop =>
      have hs' : c.step (buf ++ more) = .drop := by
        rw [step_append_of_ne_stop more (by simp [hs]), hs]
      have hpos := step_drop_pos hs
      rw [run_drop hs', run_drop hs]
      have : (buf ++ more).drop 1 = buf.drop 1 ++ more := by
        rw [List.drop_append_of_le_length (by omega)]
      rw [this]
      exact ih (buf.drop 1).length (by simp; omega) _ _ rfl
    | emit n =>
      have hs' : c.step (buf ++ more) = .emit n := by
        rw [step_append_of_ne_stop more (by simp [hs]), hs]
      have hpos := step_emit_pos hs
      rw [run_emit hs', run_emit hs]
      have : (buf ++ more).drop n = buf.drop n ++ more := by
        rw [List.drop_append_of_le_length (by omega)]
      rw [this]
      have := ih (buf.drop n).length (by simp; omega) (buf.drop n) (off + n) rfl
      rw [this]
      simp

/-- Bytes are conserved by the scan. -/
theorem run_conserve (buf : Bytes) (off : Nat) :
    (c.run buf off).off + (c.run buf off).rest.length = off + buf.length := by
  induction hlen : buf.length using Nat.strongRecOn generalizing buf off with
  | ind k ih =>
    cases hs : c.step buf with
    | stop => rw [run_stop hs]; simp; omega
    | drop =>
      have hpos := step_drop_pos hs
      rw [run_drop hs]
      have := ih (buf.drop 1).length (by simp; omega) (buf.drop 1) (off + 1) rfl
      simp only [List.length_drop] at this; omega
    | emit n =>
      have hpos := step_emit_pos hs
      rw [run_emit hs]
      have := ih (buf.drop n).length (by simp; omega) (buf.drop n) (off + n) rfl
      simp only [List.length_drop] at this ⊢; omega

/-- What the scan leaves unjudged really cannot be judged yet, and is a suffix of the input. -/
theorem run_rest (buf : Bytes) (off : Nat) :
    c.step (c.run buf off).rest = .stop ∧
      (c.run buf off).rest = buf.drop ((c.run buf off).off - off) ∧ off ≤ (c.run buf off).off := by
  induction hlen : buf.length using Nat.strongRecOn generalizing buf off with
  | ind k ih =>
    cases hs : c.step buf with
    | stop => rw [run_stop hs]; simp [hs]
    | drop =>
      have hpos := step_drop_pos hs
      rw [run_drop hs]
      obtain ⟨h1, h2, h3⟩ := ih (buf.drop 1).length (by simp; omega) (buf.drop 1) (off + 1) rfl
      refine ⟨h1, ?_, by omega⟩
      rw [h2, List.drop_drop]; congr 1; omega
    | emit n =>
      have hpos := step_emit_pos hs
      rw [run_emit hs]
      obtain ⟨h1, h2, h3⟩ := ih (buf.drop n).length (by simp; omega) (buf.drop n) (off + n) rfl
      refine ⟨h1, ?_, by simp; omega⟩
      simp only
      rw [h2, List.drop_drop]; congr 1; omega

/-- The state in which the scan stops: fewer than a header's worth of bytes, or a plausible header
whose body has not arrived completely. -/
theorem stop_iff {buf : Bytes} :
    c.step buf = .stop ↔
      buf.length < c.hdrLen ∨
        (c.headerOk (buf.take c.hdrLen) = true ∧ buf.length < c.msgLen buf) := by
  unfold step
  by_cases h1 : buf.length < c.hdrLen
  · simp [h1]
  · rw [if_neg h1]
    by_cases h2 : c.headerOk (buf.take c.hdrLen) = false
    · simp [h2, h1]
    · rw [if_neg h2]
      by_cases h3 : buf.length < c.msgLen buf
      · simp [h3]; right; simpa using h2
      · rw [if_neg h3]
        split <;> simp [h1, h3]

/-- Accepted messages: each lies inside the scanned bytes at its reported offset, is accepted on its
own bytes, and they are listed in increasing, non-overlapping order starting at or after `off`. -/
def Sound (c : Cfg) (buf : Bytes) (off : Nat) (lo : Nat) : List (Nat × Nat) → Prop
  | [] => True
  | (o, n) :: rest =>
      lo ≤ o ∧ 0 < n ∧ o + n ≤ off + buf.length ∧
      c.step (buf.drop (o - off)) = .emit n ∧ Sound c buf off (o + n) rest

theorem sound_drop {buf : Bytes} {off lo k : Nat} {l : List (Nat × Nat)} (hk : k ≤ buf.length)
    (hlo : off + k ≤ lo)
    (h : Sound c (buf.drop k) (off + k) lo l) : Sound c buf off lo l := by
  induction l generalizing lo with
  | nil => trivial
  | cons p rest ih =>
    obtain ⟨o, n⟩ := p
    obtain ⟨h1, h2, h3, h4, h5⟩ := h
    refine ⟨h1, h2, ?_, ?_, ih (by omega) h5⟩
    · simp at h3; omega
    · rw [List.drop_drop] at h4
      have : k + (o - (off + k)) = o - off := by omega
      rw [this] at h4; exact h4

theorem sound_weaken {buf : Bytes} {off lo lo' : Nat} {l : List (Nat × Nat)} (hlo : lo' ≤ lo)
    (h : Sound c buf off lo l) : Sound c buf off lo' l := by
  cases l with
  | nil => trivial
  | cons p rest =>
    obtain ⟨o, n⟩ := p
    obtain ⟨h1, h2, h3, h4, h5⟩ := h
    exact ⟨by omega, h2, h3, h4, h5⟩

theorem run_sound (buf : Bytes) (off : Nat) : Sound c buf off off (c.run buf off).msgs := by
  induction hlen : buf.length using Nat.strongRecOn generalizing buf off with
  | ind k ih =>
    cases hs : c.step buf with
    | stop => rw [run_stop hs]; trivial
    | drop =>
      have hpos := step_drop_pos hs
      rw [run_drop hs]
      have := ih (buf.drop 1).length (by simp; omega) (buf.drop 1) (off + 1) rfl
      exact sound_weaken (by omega) (sound_drop (by omega) (by omega) this)
    | emit n =>
      have hpos := step_emit_pos hs
      rw [run_emit hs]
      have := ih (buf.drop n).length (by simp; omega) (buf.drop n) (off + n) rfl
      refine ⟨Nat.le_refl _, hpos.1, by omega, by simpa using hs, ?_⟩
      exact sound_drop (by omega) (by omega) this

/-! ### File scan -/

theorem runFile_stop {buf : Bytes} {off : Nat} (h : c.stepFile buf = .stop) :
    c.runFile buf off = [] := by
  rw [runFile.eq_def]; split <;> simp_all

theorem runFile_drop {buf : Bytes} {off : Nat} (h : c.stepFile buf = .drop) :
    c.runFile buf off = c.runFile (buf.drop 1) (off + 1) := by
  rw [runFile.eq_def]; split <;> simp_all

theorem runFile_emit {buf : Bytes} {off n : Nat} (h : c.stepFile buf = .emit n) :
    c.runFile buf off = (off, n) :: c.runFile (buf.drop n) (off + n) := by
  rw [runFile.eq_def]; split <;> simp_all

/-- Where the streaming verdict is not "wait", the file verdict is the same. -/
theorem stepFile_of_step {buf : Bytes} (h : c.step buf ≠ .stop) : c.stepFile buf = c.step buf := by
  unfold step at h ⊢; unfold stepFile
  split; · rfl
  split; · rfl
  split
  · simp_all
  · rfl

theorem stepFile_emit_iff {buf : Bytes} {n : Nat} :
    c.stepFile buf = .emit n ↔ c.step buf = .emit n := by
  unfold step stepFile
  split; · simp
  split; · simp
  split; · simp
  · simp

/-- The file scan begins with exactly what the streaming scan accepts. -/
theorem runFile_eq_run_append (buf : Bytes) (off : Nat) :
    c.runFile buf off = (c.run buf off).msgs ++ c.runFile (c.run buf off).rest (c.run buf off).off := by
  induction hlen : buf.length using Nat.strongRecOn generalizing buf off with
  | ind k ih =>
    cases hs : c.step buf with
    | stop => rw [run_stop hs]; simp
    | drop =>
      have hpos := step_drop_pos hs
      have hf : c.stepFile buf = .drop := by rw [stepFile_of_step (by simp [hs]), hs]
      rw [runFile_drop hf, run_drop hs]
      exact ih (buf.drop 1).length (by simp; omega) _ _ rfl
    | emit n =>
      have hpos := step_emit_pos hs
      have hf : c.stepFile buf = .emit n := by rw [stepFile_of_step (by simp [hs]), hs]
      rw [runFile_emit hf, run_emit hs]
      have := ih (buf.drop n).length (by simp; omega) (buf.drop n) (off + n) rfl
      simp [this]

end Cfg
end FeVerif

namespace FeVerif
namespace Cfg
variable {c : Cfg}

/-- Completeness of the scan: a position the scan has passed at which a message would be accepted
lies inside (possibly at the start of) one of the accepted messages. -/
theorem run_complete (buf : Bytes) (off p n : Nat) (hp : off ≤ p) (hp2 : p < (c.run buf off).off)
    (hv : c.step (buf.drop (p - off)) = .emit n) :
    ∃ o l, (o, l) ∈ (c.run buf off).msgs ∧ o ≤ p ∧ p < o + l := by
  induction hlen : buf.length using Nat.strongRecOn generalizing buf off with
  | ind k ih =>
    cases hs : c.step buf with
    | stop => rw [run_stop hs] at hp2; simp at hp2; omega
    | drop =>
      have hpos := step_drop_pos hs
      rw [run_drop hs] at hp2 ⊢
      by_cases hpe : p = off
      · subst hpe; simp [hs] at hv
      · refine ih (buf.drop 1).length (by simp; omega) (buf.drop 1) (off + 1) (by omega) hp2 ?_ rfl
        rw [List.drop_drop]
        have : 1 + (p - (off + 1)) = p - off := by omega
        rw [this]; exact hv
    | emit m =>
      have hpos := step_emit_pos hs
      rw [run_emit hs] at hp2 ⊢
      by_cases hpe : p < off + m
      · exact ⟨off, m, by simp, hp, hpe⟩
      · simp only at hp2
        obtain ⟨o, l, h1, h2, h3⟩ := ih (buf.drop m).length (by simp; omega) (buf.drop m) (off + m)
          (by omega) hp2 (by
            rw [List.drop_drop]
            have : m + (p - (off + m)) = p - off := by omega
            rw [this]; exact hv) rfl
        exact ⟨o, l, by simp [h1], h2, h3⟩

/-- An accepted message starting exactly at a position is the message the verdict there names. -/
theorem sound_mem {buf : Bytes} {off lo : Nat} {l : List (Nat × Nat)} (h : Sound c buf off lo l)
    {o n : Nat} (hm : (o, n) ∈ l) :
    lo ≤ o ∧ 0 < n ∧ o + n ≤ off + buf.length ∧ c.step (buf.drop (o - off)) = .emit n := by
  induction l generalizing lo with
  | nil => cases hm
  | cons p rest ih =>
    obtain ⟨o', n'⟩ := p
    obtain ⟨h1, h2, h3, h4, h5⟩ := h
    rcases List.mem_cons.1 hm with e | hm'
    · injection e with e1 e2; subst e1; subst e2; exact ⟨h1, h2, h3, h4⟩
    · have := ih h5 hm'
      exact ⟨by omega, this.2⟩

end Cfg
end FeVerif
