/-
Lemmas about the framing scan (`Cfg.run`, `Cfg.runFile`).
-/
import FeVerif.Spec.Frame

namespace FeVerif
namespace Cfg

variable {c : Cfg}

theorem run_stop {buf : Bytes} {off : Nat} (h : c.step buf = .stop) :
    c.run buf off = ⟨[], buf, off⟩ := by
  rw [run.eq_def]; split <;> simp_all

theorem run_drop {buf : Bytes} {off : Nat} (h : c.step buf = .drop) :
    c.run buf off = c.run (buf.drop 1) (off + 1) := by
  rw [run.eq_def]; split <;> simp_all

theorem run_emit {buf : Bytes} {off n : Nat} (h : c.step buf = .emit n) :
    c.run buf off = ⟨(off, n) :: (c.run (buf.drop n) (off + n)).msgs,
      (c.run (buf.drop n) (off + n)).rest, (c.run (buf.drop n) (off + n)).off⟩ := by
  rw [run.eq_def]; split <;> simp_all

theorem msgLen_append {buf more : Bytes} (h : c.hdrLen ≤ buf.length) :
    c.msgLen (buf ++ more) = c.msgLen buf := by
  unfold msgLen
  rw [List.take_append_of_le_length h]

/-- A verdict other than "cannot be judged yet" is not changed by bytes that arrive later. -/
theorem step_append_of_ne_stop {buf : Bytes} (more : Bytes) (h : c.step buf ≠ .stop) :
    c.step (buf ++ more) = c.step buf := by
  unfold step at h ⊢
  by_cases h1 : buf.length < c.hdrLen
  · simp [h1] at h
  · have hle : c.hdrLen ≤ buf.length := by omega
    have h1' : ¬ (buf ++ more).length < c.hdrLen := by simp; omega
    rw [if_neg h1] at h
    rw [if_neg h1, if_neg h1']
    rw [List.take_append_of_le_length hle, msgLen_append hle]
    by_cases h2 : c.headerOk (buf.take c.hdrLen) = false
    · simp [h2]
    · rw [if_neg h2] at h
      rw [if_neg h2, if_neg h2]
      by_cases h3 : buf.length < c.msgLen buf
      · simp [h3] at h
      · have h3' : ¬ (buf ++ more).length < c.msgLen buf := by simp; omega
        rw [if_neg h3, if_neg h3']
        rw [List.take_append_of_le_length (by omega)]

/-- What an accepted verdict means. -/
theorem step_emit_iff {buf : Bytes} {n : Nat} :
    c.step buf = .emit n ↔
      c.hdrLen ≤ buf.length ∧ c.headerOk (buf.take c.hdrLen) = true ∧ n = c.msgLen buf ∧
      n ≤ buf.length ∧ c.bodyOk (buf.take n) = true := by
  unfold step
  constructor
  · intro h
    split at h; · cases h
    split at h; · cases h
    split at h; · cases h
    split at h
    · injection h with h; subst h
      simp_all
    · cases h
  · rintro ⟨h1, h2, h3, h4, h5⟩
    subst h3
    rw [if_neg (by omega), if_neg (by simp [h2]), if_neg (by omega), if_pos h5]

/-- The streaming scan of `buf ++ more` is the scan of `buf`, resumed on what it left plus `more`. -/
theorem run_append (buf more : Bytes) (off : Nat) :
    c.run (buf ++ more) off =
      ⟨(c.run buf off).msgs ++ (c.run ((c.run buf off).rest ++ more) (c.run buf off).off).msgs,
       (c.run ((c.run buf off).rest ++ more) (c.run buf off).off).rest,
       (c.run ((c.run buf off).rest ++ more) (c.run buf off).off).off⟩ := by
  induction hlen : buf.length using Nat.strongRecOn generalizing buf off with
  | ind k ih =>
    cases hs : c.step buf with
    | stop => rw [run_stop hs]; simp
    | drop =>
      have hs' : c.step (buf ++ more) = .drop := by
        rw [step_append_of_ne_stop more (by simp [hs]), hs]
      have hpos := step_drop_pos hs
      rw [run_drop hs', run_drop hs]
      have : (buf ++ more).drop 1 = buf.drop 1 ++ more := by
        rw [List.drop_append_of_le_length (by omega)]
      rw [this]
      exact ih (buf.drop 1).length (by simp; omega) _ _ rfl
    | emit n =>
      have hs' : c.step (buf ++ more) = .emit n := by
        rw [step_append_of_ne_stop more (by simp [hs]), hs]
      have hpos := step_emit_pos hs
      rw [run_emit hs', run_emit hs]
      have : (buf ++ more).drop n = buf.drop n ++ more := by
        rw [List.drop_append_of_le_length (by omega)]
      rw [this]
      have := ih (buf.drop n).length (by simp; omega) (buf.drop n) (off + n) rfl
      rw [this]
      simp

/-- Bytes are conserved by the scan. -/
theorem run_conserve (buf : Bytes) (off : Nat) :
    (c.run buf off).off + (c.run buf off).rest.length = off + buf.length := by
  induction hlen : buf.length using Nat.strongRecOn generalizing buf off with
  | ind k ih =>
    cases hs : c.step buf with
    | stop => rw [run_stop hs]; simp; omega
    | drop =>
      have hpos := step_drop_pos hs
      rw [run_drop hs]
      have := ih (buf.drop 1).length (by simp; omega) (buf.drop 1) (off + 1) rfl
      simp only [List.length_drop] at this; omega
    | emit n =>
      have hpos := step_emit_pos hs
      rw [run_emit hs]
      have := ih (buf.drop n).length (by simp; omega) (buf.drop n) (off + n) rfl
      simp only [List.length_drop] at this ⊢; omega

/-- What the scan leaves unjudged really cannot be judged yet, and is a suffix of the input. -/
theorem run_rest (buf : Bytes) (off : Nat) :
    c.step (c.run buf off).rest = .stop ∧
      (c.run buf off).rest = buf.drop ((c.run buf off).off - off) ∧ off ≤ (c.run buf off).off := by
  induction hlen : buf.length using Nat.strongRecOn generalizing buf off with
  | ind k ih =>
    cases hs : c.step buf with
    | stop => rw [run_stop hs]; simp [hs]
    | drop =>
      have hpos := step_drop_pos hs
      rw [run_drop hs]
      obtain ⟨h1, h2, h3⟩ := ih (buf.drop 1).length (by simp; omega) (buf.drop 1) (off + 1) rfl
      refine ⟨h1, ?_, by omega⟩
      rw [h2, List.drop_drop]; congr 1; omega
    | emit n =>
      have hpos := step_emit_pos hs
      rw [run_emit hs]
      obtain ⟨h1, h2, h3⟩ := ih (buf.drop n).length (by simp; omega) (buf.drop n) (off + n) rfl
      refine ⟨h1, ?_, by simp; omega⟩
      simp only
      rw [h2, List.drop_drop]; congr 1; omega

/-- The state in which the scan stops: fewer than a header's worth of bytes, or a plausible header
whose body has not arrived completely. -/
theorem stop_iff {buf : Bytes} :
    c.step buf = .stop ↔
      buf.length < c.hdrLen ∨
        (c.headerOk (buf.take c.hdrLen) = true ∧ buf.length < c.msgLen buf) := by
  unfold step
  by_cases h1 : buf.length < c.hdrLen
  · simp [h1]
  · rw [if_neg h1]
    by_cases h2 : c.headerOk (buf.take c.hdrLen) = false
    · simp [h2, h1]
    · rw [if_neg h2]
      by_cases h3 : buf.length < c.msgLen buf
      · simp [h3]; right; simpa using h2
      · rw [if_neg h3]
        split <;> simp [h1, h3]

/-- Accepted messages: each lies inside the scanned bytes at its reported offset, is accepted on its
own bytes, and they are listed in increasing, non-overlapping order starting at or after `off`. -/
def Sound (c : Cfg) (buf : Bytes) (off : Nat) (lo : Nat) : List (Nat × Nat) → Prop
  | [] => True
  | (o, n) :: rest =>
      lo ≤ o ∧ 0 < n ∧ o + n ≤ off + buf.length ∧
      c.step (buf.drop (o - off)) = .emit n ∧ Sound c buf off (o + n) rest

theorem sound_drop {buf : Bytes} {off lo k : Nat} {l : List (Nat × Nat)} (hk : k ≤ buf.length)
    (hlo : off + k ≤ lo)
    (h : Sound c (buf.drop k) (off + k) lo l) : Sound c buf off lo l := by
  induction l generalizing lo with
  | nil => trivial
  | cons p rest ih =>
    obtain ⟨o, n⟩ := p
    obtain ⟨h1, h2, h3, h4, h5⟩ := h
    refine ⟨h1, h2, ?_, ?_, ih (by omega) h5⟩
    · simp at h3; omega
    · rw [List.drop_drop] at h4
      have : k + (o - (off + k)) = o - off := by omega
      rw [this] at h4; exact h4

theorem sound_weaken {buf : Bytes} {off lo lo' : Nat} {l : List (Nat × Nat)} (hlo : lo' ≤ lo)
    (h : Sound c buf off lo l) : Sound c buf off lo' l := by
  cases l with
  | nil => trivial
  | cons p rest =>
    obtain ⟨o, n⟩ := p
    obtain ⟨h1, h2, h3, h4, h5⟩ := h
    exact ⟨by omega, h2, h3, h4, h5⟩

theorem run_sound (buf : Bytes) (off : Nat) : Sound c buf off off (c.run buf off).msgs := by
  induction hlen : buf.length using Nat.strongRecOn generalizing buf off with
  | ind k ih =>
    cases hs : c.step buf with
    | stop => rw [run_stop hs]; trivial
    | drop =>
      have hpos := step_drop_pos hs
      rw [run_drop hs]
      have := ih (buf.drop 1).length (by simp; omega) (buf.drop 1) (off + 1) rfl
      exact sound_weaken (by omega) (sound_drop (by omega) (by omega) this)
    | emit n =>
      have hpos := step_emit_pos hs
      rw [run_emit hs]
      have := ih (buf.drop n).length (by simp; omega) (buf.drop n) (off + n) rfl
      refine ⟨Nat.le_refl _, hpos.1, by omega, by simpa using hs, ?_⟩
      exact sound_drop (by omega) (by omega) this

/-! ### File scan -/

theorem runFile_stop {buf : Bytes} {off : Nat} (h : c.stepFile buf = .stop) :
    c.runFile buf off = [] := by
  rw [runFile.eq_def]; split <;> simp_all

theorem runFile_drop {buf : Bytes} {off : Nat} (h : c.stepFile buf = .drop) :
    c.runFile buf off = c.runFile (buf.drop 1) (off + 1) := by
  rw [runFile.eq_def]; split <;> simp_all

theorem runFile_emit {buf : Bytes} {off n : Nat} (h : c.stepFile buf = .emit n) :
    c.runFile buf off = (off, n) :: c.runFile (buf.drop n) (off + n) := by
  rw [runFile.eq_def]; split <;> simp_all

/-- Where the streaming verdict is not "wait", the file verdict is the same. -/
theorem stepFile_of_step {buf : Bytes} (h : c.step buf ≠ .stop) : c.stepFile buf = c.step buf := by
  unfold step at h ⊢; unfold stepFile
  split; · rfl
  split; · rfl
  split
  · simp_all
  · rfl

theorem stepFile_emit_iff {buf : Bytes} {n : Nat} :
    c.stepFile buf = .emit n ↔ c.step buf = .emit n := by
  unfold step stepFile
  split; · simp
  split; · simp
  split; · simp
  · simp

/-- The file scan begins with exactly what the streaming scan accepts. -/
theorem runFile_eq_run_append (buf : Bytes) (off : Nat) :
    c.runFile buf off = (c.run buf off).msgs ++ c.runFile (c.run buf off).rest (c.run buf off).off := by
  induction hlen : buf.length using Nat.strongRecOn generalizing buf off with
  | ind k ih =>
    cases hs : c.step buf with
    | stop => rw [run_stop hs]; simp
    | drop =>
      have hpos := step_drop_pos hs
      have hf : c.stepFile buf = .drop := by rw [stepFile_of_step (by simp [hs]), hs]
      rw [runFile_drop hf, run_drop hs]
      exact ih (buf.drop 1).length (by simp; omega) _ _ rfl
    | emit n =>
      have hpos := step_emit_pos hs
      have hf : c.stepFile buf = .emit n := by rw [stepFile_of_step (by simp [hs]), hs]
      rw [runFile_emit hf, run_emit hs]
      have := ih (buf.drop n).length (by simp; omega) (buf.drop n) (off + n) rfl
      simp [this]

end Cfg
end FeVerif

namespace FeVerif
namespace Cfg
variable {c : Cfg}

/-- Completeness of the scan: a position the scan has passed at which a message would be accepted
lies inside (possibly at the start of) one of the accepted messages. -/
theorem run_complete (buf : Bytes) (off p n : Nat) (hp : off ≤ p) (hp2 : p < (c.run buf off).off)
    (hv : c.step (buf.drop (p - off)) = .emit n) :
    ∃ o l, (o, l) ∈ (c.run buf off).msgs ∧ o ≤ p ∧ p < o + l := by
  induction hlen : buf.length using Nat.strongRecOn generalizing buf off with
  | ind k ih =>
    cases hs : c.step buf with
    | stop => rw [run_stop hs] at hp2; simp at hp2; omega
    | drop =>
      have hpos := step_drop_pos hs
      rw [run_drop hs] at hp2 ⊢
      by_cases hpe : p = off
      · subst hpe; simp [hs] at hv
      · refine ih (buf.drop 1).length (by simp; omega) (buf.drop 1) (off + 1) (by omega) hp2 ?_ rfl
        rw [List.drop_drop]
        have : 1 + (p - (off + 1)) = p - off := by omega
        rw [this]; exact hv
    | emit m =>
      have hpos := step_emit_pos hs
      rw [run_emit hs] at hp2 ⊢
      by_cases hpe : p < off + m
      · exact ⟨off, m, by simp, hp, hpe⟩
      · simp only at hp2
        obtain ⟨o, l, h1, h2, h3⟩ := ih (buf.drop m).length (by simp; omega) (buf.drop m) (off + m)
          (by omega) hp2 (by
            rw [List.drop_drop]
            have : m + (p - (off + m)) = p - off := by omega
            rw [this]; exact hv) rfl
        exact ⟨o, l, by simp [h1], h2, h3⟩

/-- An accepted message starting exactly at a position is the message the verdict there names. -/
theorem sound_mem {buf : Bytes} {off lo : Nat} {l : List (Nat × Nat)} (h : Sound c buf off lo l)
    {o n : Nat} (hm : (o, n) ∈ l) :
    lo ≤ o ∧ 0 < n ∧ o + n ≤ off + buf.length ∧ c.step (buf.drop (o - off)) = .emit n := by
  induction l generalizing lo with
  | nil => cases hm
  | cons p rest ih =>
    obtain ⟨o', n'⟩ := p
    obtain ⟨h1, h2, h3, h4, h5⟩ := h
    rcases List.mem_cons.1 hm with e | hm'
    · injection e with e1 e2; subst e1; subst e2; exact ⟨h1, h2, h3, h4⟩
    · have := ih h5 hm'
      exact ⟨by omega, this.2⟩

end Cfg
end FeVerif

namespace FeVerif
namespace Cfg
variable {c : Cfg}

theorem runFile_ge (buf : Bytes) (off : Nat) : ∀ e ∈ c.runFile buf off, off ≤ e.1 ∧ e.1 + e.2 ≤ off + buf.length := by
  induction hlen : buf.length using Nat.strongRecOn generalizing buf off with
  | ind k ih =>
    intro e he
    cases hs : c.stepFile buf with
    | stop => rw [runFile_stop hs] at he; cases he
    | drop =>
      have hpos := stepFile_drop_pos hs
      rw [runFile_drop hs] at he
      have := ih (buf.drop 1).length (by simp; omega) (buf.drop 1) (off + 1) rfl e he
      simp only [List.length_drop] at this
      omega
    | emit n =>
      have hpos := stepFile_emit_pos hs
      rw [runFile_emit hs] at he
      rcases List.mem_cons.1 he with rfl | h
      · simp only; omega
      · have := ih (buf.drop n).length (by simp; omega) (buf.drop n) (off + n) rfl e h
        simp only [List.length_drop] at this
        omega

/-- An accepting verdict depends only on the message's own bytes. -/
theorem stepFile_emit_take' (buf : Bytes) (k n : Nat) :
    c.stepFile (buf.take k) = .emit n ↔ c.stepFile buf = .emit n ∧ n ≤ k := by
  rw [stepFile_emit_iff, stepFile_emit_iff]
  constructor
  · intro h
    have hpos := step_emit_pos h
    have : c.step (buf.take k ++ buf.drop k) = c.step (buf.take k) :=
      step_append_of_ne_stop _ (by rw [h]; simp)
    rw [List.take_append_drop] at this
    refine ⟨by rw [this, h], ?_⟩
    have := hpos.2; simp at this; omega
  · rintro ⟨h, hk⟩
    rw [step_emit_iff] at h ⊢
    obtain ⟨h1, h2, h3, h4, h5⟩ := h
    have hh : c.hdrLen ≤ n := by rw [h3]; unfold Cfg.msgLen; exact Nat.le_add_right _ _
    have e1 : (buf.take k).take c.hdrLen = buf.take c.hdrLen := by
      rw [List.take_take, Nat.min_eq_left (by omega)]
    have e2 : (buf.take k).take n = buf.take n := by
      rw [List.take_take, Nat.min_eq_left hk]
    refine ⟨by simp; omega, by rw [e1]; exact h2, ?_, by simp; omega, by rw [e2]; exact h5⟩
    rw [h3]; unfold Cfg.msgLen; rw [e1]

/-- **Scan of a file cut at the end of an accepted message**: exactly the accepted messages up to
and including that one. -/
theorem runFile_take (buf : Bytes) (off m o n : Nat) (hm : m ≤ buf.length)
    (hmem : (o, n) ∈ c.runFile buf off) (hend : o + n = off + m) :
    ∃ l1 l2, c.runFile buf off = l1 ++ (o, n) :: l2 ∧ c.runFile (buf.take m) off = l1 ++ [(o, n)] := by
  induction hlen : buf.length using Nat.strongRecOn generalizing buf off m with
  | ind k ih =>
    cases hs : c.stepFile buf with
    | stop => rw [runFile_stop hs] at hmem; cases hmem
    | drop =>
      have hpos := stepFile_drop_pos hs
      rw [runFile_drop hs] at hmem ⊢
      have hge := runFile_ge (c := c) _ _ _ hmem
      simp only at hge
      -- the cut file still has a full header's worth here, and the verdict there is `drop` too
      have hn : c.hdrLen ≤ n := by
        have hh : ∀ (b : Bytes) (f : Nat), (o, n) ∈ c.runFile b f → c.hdrLen ≤ n := by
          intro b f
          induction hl : b.length using Nat.strongRecOn generalizing b f with
          | ind k2 ih2 =>
            intro hin
            cases hs2 : c.stepFile b with
            | stop => rw [runFile_stop hs2] at hin; cases hin
            | drop =>
              have := stepFile_drop_pos hs2
              rw [runFile_drop hs2] at hin
              exact ih2 (b.drop 1).length (by simp; omega) _ _ rfl hin
            | emit n2 =>
              have hp2 := stepFile_emit_pos hs2
              rw [runFile_emit hs2] at hin
              rcases List.mem_cons.1 hin with e | hin'
              · injection e with e1 e2
                subst e2
                have := (step_emit_iff.1 (stepFile_emit_iff.1 hs2)).2.2.1
                rw [this]; unfold Cfg.msgLen; exact Nat.le_add_right _ _
              · exact ih2 (b.drop n2).length (by simp; omega) _ _ rfl hin'
        exact hh _ _ hmem
      have hdrop : c.stepFile (buf.take m) = .drop := by
        cases hs' : c.stepFile (buf.take m) with
        | drop => rfl
        | emit k2 =>
          have := ((stepFile_emit_take' buf m k2).1 hs').1
          rw [hs] at this; cases this
        | stop =>
          exfalso
          unfold Cfg.stepFile at hs'
          have hl : ¬ (buf.take m).length < c.hdrLen := by simp; omega
          rw [if_neg hl] at hs'
          split at hs'; · cases hs'
          split at hs'; · cases hs'
          split at hs' <;> cases hs'
      rw [runFile_drop hdrop]
      have e : (buf.take m).drop 1 = (buf.drop 1).take (m - 1) := by rw [List.drop_take]
      rw [e]
      exact ih (buf.drop 1).length (by simp; omega) (buf.drop 1) (off + 1) (m - 1) (by simp; omega) hmem
        (by omega) rfl
    | emit k2 =>
      have hpos := stepFile_emit_pos hs
      rw [runFile_emit hs] at hmem ⊢
      rcases List.mem_cons.1 hmem with e | hin
      · injection e with e1 e2
        subst e1; subst e2
        have hmn : m = n := by omega
        subst hmn
        refine ⟨[], c.runFile (buf.drop m) (o + m), rfl, ?_⟩
        have : c.stepFile (buf.take m) = .emit m := (stepFile_emit_take' buf m m).2 ⟨hs, Nat.le_refl _⟩
        rw [runFile_emit this]
        have : (buf.take m).drop m = [] := by simp
        rw [this, runFile_stop]
        · rfl
        · unfold Cfg.stepFile; rw [if_pos]; exact c.hdrLen_pos
      · have hge := runFile_ge (c := c) _ _ _ hin
        simp only at hge
        have hk2m : k2 ≤ m := by omega
        have : c.stepFile (buf.take m) = .emit k2 := (stepFile_emit_take' buf m k2).2 ⟨hs, hk2m⟩
        rw [runFile_emit this]
        have e : (buf.take m).drop k2 = (buf.drop k2).take (m - k2) := by rw [List.drop_take]
        rw [e]
        obtain ⟨l1, l2, h1, h2⟩ := ih (buf.drop k2).length (by simp; omega) (buf.drop k2) (off + k2) (m - k2)
          (by simp; omega) hin (by omega) rfl
        exact ⟨(off, k2) :: l1, l2, by rw [h1]; rfl, by rw [h2]; rfl⟩

end Cfg
end FeVerif

namespace FeVerif
namespace Cfg
variable {c : Cfg}

/-- Every message the file scan lists is accepted at its offset. -/
theorem runFile_mem_valid (buf : Bytes) (off : Nat) :
    ∀ e ∈ c.runFile buf off, c.stepFile (buf.drop (e.1 - off)) = .emit e.2 := by
  induction hlen : buf.length using Nat.strongRecOn generalizing buf off with
  | ind k ih =>
    intro e he
    cases hs : c.stepFile buf with
    | stop => rw [runFile_stop hs] at he; cases he
    | drop =>
      have hpos := stepFile_drop_pos hs
      rw [runFile_drop hs] at he
      have hge := (runFile_ge (c := c) _ _ e he).1
      have := ih (buf.drop 1).length (by simp; omega) (buf.drop 1) (off + 1) rfl e he
      rw [List.drop_drop] at this
      rw [show e.1 - off = 1 + (e.1 - (off + 1)) by omega]; exact this
    | emit n =>
      have hpos := stepFile_emit_pos hs
      rw [runFile_emit hs] at he
      rcases List.mem_cons.1 he with rfl | h
      · simpa using hs
      · have hge := (runFile_ge (c := c) _ _ e h).1
        have := ih (buf.drop n).length (by simp; omega) (buf.drop n) (off + n) rfl e h
        rw [List.drop_drop] at this
        rw [show e.1 - off = n + (e.1 - (off + n)) by omega]; exact this

/-- Index form of `runFile_take`: cutting the file at the end of the `j`-th accepted message leaves
exactly the first `j + 1` accepted messages. -/
theorem runFile_take_idx (buf : Bytes) (off m j : Nat) (hm : m ≤ buf.length)
    (hj : j < (c.runFile buf off).length)
    (hend : ((c.runFile buf off)[j]'hj).1 + ((c.runFile buf off)[j]'hj).2 = off + m) :
    c.runFile (buf.take m) off = (c.runFile buf off).take (j + 1) := by
  induction hlen : buf.length using Nat.strongRecOn generalizing buf off m j with
  | ind k ih =>
    cases hs : c.stepFile buf with
    | stop => rw [runFile_stop hs] at hj; simp at hj
    | drop =>
      have hpos := stepFile_drop_pos hs
      have hmem : (c.runFile buf off)[j]'hj ∈ c.runFile (buf.drop 1) (off + 1) := by
        rw [← runFile_drop hs]; exact List.getElem_mem hj
      have hge := runFile_ge (c := c) _ _ _ hmem
      have hv := runFile_mem_valid (c := c) _ _ _ hmem
      have hn : c.hdrLen ≤ ((c.runFile buf off)[j]'hj).2 := by
        have := (step_emit_iff.1 (stepFile_emit_iff.1 hv)).2.2.1
        rw [this]; unfold Cfg.msgLen; exact Nat.le_add_right _ _
      have hdrop : c.stepFile (buf.take m) = .drop := by
        cases hs' : c.stepFile (buf.take m) with
        | drop => rfl
        | emit k2 =>
          have := ((stepFile_emit_take' buf m k2).1 hs').1
          rw [hs] at this; cases this
        | stop =>
          exfalso
          unfold Cfg.stepFile at hs'
          have hl : ¬ (buf.take m).length < c.hdrLen := by simp; omega
          rw [if_neg hl] at hs'
          split at hs'; · cases hs'
          split at hs'; · cases hs'
          split at hs' <;> cases hs'
      rw [runFile_drop hdrop]
      have e : (buf.take m).drop 1 = (buf.drop 1).take (m - 1) := by rw [List.drop_take]
      rw [e]
      have hj' : j < (c.runFile (buf.drop 1) (off + 1)).length := by rw [← runFile_drop hs]; exact hj
      have heq : (c.runFile (buf.drop 1) (off + 1))[j]'hj' = (c.runFile buf off)[j]'hj := by
        congr 1; exact (runFile_drop hs).symm
      have := ih (buf.drop 1).length (by simp; omega) (buf.drop 1) (off + 1) (m - 1) j (by simp; omega) hj'
        (by rw [heq]; omega) rfl
      rw [this, runFile_drop hs]
    | emit k2 =>
      have hpos := stepFile_emit_pos hs
      have hL := runFile_emit (off := off) hs
      cases j with
      | zero =>
        have h0 : (c.runFile buf off)[0]'hj = (off, k2) := by
          simp only [hL, List.getElem_cons_zero]
        rw [h0] at hend
        simp only at hend
        have hmn : m = k2 := by omega
        subst hmn
        have : c.stepFile (buf.take m) = .emit m := (stepFile_emit_take' buf m m).2 ⟨hs, Nat.le_refl _⟩
        rw [runFile_emit this, hL]
        have : (buf.take m).drop m = [] := by simp
        rw [this, runFile_stop]
        · simp
        · unfold Cfg.stepFile; rw [if_pos]; exact c.hdrLen_pos
      | succ j' =>
        have hj' : j' < (c.runFile (buf.drop k2) (off + k2)).length := by
          rw [hL] at hj; simpa using hj
        have heq : (c.runFile buf off)[j' + 1]'hj = (c.runFile (buf.drop k2) (off + k2))[j']'hj' := by
          simp only [hL, List.getElem_cons_succ]
        have hmem : (c.runFile (buf.drop k2) (off + k2))[j']'hj' ∈ c.runFile (buf.drop k2) (off + k2) :=
          List.getElem_mem hj'
        have hge := runFile_ge (c := c) _ _ _ hmem
        rw [heq] at hend
        have hk2m : k2 ≤ m := by omega
        have : c.stepFile (buf.take m) = .emit k2 := (stepFile_emit_take' buf m k2).2 ⟨hs, hk2m⟩
        rw [runFile_emit this]
        have e : (buf.take m).drop k2 = (buf.drop k2).take (m - k2) := by rw [List.drop_take]
        rw [e]
        have := ih (buf.drop k2).length (by simp; omega) (buf.drop k2) (off + k2) (m - k2) j' (by simp; omega) hj'
          (by omega) rfl
        rw [this, hL]; rfl

end Cfg
end FeVerif

namespace FeVerif
namespace Cfg
variable {c : Cfg}

/-- The messages of a file scan are listed in increasing offset order and do not overlap. -/
theorem runFile_pairwise (buf : Bytes) (off : Nat) :
    (c.runFile buf off).Pairwise fun a b => a.1 + a.2 ≤ b.1 := by
  induction hlen : buf.length using Nat.strongRecOn generalizing buf off with
  | ind k ih =>
    cases hs : c.stepFile buf with
    | stop => rw [runFile_stop hs]; exact List.Pairwise.nil
    | drop =>
      have hpos := stepFile_drop_pos hs
      rw [runFile_drop hs]
      exact ih (buf.drop 1).length (by simp; omega) _ _ rfl
    | emit n =>
      have hpos := stepFile_emit_pos hs
      rw [runFile_emit hs, List.pairwise_cons]
      refine ⟨?_, ih (buf.drop n).length (by simp; omega) _ _ rfl⟩
      intro e he
      exact (runFile_ge (c := c) _ _ e he).1

end Cfg
end FeVerif
