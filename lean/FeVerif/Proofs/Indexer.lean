/-
The indexer's candidate collection + sequential pass equals the sequential scan of the file.
-/
import FeVerif.Model.Indexer
import FeVerif.Proofs.Frame
import FeVerif.Proofs.PyDecoder

namespace FeVerif
namespace Indexer

open Cfg

/-- The message the sequential scan's criteria accept at file position `p`, if any. -/
def validAt (file : Bytes) (p : Nat) : Option Nat :=
  match cfgFile.stepFile (file.drop p) with
  | .emit n => some n
  | _ => none

theorem validAt_some {file : Bytes} {p n : Nat} (h : validAt file p = some n) :
    cfgFile.stepFile (file.drop p) = .emit n := by
  unfold validAt at h
  split at h
  · injection h with h; subst h; assumption
  · cases h

theorem validAt_bounds {file : Bytes} {p n : Nat} (h : validAt file p = some n) :
    HDR ≤ n ∧ p + n ≤ file.length := by
  have h1 := validAt_some h
  have h2 := stepFile_emit_pos h1
  rw [stepFile_emit_iff, step_emit_iff] at h1
  obtain ⟨_, _, hn, hle, _⟩ := h1
  simp only [List.length_drop] at hle h2
  constructor
  · rw [hn]; unfold Cfg.msgLen; exact Nat.le_add_right _ _
  · omega

/-- The scan passes over a stretch without acceptable positions. -/
theorem runFile_skip (file : Bytes) (q p : Nat) (hqp : q ≤ p) (hp : p + HDR ≤ file.length)
    (hnone : ∀ x, q ≤ x → x < p → validAt file x = none) :
    cfgFile.runFile (file.drop q) q = cfgFile.runFile (file.drop p) p := by
  induction hd : p - q generalizing q with
  | zero => have : q = p := by omega
            subst this; rfl
  | succ d ih =>
    have hq := hnone q (Nat.le_refl _) (by omega)
    have hstep : cfgFile.stepFile (file.drop q) = .drop := by
      unfold validAt at hq
      cases hs : cfgFile.stepFile (file.drop q) with
      | emit n => rw [hs] at hq; cases hq
      | drop => rfl
      | stop =>
        exfalso
        unfold Cfg.stepFile at hs
        have : ¬ (file.drop q).length < cfgFile.hdrLen := by
          simp only [List.length_drop]; show ¬ _ < HDR; omega
        rw [if_neg this] at hs
        split at hs; · cases hs
        split at hs; · cases hs
        split at hs <;> cases hs
    rw [runFile_drop hstep, List.drop_drop]
    exact ih (q + 1) (by omega) (fun x h1 h2 => hnone x (by omega) h2) (by omega)

/-- No acceptable position from `q` on: the scan finds nothing. -/
theorem runFile_nil (file : Bytes) (q : Nat) (hnone : ∀ x, q ≤ x → validAt file x = none) :
    cfgFile.runFile (file.drop q) q = [] := by
  induction hd : file.length - q using Nat.strongRecOn generalizing q with
  | ind d ih =>
    have hq := hnone q (Nat.le_refl _)
    cases hs : cfgFile.stepFile (file.drop q) with
    | emit n => unfold validAt at hq; rw [hs] at hq; cases hq
    | stop => exact runFile_stop hs
    | drop =>
      have hpos := stepFile_drop_pos hs
      simp only [List.length_drop] at hpos
      rw [runFile_drop hs, List.drop_drop]
      exact ih (file.length - (q + 1)) (by omega) (q + 1) (fun x h => hnone x (by omega)) rfl

def offs (l : List Entry) : List (Nat × Nat) := l.map fun e => (e.off, e.size)

/-- A candidate list in which every entry is acceptable. -/
def AllValid (file : Bytes) (l : List Entry) : Prop := ∀ e ∈ l, validAt file e.off = some e.size

/-- Strictly increasing offsets. -/
def Increasing : List Entry → Prop
  | [] => True
  | [_] => True
  | a :: b :: r => a.off < b.off ∧ Increasing (b :: r)

theorem Increasing.tail {a : Entry} {l : List Entry} (h : Increasing (a :: l)) : Increasing l := by
  cases l with
  | nil => trivial
  | cons b r => exact h.2

theorem Increasing.lt_of_mem {a : Entry} {l : List Entry} (h : Increasing (a :: l)) :
    ∀ e ∈ l, a.off < e.off := by
  induction l generalizing a with
  | nil => intro e he; cases he
  | cons b r ih =>
    intro e he
    rcases List.mem_cons.1 he with rfl | he'
    · exact h.1
    · exact Nat.lt_trans h.1 (ih h.2 e he')

/-- **Sequential pass = sequential scan.** If the candidate list starts with an increasing part
that contains every acceptable position at or after `prevEnd`, every candidate anywhere in the list is
acceptable, then the pass keeps exactly what the scan resumed at `prevEnd` accepts. -/
theorem sequentialPass_eq_scan (file : Bytes) (l1 l2 : List Entry) (prevEnd : Nat)
    (hinc : Increasing l1) (hv1 : AllValid file l1) (hv2 : AllValid file l2)
    (hcomplete : ∀ p n, prevEnd ≤ p → validAt file p = some n → ∃ e ∈ l1, e.off = p) :
    offs (sequentialPass prevEnd (l1 ++ l2)) = cfgFile.runFile (file.drop prevEnd) prevEnd := by
  induction l1 generalizing prevEnd with
  | nil =>
    have hnone : ∀ x, prevEnd ≤ x → validAt file x = none := by
      intro x hx
      cases hvx : validAt file x with
      | none => rfl
      | some n => obtain ⟨e, he, _⟩ := hcomplete x n hx hvx; cases he
    rw [runFile_nil file prevEnd hnone]
    simp only [List.nil_append]
    -- everything in l2 starts before prevEnd
    clear hinc hv1 hcomplete
    induction l2 with
    | nil => rfl
    | cons e r ih =>
      have he := hv2 e (by simp)
      have : ¬ e.off ≥ prevEnd := by
        intro hge
        rw [hnone e.off hge] at he; cases he
      unfold sequentialPass
      rw [if_neg this]
      exact ih (fun x hx => hv2 x (by simp [hx]))
  | cons e r ih =>
    simp only [List.cons_append]
    unfold sequentialPass
    have hve := hv1 e (by simp)
    by_cases hge : e.off ≥ prevEnd
    · rw [if_pos hge]
      -- e is the first acceptable position at or after prevEnd
      have hfirst : ∀ x, prevEnd ≤ x → x < e.off → validAt file x = none := by
        intro x h1 h2
        cases hvx : validAt file x with
        | none => rfl
        | some n =>
          obtain ⟨e', he', hoff⟩ := hcomplete x n h1 hvx
          rcases List.mem_cons.1 he' with rfl | hin
          · omega
          · have := hinc.lt_of_mem e' hin; omega
      have hb := validAt_bounds hve
      rw [runFile_skip file prevEnd e.off hge (by omega) hfirst]
      rw [runFile_emit (validAt_some hve), List.drop_drop]
      show (e.off, e.size) :: offs _ = _
      congr 1
      refine ih (e.off + e.size) hinc.tail (fun x hx => hv1 x (by simp [hx])) ?_
      intro p n hp hvp
      obtain ⟨e', he', hoff⟩ := hcomplete p n (by omega) hvp
      rcases List.mem_cons.1 he' with rfl | hin
      · have : HDR ≤ e'.size := hb.1
        unfold HDR at this; omega
      · exact ⟨e', hin, hoff⟩
    · rw [if_neg hge]
      refine ih prevEnd hinc.tail (fun x hx => hv1 x (by simp [hx])) ?_
      intro p n hp hvp
      obtain ⟨e', he', hoff⟩ := hcomplete p n hp hvp
      rcases List.mem_cons.1 he' with rfl | hin
      · omega
      · exact ⟨e', hin, hoff⟩

/-! ### One block -/

theorem byteAt_drop (bs : Bytes) (i k : Nat) : byteAt (bs.drop i) k = byteAt bs (i + k) := by
  unfold byteAt; simp [List.getD_eq_getElem?_getD]

theorem u16le_drop (bs : Bytes) (i k : Nat) : u16le (bs.drop i) k = u16le bs (i + k) := by
  unfold u16le; rw [byteAt_drop, byteAt_drop]; rfl

theorem u32le_drop (bs : Bytes) (i k : Nat) : u32le (bs.drop i) k = u32le bs (i + k) := by
  unfold u32le; rw [byteAt_drop, byteAt_drop, byteAt_drop, byteAt_drop]; rfl

/-- The indexer's per-candidate validation (sync word found by the search + `acceptAt`) is the
scan's verdict on the block's bytes from that position on. -/
theorem acceptAt_iff_step (data : Bytes) (i n : Nat) :
    (byteAt data i = SYNC0 ∧ byteAt data (i + 1) = SYNC1 ∧ acceptAt data i = some n) ↔
      cfgFile.stepFile (data.drop i) = .emit n := by
  rw [stepFile_emit_iff, step_emit_iff]
  show _ ↔ HDR ≤ (data.drop i).length ∧ fileHeaderOk ((data.drop i).take HDR) = true ∧
      n = cfgFile.msgLen (data.drop i) ∧ n ≤ (data.drop i).length ∧ pyCrcOk ((data.drop i).take n) = true
  have hml : cfgFile.msgLen (data.drop i) = HDR + u32le data (i + 16) := by
    unfold Cfg.msgLen cfgFile; simp only
    show HDR + u32le ((data.drop i).take HDR) 16 = _
    unfold HDR; rw [u32le_take (by omega), u32le_drop]
  have hhdr : fileHeaderOk ((data.drop i).take HDR) =
      (decide (byteAt data i = SYNC0) && decide (byteAt data (i + 1) = SYNC1) &&
        decide (u32le data (i + 16) ≤ MAX_EXPECTED)) := by
    unfold fileHeaderOk HDR
    rw [byteAt_take (by omega), byteAt_take (by omega), u32le_take (by omega), byteAt_drop, byteAt_drop,
      u32le_drop]
    rfl
  rw [hml, hhdr]
  unfold acceptAt
  simp only [List.length_drop]
  have hH : HDR = 24 := rfl
  constructor
  · rintro ⟨h0, h1, h⟩
    split at h; · cases h
    split at h; · cases h
    split at h; · cases h
    split at h
    · rename_i h2 h3 h4 h5
      injection h with h; subst h
      refine ⟨by omega, by simp [h0, h1]; omega, rfl, by omega, ?_⟩
      unfold pyCrcOk
      have e16 : u32le ((data.drop i).take (HDR + u32le data (i + 16))) 16 = u32le data (i + 16) := by
        unfold HDR; rw [u32le_take (by omega), u32le_drop]
      have e4 : u32le ((data.drop i).take (HDR + u32le data (i + 16))) 4 = u32le data (i + 4) := by
        unfold HDR; rw [u32le_take (by omega), u32le_drop]
      rw [e16, e4, List.take_take, Nat.min_self]
      have : ((data.drop i).take (HDR + u32le data (i + 16))).drop 8 =
          slice data (i + 8) (16 + u32le data (i + 16)) := by
        unfold slice HDR
        rw [List.drop_take, List.drop_drop]
        congr 1
        omega
      rw [this]
      simp only [Bool.and_eq_true, decide_eq_true_eq]
      exact ⟨by omega, h5⟩
    · cases h
  · rintro ⟨h1, h2, h3, h4, h5⟩
    simp only [Bool.and_eq_true, decide_eq_true_eq] at h2
    obtain ⟨⟨s0, s1⟩, hmax⟩ := h2
    refine ⟨s0, s1, ?_⟩
    subst h3
    rw [if_neg (by omega), if_neg (by omega), if_neg (by omega)]
    unfold pyCrcOk at h5
    have e16 : u32le ((data.drop i).take (HDR + u32le data (i + 16))) 16 = u32le data (i + 16) := by
      unfold HDR; rw [u32le_take (by omega), u32le_drop]
    have e4 : u32le ((data.drop i).take (HDR + u32le data (i + 16))) 4 = u32le data (i + 4) := by
      unfold HDR; rw [u32le_take (by omega), u32le_drop]
    rw [e16, e4, List.take_take, Nat.min_self] at h5
    have : ((data.drop i).take (HDR + u32le data (i + 16))).drop 8 =
        slice data (i + 8) (16 + u32le data (i + 16)) := by
      unfold slice HDR
      rw [List.drop_take, List.drop_drop]
      congr 1
      omega
    rw [this] at h5
    simp only [Bool.and_eq_true, decide_eq_true_eq] at h5
    rw [if_pos h5.2]

/-- An accepting verdict depends only on the message's own bytes. -/
theorem stepFile_emit_take (c : Cfg) (buf : Bytes) (k n : Nat) :
    c.stepFile (buf.take k) = .emit n ↔ c.stepFile buf = .emit n ∧ n ≤ k := by
  rw [stepFile_emit_iff, stepFile_emit_iff]
  constructor
  · intro h
    have hpos := step_emit_pos h
    have : c.step (buf.take k ++ buf.drop k) = c.step (buf.take k) :=
      step_append_of_ne_stop _ (by rw [h]; simp)
    rw [List.take_append_drop] at this
    refine ⟨by rw [this, h], ?_⟩
    have := hpos.2; simp at this; omega
  · rintro ⟨h, hk⟩
    rw [step_emit_iff] at h ⊢
    obtain ⟨h1, h2, h3, h4, h5⟩ := h
    have hh : c.hdrLen ≤ n := by rw [h3]; unfold Cfg.msgLen; exact Nat.le_add_right _ _
    have e1 : (buf.take k).take c.hdrLen = buf.take c.hdrLen := by
      rw [List.take_take, Nat.min_eq_left (by omega)]
    have e2 : (buf.take k).take n = buf.take n := by
      rw [List.take_take, Nat.min_eq_left hk]
    refine ⟨by simp; omega, by rw [e1]; exact h2, ?_, by simp; omega, by rw [e2]; exact h5⟩
    rw [h3]; unfold Cfg.msgLen; rw [e1]

/-- Block-local validation against the whole file: a candidate at position `i` of the bytes read at
`b` is accepted iff the file has an acceptable message at `b + i` that ends inside what was read. -/
theorem acceptAt_iff_valid (file : Bytes) (b len i n : Nat) :
    (byteAt (slice file b len) i = SYNC0 ∧ byteAt (slice file b len) (i + 1) = SYNC1 ∧
      acceptAt (slice file b len) i = some n) ↔
      (validAt file (b + i) = some n ∧ i + n ≤ len) := by
  rw [acceptAt_iff_step]
  have e : (slice file b len).drop i = (file.drop (b + i)).take (len - i) := by
    unfold slice; rw [List.drop_take, List.drop_drop]
  rw [e, stepFile_emit_take]
  constructor
  · rintro ⟨h, hk⟩
    have hpos := stepFile_emit_pos h
    refine ⟨by unfold validAt; rw [h], by omega⟩
  · rintro ⟨h, hk⟩
    have hb := validAt_bounds h
    unfold HDR at hb
    exact ⟨validAt_some h, by omega⟩

theorem scanBlock_unfold (data : Bytes) (b limit i : Nat) :
    scanBlock data b limit i =
      if i < limit then
        if byteAt data i = SYNC0 ∧ byteAt data (i + 1) = SYNC1 then
          match acceptAt data i with
          | some sz => ⟨b + i, sz, u16le data (i + 10)⟩ :: scanBlock data b limit (i + 1)
          | none => scanBlock data b limit (i + 1)
        else scanBlock data b limit (i + 1)
      else [] := by
  rw [scanBlock.eq_def]
  simp only [dite_eq_ite]
  rfl

/-- What one block contributes: exactly its sync positions that validate, in increasing order. -/
theorem scanBlock_spec (data : Bytes) (b limit i : Nat) :
    (∀ e ∈ scanBlock data b limit i, ∃ j, i ≤ j ∧ j < limit ∧ e.off = b + j ∧
        byteAt data j = SYNC0 ∧ byteAt data (j + 1) = SYNC1 ∧ acceptAt data j = some e.size ∧
        e.type = u16le data (j + 10)) ∧
    (∀ j sz, i ≤ j → j < limit → byteAt data j = SYNC0 → byteAt data (j + 1) = SYNC1 →
        acceptAt data j = some sz → ∃ e ∈ scanBlock data b limit i, e.off = b + j) ∧
    Increasing (scanBlock data b limit i) := by
  induction hd : limit - i generalizing i with
  | zero =>
    rw [scanBlock_unfold, if_neg (by omega)]
    exact ⟨by simp, by intro j sz h1 h2; omega, trivial⟩
  | succ d ih =>
    obtain ⟨ih1, ih2, ih3⟩ := ih (i + 1) (by omega)
    rw [scanBlock_unfold, if_pos (by omega)]
    have hrest1 : ∀ e ∈ scanBlock data b limit (i + 1), ∃ j, i ≤ j ∧ j < limit ∧ e.off = b + j ∧
        byteAt data j = SYNC0 ∧ byteAt data (j + 1) = SYNC1 ∧ acceptAt data j = some e.size ∧
        e.type = u16le data (j + 10) := by
      intro e he
      obtain ⟨j, h1, h2⟩ := ih1 e he
      exact ⟨j, by omega, h2⟩
    by_cases hs : byteAt data i = SYNC0 ∧ byteAt data (i + 1) = SYNC1
    · rw [if_pos hs]
      cases ha : acceptAt data i with
      | none =>
        simp only
        refine ⟨hrest1, ?_, ih3⟩
        intro j sz h1 h2 h3 h4 h5
        by_cases hj : j = i
        · subst hj; rw [ha] at h5; cases h5
        · exact ih2 j sz (by omega) h2 h3 h4 h5
      | some sz0 =>
        simp only
        refine ⟨?_, ?_, ?_⟩
        · intro e he
          rcases List.mem_cons.1 he with rfl | he'
          · exact ⟨i, Nat.le_refl _, by omega, rfl, hs.1, hs.2, ha, rfl⟩
          · exact hrest1 e he'
        · intro j sz h1 h2 h3 h4 h5
          by_cases hj : j = i
          · subst hj; exact ⟨_, List.mem_cons_self, rfl⟩
          · obtain ⟨e, he, ho⟩ := ih2 j sz (by omega) h2 h3 h4 h5
            exact ⟨e, by simp [he], ho⟩
        · cases hl : scanBlock data b limit (i + 1) with
          | nil => trivial
          | cons e2 r =>
            rw [hl] at ih3 ih1
            refine ⟨?_, ih3⟩
            obtain ⟨j, h1, _, h3, _⟩ := ih1 e2 (by simp)
            show b + i < e2.off
            omega
    · rw [if_neg hs]
      refine ⟨hrest1, ?_, ih3⟩
      intro j sz h1 h2 h3 h4 h5
      by_cases hj : j = i
      · subst hj; exact absurd ⟨h3, h4⟩ hs
      · exact ih2 j sz (by omega) h2 h3 h4 h5

end Indexer
end FeVerif
