/-
Block allocation and worker composition of the indexer.
-/
import FeVerif.Proofs.Indexer

namespace FeVerif
namespace Indexer

/-- Number of blocks handed to workers `i, i+1, …, i+fuel-1`. -/
def allocCount (per rem : Nat) : Nat → Nat → Nat
  | _, 0 => 0
  | i, fuel + 1 => (if i < rem then per + 1 else per) + allocCount per rem (i + 1) fuel

theorem allocCount_eq (per rem i fuel : Nat) :
    allocCount per rem i fuel = per * fuel + (min rem (i + fuel) - min rem i) := by
  induction fuel generalizing i with
  | zero => simp [allocCount]
  | succ f ih =>
    unfold allocCount
    rw [ih (i + 1)]
    have : per * (f + 1) = per * f + per := by rw [Nat.mul_succ]
    rw [this]
    split <;> omega

theorem range'_map_split (R c a b : Nat) :
    ((List.range a).map fun k => c * R + k * R) ++ (List.range' (c + a) b).map (· * R) =
      (List.range' c (a + b)).map (· * R) := by
  have : (List.range a).map (fun k => c * R + k * R) = (List.range' c a).map (· * R) := by
    rw [List.range_eq_range', List.map_eq_map_iff.2]
    · rw [show List.range' c a = (List.range' 0 a).map (c + ·) by
        rw [List.map_add_range']; simp]
      rw [List.map_map]
    · intro x _; simp [Nat.add_mul]
  rw [this, ← List.map_append, List.range'_append_1]

/-- The blocks handed out are consecutive multiples of `R`, each exactly once, in order. -/
theorem allocGo_flatten (R per rem i fuel c : Nat) :
    (allocGo R per rem i fuel (c * R)).flatten =
      (List.range' c (allocCount per rem i fuel)).map (· * R) := by
  induction fuel generalizing i c with
  | zero => simp [allocGo, allocCount]
  | succ f ih =>
    unfold allocGo allocCount
    rw [List.flatten_cons]
    have e : c * R + (if i < rem then per + 1 else per) * R = (c + (if i < rem then per + 1 else per)) * R := by
      rw [Nat.add_mul]
    rw [e, ih]
    exact range'_map_split R c _ _

theorem allocate_flatten (R numBlocks nt : Nat) (hnt : 0 < nt) :
    (allocate R numBlocks nt).flatten = (List.range numBlocks).map (· * R) := by
  unfold allocate
  have := allocGo_flatten R (numBlocks / nt) (numBlocks % nt) 0 nt 0
  rw [Nat.zero_mul] at this
  rw [this, allocCount_eq, List.range_eq_range']
  congr 2
  have h1 := Nat.mod_lt numBlocks hnt
  have h2 := Nat.div_add_mod numBlocks nt
  rw [Nat.zero_add, Nat.min_eq_left (Nat.le_of_lt h1)]
  simp only [Nat.zero_le, Nat.min_eq_right, Nat.sub_zero]
  rw [Nat.mul_comm]; exact h2

end Indexer
end FeVerif
