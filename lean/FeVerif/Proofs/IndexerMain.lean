/-
Workers, blocks and the final theorem: index = sequential scan.
-/
import FeVerif.Proofs.IndexerAlloc

namespace FeVerif
namespace Indexer

open Cfg

/-- What one block contributes (`[]` when the worker `break`s there). -/
def blockOut (file : Bytes) (R M b : Nat) : List Entry :=
  match candidateLimit R M b (slice file b (R + M)).length with
  | none => []
  | some limit => scanBlock (slice file b (R + M)) b limit 0

def NonBreak (file : Bytes) (R M b : Nat) : Prop :=
  (candidateLimit R M b (slice file b (R + M)).length).isSome = true

theorem worker_cons_nonbreak {file : Bytes} {R M b : Nat} (bs : List Nat) (h : NonBreak file R M b) :
    worker file R M (b :: bs) = blockOut file R M b ++ worker file R M bs := by
  unfold NonBreak at h
  cases hc : candidateLimit R M b (slice file b (R + M)).length with
  | none => rw [hc] at h; cases h
  | some l => simp only [worker, blockOut, hc]

theorem worker_append {file : Bytes} {R M : Nat} (pre rest : List Nat)
    (h : ∀ b ∈ pre, NonBreak file R M b) :
    worker file R M (pre ++ rest) = pre.flatMap (blockOut file R M) ++ worker file R M rest := by
  induction pre with
  | nil => simp
  | cons b bs ih =>
    rw [List.cons_append, worker_cons_nonbreak _ (h b (by simp)), ih (fun x hx => h x (by simp [hx]))]
    simp

theorem worker_mem {file : Bytes} {R M : Nat} (bs : List Nat) :
    ∀ e ∈ worker file R M bs, ∃ b ∈ bs, e ∈ blockOut file R M b := by
  induction bs with
  | nil => intro e he; simp [worker] at he
  | cons b r ih =>
    intro e he
    unfold worker at he
    cases hc : candidateLimit R M b (slice file b (R + M)).length with
    | none => rw [hc] at he; simp at he
    | some l =>
      rw [hc] at he
      simp only [List.mem_append] at he
      rcases he with h | h
      · exact ⟨b, by simp, by unfold blockOut; rw [hc]; exact h⟩
      · obtain ⟨b', hb', he'⟩ := ih e h
        exact ⟨b', by simp [hb'], he'⟩

/-- However the blocks are divided among workers: if the blocks of `pre` never `break`, the
concatenated worker outputs begin with the outputs of `pre`, followed only by outputs of later blocks. -/
theorem workers_prefix {file : Bytes} {R M : Nat} (alloc : List (List Nat)) (pre post : List Nat)
    (hflat : alloc.flatten = pre ++ post) (hnb : ∀ b ∈ pre, NonBreak file R M b) :
    ∃ q, (alloc.map (worker file R M)).flatten = pre.flatMap (blockOut file R M) ++ q ∧
      ∀ e ∈ q, ∃ b ∈ post, e ∈ blockOut file R M b := by
  induction alloc generalizing pre with
  | nil =>
    simp at hflat
    obtain ⟨rfl, rfl⟩ := hflat
    exact ⟨[], by simp, by simp⟩
  | cons w ws ih =>
    rw [List.flatten_cons] at hflat
    rcases List.append_eq_append_iff.1 hflat with ⟨a', h1, h2⟩ | ⟨c', h1, h2⟩
    · -- pre = w ++ a'
      subst h1
      obtain ⟨q, hq1, hq2⟩ := ih a' h2 (fun b hb => hnb b (by simp [hb]))
      refine ⟨q, ?_, hq2⟩
      rw [List.map_cons, List.flatten_cons, hq1]
      have := worker_append (file := file) (R := R) (M := M) w [] (fun b hb => hnb b (by simp [hb]))
      simp only [List.append_nil] at this
      rw [this]
      simp [worker]
    · -- w = pre ++ c'
      subst h1
      refine ⟨worker file R M c' ++ (ws.map (worker file R M)).flatten, ?_, ?_⟩
      · rw [List.map_cons, List.flatten_cons, worker_append pre c' hnb, List.append_assoc]
      · intro e he
        simp only [List.mem_append] at he
        rcases he with h | h
        · obtain ⟨b, hb, hbe⟩ := worker_mem c' e h
          exact ⟨b, by rw [h2]; simp [hb], hbe⟩
        · simp only [List.mem_flatten, List.mem_map] at h
          obtain ⟨l, ⟨w', hw', rfl⟩, hel⟩ := h
          obtain ⟨b, hb, hbe⟩ := worker_mem w' e hel
          refine ⟨b, ?_, hbe⟩
          rw [h2]
          simp only [List.mem_append, List.mem_flatten]
          exact Or.inr ⟨w', hw', hb⟩

/-- Every candidate any block reports is an acceptable message of the file. -/
theorem blockOut_valid (file : Bytes) (R M b : Nat) :
    ∀ e ∈ blockOut file R M b, validAt file e.off = some e.size ∧ b ≤ e.off ∧
      e.type = u16le file (e.off + 10) := by
  intro e he
  unfold blockOut at he
  cases hc : candidateLimit R M b (slice file b (R + M)).length with
  | none => rw [hc] at he; cases he
  | some l =>
    rw [hc] at he
    obtain ⟨j, _, _, hoff, hs0, hs1, hacc, hty⟩ := (scanBlock_spec _ b l 0).1 e he
    have hv := (acceptAt_iff_valid file b (R + M) j e.size).1 ⟨hs0, hs1, hacc⟩
    refine ⟨by rw [hoff]; exact hv.1, by omega, ?_⟩
    rw [hty, hoff]
    have hb := validAt_bounds hv.1
    unfold slice
    have hH : HDR = 24 := rfl
    unfold u16le
    rw [byteAt_take (by omega), byteAt_take (by omega), byteAt_drop, byteAt_drop]
    congr 2 <;> omega

theorem Increasing_append {l1 l2 : List Entry} (h1 : Increasing l1) (h2 : Increasing l2)
    (h : ∀ a ∈ l1, ∀ b ∈ l2, a.off < b.off) : Increasing (l1 ++ l2) := by
  induction l1 with
  | nil => simpa using h2
  | cons a r ih =>
    cases r with
    | nil =>
      cases l2 with
      | nil => trivial
      | cons b r2 => exact ⟨h a (by simp) b (by simp), h2⟩
    | cons a2 r2 =>
      exact ⟨h1.1, ih h1.2 (fun x hx y hy => h x (by simp [hx]) y hy)⟩

end Indexer
end FeVerif

namespace FeVerif
namespace Indexer
open Cfg

theorem slice_length (file : Bytes) (b len : Nat) : (slice file b len).length = min len (file.length - b) := by
  unfold slice; simp

section Main
variable (file : Bytes) (R M : Nat) (hR : 0 < R) (hRe : R % 2 = 0) (hM : HDR ≤ M)
  (hsz : ∀ p n, validAt file p = some n → n ≤ M)

include hRe in
theorem blockOut_full (k : Nat) (hfull : k * R + R + M ≤ file.length) :
    blockOut file R M (k * R) = scanBlock (slice file (k * R) (R + M)) (k * R) R 0 := by
  unfold blockOut candidateLimit
  rw [slice_length, Nat.min_eq_left (by omega), if_pos rfl]
  simp only
  congr 1
  omega

include hR in
theorem blockOut_last (j : Nat) (hnf : ¬ j * R + R + M ≤ file.length) (hj : j = 0 ∨ file.length - j * R ≥ M) :
    blockOut file R M (j * R) =
      scanBlock (slice file (j * R) (R + M)) (j * R) (2 * ((file.length - j * R) / 2 - 1)) 0 := by
  unfold blockOut candidateLimit
  rw [slice_length, Nat.min_eq_right (by omega), if_neg (by omega)]
  have : j * R = 0 ∨ file.length - j * R ≥ M := by
    rcases hj with h | h
    · left; rw [h]; simp
    · right; exact h
  rw [if_pos this]

include hR hRe hsz in
/-- The outputs of the first `c` blocks, all of them full reads: increasing, below `c * R`, and
containing every acceptable position below `c * R`. -/
theorem full_prefix (c : Nat) (hfull : ∀ k, k < c → k * R + R + M ≤ file.length) :
    Increasing (((List.range c).map (· * R)).flatMap (blockOut file R M)) ∧
    (∀ e ∈ ((List.range c).map (· * R)).flatMap (blockOut file R M), e.off < c * R) ∧
    (∀ p n, p < c * R → validAt file p = some n →
      ∃ e ∈ ((List.range c).map (· * R)).flatMap (blockOut file R M), e.off = p) := by
  induction c with
  | zero => exact ⟨trivial, by simp, by intro p n h; simp at h⟩
  | succ c ih =>
    obtain ⟨ih1, ih2, ih3⟩ := ih (fun k hk => hfull k (by omega))
    have hf := hfull c (by omega)
    rw [List.range_succ, List.map_append, List.flatMap_append]
    simp only [List.map_cons, List.map_nil, List.flatMap_cons, List.flatMap_nil, List.append_nil]
    rw [blockOut_full file R M hRe c hf]
    obtain ⟨s1, s2, s3⟩ := scanBlock_spec (slice file (c * R) (R + M)) (c * R) R 0
    have hlow : ∀ e ∈ scanBlock (slice file (c * R) (R + M)) (c * R) R 0, c * R ≤ e.off ∧ e.off < (c + 1) * R := by
      intro e he
      obtain ⟨j, _, hj, hoff, _⟩ := s1 e he
      rw [hoff, Nat.add_mul]; omega
    refine ⟨Increasing_append ih1 s3 (fun a ha b hb => ?_), ?_, ?_⟩
    · have := ih2 a ha; have := (hlow b hb).1; omega
    · intro e he
      rcases List.mem_append.1 he with h | h
      · have := ih2 e h; rw [Nat.add_mul]; omega
      · exact (hlow e h).2
    · intro p n hp hv
      by_cases hlt : p < c * R
      · obtain ⟨e, he, ho⟩ := ih3 p n hlt hv
        exact ⟨e, List.mem_append_left _ he, ho⟩
      · have hn := hsz p n hv
        rw [Nat.add_mul] at hp
        have hacc := (acceptAt_iff_valid file (c * R) (R + M) (p - c * R) n).2
          ⟨by rw [show c * R + (p - c * R) = p by omega]; exact hv, by omega⟩
        obtain ⟨e, he, ho⟩ := s2 (p - c * R) n (Nat.zero_le _) (by omega) hacc.1 hacc.2.1 hacc.2.2
        exact ⟨e, List.mem_append_right _ he, by rw [ho]; omega⟩

include hR hRe hM hsz in
/-- **The index is the sequential scan**, for every number of workers. -/
theorem index_eq_scan (nt : Nat) (hnt : 0 < nt) :
    offs (index file R M nt) = cfgFile.runFile file 0 := by
  have hH : HDR = 24 := rfl
  unfold index candidates
  by_cases hS : file.length = 0
  · -- empty file: no blocks
    have hK : (file.length + R - 1) / R = 0 := by
      rw [hS]; exact Nat.div_eq_of_lt (by omega)
    obtain ⟨q, hq1, hq2⟩ := workers_prefix (file := file) (R := R) (M := M)
      (allocate R ((file.length + R - 1) / R) nt) [] []
      (by rw [allocate_flatten _ _ _ hnt, hK]; rfl) (by simp)
    have : q = [] := by
      cases q with
      | nil => rfl
      | cons e r => obtain ⟨b, hb, _⟩ := hq2 e (by simp); cases hb
    rw [hq1, this]
    have hf : file = [] := List.eq_nil_of_length_eq_zero hS
    subst hf
    simp [sequentialPass, offs]
    rw [runFile_stop]
    unfold Cfg.stepFile
    rw [if_pos]; exact cfgFile.hdrLen_pos
  · -- j = number of full-read blocks; block j reads to the end of the file
    obtain ⟨j, hjdef⟩ : ∃ j, j = (file.length - M) / R := ⟨_, rfl⟩
    obtain ⟨K, hKdef⟩ : ∃ K, K = (file.length + R - 1) / R := ⟨_, rfl⟩
    rw [← hKdef]
    have hjle : j * R ≤ file.length - M := by rw [hjdef]; exact Nat.div_mul_le_self _ _
    have hjK : j + 1 ≤ K := by
      rw [hKdef]
      apply (Nat.le_div_iff_mul_le hR).2
      rw [Nat.add_mul]; omega
    have hfull : ∀ k, k < j → k * R + R + M ≤ file.length := by
      intro k hk
      have h1 : (k + 1) * R ≤ j * R := Nat.mul_le_mul_right _ hk
      rw [Nat.add_mul] at h1
      have : 0 < j := Nat.lt_of_le_of_lt (Nat.zero_le k) hk
      have : R ≤ j * R := Nat.le_mul_of_pos_left _ this
      omega
    have hnf : ¬ j * R + R + M ≤ file.length := by
      intro h
      have : (j + 1) * R ≤ file.length - M := by rw [Nat.add_mul]; omega
      have := (Nat.le_div_iff_mul_le hR).2 this
      rw [← hjdef] at this
      omega
    have hjcase : j = 0 ∨ file.length - j * R ≥ M := by
      by_cases h0 : j = 0
      · exact Or.inl h0
      · right
        have : 0 < j := Nat.pos_of_ne_zero h0
        have : R ≤ j * R := Nat.le_mul_of_pos_left _ this
        omega
    -- split the flat block list
    have hblocks : (List.range K).map (· * R) =
        ((List.range j).map (· * R) ++ [j * R]) ++ (List.range' (j + 1) (K - (j + 1))).map (· * R) := by
      have : List.range K = List.range j ++ [j] ++ List.range' (j + 1) (K - (j + 1)) := by
        rw [← List.range_succ, List.range_eq_range', List.range_eq_range']
        have := List.range'_append_1 (s := 0) (m := j + 1) (n := K - (j + 1))
        rw [Nat.zero_add] at this
        rw [this]; congr 1; omega
      rw [this]; simp
    have hnb : ∀ b ∈ (List.range j).map (· * R) ++ [j * R], NonBreak file R M b := by
      intro b hb
      unfold NonBreak candidateLimit
      rcases List.mem_append.1 hb with h | h
      · obtain ⟨k, hk, rfl⟩ := List.mem_map.1 h
        have := hfull k (List.mem_range.1 hk)
        rw [slice_length, Nat.min_eq_left (by omega), if_pos rfl]; rfl
      · have : b = j * R := by simpa using h
        subst this
        rw [slice_length, Nat.min_eq_right (by omega), if_neg (by omega)]
        have : j * R = 0 ∨ file.length - j * R ≥ M := by
          rcases hjcase with h | h
          · left; rw [h]; simp
          · right; exact h
        rw [if_pos this]; rfl
    obtain ⟨q, hq1, hq2⟩ := workers_prefix (file := file) (R := R) (M := M)
      (allocate R K nt) _ _ (by rw [allocate_flatten _ _ _ hnt]; exact hblocks) hnb
    show offs (sequentialPass 0 ((allocate R K nt).map (worker file R M)).flatten) = _
    rw [hq1]
    have hv2 : AllValid file q := by
      intro e he
      obtain ⟨b, _, hbe⟩ := hq2 e he
      exact (blockOut_valid file R M b e hbe).1
    obtain ⟨f1, f2, f3⟩ := full_prefix file R M hR hRe hsz j hfull
    rw [List.flatMap_append]
    simp only [List.flatMap_cons, List.flatMap_nil, List.append_nil]
    have hlast := blockOut_last file R M hR j hnf hjcase
    obtain ⟨s1, s2, s3⟩ := scanBlock_spec (slice file (j * R) (R + M)) (j * R)
      (2 * ((file.length - j * R) / 2 - 1)) 0
    have hge : ∀ e ∈ blockOut file R M (j * R), j * R ≤ e.off := fun e he =>
      (blockOut_valid file R M (j * R) e he).2.1
    have := sequentialPass_eq_scan file
      (((List.range j).map (· * R)).flatMap (blockOut file R M) ++ blockOut file R M (j * R)) q 0
      (Increasing_append f1 (by rw [hlast]; exact s3) (fun a ha b hb => by
        have := f2 a ha; have := hge b hb; omega))
      (by
        intro e he
        rcases List.mem_append.1 he with h | h
        · obtain ⟨b, _, hbe⟩ := List.mem_flatMap.1 h
          exact (blockOut_valid file R M b e hbe).1
        · exact (blockOut_valid file R M _ e h).1)
      hv2
      (by
        intro p n _ hv
        by_cases hlt : p < j * R
        · obtain ⟨e, he, ho⟩ := f3 p n hlt hv
          exact ⟨e, List.mem_append_left _ he, ho⟩
        · have hb := validAt_bounds hv
          have hacc := (acceptAt_iff_valid file (j * R) (R + M) (p - j * R) n).2
            ⟨by rw [show j * R + (p - j * R) = p by omega]; exact hv, by omega⟩
          obtain ⟨e, he, ho⟩ := s2 (p - j * R) n (Nat.zero_le _) (by omega) hacc.1 hacc.2.1 hacc.2.2
          refine ⟨e, List.mem_append_right _ (by rw [hlast]; exact he), by rw [ho]; omega⟩)
    rw [List.drop_zero] at this
    exact this

end Main
end Indexer
end FeVerif
