/-
Lemmas tying the validators (Python `validate_crc`, C++ `IsValid` / framer comparison) to the CRC
comparison `CrcMatches`, and showing that altered messages fail it.
-/
import FeVerif.Spec.Integrity
import FeVerif.Proofs.Encoder

namespace FeVerif

theorem protected_exact {msg : Bytes} (h : ExactMsg msg) :
    (msg.take (HDR + u32le msg 16)).drop 8 = msg.drop 8 := by
  rw [List.take_of_length_le (by rw [h]; exact Nat.le_refl _)]

theorem pyCrcOk_exact {msg : Bytes} (h : ExactMsg msg) :
    pyCrcOk msg = (decide (u32le msg 16 ≤ MAX_EXPECTED) && decide (CrcMatches msg)) := by
  unfold pyCrcOk CrcMatches; rw [protected_exact h]

theorem pyUnpackValidate_exact {msg : Bytes} (h : ExactMsg msg) :
    pyUnpackValidate msg = some (decide (u32le msg 16 ≤ MAX_EXPECTED) && decide (CrcMatches msg)) := by
  unfold pyUnpackValidate CrcMatches
  rw [protected_exact h]
  have h' := h; unfold ExactMsg HDR at h'
  rw [if_neg (by unfold HDR; omega)]
  by_cases hm : u32le msg 16 > MAX_EXPECTED
  · rw [if_pos hm]; simp; omega
  · rw [if_neg hm, if_neg (by unfold HDR; omega)]; simp; omega

theorem cxxCalculateCRC_exact {msg : Bytes} (h : ExactMsg msg) :
    cxxCalculateCRC msg = some (crc32 0#32 (msg.drop 8)) := by
  unfold cxxCalculateCRC
  unfold ExactMsg HDR at h
  rw [if_neg (by unfold HDR; omega), if_neg (by unfold HDR; omega),
    List.take_of_length_le (by simp; omega)]

theorem cxxIsValid_exact {msg : Bytes} (h : ExactMsg msg) :
    cxxIsValid msg = some (decide (HDR + u32le msg 16 ≤ MAX_EXPECTED) && decide (CrcMatches msg)) := by
  unfold cxxIsValid CrcMatches
  rw [cxxCalculateCRC_exact h]
  have h' := h; unfold ExactMsg HDR at h'
  rw [if_neg (by unfold HDR; omega)]
  by_cases hm : HDR + u32le msg 16 > MAX_EXPECTED
  · rw [if_pos hm]; simp; omega
  · rw [if_neg hm]; simp; omega

theorem cxxFramerCrcOk_exact {msg : Bytes} (h : ExactMsg msg) :
    cxxFramerCrcOk msg = decide (CrcMatches msg) := by
  unfold cxxFramerCrcOk CrcMatches
  rw [cxxCalculateCRC_exact h]

theorem xorBytes_length {a e : Bytes} (h : a.length = e.length) : (xorBytes a e).length = a.length := by
  simp [xorBytes, h]

section corrupt
variable {msg e : Bytes}

theorem corruptProtected_length (h8 : 8 ≤ msg.length) (he : e.length = msg.length - 8) :
    (corruptProtected msg e).length = msg.length := by
  unfold corruptProtected
  rw [List.length_append, xorBytes_length (by simp; omega)]; simp; omega

theorem corruptProtected_drop8 (h8 : 8 ≤ msg.length) :
    (corruptProtected msg e).drop 8 = xorBytes (msg.drop 8) e := by
  unfold corruptProtected
  rw [List.drop_append_of_le_length (by simp; omega), List.drop_of_length_le (by simp; omega), List.nil_append]

theorem corruptProtected_crcField (h8 : 8 ≤ msg.length) :
    u32le (corruptProtected msg e) 4 = u32le msg 4 := by
  unfold corruptProtected
  rw [u32le_append (by simp; omega), u32le_take (by omega)]

/-- An error pattern on the protected region whose linear remainder is non-zero breaks the CRC. -/
theorem corruptProtected_not_matches (h8 : 8 ≤ msg.length) (he : e.length = msg.length - 8)
    (hm : CrcMatches msg) (hl : crcLin e ≠ 0#32) : ¬ CrcMatches (corruptProtected msg e) := by
  unfold CrcMatches at hm ⊢
  rw [corruptProtected_drop8 h8, corruptProtected_crcField h8, ← hm, crc32_xor _ _ _ (by simp; omega)]
  intro h
  have h2 := BitVec.eq_of_toNat_eq h
  apply hl
  have : crc32 0#32 (msg.drop 8) ^^^ (crc32 0#32 (msg.drop 8) ^^^ crcLin e) = crc32 0#32 (msg.drop 8) ^^^ crc32 0#32 (msg.drop 8) := by
    rw [h2]
  rwa [← BitVec.xor_assoc, BitVec.xor_self, BitVec.zero_xor] at this

end corrupt

/-! ### The CRC field -/

theorem u32le_four_inj {f g : Bytes} (hf : f.length = 4) (hg : g.length = 4) (h : u32le f 0 = u32le g 0) : f = g := by
  match f, hf with
  | [a, b, c, d], _ =>
    match g, hg with
    | [a', b', c', d'], _ =>
      simp only [u32le, byteAt, List.getD_cons_zero, List.getD_cons_succ] at h
      have ha := a.toNat_lt; have hb := b.toNat_lt; have hc := c.toNat_lt; have hd := d.toNat_lt
      have ha' := a'.toNat_lt; have hb' := b'.toNat_lt; have hc' := c'.toNat_lt; have hd' := d'.toNat_lt
      have e1 : a.toNat = a'.toNat := by omega
      have e2 : b.toNat = b'.toNat := by omega
      have e3 : c.toNat = c'.toNat := by omega
      have e4 : d.toNat = d'.toNat := by omega
      rw [UInt8.toNat_inj.1 e1, UInt8.toNat_inj.1 e2, UInt8.toNat_inj.1 e3, UInt8.toNat_inj.1 e4]

theorem u32le_shift (a b : Bytes) (i : Nat) : u32le (a ++ b) (a.length + i) = u32le b i := by
  have hb : ∀ j, byteAt (a ++ b) (a.length + j) = byteAt b j := by
    intro j; unfold byteAt
    simp [List.getD_eq_getElem?_getD, List.getElem?_append_right]
  unfold u32le
  rw [hb, show a.length + i + 1 = a.length + (i + 1) by omega, hb,
    show a.length + i + 2 = a.length + (i + 2) by omega, hb,
    show a.length + i + 3 = a.length + (i + 3) by omega, hb]

theorem replaceCrcField_not_matches {msg f : Bytes} (h8 : 8 ≤ msg.length) (hf : f.length = 4)
    (hne : f ≠ (msg.drop 4).take 4) (hm : CrcMatches msg) : ¬ CrcMatches (replaceCrcField msg f) := by
  unfold CrcMatches at hm ⊢
  unfold replaceCrcField
  have hd : (msg.take 4 ++ f ++ msg.drop 8).drop 8 = msg.drop 8 := by
    rw [List.drop_append_of_le_length (by simp; omega), List.drop_of_length_le (by simp; omega), List.nil_append]
  have hlen4 : (msg.take 4).length = 4 := by simp; omega
  have hs : u32le (msg.take 4 ++ f ++ msg.drop 8) 4 = u32le f 0 := by
    rw [List.append_assoc]
    have := u32le_shift (msg.take 4) (f ++ msg.drop 8) 0
    rw [hlen4] at this; rw [this, u32le_append (by omega)]
  have ho : u32le msg 4 = u32le ((msg.drop 4).take 4) 0 := by
    have := u32le_shift (msg.take 4) (msg.drop 4) 0
    rw [hlen4, List.take_append_drop] at this
    rw [this, u32le_take (by omega)]
  rw [hd, hs, hm, ho]
  intro h
  exact hne (u32le_four_inj hf (by simp; omega) h.symm)

section replace
variable {x f : Bytes}

theorem replaceCrcField_length (h8 : 8 ≤ x.length) (hf : f.length = 4) :
    (replaceCrcField x f).length = x.length := by
  simp [replaceCrcField, hf]; omega

theorem replaceCrcField_drop8 (h8 : 8 ≤ x.length) (hf : f.length = 4) :
    (replaceCrcField x f).drop 8 = x.drop 8 := by
  unfold replaceCrcField
  rw [List.drop_append_of_le_length (by simp; omega), List.drop_of_length_le (by simp; omega), List.nil_append]

theorem replaceCrcField_crcField (h8 : 8 ≤ x.length) (hf : f.length = 4) :
    u32le (replaceCrcField x f) 4 = u32le f 0 := by
  unfold replaceCrcField
  have hlen4 : (x.take 4).length = 4 := by simp; omega
  rw [List.append_assoc]
  have := u32le_shift (x.take 4) (f ++ x.drop 8) 0
  rw [hlen4] at this; rw [this, u32le_append (by omega)]

theorem replaceCrcField_size (h24 : 24 ≤ x.length) (hf : f.length = 4) :
    u32le (replaceCrcField x f) 16 = u32le x 16 := by
  unfold replaceCrcField
  have h4 : (x.take 4 ++ f).length = 8 := by simp [hf]; omega
  have := u32le_shift (x.take 4 ++ f) (x.drop 8) 8
  rw [h4] at this; rw [this]
  have h2 := u32le_shift (x.take 8) (x.drop 8) 8
  rw [List.take_append_drop, show (x.take 8).length = 8 by simp; omega] at h2
  exact h2.symm

end replace

end FeVerif
