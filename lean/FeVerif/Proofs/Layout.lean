/-
Helper lemmas for C01 (layout language round trip).
-/
import FeVerif.Model.Layout

namespace FeVerif
namespace Lay

/-! ### little-endian numbers -/

theorem leNat_lt : ∀ (b : Bytes), leNat b < 256 ^ b.length
  | [] => by simp [leNat]
  | x :: r => by
    have ih := leNat_lt r
    have hx : x.toNat < 256 := x.toNat_lt
    simp only [leNat, List.length_cons, Nat.pow_succ]
    omega

theorem leNat_leBytes : ∀ (w n : Nat), n < 256 ^ w → leNat (leBytes w n) = n
  | 0, n, h => by simp at h; simp [leBytes, leNat, h]
  | w + 1, n, h => by
    have hd : n / 256 < 256 ^ w := by
      rw [Nat.pow_succ] at h
      exact Nat.div_lt_of_lt_mul (by rw [Nat.mul_comm]; exact h)
    have ih := leNat_leBytes w (n / 256) hd
    simp only [leBytes, leNat, ih]
    have : (UInt8.ofNat (n % 256)).toNat = n % 256 := by
      simp [UInt8.toNat_ofNat']
    rw [this]; omega

theorem leBytes_leNat : ∀ (b : Bytes), leBytes b.length (leNat b) = b
  | [] => rfl
  | x :: r => by
    have hx : x.toNat < 256 := x.toNat_lt
    simp only [List.length_cons, leBytes, leNat]
    have h1 : (x.toNat + 256 * leNat r) % 256 = x.toNat := by omega
    have h2 : (x.toNat + 256 * leNat r) / 256 = leNat r := by omega
    rw [h1, h2, leBytes_leNat r]
    simp

@[simp] theorem zeros_length (n : Nat) : (zeros n).length = n := by simp [zeros]

/-! ### NUL stripping -/

theorem dropWhile_zeros (k : Nat) (l : Bytes) :
    (zeros k ++ l).dropWhile (fun x => x == 0) = l.dropWhile (fun x => x == 0) := by
  induction k with
  | zero => simp [zeros]
  | succ k ih =>
    simp only [zeros, List.replicate_succ, List.cons_append] at ih ⊢
    simp [ih]

theorem stripZ_append_zeros (b : Bytes) (k : Nat) : stripZ (b ++ zeros k) = stripZ b := by
  unfold stripZ
  have : (b ++ zeros k).reverse = zeros k ++ b.reverse := by
    simp [zeros, List.reverse_append]
  rw [this, dropWhile_zeros]

theorem stripZ_idem (b : Bytes) : stripZ (stripZ b) = stripZ b := by
  unfold stripZ
  simp only [List.reverse_reverse]
  congr 1
  generalize b.reverse = l
  induction l with
  | nil => simp
  | cons x r ih =>
    by_cases hx : (x == 0) = true
    · simp [hx, ih]
    · simp [hx]

theorem isAscii_append (a b : Bytes) : isAscii (a ++ b) = (isAscii a && isAscii b) := by
  simp [isAscii, List.all_append]

theorem isAscii_zeros (k : Nat) : isAscii (zeros k) = true := by
  simp [isAscii, zeros]

theorem isAscii_stripZ (b : Bytes) (h : isAscii b = true) : isAscii (stripZ b) = true := by
  unfold isAscii stripZ at *
  simp only [List.all_eq_true] at *
  intro x hx
  apply h
  have : x ∈ (List.dropWhile (fun x => x == 0) b.reverse) := by simpa using hx
  have := (List.dropWhile_sublist _).subset this
  simpa using this

/-! ### value codecs -/

/-- The law a value codec must satisfy for the round trip: what decodes can be encoded again (within the
field width) and decodes to the identical value. -/
def Stable (c : Codec) (w : Nat) : Prop :=
  ∀ r, r < 256 ^ w → ∀ v, c.dec w r = some v →
    ∃ r', r' < 256 ^ w ∧ c.enc w v = some r' ∧ c.dec w r' = some v

theorem uint_stable (w : Nat) : Stable uintCodec w := by
  intro r hr v hd
  simp only [uintCodec, Option.some.injEq] at hd
  subst hd
  refine ⟨r, hr, ?_, rfl⟩
  simp only [uintCodec]
  have e : (r : Int).toNat = r := by omega
  have : (0 : Int) ≤ (r : Int) ∧ (r : Int).toNat < 256 ^ w := ⟨by omega, by rw [e]; exact hr⟩
  show (if _ then _ else _) = _
  rw [if_pos this, e]

theorem pow256_even (w : Nat) (h : 1 ≤ w) : 2 * (256 ^ w / 2) = 256 ^ w := by
  obtain ⟨k, rfl⟩ : ∃ k, w = k + 1 := ⟨w - 1, by omega⟩
  rw [Nat.pow_succ]; omega

theorem sint_stable (w : Nat) (h : 1 ≤ w) : Stable sintCodec w := by
  intro r hr v hd
  have he := pow256_even w h
  simp only [sintCodec] at hd ⊢
  generalize 256 ^ w = M at *
  by_cases hlt : r < M / 2
  · rw [if_pos hlt] at hd
    simp only [Option.some.injEq] at hd; subst hd
    refine ⟨r, hr, ?_, by rw [if_pos hlt]⟩
    have h0 : (0 : Int) ≤ (r : Int) := by omega
    have h1 : (r : Int).toNat < M / 2 := by omega
    have e : (r : Int).toNat = r := by omega
    show (if (0 : Int) ≤ (r : Int) then _ else _) = _
    rw [if_pos h0, if_pos h1, e]
  · rw [if_neg hlt] at hd
    simp only [Option.some.injEq] at hd; subst hd
    refine ⟨r, hr, ?_, by rw [if_neg hlt]⟩
    have h0 : ¬ (0 : Int) ≤ (r : Int) - (M : Int) := by omega
    have h1 : (-((r : Int) - (M : Int))).toNat ≤ M / 2 := by omega
    have h2 : M - (-((r : Int) - (M : Int))).toNat = r := by omega
    show (if (0 : Int) ≤ (r : Int) - (M : Int) then _ else _) = _
    rw [if_neg h0, if_pos h1, h2]

theorem one_lt_pow256 (w : Nat) (h : 1 ≤ w) : 1 < 256 ^ w := by
  obtain ⟨k, rfl⟩ : ∃ k, w = k + 1 := ⟨w - 1, by omega⟩
  have : 0 < 256 ^ k := Nat.pow_pos (by omega)
  rw [Nat.pow_succ]; omega

theorem bool_stable (w : Nat) (h : 1 ≤ w) : Stable boolCodec w := by
  intro r _ v hd
  have h1 := one_lt_pow256 w h
  simp only [boolCodec, Option.some.injEq] at hd
  subst hd
  by_cases hz : r = 0
  · exact ⟨0, by omega, by simp [boolCodec, hz], by simp [boolCodec, hz]⟩
  · exact ⟨1, h1, by simp [boolCodec, hz], by simp [boolCodec, hz]⟩

theorem f32_stable : Stable f32Codec 4 := by
  intro r hr v hd
  simp only [f32Codec] at hd ⊢
  by_cases hn : isNaN32 r = true
  · rw [if_pos hn] at hd
    simp only [Option.some.injEq] at hd; subst hd
    exact ⟨qNaN32, by decide, rfl, by rw [if_pos (by decide)]⟩
  · rw [if_neg hn] at hd
    simp only [Option.some.injEq] at hd; subst hd
    refine ⟨r, hr, ?_, by rw [if_neg hn]⟩
    have h0 : (0 : Int) ≤ (r : Int) := by omega
    have h1 : (r : Int).toNat < 2 ^ 32 := by
      have : (256 : Nat) ^ 4 = 2 ^ 32 := by decide
      simpa [this] using hr
    have e : (r : Int).toNat = r := by omega
    have h2 : isNaN32 (r : Int).toNat = false := by rw [e]; simpa using hn
    show (if _ then _ else _) = _
    rw [if_pos ⟨h0, h1, h2⟩, e]

theorem f64_stable : Stable f64Codec 8 := by
  intro r hr v hd
  simp only [f64Codec] at hd ⊢
  by_cases hn : isNaN64 r = true
  · rw [if_pos hn] at hd
    simp only [Option.some.injEq] at hd; subst hd
    exact ⟨qNaN64, by decide, rfl, by rw [if_pos (by decide)]⟩
  · rw [if_neg hn] at hd
    simp only [Option.some.injEq] at hd; subst hd
    refine ⟨r, hr, ?_, by rw [if_neg hn]⟩
    have h0 : (0 : Int) ≤ (r : Int) := by omega
    have h1 : (r : Int).toNat < 2 ^ 64 := by
      have : (256 : Nat) ^ 8 = 2 ^ 64 := by decide
      simpa [this] using hr
    have e : (r : Int).toNat = r := by omega
    have h2 : isNaN64 (r : Int).toNat = false := by rw [e]; simpa using hn
    show (if _ then _ else _) = _
    rw [if_pos ⟨h0, h1, h2⟩, e]

theorem raw_stable (w : Nat) : Stable rawCodec w := by
  intro r hr v hd
  simp only [rawCodec, Option.some.injEq] at hd
  subst hd
  refine ⟨r, hr, ?_, rfl⟩
  simp [rawCodec, leNat_leBytes w r hr]

theorem enumStrict_stable (ms : List Nat) (w : Nat) : Stable (enumStrictCodec ms) w := by
  intro r hr v hd
  simp only [enumStrictCodec] at hd ⊢
  by_cases hm : ms.contains r = true
  · rw [if_pos hm] at hd
    simp only [Option.some.injEq] at hd; subst hd
    refine ⟨r, hr, ?_, by rw [if_pos hm]⟩
    have h0 : (0 : Int) ≤ (r : Int) := by omega
    have e : (r : Int).toNat = r := by omega
    have h1 : (r : Int).toNat < 256 ^ w := by rw [e]; exact hr
    have h2 : ms.contains (r : Int).toNat = true := by rw [e]; exact hm
    show (if _ then _ else _) = _
    rw [if_pos ⟨h0, h1, h2⟩, e]
  · rw [if_neg hm] at hd; cases hd

theorem discard_stable (fill w : Nat) (h : fill < 256 ^ w) : Stable (discardCodec fill) w := by
  intro r _ v hd
  simp only [discardCodec, Option.some.injEq] at hd
  subst hd
  exact ⟨fill, h, rfl, rfl⟩

/-- Every built-in codec is stable at the widths well-formedness allows; `ext` codecs are stable by
hypothesis. -/
theorem codec_stable (E : Env) (c : CodecId) (w : Nat) (hw : c.widthOk w = true)
    (hext : ∀ id, c = .ext id → Stable (E id) w) : Stable (codecOf E c) w := by
  cases c with
  | uint => exact uint_stable w
  | sint => exact sint_stable w (by simpa [CodecId.widthOk] using hw)
  | bool => exact bool_stable w (by simpa [CodecId.widthOk] using hw)
  | f32 =>
    have : w = 4 := by simpa [CodecId.widthOk] using hw
    subst this; exact f32_stable
  | f64 =>
    have : w = 8 := by simpa [CodecId.widthOk] using hw
    subst this; exact f64_stable
  | raw => exact raw_stable w
  | enumStrict ms => exact enumStrict_stable ms w
  | enumLenient ms => exact uint_stable w
  | discard fill => exact discard_stable fill w (by simpa [CodecId.widthOk] using hw)
  | ext id => exact hext id rfl

/-! ### derived count fields -/


theorem findCount_none_of_not_refs (nm : Nat) :
    ∀ (l : Layout) (vals : List Value), refs nm l = false → findCount nm l vals = none
  | .nil, vals, _ => by cases vals <;> simp [findCount]
  | .field _ _ _ rest, vals, h => by
    cases vals with
    | nil => simp [findCount]
    | cons v vs => simp only [findCount]; exact findCount_none_of_not_refs nm rest vs (by simpa [refs] using h)
  | .pad _ rest, vals, h => by
    simp only [findCount]; exact findCount_none_of_not_refs nm rest vals (by simpa [refs] using h)
  | .count nm' _ rest, vals, h => by
    simp only [findCount]
    by_cases e : nm' = nm
    · simp [e]
    · simp only [e, if_false]; exact findCount_none_of_not_refs nm rest vals (by simpa [refs, e] using h)
  | .struct _ _ rest, vals, h => by
    cases vals with
    | nil => simp [findCount]
    | cons v vs => simp only [findCount]; exact findCount_none_of_not_refs nm rest vs (by simpa [refs] using h)
  | .array _ c _ rest, vals, h => by
    cases vals with
    | nil => simp [findCount]
    | cons v vs =>
      simp only [refs, Bool.or_eq_false_iff] at h
      have ih := findCount_none_of_not_refs nm rest vs h.2
      cases c with
      | fixed n => simp only [findCount]; exact ih
      | ref k =>
        have hk : ¬ k = nm := by simpa using h.1
        cases v <;> simp only [findCount, hk, if_false] <;> exact ih
  | .bytes _ c _ rest, vals, h => by
    cases vals with
    | nil => simp [findCount]
    | cons v vs =>
      simp only [refs, Bool.or_eq_false_iff] at h
      have ih := findCount_none_of_not_refs nm rest vs h.2
      cases c with
      | fixed n => simp only [findCount]; exact ih
      | ref k =>
        have hk : ¬ k = nm := by simpa using h.1
        cases v <;> simp only [findCount, hk, if_false] <;> exact ih
  | .greedy _, vals, _ => by cases vals <;> simp [findCount]
  | .lenPref _ _ _ rest, vals, h => by
    cases vals with
    | nil => simp [findCount]
    | cons v vs => simp only [findCount]; exact findCount_none_of_not_refs nm rest vs (by simpa [refs] using h)
  | .switch _ _ _ rest, vals, h => by
    cases vals with
    | nil => simp [findCount]
    | cons v vs => simp only [findCount]; exact findCount_none_of_not_refs nm rest vs (by simpa [refs] using h)


theorem parseRep_length (f : Bytes → Option (List Value × Bytes)) :
    ∀ (n : Nat) (bs : Bytes) (es : List Value) (r : Bytes), parseRep f n bs = some (es, r) → es.length = n
  | 0, bs, es, r, h => by simp [parseRep] at h; simp [h.1.symm]
  | n + 1, bs, es, r, h => by
    simp only [parseRep] at h
    split at h
    · cases h
    · rename_i v r1 _
      split at h
      · cases h
      · rename_i vs r2 h2
        simp only [Option.some.injEq, Prod.mk.injEq] at h
        have := parseRep_length f n r1 vs r2 h2
        simp [← h.1, this]

theorem stripZ_length_le (b : Bytes) : (stripZ b).length ≤ b.length := by
  unfold stripZ
  have := (List.dropWhile_sublist (fun x => x == 0) (l := b.reverse)).length_le
  simpa using this

theorem lookup_cons_ne {a k v : Nat} {cs : Ctx} (h : ¬ a = k) : lookup k ((a, v) :: cs) = lookup k cs := by
  simp [lookup, h]

theorem parse_findCount (E : Env) (nm : Nat) :
    ∀ (l : Layout) (cs ts : Ctx) (bs : Bytes) (vals : List Value) (r : Bytes),
      parseGo E l cs ts bs = some (vals, r) → refs nm l = true →
      ∃ c' c, findCount nm l vals = some c' ∧ lookup nm cs = some c ∧ c' ≤ c
  | .nil, _, _, _, _, _, _, hr => by simp [refs] at hr
  | .field _ w c rest, cs, ts, bs, vals, r, h, hr => by
    simp only [parseGo] at h
    split at h; · cases h
    split at h; · cases h
    split at h; · cases h
    rename_i v _ vs r1 h1
    simp only [Option.some.injEq, Prod.mk.injEq] at h
    obtain ⟨rfl, rfl⟩ := h
    simp only [findCount]
    exact parse_findCount E nm rest _ _ _ _ _ h1 (by simpa [refs] using hr)
  | .pad n rest, cs, ts, bs, vals, r, h, hr => by
    simp only [parseGo] at h
    split at h; · cases h
    simp only [findCount]
    exact parse_findCount E nm rest _ _ _ _ _ h (by simpa [refs] using hr)
  | .count nm' w rest, cs, ts, bs, vals, r, h, hr => by
    simp only [parseGo] at h
    split at h; · cases h
    simp only [refs] at hr
    by_cases e : nm' = nm
    · simp [e] at hr
    · simp only [e, if_false] at hr
      obtain ⟨c', c, h1, h2, h3⟩ := parse_findCount E nm rest _ _ _ _ _ h hr
      refine ⟨c', c, ?_, ?_, h3⟩
      · simp only [findCount, e, if_false]; exact h1
      · rw [lookup_cons_ne e] at h2; exact h2
  | .struct _ inner rest, cs, ts, bs, vals, r, h, hr => by
    simp only [parseGo] at h
    split at h; · cases h
    split at h; · cases h
    rename_i ivs r0 _ vs r1 h1
    simp only [Option.some.injEq, Prod.mk.injEq] at h
    obtain ⟨rfl, rfl⟩ := h
    simp only [findCount]
    exact parse_findCount E nm rest _ _ _ _ _ h1 (by simpa [refs] using hr)
  | .array _ c elem rest, cs, ts, bs, vals, r, h, hr => by
    simp only [parseGo] at h
    split at h; · cases h
    rename_i n hn
    split at h; · cases h
    rename_i es r0 hes
    split at h; · cases h
    rename_i vs r1 h1
    simp only [Option.some.injEq, Prod.mk.injEq] at h
    obtain ⟨rfl, rfl⟩ := h
    have hlen := parseRep_length _ _ _ _ _ hes
    cases c with
    | fixed k =>
      simp only [findCount]
      exact parse_findCount E nm rest _ _ _ _ _ h1 (by simpa [refs] using hr)
    | ref k =>
      by_cases e : k = nm
      · subst e
        refine ⟨es.length, n, by simp [findCount], by simpa [Cnt.resolve] using hn, by omega⟩
      · simp only [findCount, e, if_false]
        exact parse_findCount E nm rest _ _ _ _ _ h1 (by simpa [refs, e] using hr)
  | .bytes _ c str rest, cs, ts, bs, vals, r, h, hr => by
    simp only [parseGo] at h
    split at h; · cases h
    rename_i n hn
    split at h; · cases h
    split at h; · cases h
    split at h; · cases h
    rename_i hlen _ vs r1 h1
    simp only [Option.some.injEq, Prod.mk.injEq] at h
    obtain ⟨rfl, rfl⟩ := h
    cases c with
    | fixed k =>
      simp only [findCount]
      exact parse_findCount E nm rest _ _ _ _ _ h1 (by simpa [refs] using hr)
    | ref k =>
      by_cases e : k = nm
      · subst e
        refine ⟨(if str = true then stripZ (bs.take n) else bs.take n).length, n, by simp only [findCount, if_true], by simpa [Cnt.resolve] using hn, ?_⟩
        have h1 : (bs.take n).length ≤ n := List.length_take_le n bs
        have h2 := stripZ_length_le (bs.take n)
        split <;> omega
      · simp only [findCount, e, if_false]
        exact parse_findCount E nm rest _ _ _ _ _ h1 (by simpa [refs, e] using hr)
  | .greedy _, _, _, _, _, _, _, hr => by simp [refs] at hr
  | .lenPref _ w inner rest, cs, ts, bs, vals, r, h, hr => by
    simp only [parseGo] at h
    split at h; · cases h
    split at h; · cases h
    split at h; · cases h
    split at h; · cases h
    rename_i vs r1 h1
    simp only [Option.some.injEq, Prod.mk.injEq] at h
    obtain ⟨rfl, rfl⟩ := h
    simp only [findCount]
    exact parse_findCount E nm rest _ _ _ _ _ h1 (by simpa [refs] using hr)
  | .switch _ tag cases rest, cs, ts, bs, vals, r, h, hr => by
    simp only [parseGo] at h
    split at h; · cases h
    split at h; · cases h
    split at h; · cases h
    rename_i vs r1 h1
    simp only [Option.some.injEq, Prod.mk.injEq] at h
    obtain ⟨rfl, rfl⟩ := h
    simp only [findCount]
    exact parse_findCount E nm rest _ _ _ _ _ h1 (by simpa [refs] using hr)



theorem findCount_none_of_wf (nm : Nat) :
    ∀ (l : Layout) (decl tags : List Nat) (vals : List Value),
      wfGo decl tags l = true → decl.contains nm = false → findCount nm l vals = none
  | .nil, _, _, vals, _, _ => by cases vals <;> simp [findCount]
  | .field _ _ _ rest, decl, tags, vals, h, hd => by
    cases vals with
    | nil => simp [findCount]
    | cons v vs =>
      simp only [wfGo, Bool.and_eq_true] at h
      simp only [findCount]; exact findCount_none_of_wf nm rest _ _ vs h.2 hd
  | .pad _ rest, decl, tags, vals, h, hd => by
    simp only [wfGo] at h
    simp only [findCount]; exact findCount_none_of_wf nm rest _ _ vals h hd
  | .count nm' _ rest, decl, tags, vals, h, hd => by
    simp only [wfGo, Bool.and_eq_true] at h
    simp only [findCount]
    by_cases e : nm' = nm
    · simp [e]
    · simp only [e, if_false]
      refine findCount_none_of_wf nm rest _ _ vals h.2 ?_
      simp only [List.contains_cons, Bool.or_eq_false_iff]
      exact ⟨by simpa using (fun h' => e h'.symm), hd⟩
  | .struct _ _ rest, decl, tags, vals, h, hd => by
    cases vals with
    | nil => simp [findCount]
    | cons v vs =>
      simp only [wfGo, Bool.and_eq_true] at h
      simp only [findCount]; exact findCount_none_of_wf nm rest _ _ vs h.2 hd
  | .array _ c _ rest, decl, tags, vals, h, hd => by
    cases vals with
    | nil => simp [findCount]
    | cons v vs =>
      simp only [wfGo, Bool.and_eq_true] at h
      have ih := findCount_none_of_wf nm rest _ _ vs h.2 hd
      cases c with
      | fixed n => simp only [findCount]; exact ih
      | ref k =>
        have hk : ¬ k = nm := by
          intro e; subst e
          have : decl.contains k = true := by simpa [Cnt.declared] using h.1.1.1.1
          rw [this] at hd; cases hd
        cases v <;> simp only [findCount, hk, if_false] <;> exact ih
  | .bytes _ c _ rest, decl, tags, vals, h, hd => by
    cases vals with
    | nil => simp [findCount]
    | cons v vs =>
      simp only [wfGo, Bool.and_eq_true] at h
      have ih := findCount_none_of_wf nm rest _ _ vs h.2 hd
      cases c with
      | fixed n => simp only [findCount]; exact ih
      | ref k =>
        have hk : ¬ k = nm := by
          intro e; subst e
          have : decl.contains k = true := by simpa [Cnt.declared] using h.1.1
          rw [this] at hd; cases hd
        cases v <;> simp only [findCount, hk, if_false] <;> exact ih
  | .greedy _, _, _, vals, _, _ => by cases vals <;> simp [findCount]
  | .lenPref _ _ _ rest, decl, tags, vals, h, hd => by
    cases vals with
    | nil => simp [findCount]
    | cons v vs =>
      simp only [wfGo, Bool.and_eq_true] at h
      simp only [findCount]; exact findCount_none_of_wf nm rest _ _ vs h.2 hd
  | .switch _ _ _ rest, decl, tags, vals, h, hd => by
    cases vals with
    | nil => simp [findCount]
    | cons v vs =>
      simp only [wfGo, Bool.and_eq_true] at h
      simp only [findCount]; exact findCount_none_of_wf nm rest _ _ vs h.2 hd

/-- Agreement of a count context with the values: every count the values determine is what the context holds. -/
def Inv (l : Layout) (vals : List Value) (cs : Ctx) : Prop :=
  ∀ nm c, findCount nm l vals = some c → lookup nm cs = some c

theorem inv_of_closed {l : Layout} {tags : List Nat} (h : wfGo [] tags l = true) (vals : List Value) (cs : Ctx) :
    Inv l vals cs := by
  intro nm c hc
  rw [findCount_none_of_wf nm l [] tags vals h (by simp)] at hc
  cases hc

/-! ### the round trip, case by case -/


def ExtStable (E : Env) (uses : List (Nat × Nat)) : Prop := ∀ p ∈ uses, Stable (E p.1) p.2

theorem ExtStable.left {E : Env} {a b : List (Nat × Nat)} (h : ExtStable E (a ++ b)) : ExtStable E a :=
  fun p hp => h p (List.mem_append_left _ hp)
theorem ExtStable.right {E : Env} {a b : List (Nat × Nat)} (h : ExtStable E (a ++ b)) : ExtStable E b :=
  fun p hp => h p (List.mem_append_right _ hp)

/-- Round-trip statement for a chain, in the form that goes through the induction. -/
def RT (E : Env) (l : Layout) : Prop :=
  ∀ decl tags, wfGo decl tags l = true → ExtStable E (extUses l) →
  ∀ cs ts bs vals r, parseGo E l cs ts bs = some (vals, r) →
    ∃ out, buildGo E l ts vals = some out ∧ out.length + r.length ≤ bs.length ∧
      ∀ cs' post, Inv l vals cs' → (endsGreedy l = true → post = []) →
        parseGo E l cs' ts (out ++ post) = some (vals, post)

def RTC (E : Env) (cases : Cases) : Prop :=
  ∀ tags, wfCases tags cases = true → noGreedyCases cases = true → ExtStable E (extUsesCases cases) →
  ∀ k ts bs vals r, parseCases E cases k ts bs = some (vals, r) →
    ∃ out, buildCases E cases k ts vals = some out ∧ out.length + r.length ≤ bs.length ∧
      ∀ post, parseCases E cases k ts (out ++ post) = some (vals, post)

theorem rt_nil (E : Env) : RT E .nil := by
  intro decl tags _ _ cs ts bs vals r h
  simp only [parseGo, Option.some.injEq, Prod.mk.injEq] at h
  obtain ⟨rfl, rfl⟩ := h
  refine ⟨[], by simp [buildGo], by simp, ?_⟩
  intro cs' post _ _
  simp [parseGo]

theorem take_app {α} (a b : List α) (n : Nat) (h : a.length = n) : (a ++ b).take n = a := by
  subst h; simp
theorem drop_app {α} (a b : List α) (n : Nat) (h : a.length = n) : (a ++ b).drop n = b := by
  subst h; simp

theorem rt_field (E : Env) (nm w : Nat) (c : CodecId) (rest : Layout) (ih : RT E rest) :
    RT E (.field nm w c rest) := by
  intro decl tags hwf hext cs ts bs vals r h
  simp only [wfGo, Bool.and_eq_true] at hwf
  simp only [parseGo] at h
  split at h; · cases h
  rename_i hlen
  split at h; · cases h
  rename_i v hdec
  split at h; · cases h
  rename_i vs r1 h1
  simp only [Option.some.injEq, Prod.mk.injEq] at h
  obtain ⟨rfl, rfl⟩ := h
  have htake : (bs.take w).length = w := by simp [List.length_take]; omega
  have hraw : leNat (bs.take w) < 256 ^ w := by
    have := leNat_lt (bs.take w); rwa [htake] at this
  have hst : Stable (codecOf E c) w := by
    refine codec_stable E c w hwf.1 ?_
    intro id hc; subst hc
    exact hext (id, w) (by simp [extUses])
  obtain ⟨r', hr', henc, hdec'⟩ := hst _ hraw v hdec
  have hext' : ExtStable E (extUses rest) := by
    simp only [extUses] at hext; exact hext.right
  obtain ⟨out, hb, hl, hre⟩ := ih decl (nm :: tags) hwf.2 hext' cs _ _ _ _ h1
  refine ⟨leBytes w r' ++ out, ?_, ?_, ?_⟩
  · simp only [buildGo, henc, hb]
    rw [if_neg (by omega)]
  · simp only [List.length_append, leBytes_length, List.length_drop] at hl ⊢; omega
  · intro cs' post hinv hg
    simp only [parseGo]
    have e1 : (leBytes w r' ++ out ++ post).take w = leBytes w r' := by
      rw [List.append_assoc]; exact take_app _ _ _ (by simp)
    have e2 : (leBytes w r' ++ out ++ post).drop w = out ++ post := by
      rw [List.append_assoc]; exact drop_app _ _ _ (by simp)
    rw [if_neg (by simp), e1, e2, leNat_leBytes w r' hr', hdec']
    have := hre cs' post (fun n c hc => hinv n c (by simpa [findCount] using hc)) (fun hg' => hg (by simpa [endsGreedy] using hg'))
    simp only [this]



theorem rt_pad (E : Env) (n : Nat) (rest : Layout) (ih : RT E rest) : RT E (.pad n rest) := by
  intro decl tags hwf hext cs ts bs vals r h
  simp only [wfGo] at hwf
  simp only [parseGo] at h
  split at h; · cases h
  rename_i hlen
  obtain ⟨out, hb, hl, hre⟩ := ih decl tags hwf (by simpa [extUses] using hext) cs _ _ _ _ h
  refine ⟨zeros n ++ out, by simp only [buildGo, hb], ?_, ?_⟩
  · simp only [List.length_append, zeros_length, List.length_drop] at hl ⊢; omega
  · intro cs' post hinv hg
    simp only [parseGo]
    have e2 : (zeros n ++ out ++ post).drop n = out ++ post := by
      rw [List.append_assoc]; exact drop_app _ _ _ (by simp)
    rw [if_neg (by simp), e2]
    exact hre cs' post (fun k c hc => hinv k c (by simpa [findCount] using hc)) (fun hg' => hg (by simpa [endsGreedy] using hg'))

theorem rt_count (E : Env) (nm w : Nat) (rest : Layout) (ih : RT E rest) : RT E (.count nm w rest) := by
  intro decl tags hwf hext cs ts bs vals r h
  simp only [wfGo, Bool.and_eq_true] at hwf
  simp only [parseGo] at h
  split at h; · cases h
  rename_i hlen
  have htake : (bs.take w).length = w := by simp [List.length_take]; omega
  have hraw : leNat (bs.take w) < 256 ^ w := by
    have := leNat_lt (bs.take w); rwa [htake] at this
  obtain ⟨c', c, hfc, hlk, hle⟩ := parse_findCount E nm rest _ _ _ _ _ h hwf.1.2
  have hc : c = leNat (bs.take w) := by simpa [lookup] using hlk.symm
  obtain ⟨out, hb, hl, hre⟩ := ih (nm :: decl) tags hwf.2 (by simpa [extUses] using hext) _ _ _ _ _ h
  have hc' : c' < 256 ^ w := by omega
  refine ⟨leBytes w c' ++ out, ?_, ?_, ?_⟩
  · simp only [buildGo, hfc, hb]; rw [if_neg (by omega)]
  · simp only [List.length_append, leBytes_length, List.length_drop] at hl ⊢; omega
  · intro cs' post hinv hg
    simp only [parseGo]
    have e1 : (leBytes w c' ++ out ++ post).take w = leBytes w c' := by
      rw [List.append_assoc]; exact take_app _ _ _ (by simp)
    have e2 : (leBytes w c' ++ out ++ post).drop w = out ++ post := by
      rw [List.append_assoc]; exact drop_app _ _ _ (by simp)
    rw [if_neg (by simp), e1, e2, leNat_leBytes w c' hc']
    refine hre _ post ?_ (fun hg' => hg (by simpa [endsGreedy] using hg'))
    intro k x hk
    by_cases e : nm = k
    · subst e
      rw [hfc] at hk
      simp only [Option.some.injEq] at hk; subst hk
      simp [lookup]
    · rw [lookup_cons_ne e]
      exact hinv k x (by simpa [findCount, e] using hk)

theorem noGreedy_endsGreedy : ∀ (l : Layout), noGreedy l = true → endsGreedy l = false
  | .nil, _ => rfl
  | .field _ _ _ rest, h => by simp only [noGreedy] at h; simp only [endsGreedy]; exact noGreedy_endsGreedy rest h
  | .pad _ rest, h => by simp only [noGreedy] at h; simp only [endsGreedy]; exact noGreedy_endsGreedy rest h
  | .count _ _ rest, h => by simp only [noGreedy] at h; simp only [endsGreedy]; exact noGreedy_endsGreedy rest h
  | .struct _ _ rest, h => by
    simp only [noGreedy, Bool.and_eq_true] at h; simp only [endsGreedy]; exact noGreedy_endsGreedy rest h.2
  | .array _ _ _ rest, h => by
    simp only [noGreedy, Bool.and_eq_true] at h; simp only [endsGreedy]; exact noGreedy_endsGreedy rest h.2
  | .bytes _ _ _ rest, h => by simp only [noGreedy] at h; simp only [endsGreedy]; exact noGreedy_endsGreedy rest h
  | .greedy _, h => by simp [noGreedy] at h
  | .lenPref _ _ _ rest, h => by
    simp only [noGreedy, Bool.and_eq_true] at h; simp only [endsGreedy]; exact noGreedy_endsGreedy rest h.2
  | .switch _ _ _ rest, h => by
    simp only [noGreedy, Bool.and_eq_true] at h; simp only [endsGreedy]; exact noGreedy_endsGreedy rest h.2

theorem rt_struct (E : Env) (nm : Nat) (inner rest : Layout) (ihI : RT E inner) (ih : RT E rest) :
    RT E (.struct nm inner rest) := by
  intro decl tags hwf hext cs ts bs vals r h
  simp only [wfGo, Bool.and_eq_true] at hwf
  simp only [extUses] at hext
  simp only [parseGo] at h
  split at h; · cases h
  rename_i ivs r0 h0
  split at h; · cases h
  rename_i vs r1 h1
  simp only [Option.some.injEq, Prod.mk.injEq] at h
  obtain ⟨rfl, rfl⟩ := h
  obtain ⟨oi, hbi, hli, hrei⟩ := ihI [] [] hwf.1.1 hext.left _ _ _ _ _ h0
  obtain ⟨out, hb, hl, hre⟩ := ih decl tags hwf.2 hext.right _ _ _ _ _ h1
  refine ⟨oi ++ out, by simp only [buildGo, hbi, hb], ?_, ?_⟩
  · simp only [List.length_append] at hl hli ⊢; omega
  · intro cs' post hinv hg
    simp only [parseGo]
    have := hrei [] (out ++ post) (inv_of_closed hwf.1.1 _ _)
      (fun hg' => by rw [noGreedy_endsGreedy inner hwf.1.2] at hg'; cases hg')
    rw [List.append_assoc, this]
    have := hre cs' post (fun k c hc => hinv k c (by simpa [findCount] using hc)) (fun hg' => hg (by simpa [endsGreedy] using hg'))
    simp only [this]

theorem rt_greedy (E : Env) (nm : Nat) : RT E (.greedy nm) := by
  intro decl tags _ _ cs ts bs vals r h
  simp only [parseGo, Option.some.injEq, Prod.mk.injEq] at h
  obtain ⟨rfl, rfl⟩ := h
  refine ⟨bs, by simp [buildGo], by simp, ?_⟩
  intro cs' post _ hg
  rw [hg (by simp [endsGreedy])]
  simp [parseGo]



theorem rep_rt (f : Bytes → Option (List Value × Bytes)) (g : List Value → Option Bytes)
    (hfg : ∀ bs ivs r, f bs = some (ivs, r) →
      ∃ out, g ivs = some out ∧ out.length + r.length ≤ bs.length ∧ ∀ post, f (out ++ post) = some (ivs, post)) :
    ∀ (n : Nat) (bs : Bytes) (es : List Value) (r : Bytes), parseRep f n bs = some (es, r) →
      ∃ out, buildRep g es = some out ∧ out.length + r.length ≤ bs.length ∧
        ∀ post, parseRep f n (out ++ post) = some (es, post)
  | 0, bs, es, r, h => by
    simp only [parseRep, Option.some.injEq, Prod.mk.injEq] at h
    obtain ⟨rfl, rfl⟩ := h
    exact ⟨[], by simp [buildRep], by simp, fun post => by simp [parseRep]⟩
  | n + 1, bs, es, r, h => by
    simp only [parseRep] at h
    split at h; · cases h
    rename_i v r1 h1
    split at h; · cases h
    rename_i vs r2 h2
    simp only [Option.some.injEq, Prod.mk.injEq] at h
    obtain ⟨rfl, rfl⟩ := h
    obtain ⟨o1, hg1, hl1, hre1⟩ := hfg _ _ _ h1
    obtain ⟨o2, hg2, hl2, hre2⟩ := rep_rt f g hfg n _ _ _ h2
    refine ⟨o1 ++ o2, by simp only [buildRep, hg1, hg2], ?_, ?_⟩
    · simp only [List.length_append]; omega
    · intro post
      simp only [parseRep]
      rw [List.append_assoc, hre1 (o2 ++ post)]
      simp only [hre2 post]

theorem rt_array (E : Env) (nm : Nat) (c : Cnt) (elem rest : Layout) (ihE : RT E elem) (ih : RT E rest) :
    RT E (.array nm c elem rest) := by
  intro decl tags hwf hext cs ts bs vals r h
  simp only [wfGo, Bool.and_eq_true] at hwf
  obtain ⟨⟨⟨⟨hdecl, hfree⟩, hwfE⟩, hngE⟩, hwfR⟩ := hwf
  simp only [extUses] at hext
  simp only [parseGo] at h
  split at h; · cases h
  rename_i n hn
  split at h; · cases h
  rename_i es r0 hes
  split at h; · cases h
  rename_i vs r1 h1
  simp only [Option.some.injEq, Prod.mk.injEq] at h
  obtain ⟨rfl, rfl⟩ := h
  have hlen := parseRep_length _ _ _ _ _ hes
  have hfg : ∀ bs ivs r, parseGo E elem [] [] bs = some (ivs, r) →
      ∃ out, buildGo E elem [] ivs = some out ∧ out.length + r.length ≤ bs.length ∧
        ∀ post, parseGo E elem [] [] (out ++ post) = some (ivs, post) := by
    intro bs ivs r hp
    obtain ⟨o, hb, hl, hre⟩ := ihE [] [] hwfE hext.left _ _ _ _ _ hp
    exact ⟨o, hb, hl, fun post => hre [] post (inv_of_closed hwfE _ _)
      (fun hg' => by rw [noGreedy_endsGreedy elem hngE] at hg'; cases hg')⟩
  obtain ⟨oa, hba, hla, hrea⟩ := rep_rt (fun b => parseGo E elem [] [] b) (fun ivs => buildGo E elem [] ivs) hfg _ _ _ _ hes
  obtain ⟨out, hb, hl, hre⟩ := ih decl tags hwfR hext.right _ _ _ _ _ h1
  refine ⟨oa ++ out, ?_, ?_, ?_⟩
  · simp only [buildGo, hba, hb]
    rw [if_neg]
    cases c with
    | fixed k => simp only [Cnt.resolve, Option.some.injEq] at hn; simp [Cnt.lenOk]; omega
    | ref k => simp [Cnt.lenOk]
  · simp only [List.length_append] at hl hla ⊢; omega
  · intro cs' post hinv hg
    simp only [parseGo]
    have hres : c.resolve cs' = some n := by
      cases c with
      | fixed k => simpa [Cnt.resolve] using hn
      | ref k =>
        simp only [Cnt.resolve]
        rw [← hlen]
        exact hinv k es.length (by simp [findCount])
    rw [hres]
    simp only []
    rw [List.append_assoc, hrea (out ++ post)]
    have hinv' : Inv rest vs cs' := by
      intro k x hk
      refine hinv k x ?_
      cases c with
      | fixed j => simpa [findCount] using hk
      | ref j =>
        by_cases e : j = k
        · subst e
          have : refs j rest = false := by simpa [Cnt.freeIn] using hfree
          rw [findCount_none_of_not_refs j rest vs this] at hk; cases hk
        · simpa [findCount, e] using hk
    have := hre cs' post hinv' (fun hg' => hg (by simpa [endsGreedy] using hg'))
    simp only [this]



theorem rt_bytes (E : Env) (nm : Nat) (c : Cnt) (str : Bool) (rest : Layout) (ih : RT E rest) :
    RT E (.bytes nm c str rest) := by
  intro decl tags hwf hext cs ts bs vals r h
  simp only [wfGo, Bool.and_eq_true] at hwf
  obtain ⟨⟨hdecl, hfree⟩, hwfR⟩ := hwf
  simp only [extUses] at hext
  simp only [parseGo] at h
  split at h; · cases h
  rename_i n hn
  split at h; · cases h
  rename_i hlen
  split at h; · cases h
  rename_i hasc
  split at h; · cases h
  rename_i vs r1 h1
  simp only [Option.some.injEq, Prod.mk.injEq] at h
  obtain ⟨rfl, rfl⟩ := h
  have htake : (bs.take n).length = n := by simp [List.length_take]; omega
  obtain ⟨out, hb, hl, hre⟩ := ih decl tags hwfR hext _ _ _ _ _ h1
  -- the value
  generalize hb' : (if str = true then stripZ (bs.take n) else bs.take n) = b' at *
  have hb'len : b'.length ≤ n := by
    subst hb'
    have := stripZ_length_le (bs.take n)
    split <;> omega
  have hstr : str = true → isAscii b' = true ∧ stripZ b' = b' := by
    intro hs
    subst hb'
    simp only [hs, if_true]
    have : isAscii (bs.take n) = true := by
      cases hA : isAscii (bs.take n) with
      | true => rfl
      | false => simp [hs, hA] at hasc
    exact ⟨isAscii_stripZ _ this, stripZ_idem _⟩
  have hnstr : str = false → b' = bs.take n := by
    intro hs; subst hb'; simp [hs]
  -- the number of bytes written
  have hNfix : ∀ k, c = .fixed k → k = n := by
    intro k hk; subst hk; simpa [Cnt.resolve] using hn
  generalize hNdef : c.outLen b'.length = N
  have hN : b'.length ≤ N := by
    subst hNdef
    cases c with
    | fixed k => have := hNfix k rfl; simp only [Cnt.outLen]; omega
    | ref k => simp [Cnt.outLen]
  have hNn : N ≤ n := by
    subst hNdef
    cases c with
    | fixed k => have := hNfix k rfl; simp only [Cnt.outLen]; omega
    | ref k => simpa [Cnt.outLen] using hb'len
  have hpad0 : str = false → N - b'.length = 0 := by
    intro hs
    have : b'.length = n := by rw [hnstr hs]; exact htake
    omega
  refine ⟨b' ++ zeros (N - b'.length) ++ out, ?_, ?_, ?_⟩
  · simp only [buildGo, hb, hNdef]
    rw [if_neg, if_neg]
    · cases c with
      | fixed k =>
        have := hNfix k rfl
        cases str with
        | true => simp [Cnt.fits]; omega
        | false => have h2 := hnstr rfl; simp [Cnt.fits]; rw [h2, htake]; omega
      | ref k => simp [Cnt.fits]
    · cases str with
      | true => have := hstr rfl; simp [this.1, this.2]
      | false => simp
  · simp only [List.length_append, zeros_length, List.length_drop] at hl ⊢; omega
  · intro cs' post hinv hg
    simp only [parseGo]
    have hres : c.resolve cs' = some N := by
      subst hNdef
      cases c with
      | fixed k => simp [Cnt.resolve, Cnt.outLen]
      | ref k =>
        simp only [Cnt.resolve, Cnt.outLen]
        exact hinv k b'.length (by simp [findCount])
    rw [hres]
    simp only []
    have hT : (b' ++ zeros (N - b'.length)).length = N := by simp; omega
    have e1 : (b' ++ zeros (N - b'.length) ++ out ++ post).take N = b' ++ zeros (N - b'.length) := by
      rw [List.append_assoc]; exact take_app _ _ _ hT
    have e2 : (b' ++ zeros (N - b'.length) ++ out ++ post).drop N = out ++ post := by
      rw [List.append_assoc]; exact drop_app _ _ _ hT
    rw [if_neg (by simp only [List.length_append, zeros_length]; omega), e1, e2]
    have hval : (if str = true then stripZ (b' ++ zeros (N - b'.length)) else b' ++ zeros (N - b'.length)) = b' := by
      cases str with
      | true => simp only [if_true]; rw [stripZ_append_zeros]; exact (hstr rfl).2
      | false => simp [hpad0 rfl, zeros]
    have hasc' : ¬ ((str && !isAscii (b' ++ zeros (N - b'.length))) = true) := by
      cases str with
      | true => simp [isAscii_append, isAscii_zeros, (hstr rfl).1]
      | false => simp
    rw [if_neg hasc', hval]
    have hinv' : Inv rest vs cs' := by
      intro k x hk
      refine hinv k x ?_
      cases c with
      | fixed j => simpa [findCount] using hk
      | ref j =>
        by_cases e : j = k
        · subst e
          have : refs j rest = false := by simpa [Cnt.freeIn] using hfree
          rw [findCount_none_of_not_refs j rest vs this] at hk; cases hk
        · simpa [findCount, e] using hk
    have := hre cs' post hinv' (fun hg' => hg (by simpa [endsGreedy] using hg'))
    simp only [this]



theorem rt_lenPref (E : Env) (nm w : Nat) (inner rest : Layout) (ihI : RT E inner) (ih : RT E rest) :
    RT E (.lenPref nm w inner rest) := by
  intro decl tags hwf hext cs ts bs vals r h
  simp only [wfGo, Bool.and_eq_true] at hwf
  obtain ⟨⟨⟨hw, hwfI⟩, hngI⟩, hwfR⟩ := hwf
  simp only [extUses] at hext
  simp only [parseGo] at h
  split at h; · cases h
  rename_i hlen
  split at h; · cases h
  rename_i hlen2
  split at h; · cases h
  rename_i ivs r0 h0
  split at h; · cases h
  rename_i vs r1 h1
  simp only [Option.some.injEq, Prod.mk.injEq] at h
  obtain ⟨rfl, rfl⟩ := h
  have htake : (bs.take w).length = w := by simp [List.length_take]; omega
  have hraw : leNat (bs.take w) < 256 ^ w := by
    have := leNat_lt (bs.take w); rwa [htake] at this
  generalize leNat (bs.take w) = L at *
  obtain ⟨oi, hbi, hli, hrei⟩ := ihI [] tags hwfI hext.left _ _ _ _ _ h0
  obtain ⟨out, hb, hl, hre⟩ := ih decl tags hwfR hext.right _ _ _ _ _ h1
  have hreg : ((bs.drop w).take L).length = L := by simp [List.length_take]; simp at hlen2; omega
  have hoi : oi.length < 256 ^ w := by omega
  refine ⟨leBytes w oi.length ++ oi ++ out, ?_, ?_, ?_⟩
  · simp only [buildGo, hbi, hb]; rw [if_neg (by omega)]
  · simp only [List.length_append, leBytes_length, List.length_drop] at hl hli hlen2 ⊢; omega
  · intro cs' post hinv hg
    simp only [parseGo]
    have e1 : (leBytes w oi.length ++ oi ++ out ++ post).take w = leBytes w oi.length := by
      rw [List.append_assoc, List.append_assoc]; exact take_app _ _ _ (by simp)
    have e2 : (leBytes w oi.length ++ oi ++ out ++ post).drop w = oi ++ (out ++ post) := by
      rw [List.append_assoc, List.append_assoc]; rw [drop_app _ _ _ (by simp)]
    rw [if_neg (by simp), e1, e2, leNat_leBytes w _ hoi]
    rw [if_neg (by simp)]
    have e3 : (oi ++ (out ++ post)).take oi.length = oi ++ [] := by simp
    have e4 : (oi ++ (out ++ post)).drop oi.length = out ++ post := by simp
    rw [e3, e4]
    have := hrei [] [] (inv_of_closed hwfI _ _) (fun _ => rfl)
    rw [this]
    have := hre cs' post (fun k c hc => hinv k c (by simpa [findCount] using hc)) (fun hg' => hg (by simpa [endsGreedy] using hg'))
    simp only [this]

theorem rt_switch (E : Env) (nm tag : Nat) (cases : Cases) (rest : Layout) (ihC : RTC E cases) (ih : RT E rest) :
    RT E (.switch nm tag cases rest) := by
  intro decl tags hwf hext cs ts bs vals r h
  simp only [wfGo, Bool.and_eq_true] at hwf
  obtain ⟨⟨⟨htag, hwfC⟩, hngC⟩, hwfR⟩ := hwf
  simp only [extUses] at hext
  simp only [parseGo] at h
  split at h; · cases h
  rename_i t ht
  split at h; · cases h
  rename_i ivs r0 h0
  split at h; · cases h
  rename_i vs r1 h1
  simp only [Option.some.injEq, Prod.mk.injEq] at h
  obtain ⟨rfl, rfl⟩ := h
  obtain ⟨oc, hbc, hlc, hrec⟩ := ihC tags hwfC hngC hext.left _ _ _ _ _ h0
  obtain ⟨out, hb, hl, hre⟩ := ih decl tags hwfR hext.right _ _ _ _ _ h1
  refine ⟨oc ++ out, by simp only [buildGo, ht, hbc, hb], ?_, ?_⟩
  · simp only [List.length_append] at hl hlc ⊢; omega
  · intro cs' post hinv hg
    simp only [parseGo, ht]
    rw [List.append_assoc, hrec (out ++ post)]
    have := hre cs' post (fun k c hc => hinv k c (by simpa [findCount] using hc)) (fun hg' => hg (by simpa [endsGreedy] using hg'))
    simp only [this]

theorem rtc_fail (E : Env) : RTC E .fail := by
  intro tags _ _ _ k ts bs vals r h
  simp [parseCases] at h

theorem rtc_dflt (E : Env) (body : Layout) (ih : RT E body) : RTC E (.dflt body) := by
  intro tags hwf hng hext k ts bs vals r h
  simp only [wfCases] at hwf
  simp only [noGreedyCases] at hng
  simp only [extUsesCases] at hext
  simp only [parseCases] at h
  obtain ⟨o, hb, hl, hre⟩ := ih [] tags hwf hext _ _ _ _ _ h
  refine ⟨o, by simp only [buildCases, hb], hl, ?_⟩
  intro post
  simp only [parseCases]
  exact hre [] post (inv_of_closed hwf _ _) (fun hg' => by rw [noGreedy_endsGreedy body hng] at hg'; cases hg')

theorem rtc_case (E : Env) (t : Nat) (body : Layout) (more : Cases) (ih : RT E body) (ihM : RTC E more) :
    RTC E (.case t body more) := by
  intro tags hwf hng hext k ts bs vals r h
  simp only [wfCases, Bool.and_eq_true] at hwf
  simp only [noGreedyCases, Bool.and_eq_true] at hng
  simp only [extUsesCases] at hext
  simp only [parseCases] at h
  by_cases e : t = k
  · rw [if_pos e] at h
    obtain ⟨o, hb, hl, hre⟩ := ih [] tags hwf.1 hext.left _ _ _ _ _ h
    refine ⟨o, by simp only [buildCases, if_pos e, hb], hl, ?_⟩
    intro post
    simp only [parseCases, if_pos e]
    exact hre [] post (inv_of_closed hwf.1 _ _) (fun hg' => by rw [noGreedy_endsGreedy body hng.1] at hg'; cases hg')
  · rw [if_neg e] at h
    obtain ⟨o, hb, hl, hre⟩ := ihM tags hwf.2 hng.2 hext.right _ _ _ _ _ h
    refine ⟨o, by simp only [buildCases, if_neg e, hb], hl, ?_⟩
    intro post
    simp only [parseCases, if_neg e]
    exact hre post

/-- The round trip holds for every layout (induction over the mutual inductive type). -/
theorem rt_all (E : Env) : ∀ l : Layout, RT E l := by
  intro l
  exact Layout.rec (motive_1 := fun l => RT E l) (motive_2 := fun c => RTC E c)
    (rt_nil E)
    (fun nm w c rest ih => rt_field E nm w c rest ih)
    (fun n rest ih => rt_pad E n rest ih)
    (fun nm w rest ih => rt_count E nm w rest ih)
    (fun nm inner rest ihI ih => rt_struct E nm inner rest ihI ih)
    (fun nm c elem rest ihE ih => rt_array E nm c elem rest ihE ih)
    (fun nm c str rest ih => rt_bytes E nm c str rest ih)
    (fun nm => rt_greedy E nm)
    (fun nm w inner rest ihI ih => rt_lenPref E nm w inner rest ihI ih)
    (fun nm tag cases rest ihC ih => rt_switch E nm tag cases rest ihC ih)
    (rtc_fail E)
    (fun body ih => rtc_dflt E body ih)
    (fun t body more ih ihM => rtc_case E t body more ih ihM)
    l



/-! ### size of the serialisation -/

def SZ (E : Env) (l : Layout) : Prop :=
  ∀ ts vals out, buildGo E l ts vals = some out → out.length = sizeGo l ts vals
def SZC (E : Env) (c : Cases) : Prop :=
  ∀ k ts vals out, buildCases E c k ts vals = some out → out.length = sizeCases c k ts vals

theorem sizeRep_eq (g : List Value → Option Bytes) (s : List Value → Nat)
    (hgs : ∀ ivs out, g ivs = some out → out.length = s ivs) :
    ∀ (es : List Value) (out : Bytes), buildRep g es = some out → out.length = sizeRep s es
  | [], out, h => by simp only [buildRep, Option.some.injEq] at h; subst h; simp [sizeRep]
  | v :: r, out, h => by
    cases v with
    | list vs =>
      simp only [buildRep] at h
      split at h; · cases h
      rename_i a ha
      split at h; · cases h
      rename_i b hb
      simp only [Option.some.injEq] at h; subst h
      simp only [sizeRep, List.length_append, hgs _ _ ha, sizeRep_eq g s hgs r b hb]
    | int n => simp [buildRep] at h
    | nan => simp [buildRep] at h
    | bytes b => simp [buildRep] at h

theorem sz_nil (E : Env) : SZ E .nil := by
  intro ts vals out h
  cases vals with
  | nil => simp only [buildGo, Option.some.injEq] at h; subst h; simp [sizeGo]
  | cons v vs => simp [buildGo] at h

theorem sz_field (E : Env) (nm w : Nat) (c : CodecId) (rest : Layout) (ih : SZ E rest) : SZ E (.field nm w c rest) := by
  intro ts vals out h
  cases vals with
  | nil => simp [buildGo] at h
  | cons v vs =>
    simp only [buildGo] at h
    split at h; · cases h
    split at h; · cases h
    split at h; · cases h
    rename_i o ho
    simp only [Option.some.injEq] at h; subst h
    simp only [sizeGo, List.length_append, leBytes_length, ih _ _ _ ho]

theorem sz_pad (E : Env) (n : Nat) (rest : Layout) (ih : SZ E rest) : SZ E (.pad n rest) := by
  intro ts vals out h
  simp only [buildGo] at h
  split at h; · cases h
  rename_i o ho
  simp only [Option.some.injEq] at h; subst h
  simp only [sizeGo, List.length_append, zeros_length, ih _ _ _ ho]

theorem sz_count (E : Env) (nm w : Nat) (rest : Layout) (ih : SZ E rest) : SZ E (.count nm w rest) := by
  intro ts vals out h
  simp only [buildGo] at h
  split at h; · cases h
  split at h; · cases h
  split at h; · cases h
  rename_i o ho
  simp only [Option.some.injEq] at h; subst h
  simp only [sizeGo, List.length_append, leBytes_length, ih _ _ _ ho]

theorem sz_struct (E : Env) (nm : Nat) (inner rest : Layout) (ihI : SZ E inner) (ih : SZ E rest) :
    SZ E (.struct nm inner rest) := by
  intro ts vals out h
  cases vals with
  | nil => simp [buildGo] at h
  | cons v vs =>
    cases v with
    | list ivs =>
      simp only [buildGo] at h
      split at h; · cases h
      rename_i a ha
      split at h; · cases h
      rename_i o ho
      simp only [Option.some.injEq] at h; subst h
      simp only [sizeGo, List.length_append, ihI _ _ _ ha, ih _ _ _ ho]
    | int n => simp [buildGo] at h
    | nan => simp [buildGo] at h
    | bytes b => simp [buildGo] at h

theorem sz_array (E : Env) (nm : Nat) (c : Cnt) (elem rest : Layout) (ihE : SZ E elem) (ih : SZ E rest) :
    SZ E (.array nm c elem rest) := by
  intro ts vals out h
  cases vals with
  | nil => simp [buildGo] at h
  | cons v vs =>
    cases v with
    | list es =>
      simp only [buildGo] at h
      split at h; · cases h
      split at h; · cases h
      rename_i a ha
      split at h; · cases h
      rename_i o ho
      simp only [Option.some.injEq] at h; subst h
      have := sizeRep_eq (fun ivs => buildGo E elem [] ivs) (fun ivs => sizeGo elem [] ivs)
        (fun ivs out hh => ihE [] ivs out hh) es a ha
      simp only [sizeGo, List.length_append, this, ih _ _ _ ho]
    | int n => simp [buildGo] at h
    | nan => simp [buildGo] at h
    | bytes b => simp [buildGo] at h

theorem sz_bytes (E : Env) (nm : Nat) (c : Cnt) (str : Bool) (rest : Layout) (ih : SZ E rest) :
    SZ E (.bytes nm c str rest) := by
  intro ts vals out h
  cases vals with
  | nil => simp [buildGo] at h
  | cons v vs =>
    cases v with
    | bytes b =>
      simp only [buildGo] at h
      split at h; · cases h
      split at h; · cases h
      rename_i hfit
      split at h; · cases h
      rename_i o ho
      simp only [Option.some.injEq] at h; subst h
      have hle : b.length ≤ c.outLen b.length := by
        cases c with
        | fixed k =>
          cases str with
          | true => simpa [Cnt.fits, Cnt.outLen] using hfit
          | false =>
            have : b.length = k := by simpa [Cnt.fits] using hfit
            simp [Cnt.outLen, this]
        | ref k => simp [Cnt.outLen]
      simp only [sizeGo, List.length_append, zeros_length, ih _ _ _ ho]
      omega
    | int n => simp [buildGo] at h
    | nan => simp [buildGo] at h
    | list b => simp [buildGo] at h

theorem sz_greedy (E : Env) (nm : Nat) : SZ E (.greedy nm) := by
  intro ts vals out h
  match vals, h with
  | [.bytes b], h => simp only [buildGo, Option.some.injEq] at h; subst h; simp [sizeGo]
  | [], h => simp [buildGo] at h
  | [.int _], h => simp [buildGo] at h
  | [.nan], h => simp [buildGo] at h
  | [.list _], h => simp [buildGo] at h
  | _ :: _ :: _, h => simp [buildGo] at h

theorem sz_lenPref (E : Env) (nm w : Nat) (inner rest : Layout) (ihI : SZ E inner) (ih : SZ E rest) :
    SZ E (.lenPref nm w inner rest) := by
  intro ts vals out h
  cases vals with
  | nil => simp [buildGo] at h
  | cons v vs =>
    cases v with
    | list ivs =>
      simp only [buildGo] at h
      split at h; · cases h
      rename_i a ha
      split at h; · cases h
      split at h; · cases h
      rename_i o ho
      simp only [Option.some.injEq] at h; subst h
      simp only [sizeGo, List.length_append, leBytes_length, ihI _ _ _ ha, ih _ _ _ ho]
    | int n => simp [buildGo] at h
    | nan => simp [buildGo] at h
    | bytes b => simp [buildGo] at h

theorem sz_switch (E : Env) (nm tag : Nat) (cases : Cases) (rest : Layout) (ihC : SZC E cases) (ih : SZ E rest) :
    SZ E (.switch nm tag cases rest) := by
  intro ts vals out h
  cases vals with
  | nil => simp [buildGo] at h
  | cons v vs =>
    cases v with
    | list ivs =>
      simp only [buildGo] at h
      split at h; · cases h
      rename_i t ht
      split at h; · cases h
      rename_i a ha
      split at h; · cases h
      rename_i o ho
      simp only [Option.some.injEq] at h; subst h
      simp only [sizeGo, ht, List.length_append, ihC _ _ _ _ ha, ih _ _ _ ho]
    | int n => simp [buildGo] at h
    | nan => simp [buildGo] at h
    | bytes b => simp [buildGo] at h

theorem sz_all (E : Env) : ∀ l : Layout, SZ E l := by
  intro l
  exact Layout.rec (motive_1 := fun l => SZ E l) (motive_2 := fun c => SZC E c)
    (sz_nil E)
    (fun nm w c rest ih => sz_field E nm w c rest ih)
    (fun n rest ih => sz_pad E n rest ih)
    (fun nm w rest ih => sz_count E nm w rest ih)
    (fun nm inner rest ihI ih => sz_struct E nm inner rest ihI ih)
    (fun nm c elem rest ihE ih => sz_array E nm c elem rest ihE ih)
    (fun nm c str rest ih => sz_bytes E nm c str rest ih)
    (fun nm => sz_greedy E nm)
    (fun nm w inner rest ihI ih => sz_lenPref E nm w inner rest ihI ih)
    (fun nm tag cases rest ihC ih => sz_switch E nm tag cases rest ihC ih)
    (fun k ts vals out h => by simp [buildCases] at h)
    (fun body ih k ts vals out h => by simp only [buildCases] at h; simp only [sizeCases]; exact ih _ _ _ h)
    (fun t body more ih ihM k ts vals out h => by
      simp only [buildCases] at h
      simp only [sizeCases]
      by_cases e : t = k
      · rw [if_pos e] at h ⊢; exact ih _ _ _ h
      · rw [if_neg e] at h ⊢; exact ihM _ _ _ _ h)
    l

end Lay
end FeVerif
