/-
Lemmas about the data-loader model (FeVerif/Model/Loader.lean) for the code as it is
(`Variant.current`): closed forms of the helper loops, the closed form of one `read` call, the cache
invariant, and the independence of an entry read without `max_messages` / alignment from the other
requested types.
-/
import FeVerif.Spec.Loader

namespace FeVerif.Loader

/-! ### Cache operations -/

theorem Cache.set_apply (c : Cache) (t u : Nat) (d : MData) :
    (c.set t d) u = if u = t then some d else c u := rfl

theorem createEntries_apply (p : Params) (ts : List Nat) (dc : Cache) (u : Nat) :
    createEntries p dc ts u = if u ∈ ts then some (MData.fresh p) else dc u := by
  induction ts generalizing dc with
  | nil => simp [createEntries]
  | cons t ts ih =>
    simp only [createEntries, ih, Cache.set_apply, List.mem_cons]
    by_cases h1 : u ∈ ts
    · simp [h1]
    · by_cases h2 : u = t <;> simp [h1, h2]

theorem lookupAll_map (dc : Cache) (f : Nat → MData) (ts : List Nat)
    (h : ∀ t ∈ ts, dc t = some (f t)) :
    lookupAll dc ts = .ok (ts.map (fun t => (t, f t))) := by
  induction ts with
  | nil => rfl
  | cons t ts ih =>
    have h1 := h t (List.mem_cons_self)
    have h2 := ih (fun u hu => h u (List.mem_cons_of_mem _ hu))
    simp [lookupAll, h1, h2]

theorem writeBack_map (f : Nat → MData) (ts : List Nat) (dc : Cache) (u : Nat) :
    writeBack dc (ts.map (fun t => (t, f t))) u = if u ∈ ts then some (f u) else dc u := by
  induction ts generalizing dc with
  | nil => simp [writeBack]
  | cons t ts ih =>
    simp only [List.map_cons, writeBack, ih, Cache.set_apply, List.mem_cons]
    by_cases h1 : u ∈ ts
    · simp [h1]
    · by_cases h2 : u = t
      · subst h2; simp [h1]
      · simp [h1, h2]

/-! ### Filling entries -/

/-- `d` after `add_message` for every message of `l`. -/
def extend (ri : Bool) (d : MData) (l : List Entry) : MData :=
  { d with msgs := d.msgs ++ l.map Msg.orig, idx := if ri then d.idx ++ l.map (fun x => x.ord) else d.idx }

theorem extend_nil (ri : Bool) (d : MData) : extend ri d [] = d := by
  cases d; cases ri <;> simp [extend]

theorem extend_cons (ri : Bool) (d : MData) (x : Entry) (l : List Entry) :
    extend ri (extend ri d [x]) l = extend ri d (x :: l) := by
  cases ri <;> simp [extend]

@[simp] theorem extend_idxArr (ri : Bool) (d : MData) (l : List Entry) : (extend ri d l).idxArr = d.idxArr := rfl
@[simp] theorem extend_params (ri : Bool) (d : MData) (l : List Entry) : (extend ri d l).params = d.params := rfl

theorem addMessage_ok (ri : Bool) (d : MData) (x : Entry) (h : d.idxArr = false) :
    addMessage ri d x = .ok (extend ri d [x]) := by
  cases ri <;> simp [addMessage, extend, h]

/-- With the repair (`newOnly`), the storing loop appends each message to the entry of its type when
that entry was created by this call and leaves every other entry alone; it cannot raise. -/
theorem storeAll_newOnly (v : Variant) (hv : v.newOnly = true) (e : Eff) (new : List Nat) (l : List Entry)
    (dc : Cache) (h : ∀ t ∈ new, ∃ d, dc t = some d ∧ d.idxArr = false) :
    ∃ dc', storeAll v e new dc l = .ok dc' ∧
      ∀ u, dc' u = if u ∈ new then (dc u).map (fun d => extend e.returnIndex d (l.filter (fun x => x.type == u)))
                  else dc u := by
  induction l generalizing dc with
  | nil =>
    refine ⟨dc, rfl, fun u => ?_⟩
    by_cases hu : u ∈ new
    · obtain ⟨d, hd, _⟩ := h u hu
      simp [hu, hd, extend_nil]
    · simp [hu]
  | cons x xs ih =>
    by_cases hx : x.type ∈ new
    · obtain ⟨d, hd, hda⟩ := h x.type hx
      have hdc : ∀ t ∈ new, ∃ d', (dc.set x.type (extend e.returnIndex d [x])) t = some d' ∧ d'.idxArr = false := by
        intro t ht
        by_cases htx : t = x.type
        · exact ⟨extend e.returnIndex d [x], by simp [Cache.set_apply, htx], by simpa using hda⟩
        · obtain ⟨d', hd', hd'a⟩ := h t ht
          exact ⟨d', by simp [Cache.set_apply, htx, hd'], hd'a⟩
      obtain ⟨dc', h1, h2⟩ := ih _ hdc
      refine ⟨dc', ?_, fun u => ?_⟩
      · simp [storeAll, hv, hx, hd, addMessage_ok _ _ _ hda, h1]
      · rw [h2 u]
        by_cases hu : u ∈ new
        · simp only [hu, if_true, Cache.set_apply]
          by_cases hux : u = x.type
          · subst hux
            simp [hd, extend_cons]
          · have : (x.type == u) = false := by simpa using fun h => hux h.symm
            simp [hux, this]
        · have hux : u ≠ x.type := fun h => hu (h ▸ hx)
          simp [hu, Cache.set_apply, hux]
    · obtain ⟨dc', h1, h2⟩ := ih dc h
      refine ⟨dc', ?_, fun u => ?_⟩
      · simp [storeAll, hv, hx, h1]
      · rw [h2 u]
        by_cases hu : u ∈ new
        · have hux : (x.type == u) = false := by
            simp only [beq_eq_false_iff_ne, ne_eq]
            intro h'; exact hx (h' ▸ hu)
          simp [hu, hux]
        · simp [hu]

theorem storeOrdered_ok (e : Eff) (l : List Entry) (d : MData) (h : d.idxArr = false) :
    storeOrdered e d l = .ok (extend e.returnIndex d l) := by
  induction l generalizing d with
  | nil => simp [storeOrdered, extend_nil]
  | cons x xs ih =>
    simp [storeOrdered, addMessage_ok _ _ _ h, ih (extend e.returnIndex d [x]) (by simpa using h), extend_cons]

/-! ### The stored selection does not depend on which types are served from the cache -/

theorem neededOf_nil (reg : Reg) (e : Eff) : neededOf reg e [] = [] := by
  simp only [neededOf, neededAfterRequire, List.filter_nil]
  split
  · rfl
  · split
    · rfl
    · split <;> rfl

theorem sysReqOf_nil (reg : Reg) (e : Eff) : sysReqOf reg e [] = false := by
  simp [sysReqOf, neededOf_nil]

/-- The selection with `system_time_messages_requested = False`. -/
def sel0 (reg : Reg) (rd : Reader) (log : List Entry) (e : Eff) : List Entry :=
  selected Variant.current reg rd log e []

theorem sysReq_true_cases {reg : Reg} (hd : reg.Disjoint) {e : Eff} {N : List Nat}
    (h : sysReqOf reg e N = true) : e.requireP1 = false ∨ e.requireSys = true := by
  by_cases h1 : e.requireP1 = true
  · by_cases h2 : e.requireSys = true
    · exact Or.inr h2
    · exfalso
      simp only [Bool.not_eq_true] at h2
      simp only [sysReqOf, neededOf, neededAfterRequire, h1, h2, Bool.and_false, Bool.false_eq_true, if_false,
        if_true, List.any_eq_true, List.mem_filter] at h
      obtain ⟨t, ⟨_, hp⟩, hs⟩ := h
      rw [hd t hp] at hs
      exact Bool.false_ne_true hs
  · exact Or.inl (by simpa using h1)

theorem readOk_false_of_both {reg : Reg} (hd : reg.Disjoint) (rd : Reader) (log : List Entry) {e : Eff}
    (h1 : e.requireP1 = true) (h2 : e.requireSys = true) (x : Entry) : readOk reg rd log e x = false := by
  simp only [readOk, h1, h2, Bool.not_true, Bool.false_or]
  cases hp : reg.hasP1 x.type
  · simp
  · simp [hd _ hp]

theorem stored_nil (v : Variant) (e : Eff) (b : Bool) : stored v e b [] = [] := by
  unfold stored
  split
  · rfl
  · split <;> simp

theorem selected_indep {reg : Reg} (hd : reg.Disjoint) (rd : Reader) (log : List Entry) (e : Eff) (N : List Nat) :
    selected Variant.current reg rd log e N = sel0 reg rd log e := by
  unfold sel0 selected
  rw [sysReqOf_nil]
  cases hb : sysReqOf reg e N
  · rfl
  · rcases sysReq_true_cases hd hb with h1 | h2
    · simp [stream, indexFiltered, sliceApplied, Variant.current, h1]
    · by_cases h1 : e.requireP1 = true
      · have hf : ∀ l : List Entry, l.filter (readOk reg rd log e) = [] := by
          intro l
          simp [List.filter_eq_nil_iff, readOk_false_of_both hd rd log h1 h2]
        simp [stream, sliceApplied, Variant.current, h1, h2, hf, stored_nil]
      · simp only [Bool.not_eq_true] at h1
        simp [stream, indexFiltered, sliceApplied, Variant.current, h1]

/-! ### Closed form of an entry created by a call -/

/-- The entry of type `t` after the storing loop. -/
def baseEntry (p : Params) (ri : Bool) (sel : List Entry) (t : Nat) : MData :=
  extend ri (MData.fresh p) (sel.filter (fun x => x.type == t))

/-- ... after `time_align_data` over all requested types (each entry being `base u`). -/
def alignedEntry (reg : Reg) (e : Eff) (base : Nat → MData) (t : Nat) : MData :=
  if e.align != Align.none then
    (if participates reg e.alignedTypes t then
       alignOne e.align (timeSetOf reg e.align e.alignedTypes (e.types.map (fun u => (u, base u)))) t (base t)
     else base t)
  else base t

/-- ... after the numpy conversion. -/
def numpyEntry (reg : Reg) (e : Eff) (t : Nat) (d : MData) : MData :=
  if e.numpy then toNumpy reg e.removeNan e.keepMessages e.returnIndex t d else d

/-- What a call with effective arguments `e` (parameters `p`) stores and returns for a type it reads. -/
def entryOf (reg : Reg) (rd : Reader) (log : List Entry) (e : Eff) (p : Params) (t : Nat) : MData :=
  numpyEntry reg e t (alignedEntry reg e (baseEntry p e.returnIndex (sel0 reg rd log e)) t)

theorem alignDict_map (reg : Reg) (mode : Align) (al : Option (List Nat)) (ts : List Nat) (base : Nat → MData) :
    alignDict reg mode al (ts.map (fun u => (u, base u))) =
      ts.map (fun u => (u, if participates reg al u then
        alignOne mode (timeSetOf reg mode al (ts.map (fun u => (u, base u)))) u (base u) else base u)) := by
  simp only [alignDict, List.map_map]
  apply List.map_congr_left
  intro u _
  simp only [Function.comp]
  split <;> rfl

theorem numpyDict_map (reg : Reg) (e : Eff) (N ts : List Nat) (f : Nat → MData) :
    numpyDict reg e true N (ts.map (fun u => (u, f u))) =
      ts.map (fun u => (u, if u ∈ N then toNumpy reg e.removeNan e.keepMessages e.returnIndex u (f u) else f u)) := by
  simp only [numpyDict, List.map_map]
  apply List.map_congr_left
  intro u _
  simp only [Function.comp, Bool.true_and]
  by_cases h : u ∈ N <;> simp [h]

/-! ### Nothing to read -/

theorem mem_stored {v : Variant} {e : Eff} {b : Bool} {s : List Entry} {x : Entry} (h : x ∈ stored v e b s) : x ∈ s := by
  unfold stored at h
  split at h
  · exact h
  · split at h
    · split at h
      · exact List.mem_of_mem_drop h
      · exact List.mem_of_mem_take (List.mem_of_mem_drop h)
    · exact List.mem_of_mem_take h

theorem mem_stream {v : Variant} {reg : Reg} {rd : Reader} {log : List Entry} {e : Eff} {b : Bool} {x : Entry}
    (h : x ∈ stream v reg rd log e b) : readOk reg rd log e x = true := by
  unfold stream at h
  exact (List.mem_filter.1 h).2

theorem mem_sel0 {reg : Reg} {rd : Reader} {log : List Entry} {e : Eff} {x : Entry}
    (h : x ∈ sel0 reg rd log e) : readOk reg rd log e x = true :=
  mem_stream (mem_stored h)

theorem mem_neededOf {reg : Reg} {e : Eff} {N : List Nat} {t : Nat} (ht : t ∈ N) (hk : reg.known t = true)
    (h1 : e.requireP1 = true → reg.hasP1 t = true) (h2 : e.requireSys = true → reg.hasSys t = true) :
    t ∈ neededOf reg e N := by
  have h0 : t ∈ N.filter reg.known := List.mem_filter.2 ⟨ht, hk⟩
  unfold neededOf neededAfterRequire
  split
  · rename_i hc
    simp only [Bool.and_eq_true] at hc
    exact List.mem_filter.2 ⟨h0, by simp [h1 hc.1]⟩
  · split
    · rename_i hc
      exact List.mem_filter.2 ⟨h0, h1 hc⟩
    · split
      · rename_i hc
        exact List.mem_filter.2 ⟨h0, h2 hc⟩
      · exact h0

theorem sel0_filter_nil {reg : Reg} {rd : Reader} {log : List Entry} {e : Eff} {N : List Nat}
    (hemp : (neededOf reg e N).isEmpty = true) {t : Nat} (ht : t ∈ N) :
    (sel0 reg rd log e).filter (fun x => x.type == t) = [] := by
  rw [List.filter_eq_nil_iff]
  intro x hx hxt
  have hr := mem_sel0 hx
  have hxt' : x.type = t := by simpa using hxt
  simp only [readOk, Bool.and_eq_true, Bool.or_eq_true, Bool.not_eq_true'] at hr
  obtain ⟨⟨⟨_, hp⟩, hs⟩, hk⟩ := hr
  have : t ∈ neededOf reg e N := by
    apply mem_neededOf ht (hxt' ▸ hk)
    · intro h; rcases hp with hp | hp
      · rw [h] at hp; exact absurd hp (by simp)
      · exact hxt' ▸ hp
    · intro h; rcases hs with hs | hs
      · rw [h] at hs; exact absurd hs (by simp)
      · exact hxt' ▸ hs
  rw [List.isEmpty_iff] at hemp
  rw [hemp] at this
  exact absurd this (by simp)

theorem baseEntry_of_nil (p : Params) (ri : Bool) (sel : List Entry) (t : Nat)
    (h : sel.filter (fun x => x.type == t) = []) : baseEntry p ri sel t = MData.fresh p := by
  simp [baseEntry, h, extend_nil]

theorem sortUniq_nil : sortUniq [] = [] := by simp [sortUniq]

theorem alignOne_empty (mode : Align) (ts : List Int) (t : Nat) (d : MData) (hd : d.msgs = [])
    (hts : mode = Align.insert → ts = []) : alignOne mode ts t d = d := by
  cases d with
  | mk pa ms ix ar ia =>
    simp only at hd
    subst hd
    cases mode with
    | none => rfl
    | drop => simp [alignOne, firstAt]
    | insert => simp [alignOne, hts rfl]

theorem timeSetOf_insert_empty (reg : Reg) (al : Option (List Nat)) (l : List (Nat × MData))
    (h : ∀ td ∈ l, td.2.msgs = []) : timeSetOf reg Align.insert al l = [] := by
  simp only [timeSetOf]
  have : ((l.filter (fun td => participates reg al td.1)).map (fun td => timesOf td.2.msgs)).flatten = [] := by
    rw [List.flatten_eq_nil_iff]
    intro x hx
    obtain ⟨td, htd, rfl⟩ := List.mem_map.1 hx
    rw [h td (List.mem_filter.1 htd).1]
    rfl
  rw [this, sortUniq_nil]

theorem alignedEntry_empty (reg : Reg) (e : Eff) (base : Nat → MData) (t : Nat)
    (h : ∀ u ∈ e.types, (base u).msgs = []) (ht : t ∈ e.types) : alignedEntry reg e base t = base t := by
  unfold alignedEntry
  split
  · split
    · apply alignOne_empty _ _ _ _ (h t ht)
      intro hm
      rw [hm]
      apply timeSetOf_insert_empty
      intro td htd
      obtain ⟨u, hu, rfl⟩ := List.mem_map.1 htd
      exact h u hu
    · rfl
  · rfl

/-! ### One call, in closed form -/

theorem across_of_align {e : Eff} (h : (e.align != Align.none) = true) : e.across = true := by
  simp [Eff.across, h]

/-- Post-processing when every requested type was read by this call. -/
theorem postDict_all (reg : Reg) (e : Eff) (base : Nat → MData) :
    postDict Variant.current reg e e.types (e.types.map (fun u => (u, base u))) =
      e.types.map (fun u => (u, numpyEntry reg e u (alignedEntry reg e base u))) := by
  unfold postDict
  by_cases hn : e.numpy = true
  · simp only [hn, if_true, Variant.current]
    by_cases ha : (e.align != Align.none) = true
    · simp only [ha, if_true]
      rw [alignDict_map, numpyDict_map]
      apply List.map_congr_left
      intro u hu
      simp [numpyEntry, alignedEntry, hn, ha, hu]
    · simp only [ha, Bool.false_eq_true, if_false]
      rw [numpyDict_map]
      apply List.map_congr_left
      intro u hu
      simp [numpyEntry, alignedEntry, hn, ha, hu]
  · simp only [hn]
    by_cases ha : (e.align != Align.none) = true
    · simp only [ha, if_true]
      rw [alignDict_map]
      apply List.map_congr_left
      intro u hu
      simp [numpyEntry, alignedEntry, hn, ha]
    · simp only [ha]
      apply List.map_congr_left
      intro u hu
      simp [numpyEntry, alignedEntry, hn, ha]

/-- Post-processing without alignment: only the entries created by this call are converted. -/
theorem postDict_noalign (reg : Reg) (e : Eff) (N ts : List Nat) (f : Nat → MData)
    (ha : (e.align != Align.none) = false) :
    postDict Variant.current reg e N (ts.map (fun u => (u, f u))) =
      ts.map (fun u => (u, if u ∈ N then numpyEntry reg e u (f u) else f u)) := by
  unfold postDict
  by_cases hn : e.numpy = true
  · simp only [hn, if_true, Variant.current, ha, Bool.false_eq_true, if_false]
    rw [numpyDict_map]
    apply List.map_congr_left
    intro u hu
    simp [numpyEntry, hn]
  · simp only [hn, ha]
    apply List.map_congr_left
    intro u hu
    simp [numpyEntry, hn]

theorem entryOf_noalign (reg : Reg) (rd : Reader) (log : List Entry) (e : Eff) (p : Params) (t : Nat)
    (ha : (e.align != Align.none) = false) :
    entryOf reg rd log e p t = numpyEntry reg e t (baseEntry p e.returnIndex (sel0 reg rd log e) t) := by
  simp [entryOf, alignedEntry, ha]

/-- Entries of a call that found nothing to read. -/
theorem entryOf_nothing {reg : Reg} {rd : Reader} {log : List Entry} {e : Eff} (p : Params) {N : List Nat}
    (hemp : (neededOf reg e N).isEmpty = true) (hsub : ∀ t ∈ N, t ∈ e.types)
    (hall : e.across = true → N = e.types ∨ N = []) {t : Nat} (ht : t ∈ N) :
    entryOf reg rd log e p t = numpyEntry reg e t (MData.fresh p) := by
  have hb : baseEntry p e.returnIndex (sel0 reg rd log e) t = MData.fresh p :=
    baseEntry_of_nil _ _ _ _ (sel0_filter_nil hemp ht)
  by_cases ha : (e.align != Align.none) = true
  · have hN : N = e.types := by
      rcases hall (across_of_align ha) with h | h
      · exact h
      · rw [h] at ht; exact absurd ht (by simp)
    have hall' : ∀ u ∈ e.types, (baseEntry p e.returnIndex (sel0 reg rd log e) u).msgs = [] := by
      intro u hu
      rw [baseEntry_of_nil _ _ _ _ (sel0_filter_nil hemp (hN ▸ hu))]
      rfl
    simp only [entryOf]
    rw [alignedEntry_empty reg e _ t hall' (hsub t ht), hb]
  · simp only [Bool.not_eq_true] at ha
    rw [entryOf_noalign _ _ _ _ _ _ ha, hb]

/-- What the call returns for type `t`: a newly read entry, or the cached one. -/
def resultEntry (reg : Reg) (rd : Reader) (log : List Entry) (e : Eff) (p : Params) (N : List Nat) (g : Nat → MData)
    (t : Nat) : MData :=
  if t ∈ N then entryOf reg rd log e p t else g t

/-- The dict-returning path in closed form: the types in `N` get `entryOf`, the others keep their
cached entry `g t`; nothing raises; no other cache entry changes. -/
theorem readDict_current {reg : Reg} (hd : reg.Disjoint) (rd : Reader) (log : List Entry) (dc0 : Cache)
    (out : Cache → Cache) (e : Eff) (p : Params) (N : List Nat) (g : Nat → MData)
    (hsub : ∀ t ∈ N, t ∈ e.types)
    (hhit : ∀ t ∈ e.types, t ∉ N → dc0 t = some (g t))
    (hall : e.across = true → N = e.types ∨ N = []) :
    readDict Variant.current reg rd log dc0 out e p N =
      .ok (out (fun u => if u ∈ e.types then some (resultEntry reg rd log e p N g u) else dc0 u),
           Result.dict (e.types.map (fun t => (t, resultEntry reg rd log e p N g t)))) := by
  have hdc1 : ∀ u, createEntries p dc0 N u = if u ∈ N then some (MData.fresh p) else dc0 u :=
    createEntries_apply p N dc0
  have hl0 : lookupAll (createEntries p dc0 N) e.types =
      .ok (e.types.map (fun t => (t, if t ∈ N then MData.fresh p else g t))) := by
    apply lookupAll_map
    intro t ht
    rw [hdc1]
    by_cases h : t ∈ N
    · simp [h]
    · simp [h, hhit t ht h]
  unfold readDict
  rw [hl0]
  simp only
  by_cases hemp : (neededOf reg e N).isEmpty = true
  · -- nothing to read
    simp only [hemp, if_true]
    have hent : ∀ t ∈ N, entryOf reg rd log e p t = numpyEntry reg e t (MData.fresh p) :=
      fun t ht => entryOf_nothing p hemp hsub hall ht
    by_cases hn : e.numpy = true
    · simp only [Variant.current, hn, Bool.and_self, if_true]
      rw [numpyDict_map]
      have hmap : (e.types.map (fun u => (u, if u ∈ N then
            toNumpy reg e.removeNan e.keepMessages e.returnIndex u (if u ∈ N then MData.fresh p else g u)
            else (if u ∈ N then MData.fresh p else g u)))) =
          e.types.map (fun t => (t, resultEntry reg rd log e p N g t)) := by
        apply List.map_congr_left
        intro u _
        by_cases h : u ∈ N
        · simp [resultEntry, h, hent u h, numpyEntry, hn]
        · simp [resultEntry, h]
      rw [hmap]
      congr 2
      congr 1
      funext u
      rw [writeBack_map, hdc1]
      by_cases h1 : u ∈ e.types
      · simp [h1]
      · have h2 : u ∉ N := fun h => h1 (hsub u h)
        simp [h1, h2]
    · simp only [Variant.current, hn, Bool.and_false, Bool.false_eq_true, if_false]
      have hmap : (e.types.map (fun t => (t, if t ∈ N then MData.fresh p else g t))) =
          e.types.map (fun t => (t, resultEntry reg rd log e p N g t)) := by
        apply List.map_congr_left
        intro u _
        by_cases h : u ∈ N
        · simp [resultEntry, h, hent u h, numpyEntry, hn]
        · simp [resultEntry, h]
      rw [hmap]
      congr 2
      congr 1
      funext u
      rw [hdc1]
      by_cases h1 : u ∈ e.types
      · by_cases h2 : u ∈ N
        · simp [h1, h2, resultEntry, hent u h2, numpyEntry, hn]
        · simp [h1, h2, resultEntry, hhit u h1 h2]
      · have h2 : u ∉ N := fun h => h1 (hsub u h)
        simp [h1, h2]
  · -- the reading loop runs
    simp only [hemp, Bool.false_eq_true, if_false]
    have hfresh : ∀ t ∈ N, ∃ d, createEntries p dc0 N t = some d ∧ d.idxArr = false := by
      intro t ht
      exact ⟨MData.fresh p, by rw [hdc1]; simp [ht], rfl⟩
    obtain ⟨dc2, hs1, hs2⟩ := storeAll_newOnly Variant.current rfl e N
      (selected Variant.current reg rd log e N) (createEntries p dc0 N) hfresh
    rw [hs1]
    simp only
    rw [selected_indep hd] at hs2
    have hdc2 : ∀ u, dc2 u = if u ∈ N then some (baseEntry p e.returnIndex (sel0 reg rd log e) u) else dc0 u := by
      intro u
      rw [hs2 u, hdc1]
      by_cases h : u ∈ N
      · simp [h, baseEntry]
      · simp [h]
    have hl1 : lookupAll dc2 e.types =
        .ok (e.types.map (fun t => (t, if t ∈ N then baseEntry p e.returnIndex (sel0 reg rd log e) t else g t))) := by
      apply lookupAll_map
      intro t ht
      rw [hdc2]
      by_cases h : t ∈ N
      · simp [h]
      · simp [h, hhit t ht h]
    rw [hl1]
    simp only
    have hpost : postDict Variant.current reg e N
        (e.types.map (fun t => (t, if t ∈ N then baseEntry p e.returnIndex (sel0 reg rd log e) t else g t))) =
        e.types.map (fun t => (t, resultEntry reg rd log e p N g t)) := by
      by_cases ha : (e.align != Align.none) = true
      · have hN : N = e.types := by
          rcases hall (across_of_align ha) with h | h
          · exact h
          · exfalso
            rw [h, neededOf_nil] at hemp
            exact hemp rfl
        have hm : (e.types.map (fun t => (t, if t ∈ N then baseEntry p e.returnIndex (sel0 reg rd log e) t else g t))) =
            e.types.map (fun t => (t, baseEntry p e.returnIndex (sel0 reg rd log e) t)) := by
          apply List.map_congr_left
          intro u hu
          simp [hN, hu]
        rw [hm, hN, postDict_all]
        apply List.map_congr_left
        intro u hu
        simp [resultEntry, hu, entryOf]
      · simp only [Bool.not_eq_true] at ha
        rw [postDict_noalign _ _ _ _ _ ha]
        apply List.map_congr_left
        intro u hu
        by_cases h : u ∈ N
        · simp [resultEntry, h, entryOf_noalign _ _ _ _ _ _ ha]
        · simp [resultEntry, h]
    rw [hpost]
    congr 2
    congr 1
    funext u
    rw [writeBack_map, hdc2]
    by_cases h1 : u ∈ e.types
    · simp [h1]
    · have h2 : u ∉ N := fun h => h1 (hsub u h)
      simp [h1, h2]

/-! ### The parameters determine the entry -/

/-- The effective arguments of a (not in-order) call, recovered from its `params` and type set. -/
def effP (p : Params) (T : List Nat) : Eff :=
  { types := T, timeRange := p.timeRange, srcs := p.sourceIds, maxMessages := p.maxMessages,
    requireP1 := p.requireP1, requireSys := p.requireSys, returnIndex := p.returnIndex,
    numpy := p.returnNumpy, keepMessages := p.keepMessages, removeNan := p.removeNan,
    align := p.align, alignedTypes := p.alignedTypes }

theorem effP_mkParams (reg : Reg) (rd : Reader) (log : List Entry) (a : Args) (h : a.inOrder = false) :
    effP (mkParams Variant.current a (eff reg rd log a)) (eff reg rd log a).types = eff reg rd log a := by
  simp [effP, mkParams, eff, Variant.current, h]

theorem mkParams_types (a : Args) (e : Eff) :
    (mkParams Variant.current a e).messageTypes = if e.across then some e.types else none := by
  simp [mkParams, Variant.current]

theorem across_effP (p : Params) (T T' : List Nat) : (effP p T).across = (effP p T').across := rfl

@[simp] theorem convert_params (reg : Reg) (a : Bool) (t : Nat) (d : MData) : (convert reg a t d).params = d.params := by
  unfold convert; split <;> rfl

@[simp] theorem dropMsgs_params (a : Bool) (d : MData) : (dropMsgs a d).params = d.params := by
  unfold dropMsgs; split <;> rfl

@[simp] theorem dropIdx_params (a : Bool) (d : MData) : (dropIdx a d).params = d.params := by
  unfold dropIdx; split <;> rfl

@[simp] theorem toNumpy_params (reg : Reg) (a b c : Bool) (t : Nat) (d : MData) :
    (toNumpy reg a b c t d).params = d.params := by
  unfold toNumpy
  split
  · rfl
  · split <;> simp

@[simp] theorem alignOne_params (mode : Align) (ts : List Int) (t : Nat) (d : MData) :
    (alignOne mode ts t d).params = d.params := by
  cases mode <;> rfl

theorem entryOf_params (reg : Reg) (rd : Reader) (log : List Entry) (e : Eff) (p : Params) (t : Nat) :
    (entryOf reg rd log e p t).params = p := by
  unfold entryOf numpyEntry alignedEntry baseEntry
  split <;> split <;> (try split) <;> simp [MData.fresh]

/-- Without `max_messages` and alignment, the messages of type `t` that a call stores do not depend on
which other types were requested. -/
theorem sel0_filter_indep (reg : Reg) (rd : Reader) (log : List Entry) (e : Eff) (t : Nat)
    (hm : e.maxMessages = none) (ht : t ∈ e.types) :
    (sel0 reg rd log e).filter (fun x => x.type == t) =
      (((if e.requireP1 && rd.dropsUntimed then (rd.timeSel e.timeRange log).filter (fun x => x.time.isSome)
         else rd.timeSel e.timeRange log).filter (readOk reg rd log e))).filter (fun x => x.type == t) := by
  unfold sel0 selected stored stream sliceApplied indexFiltered
  simp only [hm, sysReqOf_nil, Option.isSome_none, Bool.false_and, Bool.false_eq_true, if_false, Bool.not_false,
    Bool.and_true]
  split
  · simp only [List.filter_filter]
    apply List.filter_congr
    intro x _
    by_cases hx : x.type = t
    · subst hx
      simp [ht]
    · have : (x.type == t) = false := by simpa using hx
      simp [this]
  · simp only [List.filter_filter]
    apply List.filter_congr
    intro x _
    by_cases hx : x.type = t
    · subst hx
      simp [ht]
    · have : (x.type == t) = false := by simpa using hx
      simp [this]

theorem entryOf_indep (reg : Reg) (rd : Reader) (log : List Entry) (p : Params) (T T' : List Nat) (t : Nat)
    (hac : (effP p T).across = false) (ht : t ∈ T) (ht' : t ∈ T') :
    entryOf reg rd log (effP p T) p t = entryOf reg rd log (effP p T') p t := by
  have hm : p.maxMessages = none := by
    simp only [Eff.across, effP, Bool.or_eq_false_iff] at hac
    cases h : p.maxMessages with
    | none => rfl
    | some n => rw [h] at hac; simp at hac
  have ha : ∀ T0, ((effP p T0).align != Align.none) = false := by
    intro T0
    simp only [Eff.across, effP, Bool.or_eq_false_iff] at hac
    exact hac.2
  rw [entryOf_noalign _ _ _ _ _ _ (ha T), entryOf_noalign _ _ _ _ _ _ (ha T')]
  have h1 := sel0_filter_indep reg rd log (effP p T) t hm ht
  have h2 := sel0_filter_indep reg rd log (effP p T') t hm ht'
  simp only [baseEntry, h1, h2]
  rfl

/-! ### The cache invariant -/

/-- A cached entry is what a call with its stored parameters reads for that type: for some type set
`T` containing `t` — the stored one when the parameters carry it, any otherwise. -/
def Good (reg : Reg) (rd : Reader) (log : List Entry) (t : Nat) (d : MData) : Prop :=
  ∃ T, t ∈ T ∧ d = entryOf reg rd log (effP d.params T) d.params t ∧
    d.params.messageTypes = if (effP d.params T).across then some T else none

def Inv (reg : Reg) (rd : Reader) (log : List Entry) (c : Cache) : Prop :=
  ∀ t d, c t = some d → Good reg rd log t d

theorem Inv_empty (reg : Reg) (rd : Reader) (log : List Entry) : Inv reg rd log Cache.empty := by
  intro t d h
  simp [Cache.empty] at h

/-- A cache hit returns what the current call would read itself. -/
theorem good_hit {reg : Reg} {rd : Reader} {log : List Entry} {t : Nat} {d : MData} {p : Params} {T : List Nat}
    (hg : Good reg rd log t d) (hp : d.params = p) (ht : t ∈ T)
    (hmt : p.messageTypes = if (effP p T).across then some T else none) :
    d = entryOf reg rd log (effP p T) p t := by
  obtain ⟨T0, ht0, hd, hm0⟩ := hg
  rw [hp] at hd hm0
  rw [across_effP p T0 T] at hm0
  by_cases hac : (effP p T).across = true
  · rw [hac] at hm0 hmt
    rw [hmt] at hm0
    simp only [if_true, Option.some.injEq] at hm0
    rw [hd, hm0]
  · simp only [Bool.not_eq_true] at hac
    rw [hd]
    exact entryOf_indep reg rd log p T0 T t ((across_effP p T0 T).trans hac) ht0 ht

theorem mem_missesOf {c : Cache} {p : Params} {ts : List Nat} {t : Nat} :
    t ∈ missesOf c p ts ↔ t ∈ ts ∧ ∀ d, c t = some d → d.params ≠ p := by
  simp only [missesOf, List.mem_filter]
  constructor
  · rintro ⟨h1, h2⟩
    refine ⟨h1, fun d hd => ?_⟩
    rw [hd] at h2
    simpa using h2
  · rintro ⟨h1, h2⟩
    refine ⟨h1, ?_⟩
    cases hc : c t with
    | none => rfl
    | some d => simpa using h2 d hc

/-- The value of a call on `Variant.current`, as a function of the call alone. -/
def resultOf (reg : Reg) (rd : Reader) (log : List Entry) (a : Args) : Result :=
  if a.inOrder then
    Result.ordered
      (if (neededOf reg (eff reg rd log a) (eff reg rd log a).types).isEmpty then
         MData.fresh (mkParams Variant.current a (eff reg rd log a))
       else extend (eff reg rd log a).returnIndex (MData.fresh (mkParams Variant.current a (eff reg rd log a)))
         (selected Variant.current reg rd log (eff reg rd log a) (eff reg rd log a).types))
  else
    Result.dict ((eff reg rd log a).types.map (fun t =>
      (t, entryOf reg rd log (eff reg rd log a) (mkParams Variant.current a (eff reg rd log a)) t)))

/-- One call from a cache satisfying the invariant: it does not raise, returns `resultOf` (which does
not mention the cache), and re-establishes the invariant. -/
theorem read_current {reg : Reg} (hd : reg.Disjoint) (rd : Reader) (log : List Entry) (c : Cache) (a : Args)
    (hinv : Inv reg rd log c) :
    ∃ c', read Variant.current reg rd log c a = .ok (c', resultOf reg rd log a) ∧ Inv reg rd log c' := by
  unfold read resultOf
  by_cases hio : a.inOrder = true
  · simp only [hio, if_true]
    refine ⟨c, ?_, hinv⟩
    unfold readOrdered
    split
    · rfl
    · rw [storeOrdered_ok _ _ _ rfl]
  · simp only [Bool.not_eq_true] at hio
    simp only [hio, Bool.false_eq_true, if_false]
    have heff := effP_mkParams reg rd log a hio
    have hmt := mkParams_types a (eff reg rd log a)
    by_cases hic : a.ignoreCache = true
    · simp only [hic, if_true]
      refine ⟨c, ?_, hinv⟩
      rw [readDict_current hd rd log Cache.empty (fun _ => c) _ _ _ (fun _ => MData.fresh (mkParams Variant.current a (eff reg rd log a)))
        (fun t h => h) (fun t h1 h2 => absurd h1 h2) (fun _ => Or.inl rfl)]
      congr 3
      apply List.map_congr_left
      intro t ht
      simp [resultEntry, ht]
    · simp only [hic, Bool.false_eq_true, if_false]
      -- abbreviations
      generalize hp : mkParams Variant.current a (eff reg rd log a) = p at *
      generalize he : eff reg rd log a = e at *
      have hsubN : ∀ t ∈ needed0Of Variant.current false e (missesOf c p e.types), t ∈ e.types := by
        intro t ht
        unfold needed0Of at ht
        simp only [Bool.false_eq_true, if_false] at ht
        split at ht
        · exact ht
        · exact (mem_missesOf.1 ht).1
      have hhit : ∀ t ∈ e.types, t ∉ needed0Of Variant.current false e (missesOf c p e.types) →
          c t = some (entryOf reg rd log e p t) := by
        intro t ht hn
        have hnm : t ∉ missesOf c p e.types := by
          intro hm
          apply hn
          unfold needed0Of
          simp only [Bool.false_eq_true, if_false]
          split
          · exact ht
          · exact hm
        rw [mem_missesOf] at hnm
        simp only [ht, true_and] at hnm
        have hex : ∃ d, c t = some d ∧ d.params = p := by
          cases hct : c t with
          | none => exact absurd (fun d hd => by rw [hct] at hd; cases hd) hnm
          | some d =>
            by_cases hdp : d.params = p
            · exact ⟨d, rfl, hdp⟩
            · exact absurd (fun d' hd' => by rw [hct] at hd'; cases hd'; exact hdp) hnm
        obtain ⟨d, hcd, hdp'⟩ := hex
        rw [hcd]
        congr 1
        have := good_hit (T := e.types) (hinv t d hcd) hdp' ht (by rw [heff]; exact hmt)
        rw [heff] at this
        exact this
      have hall : e.across = true → needed0Of Variant.current false e (missesOf c p e.types) = e.types ∨
          needed0Of Variant.current false e (missesOf c p e.types) = [] := by
        intro hac
        unfold needed0Of
        simp only [Bool.false_eq_true, if_false, Variant.current, hac, Bool.true_and]
        cases hm : missesOf c p e.types with
        | nil => right; simp
        | cons x xs => left; simp
      rw [readDict_current hd rd log c id e p _ (entryOf reg rd log e p) hsubN hhit hall]
      have hre : ∀ u, resultEntry reg rd log e p (needed0Of Variant.current false e (missesOf c p e.types))
          (entryOf reg rd log e p) u = entryOf reg rd log e p u := by
        intro u; simp [resultEntry]
      simp only [hre, id]
      refine ⟨fun u => if u ∈ e.types then some (entryOf reg rd log e p u) else c u, rfl, ?_⟩
      intro t d hcd
      by_cases ht : t ∈ e.types
      · simp only [ht, if_true, Option.some.injEq] at hcd
        subst hcd
        refine ⟨e.types, ht, ?_, ?_⟩
        · rw [entryOf_params, heff]
        · rw [entryOf_params, heff]; exact hmt
      · simp only [ht, if_false] at hcd
        exact hinv t d hcd

/-! ### The stored selection is the reader's stream cut to the first / last N -/

theorem mem_sliceN {α : Type} {n : Int} {l : List α} {x : α} (h : x ∈ sliceN n l) : x ∈ l := by
  unfold sliceN at h
  split at h
  · exact List.mem_of_mem_take h
  · exact List.mem_of_mem_drop h

theorem length_sliceN_le {α : Type} (n : Int) (l : List α) : (sliceN n l).length ≤ n.natAbs := by
  unfold sliceN
  split
  · simp only [List.length_take]; omega
  · simp only [List.length_drop]; omega

theorem take_sliceN {α : Type} (n : Int) (l : List α) : (sliceN n l).take n.natAbs = sliceN n l :=
  List.take_of_length_le (length_sliceN_le n l)

theorem extend_fresh (p : Params) (ri : Bool) (l : List Entry) : extend ri (MData.fresh p) l = specData p ri l := by
  cases ri <;> simp [extend, MData.fresh, specData]

/-- The stream without the index slice is the specified reader stream. -/
theorem stream_unsliced (reg : Reg) (rd : Reader) (log : List Entry) (e : Eff) :
    (indexFiltered rd log e false).filter (readOk reg rd log e) = specStream reg rd log e := by
  simp [indexFiltered, specStream]

theorem sel0_eq_spec (reg : Reg) (rd : Reader) (log : List Entry) (e : Eff)
    (hs : ∀ n, e.maxMessages = some n → n < 0 → ∀ x ∈ rd.timeSel e.timeRange log, x.src ∈ rd.available log)
    (hk : ∀ t ∈ e.types, reg.known t = true) :
    sel0 reg rd log e = specSelected reg rd log e := by
  unfold sel0 selected specSelected
  rw [sysReqOf_nil]
  cases hm : e.maxMessages with
  | none =>
    simp only [stored, stream, sliceApplied, hm, Option.isSome_none, Bool.false_and, Bool.false_eq_true, if_false]
    exact stream_unsliced reg rd log e
  | some n =>
    by_cases hsl : sliceApplied Variant.current rd log e false = true
    · -- the index was cut: nothing is tested at read time
      have hsl' := hsl
      simp only [sliceApplied, hm, Variant.current, Option.isSome_some, Bool.true_and, if_true, Bool.and_eq_true,
        Bool.not_eq_true', beq_iff_eq, Bool.not_true, Bool.false_or, nonPos, decide_eq_true_eq] at hsl'
      obtain ⟨⟨⟨h1, h2⟩, h3⟩, h4⟩ := hsl'
      by_cases hz : n = 0
      · -- N = 0: the index is cut to nothing, and nothing is what the specification asks for
        subst hz
        simp [stream, hsl, hm, stored, sliceN]
      have hneg : n < 0 := by omega
      have hall : ∀ x ∈ (rd.timeSel e.timeRange log).filter (fun x => e.types.contains x.type),
          readOk reg rd log e x = true := by
        intro x hx
        obtain ⟨hx1, hx2⟩ := List.mem_filter.1 hx
        have hx2' : x.type ∈ e.types := by simpa using hx2
        simp [readOk, requestedSrcs, h1, h2, h3, hk _ hx2', hs n hm hneg x hx1]
      have hidx : indexFiltered rd log e false =
          (rd.timeSel e.timeRange log).filter (fun x => e.types.contains x.type) := by
        simp [indexFiltered, h1]
      have hspec : specStream reg rd log e =
          (rd.timeSel e.timeRange log).filter (fun x => e.types.contains x.type) := by
        simp only [specStream, h1, Bool.false_and, Bool.false_eq_true, if_false]
        exact List.filter_eq_self.2 hall
      have hstream : stream Variant.current reg rd log e false =
          sliceN n ((rd.timeSel e.timeRange log).filter (fun x => e.types.contains x.type)) := by
        simp only [stream, hsl, if_true, hm, hidx]
        exact List.filter_eq_self.2 (fun x hx => hall x (mem_sliceN hx))
      rw [hstream, hspec]
      simp only [stored, hm, hsl, Bool.not_true, Bool.and_false, Bool.false_eq_true, if_false]
      exact take_sliceN n _
    · simp only [Bool.not_eq_true] at hsl
      have hstream : stream Variant.current reg rd log e false = specStream reg rd log e := by
        simp only [stream, hsl, Bool.false_eq_true, if_false]
        exact stream_unsliced reg rd log e
      rw [hstream]
      simp only [stored, hm, Variant.current, if_true, sliceN]
      have hsl2 : sliceApplied ⟨true, true, true, true, true, true, true⟩ rd log e false = false := hsl
      rw [hsl2]
      by_cases hn : n < 0
      · have : ¬ (0 ≤ n) := by omega
        simp [hn, this]
      · have h0 : 0 ≤ n := by omega
        have : n.natAbs = n.toNat := by omega
        simp [hn, h0, this]

theorem mem_sel0_type {reg : Reg} {rd : Reader} {log : List Entry} {e : Eff} {x : Entry}
    (h : x ∈ sel0 reg rd log e) : x.type ∈ e.types := by
  have h1 := mem_stored h
  unfold stream at h1
  have h2 := (List.mem_filter.1 h1).1
  have h3 : x ∈ indexFiltered rd log e (sysReqOf reg e []) := by
    split at h2
    · split at h2
      · exact mem_sliceN h2
      · exact h2
    · exact h2
  unfold indexFiltered at h3
  split at h3
  · simpa using (List.mem_filter.1 (List.mem_filter.1 h3).1).2
  · simpa using (List.mem_filter.1 h3).2

theorem sel0_nil_of_nothing {reg : Reg} {rd : Reader} {log : List Entry} {e : Eff}
    (hemp : (neededOf reg e e.types).isEmpty = true) : sel0 reg rd log e = [] := by
  rw [List.eq_nil_iff_forall_not_mem]
  intro x hx
  have h := sel0_filter_nil (rd := rd) (log := log) hemp (mem_sel0_type hx)
  rw [List.filter_eq_nil_iff] at h
  exact h x hx (by simp)

/-- `resultOf` is the specification of a fresh read. -/
theorem resultOf_eq_spec {reg : Reg} (hd : reg.Disjoint) (rd : Reader) (log : List Entry) (a : Args)
    (hs : ∀ n, a.maxMessages = some n → n < 0 → ∀ x ∈ rd.timeSel a.timeRange log, x.src ∈ rd.available log)
    (hk : ∀ t ∈ (eff reg rd log a).types, reg.known t = true) :
    resultOf reg rd log a = freshSpec reg rd log a := by
  have hsel := sel0_eq_spec reg rd log (eff reg rd log a) hs hk
  unfold resultOf freshSpec
  by_cases hio : a.inOrder = true
  · simp only [hio, if_true]
    congr 1
    rw [selected_indep hd, ← hsel]
    split
    · rename_i hemp
      rw [sel0_nil_of_nothing hemp, ← extend_fresh, extend_nil]
    · exact extend_fresh _ _ _
  · simp only [hio, Bool.false_eq_true, if_false]
    congr 1
    rw [postDict_all]
    apply List.map_congr_left
    intro t _
    simp only [entryOf, ← hsel]
    congr 2

end FeVerif.Loader
