/-
Helper lemmas for C16 (FeVerif/Props/C16.lean): lists of options, `stack`, transposition, masks, dictionaries.
-/
import FeVerif.Model.Numpy

namespace FeVerif.Numpy

/-! ### lists -/

theorem allSome_eq_some {α} : ∀ {l : List (Option α)} {xs : List α}, allSome l = some xs → l = xs.map some
  | [], xs, h => by simp [allSome] at h; subst h; rfl
  | Option.none :: _, _, h => by simp [allSome] at h
  | some x :: r, xs, h => by
    simp only [allSome] at h
    split at h
    · rename_i ys hy
      injection h with h; subst h
      simp [allSome_eq_some hy]
    · cases h

theorem scalars_eq_some : ∀ {vs : List Val} {xs : List Scalar}, scalars vs = some xs → vs = xs.map Val.s
  | [], xs, h => by simp [scalars] at h; subst h; rfl
  | v :: vs, xs, h => by
    cases v <;> simp only [scalars] at h <;> try cases h
    split at h
    · rename_i ys hy
      injection h with h; subst h
      simp [scalars_eq_some hy]
    · cases h

theorem vecs_eq_some (c : Nat) : ∀ {vs : List Val} {rows : List (List Scalar)}, vecs c vs = some rows →
    vs = rows.map Val.vec ∧ ∀ r ∈ rows, r.length = c
  | [], rows, h => by simp [vecs] at h; subst h; simp
  | v :: vs, rows, h => by
    cases v <;> simp only [vecs] at h <;> try cases h
    split at h
    · rename_i hl
      split at h
      · rename_i ys hy
        injection h with h; subst h
        have ih := vecs_eq_some c hy
        refine ⟨by simp [← ih.1], ?_⟩
        intro r hr
        rcases List.mem_cons.1 hr with h | h
        · subst h; exact hl
        · exact ih.2 r h
      · cases h
    · cases h

theorem mats_eq_some (r c : Nat) : ∀ {vs : List Val} {b : List (List (List Scalar))}, mats r c vs = some b →
    vs = b.map Val.mat ∧ ∀ m ∈ b, matOk r c m = true
  | [], b, h => by simp [mats] at h; subst h; simp
  | v :: vs, b, h => by
    cases v <;> simp only [mats] at h <;> try cases h
    split at h
    · rename_i hl
      split at h
      · rename_i ys hy
        injection h with h; subst h
        have ih := mats_eq_some r c hy
        refine ⟨by simp [← ih.1], ?_⟩
        intro m hm
        rcases List.mem_cons.1 hm with h | h
        · subst h; exact hl
        · exact ih.2 m h
      · cases h
    · cases h

theorem range_filterMap_getElem? {α} : ∀ (l : List α), (List.range l.length).filterMap (fun j => l[j]?) = l
  | [] => rfl
  | x :: xs => by
    rw [List.length_cons, List.range_succ_eq_map, List.filterMap_cons]
    simp only [List.getElem?_cons_zero, List.filterMap_map]
    congr 1
    have := range_filterMap_getElem? xs
    simpa [Function.comp_def] using this

theorem filterMap_congr' {α β} {f g : α → Option β} : ∀ {l : List α}, (∀ x ∈ l, f x = g x) →
    l.filterMap f = l.filterMap g
  | [], _ => rfl
  | x :: xs, h => by
    rw [List.filterMap_cons, List.filterMap_cons, h x (List.mem_cons_self ..),
      filterMap_congr' (fun z hz => h z (List.mem_cons_of_mem _ hz))]

theorem filterMap_getElem?_of_isSome {α β} (f : α → Option β) :
    ∀ (l : List α) (j : Nat), (∀ x ∈ l, (f x).isSome) → (l.filterMap f)[j]? = l[j]?.bind f
  | [], j, _ => by simp
  | x :: xs, j, h => by
    have hx := h x (List.mem_cons_self ..)
    obtain ⟨y, hy⟩ := Option.isSome_iff_exists.1 hx
    rw [List.filterMap_cons, hy]
    cases j with
    | zero => simp [hy]
    | succ j =>
      simp only [List.getElem?_cons_succ]
      exact filterMap_getElem?_of_isSome f xs j (fun z hz => h z (List.mem_cons_of_mem _ hz))

/-! ### stack / transposition -/

theorem stack_spec (vals : List Val) (h : stack vals ≠ .bad) :
    (stack vals).WF ∧ (stack vals).timeLen false = some vals.length ∧
    ∀ i, (stack vals).atTime false i = vals[i]? := by
  cases vals with
  | nil => simp [stack, Arr.WF, Arr.timeLen, Arr.atTime]
  | cons v vs =>
    cases v with
    | s x =>
      simp only [stack] at h ⊢
      split
      · rename_i xs hx
        have e := scalars_eq_some hx
        subst e
        refine ⟨trivial, by simp [Arr.timeLen], ?_⟩
        intro i
        cases i <;> simp [Arr.atTime]
      · rename_i hx; rw [hx] at h; exact absurd rfl h
    | vec xs =>
      simp only [stack] at h ⊢
      split
      · rename_i rows hx
        have e := vecs_eq_some _ hx
        rw [e.1]
        refine ⟨?_, by simp [Arr.timeLen], ?_⟩
        · intro r hr
          rcases List.mem_cons.1 hr with h | h
          · subst h; rfl
          · exact e.2 r h
        · intro i
          cases i <;> simp [Arr.atTime]
      · rename_i hx; rw [hx] at h; exact absurd rfl h
    | mat rows =>
      simp only [stack] at h ⊢
      split
      · exact absurd rfl h
      · rename_i row0 rest
        split
        · rename_i b hb
          have e := mats_eq_some _ _ hb
          refine ⟨e.2, ?_, ?_⟩
          · have := congrArg List.length e.1
            simp only [List.length_map] at this
            simp [Arr.timeLen, ← this]
          · intro i
            simp only [Arr.atTime]
            rw [e.1]; simp
        · rename_i hb
          simp only [hb] at h
          exact absurd rfl h
    | time b => exact absurd rfl h
    | other => exact absurd rfl h

theorem column_getElem? (rows : List (List Scalar)) (cols j : Nat) (hj : j < cols) (hwf : ∀ r ∈ rows, r.length = cols) :
    ∀ i : Nat, (column rows j)[i]? = rows[i]?.bind (fun (r : List Scalar) => r[j]?) := by
  unfold column
  intro i
  apply filterMap_getElem?_of_isSome
  intro r hr
  have : j < r.length := by have := hwf r hr; omega
  simp [this]

/-- transposing a well-formed `N×A` array gives `A×N` whose column `i` is row `i` -/
theorem transpose_spec (rows : List (List Scalar)) (cols : Nat) (hwf : ∀ r ∈ rows, r.length = cols) :
    (Arr.a2 rows cols).T.WF ∧ (Arr.a2 rows cols).T.timeLen true = some rows.length ∧
    ∀ i, (Arr.a2 rows cols).T.atTime true i = (Arr.a2 rows cols).atTime false i := by
  refine ⟨?_, rfl, ?_⟩
  · intro r hr
    simp only [transposeRows, List.mem_map, List.mem_range] at hr
    obtain ⟨j, hj, rfl⟩ := hr
    unfold column
    have : ∀ r ∈ rows, (fun r : List Scalar => r[j]?) r = some (r[j]?.getD default) := by
      intro r hr
      have := hwf r hr
      simp [List.getElem?_eq_getElem (show j < r.length by omega)]
    rw [filterMap_congr' this, List.filterMap_eq_map', List.length_map]
  · intro i
    simp only [Arr.T, Arr.atTime]
    by_cases hi : i < rows.length
    · rw [if_pos hi, List.getElem?_eq_getElem hi]
      simp only [Option.map_some]
      congr 2
      unfold column transposeRows
      rw [List.filterMap_map]
      have hc : ∀ j ∈ List.range cols,
          ((fun r : List Scalar => r[i]?) ∘ column rows) j = (fun j => (rows[i])[j]?) j := by
        intro j hj
        have hj' := List.mem_range.1 hj
        show (column rows j)[i]? = _
        rw [column_getElem? rows cols j hj' hwf i, List.getElem?_eq_getElem hi]; rfl
      rw [filterMap_congr' hc]
      have hl : (rows[i]).length = cols := hwf _ (List.getElem_mem hi)
      rw [← hl]
      exact range_filterMap_getElem? _
    · rw [if_neg hi, List.getElem?_eq_none (by omega)]; rfl

/-! ### masks -/

theorem filterMask_eq_kept {α} : ∀ (mask : List Bool) (xs : List α),
    filterMask mask xs = (keptIdx mask).filterMap (fun i => xs[i]?)
  | [], xs => by cases xs <;> simp [filterMask, keptIdx]
  | b :: m, [] => by simp [filterMask]
  | b :: m, x :: xs => by
    have ih := filterMask_eq_kept m xs
    cases b <;> simp [filterMask, keptIdx, List.filterMap_map, Function.comp_def, ih]

theorem keptIdx_lt : ∀ (mask : List Bool), ∀ i ∈ keptIdx mask, i < mask.length
  | [], i, h => by simp [keptIdx] at h
  | b :: m, i, h => by
    have ih := keptIdx_lt m
    cases b <;> simp only [keptIdx, List.mem_cons, List.mem_map] at h
    · obtain ⟨k, hk, rfl⟩ := h
      have := ih k hk
      simp; omega
    · rcases h with rfl | ⟨k, hk, rfl⟩
      · simp
      · have := ih k hk
        simp; omega

theorem keptIdx_length : ∀ (mask : List Bool), (keptIdx mask).length = countTrue mask
  | [] => rfl
  | b :: m => by
    have ih := keptIdx_length m
    cases b <;> simp [keptIdx, countTrue] at ih ⊢ <;> omega

theorem keptIdx_all_true : ∀ (mask : List Bool), (∀ b ∈ mask, b = true) → keptIdx mask = List.range mask.length
  | [], _ => rfl
  | b :: m, h => by
    have hb := h b (List.mem_cons_self ..)
    subst hb
    have ih := keptIdx_all_true m (fun b hb => h b (List.mem_cons_of_mem _ hb))
    simp [keptIdx, ih, List.range_succ_eq_map]

/-- boolean-mask indexing picks exactly the kept positions, in order -/
theorem filterMask_getElem? {α} (mask : List Bool) (xs : List α) (h : xs.length = mask.length) (j : Nat) :
    (filterMask mask xs)[j]? = (keptIdx mask)[j]?.bind (fun i => xs[i]?) := by
  rw [filterMask_eq_kept]
  apply filterMap_getElem?_of_isSome
  intro i hi
  have : i < xs.length := by have := keptIdx_lt mask i hi; omega
  simp [this]

theorem filterMask_length {α} : ∀ (mask : List Bool) (xs : List α), xs.length = mask.length →
    (filterMask mask xs).length = (keptIdx mask).length
  | [], [], _ => rfl
  | [], _ :: _, h => by simp at h
  | _ :: _, [], h => by simp at h
  | b :: m, x :: xs, h => by
    have ih := filterMask_length m xs (by simpa using h)
    cases b <;> simp [filterMask, keptIdx, ih]

/-- the shape ladder of `MessageData.to_numpy` removes exactly the masked positions along the time axis -/
theorem removeOne_spec (mask : List Bool) (a : Arr) (tr : Bool) (hwf : a.WF)
    (hlen : a.timeLen tr = some mask.length)
    (hax : ∀ rows cols, a = .a2 rows cols → tr = false → cols ≠ mask.length) :
    (removeOne mask a).timeLen tr = some (keptIdx mask).length ∧
    ∀ j, (removeOne mask a).atTime tr j = (keptIdx mask)[j]?.bind (a.atTime tr) := by
  cases a with
  | a0 x => cases tr <;> simp [Arr.timeLen] at hlen
  | opq => cases tr <;> simp [Arr.timeLen] at hlen
  | bad => cases tr <;> simp [Arr.timeLen] at hlen
  | a1 xs =>
    have hl : xs.length = mask.length := by cases tr <;> simpa [Arr.timeLen] using hlen
    simp only [removeOne, if_pos hl]
    refine ⟨by cases tr <;> simp [Arr.timeLen, filterMask_length mask xs hl], ?_⟩
    intro j
    have := filterMask_getElem? mask xs hl j
    cases tr <;> simp only [Arr.atTime, this] <;> cases (keptIdx mask)[j]? <;> simp [Arr.atTime]
  | a3 b r c =>
    cases tr with
    | true => simp [Arr.timeLen] at hlen
    | false =>
      have hl : b.length = mask.length := by simpa [Arr.timeLen] using hlen
      simp only [removeOne, if_pos hl]
      refine ⟨by simp [Arr.timeLen, filterMask_length mask b hl], ?_⟩
      intro j
      have := filterMask_getElem? mask b hl j
      simp only [Arr.atTime, this]; cases (keptIdx mask)[j]? <;> simp [Arr.atTime]
  | a2 rows cols =>
    cases tr with
    | false =>
      have hl : rows.length = mask.length := by simpa [Arr.timeLen] using hlen
      have hc := hax rows cols rfl rfl
      simp only [removeOne, if_neg hc, if_pos hl]
      refine ⟨by simp [Arr.timeLen, filterMask_length mask rows hl], ?_⟩
      intro j
      have := filterMask_getElem? mask rows hl j
      simp only [Arr.atTime, this]; cases (keptIdx mask)[j]? <;> simp [Arr.atTime]
    | true =>
      have hl : cols = mask.length := by simpa [Arr.timeLen] using hlen
      simp only [removeOne, if_pos hl]
      refine ⟨by simp [Arr.timeLen, keptIdx_length], ?_⟩
      intro j
      simp only [Arr.atTime, ← keptIdx_length]
      by_cases hj : j < (keptIdx mask).length
      · have hk : (keptIdx mask)[j] < cols := by
          have := keptIdx_lt mask _ (List.getElem_mem hj); omega
        rw [if_pos hj, List.getElem?_eq_getElem hj]
        simp only [Option.bind_some, Arr.atTime, if_pos hk]
        congr 2
        unfold column
        rw [List.filterMap_map]
        apply filterMap_congr'
        intro r hr
        have hr' : r.length = mask.length := by have := hwf r hr; omega
        show (filterMask mask r)[j]? = _
        rw [filterMask_getElem? mask r hr' j, List.getElem?_eq_getElem hj]; rfl
      · rw [if_neg hj, List.getElem?_eq_none (by omega)]; rfl

/-! ### dictionaries -/

theorem lookup_cons_eq (k a : Nat) (b : Arr) (es : Dict) :
    List.lookup k ((a, b) :: es) = if k = a then some b else List.lookup k es := by
  by_cases h : k = a
  · subst h; simp [List.lookup]
  · have hb : (k == a) = false := by simpa using h
    simp [List.lookup, hb, h]

theorem dictGet_dictSet (d : Dict) (k k' : Nat) (v : Arr) :
    dictGet (dictSet d k v) k' = if k' = k then some v else dictGet d k' := by
  unfold dictGet
  induction d with
  | nil => simp only [dictSet, lookup_cons_eq, List.lookup]
  | cons kv r ih =>
    obtain ⟨k0, v0⟩ := kv
    by_cases h0 : k0 = k
    · subst h0
      have e : dictSet ((k0, v0) :: r) k0 v = (k0, v) :: r := by simp [dictSet]
      rw [e, lookup_cons_eq, lookup_cons_eq]
      by_cases h : k' = k0 <;> simp [h]
    · have e : dictSet ((k0, v0) :: r) k v = (k0, v0) :: dictSet r k v := by simp [dictSet, h0]
      rw [e, lookup_cons_eq, lookup_cons_eq, ih]
      by_cases h : k' = k
      · subst h
        have : ¬ k' = k0 := fun e => h0 e.symm
        simp [this]
      · simp [h]

/-- the last entry with key `k` (in source order) -/
def lastEntry (es : List Entry) (k : Nat) : Option Entry := es.reverse.find? (fun e => e.key == k)

theorem dictGet_buildDict (msgs : List Msg) : ∀ (es : List Entry) (d0 : Dict) (k : Nat),
    dictGet (buildDict es msgs d0) k =
      match lastEntry es k with
      | some e => some (evalEntry e msgs)
      | Option.none => dictGet d0 k
  | [], d0, k => by simp [buildDict, lastEntry]
  | e :: es, d0, k => by
    have ih := dictGet_buildDict msgs es (dictSet d0 e.key (evalEntry e msgs)) k
    simp only [buildDict, List.foldl_cons] at ih ⊢
    rw [ih]
    simp only [lastEntry, List.reverse_cons, List.find?_append]
    cases hf : List.find? (fun e => e.key == k) es.reverse with
    | some e' => simp
    | none =>
      simp only [Option.none_or, List.find?_cons, List.find?_nil]
      rw [dictGet_dictSet]
      by_cases hk : e.key = k
      · simp [hk]
      · have : (e.key == k) = false := by simpa using hk
        have hk' : ¬ k = e.key := fun h => hk h.symm
        simp [this, hk']

theorem lastEntry_mem {es : List Entry} {k : Nat} {e : Entry} (h : lastEntry es k = some e) : e ∈ es ∧ e.key = k := by
  unfold lastEntry at h
  have h1 := List.mem_of_find?_eq_some h
  have h2 := List.find?_some h
  exact ⟨List.mem_reverse.1 h1, by simpa using h2⟩

/-- the value `u` holds under `k`: its last pair with that key -/
def lastVal (u : Dict) (k : Nat) : Option Arr := (u.reverse.find? (fun ka => ka.1 == k)).map (·.2)

/-- `self.__dict__.update(u)`: a key of `u` holds `u`'s value afterwards, every other key keeps its own -/
theorem dictGet_dictUpdate : ∀ (u d : Dict) (k : Nat),
    dictGet (dictUpdate d u) k =
      match lastVal u k with
      | some a => some a
      | Option.none => dictGet d k
  | [], d, k => by simp [dictUpdate, lastVal]
  | ka :: u, d, k => by
    have ih := dictGet_dictUpdate u (dictSet d ka.1 ka.2) k
    simp only [dictUpdate, List.foldl_cons] at ih ⊢
    rw [ih]
    simp only [lastVal, List.reverse_cons, List.find?_append]
    cases hf : List.find? (fun ka => ka.1 == k) u.reverse with
    | some x => simp
    | none =>
      simp only [Option.none_or, List.find?_cons, List.find?_nil, Option.map_none]
      rw [dictGet_dictSet]
      by_cases hk : ka.1 = k
      · simp [hk]
      · have : (ka.1 == k) = false := by simpa using hk
        have hk' : ¬ k = ka.1 := fun h => hk h.symm
        simp [this, hk']

theorem fltNe_self (a : Nat) : fltNe a a = isNanBits a := by
  simp [fltNe]

end FeVerif.Numpy
