/-
The Python decoder loop refines the framing scan `Cfg.run (cfgPy max)`.
-/
import FeVerif.Model.PyDecoder
import FeVerif.Proofs.Frame

namespace FeVerif

theorem byteAt_take {bs : Bytes} {i k : Nat} (h : i < k) : byteAt (bs.take k) i = byteAt bs i := by
  unfold byteAt
  simp [List.getD_eq_getElem?_getD, h]

theorem u16le_take {bs : Bytes} {i k : Nat} (h : i + 1 < k) : u16le (bs.take k) i = u16le bs i := by
  unfold u16le; rw [byteAt_take (by omega), byteAt_take (by omega)]

theorem u32le_take {bs : Bytes} {i k : Nat} (h : i + 3 < k) : u32le (bs.take k) i = u32le bs i := by
  unfold u32le
  rw [byteAt_take (by omega), byteAt_take (by omega), byteAt_take (by omega), byteAt_take (by omega)]

theorem pyHeaderOk_take (m : Nat) (buf : Bytes) :
    pyHeaderOk m (buf.take HDR) =
      (decide (byteAt buf 0 = SYNC0) && decide (byteAt buf 1 = SYNC1) && decide (u16le buf 2 = 0) &&
        decide (u32le buf 16 ≤ m)) := by
  unfold pyHeaderOk HDR
  rw [byteAt_take (by omega), byteAt_take (by omega), u16le_take (by omega), u32le_take (by omega)]

theorem pyCrcOk_take (buf : Bytes) :
    pyCrcOk (buf.take (HDR + u32le buf 16)) = pyCrcOk buf := by
  unfold pyCrcOk HDR
  rw [u32le_take (by omega), u32le_take (by omega), List.take_take, Nat.min_self]

theorem cfgPy_msgLen (m : Nat) (buf : Bytes) : (cfgPy m).msgLen buf = HDR + u32le buf 16 := by
  unfold Cfg.msgLen cfgPy; simp only; unfold HDR; rw [u32le_take (by omega)]

/-- The cached header, when there is one, is the accepted header at the front of the buffer. -/
def PyDec.Inv (m : Nat) (s : PyDec) : Prop :=
  match s.hdr with
  | none => True
  | some p => HDR ≤ s.buf.length ∧ pyHeaderOk m (s.buf.take HDR) = true ∧ p = u32le s.buf 16

/-- The state in which the loop stops on buffer `buf`: a header is cached exactly when 24 bytes are
there (they then form an accepted header whose message is still incomplete). -/
def PyDec.stopped (buf : Bytes) (processed : Nat) : PyDec :=
  ⟨buf, if HDR ≤ buf.length then some (u32le buf 16) else none, processed⟩

theorem cfgPy_step (m : Nat) (buf : Bytes) :
    (cfgPy m).step buf =
      if buf.length < HDR then .stop
      else if pyHeaderOk m (buf.take HDR) = false then .drop
      else if buf.length < HDR + u32le buf 16 then .stop
      else if pyCrcOk buf = true then .emit (HDR + u32le buf 16) else .drop := by
  unfold Cfg.step
  rw [cfgPy_msgLen]
  show (if buf.length < HDR then _ else if pyHeaderOk m (buf.take HDR) = false then _ else
    if _ then _ else if pyCrcOk (buf.take (HDR + u32le buf 16)) = true then _ else _) = _
  rw [pyCrcOk_take]

/-- One loop iteration against one verdict of the scan. -/
theorem pyIter_step (m : Nat) (s : PyDec) (hinv : s.Inv m) :
    match (cfgPy m).step s.buf with
    | .stop => pyIter m s = .brk (PyDec.stopped s.buf s.processed)
    | .drop => pyIter m s = .cont s.pop
    | .emit n => pyIter m s = .emit s.processed n ⟨s.buf.drop n, none, s.processed + n⟩ := by
  rw [cfgPy_step]
  unfold pyIter
  by_cases h1 : s.buf.length < HDR
  · simp only [if_pos h1]
    obtain ⟨buf, hdr, processed⟩ := s
    cases hdr with
    | none => simp only at h1; simp [PyDec.stopped, show ¬ HDR ≤ buf.length by omega]
    | some p => simp only at h1; exact absurd hinv.1 (by show ¬ HDR ≤ buf.length; omega)
  · simp only [if_neg h1]
    obtain ⟨buf, hdr, processed⟩ := s
    cases hdr with
    | some p =>
      obtain ⟨hl, hok, hp⟩ := hinv
      simp only at hl hok hp ⊢
      subst hp
      simp only [hok, Bool.true_eq_false, if_false]
      unfold pyBody
      by_cases h3 : buf.length < HDR + u32le buf 16
      · simp only [if_pos h3]; simp [PyDec.stopped, hl]
      · simp only [if_neg h3]
        by_cases h4 : pyCrcOk buf = true
        · simp [h4]
        · simp at h4; simp [h4]
    | none =>
      simp only at h1 ⊢
      have hhdr := pyHeaderOk_take m buf
      by_cases a0 : byteAt buf 0 = SYNC0
      · by_cases a1 : byteAt buf 1 = SYNC1
        · by_cases a2 : u16le buf 2 = 0
          · by_cases a3 : u32le buf 16 ≤ m
            · have hok : pyHeaderOk m (buf.take HDR) = true := by rw [hhdr]; simp [a0, a1, a2, a3]
              simp only [hok, Bool.true_eq_false, if_false, a0, a1, a2, ne_eq, not_true_eq_false,
                if_neg (show ¬ u32le buf 16 > m by omega)]
              unfold pyBody
              by_cases h3 : buf.length < HDR + u32le buf 16
              · simp only [if_pos h3]
                simp [PyDec.stopped, show HDR ≤ buf.length by omega]
              · simp only [if_neg h3]
                by_cases h4 : pyCrcOk buf = true
                · simp [h4]
                · simp at h4; simp [h4]
            · have hok : pyHeaderOk m (buf.take HDR) = false := by rw [hhdr]; simp [a3]
              simp [hok, a0, a1, a2, show u32le buf 16 > m by omega]
          · have hok : pyHeaderOk m (buf.take HDR) = false := by rw [hhdr]; simp [a2]
            simp [hok, a0, a1, a2]
        · have hok : pyHeaderOk m (buf.take HDR) = false := by rw [hhdr]; simp [a1]
          simp [hok, a0, a1]
      · have hok : pyHeaderOk m (buf.take HDR) = false := by rw [hhdr]; simp [a0]
        simp [hok, a0]

theorem pyLoop_brk {m : Nat} {s s' : PyDec} (h : pyIter m s = .brk s') : pyLoop m s = ([], s') := by
  rw [pyLoop.eq_def]; split <;> simp_all

theorem pyLoop_cont {m : Nat} {s s' : PyDec} (h : pyIter m s = .cont s') :
    pyLoop m s = pyLoop m s' := by
  rw [pyLoop.eq_def]; split <;> simp_all

theorem pyLoop_emit {m : Nat} {s s' : PyDec} {o l : Nat} (h : pyIter m s = .emit o l s') :
    pyLoop m s = ((o, l) :: (pyLoop m s').1, (pyLoop m s').2) := by
  rw [pyLoop.eq_def]; split <;> simp_all

/-- **Refinement.** From any state satisfying the header-cache invariant, the loop outputs exactly
the messages of the scan and stops in the state determined by what the scan leaves: same unjudged
bytes, same count of processed bytes, header cached iff 24 bytes are buffered. -/
theorem pyLoop_refines (m : Nat) (s : PyDec) (hinv : s.Inv m) :
    pyLoop m s = (((cfgPy m).run s.buf s.processed).msgs,
      PyDec.stopped ((cfgPy m).run s.buf s.processed).rest ((cfgPy m).run s.buf s.processed).off) := by
  induction hlen : s.buf.length using Nat.strongRecOn generalizing s with
  | ind k ih =>
    have hstep := pyIter_step m s hinv
    cases hs : (cfgPy m).step s.buf with
    | stop =>
      rw [hs] at hstep
      rw [pyLoop_brk hstep, Cfg.run_stop hs]
    | drop =>
      rw [hs] at hstep
      have hpos := Cfg.step_drop_pos hs
      rw [pyLoop_cont hstep, Cfg.run_drop hs]
      exact ih (s.pop.buf.length) (by unfold PyDec.pop; simp; omega) s.pop trivial rfl
    | emit n =>
      rw [hs] at hstep
      have hpos := Cfg.step_emit_pos hs
      rw [pyLoop_emit hstep, Cfg.run_emit hs]
      have := ih ((s.buf.drop n).length) (by simp; omega) ⟨s.buf.drop n, none, s.processed + n⟩ trivial rfl
      rw [this]

theorem byteAt_append {a b : Bytes} {i : Nat} (h : i < a.length) : byteAt (a ++ b) i = byteAt a i := by
  unfold byteAt
  simp [List.getD_eq_getElem?_getD, List.getElem?_append_left h]

theorem u32le_append {a b : Bytes} {i : Nat} (h : i + 3 < a.length) : u32le (a ++ b) i = u32le a i := by
  unfold u32le
  rw [byteAt_append (by omega), byteAt_append (by omega), byteAt_append (by omega), byteAt_append (by omega)]

/-- A stopped state satisfies the invariant, and keeps it when bytes are appended. -/
theorem stopped_append_inv (m : Nat) (buf more : Bytes) (off : Nat)
    (hstop : (cfgPy m).step buf = .stop) :
    PyDec.Inv m ⟨buf ++ more, (PyDec.stopped buf off).hdr, off⟩ := by
  unfold PyDec.stopped PyDec.Inv
  by_cases h : HDR ≤ buf.length
  · simp only [if_pos h]
    refine ⟨by simp; omega, ?_, ?_⟩
    · rw [List.take_append_of_le_length h]
      rcases Cfg.stop_iff.1 hstop with h' | h'
      · exact absurd h' (by show ¬ buf.length < HDR; omega)
      · exact h'.1
    · unfold HDR at h; rw [u32le_append (by omega)]
  · simp only [if_neg h]

/-- Feeding chunks, starting from a stopped state, is the scan of the concatenation. -/
theorem pyFeed_eq_run (m : Nat) (chunks : List Bytes) (buf : Bytes) (off : Nat)
    (hstop : (cfgPy m).step buf = .stop) :
    pyFeed m (PyDec.stopped buf off) chunks =
      (((cfgPy m).run (buf ++ chunks.flatten) off).msgs,
        PyDec.stopped ((cfgPy m).run (buf ++ chunks.flatten) off).rest
          ((cfgPy m).run (buf ++ chunks.flatten) off).off) := by
  induction chunks generalizing buf off with
  | nil => simp [pyFeed, Cfg.run_stop hstop]
  | cons d ds ih =>
    unfold pyFeed pyOnData
    by_cases hd : d.length = 0
    · have : d = [] := List.eq_nil_of_length_eq_zero hd
      subst this
      simp only [List.length_nil, if_true, List.nil_append, List.flatten_cons]
      exact ih buf off hstop
    · simp only [if_neg hd]
      have hinv := stopped_append_inv m buf d off hstop
      have href := pyLoop_refines m _ hinv
      have e : (PyDec.stopped buf off).buf = buf := rfl
      have e2 : (PyDec.stopped buf off).processed = off := rfl
      rw [e, e2]
      rw [href]
      simp only
      have hrest := (Cfg.run_rest (c := cfgPy m) (buf ++ d) off).1
      rw [ih _ _ hrest]
      have happ := Cfg.run_append (c := cfgPy m) (buf ++ d) ds.flatten off
      rw [List.flatten_cons, ← List.append_assoc, happ]

end FeVerif
