/-
The reader's constructor filters + read loop = a `List.filter` over the ordinal-tagged unfiltered read.
-/
import FeVerif.Spec.Reader

namespace FeVerif
namespace Reader

def entOf (p : Nat × Msg) : Ent := ⟨p.2.timeNs.map (· / NS), p.2.type, p.2.offset, p.1⟩

theorem indexFrom_eq (log : List Msg) (k : Nat) : indexFrom log k = (zipOrd log k).map entOf := by
  induction log generalizing k with
  | nil => rfl
  | cons m ms ih => simp [indexFrom, zipOrd, ih, entOf]

theorem zipOrd_length (log : List Msg) (k : Nat) : (zipOrd log k).length = log.length := by
  induction log generalizing k with
  | nil => rfl
  | cons m ms ih => simp [zipOrd, ih]

theorem zipOrd_mem (log : List Msg) (k : Nat) : ∀ p ∈ zipOrd log k, k ≤ p.1 ∧ log[p.1 - k]? = some p.2 := by
  induction log generalizing k with
  | nil => intro p hp; cases hp
  | cons m ms ih =>
    intro p hp
    rcases List.mem_cons.1 hp with rfl | h
    · simp
    · obtain ⟨h1, h2⟩ := ih (k + 1) p h
      refine ⟨by omega, ?_⟩
      have : p.1 - k = (p.1 - (k + 1)) + 1 := by omega
      rw [this, List.getElem?_cons_succ]; exact h2

/-- Taking positions `[s, e)` of the ordinal-tagged list is filtering on the ordinal. -/
theorem zipOrd_take_drop (log : List Msg) (k s e : Nat) :
    ((zipOrd log k).take e).drop s =
      (zipOrd log k).filter fun p => decide (k + s ≤ p.1) && decide (p.1 < k + e) := by
  induction log generalizing k s e with
  | nil => simp [zipOrd]
  | cons m ms ih =>
    unfold zipOrd
    cases e with
    | zero =>
      simp only [List.take_zero, List.drop_nil, Nat.add_zero]
      symm
      rw [List.filter_eq_nil_iff]
      intro p hp
      have : k ≤ p.1 := by
        rcases List.mem_cons.1 hp with rfl | h
        · exact Nat.le_refl _
        · have := (zipOrd_mem ms (k + 1) p h).1; omega
      simp; omega
    | succ e' =>
      rw [List.take_succ_cons]
      cases s with
      | zero =>
        rw [List.drop_zero, List.filter_cons]
        have h1 : (decide (k + 0 ≤ (k, m).1) && decide ((k, m).1 < k + (e' + 1))) = true := by simp
        rw [if_pos h1]
        have := ih (k + 1) 0 e'
        rw [List.drop_zero] at this
        rw [this]
        congr 1
        apply List.filter_congr
        intro p hp
        have := (zipOrd_mem ms (k + 1) p hp).1
        simp only [Nat.add_zero]
        have a1 : decide (k + 1 ≤ p.1) = true := by simp; omega
        have a2 : decide (k ≤ p.1) = true := by simp; omega
        rw [a1, a2]
        congr 1
        simp; omega
      | succ s' =>
        rw [List.drop_succ_cons, List.filter_cons]
        have h1 : (decide (k + (s' + 1) ≤ (k, m).1) && decide ((k, m).1 < k + (e' + 1))) = false := by simp
        rw [h1]
        simp only [Bool.false_eq_true, if_false]
        rw [ih (k + 1) s' e']
        apply List.filter_congr
        intro p hp
        congr 1
        · simp; omega
        · simp; omega

theorem findIdx_index (log : List Msg) (k : Nat) (q : Ent → Bool) :
    (indexFrom log k).findIdx q = (zipOrd log k).findIdx (fun p => q (entOf p)) := by
  rw [indexFrom_eq]
  induction zipOrd log k with
  | nil => rfl
  | cons a r ih => simp [List.findIdx_cons, ih]

theorem findIdx_zipOrd (log : List Msg) (k : Nat) (q : Msg → Bool) :
    (zipOrd log k).findIdx (fun p => q p.2) = log.findIdx q := by
  induction log generalizing k with
  | nil => rfl
  | cons m ms ih => simp [zipOrd, List.findIdx_cons, ih]

theorem findIdx_index_msg (log : List Msg) (k : Nat) (q : Ent → Bool) (q' : Msg → Bool)
    (h : ∀ p : Nat × Msg, q (entOf p) = q' p.2) : (indexFrom log k).findIdx q = log.findIdx q' := by
  induction log generalizing k with
  | nil => rfl
  | cons m ms ih =>
    have := h (k, m)
    simp only [indexFrom, List.findIdx_cons]
    have e : (⟨m.timeNs.map (· / NS), m.type, m.offset, k⟩ : Ent) = entOf (k, m) := rfl
    rw [e, this, ih]

/-- The index positions found by `get_time_range` are the spec's positions in the log. -/
theorem findIdx_timeGe (log : List Msg) (sec : Nat) :
    (indexOf log).findIdx (timeGe sec) = firstTimed log fun t => decide (t ≥ sec) := by
  unfold indexOf firstTimed
  exact findIdx_index_msg log 0 _ _ (fun p => by unfold timeGe entOf secOf; rfl)

theorem findIdx_timeGeNs (log : List Msg) (ns : Nat) :
    (indexOf log).findIdx (timeGeNs ns) = firstTimed log fun t => decide (t * NS ≥ ns) := by
  unfold indexOf firstTimed
  exact findIdx_index_msg log 0 _ _ (fun p => by unfold timeGeNs entOf secOf; rfl)

/-! ### The read loop -/

def cut1 (mb : Option Nat) (m : Msg) : Bool := match mb with | some b => decide (m.offset + 24 > b) | none => false
def cut2 (mb : Option Nat) (m : Msg) : Bool := match mb with | some b => decide (m.offset + m.size > b) | none => false
def srcBad (sources : Option (List Nat)) (m : Msg) : Bool :=
  match sources with | some ss => !ss.contains m.src | none => false

/-- The read loop on ordinal-tagged messages. -/
def readPairs (sources : Option (List Nat)) (mb : Option Nat) : List (Nat × Msg) → List Nat
  | [] => []
  | p :: r =>
    if cut1 mb p.2 then []
    else if srcBad sources p.2 then readPairs sources mb r
    else if cut2 mb p.2 then []
    else p.1 :: readPairs sources mb r

theorem readAll_eq_readPairs (log : List Msg) (sources : Option (List Nat)) (mb : Option Nat)
    (l : List (Nat × Msg)) (hl : ∀ p ∈ l, log[p.1]? = some p.2) :
    readAll log sources mb false (l.map entOf) = readPairs sources mb l := by
  induction l with
  | nil => rfl
  | cons p r ih =>
    have hp := hl p (by simp)
    have ihr := ih (fun q hq => hl q (by simp [hq]))
    simp only [List.map_cons]
    unfold readAll readPairs
    have : (entOf p).ordinal = p.1 := rfl
    rw [this, hp]
    simp only [Bool.false_and, Bool.false_eq_true, if_false]
    unfold cut1 cut2 srcBad
    rw [ihr]
    cases mb <;> cases sources <;> rfl

def Later (a b : Msg) : Prop := a.offset + a.size ≤ b.offset

/-- With non-overlapping messages in increasing offset order (each at least a header long), the two
`max_bytes` cuts of the read loop select exactly the messages that end within the limit. -/
theorem readPairs_eq_filter (sources : Option (List Nat)) (mb : Option Nat) (l : List (Nat × Msg))
    (hpw : (l.map (·.2)).Pairwise Later) (hsz : ∀ p ∈ l, 24 ≤ p.2.size) :
    readPairs sources mb l = (l.filter fun p => !srcBad sources p.2 && !cut2 mb p.2).map (·.1) := by
  induction l with
  | nil => rfl
  | cons p r ih =>
    simp only [List.map_cons, List.pairwise_cons] at hpw
    have ihr := ih hpw.2 (fun q hq => hsz q (by simp [hq]))
    have hp := hsz p (by simp)
    -- once a message ends beyond the limit, every later one does
    have hall : cut2 mb p.2 = true → ∀ q ∈ r, cut2 mb q.2 = true := by
      intro hc q hq
      have hlater : Later p.2 q.2 := hpw.1 q.2 (List.mem_map_of_mem hq)
      unfold cut2 at hc ⊢
      cases mb with
      | none => cases hc
      | some b =>
        simp only [decide_eq_true_eq] at hc ⊢
        unfold Later at hlater
        have := hsz q (by simp [hq])
        omega
    have hnil : cut2 mb p.2 = true →
        ((p :: r).filter fun p => !srcBad sources p.2 && !cut2 mb p.2).map (·.1) = [] := by
      intro hc
      rw [List.map_eq_nil_iff, List.filter_eq_nil_iff]
      intro q hq
      rcases List.mem_cons.1 hq with rfl | h
      · simp [hc]
      · simp [hall hc q h]
    have h12 : cut1 mb p.2 = true → cut2 mb p.2 = true := by
      unfold cut1 cut2
      cases mb with
      | none => intro h; cases h
      | some b => simp only [decide_eq_true_eq]; omega
    unfold readPairs
    by_cases c1 : cut1 mb p.2 = true
    · rw [if_pos c1, hnil (h12 c1)]
    · rw [if_neg c1]
      by_cases sb : srcBad sources p.2 = true
      · rw [if_pos sb, ihr, List.filter_cons]
        simp [sb]
      · rw [if_neg sb]
        by_cases c2 : cut2 mb p.2 = true
        · rw [if_pos c2, hnil c2]
        · rw [if_neg c2, ihr, List.filter_cons]
          simp at sb c2
          simp [sb, c2]

end Reader
end FeVerif

namespace FeVerif
namespace Reader

/-- The unfiltered read of a file: messages in increasing offset order, not overlapping, each at least a
header long. -/
def LogWF (log : List Msg) : Prop := log.Pairwise Later ∧ ∀ m ∈ log, 24 ≤ m.size

theorem zipOrd_map_snd (log : List Msg) (k : Nat) : (zipOrd log k).map (·.2) = log := by
  induction log generalizing k with
  | nil => rfl
  | cons m ms ih => simp [zipOrd, ih]

def typeOk (types : Option (List Nat)) (m : Msg) : Bool :=
  match types with | none => true | some ts => ts.contains m.type

theorem sliceByTypes_map (l : List (Nat × Msg)) (ts : List Nat) :
    sliceByTypes (l.map entOf) ts = (l.filter fun p => ts.contains p.2.type).map entOf := by
  unfold sliceByTypes
  rw [List.filter_map]
  rfl

/-- Type filter + read loop on any sub-sequence of the ordinal-tagged log. -/
theorem pipeline (log : List Msg) (hwf : LogWF log) (l : List (Nat × Msg)) (hsub : l.Sublist (zipOrd log 0))
    (types sources : Option (List Nat)) (mb : Option Nat) :
    readAll log sources mb false
        (match types with | none => l.map entOf | some ts => sliceByTypes (l.map entOf) ts) =
      (l.filter fun p => typeOk types p.2 && (!srcBad sources p.2 && !cut2 mb p.2)).map (·.1) := by
  have hmem : ∀ (l' : List (Nat × Msg)), l'.Sublist (zipOrd log 0) → ∀ p ∈ l', log[p.1]? = some p.2 := by
    intro l' hs p hp
    have := (zipOrd_mem log 0 p (hs.subset hp)).2
    simpa using this
  have hpw : ∀ (l' : List (Nat × Msg)), l'.Sublist (zipOrd log 0) → (l'.map (·.2)).Pairwise Later := by
    intro l' hs
    have : (l'.map (·.2)).Sublist log := by
      have := hs.map (·.2)
      rw [zipOrd_map_snd] at this; exact this
    exact hwf.1.sublist this
  have hsz : ∀ (l' : List (Nat × Msg)), l'.Sublist (zipOrd log 0) → ∀ p ∈ l', 24 ≤ p.2.size := by
    intro l' hs p hp
    have h1 := hs.subset hp
    have : p.2 ∈ log := by
      rw [← zipOrd_map_snd log 0]; exact List.mem_map_of_mem h1
    exact hwf.2 _ this
  cases types with
  | none =>
    simp only [typeOk, Bool.true_and]
    rw [readAll_eq_readPairs log sources mb l (hmem l hsub), readPairs_eq_filter sources mb l (hpw l hsub) (hsz l hsub)]
  | some ts =>
    simp only [typeOk]
    rw [sliceByTypes_map]
    have hs2 : (l.filter fun p => ts.contains p.2.type).Sublist (zipOrd log 0) :=
      (List.filter_sublist).trans hsub
    rw [readAll_eq_readPairs log sources mb _ (hmem _ hs2),
      readPairs_eq_filter sources mb _ (hpw _ hs2) (hsz _ hs2), List.filter_filter]
    congr 1
    apply List.filter_congr
    intro p _
    rw [Bool.and_comm]

end Reader
end FeVerif
