/-
Refinement of the literal RTCM framer model (Model/RtcmFramer.lean) to the framing scan
(`Cfg.run (cfgRtcm capacity)`, Spec/Rtcm.lean), its safety invariant and its counters.
-/
import FeVerif.Proofs.Scan
import FeVerif.Spec.Rtcm
import FeVerif.Model.RtcmFramer

namespace FeVerif.RtcmFramer

/-! ### Bytes -/

theorem getD_take {α} (l : List α) (n i : Nat) (d : α) (h : i < n) : (l.take n).getD i d = l.getD i d := by
  simp [List.getD, h]

theorem byteAt_take (bs : Bytes) (n i : Nat) (h : i < n) : byteAt (bs.take n) i = byteAt bs i := by
  unfold byteAt; rw [getD_take _ _ _ _ h]

theorem rtcmPayloadLen_take (bs : Bytes) (n : Nat) (h : 3 ≤ n) : rtcmPayloadLen (bs.take n) = rtcmPayloadLen bs := by
  unfold rtcmPayloadLen
  rw [byteAt_take _ _ _ (by omega), byteAt_take _ _ _ (by omega)]

theorem rtcmPayloadLen_le (bs : Bytes) : rtcmPayloadLen bs ≤ 1023 := by
  unfold rtcmPayloadLen
  exact Nat.and_le_right

theorem C14_table : Generated.rtcmCrc24qLiteral = crc24Table := by decide +kernel

theorem crc24Src_eq (d : Bytes) : crc24Src d = crc24q d := by
  unfold crc24Src crc24q; rw [C14_table]

/-! ### The RTCM verdict, spelled out -/

theorem rtcm_msgLen (cap : Nat) (Q : Bytes) : (cfgRtcm cap).msgLen Q = rtcmPayloadLen Q + 6 := by
  by_cases h : 3 ≤ Q.length
  · show 3 + (rtcmPayloadLen (Q.take 3) + 3) = _
    rw [rtcmPayloadLen_take _ _ (Nat.le_refl 3)]; omega
  · show 3 + (rtcmPayloadLen (Q.take 3) + 3) = _
    have : Q.take 3 = Q := List.take_of_length_le (by omega)
    rw [this]; omega

theorem rtcm_headerOk (cap : Nat) (Q : Bytes) :
    (cfgRtcm cap).headerOk (Q.take 3) = true ↔
      byteAt Q 0 = 0xD3 ∧ rtcmPayloadLen Q + 6 ≤ cap ∧ rtcmPayloadLen Q + 6 ≤ 1029 := by
  show (byteAt (Q.take 3) 0 == 0xD3 && decide (rtcmPayloadLen (Q.take 3) + 6 ≤ cap) &&
    decide (rtcmPayloadLen (Q.take 3) + 6 ≤ 1029)) = true ↔ _
  by_cases h : 3 ≤ Q.length
  · rw [rtcmPayloadLen_take _ _ (Nat.le_refl 3), byteAt_take _ _ _ (by omega)]
    simp [and_assoc]
  · have : Q.take 3 = Q := List.take_of_length_le (by omega)
    rw [this]; simp [and_assoc]

theorem rtcm_bodyOk (cap : Nat) (Q : Bytes) :
    (cfgRtcm cap).bodyOk Q = true ↔ crc24q (Q.take (Q.length - 3)) = be24At Q (Q.length - 3) := by
  show (crc24q (Q.take (Q.length - 3)) == be24At Q (Q.length - 3)) = true ↔ _
  simp

theorem rtcm_step_short (cap : Nat) {Q : Bytes} (h : Q.length < 3) : (cfgRtcm cap).step Q = .stop :=
  Cfg.stop_iff.2 (Or.inl h)

theorem rtcm_step_badHeader (cap : Nat) {Q : Bytes} (h : 3 ≤ Q.length)
    (hb : ¬ (byteAt Q 0 = 0xD3 ∧ rtcmPayloadLen Q + 6 ≤ cap ∧ rtcmPayloadLen Q + 6 ≤ 1029)) :
    (cfgRtcm cap).step Q = .drop := by
  unfold Cfg.step
  rw [if_neg (by show ¬ Q.length < 3; omega)]
  have : (cfgRtcm cap).headerOk (Q.take 3) = false := by
    cases hh : (cfgRtcm cap).headerOk (Q.take 3) with
    | false => rfl
    | true => exact absurd ((rtcm_headerOk cap Q).1 hh) hb
  show (if (cfgRtcm cap).headerOk (Q.take 3) = false then _ else _) = _
  rw [if_pos this]

theorem rtcm_step_wait (cap : Nat) {Q : Bytes} (_h : 3 ≤ Q.length)
    (hb : byteAt Q 0 = 0xD3 ∧ rtcmPayloadLen Q + 6 ≤ cap ∧ rtcmPayloadLen Q + 6 ≤ 1029)
    (hl : Q.length < rtcmPayloadLen Q + 6) : (cfgRtcm cap).step Q = .stop := by
  apply Cfg.stop_iff.2
  right
  exact ⟨(rtcm_headerOk cap Q).2 hb, by rw [rtcm_msgLen]; exact hl⟩

theorem rtcm_step_full (cap : Nat) {Q : Bytes}
    (hb : byteAt Q 0 = 0xD3 ∧ rtcmPayloadLen Q + 6 ≤ cap ∧ rtcmPayloadLen Q + 6 ≤ 1029)
    (hl : Q.length = rtcmPayloadLen Q + 6) :
    (cfgRtcm cap).step Q =
      if crc24q (Q.take (Q.length - 3)) = be24At Q (Q.length - 3) then .emit Q.length else .drop := by
  have hok := (rtcm_headerOk cap Q).2 hb
  have hm := rtcm_msgLen cap Q
  unfold Cfg.step
  rw [if_neg (by show ¬ Q.length < 3; omega)]
  show (if (cfgRtcm cap).headerOk (Q.take 3) = false then _ else _) = _
  rw [if_neg (by simp [hok]), if_neg (by omega)]
  have ht : Q.take ((cfgRtcm cap).msgLen Q) = Q := List.take_of_length_le (by omega)
  rw [ht, hm, ← hl]
  by_cases hc : crc24q (Q.take (Q.length - 3)) = be24At Q (Q.length - 3)
  · rw [if_pos ((rtcm_bodyOk cap Q).2 hc), if_pos hc]
  · rw [if_neg (fun h => hc ((rtcm_bodyOk cap Q).1 h)), if_neg hc]

/-! ### Skipping bytes that are not the preamble -/

/-- What the framer keeps of unjudged bytes: it never stores bytes in front of a preamble. -/
def rtcmNorm (bs : Bytes) : Bytes := bs.dropWhile (fun b => b != 0xD3)

/-- The scan, with the unjudged rest reduced to what the framer stores. -/
def nscan (cap : Nat) (buf : Bytes) : List Bytes × Bytes :=
  (((cfgRtcm cap).scan buf).1, rtcmNorm ((cfgRtcm cap).scan buf).2)

theorem rtcmNorm_nil : rtcmNorm [] = [] := rfl

theorem rtcmNorm_cons_ne {b : Byte} (t : Bytes) (h : b ≠ 0xD3) : rtcmNorm (b :: t) = rtcmNorm t := by
  unfold rtcmNorm; rw [List.dropWhile_cons]; simp [h]

theorem rtcmNorm_cons_eq (t : Bytes) : rtcmNorm (0xD3 :: t) = 0xD3 :: t := by
  unfold rtcmNorm; rw [List.dropWhile_cons]; simp

theorem byteAt_cons_zero (b : Byte) (t : Bytes) : byteAt (b :: t) 0 = b.toNat := by
  simp [byteAt]

theorem byte_eq_of_toNat {b : Byte} (h : b.toNat = 0xD3) : b = 0xD3 := by
  apply UInt8.toNat_inj.1; simpa using h

theorem rtcmNorm_of_pre {Q : Bytes} (h : byteAt Q 0 = 0xD3) : rtcmNorm Q = Q := by
  cases Q with
  | nil => simp [byteAt] at h
  | cons b t =>
    rw [byteAt_cons_zero] at h
    rw [byte_eq_of_toNat h]; exact rtcmNorm_cons_eq t

theorem nscan_skip (cap : Nat) {b : Byte} (t : Bytes) (h : b ≠ 0xD3) : nscan cap (b :: t) = nscan cap t := by
  unfold nscan
  have hb : ¬ (byteAt (b :: t) 0 = 0xD3 ∧ rtcmPayloadLen (b :: t) + 6 ≤ cap ∧ rtcmPayloadLen (b :: t) + 6 ≤ 1029) := by
    intro hh; rw [byteAt_cons_zero] at hh; exact h (byte_eq_of_toNat hh.1)
  by_cases hl : 3 ≤ (b :: t).length
  · rw [Cfg.scan_drop (rtcm_step_badHeader cap hl hb)]; simp
  · have h1 : (cfgRtcm cap).step (b :: t) = .stop := rtcm_step_short cap (by omega)
    have h2 : (cfgRtcm cap).step t = .stop := rtcm_step_short cap (by simp at hl; omega)
    rw [Cfg.scan_stop h1, Cfg.scan_stop h2, rtcmNorm_cons_ne t h]

/-- Resuming on the reduced rest is resuming on the rest. -/
theorem nscan_norm_append (cap : Nat) (r more : Bytes) : nscan cap (rtcmNorm r ++ more) = nscan cap (r ++ more) := by
  induction r with
  | nil => rfl
  | cons b t ih =>
    by_cases h : b = 0xD3
    · subst h; rw [rtcmNorm_cons_eq]
    · rw [rtcmNorm_cons_ne t h, ih, List.cons_append, nscan_skip cap _ h]

theorem nscan_append (cap : Nat) (buf more : Bytes) :
    nscan cap (buf ++ more) =
      ((nscan cap buf).1 ++ (nscan cap ((nscan cap buf).2 ++ more)).1, (nscan cap ((nscan cap buf).2 ++ more)).2) := by
  show nscan cap (buf ++ more) =
    (((cfgRtcm cap).scan buf).1 ++ (nscan cap (rtcmNorm ((cfgRtcm cap).scan buf).2 ++ more)).1,
      (nscan cap (rtcmNorm ((cfgRtcm cap).scan buf).2 ++ more)).2)
  rw [nscan_norm_append]
  unfold nscan
  rw [Cfg.scan_append]

theorem nscan_stop (cap : Nat) {Q : Bytes} (h : (cfgRtcm cap).step Q = .stop) : nscan cap Q = ([], rtcmNorm Q) := by
  unfold nscan; rw [Cfg.scan_stop h]

theorem nscan_drop (cap : Nat) {Q : Bytes} (h : (cfgRtcm cap).step Q = .drop) : nscan cap Q = nscan cap (Q.drop 1) := by
  unfold nscan; rw [Cfg.scan_drop h]

theorem nscan_emit (cap : Nat) {Q : Bytes} {n : Nat} (h : (cfgRtcm cap).step Q = .emit n) :
    nscan cap Q = (Q.take n :: (nscan cap (Q.drop n)).1, (nscan cap (Q.drop n)).2) := by
  unfold nscan; rw [Cfg.scan_emit h]

theorem nscan_nil (cap : Nat) : nscan cap [] = ([], []) := by
  rw [nscan_stop cap (rtcm_step_short cap (by simp))]; rfl

/-! ### Reading the model's buffer -/

theorem rd_eq {s : Rtcm} {Q : Bytes} {n : Nat} (hp : s.buf.take n = Q) {i : Nat} (h : i < n) :
    (s.rd i).toNat = byteAt Q i := by
  rw [← hp, byteAt_take _ _ _ h]; rfl

theorem be16_eq {s : Rtcm} {Q : Bytes} {n : Nat} (hp : s.buf.take n = Q) {i : Nat} (h : i + 1 < n) :
    s.be16 i = (byteAt Q i <<< 8) ||| byteAt Q (i + 1) := by
  unfold Rtcm.be16; rw [rd_eq hp (by omega), rd_eq hp h]

theorem be24_eq {s : Rtcm} {Q : Bytes} {n : Nat} (hp : s.buf.take n = Q) {i : Nat} (h : i + 2 < n) :
    s.be24 i = be24At Q i := by
  unfold Rtcm.be24 be24At; rw [rd_eq hp (by omega), rd_eq hp (by omega), rd_eq hp h]

theorem payloadSize_eq {s : Rtcm} {Q : Bytes} {n : Nat} (hp : s.buf.take n = Q) (h : 3 ≤ n) :
    s.payloadSize = rtcmPayloadLen Q := by
  unfold Rtcm.payloadSize rtcmPayloadLen; rw [be16_eq hp (by omega)]

theorem touch_lt {s : Rtcm} {i : Nat} (h : i < s.cap) : s.touch i = s := by
  unfold Rtcm.touch; rw [if_pos h]

theorem touchRange_le {s : Rtcm} {n : Nat} (h : n ≤ s.cap) : s.touchRange n = s := by
  unfold Rtcm.touchRange; rw [if_pos h]

/-! ### The invariant -/

/-- What framing never changes, and what it needs: a buffer of `cap ≥ 3` bytes, no access outside it so far. -/
structure Base (cap : Nat) (s : Rtcm) : Prop where
  hasBuf : s.hasBuf = true
  nofault : s.fault = false
  capEq : s.cap = cap
  len : s.buf.length = cap
  cap3 : 3 ≤ cap
  dec : s.decoded < U32

/-- The framing state agrees with the stored candidate `P`. -/
def StCoh (s : Rtcm) (P : Bytes) : Prop :=
  match s.state with
  | .sync => P = []
  | .header => (P.length = 1 ∨ P.length = 2) ∧ byteAt P 0 = 0xD3
  | .data => 3 ≤ P.length ∧ P.length < s.cur ∧ s.cur ≤ s.cap ∧ s.cur ≤ 1029 ∧ byteAt P 0 = 0xD3 ∧
      s.cur = rtcmPayloadLen P + 6

/-- Between calls: the framer stores exactly the candidate `P` in `buffer_[0, next_byte_index_)`. -/
structure Coh (cap : Nat) (s : Rtcm) (P : Bytes) : Prop where
  base : Base cap s
  next : s.next = P.length
  pref : s.buf.take s.next = P
  st : StCoh s P

/-- On entry to `OnByte`: `Q` is the candidate including the byte being processed. -/
def StB (s : Rtcm) (Q : Bytes) : Prop :=
  match s.state with
  | .sync => Q.length = 1
  | .header => (Q.length = 2 ∨ Q.length = 3) ∧ byteAt Q 0 = 0xD3
  | .data => 4 ≤ Q.length ∧ Q.length ≤ s.cur ∧ s.cur ≤ s.cap ∧ s.cur ≤ 1029 ∧ byteAt Q 0 = 0xD3 ∧
      s.cur = rtcmPayloadLen Q + 6

def cbOf (f : Bytes) : RtcmCb := ⟨rtcmMsgNum f, f⟩

theorem coh_len {cap : Nat} {s : Rtcm} {P : Bytes} (h : Coh cap s P) : P.length ≤ cap := by
  have := h.pref
  have hl := congrArg List.length this
  simp only [List.length_take] at hl
  rw [h.base.len] at hl
  omega

/-- A stored candidate cannot be judged yet, and starts with the preamble. -/
theorem coh_stop {cap : Nat} {s : Rtcm} {P : Bytes} (h : Coh cap s P) :
    (cfgRtcm cap).step P = .stop ∧ rtcmNorm P = P := by
  have hst := h.st
  unfold StCoh at hst
  cases hs : s.state with
  | sync => rw [hs] at hst; simp only at hst; subst hst; exact ⟨rtcm_step_short cap (by simp), rfl⟩
  | header =>
    rw [hs] at hst; simp only at hst
    exact ⟨rtcm_step_short cap (by omega), rtcmNorm_of_pre hst.2⟩
  | data =>
    rw [hs] at hst; simp only at hst
    obtain ⟨h1, h2, h3, h4, h5, h6⟩ := hst
    rw [h.base.capEq] at h3
    exact ⟨rtcm_step_wait cap h1 ⟨h5, by omega, by omega⟩ (by omega), rtcmNorm_of_pre h5⟩

/-! ### `OnByte` -/

/-- The four things `OnByte` can do with the candidate `Q = buffer_[0, next_byte_index_)`. -/
inductive ByteRes (cap : Nat) (s : Rtcm) (Q : Bytes) (r : ROut Int) : Prop
  /-- searching, and the byte is not the preamble: it is removed again -/
  | skip (h1 : byteAt Q 0 ≠ 0xD3) (h2 : Q.length = 1) (h3 : r.ret = 0) (h4 : r.cbs = [])
      (h5 : Coh cap r.s []) (h6 : r.s.buf = s.buf) (h7 : r.s.decoded = s.decoded)
  /-- the candidate cannot be judged yet -/
  | wait (h1 : byteAt Q 0 = 0xD3) (h2 : (cfgRtcm cap).step Q = .stop) (h3 : r.ret = 0) (h4 : r.cbs = [])
      (h5 : Coh cap r.s Q) (h6 : r.s.buf = s.buf) (h7 : r.s.decoded = s.decoded)
  /-- the candidate is rejected (too long for the buffer, or CRC mismatch) -/
  | reject (h1 : byteAt Q 0 = 0xD3) (h2 : (cfgRtcm cap).step Q = .drop) (h3 : r.ret = -1) (h4 : r.cbs = [])
      (h5 : Base cap r.s) (h6 : r.s.buf = s.buf) (h7 : r.s.decoded = s.decoded) (h8 : r.s.state = .sync)
      (h9 : r.s.next = s.next)
  /-- the candidate is a frame and is dispatched -/
  | accept (h1 : byteAt Q 0 = 0xD3) (h2 : (cfgRtcm cap).step Q = .emit Q.length) (h3 : r.ret = Int.ofNat Q.length)
      (h4 : r.cbs = [cbOf Q]) (h5 : Base cap r.s) (h6 : r.s.buf = s.buf)
      (h7 : r.s.decoded = (s.decoded + 1) % U32) (h8 : r.s.state = .sync) (h9 : r.s.next = s.next)

theorem onByte_spec (cap : Nat) (s : Rtcm) (Q : Bytes) (quiet : Bool) (hb : Base cap s)
    (hn : s.next = Q.length) (hp : s.buf.take s.next = Q) (h1 : 1 ≤ Q.length) (hst : StB s Q) :
    ByteRes cap s Q (onByte s quiet) := by
  have hle : Q.length ≤ cap := by
    have hl := congrArg List.length hp
    simp only [List.length_take] at hl
    rw [hb.len] at hl; omega
  have hcap := hb.capEq
  subst hcap
  obtain ⟨b1, b2, b3, b4, b5, b6⟩ := hb
  unfold onByte
  rw [if_neg (by simp [b1]), if_neg (by omega), touch_lt (by omega)]
  unfold StB at hst
  cases hs : s.state with
  | sync =>
    rw [hs] at hst; simp only at hst ⊢
    unfold onByteSync
    have hq : (s.rd (s.next - 1)).toNat = byteAt Q 0 := by
      rw [hn, hst]; exact rd_eq hp (by omega)
    by_cases hd : s.rd (s.next - 1) = 0xD3
    · rw [if_pos hd]
      have hq0 : byteAt Q 0 = 0xD3 := by rw [← hq, hd]; rfl
      refine .wait hq0 (rtcm_step_short s.cap (by omega)) rfl rfl ?_ rfl rfl
      exact ⟨⟨b1, b2, b3, b4, b5, b6⟩, hn, hp, by
        show StCoh _ _
        unfold StCoh; simp only; exact ⟨Or.inl hst, hq0⟩⟩
    · rw [if_neg hd]
      have hq0 : byteAt Q 0 ≠ 0xD3 := by
        intro h; rw [← hq] at h; exact hd (byte_eq_of_toNat h)
      refine .skip hq0 hst rfl rfl ?_ rfl rfl
      exact ⟨⟨b1, b2, b3, b4, b5, b6⟩, by simp; omega, by
        show List.take (s.next - 1) s.buf = []
        rw [hn, hst]; rfl, by
        show StCoh _ _
        unfold StCoh; simp only [hs]⟩
  | header =>
    rw [hs] at hst; simp only at hst ⊢
    obtain ⟨hl, hq0⟩ := hst
    unfold onByteHeader
    by_cases h3 : s.next = 3
    · rw [if_pos h3, touch_lt (s := s) (i := 1) (by omega), touch_lt (s := s) (i := 2) (by omega)]
      have hps : s.payloadSize = rtcmPayloadLen Q := payloadSize_eq hp (by omega)
      unfold onByteHeaderDone
      simp only
      rw [hps]
      by_cases hfit : rtcmPayloadLen Q + 6 ≤ s.cap ∧ rtcmPayloadLen Q + 6 ≤ 3 + 1023 + 3
      · rw [if_pos hfit]
        refine .wait hq0 (rtcm_step_wait s.cap (by omega) ⟨hq0, hfit.1, by omega⟩ (by omega)) rfl rfl ?_ rfl rfl
        exact ⟨⟨b1, b2, b3, b4, b5, b6⟩, hn, hp, by
          show StCoh _ _
          unfold StCoh; simp only
          exact ⟨by omega, by omega, by omega, by omega, hq0, trivial⟩⟩
      · rw [if_neg hfit]
        refine .reject hq0 (rtcm_step_badHeader s.cap (by omega) (by
          intro hh; exact hfit ⟨hh.2.1, by omega⟩)) rfl rfl ?_ rfl rfl rfl rfl
        exact ⟨b1, b2, b3, b4, b5, b6⟩
    · rw [if_neg h3]
      refine .wait hq0 (rtcm_step_short s.cap (by omega)) rfl rfl ?_ rfl rfl
      exact ⟨⟨b1, b2, b3, b4, b5, b6⟩, hn, hp, by
        show StCoh _ _
        unfold StCoh; rw [hs]; simp only; exact ⟨by omega, hq0⟩⟩
  | data =>
    rw [hs] at hst; simp only at hst ⊢
    obtain ⟨hl4, hlc, hcc, hc9, hq0, hcur⟩ := hst
    unfold onByteData
    by_cases hfull : s.next = s.cur
    · rw [if_pos hfull]
      have hcs : s.checkSize = Q.length - 3 := by
        unfold Rtcm.checkSize; rw [if_pos (by omega)]; omega
      have hql : Q.length = rtcmPayloadLen Q + 6 := by omega
      have hstep := rtcm_step_full s.cap (Q := Q) ⟨hq0, by omega, by omega⟩ hql
      unfold onByteCrc
      rw [touch_lt (s := s) (i := 3) (by omega), touch_lt (s := s) (i := 4) (by omega), hcs,
        touchRange_le (s := s) (n := Q.length - 3) (by omega), touchRange_le (s := s) (n := Q.length - 3 + 3) (by omega)]
      have hcrc : crc24Src (s.buf.take (Q.length - 3)) = crc24q (Q.take (Q.length - 3)) := by
        have e := List.take_take (l := s.buf) (i := Q.length - 3) (j := s.next)
        rw [hp, Nat.min_eq_left (by omega)] at e
        rw [crc24Src_eq, e]
      have hbe : s.be24 (Q.length - 3) = be24At Q (Q.length - 3) := be24_eq hp (by omega)
      rw [hcrc, hbe]
      by_cases hc : crc24q (Q.take (Q.length - 3)) = be24At Q (Q.length - 3)
      · rw [if_pos hc]
        rw [if_pos hc] at hstep
        have hcb : (⟨s.be16 3 >>> 4, s.buf.take s.cur⟩ : RtcmCb) = cbOf Q := by
          unfold cbOf rtcmMsgNum
          rw [be16_eq hp (by omega), ← hfull, hp]
        refine .accept hq0 hstep ?_ ?_ ?_ rfl rfl rfl rfl
        · show Int.ofNat s.cur = _; rw [← hfull, hn]
        · show [_] = [_]; rw [hcb]
        · exact ⟨b1, b2, b3, b4, b5, Nat.mod_lt _ (by decide)⟩
      · rw [if_neg hc]
        rw [if_neg hc] at hstep
        refine .reject hq0 hstep rfl rfl ?_ rfl rfl rfl rfl
        exact ⟨b1, b2, b3, b4, b5, b6⟩
    · rw [if_neg hfull]
      refine .wait hq0 (rtcm_step_wait s.cap (by omega) ⟨hq0, by omega, by omega⟩ (by omega)) rfl rfl ?_ rfl rfl
      exact ⟨⟨b1, b2, b3, b4, b5, b6⟩, hn, hp, by
        show StCoh _ _
        unfold StCoh; rw [hs]; simp only
        exact ⟨by omega, by omega, by omega, hc9, hq0, hcur⟩⟩

/-! ### `Resync` -/

theorem stB_succ (s s' : Rtcm) (hs : s'.state = s.state) (hc : s'.cur = s.cur) (hcap : s'.cap = s.cap)
    (B : Bytes) (k : Nat) (hk : k + 1 ≤ B.length) (h : StCoh s (B.take k)) : StB s' (B.take (k + 1)) := by
  unfold StCoh at h
  unfold StB
  rw [hs, hc, hcap]
  have hl : (B.take k).length = k := by simp; omega
  have hl' : (B.take (k + 1)).length = k + 1 := by simp; omega
  cases hst : s.state with
  | sync =>
    rw [hst] at h; simp only at h ⊢
    rw [h] at hl; simp at hl; rw [hl'] ; omega
  | header =>
    rw [hst] at h; simp only at h ⊢
    rw [hl] at h; rw [hl']
    refine ⟨by omega, ?_⟩
    rw [byteAt_take _ _ _ (by omega)]
    rw [byteAt_take _ _ _ (by omega)] at h
    exact h.2
  | data =>
    rw [hst] at h; simp only at h ⊢
    rw [hl] at h; rw [hl']
    obtain ⟨h1, h2, h3, h4, h5, h6⟩ := h
    rw [byteAt_take _ _ _ (by omega)] at h5
    rw [rtcmPayloadLen_take _ _ (by omega)] at h6
    rw [byteAt_take _ _ _ (by omega), rtcmPayloadLen_take _ _ (by omega)]
    exact ⟨by omega, by omega, h3, h4, h5, h6⟩

def lens (F : List Bytes) : Nat := (F.map List.length).sum

/-- Loop invariant of `Resync`: while searching nothing is stored; otherwise the candidate
`buffer_[0, offset)` is stored coherently. -/
structure RInv (cap : Nat) (x : RLoop) : Prop where
  base : Base cap x.s
  avail : x.available ≤ cap
  st : if x.s.state = .sync then x.s.next = 0
       else x.prev + 1 ≤ x.available ∧ Coh cap x.s (x.s.buf.take (x.prev + 1))

/-- What the rest of the loop will deliver: the scan of the bytes not yet judged. -/
def target (cap : Nat) (x : RLoop) : List Bytes × Bytes :=
  nscan cap (if x.s.state = .sync then (x.s.buf.take x.available).drop (x.prev + 1) else x.s.buf.take x.available)

theorem target_sync (cap : Nat) (x : RLoop) (h : x.s.state = .sync) :
    target cap x = nscan cap ((x.s.buf.take x.available).drop (x.prev + 1)) := by
  unfold target; rw [if_pos h]

theorem target_nonsync (cap : Nat) (x : RLoop) (h : ¬ x.s.state = .sync) :
    target cap x = nscan cap (x.s.buf.take x.available) := by
  unfold target; rw [if_neg h]

theorem coh_nonempty_ne_sync {cap : Nat} {s : Rtcm} {Q : Bytes} (h : Coh cap s Q) (hq : 1 ≤ Q.length) :
    s.state ≠ .sync := by
  intro hs
  have := h.st
  unfold StCoh at this
  rw [hs] at this; simp only at this
  subst this; simp at hq

theorem resyncProcess_spec (cap : Nat) (s : Rtcm) (offset available total : Nat) (hb : Base cap s)
    (ho : offset < available) (ha : available ≤ cap)
    (hst : StB { s with next := offset + 1 } (s.buf.take (offset + 1)))
    (hpre : byteAt (s.buf.take (offset + 1)) 0 = 0xD3) :
    ∃ F, (resyncProcess s offset available total).2 = F.map cbOf ∧
      RInv cap (resyncProcess s offset available total).1 ∧
      nscan cap (s.buf.take available) =
        (F ++ (target cap (resyncProcess s offset available total).1).1,
          (target cap (resyncProcess s offset available total).1).2) ∧
      (resyncProcess s offset available total).1.total = total + lens F ∧
      (resyncProcess s offset available total).1.s.decoded = (s.decoded + F.length) % U32 := by
  have hlen : (s.buf.take (offset + 1)).length = offset + 1 := by
    simp; rw [hb.len]; omega
  have hWQ : (s.buf.take available).take (offset + 1) = s.buf.take (offset + 1) := by
    rw [List.take_take, Nat.min_eq_left (by omega)]
  have hspec := onByte_spec cap { s with next := offset + 1 } (s.buf.take (offset + 1)) true
    ⟨hb.hasBuf, hb.nofault, hb.capEq, hb.len, hb.cap3, hb.dec⟩ hlen.symm rfl (by omega) hst
  have hdec : s.decoded % U32 = s.decoded := Nat.mod_eq_of_lt hb.dec
  unfold resyncProcess
  simp only
  generalize onByte { s with next := offset + 1 } true = r at hspec ⊢
  cases hspec with
  | skip h1 => exact absurd hpre h1
  | wait h1 h2 h3 h4 h5 h6 h7 =>
    replace h6 : r.s.buf = s.buf := h6
    replace h7 : r.s.decoded = s.decoded := h7
    have hns := coh_nonempty_ne_sync h5 (by omega)
    rw [if_neg hns]
    refine ⟨[], by simp [h4], ⟨h5.base, ha, ?_⟩, ?_, by simp [lens], by simp [h7, hdec]⟩
    · simp only [if_neg hns]
      refine ⟨by omega, ?_⟩
      rw [h6]; exact h5
    · unfold target
      simp only [if_neg hns, List.nil_append]
      rw [h6]
  | reject h1 h2 h3 h4 h5 h6 h7 h8 h9 =>
    replace h6 : r.s.buf = s.buf := h6
    replace h7 : r.s.decoded = s.decoded := h7
    rw [if_pos h8, if_neg (by rw [h3]; decide)]
    refine ⟨[], by simp [h4], ⟨⟨h5.hasBuf, h5.nofault, h5.capEq, h5.len, h5.cap3, h5.dec⟩, ha, ?_⟩, ?_,
      by simp [lens], by simp [h7, hdec]⟩
    · simp only [h8, if_true]
    · unfold target
      simp only [h8, if_true, List.nil_append]
      rw [h6]
      have : (cfgRtcm cap).step (s.buf.take available) = .drop := by
        rw [Cfg.step_of_take (k := offset + 1) (by rw [hWQ, h2]; simp), hWQ, h2]
      rw [nscan_drop cap this]
  | accept h1 h2 h3 h4 h5 h6 h7 h8 h9 =>
    replace h6 : r.s.buf = s.buf := h6
    replace h7 : r.s.decoded = (s.decoded + 1) % U32 := h7
    rw [hlen] at h2 h3
    rw [if_pos h8, if_pos (by rw [h3]; simp)]
    refine ⟨[s.buf.take (offset + 1)], by simp [h4],
      ⟨⟨h5.hasBuf, h5.nofault, h5.capEq, h5.len, h5.cap3, h5.dec⟩, ha, ?_⟩, ?_, ?_, by simp [h7]⟩
    · simp only [h8, if_true]
    · unfold target
      simp only [h8, if_true]
      rw [h6, h3]
      have : (cfgRtcm cap).step (s.buf.take available) = .emit (offset + 1) := by
        rw [Cfg.step_of_take (k := offset + 1) (by rw [hWQ, h2]; simp), hWQ, h2]
      rw [nscan_emit cap this, hWQ]
      simp
    · simp [h3, lens, hlen]

theorem memmove_buf_length (buf : Bytes) (o n : Nat) (h : o + n ≤ buf.length) :
    ((buf.drop o).take n ++ buf.drop n).length = buf.length := by
  simp; omega

theorem memmove_buf_take (buf : Bytes) (o a : Nat) (ho : o ≤ a) (ha : a ≤ buf.length) :
    ((buf.drop o).take (a - o) ++ buf.drop (a - o)).take (a - o) = (buf.take a).drop o := by
  rw [List.take_append_of_le_length (by simp; omega), List.take_take, Nat.min_self, List.drop_take]

theorem drop_cons_getD (W : Bytes) (o : Nat) (h : o < W.length) : W.drop o = W.getD o 0 :: W.drop (o + 1) := by
  rw [List.drop_eq_getElem_cons h]
  congr 1
  simp [List.getD, h]

theorem resyncIter_spec (cap : Nat) (x : RLoop) (hi : RInv cap x) (hlt : x.prev + 1 < x.available) :
    ∃ F, (resyncIter x).2 = F.map cbOf ∧ RInv cap (resyncIter x).1 ∧
      target cap x = (F ++ (target cap (resyncIter x).1).1, (target cap (resyncIter x).1).2) ∧
      (resyncIter x).1.total = x.total + lens F ∧
      (resyncIter x).1.s.decoded = (x.s.decoded + F.length) % U32 := by
  obtain ⟨hb, ha, hst⟩ := hi
  have hcapeq := hb.capEq
  have hblen := hb.len
  have htouch : x.s.touch (x.prev + 1) = x.s := touch_lt (by omega)
  unfold resyncIter
  by_cases hs : x.s.state = .sync
  · rw [if_pos hs] at hst
    rw [if_pos hs]
    have hWlen : (x.s.buf.take x.available).length = x.available := by simp; omega
    have hdrop := drop_cons_getD (x.s.buf.take x.available) (x.prev + 1) (by omega)
    rw [getD_take _ _ _ _ hlt] at hdrop
    by_cases hd : x.s.rd (x.prev + 1) = 0xD3
    · rw [if_pos hd, htouch]
      -- the shifted state
      have hmm : (x.s.memmove (x.prev + 1) (x.available - (x.prev + 1))) =
          { x.s with buf := (x.s.buf.drop (x.prev + 1)).take (x.available - (x.prev + 1)) ++
                              x.s.buf.drop (x.available - (x.prev + 1)) } := by
        unfold Rtcm.memmove; rw [touchRange_le (by omega)]
      rw [hmm]
      have hbuf' := memmove_buf_take x.s.buf (x.prev + 1) x.available (by omega) (by omega)
      have hlen' := memmove_buf_length x.s.buf (x.prev + 1) (x.available - (x.prev + 1)) (by omega)
      have hone : (((x.s.buf.drop (x.prev + 1)).take (x.available - (x.prev + 1)) ++
          x.s.buf.drop (x.available - (x.prev + 1))).take (0 + 1)) = [0xD3] := by
        have := congrArg (List.take 1) hbuf'
        rw [List.take_take, Nat.min_eq_left (by omega)] at this
        rw [Nat.zero_add, this, hdrop]
        simp only [List.take_succ_cons, List.take_zero]
        unfold Rtcm.rd at hd; rw [hd]
      obtain ⟨F, h1, h2, h3, h4, h5⟩ := resyncProcess_spec cap
        { x.s with buf := (x.s.buf.drop (x.prev + 1)).take (x.available - (x.prev + 1)) ++
                            x.s.buf.drop (x.available - (x.prev + 1)) }
        0 (x.available - (x.prev + 1)) x.total
        ⟨hb.hasBuf, hb.nofault, hb.capEq, by simp only; rw [hlen']; exact hblen, hb.cap3, hb.dec⟩
        (by omega) (by omega)
        (by simp only; rw [hone]; unfold StB; simp only [hs]; rfl)
        (by simp only; rw [hone]; rfl)
      refine ⟨F, h1, h2, ?_, h4, h5⟩
      rw [target_sync cap x hs]
      simp only at h3
      rw [hbuf'] at h3
      exact h3
    · rw [if_neg hd, htouch]
      refine ⟨[], rfl, ⟨hb, ha, by simp only [hs, if_true]; exact hst⟩, ?_, by simp [lens],
        by simp [Nat.mod_eq_of_lt hb.dec]⟩
      rw [target_sync cap x hs]
      simp only [List.nil_append]
      rw [target_sync cap ⟨x.s, x.prev + 1, x.available, x.total⟩ hs]
      simp only
      rw [hdrop]
      exact nscan_skip cap _ hd
  · rw [if_neg hs] at hst
    rw [if_neg hs, htouch]
    obtain ⟨hpa, hcoh⟩ := hst
    have hl : (x.s.buf.take (x.prev + 1)).length = x.prev + 1 := by simp; omega
    have hpre : byteAt (x.s.buf.take (x.prev + 1 + 1)) 0 = 0xD3 := by
      have h0 := hcoh.st
      unfold StCoh at h0
      rw [byteAt_take _ _ _ (by omega)]
      cases hst' : x.s.state with
      | sync => exact absurd hst' hs
      | header => rw [hst'] at h0; simp only at h0; rw [byteAt_take _ _ _ (by omega)] at h0; exact h0.2
      | data => rw [hst'] at h0; simp only at h0; rw [byteAt_take _ _ _ (by omega)] at h0; exact h0.2.2.2.2.1
    obtain ⟨F, h1, h2, h3, h4, h5⟩ := resyncProcess_spec cap x.s (x.prev + 1) x.available x.total hb hlt ha
      (stB_succ x.s _ rfl rfl rfl x.s.buf (x.prev + 1) (by omega) hcoh.st) hpre
    refine ⟨F, h1, h2, ?_, h4, h5⟩
    rw [target_nonsync cap x hs]
    exact h3

theorem resyncLoop_unfold (x : RLoop) :
    resyncLoop x = if x.prev + 1 < x.available then
      ⟨(resyncLoop (resyncIter x).1).s, (resyncLoop (resyncIter x).1).ret,
        (resyncIter x).2 ++ (resyncLoop (resyncIter x).1).cbs⟩
    else ⟨x.s, x.total, []⟩ := by
  rw [resyncLoop]
  split <;> rfl

theorem resyncLoop_spec (cap : Nat) (x : RLoop) (hi : RInv cap x) :
    (resyncLoop x).cbs = (target cap x).1.map cbOf ∧ Coh cap (resyncLoop x).s (target cap x).2 ∧
      (resyncLoop x).ret = x.total + lens (target cap x).1 ∧
      (resyncLoop x).s.decoded = (x.s.decoded + (target cap x).1.length) % U32 := by
  induction x using resyncLoop.induct with
  | case1 x hlt ih =>
    obtain ⟨F, h1, h2, h3, h4, h5⟩ := resyncIter_spec cap x hi hlt
    obtain ⟨i1, i2, i3, i4⟩ := ih h2
    rw [resyncLoop_unfold, if_pos hlt]
    simp only
    rw [h3]
    simp only
    refine ⟨by rw [h1, i1]; simp, i2, ?_, ?_⟩
    · rw [i3, h4]; simp [lens]; omega
    · rw [i4, h5]; simp only [List.length_append]; unfold U32; omega
  | case2 x hge =>
    rw [resyncLoop_unfold, if_neg hge]
    simp only
    obtain ⟨hb, ha, hst⟩ := hi
    unfold target
    by_cases hs : x.s.state = .sync
    · rw [if_pos hs] at hst
      rw [if_pos hs]
      have : (x.s.buf.take x.available).drop (x.prev + 1) = [] := by
        apply List.drop_eq_nil_of_le; simp; omega
      rw [this, nscan_nil]
      refine ⟨rfl, ⟨hb, by simpa using hst, by rw [hst]; rfl, by unfold StCoh; simp only [hs]⟩, by simp [lens],
        by simp [Nat.mod_eq_of_lt hb.dec]⟩
    · rw [if_neg hs] at hst
      rw [if_neg hs]
      obtain ⟨hpa, hcoh⟩ := hst
      have he : x.prev + 1 = x.available := by omega
      rw [he] at hcoh
      obtain ⟨hstop, hnorm⟩ := coh_stop hcoh
      rw [nscan_stop cap hstop, hnorm]
      exact ⟨rfl, hcoh, by simp [lens], by simp [Nat.mod_eq_of_lt hb.dec]⟩

/-! ### `OnData` -/

theorem take_set_succ (buf : Bytes) (k : Nat) (b : Byte) (h : k < buf.length) :
    (buf.set k b).take (k + 1) = buf.take k ++ [b] := by
  rw [List.take_add_one, List.take_set_of_le (Nat.le_refl k)]
  simp [h]

/-- One byte of `OnData`: the callbacks are the frames the scan accepts on `P ++ [b]`, the new
candidate is what the scan leaves. -/
theorem onDataByte_spec (cap : Nat) (s : Rtcm) (P : Bytes) (b : Byte) (h : Coh cap s P) :
    (onDataByte s b).cbs = (nscan cap (P ++ [b])).1.map cbOf ∧
      Coh cap (onDataByte s b).s (nscan cap (P ++ [b])).2 ∧
      (onDataByte s b).ret = lens (nscan cap (P ++ [b])).1 ∧
      (onDataByte s b).s.decoded = (s.decoded + (nscan cap (P ++ [b])).1.length) % U32 := by
  have hb := h.base
  have hPlt : P.length < cap := by
    have hst := h.st
    unfold StCoh at hst
    cases hs : s.state with
    | sync => rw [hs] at hst; simp only at hst; subst hst; simp; have := hb.cap3; omega
    | header => rw [hs] at hst; simp only at hst; have := hb.cap3; omega
    | data => rw [hs] at hst; simp only at hst; rw [hb.capEq] at hst; omega
  have hdec : s.decoded % U32 = s.decoded := Nat.mod_eq_of_lt hb.dec
  -- the state handed to OnByte
  have hwr : s.wr s.next b = { s with buf := s.buf.set s.next b } := by
    unfold Rtcm.wr; rw [if_pos (by rw [h.next, hb.capEq]; exact hPlt)]
  have hQ : (s.buf.set s.next b).take (s.next + 1) = P ++ [b] := by
    rw [take_set_succ _ _ _ (by rw [hb.len, h.next]; exact hPlt), h.pref]
  have hP : (P ++ [b]).take P.length = P := by simp
  have hstB : StB { s.wr s.next b with next := s.next + 1 } (P ++ [b]) := by
    have := stB_succ s { s.wr s.next b with next := s.next + 1 } (by rw [hwr]) (by rw [hwr]) (by rw [hwr])
      (P ++ [b]) P.length (by simp) (by rw [hP]; exact h.st)
    rwa [List.take_of_length_le (by simp)] at this
  have hspec := onByte_spec cap { s.wr s.next b with next := s.next + 1 } (P ++ [b]) false
    ⟨by rw [hwr]; exact hb.hasBuf, by rw [hwr]; exact hb.nofault, by rw [hwr]; exact hb.capEq,
      by rw [hwr]; simp; exact hb.len, hb.cap3, by rw [hwr]; exact hb.dec⟩
    (by simp [h.next]) (by rw [hwr]; exact hQ) (by simp) hstB
  unfold onDataByte
  generalize onByte { s.wr s.next b with next := s.next + 1 } false = r at hspec ⊢
  unfold onDataAfter
  cases hspec with
  | skip h1 h2 h3 h4 h5 h6 h7 =>
    replace h7 : r.s.decoded = s.decoded := by rw [h7, hwr]
    rw [if_pos h3]
    have : nscan cap (P ++ [b]) = ([], []) := by
      rw [nscan_stop cap (rtcm_step_short cap (by omega))]
      cases hPb : P ++ [b] with
      | nil => simp at hPb
      | cons q t =>
        rw [hPb] at h1 h2
        have : t = [] := by simpa using h2
        subst this
        rw [byteAt_cons_zero] at h1
        rw [rtcmNorm_cons_ne _ (by intro hq; rw [hq] at h1; exact h1 rfl)]; rfl
    rw [this]
    exact ⟨by simp [h4], h5, by simp [lens], by simp [h7, hdec]⟩
  | wait h1 h2 h3 h4 h5 h6 h7 =>
    replace h7 : r.s.decoded = s.decoded := by rw [h7, hwr]
    rw [if_pos h3, nscan_stop cap h2, rtcmNorm_of_pre h1]
    exact ⟨by simp [h4], h5, by simp [lens], by simp [h7, hdec]⟩
  | reject h1 h2 h3 h4 h5 h6 h7 h8 h9 =>
    replace h7 : r.s.decoded = s.decoded := by rw [h7, hwr]
    replace h9 : r.s.next = s.next + 1 := h9
    replace h6 : r.s.buf = s.buf.set s.next b := by rw [h6, hwr]
    rw [if_neg (by rw [h3]; decide), if_neg (by rw [h3]; decide), if_pos (by omega)]
    have hri : RInv cap ⟨{ r.s with state := .sync, next := 0 }, 0, r.s.next, 0⟩ :=
      ⟨⟨h5.hasBuf, h5.nofault, h5.capEq, h5.len, h5.cap3, h5.dec⟩, by
        show r.s.next ≤ cap
        rw [h9, h.next]; omega, by simp⟩
    obtain ⟨i1, i2, i3, i4⟩ := resyncLoop_spec cap _ hri
    have ht : target cap ⟨{ r.s with state := .sync, next := 0 }, 0, r.s.next, 0⟩ = nscan cap (P ++ [b]) := by
      rw [target_sync cap _ rfl]
      simp only
      rw [h6, h9, hQ, Nat.zero_add, nscan_drop cap h2]
    rw [ht] at i1 i2 i3 i4
    unfold resync
    simp only
    exact ⟨by rw [h4, i1]; simp, i2, by rw [i3]; simp, by rw [i4]; simp [h7]⟩
  | accept h1 h2 h3 h4 h5 h6 h7 h8 h9 =>
    replace h7 : r.s.decoded = (s.decoded + 1) % U32 := by rw [h7, hwr]
    have hretpos : (0 : Int) < r.ret := by
      rw [h3]
      have : 0 < (P ++ [b]).length := by simp
      show (0 : Int) < ((P ++ [b]).length : Int)
      omega
    rw [if_neg (by omega), if_pos (by omega)]
    have : nscan cap (P ++ [b]) = ([P ++ [b]], []) := by
      rw [nscan_emit cap h2, List.take_length, List.drop_length, nscan_nil]
    rw [this]
    refine ⟨by simp [h4], ⟨⟨h5.hasBuf, h5.nofault, h5.capEq, h5.len, h5.cap3, h5.dec⟩, rfl, rfl, ?_⟩,
      by simp [h3, lens], by simp [h7]⟩
    unfold StCoh; simp only [h8]

theorem lens_append (a b : List Bytes) : lens (a ++ b) = lens a + lens b := by simp [lens]

theorem onDataLoop_spec (cap : Nat) (s : Rtcm) (P data : Bytes) (h : Coh cap s P) :
    (onDataLoop s data).cbs = (nscan cap (P ++ data)).1.map cbOf ∧
      Coh cap (onDataLoop s data).s (nscan cap (P ++ data)).2 ∧
      (onDataLoop s data).ret = lens (nscan cap (P ++ data)).1 ∧
      (onDataLoop s data).s.decoded = (s.decoded + (nscan cap (P ++ data)).1.length) % U32 := by
  induction data generalizing s P with
  | nil =>
    obtain ⟨hstop, hnorm⟩ := coh_stop h
    rw [List.append_nil, nscan_stop cap hstop, hnorm]
    exact ⟨rfl, h, rfl, by simp [onDataLoop, Nat.mod_eq_of_lt h.base.dec]⟩
  | cons b bs ih =>
    obtain ⟨h1, h2, h3, h4⟩ := onDataByte_spec cap s P b h
    obtain ⟨i1, i2, i3, i4⟩ := ih (onDataByte s b).s _ h2
    have e : P ++ b :: bs = (P ++ [b]) ++ bs := by simp
    rw [e, nscan_append]
    simp only [onDataLoop]
    refine ⟨by rw [h1, i1]; simp, i2, by rw [h3, i3, lens_append], ?_⟩
    rw [i4, h4]; simp only [List.length_append]; unfold U32; omega

theorem onData_spec (cap : Nat) (s : Rtcm) (P data : Bytes) (h : Coh cap s P) :
    (onData s data).cbs = (nscan cap (P ++ data)).1.map cbOf ∧
      Coh cap (onData s data).s (nscan cap (P ++ data)).2 ∧
      (onData s data).ret = lens (nscan cap (P ++ data)).1 ∧
      (onData s data).s.decoded = (s.decoded + (nscan cap (P ++ data)).1.length) % U32 := by
  unfold onData
  rw [if_pos h.base.hasBuf]
  exact onDataLoop_spec cap s P data h

theorem rtcmFeed_spec (cap : Nat) (s : Rtcm) (P : Bytes) (chunks : List Bytes) (h : Coh cap s P) :
    (rtcmFeed s chunks).2.2 = (nscan cap (P ++ chunks.flatten)).1.map cbOf ∧
      Coh cap (rtcmFeed s chunks).1 (nscan cap (P ++ chunks.flatten)).2 ∧
      (rtcmFeed s chunks).2.1.sum = lens (nscan cap (P ++ chunks.flatten)).1 ∧
      (rtcmFeed s chunks).1.decoded = (s.decoded + (nscan cap (P ++ chunks.flatten)).1.length) % U32 := by
  induction chunks generalizing s P with
  | nil =>
    obtain ⟨hstop, hnorm⟩ := coh_stop h
    simp only [List.flatten_nil, List.append_nil]
    rw [nscan_stop cap hstop, hnorm]
    exact ⟨rfl, h, rfl, by simp [rtcmFeed, Nat.mod_eq_of_lt h.base.dec]⟩
  | cons d ds ih =>
    obtain ⟨h1, h2, h3, h4⟩ := onData_spec cap s P d h
    obtain ⟨i1, i2, i3, i4⟩ := ih (onData s d).s _ h2
    have e : P ++ (d :: ds).flatten = (P ++ d) ++ ds.flatten := by simp
    rw [e, nscan_append]
    simp only [rtcmFeed]
    refine ⟨by rw [h1, i1]; simp, i2, by rw [List.sum_cons, h3, i3, lens_append], ?_⟩
    rw [i4, h4]; simp only [List.length_append]; unfold U32; omega

/-! ### Construction, `Reset`, reachable states -/

theorem coh_reset {cap : Nat} {s : Rtcm} (h1 : s.hasBuf = true) (h2 : s.fault = false) (h3 : s.cap = cap)
    (h4 : s.buf.length = cap) (h5 : 3 ≤ cap) : Coh cap s.reset [] :=
  ⟨⟨h1, h2, h3, h4, h5, by show 0 < U32; decide⟩, rfl, rfl, by
    unfold StCoh Rtcm.reset; simp only⟩

theorem alignUp4_bounds (a : Nat) : a ≤ alignUp4 a ∧ alignUp4 a ≤ a + 3 ∧ alignUp4 a % 4 = 0 := by
  unfold alignUp4; omega

theorem install_coh (s : Rtcm) (addr capacity : Nat) (fill : Nat → Byte) (hf : s.fault = false)
    (h6 : 6 ≤ capacity) :
    Coh (capacity - (alignUp4 addr - addr)) (s.install addr capacity fill) [] := by
  have := alignUp4_bounds addr
  unfold Rtcm.install
  exact coh_reset rfl hf rfl (by simp) (by omega)

/-! ### What no operation of the framing path undoes (for arbitrary states) -/

/-- `s'` has the same buffer pointer and capacity as `s`, and an out-of-bounds access recorded in `s`
is still recorded in `s'`. -/
structure Mono (s s' : Rtcm) : Prop where
  hasBuf : s'.hasBuf = s.hasBuf
  cap : s'.cap = s.cap
  fault : s.fault = true → s'.fault = true

theorem Mono.refl (s : Rtcm) : Mono s s := ⟨rfl, rfl, id⟩

theorem Mono.trans {a b c : Rtcm} (h1 : Mono a b) (h2 : Mono b c) : Mono a c :=
  ⟨h2.hasBuf.trans h1.hasBuf, h2.cap.trans h1.cap, fun h => h2.fault (h1.fault h)⟩

theorem mono_touch (s : Rtcm) (i : Nat) : Mono s (s.touch i) := by
  unfold Rtcm.touch; split
  · exact Mono.refl s
  · exact ⟨rfl, rfl, fun _ => rfl⟩

theorem mono_touchRange (s : Rtcm) (n : Nat) : Mono s (s.touchRange n) := by
  unfold Rtcm.touchRange; split
  · exact Mono.refl s
  · exact ⟨rfl, rfl, fun _ => rfl⟩

theorem mono_wr (s : Rtcm) (i : Nat) (b : Byte) : Mono s (s.wr i b) := by
  unfold Rtcm.wr; split
  · exact ⟨rfl, rfl, id⟩
  · exact ⟨rfl, rfl, fun _ => rfl⟩

theorem mono_onByte (s : Rtcm) (quiet : Bool) : Mono s (onByte s quiet).s := by
  unfold onByte
  split; · exact Mono.refl s
  split; · exact Mono.refl s
  have ht := mono_touch s (s.next - 1)
  split
  · unfold onByteSync; split
    · exact ⟨ht.hasBuf, ht.cap, ht.fault⟩
    · exact ⟨ht.hasBuf, ht.cap, ht.fault⟩
  · unfold onByteHeader; split
    · have h2 := (ht.trans (mono_touch _ 1)).trans (mono_touch _ 2)
      unfold onByteHeaderDone; split
      · exact ⟨h2.hasBuf, h2.cap, h2.fault⟩
      · exact ⟨h2.hasBuf, h2.cap, h2.fault⟩
    · exact ht
  · unfold onByteData; split
    · have h2 := (((ht.trans (mono_touch _ 3)).trans (mono_touch _ 4)).trans
        (mono_touchRange _ (s.touch (s.next - 1)).checkSize)).trans
        (mono_touchRange _ ((s.touch (s.next - 1)).checkSize + 3))
      unfold onByteCrc; split
      · exact ⟨h2.hasBuf, h2.cap, h2.fault⟩
      · exact ⟨h2.hasBuf, h2.cap, h2.fault⟩
    · exact ht

theorem mono_resyncProcess (s : Rtcm) (offset available total : Nat) :
    Mono s (resyncProcess s offset available total).1.s := by
  have h := mono_onByte { s with next := offset + 1 } true
  have h' : Mono s (onByte { s with next := offset + 1 } true).s := ⟨h.hasBuf, h.cap, h.fault⟩
  unfold resyncProcess
  simp only
  split
  · split
    · exact ⟨h'.hasBuf, h'.cap, h'.fault⟩
    · exact ⟨h'.hasBuf, h'.cap, h'.fault⟩
  · exact h'

theorem mono_resyncIter (x : RLoop) : Mono x.s (resyncIter x).1.s := by
  unfold resyncIter
  split
  · split
    · have h1 := mono_touch x.s (x.prev + 1)
      have h2 := mono_touchRange (x.s.touch (x.prev + 1)) (x.prev + 1 + (x.available - (x.prev + 1)))
      have h3 : Mono x.s ((x.s.touch (x.prev + 1)).memmove (x.prev + 1) (x.available - (x.prev + 1))) := by
        have := h1.trans h2
        exact ⟨this.hasBuf, this.cap, this.fault⟩
      exact h3.trans (mono_resyncProcess _ _ _ _)
    · exact mono_touch _ _
  · exact (mono_touch _ _).trans (mono_resyncProcess _ _ _ _)

theorem mono_resyncLoop (x : RLoop) : Mono x.s (resyncLoop x).s := by
  induction x using resyncLoop.induct with
  | case1 x hlt ih =>
    rw [resyncLoop_unfold, if_pos hlt]
    exact (mono_resyncIter x).trans ih
  | case2 x hge =>
    rw [resyncLoop_unfold, if_neg hge]
    exact Mono.refl _

theorem mono_onDataByte (s : Rtcm) (b : Byte) : Mono s (onDataByte s b).s := by
  have h0 : Mono s { s.wr s.next b with next := s.next + 1 } := by
    have := mono_wr s s.next b
    exact ⟨this.hasBuf, this.cap, this.fault⟩
  have h1 := h0.trans (mono_onByte _ false)
  unfold onDataByte onDataAfter
  split; · exact h1
  split; · exact ⟨h1.hasBuf, h1.cap, h1.fault⟩
  split
  · have h2 : Mono (onByte { s.wr s.next b with next := s.next + 1 } false).s
        (resync (onByte { s.wr s.next b with next := s.next + 1 } false).s).s := by
      unfold resync
      have := mono_resyncLoop ⟨{ (onByte { s.wr s.next b with next := s.next + 1 } false).s with
        state := .sync, next := 0 }, 0, (onByte { s.wr s.next b with next := s.next + 1 } false).s.next, 0⟩
      exact ⟨this.hasBuf, this.cap, this.fault⟩
    exact h1.trans h2
  · exact h1

theorem mono_onDataLoop (s : Rtcm) (data : Bytes) : Mono s (onDataLoop s data).s := by
  induction data generalizing s with
  | nil => exact Mono.refl s
  | cons b bs ih => exact (mono_onDataByte s b).trans (ih _)

theorem mono_onData (s : Rtcm) (data : Bytes) : Mono s (onData s data).s := by
  unfold onData; split
  · exact mono_onDataLoop s data
  · exact Mono.refl s

/-! ### Chunking -/

theorem onDataLoop_append (s : Rtcm) (a b : Bytes) :
    onDataLoop s (a ++ b) =
      ⟨(onDataLoop (onDataLoop s a).s b).s, (onDataLoop s a).ret + (onDataLoop (onDataLoop s a).s b).ret,
        (onDataLoop s a).cbs ++ (onDataLoop (onDataLoop s a).s b).cbs⟩ := by
  induction a generalizing s with
  | nil => simp [onDataLoop]
  | cons x xs ih =>
    simp only [List.cons_append, onDataLoop]
    rw [ih]
    simp [Nat.add_assoc]

theorem onData_of_hasBuf {s : Rtcm} (h : s.hasBuf = true) (d : Bytes) : onData s d = onDataLoop s d := by
  unfold onData; rw [if_pos h]

theorem onData_of_noBuf {s : Rtcm} (h : ¬ s.hasBuf = true) (d : Bytes) : onData s d = ⟨s, 0, []⟩ := by
  unfold onData; rw [if_neg h]

theorem onData_append (s : Rtcm) (a b : Bytes) :
    onData s (a ++ b) =
      ⟨(onData (onData s a).s b).s, (onData s a).ret + (onData (onData s a).s b).ret,
        (onData s a).cbs ++ (onData (onData s a).s b).cbs⟩ := by
  by_cases h : s.hasBuf = true
  · have hm := (mono_onDataLoop s a).hasBuf
    rw [onData_of_hasBuf h, onData_of_hasBuf h, onData_of_hasBuf (by rw [hm]; exact h), onDataLoop_append]
  · rw [onData_of_noBuf h, onData_of_noBuf h]
    simp only
    rw [onData_of_noBuf h]
    simp

/-! ### Every reachable state -/

/-- No out-of-bounds access so far, and if there is a buffer the framer holds a coherent candidate. -/
def RtcmInv (s : Rtcm) : Prop :=
  s.fault = false ∧ (s.hasBuf = true → ∃ P, Coh s.cap s P) ∧ s.decoded < U32

theorem clearManaged_fault (s : Rtcm) : s.clearManaged.fault = s.fault := by
  unfold Rtcm.clearManaged; split <;> rfl

theorem inv_setBuffer (s : Rtcm) (buffer : Option Nat) (c a : Nat) (f : Nat → Byte) (h : RtcmInv s) :
    RtcmInv (s.setBuffer buffer c a f) := by
  unfold Rtcm.setBuffer
  split
  · exact h
  · have hc : 6 ≤ clampCapacity c := by unfold clampCapacity; split <;> omega
    cases buffer with
    | none =>
      have := install_coh { s.clearManaged with managed := true } a (clampCapacity c) f
        (by show s.clearManaged.fault = false; rw [clearManaged_fault]; exact h.1) hc
      exact ⟨this.base.nofault, fun _ => ⟨[], by rw [this.base.capEq]; exact this⟩, this.base.dec⟩
    | some addr =>
      have := install_coh s.clearManaged addr (clampCapacity c) f
        (by rw [clearManaged_fault]; exact h.1) hc
      exact ⟨this.base.nofault, fun _ => ⟨[], by rw [this.base.capEq]; exact this⟩, this.base.dec⟩

theorem inv_empty : RtcmInv Rtcm.empty :=
  ⟨rfl, fun h => by simp [Rtcm.empty] at h, by show 0 < U32; decide⟩

theorem inv_construct (buffer : Option Nat) (c a : Nat) (f : Nat → Byte) :
    RtcmInv (Rtcm.construct buffer c a f) := by
  unfold Rtcm.construct
  cases buffer <;> exact inv_setBuffer _ _ _ _ _ inv_empty

theorem inv_apply (s : Rtcm) (op : RtcmOp) (h : RtcmInv s) : RtcmInv (s.apply op) := by
  cases op with
  | onData d =>
    show RtcmInv (onData s d).s
    by_cases hb : s.hasBuf = true
    · obtain ⟨P, hP⟩ := h.2.1 hb
      have := (onData_spec s.cap s P d hP).2.1
      exact ⟨this.base.nofault, fun _ => ⟨_, by rw [this.base.capEq]; exact this⟩, this.base.dec⟩
    · rw [onData_of_noBuf hb]; exact h
  | reset =>
    refine ⟨h.1, fun hb => ?_, by show 0 < U32; decide⟩
    obtain ⟨P, hP⟩ := h.2.1 hb
    exact ⟨[], coh_reset hP.base.hasBuf hP.base.nofault rfl hP.base.len hP.base.cap3⟩
  | warnOnError e =>
    refine ⟨h.1, fun hb => ?_, h.2.2⟩
    obtain ⟨P, hP⟩ := h.2.1 hb
    exact ⟨P, ⟨⟨hP.base.hasBuf, hP.base.nofault, hP.base.capEq, hP.base.len, hP.base.cap3, hP.base.dec⟩,
      hP.next, hP.pref, hP.st⟩⟩
  | setBuffer b c a f => exact inv_setBuffer s b c a f h

theorem inv_reach {s : Rtcm} (h : RtcmReach s) : RtcmInv s := by
  induction h with
  | default => exact inv_empty
  | construct b c a f => exact inv_construct b c a f
  | call op _ ih => exact inv_apply _ op ih

/-! ### Feeding chunks -/

theorem onData_nil (s : Rtcm) : onData s [] = ⟨s, 0, []⟩ := by
  unfold onData; split <;> rfl

theorem rtcmFeed_flatten (s : Rtcm) (cs : List Bytes) :
    (rtcmFeed s cs).1 = (onData s cs.flatten).s ∧ (rtcmFeed s cs).2.2 = (onData s cs.flatten).cbs ∧
      (rtcmFeed s cs).2.1.sum = (onData s cs.flatten).ret := by
  induction cs generalizing s with
  | nil => simp [rtcmFeed, onData_nil]
  | cons d ds ih =>
    obtain ⟨i1, i2, i3⟩ := ih (onData s d).s
    simp only [rtcmFeed, List.flatten_cons, List.sum_cons]
    rw [onData_append, i1, i2, i3]
    exact ⟨rfl, rfl, rfl⟩

theorem cbs_frames_len (F : List Bytes) : ((F.map cbOf).map fun c => c.frame.length).sum = lens F := by
  simp [lens, cbOf, Function.comp_def]

theorem apply_fault_sticky (s : Rtcm) (op : RtcmOp) (h : s.fault = true) : (s.apply op).fault = true := by
  cases op with
  | onData d => exact (mono_onData s d).fault h
  | reset => exact h
  | warnOnError e => exact h
  | setBuffer b c a f =>
    show (s.setBuffer b c a f).fault = true
    unfold Rtcm.setBuffer
    split
    · exact h
    · cases b <;> (show s.clearManaged.fault = true; rw [clearManaged_fault]; exact h)

end FeVerif.RtcmFramer
