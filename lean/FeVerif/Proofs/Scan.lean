/-
Offset-free view of the framing scan: the accepted messages as byte strings, and the unjudged rest.
Derived from `Cfg.run`; used by the C++ framer refinements (C14), whose callbacks carry bytes, not offsets.
-/
import FeVerif.Proofs.Frame

namespace FeVerif
namespace Cfg

variable {c : Cfg}

/-- The accepted messages (as the bytes of the stream at the accepted `(offset, length)`), and the
bytes the scan cannot judge yet. -/
def scan (c : Cfg) (buf : Bytes) : List Bytes × Bytes :=
  ((c.run buf 0).msgs.map (fun p => slice buf p.1 p.2), (c.run buf 0).rest)

/-- Starting the scan at another stream offset only shifts the reported offsets. -/
theorem run_shift (buf : Bytes) (off d : Nat) :
    c.run buf (off + d) =
      ⟨(c.run buf off).msgs.map (fun p => (p.1 + d, p.2)), (c.run buf off).rest, (c.run buf off).off + d⟩ := by
  induction hlen : buf.length using Nat.strongRecOn generalizing buf off with
  | ind k ih =>
    cases hs : c.step buf with
    | stop => rw [run_stop hs, run_stop hs]; simp
    | drop =>
      have hpos := step_drop_pos hs
      rw [run_drop hs, run_drop hs]
      have := ih (buf.drop 1).length (by simp; omega) (buf.drop 1) (off + 1) rfl
      rw [show off + d + 1 = off + 1 + d by omega, this]
    | emit n =>
      have hpos := step_emit_pos hs
      rw [run_emit hs, run_emit hs]
      have := ih (buf.drop n).length (by simp; omega) (buf.drop n) (off + n) rfl
      rw [show off + d + n = off + n + d by omega, this]
      simp

theorem scan_stop {buf : Bytes} (h : c.step buf = .stop) : c.scan buf = ([], buf) := by
  unfold scan; rw [run_stop h]; simp

theorem scan_drop {buf : Bytes} (h : c.step buf = .drop) : c.scan buf = c.scan (buf.drop 1) := by
  unfold scan
  rw [run_drop h]
  rw [run_shift (c := c) (buf.drop 1) 0 1]
  simp only [List.map_map]
  congr 1
  apply List.map_congr_left
  intro p _
  simp [slice]

theorem scan_emit {buf : Bytes} {n : Nat} (h : c.step buf = .emit n) :
    c.scan buf = (buf.take n :: (c.scan (buf.drop n)).1, (c.scan (buf.drop n)).2) := by
  unfold scan
  rw [run_emit h]
  rw [run_shift (c := c) (buf.drop n) 0 n]
  simp only [List.map_cons, List.map_map]
  have e1 : slice buf 0 n = buf.take n := by simp [slice]
  have e2 : List.map ((fun p => slice buf p.1 p.2) ∘ fun p => (p.1 + n, p.2)) (c.run (buf.drop n) 0).msgs =
      List.map (fun p => slice (buf.drop n) p.1 p.2) (c.run (buf.drop n) 0).msgs := by
    apply List.map_congr_left
    intro p _
    simp [slice, Nat.add_comm]
  simp only [e1, e2]

/-- The scan of `buf ++ more` is the scan of `buf`, resumed on what it left plus `more`. -/
theorem scan_append (buf more : Bytes) :
    c.scan (buf ++ more) =
      ((c.scan buf).1 ++ (c.scan ((c.scan buf).2 ++ more)).1, (c.scan ((c.scan buf).2 ++ more)).2) := by
  induction hlen : buf.length using Nat.strongRecOn generalizing buf with
  | ind k ih =>
    cases hs : c.step buf with
    | stop => rw [scan_stop hs]; simp
    | drop =>
      have hs' : c.step (buf ++ more) = .drop := by
        rw [step_append_of_ne_stop more (by simp [hs]), hs]
      have hpos := step_drop_pos hs
      rw [scan_drop hs', scan_drop hs]
      have : (buf ++ more).drop 1 = buf.drop 1 ++ more := by
        rw [List.drop_append_of_le_length (by omega)]
      rw [this]
      exact ih (buf.drop 1).length (by simp; omega) _ rfl
    | emit n =>
      have hs' : c.step (buf ++ more) = .emit n := by
        rw [step_append_of_ne_stop more (by simp [hs]), hs]
      have hpos := step_emit_pos hs
      rw [scan_emit hs', scan_emit hs]
      have h1 : (buf ++ more).drop n = buf.drop n ++ more := by
        rw [List.drop_append_of_le_length (by omega)]
      have h2 : (buf ++ more).take n = buf.take n := by
        rw [List.take_append_of_le_length (by omega)]
      rw [h1, h2]
      have := ih (buf.drop n).length (by simp; omega) (buf.drop n) rfl
      rw [this]
      simp

/-- A verdict on a prefix that is not "cannot be judged yet" is the verdict on the whole. -/
theorem step_of_take {buf : Bytes} {k : Nat} (h : c.step (buf.take k) ≠ .stop) :
    c.step buf = c.step (buf.take k) := by
  have := step_append_of_ne_stop (c := c) (buf.drop k) h
  rwa [List.take_append_drop] at this

end Cfg
end FeVerif
