/-
Lemmas for property C13: the latch machine of `TimeRange.is_in_range` refines the interval specification.
-/
import FeVerif.Spec.TimeRange

namespace FeVerif.TR

/-! ## bounds -/

theorem Ext.above_mono {s : Ext} {c c' : Int} (h : c ≤ c') (h' : s.above c' = true) : s.above c = true := by
  cases s with
  | fin v => simp [Ext.above] at h' ⊢; omega
  | inf => rfl

theorem Ext.above_max (x y : Ext) (c : Int) : (x.max y).above c = (x.above c || y.above c) := by
  cases x <;> cases y <;> simp [Ext.max, Ext.above]
  rename_i a b
  by_cases h : a < b <;> simp [h] <;> omega

theorem Ext.above_add (x : Ext) (z c : Int) : (x.add z).above c = x.above (c - z) := by
  cases x <;> simp [Ext.add, Ext.above]
  omega

/-! ## P1 times of a sequence -/

@[simp] theorem p1Times_nil : p1Times [] = [] := rfl

theorem p1Times_cons_timed {m : Msg} {t : Int} (h : m.p1? = some t) (ms : List Msg) :
    p1Times (m :: ms) = t :: p1Times ms := by
  simp [p1Times, h]

theorem p1Times_cons_untimed {m : Msg} (h : m.p1? = none) (ms : List Msg) : p1Times (m :: ms) = p1Times ms := by
  simp [p1Times, h]

theorem p1Times_append (a b : List Msg) : p1Times (a ++ b) = p1Times a ++ p1Times b := by
  simp [p1Times, List.filterMap_append]

theorem firstP1_cons_timed {m : Msg} {t : Int} (h : m.p1? = some t) (ms : List Msg) : firstP1 (m :: ms) = some t := by
  simp [firstP1, p1Times_cons_timed h]

theorem firstP1_cons_untimed {m : Msg} (h : m.p1? = none) (ms : List Msg) : firstP1 (m :: ms) = firstP1 ms := by
  simp [firstP1, p1Times_cons_untimed h]

theorem orElse_some_right (a : Option Int) (t : Int) : ∃ z, orElse a (some t) = some z := by
  cases a <;> simp [orElse]

/-! ## the interval side -/

/-- `m` carries a P1 time at or after the start. -/
def Interval.startSeen (I : Interval) (m : Msg) : Bool :=
  match m.p1? with
  | some t =>
    match I.rel t with
    | some c => I.startOk c
    | none => false
  | none => false

theorem Interval.rel_mono {I : Interval} {t t' c c' : Int} (h : I.rel t = some c) (h' : I.rel t' = some c')
    (hle : t ≤ t') : c ≤ c' := by
  unfold Interval.rel at h h'
  cases ha : I.absolute with
  | true => simp [ha] at h h'; omega
  | false =>
    cases ho : I.origin with
    | none => simp [ha, ho] at h
    | some z => simp [ha, ho] at h h'; omega

theorem Interval.rel_defined {I : Interval} {t c : Int} (h : I.rel t = some c) (t' : Int) : ∃ c', I.rel t' = some c' := by
  unfold Interval.rel at h ⊢
  split
  · exact ⟨_, rfl⟩
  · rename_i ha
    simp [ha] at h
    cases ho : I.origin with
    | none => simp [ho] at h
    | some z => exact ⟨_, rfl⟩

theorem Interval.startOk_mono {I : Interval} {c c' : Int} (hle : c ≤ c') (h : I.startOk c = true) : I.startOk c' = true := by
  unfold Interval.startOk at h ⊢
  split
  · rfl
  · rename_i s hs
    simp [hs] at h
    cases hb : s.above c' with
    | false => rfl
    | true => rw [Ext.above_mono hle hb] at h; cases h

theorem Interval.atOrBeyondEnd_mono {I : Interval} {c c' : Int} (hle : c ≤ c') (h : I.atOrBeyondEnd c = true) :
    I.atOrBeyondEnd c' = true := by
  unfold Interval.atOrBeyondEnd at h ⊢
  split
  · rename_i hs; simp [hs] at h
  · rename_i e hs; simp [hs] at h ⊢; omega

/-- If an earlier message reached the end, so does every later P1 time. -/
theorem Interval.endSeen_later {I : Interval} {pre : List Msg} {t c : Int} (h : pre.any I.endSeen = true)
    (hord : ∀ t' ∈ p1Times pre, t' ≤ t) (hrel : I.rel t = some c) : I.atOrBeyondEnd c = true := by
  rw [List.any_eq_true] at h
  obtain ⟨m, hm, he⟩ := h
  unfold Interval.endSeen at he
  cases hp : m.p1? with
  | none => simp [hp] at he
  | some t' =>
    simp only [hp] at he
    cases hr : I.rel t' with
    | none => simp [hr] at he
    | some c' =>
      simp only [hr] at he
      have : t' ∈ p1Times pre := by
        simp only [p1Times, List.mem_filterMap]; exact ⟨m, hm, hp⟩
      exact Interval.atOrBeyondEnd_mono (Interval.rel_mono hr hrel (hord _ this)) he

theorem Interval.startSeen_later {I : Interval} {pre : List Msg} {t c : Int} (h : pre.any I.startSeen = true)
    (hord : ∀ t' ∈ p1Times pre, t' ≤ t) (hrel : I.rel t = some c) : I.startOk c = true := by
  rw [List.any_eq_true] at h
  obtain ⟨m, hm, he⟩ := h
  unfold Interval.startSeen at he
  cases hp : m.p1? with
  | none => simp [hp] at he
  | some t' =>
    simp only [hp] at he
    cases hr : I.rel t' with
    | none => simp [hr] at he
    | some c' =>
      simp only [hr] at he
      have : t' ∈ p1Times pre := by
        simp only [p1Times, List.mem_filterMap]; exact ⟨m, hm, hp⟩
      exact Interval.startOk_mono (Interval.rel_mono hr hrel (hord _ this)) he

/-! ## one call of `is_in_range` in closed form -/

theorem TimeRange.isInRange_untimed {r : TimeRange} {m : Msg} (retTs : Bool) (hs : r.specified = true)
    (hm : m.p1? = none) :
    r.isInRange retTs m =
      ({ r with started := r.started || (!r.ended && (r.start.isNone || r.started)) },
        !r.ended && (r.start.isNone || r.started)) := by
  obtain ⟨s, e, a, z, sp, st, en⟩ := r
  simp only at hs
  subst hs
  simp only [TimeRange.isInRange, TimeRange.extract, TimeRange.test, TimeRange.latch, hm]
  cases en <;> cases st <;> cases s <;> simp

theorem TimeRange.isInRange_timed {r : TimeRange} {m : Msg} {t : Int} (retTs : Bool) (hs : r.specified = true)
    (hm : m.p1? = some t) :
    r.isInRange retTs m =
      ({ r with
          t0 := some (r.t0After t)
          started := r.started || (!r.ended && !r.below (r.cmpTime t) && !r.beyond (r.cmpTime t))
          ended := r.ended || (!r.below (r.cmpTime t) && r.beyond (r.cmpTime t)) ||
            (r.started && !(!r.ended && !r.below (r.cmpTime t) && !r.beyond (r.cmpTime t))) },
        !r.ended && !r.below (r.cmpTime t) && !r.beyond (r.cmpTime t)) := by
  simp only [TimeRange.isInRange, TimeRange.extract, TimeRange.test, TimeRange.latch, hm, hs]
  generalize r.below (r.cmpTime t) = bl
  generalize r.beyond (r.cmpTime t) = by'
  generalize r.t0After t = z'
  obtain ⟨s, e, a, z, sp, st, en⟩ := r
  cases en <;> cases st <;> cases bl <;> cases by' <;> simp

/-! ## the invariant -/

/-- The object stands for the interval. -/
structure Rep (I : Interval) (r : TimeRange) : Prop where
  start : r.start = I.start
  stop : r.stop = I.stop
  abs : r.absolute = I.absolute
  spec : r.specified = true

/-- State of the object after the messages `pre` (verdicts `acc`), with `ms` still to come. -/
structure Inv (I : Interval) (pre : List Msg) (acc : List Bool) (ms : List Msg) (r : TimeRange) : Prop where
  rep : Rep I r
  origin : orElse r.t0 (firstP1 ms) = I.origin
  started : r.started = acc.any id
  ended_sound : r.ended = true → pre.any I.endSeen = true
  ended_complete : pre.any I.endSeen = true → r.ended = true ∨ (r.start ≠ none ∧ r.started = false)
  start_wit : r.start ≠ none → r.started = true → pre.any I.startSeen = true
  order : ∀ t' ∈ p1Times pre, ∀ t ∈ p1Times ms, t' ≤ t
  mono : (p1Times ms).Pairwise (· ≤ ·)

theorem Rep.below {I : Interval} {r : TimeRange} (h : Rep I r) (c : Int) : r.below c = !I.startOk c := by
  unfold TimeRange.below Interval.startOk
  rw [h.start]
  cases I.start <;> simp

theorem Rep.beyond {I : Interval} {r : TimeRange} (h : Rep I r) (c : Int) : r.beyond c = I.atOrBeyondEnd c := by
  unfold TimeRange.beyond Interval.atOrBeyondEnd
  rw [h.stop]
  cases I.stop <;> rfl

theorem Inv.rel {I : Interval} {pre acc ms r} {m : Msg} {t : Int} (h : Inv I pre acc (m :: ms) r)
    (hm : m.p1? = some t) : I.rel t = some (r.cmpTime t) ∧ orElse r.t0 (some t) = some (r.t0After t) := by
  have ho := h.origin
  rw [firstP1_cons_timed hm] at ho
  have h2 : orElse r.t0 (some t) = some (r.t0After t) := by
    unfold orElse TimeRange.t0After; cases r.t0 <;> rfl
  refine ⟨?_, h2⟩
  unfold Interval.rel TimeRange.cmpTime
  rw [← h.rep.abs, ← ho, h2]
  cases r.absolute <;> simp

theorem Inv.step_untimed {I : Interval} {pre acc ms r} {m : Msg} (retTs : Bool) (h : Inv I pre acc (m :: ms) r)
    (hm : m.p1? = none) :
    (r.isInRange retTs m).2 = I.verdict pre acc m ∧
      Inv I (pre ++ [m]) (acc ++ [I.verdict pre acc m]) ms (r.isInRange retTs m).1 := by
  have hv : I.verdict pre acc m = (!r.ended && (r.start.isNone || r.started)) := by
    unfold Interval.verdict
    simp only [hm]
    rw [h.started, h.rep.start]
    cases he : r.ended with
    | true => simp [h.ended_sound he]
    | false =>
      cases hp : pre.any I.endSeen with
      | false => simp
      | true =>
        rcases h.ended_complete hp with h1 | ⟨h1, h2⟩
        · rw [he] at h1; cases h1
        · rw [h.started] at h2
          rw [h.rep.start] at h1
          cases hs : I.start with
          | none => exact absurd hs h1
          | some s => simp [h2]
  have hes : I.endSeen m = false := by simp [Interval.endSeen, hm]
  have hss : I.startSeen m = false := by simp [Interval.startSeen, hm]
  rw [TimeRange.isInRange_untimed retTs h.rep.spec hm, hv]
  refine ⟨rfl, ?_⟩
  constructor
  · exact ⟨h.rep.start, h.rep.stop, h.rep.abs, h.rep.spec⟩
  · have := h.origin; rw [firstP1_cons_untimed hm] at this; exact this
  · simp [h.started]
  · intro he; simp [List.any_append, h.ended_sound he]
  · intro hp
    simp only [List.any_append, List.any_cons, List.any_nil, hes, Bool.or_false] at hp
    rcases h.ended_complete hp with h1 | ⟨h1, h2⟩
    · exact Or.inl h1
    · right
      refine ⟨h1, ?_⟩
      show (r.started || (!r.ended && (r.start.isNone || r.started))) = false
      cases hs : r.start with
      | none => exact absurd hs h1
      | some s => simp [h2]
  · intro h1 h2
    have h2' : (r.started || (!r.ended && (r.start.isNone || r.started))) = true := h2
    have h1' : r.start ≠ none := h1
    have : r.started = true := by
      cases hs : r.start with
      | none => exact absurd hs h1'
      | some s => simp [hs] at h2'; cases hst : r.started <;> simp_all
    simp [List.any_append, h.start_wit h1' this]
  · intro t' ht' t ht
    rw [p1Times_append, p1Times_cons_untimed hm] at ht'
    simp at ht'
    exact h.order t' ht' t (by rw [p1Times_cons_untimed hm]; exact ht)
  · have := h.mono; rw [p1Times_cons_untimed hm] at this; exact this

theorem Inv.step_timed {I : Interval} {pre acc ms r} {m : Msg} {t : Int} (retTs : Bool) (h : Inv I pre acc (m :: ms) r)
    (hm : m.p1? = some t) :
    (r.isInRange retTs m).2 = I.verdict pre acc m ∧
      Inv I (pre ++ [m]) (acc ++ [I.verdict pre acc m]) ms (r.isInRange retTs m).1 := by
  obtain ⟨hrel, horig⟩ := h.rel hm
  have hord : ∀ t' ∈ p1Times pre, t' ≤ t := fun t' ht' =>
    h.order t' ht' t (by rw [p1Times_cons_timed hm]; exact List.mem_cons_self)
  have hes : I.endSeen m = I.atOrBeyondEnd (r.cmpTime t) := by simp [Interval.endSeen, hm, hrel]
  have hss : I.startSeen m = I.startOk (r.cmpTime t) := by simp [Interval.startSeen, hm, hrel]
  have hbl := h.rep.below (r.cmpTime t)
  have hby := h.rep.beyond (r.cmpTime t)
  -- the verdict of the interval
  have hc : I.contains t = (I.startOk (r.cmpTime t) && !I.atOrBeyondEnd (r.cmpTime t)) := by
    simp [Interval.contains, hrel]
  have hv : I.verdict pre acc m =
      (!r.ended && !r.below (r.cmpTime t) && !r.beyond (r.cmpTime t)) := by
    unfold Interval.verdict
    simp only [hm]
    rw [hc, hbl, hby]
    cases he : r.ended with
    | false => simp
    | true =>
      have := Interval.endSeen_later (h.ended_sound he) hord hrel
      simp [this]
  rw [TimeRange.isInRange_timed retTs h.rep.spec hm, hv]
  refine ⟨rfl, ?_⟩
  generalize hc' : r.cmpTime t = c at *
  constructor
  · exact ⟨h.rep.start, h.rep.stop, h.rep.abs, h.rep.spec⟩
  · show orElse (some (r.t0After t)) (firstP1 ms) = I.origin
    have := h.origin; rw [firstP1_cons_timed hm, horig] at this
    rw [← this]; rfl
  · simp [h.started]
  · -- ended_sound
    intro he
    have he' : (r.ended || (!r.below c && r.beyond c) ||
        (r.started && !(!r.ended && !r.below c && !r.beyond c))) = true := he
    simp only [List.any_append, List.any_cons, List.any_nil, hes, Bool.or_false]
    cases hen : r.ended with
    | true => simp [h.ended_sound hen]
    | false =>
      cases hyy : I.atOrBeyondEnd c with
      | true => simp
      | false =>
        rw [hen, hby, hyy, hbl] at he'
        simp at he'
        -- started, and below the start: impossible after a message at or after the start
        obtain ⟨hst, hso⟩ := he'
        have hne : r.start ≠ none := by
          intro hn
          have : I.startOk c = true := by
            unfold Interval.startOk; rw [← h.rep.start, hn]
          rw [this] at hso; cases hso
        have := Interval.startSeen_later (h.start_wit hne hst) hord hrel
        rw [this] at hso; cases hso
  · -- ended_complete
    intro hp
    simp only [List.any_append, List.any_cons, List.any_nil, hes, Bool.or_false, Bool.or_eq_true] at hp
    show (r.ended || (!r.below c && r.beyond c) ||
        (r.started && !(!r.ended && !r.below c && !r.beyond c))) = true ∨
      (r.start ≠ none ∧ (r.started || (!r.ended && !r.below c && !r.beyond c)) = false)
    have hyy : I.atOrBeyondEnd c = true := by
      rcases hp with hp | hp
      · exact Interval.endSeen_later hp hord hrel
      · exact hp
    rw [hby, hyy, hbl]
    cases hen : r.ended with
    | true => simp
    | false =>
      cases hst : r.started with
      | true => simp
      | false =>
        cases hso : I.startOk c with
        | true => simp
        | false =>
          right
          refine ⟨?_, by simp⟩
          intro hn
          have : I.startOk c = true := by
            unfold Interval.startOk; rw [← h.rep.start, hn]
          rw [this] at hso; cases hso
  · -- start_wit
    intro h1 h2
    have h1' : r.start ≠ none := h1
    have h2' : (r.started || (!r.ended && !r.below c && !r.beyond c)) = true := h2
    simp only [List.any_append, List.any_cons, List.any_nil, hss, Bool.or_false, Bool.or_eq_true]
    cases hst : r.started with
    | true => exact Or.inl (h.start_wit h1' hst)
    | false =>
      right
      rw [hst, hbl] at h2'
      simp at h2'
      exact h2'.1.2
  · intro t' ht' u hu
    rw [p1Times_append, p1Times_cons_timed hm] at ht'
    simp at ht'
    have hmono := h.mono
    rw [p1Times_cons_timed hm, List.pairwise_cons] at hmono
    rcases ht' with ht' | ht'
    · exact h.order t' ht' u (by rw [p1Times_cons_timed hm]; exact List.mem_cons_of_mem _ hu)
    · subst ht'; exact hmono.1 u hu
  · have := h.mono; rw [p1Times_cons_timed hm, List.pairwise_cons] at this; exact this.2

theorem Inv.step {I : Interval} {pre acc ms r} {m : Msg} (retTs : Bool) (h : Inv I pre acc (m :: ms) r) :
    (r.isInRange retTs m).2 = I.verdict pre acc m ∧
      Inv I (pre ++ [m]) (acc ++ [I.verdict pre acc m]) ms (r.isInRange retTs m).1 := by
  cases hm : m.p1? with
  | none => exact h.step_untimed retTs hm
  | some t => exact h.step_timed retTs hm

theorem Inv.run {I : Interval} {ms : List Msg} : ∀ {pre acc r} (retTs : Bool), Inv I pre acc ms r →
    (r.run retTs ms).2 = I.seqFrom pre acc ms := by
  induction ms with
  | nil => intros; rfl
  | cons m ms ih =>
    intro pre acc r retTs h
    obtain ⟨h1, h2⟩ := h.step retTs
    simp only [TimeRange.run, Interval.seqFrom]
    rw [h1, ih retTs h2]

/-! ## no range specified -/

/-- One call on a range without bounds: everything is accepted, and the first P1 time is recorded as `t0` whichever
of the two shortcuts is taken (the first one needs `t0` to be known already, and then recording changes nothing). -/
theorem TimeRange.isInRange_unspecified {r : TimeRange} (retTs : Bool) (m : Msg) (hs : r.specified = false) :
    r.isInRange retTs m = ({ r.extract m with started := true }, true) := by
  obtain ⟨s, e, a, z, sp, st, en⟩ := r
  simp only at hs
  subst hs
  cases z with
  | none => cases retTs <;> simp [TimeRange.isInRange]
  | some z =>
    cases retTs <;> cases hm : m.p1? <;> simp [TimeRange.isInRange, TimeRange.extract, TimeRange.t0After, hm]

theorem TimeRange.extract_specified (r : TimeRange) (m : Msg) : (r.extract m).specified = r.specified := by
  unfold TimeRange.extract
  cases m.p1? <;> rfl

theorem TimeRange.run_unspecified {ms : List Msg} : ∀ {r : TimeRange} (retTs : Bool), r.specified = false →
    (r.run retTs ms).2 = ms.map fun _ => true := by
  induction ms with
  | nil => intros; rfl
  | cons m ms ih =>
    intro r retTs h
    have h1 : (r.isInRange retTs m).2 = true := by
      rw [TimeRange.isInRange_unspecified retTs m h]
    have h2 : (r.isInRange retTs m).1.specified = false := by
      rw [TimeRange.isInRange_unspecified retTs m h]
      exact (r.extract_specified m).trans h
    simp only [TimeRange.run, List.map_cons]
    rw [h1, ih retTs h2]

theorem Interval.seqFrom_open {I : Interval} (hs : I.start = none) (he : I.stop = none) {ms : List Msg} :
    ∀ {pre acc}, (I.absolute = true ∨ I.origin.isSome = true ∨ p1Times ms = []) →
      I.seqFrom pre acc ms = ms.map fun _ => true := by
  induction ms with
  | nil => intros; rfl
  | cons m ms ih =>
    intro pre acc h
    have hend : ∀ m, I.endSeen m = false := by
      intro m
      unfold Interval.endSeen Interval.atOrBeyondEnd
      rw [he]
      cases m.p1? <;> simp
      cases I.rel _ <;> rfl
    have hv : I.verdict pre acc m = true := by
      unfold Interval.verdict
      cases hm : m.p1? with
      | none =>
        have : pre.any I.endSeen = false := by
          rw [List.any_eq_false]; intro x _; simp [hend x]
        simp [this, hs]
      | some t =>
        simp only
        unfold Interval.contains Interval.startOk Interval.atOrBeyondEnd Interval.rel
        rw [hs, he]
        rcases h with h | h | h
        · simp [h]
        · cases ho : I.origin with
          | none => simp [ho] at h
          | some z => cases I.absolute <;> simp
        · rw [p1Times_cons_timed hm] at h; cases h
    have h' : I.absolute = true ∨ I.origin.isSome = true ∨ p1Times ms = [] := by
      rcases h with h | h | h
      · exact Or.inl h
      · exact Or.inr (Or.inl h)
      · right; right
        cases hm : m.p1? with
        | none => rw [p1Times_cons_untimed hm] at h; exact h
        | some t => rw [p1Times_cons_timed hm] at h; cases h
    simp only [Interval.seqFrom, List.map_cons]
    rw [hv, ih h']

/-! ## the refinement -/

theorem TimeRange.run_refines (r : TimeRange) (retTs : Bool) (msgs : List Msg) (hf : r.Fresh)
    (hmono : Monotone msgs) : (r.run retTs msgs).2 = (r.interval msgs).seq msgs := by
  cases hsp : r.specified with
  | false =>
    have hwf := hf.wf
    unfold TimeRange.WF at hwf
    rw [hsp] at hwf
    have hs : r.start = none := by
      cases h : r.start with
      | none => rfl
      | some x => rw [h] at hwf; simp at hwf
    have he : r.stop = none := by
      cases h : r.stop with
      | none => rfl
      | some x => rw [h, hs] at hwf; simp at hwf
    rw [TimeRange.run_unspecified retTs hsp]
    unfold Interval.seq
    rw [Interval.seqFrom_open (I := r.interval msgs) hs he]
    unfold TimeRange.interval firstP1
    cases hp : p1Times msgs with
    | nil => exact Or.inr (Or.inr rfl)
    | cons t ts => right; left; cases r.t0 <;> simp [orElse]
  | true =>
    apply Inv.run retTs
    constructor
    · exact ⟨rfl, rfl, rfl, hsp⟩
    · rfl
    · simp [hf.started]
    · intro h; rw [hf.ended] at h; cases h
    · intro h; simp at h
    · intro _ h; rw [hf.started] at h; cases h
    · intro t' ht'; simp at ht'
    · exact hmono

/-! ## closed form of the specification: "some message has been accepted" as a statement about the messages -/

def Interval.verdictC (I : Interval) (pre : List Msg) (m : Msg) : Bool :=
  match m.p1? with
  | some t => I.contains t
  | none => !pre.any I.endSeen && (I.start.isNone || pre.any I.startSeen)

def Interval.seqC (I : Interval) (pre : List Msg) : List Msg → List Bool
  | [] => []
  | m :: ms => I.verdictC pre m :: I.seqC (pre ++ [m]) ms

def Interval.AccOK (I : Interval) (pre : List Msg) (acc : List Bool) : Prop :=
  pre.any I.endSeen = false → (I.start.isNone || acc.any id) = (I.start.isNone || pre.any I.startSeen)

theorem Interval.seqFrom_eq_seqC {I : Interval} {ms : List Msg} : ∀ {pre acc}, I.AccOK pre acc →
    I.seqFrom pre acc ms = I.seqC pre ms := by
  induction ms with
  | nil => intros; rfl
  | cons m ms ih =>
    intro pre acc h
    have hv : I.verdict pre acc m = I.verdictC pre m := by
      unfold Interval.verdict Interval.verdictC
      cases hm : m.p1? with
      | some t => rfl
      | none =>
        simp only
        cases hp : pre.any I.endSeen with
        | true => simp
        | false => simp [h hp]
    have hok : I.AccOK (pre ++ [m]) (acc ++ [I.verdictC pre m]) := by
      intro hp
      simp only [List.any_append, List.any_cons, List.any_nil, Bool.or_false, Bool.or_eq_false_iff] at hp
      obtain ⟨hp1, hp2⟩ := hp
      have h0 := h hp1
      simp only [List.any_append, List.any_cons, List.any_nil, Bool.or_false, id]
      cases hso : I.start.isNone with
      | true => simp
      | false =>
        rw [hso] at h0
        simp only [Bool.false_or] at h0 ⊢
        rw [h0]
        unfold Interval.verdictC Interval.startSeen
        unfold Interval.endSeen at hp2
        cases hm : m.p1? with
        | none => simp [hp1, hso]
        | some t =>
          simp only [hm] at hp2 ⊢
          unfold Interval.contains
          cases hr : I.rel t with
          | none => rfl
          | some c => simp only [hr] at hp2 ⊢; simp [hp2]
    simp only [Interval.seqFrom, Interval.seqC]
    rw [hv, ih hok]

theorem Interval.seq_eq_seqC (I : Interval) (ms : List Msg) : I.seq ms = I.seqC [] ms :=
  Interval.seqFrom_eq_seqC (by intro _; rfl)

/-! ## intervals with the same accepted set -/

structure Interval.Equiv (I J : Interval) : Prop where
  contains : ∀ t, I.contains t = J.contains t
  endSeen : ∀ m, I.endSeen m = J.endSeen m
  startSeen : ∀ m, I.startSeen m = J.startSeen m
  isOpen : I.start.isNone = J.start.isNone

theorem Interval.seqC_congr {I J : Interval} (h : Interval.Equiv I J) {ms : List Msg} :
    ∀ {pre}, I.seqC pre ms = J.seqC pre ms := by
  have h1 : I.endSeen = J.endSeen := funext h.endSeen
  have h2 : I.startSeen = J.startSeen := funext h.startSeen
  induction ms with
  | nil => intros; rfl
  | cons m ms ih =>
    intro pre
    simp only [Interval.seqC]
    rw [ih]
    congr 1
    unfold Interval.verdictC
    rw [h1, h2, h.isOpen]
    cases m.p1? with
    | none => rfl
    | some t => exact h.contains t

/-- A relative interval with origin `z` and the absolute interval with both bounds moved by `z`. -/
theorem Interval.equiv_shift (s : Option Ext) (e : Option Int) (z : Int) (o : Option Int) :
    Interval.Equiv ⟨s, e, false, some z⟩ ⟨s.map (·.add z), e.map (· + z), true, o⟩ := by
  have hso : ∀ t : Int, Interval.startOk ⟨s, e, false, some z⟩ (t - z) =
      Interval.startOk ⟨s.map (·.add z), e.map (· + z), true, o⟩ t := by
    intro t
    unfold Interval.startOk
    cases s with
    | none => rfl
    | some x => simp [Ext.above_add]
  have hen : ∀ t : Int, Interval.atOrBeyondEnd ⟨s, e, false, some z⟩ (t - z) =
      Interval.atOrBeyondEnd ⟨s.map (·.add z), e.map (· + z), true, o⟩ t := by
    intro t
    unfold Interval.atOrBeyondEnd
    cases e with
    | none => rfl
    | some x => simp; omega
  constructor
  · intro t; simp [Interval.contains, Interval.rel, hso, hen]
  · intro m; unfold Interval.endSeen; cases m.p1? <;> simp [Interval.rel, hen]
  · intro m; unfold Interval.startSeen; cases m.p1? <;> simp [Interval.rel, hso]
  · cases s <;> rfl

/-! ## intersection of two intervals in the same frame -/

structure Interval.IsMeet (R A B : Interval) : Prop where
  relA : ∀ t, R.rel t = A.rel t
  relB : ∀ t, R.rel t = B.rel t
  start : R.start = meetStart A.start B.start
  stop : R.stop = meetStop A.stop B.stop

theorem List.any_or' {α} (l : List α) (k f g : α → Bool) (h : ∀ x, k x = (f x || g x)) :
    l.any k = (l.any f || l.any g) := by
  induction l with
  | nil => rfl
  | cons x xs ih =>
    simp only [List.any_cons, ih, h]
    cases f x <;> cases g x <;> cases xs.any f <;> cases xs.any g <;> rfl

namespace Interval.IsMeet
variable {R A B : Interval} (h : Interval.IsMeet R A B)
include h

theorem startOk (c : Int) : R.startOk c = (A.startOk c && B.startOk c) := by
  unfold Interval.startOk
  rw [h.start]
  cases A.start <;> cases B.start <;> simp [meetStart, Ext.above_max]

theorem atOrBeyondEnd (c : Int) : R.atOrBeyondEnd c = (A.atOrBeyondEnd c || B.atOrBeyondEnd c) := by
  unfold Interval.atOrBeyondEnd
  rw [h.stop]
  cases ha : A.stop <;> cases hb : B.stop <;> simp [meetStop]
  rename_i x y
  by_cases hxy : y < x <;> simp [hxy] <;> omega

theorem contains (t : Int) : R.contains t = (A.contains t && B.contains t) := by
  unfold Interval.contains
  rw [← h.relA, ← h.relB]
  cases R.rel t with
  | none => rfl
  | some c =>
    simp only [h.startOk, h.atOrBeyondEnd]
    cases A.startOk c <;> cases B.startOk c <;> cases A.atOrBeyondEnd c <;> cases B.atOrBeyondEnd c <;> rfl

theorem endSeen (m : Msg) : R.endSeen m = (A.endSeen m || B.endSeen m) := by
  unfold Interval.endSeen
  cases m.p1? with
  | none => rfl
  | some t =>
    simp only
    rw [← h.relA, ← h.relB]
    cases R.rel t with
    | none => rfl
    | some c => exact h.atOrBeyondEnd c

theorem startSeen (m : Msg) : R.startSeen m = (A.startSeen m && B.startSeen m) := by
  unfold Interval.startSeen
  cases m.p1? with
  | none => rfl
  | some t =>
    simp only
    rw [← h.relA, ← h.relB]
    cases R.rel t with
    | none => rfl
    | some c => exact h.startOk c

/-- Of two messages, one at or after `A`'s start and one at or after `B`'s, the later is at or after both. -/
theorem startSeen_both {pre : List Msg} (ha : pre.any A.startSeen = true) (hb : pre.any B.startSeen = true) :
    pre.any R.startSeen = true := by
  rw [List.any_eq_true] at ha hb ⊢
  obtain ⟨m1, hm1, h1⟩ := ha
  obtain ⟨m2, hm2, h2⟩ := hb
  have key : ∀ (I J : Interval) (x y : Msg), (∀ t, I.rel t = J.rel t) → I.startSeen x = true → J.startSeen y = true →
      (∀ t1 t2, x.p1? = some t1 → y.p1? = some t2 → t1 ≤ t2) → I.startSeen y = true := by
    intro I J x y hIJ hx hy hle
    unfold Interval.startSeen at hx hy ⊢
    cases hpx : x.p1? with
    | none => simp [hpx] at hx
    | some t1 =>
      cases hpy : y.p1? with
      | none => simp [hpy] at hy
      | some t2 =>
        simp only [hpx] at hx
        simp only [hpy] at hy ⊢
        rw [← hIJ] at hy
        cases hr1 : I.rel t1 with
        | none => simp [hr1] at hx
        | some c1 =>
          cases hr2 : I.rel t2 with
          | none => simp [hr2] at hy
          | some c2 =>
            simp only [hr1] at hx
            simp only
            exact Interval.startOk_mono (Interval.rel_mono hr1 hr2 (hle t1 t2 hpx hpy)) hx
  have hAB : ∀ t, A.rel t = B.rel t := fun t => by rw [← h.relA, ← h.relB]
  have hBA : ∀ t, B.rel t = A.rel t := fun t => (hAB t).symm
  -- times of the two witnesses
  cases hp1 : m1.p1? with
  | none => simp [Interval.startSeen, hp1] at h1
  | some t1 =>
    cases hp2 : m2.p1? with
    | none => simp [Interval.startSeen, hp2] at h2
    | some t2 =>
      rcases Int.le_total t1 t2 with hle | hle
      · refine ⟨m2, hm2, ?_⟩
        rw [h.startSeen, h2, Bool.and_true]
        exact key A B m1 m2 hAB h1 h2 (by intro a b ha hb; rw [hp1] at ha; rw [hp2] at hb; cases ha; cases hb; exact hle)
      · refine ⟨m1, hm1, ?_⟩
        rw [h.startSeen, h1, Bool.true_and]
        exact key B A m2 m1 hBA h2 h1 (by intro a b ha hb; rw [hp2] at ha; rw [hp1] at hb; cases ha; cases hb; exact hle)

theorem verdictC (pre : List Msg) (m : Msg) : R.verdictC pre m = (A.verdictC pre m && B.verdictC pre m) := by
  unfold Interval.verdictC
  cases m.p1? with
  | some t => exact h.contains t
  | none =>
    simp only
    rw [List.any_or' pre _ _ _ h.endSeen]
    -- the start condition
    have hstart : (R.start.isNone || pre.any R.startSeen) =
        ((A.start.isNone || pre.any A.startSeen) && (B.start.isNone || pre.any B.startSeen)) := by
      cases hA : A.start with
      | none =>
        have hRB : R.start = B.start := by rw [h.start, hA]; rfl
        have : R.startSeen = B.startSeen := by
          funext x
          unfold Interval.startSeen Interval.startOk
          rw [hRB]
          cases x.p1? with
          | none => rfl
          | some t => simp only; rw [h.relB]
        rw [hRB, this]; simp
      | some x =>
        cases hB : B.start with
        | none =>
          have hRA : R.start = A.start := by rw [h.start, hA, hB]; rfl
          have : R.startSeen = A.startSeen := by
            funext y
            unfold Interval.startSeen Interval.startOk
            rw [hRA]
            cases y.p1? with
            | none => rfl
            | some t => simp only; rw [h.relA]
          rw [hRA, this, hA]; simp
        | some y =>
          have hR : R.start = some (x.max y) := by rw [h.start, hA, hB]; rfl
          rw [hR]
          simp only [Option.isNone_some, Bool.false_or]
          cases ha : pre.any A.startSeen with
          | false =>
            simp only [Bool.false_and]
            rw [List.any_eq_false] at ha ⊢
            intro z hz
            rw [h.startSeen]
            simp [ha z hz]
          | true =>
            cases hb : pre.any B.startSeen with
            | false =>
              simp only [Bool.and_false]
              rw [List.any_eq_false] at hb ⊢
              intro z hz
              rw [h.startSeen]
              simp [hb z hz]
            | true => exact h.startSeen_both ha hb
    rw [hstart]
    cases pre.any A.endSeen <;> cases pre.any B.endSeen <;> simp

theorem seqC {ms : List Msg} : ∀ {pre}, R.seqC pre ms = List.zipWith (· && ·) (A.seqC pre ms) (B.seqC pre ms) := by
  induction ms with
  | nil => intros; rfl
  | cons m ms ih =>
    intro pre
    simp only [Interval.seqC, List.zipWith_cons_cons]
    rw [ih, h.verdictC]

end Interval.IsMeet

/-! ## fresh objects -/

theorem normStop_eq_endOf (e : Option Ext) : normStop e = endOf e := by
  cases e with
  | none => rfl
  | some x => cases x <;> rfl


theorem TimeRange.fresh_new (s e : BoundArg) (a : Option Bool) (z : Option Int) : (TimeRange.new s e a z).Fresh :=
  ⟨rfl, rfl, rfl⟩

theorem TimeRange.fresh_restart {r : TimeRange} (h : r.WF) : r.restart.Fresh := ⟨h, rfl, rfl⟩

theorem TimeRange.fresh_meet {a : TimeRange} (b : TimeRange) (ha : a.Fresh) : (a.meet b).Fresh :=
  ⟨rfl, ha.started, ha.ended⟩

/-- What `make_absolute` returns when it does not raise. -/
theorem TimeRange.makeAbsolute_ok {r r' : TimeRange} {p : Option Int} (h : r.makeAbsolute p = .ok r') :
    (r.absolute = true ∧ r' = { r with t0 := if p.isSome ∧ r.t0.isNone then p else r.t0 }) ∨
    (r.absolute = false ∧ ∃ z, (if p.isSome ∧ r.t0.isNone then p else r.t0) = some z ∧
      r' = { r with t0 := some z, start := r.start.map (·.add z), stop := r.stop.map (· + z), absolute := true }) := by
  unfold TimeRange.makeAbsolute at h
  cases ha : r.absolute with
  | true => left; simp only [ha, if_true] at h; injection h with h; exact ⟨rfl, h.symm⟩
  | false =>
    right
    simp only [ha] at h
    refine ⟨rfl, ?_⟩
    cases hz : (if p.isSome ∧ r.t0.isNone then p else r.t0) with
    | none => rw [hz] at h; simp at h
    | some z =>
      rw [hz] at h
      simp only [Bool.false_eq_true, if_false] at h
      injection h with h
      exact ⟨z, rfl, h.symm⟩

theorem TimeRange.fresh_makeAbsolute {r r' : TimeRange} {p : Option Int} (hf : r.Fresh)
    (h : r.makeAbsolute p = .ok r') : r'.Fresh := by
  rcases TimeRange.makeAbsolute_ok h with ⟨_, h⟩ | ⟨_, z, _, h⟩
  · subst h; exact ⟨hf.wf, hf.started, hf.ended⟩
  · subst h
    refine ⟨?_, hf.started, hf.ended⟩
    have := hf.wf
    unfold TimeRange.WF at this ⊢
    simp only [Option.isSome_map]
    exact this

theorem TimeRange.makeAbsolute_error_iff (r : TimeRange) (p : Option Int) :
    r.makeAbsolute p = .error .valueError ↔ r.absolute = false ∧ r.t0 = none ∧ p = none := by
  unfold TimeRange.makeAbsolute
  cases r.absolute <;> cases r.t0 <;> cases p <;> simp

/-- Two absolute intervals with the same bounds accept the same messages whatever `origin` says. -/
theorem Interval.equiv_abs (s : Option Ext) (e : Option Int) (o o' : Option Int) :
    Interval.Equiv ⟨s, e, true, o⟩ ⟨s, e, true, o'⟩ := by
  constructor
  · intro t; rfl
  · intro m; rfl
  · intro m; rfl
  · rfl

theorem TimeRange.seq_makeAbsolute {r : TimeRange} (z : Int) (msgs : List Msg) (ha : r.absolute = false)
    (ho : orElse r.t0 (firstP1 msgs) = some z) :
    (r.interval msgs).seq msgs =
      (TimeRange.interval { r with t0 := some z, start := r.start.map (·.add z), stop := r.stop.map (· + z),
                                   absolute := true } msgs).seq msgs := by
  rw [Interval.seq_eq_seqC, Interval.seq_eq_seqC]
  apply Interval.seqC_congr
  unfold TimeRange.interval
  rw [ho, ha]
  exact Interval.equiv_shift _ _ _ _

theorem TimeRange.makeAbsolute_run {r r' : TimeRange} {p : Option Int} (retTs : Bool) (msgs : List Msg)
    (hf : r.Fresh) (h : r.makeAbsolute p = .ok r')
    (horigin : r.absolute = false → orElse r.t0 (firstP1 msgs) = (if p.isSome ∧ r.t0.isNone then p else r.t0))
    (hmono : Monotone msgs) :
    r'.absolute = true ∧ (r'.run retTs msgs).2 = (r.run retTs msgs).2 := by
  have hf' := TimeRange.fresh_makeAbsolute hf h
  rw [TimeRange.run_refines r' retTs msgs hf' hmono, TimeRange.run_refines r retTs msgs hf hmono]
  rcases TimeRange.makeAbsolute_ok h with ⟨ha, h⟩ | ⟨ha, z, hz, h⟩
  · subst h
    refine ⟨ha, ?_⟩
    rw [Interval.seq_eq_seqC, Interval.seq_eq_seqC]
    apply Interval.seqC_congr
    unfold TimeRange.interval
    simp only [ha]
    exact Interval.equiv_abs _ _ _ _
  · subst h
    refine ⟨rfl, ?_⟩
    rw [TimeRange.seq_makeAbsolute z msgs ha (by rw [horigin ha, hz])]

/-! ## intersect -/

theorem TimeRange.meet_t0 (a b : TimeRange) : (a.meet b).t0 = orElse a.t0 b.t0 := by
  unfold TimeRange.meet orElse; cases a.t0 <;> rfl

theorem TimeRange.meet_absolute (a b : TimeRange) : (a.meet b).absolute = a.absolute := rfl

theorem TimeRange.intersect_error_iff (a b : TimeRange) :
    a.intersect b = .error .valueError ↔ a.absolute ≠ b.absolute ∧ a.t0 = none ∧ b.t0 = none := by
  unfold TimeRange.intersect TimeRange.makeAbsolute
  cases a.absolute <;> cases b.absolute <;> cases a.t0 <;> cases b.t0 <;> simp

theorem TimeRange.intersect_run {a b c : TimeRange} (retTs : Bool) (msgs : List Msg) (ha : a.Fresh) (hb : b.Fresh)
    (hc : a.intersect b = .ok c) (hcompat : Compatible a b msgs) (hmono : Monotone msgs) :
    (c.run retTs msgs).2 = List.zipWith (· && ·) (a.run retTs msgs).2 (b.run retTs msgs).2 := by
  rw [TimeRange.run_refines a retTs msgs ha hmono, TimeRange.run_refines b retTs msgs hb hmono]
  unfold TimeRange.intersect at hc
  unfold Compatible at hcompat
  cases haa : a.absolute with
  | true =>
    cases hbb : b.absolute with
    | true =>
      simp [haa, hbb] at hc
      subst hc
      rw [TimeRange.run_refines _ retTs msgs (TimeRange.fresh_meet b ha) hmono]
      simp only [Interval.seq_eq_seqC]
      apply Interval.IsMeet.seqC
      constructor
      · intro t; simp [Interval.rel, TimeRange.interval, TimeRange.meet, haa]
      · intro t; simp [Interval.rel, TimeRange.interval, TimeRange.meet, haa, hbb]
      · rfl
      · rfl
    | false =>
      simp only [haa, hbb, true_and, if_true] at hc hcompat
      cases hb' : b.makeAbsolute a.t0 with
      | error e => rw [hb'] at hc; simp at hc
      | ok b' =>
        rw [hb'] at hc
        simp only at hc
        injection hc with hc
        subst hc
        rcases TimeRange.makeAbsolute_ok hb' with ⟨h1, _⟩ | ⟨_, z, hz, hb2⟩
        · rw [hbb] at h1; cases h1
        · rw [TimeRange.run_refines _ retTs msgs (TimeRange.fresh_meet b' ha) hmono]
          have ho : orElse b.t0 (firstP1 msgs) = some z := by
            cases hbt : b.t0 with
            | some zb => rw [hbt] at hz; simp at hz; subst hz; rfl
            | none =>
              rw [hbt] at hz
              have hat := hcompat hbt
              cases hat' : a.t0 with
              | none => rw [hat'] at hz; simp at hz
              | some za => rw [hat'] at hz hat; simp at hz; subst hz; rw [← hat]; rfl
          rw [TimeRange.seq_makeAbsolute z msgs hbb ho, ← hb2]
          simp only [Interval.seq_eq_seqC]
          apply Interval.IsMeet.seqC
          have hb'a : b'.absolute = true := by rw [hb2]
          constructor
          · intro t; simp [Interval.rel, TimeRange.interval, TimeRange.meet, haa]
          · intro t; simp [Interval.rel, TimeRange.interval, TimeRange.meet, haa, hb'a]
          · rfl
          · rfl
  | false =>
    cases hbb : b.absolute with
    | true =>
      simp only [haa, hbb, Bool.false_eq_true, false_and, if_false, and_self, if_true] at hc hcompat
      cases ha' : a.makeAbsolute b.t0 with
      | error e => rw [ha'] at hc; simp at hc
      | ok a' =>
        rw [ha'] at hc
        simp only at hc
        injection hc with hc
        subst hc
        have hfa' := TimeRange.fresh_makeAbsolute ha ha'
        rcases TimeRange.makeAbsolute_ok ha' with ⟨h1, _⟩ | ⟨_, z, hz, ha2⟩
        · rw [haa] at h1; cases h1
        · rw [TimeRange.run_refines _ retTs msgs (TimeRange.fresh_meet b hfa') hmono]
          have ho : orElse a.t0 (firstP1 msgs) = some z := by
            cases hat : a.t0 with
            | some za => rw [hat] at hz; simp at hz; subst hz; rfl
            | none =>
              rw [hat] at hz
              have hbt := hcompat hat
              cases hbt' : b.t0 with
              | none => rw [hbt'] at hz; simp at hz
              | some zb => rw [hbt'] at hz hbt; simp at hz; subst hz; rw [← hbt]; rfl
          rw [TimeRange.seq_makeAbsolute z msgs haa ho, ← ha2]
          simp only [Interval.seq_eq_seqC]
          apply Interval.IsMeet.seqC
          have ha'a : a'.absolute = true := by rw [ha2]
          constructor
          · intro t; simp [Interval.rel, TimeRange.interval, TimeRange.meet, ha'a]
          · intro t; simp [Interval.rel, TimeRange.interval, TimeRange.meet, ha'a, hbb]
          · rfl
          · rfl
    | false =>
      simp [haa, hbb] at hc hcompat
      subst hc
      rw [TimeRange.run_refines _ retTs msgs (TimeRange.fresh_meet b ha) hmono]
      simp only [Interval.seq_eq_seqC]
      apply Interval.IsMeet.seqC
      have hoc : orElse (a.meet b).t0 (firstP1 msgs) = orElse a.t0 (firstP1 msgs) := by
        rw [TimeRange.meet_t0]
        cases hat : a.t0 with
        | some z => rfl
        | none => rw [hat] at hcompat; exact hcompat.symm
      constructor
      · intro t
        unfold Interval.rel TimeRange.interval
        simp only [hoc, TimeRange.meet_absolute]
      · intro t
        unfold Interval.rel TimeRange.interval
        simp only [hoc, TimeRange.meet_absolute, hcompat, haa, hbb]
      · rfl
      · rfl

/-! ## what a run leaves behind -/

theorem TimeRange.isInRange_static (r : TimeRange) (retTs : Bool) (m : Msg) :
    (r.isInRange retTs m).1.start = r.start ∧ (r.isInRange retTs m).1.stop = r.stop ∧
    (r.isInRange retTs m).1.absolute = r.absolute ∧ (r.isInRange retTs m).1.specified = r.specified := by
  cases hs : r.specified with
  | false =>
    rw [TimeRange.isInRange_unspecified retTs m hs]
    unfold TimeRange.extract
    cases m.p1? <;> simp [hs]
  | true =>
    cases hm : m.p1? with
    | none => rw [TimeRange.isInRange_untimed retTs hs hm]; simp [hs]
    | some t => rw [TimeRange.isInRange_timed retTs hs hm]; simp [hs]

theorem TimeRange.run_static {ms : List Msg} : ∀ (r : TimeRange) (retTs : Bool),
    (r.run retTs ms).1.start = r.start ∧ (r.run retTs ms).1.stop = r.stop ∧
    (r.run retTs ms).1.absolute = r.absolute ∧ (r.run retTs ms).1.specified = r.specified := by
  induction ms with
  | nil => intros; exact ⟨rfl, rfl, rfl, rfl⟩
  | cons m ms ih =>
    intro r retTs
    obtain ⟨h1, h2, h3, h4⟩ := r.isInRange_static retTs m
    obtain ⟨i1, i2, i3, i4⟩ := ih (r.isInRange retTs m).1 retTs
    simp only [TimeRange.run]
    exact ⟨i1.trans h1, i2.trans h2, i3.trans h3, i4.trans h4⟩

theorem TimeRange.run_wf {r : TimeRange} (retTs : Bool) (ms : List Msg) (h : r.WF) : (r.run retTs ms).1.WF := by
  obtain ⟨h1, h2, _, h4⟩ := TimeRange.run_static (ms := ms) r retTs
  unfold TimeRange.WF at h ⊢
  rw [h1, h2, h4]; exact h

/-- `t0` after one call: the supplied or already established one, else the P1 time of this message. -/
theorem TimeRange.isInRange_t0 (r : TimeRange) (retTs : Bool) (m : Msg) :
    (r.isInRange retTs m).1.t0 = orElse r.t0 m.p1? := by
  cases hs : r.specified with
  | false =>
    rw [TimeRange.isInRange_unspecified retTs m hs]
    unfold TimeRange.extract orElse TimeRange.t0After
    cases m.p1? <;> cases r.t0 <;> rfl
  | true =>
    cases hm : m.p1? with
    | none => rw [TimeRange.isInRange_untimed retTs hs hm]; unfold orElse; cases r.t0 <;> rfl
    | some t =>
      rw [TimeRange.isInRange_timed retTs hs hm]
      unfold orElse TimeRange.t0After
      cases r.t0 <;> rfl

/-- The origin established by a run: the supplied `t0`, else the first P1 time seen - whether or not the range has
bounds. -/
theorem TimeRange.run_t0 {ms : List Msg} : ∀ (r : TimeRange) (retTs : Bool),
    (r.run retTs ms).1.t0 = orElse r.t0 (firstP1 ms) := by
  induction ms with
  | nil => intro r _; simp only [TimeRange.run]; unfold orElse firstP1; cases h : r.t0 <;> simp [p1Times]
  | cons m ms ih =>
    intro r retTs
    simp only [TimeRange.run]
    rw [ih _ retTs, TimeRange.isInRange_t0]
    cases hm : m.p1? with
    | none => rw [firstP1_cons_untimed hm]; unfold orElse; cases r.t0 <;> rfl
    | some t => rw [firstP1_cons_timed hm]; unfold orElse; cases r.t0 <;> rfl

/-! ## operations on ranges that have already been used -/

/-- `intersect` looks at the latches of neither range and hands the receiver's on unchanged: clearing them before
or after is the same. -/
theorem TimeRange.intersect_restart {x y c : TimeRange} (h : x.intersect y = .ok c) :
    x.restart.intersect y.restart = .ok c.restart := by
  obtain ⟨xs, xe, xa, xz, xsp, xst, xen⟩ := x
  obtain ⟨ys, ye, ya, yz, ysp, yst, yen⟩ := y
  cases xa <;> cases ya <;> cases xz <;> cases yz <;>
    simp [TimeRange.intersect, TimeRange.makeAbsolute, TimeRange.meet, TimeRange.restart] at h ⊢ <;>
    (subst h; simp)

/-- The interval a used range stands for on its next pass: bounds and type as constructed, origin as established. -/
theorem TimeRange.interval_after_run (r : TimeRange) (retTs : Bool) (hist msgs : List Msg) :
    ((r.run retTs hist).1.restart).interval msgs =
      ⟨r.start, r.stop, r.absolute, orElse (orElse r.t0 (firstP1 hist)) (firstP1 msgs)⟩ := by
  obtain ⟨h1, h2, h3, _⟩ := TimeRange.run_static (ms := hist) r retTs
  unfold TimeRange.interval TimeRange.restart
  simp only [h1, h2, h3, TimeRange.run_t0 r retTs]

/-- What `make_absolute` does to the bounds of a relative range whose origin is `z`. -/
def TimeRange.shifted (r : TimeRange) (z : Int) : TimeRange :=
  { r with start := r.start.map (·.add z), stop := r.stop.map (· + z), absolute := true }

theorem TimeRange.makeAbsolute_known {r : TimeRange} {z : Int} (p : Option Int) (ha : r.absolute = false)
    (hz : r.t0 = some z) : r.makeAbsolute p = .ok (r.shifted z) := by
  obtain ⟨s, e, a, t0, sp, st, en⟩ := r
  simp only at ha hz
  subst ha; subst hz
  cases p <;> simp [TimeRange.makeAbsolute, TimeRange.shifted]

theorem TimeRange.shifted_below {r : TimeRange} {z : Int} (ha : r.absolute = false) (hz : r.t0 = some z) (t : Int) :
    (r.shifted z).below ((r.shifted z).cmpTime t) = r.below (r.cmpTime t) := by
  unfold TimeRange.below TimeRange.cmpTime TimeRange.shifted TimeRange.t0After
  simp only [ha, hz, if_true]
  cases r.start with
  | none => rfl
  | some s => simp [Ext.above_add]

theorem TimeRange.shifted_beyond {r : TimeRange} {z : Int} (ha : r.absolute = false) (hz : r.t0 = some z) (t : Int) :
    (r.shifted z).beyond ((r.shifted z).cmpTime t) = r.beyond (r.cmpTime t) := by
  unfold TimeRange.beyond TimeRange.cmpTime TimeRange.shifted TimeRange.t0After
  simp only [ha, hz, if_true]
  cases r.stop with
  | none => rfl
  | some e =>
    simp only [Option.map_some, Bool.false_eq_true, if_false]
    by_cases h : e ≤ t - z
    · have : e + z ≤ t := by omega
      simp [h, this]
    · have : ¬ e + z ≤ t := by omega
      simp [h, this]

/-- One call on the converted range is the same call on the relative range, converted afterwards. -/
theorem TimeRange.shifted_isInRange {r : TimeRange} {z : Int} (ha : r.absolute = false) (hz : r.t0 = some z)
    (retTs : Bool) (m : Msg) :
    (r.shifted z).isInRange retTs m = ((r.isInRange retTs m).1.shifted z, (r.isInRange retTs m).2) := by
  cases hs : r.specified with
  | false =>
    have hs' : (r.shifted z).specified = false := hs
    rw [TimeRange.isInRange_unspecified retTs m hs, TimeRange.isInRange_unspecified retTs m hs']
    unfold TimeRange.extract TimeRange.shifted
    cases m.p1? <;> rfl
  | true =>
    have hs' : (r.shifted z).specified = true := hs
    cases hm : m.p1? with
    | none =>
      rw [TimeRange.isInRange_untimed retTs hs hm, TimeRange.isInRange_untimed retTs hs' hm]
      unfold TimeRange.shifted
      cases r.start <;> rfl
    | some t =>
      rw [TimeRange.isInRange_timed retTs hs hm, TimeRange.isInRange_timed retTs hs' hm,
        TimeRange.shifted_below ha hz, TimeRange.shifted_beyond ha hz]
      unfold TimeRange.shifted TimeRange.t0After
      simp only [hz]

theorem TimeRange.shifted_run {ms : List Msg} : ∀ {r : TimeRange} {z : Int}, r.absolute = false → r.t0 = some z →
    ∀ retTs : Bool, ((r.shifted z).run retTs ms).2 = (r.run retTs ms).2 := by
  induction ms with
  | nil => intros; rfl
  | cons m ms ih =>
    intro r z ha hz retTs
    have ha' : (r.isInRange retTs m).1.absolute = false := by rw [(r.isInRange_static retTs m).2.2.1, ha]
    have hz' : (r.isInRange retTs m).1.t0 = some z := by rw [TimeRange.isInRange_t0, hz]; rfl
    simp only [TimeRange.run]
    rw [TimeRange.shifted_isInRange ha hz retTs m]
    simp only
    rw [ih ha' hz' retTs]

/-! ## the time accessors -/

theorem Obj.msg_p1_of_unambiguous (o : Obj) (h : o.unambiguous = true) : o.msg.p1? = o.docP1 := by
  cases o with
  | raw => rfl
  | plain p1 sys =>
    cases p1 with
    | none => rfl
    | some x => cases x <;> rfl
  | meas d =>
    obtain ⟨mt, src, p1⟩ := d
    by_cases hs : src = .p1Time
    · subst hs
      cases p1 with
      | none => cases mt <;> simp [Obj.msg, Obj.getP1Time, Obj.docP1, Msg.p1?]
      | some t' =>
        simp [Obj.unambiguous] at h
        subst h
        simp [Obj.msg, Obj.getP1Time, Obj.docP1, Msg.p1?]
    · cases p1 <;> simp [Obj.msg, Obj.getP1Time, Obj.docP1, Msg.p1?, hs]

theorem Obj.docMsg_p1 (o : Obj) : o.docMsg.p1? = o.docP1 := by
  unfold Obj.docMsg
  cases o.docP1 <;> rfl

theorem TimeRange.isInRange_congr (r : TimeRange) (retTs : Bool) {m m' : Msg} (h : m.p1? = m'.p1?) :
    r.isInRange retTs m = r.isInRange retTs m' := by
  unfold TimeRange.isInRange TimeRange.extract
  rw [h]

theorem TimeRange.run_congr (retTs : Bool) {α} (f g : α → Msg) {xs : List α} :
    ∀ (r : TimeRange), (∀ x ∈ xs, (f x).p1? = (g x).p1?) → r.run retTs (xs.map f) = r.run retTs (xs.map g) := by
  induction xs with
  | nil => intros; rfl
  | cons x xs ih =>
    intro r h
    have hx := TimeRange.isInRange_congr r retTs (h x (by simp))
    simp only [List.map_cons, TimeRange.run]
    rw [hx, ih _ (fun y hy => h y (by simp [hy]))]

/-! ## the specification, message by message -/

theorem Interval.seqFrom_length (I : Interval) {ms : List Msg} : ∀ {pre acc}, (I.seqFrom pre acc ms).length = ms.length := by
  induction ms with
  | nil => intros; rfl
  | cons m ms ih => intros; simp [Interval.seqFrom, ih]

theorem Interval.seqFrom_getElem (I : Interval) {ms : List Msg} : ∀ {pre acc} (i : Nat) (hi : i < ms.length),
    (I.seqFrom pre acc ms)[i]'(by rw [I.seqFrom_length]; exact hi) =
      I.verdict (pre ++ ms.take i) (acc ++ (I.seqFrom pre acc ms).take i) ms[i] := by
  induction ms with
  | nil => intro _ _ i hi; cases hi
  | cons m ms ih =>
    intro pre acc i hi
    cases i with
    | zero => simp [Interval.seqFrom]
    | succ i =>
      simp only [Interval.seqFrom, List.getElem_cons_succ, List.take_succ_cons]
      rw [ih i (by simpa using hi)]
      simp [List.append_assoc]

end FeVerif.TR
