/-
C01 — message payloads survive serialize/parse unchanged, with consistent sizes.

The wire formats of the Python message classes are written in the layout language of
`FeVerif/Model/Layout.lean` (descriptors: `FeVerif/Generated/C01Layouts.lean`, regenerated from the working
tree by tools/c01_py_extract.py and tied to the classes by the correspondence stage of tools/props/c01.py).
The theorems are generic: proved once by induction over `Layout`, for every byte string and every size of
every variable part, under the decidable well-formedness predicate `WF`; `C01_all_layouts_wf` discharges `WF`
for every concrete descriptor.

Float-arithmetic value codecs (`CodecId.ext`: Timestamp seconds+ns, decimal fixed point, sentinel scalings)
enter only through the hypothesis `ExtStable E (extUses l)`; nothing is proved through `Float`.  Their
stability is tested on the implementation (tools/props/c01.py).  PARTIAL in exactly this respect:
the full statement for a class that uses such a codec is `C01_parse_build` + the tested hypothesis.
-/
import FeVerif.Proofs.Layout
import FeVerif.Generated.C01Layouts

namespace FeVerif
open Lay

/-! ### the generic round-trip theorems -/

/-- Core form: whatever parses (in any count/tag context) can be rebuilt; the serialisation, followed by any
suffix, parses to the identical values and leaves exactly the suffix; and the serialisation is never longer
than what the first parse consumed. -/
theorem C01_roundtrip_core (E : Env) (l : Layout) (hwf : WF l) (hE : ExtStable E (extUses l))
    (bs : Bytes) (vals : List Value) (r : Bytes) (h : parseGo E l [] [] bs = some (vals, r)) :
    ∃ out, buildGo E l [] vals = some out ∧ out.length + r.length ≤ bs.length ∧
      ∀ post, (endsGreedy l = true → post = []) → parseGo E l [] [] (out ++ post) = some (vals, post) := by
  obtain ⟨out, hb, hl, hre⟩ := rt_all E l [] [] hwf hE [] [] bs vals r h
  exact ⟨out, hb, hl, fun post hg => hre [] post (inv_of_closed hwf _ _) hg⟩

/-- What parses can be rebuilt, and re-parses to the identical value with all of the serialisation consumed. -/
theorem C01_parse_build (E : Env) (l : Layout) (hwf : WF l) (hE : ExtStable E (extUses l))
    (bs : Bytes) (v : Value) (n : Nat) (h : parse E l bs = some (v, n)) :
    ∃ bs', build E l v = some bs' ∧ parse E l bs' = some (v, bs'.length) := by
  unfold parse at h
  split at h; · cases h
  rename_i vals r hp
  simp only [Option.some.injEq, Prod.mk.injEq] at h
  obtain ⟨rfl, rfl⟩ := h
  obtain ⟨out, hb, _, hre⟩ := C01_roundtrip_core E l hwf hE bs vals r hp
  refine ⟨out, hb, ?_⟩
  have := hre [] (fun _ => rfl)
  rw [List.append_nil] at this
  simp [parse, this]

/-- The second serialisation reproduces the same bytes. -/
theorem C01_build_idem (E : Env) (l : Layout) (hwf : WF l) (hE : ExtStable E (extUses l))
    (bs : Bytes) (v : Value) (n : Nat) (h : parse E l bs = some (v, n))
    (bs' : Bytes) (hb : build E l v = some bs') (v' : Value) (n' : Nat) (hp : parse E l bs' = some (v', n')) :
    build E l v' = some bs' := by
  obtain ⟨b2, hb2, hp2⟩ := C01_parse_build E l hwf hE bs v n h
  rw [hb] at hb2
  simp only [Option.some.injEq] at hb2; subst hb2
  rw [hp] at hp2
  simp only [Option.some.injEq, Prod.mk.injEq] at hp2
  rw [hp2.1]; exact hb

/-- After the first parse the three sizes agree: bytes consumed by parsing the serialisation = length of the
serialisation = self-reported size (of the object and of the re-parsed object); the first parse consumed at
least that much (it may have skipped bytes the value does not keep: NUL padding, unread tail of a
length-delimited sub-payload). -/
theorem C01_sizes_agree (E : Env) (l : Layout) (hwf : WF l) (hE : ExtStable E (extUses l))
    (bs : Bytes) (v : Value) (n : Nat) (h : parse E l bs = some (v, n))
    (bs' : Bytes) (hb : build E l v = some bs') :
    parse E l bs' = some (v, bs'.length) ∧ bs'.length = sizeOf l v ∧ bs'.length ≤ n := by
  obtain ⟨b2, hb2, hp2⟩ := C01_parse_build E l hwf hE bs v n h
  rw [hb] at hb2
  simp only [Option.some.injEq] at hb2; subst hb2
  refine ⟨hp2, ?_, ?_⟩
  · cases v with
    | list vs => exact sz_all E l [] vs _ hb
    | int k => simp [build] at hb
    | nan => simp [build] at hb
    | bytes k => simp [build] at hb
  · unfold parse at h
    split at h; · cases h
    rename_i vals r hp
    simp only [Option.some.injEq, Prod.mk.injEq] at h
    obtain ⟨rfl, rfl⟩ := h
    obtain ⟨out, hb', hl, _⟩ := C01_roundtrip_core E l hwf hE bs vals r hp
    have : out = bs' := by
      simp only [build] at hb; rw [hb'] at hb; simpa using hb
    subst this; omega

/-- Reading at an offset of a larger buffer is reading the bytes from that offset on. -/
theorem C01_offset_independent (E : Env) (l : Layout) (pre bs : Bytes) :
    parseAt E l (pre ++ bs) pre.length = parse E l bs := by
  unfold parseAt
  rw [if_neg (by simp), drop_app _ _ _ rfl]

/-- The serialisation of a parsed object, placed anywhere in a buffer and followed by anything, parses to the
same value and consumes exactly its own length (layouts ending in a greedy item excepted: they read to the
end of the buffer by definition). -/
theorem C01_reparse_in_buffer (E : Env) (l : Layout) (hwf : WF l) (hE : ExtStable E (extUses l))
    (hg : endsGreedy l = false)
    (bs : Bytes) (v : Value) (n : Nat) (h : parse E l bs = some (v, n))
    (bs' : Bytes) (hb : build E l v = some bs') (pre post : Bytes) :
    parseAt E l (pre ++ (bs' ++ post)) pre.length = some (v, bs'.length) := by
  rw [C01_offset_independent]
  unfold parse at h
  split at h; · cases h
  rename_i vals r hp
  simp only [Option.some.injEq, Prod.mk.injEq] at h
  obtain ⟨rfl, rfl⟩ := h
  obtain ⟨out, hb', _, hre⟩ := C01_roundtrip_core E l hwf hE bs vals r hp
  have : out = bs' := by
    simp only [build] at hb; rw [hb'] at hb; simpa using hb
  subst this
  have := hre post (fun hg' => by rw [hg] at hg'; cases hg')
  simp [parse, this]

/-- Writing into a caller-supplied buffer changes only `[off, off + size)`, puts exactly the serialisation
there, and keeps the buffer length. -/
theorem C01_buildInto_frame (E : Env) (l : Layout) (v : Value) (buf buf' : Bytes) (off : Nat)
    (h : buildInto E l v buf off = some buf') :
    ∃ out, build E l v = some out ∧ buf'.length = buf.length ∧ buf'.take off = buf.take off ∧
      (buf'.drop off).take out.length = out ∧ buf'.drop (off + out.length) = buf.drop (off + out.length) := by
  unfold buildInto at h
  split at h; · cases h
  rename_i out hb
  split at h; · cases h
  rename_i hlen
  simp only [Option.some.injEq] at h; subst h
  have h1 : (buf.take off).length = off := by simp [List.length_take]; omega
  refine ⟨out, hb, ?_, ?_, ?_, ?_⟩
  · simp only [List.length_append, List.length_take, List.length_drop]; omega
  · rw [List.append_assoc]; exact take_app _ _ _ h1
  · rw [List.append_assoc, drop_app _ _ _ h1]; simp
  · have : (buf.take off ++ out).length = off + out.length := by simp [h1]
    exact drop_app _ _ _ this

/-- Library-allocated buffer (`pack()` without arguments allocates `calcsize()` zero bytes and writes at 0)
= serialisation. -/
theorem C01_library_buffer (E : Env) (l : Layout) (v : Value) (out : Bytes) (hb : build E l v = some out) :
    buildInto E l v (zeros out.length) 0 = some out := by
  simp [buildInto, hb]

/-! ### value codecs: the `Stable` law, proved for every codec that does no float arithmetic -/

theorem C01_stable_identity (w : Nat) : Stable uintCodec w ∧ (1 ≤ w → Stable sintCodec w) :=
  ⟨uint_stable w, sint_stable w⟩
theorem C01_stable_bool (w : Nat) (h : 1 ≤ w) : Stable boolCodec w := bool_stable w h
theorem C01_stable_enum_strict (ms : List Nat) (w : Nat) : Stable (enumStrictCodec ms) w := enumStrict_stable ms w
/-- lenient enumerations keep the unknown integer: decode is the identity on the raw number -/
theorem C01_stable_enum_lenient (E : Env) (ms : List Nat) (w r : Nat) :
    Stable (codecOf E (.enumLenient ms)) w ∧ (codecOf E (.enumLenient ms)).dec w r = some (.int r) :=
  ⟨uint_stable w, rfl⟩
theorem C01_stable_fixed_bytes (w : Nat) : Stable rawCodec w := raw_stable w
/-- floats as bit patterns, every NaN pattern identified with the canonical quiet NaN -/
theorem C01_stable_float_bits : Stable f32Codec 4 ∧ Stable f64Codec 8 := ⟨f32_stable, f64_stable⟩
theorem C01_stable_discard (fill w : Nat) (h : fill < 256 ^ w) : Stable (discardCodec fill) w := discard_stable fill w h
/-- counted / fixed ASCII strings: NUL stripping is idempotent and padding is transparent -/
theorem C01_string_stable (b : Bytes) (k : Nat) :
    stripZ (stripZ b ++ zeros k) = stripZ b ∧ (isAscii b = true → isAscii (stripZ b ++ zeros k) = true) := by
  refine ⟨by rw [stripZ_append_zeros, stripZ_idem], fun h => ?_⟩
  rw [isAscii_append, isAscii_stripZ b h, isAscii_zeros]; rfl

/-! ### the concrete descriptors -/

/-- Every generated descriptor is well formed: count fields precede what they count and are used exactly once,
switch tags precede the switch, codecs sit on fields of the right width, nested layouts are closed and
greedy items are last.  Re-checked whenever the generated file changes. -/
theorem C01_all_layouts_wf : ∀ p ∈ Gen.allLayouts, WF p.2 := by decide

/-- The float-arithmetic codecs (id, width) that the descriptors use. -/
def c01ExtUsed : List (Nat × Nat) := Gen.allLayouts.flatMap (fun p => extUses p.2)

/-- Per-class statement: for every descriptor, under the (tested) stability of the float codecs it uses. -/
theorem C01_every_class_roundtrip_partial (E : Env) (hE : ExtStable E c01ExtUsed) :
    ∀ p ∈ Gen.allLayouts, ∀ bs v n, parse E p.2 bs = some (v, n) →
      ∃ bs', build E p.2 v = some bs' ∧ parse E p.2 bs' = some (v, bs'.length) ∧
        bs'.length = sizeOf p.2 v ∧ bs'.length ≤ n ∧
        (∀ v' n', parse E p.2 bs' = some (v', n') → build E p.2 v' = some bs') := by
  intro p hp bs v n h
  have hwf := C01_all_layouts_wf p hp
  have hE' : ExtStable E (extUses p.2) := fun q hq =>
    hE q (List.mem_flatMap.2 ⟨p, hp, hq⟩)
  obtain ⟨bs', hb, hre⟩ := C01_parse_build E p.2 hwf hE' bs v n h
  obtain ⟨_, hs, hn⟩ := C01_sizes_agree E p.2 hwf hE' bs v n h bs' hb
  exact ⟨bs', hb, hre, hs, hn, fun v' n' hp' => C01_build_idem E p.2 hwf hE' bs v n h bs' hb v' n' hp'⟩

/-
FULL STATEMENT (not a theorem): the same with `E := envOf Gen.extTable` (the executable model of the Python float
codecs) and without `hE`.  It is false of the code as it is: a Timestamp whose nanosecond field is >= 10^9 parses
to a float that re-serialises canonically and re-parses one ulp away (open finding
C01/Timestamp/value-drift:seconds:ns-field>=1e9).  Lean's kernel does not evaluate `Float`, so the witness is
exhibited by the executable check below instead of a `C01_full_fails` theorem.
-/
-- (sec = 0, ns = 0x70000000): parse, build, parse again gives a different value tree
#guard
  let E := envOf Gen.extTable
  let l := Gen.L_Timestamp
  let b0 : Bytes := [0, 0, 0, 0, 0, 0, 0, 0x70]
  match parse E l b0 with
  | some (v, _) =>
    match build E l v with
    | some b1 => (match parse E l b1 with | some (v', _) => v'.text != v.text | none => false)
    | none => false
  | none => false
-- whereas a valid encoding (sec = 58682, ns = 790256926: drifted by 1 ns per cycle before the fix) is stable
#guard
  let E := envOf Gen.extTable
  let l := Gen.L_Timestamp
  let b0 : Bytes := [0x3a, 0xe5, 0, 0, 0x1e, 0x5d, 0x1a, 0x2f]
  (parse E l b0).bind (fun p => build E l p.1) == some b0

/-- Classes whose descriptor uses no float-arithmetic codec: unconditional. -/
theorem C01_every_float_free_class_roundtrip (E : Env) :
    ∀ p ∈ Gen.allLayouts, extUses p.2 = [] → ∀ bs v n, parse E p.2 bs = some (v, n) →
      ∃ bs', build E p.2 v = some bs' ∧ parse E p.2 bs' = some (v, bs'.length) ∧
        bs'.length = sizeOf p.2 v ∧ bs'.length ≤ n := by
  intro p hp hx bs v n h
  have hwf := C01_all_layouts_wf p hp
  have hE' : ExtStable E (extUses p.2) := by rw [hx]; intro q hq; cases hq
  obtain ⟨bs', hb, hre⟩ := C01_parse_build E p.2 hwf hE' bs v n h
  obtain ⟨_, hs, hn⟩ := C01_sizes_agree E p.2 hwf hE' bs v n h bs' hb
  exact ⟨bs', hb, hre, hs, hn⟩

/-! ### non-vacuity (executable checks of the model, not theorems) -/

-- a VersionInfoMessage with NUL-padded text: 23 bytes parse, 19 bytes are rebuilt, which re-parse identically
#guard (parse (envOf Gen.extTable) Gen.L_VersionInfoMessage
    [5,0,0,0,0,0,0,0, 5,0,2,0, 0,0,0,0, 0x61,0x62,0x63,0,0, 0,0]).map (·.2) == some 23
#guard ((parse (envOf Gen.extTable) Gen.L_VersionInfoMessage
    [5,0,0,0,0,0,0,0, 5,0,2,0, 0,0,0,0, 0x61,0x62,0x63,0,0, 0,0]).bind
      (fun p => build (envOf Gen.extTable) Gen.L_VersionInfoMessage p.1)).map List.length == some 19
-- a layout that violates well-formedness (count declared after use) is rejected
#guard decide (WF (.bytes 1 (.ref 2) false (.count 2 1 .nil))) == false
-- the float-free part is not empty
#guard (Gen.allLayouts.filter (fun p => (extUses p.2).isEmpty)).length ≥ 30

end FeVerif
