/-
C02 — the Python wire layout equals the canonical C++ packed-struct layout.

`cxxStructs` (Generated/C02CxxLayout.lean) is the layout of every `P1_ALIGNAS(4)` struct of
`src/point_one/fusion_engine/messages/*.h` as printed by a probe program compiled with the real headers:
`sizeof`, `alignof`, and per member `offsetof`, `sizeof`, kind, extent.  `descriptor s` is the list of
(name, width, kind) the generic codec `parseFixed` / `buildFixed` (Model/FixedLayout.lean) works from.

What is proved here:
  * about the table (re-decided whenever the headers change): every struct is packed — members in
    declaration order tile `[0, sizeof)` — also after replacing struct-typed members by their own members;
  * the codec reads/writes member `i` exactly at the compiler's `offsetof`/`sizeof` (descriptor ↔ table);
  * generically, by induction over the descriptor: field isolation in both directions and the round trip,
    i.e. two implementations of the same descriptor interpret each other's bytes identically.
That the *Python* classes implement the descriptor is the job of the exhaustive member probing in
tools/props/c02.py (every leaf member × several bit patterns × both directions), not of a theorem.
-/
import FeVerif.Proofs.FixedLayout
import FeVerif.Generated.C02CxxChecks

namespace FeVerif
open FixedLayout C02Gen

/-! ## The compiler-derived table -/

/-- Every C++ struct is packed: members sorted by offset, non-overlapping, contiguous from offset 0,
none empty, sizes adding up to `sizeof`, and `sizeof` a multiple of the 4-byte alignment. -/
theorem C02_cxx_layout_packed : ∀ s ∈ cxxStructs, Packed s :=
  fun s hs => packedB_sound (all_packed s hs)

/-- Extents and element sizes multiply out; a struct-typed member has exactly the size of the table
entry it names (so replacing it by that struct's members is meaningful). -/
theorem C02_cxx_members_well_shaped : ∀ s ∈ cxxStructs, ∀ m ∈ s.members, MemberShape cxxStructs m := by
  intro s hs m hm
  have h := all_shapes s hs
  simp only [shapesB, List.all_eq_true] at h
  exact memberShapeB_sound (h m hm)

/-- The same after flattening nested structs (Timestamp, MeasurementDetails, InterfaceID, DataVersion …):
the leaf members — the units the Python probing works on — tile `[0, sizeof)` as well. -/
theorem C02_cxx_nested_layout_packed : ∀ s ∈ cxxStructs,
    ∃ leaves, flatten cxxStructs s = some leaves ∧ Packed { s with members := leaves } := by
  intro s hs
  obtain ⟨leaves, hl, ht⟩ := flatB_sound (all_flat s hs)
  have hp := all_packed s hs
  simp only [packedB, Bool.and_eq_true] at hp
  refine ⟨leaves, hl, packedB_sound ?_⟩
  simp only [packedB, Bool.and_eq_true]
  exact ⟨⟨by simpa using ht, hp.1.2⟩, hp.2⟩

/-- README ("Message Packing"): every `float`/`double` member, also inside nested structs, starts on a
4-byte boundary of the message. -/
theorem C02_cxx_floats_4byte_aligned : ∀ s ∈ cxxStructs, ∀ leaves, flatten cxxStructs s = some leaves →
    ∀ m ∈ leaves, m.elemKind = .f → m.offset % 4 = 0 := by
  intro s hs leaves hl m hm hk
  have h := all_falign s hs
  simp only [floatsAlignedB, hl, List.all_eq_true] at h
  have := h m hm
  simpa [hk] using this

/-- Struct names are unique and no two structs claim the same `MESSAGE_TYPE`: "the Python class for this
struct" (by message type) is well defined. -/
theorem C02_cxx_keys_distinct :
    (cxxStructs.map (·.name)).Nodup ∧ (cxxStructs.filterMap (·.msgType)).Nodup := by
  have h := keys_distinct
  simp only [keysDistinctB, Bool.and_eq_true] at h
  exact ⟨nodupB_sound h.1, nodupB_sound h.2⟩

/-! ## Descriptor ↔ table -/

/-- The descriptor the codec uses has the table's member names, and its running offsets and widths are
exactly the compiler's `(offsetof, sizeof)` pairs; its total width is `sizeof`. -/
theorem C02_descriptor_matches_cxx : ∀ s ∈ cxxStructs,
    (descriptor s).map (·.name) = s.members.map (·.name) ∧
    offsetsOf (descriptor s) 0 = s.members.map (fun m => (m.offset, m.size)) ∧
    totalWidth (descriptor s) = s.sizeof := by
  intro s hs
  have hp := all_packed s hs
  simp only [packedB, Bool.and_eq_true, beq_iff_eq] at hp
  obtain ⟨h1, h2⟩ := offsetsOf_of_tiled hp.1.1
  refine ⟨by simp [descriptor, Member.toField], h1, by simpa [descriptor] using h2⟩

/-- Same for the flattened (leaf) descriptor. -/
theorem C02_flat_descriptor_matches_cxx : ∀ s ∈ cxxStructs,
    ∃ leaves, flatten cxxStructs s = some leaves ∧
      flatDescriptor cxxStructs s = leaves.map Member.toField ∧
      offsetsOf (flatDescriptor cxxStructs s) 0 = leaves.map (fun m => (m.offset, m.size)) ∧
      totalWidth (flatDescriptor cxxStructs s) = s.sizeof := by
  intro s hs
  obtain ⟨leaves, hl, ht⟩ := flatB_sound (all_flat s hs)
  obtain ⟨h1, h2⟩ := offsetsOf_of_tiled ht
  refine ⟨leaves, hl, ?_, ?_, ?_⟩ <;> simp only [flatDescriptor, hl]
  · exact h1
  · simpa using h2

/-- Parsing with a struct's descriptor yields, for member `i`, its name and exactly the bytes
`[offsetof, offsetof + sizeof)` of the input, with the numbers the C++ compiler reported. -/
theorem C02_member_read_at_cxx_offset : ∀ s ∈ cxxStructs, ∀ (bs : Bytes) (vs : List (Nat × Bytes)),
    parseFixed (descriptor s) bs = some vs → ∀ i, (hi : i < s.members.length) →
      vs[i]? = some (s.members[i].name, slice bs s.members[i].offset s.members[i].size) := by
  intro s hs bs vs hp i hi
  have hpk := all_packed s hs
  simp only [packedB, Bool.and_eq_true, beq_iff_eq] at hpk
  have hi' : i < (descriptor s).length := by simpa [descriptor] using hi
  have hlen := parseFixed_length hp
  rw [List.getElem?_eq_getElem (by omega), parseFixed_getElem hp i hi']
  have ho := offsetOf_descriptor_of_tiled hpk.1.1 i hi
  simp only [descriptor] at ho ⊢
  rw [ho]
  simp [Member.toField]

/-- Parsing succeeds exactly when at least `sizeof` bytes are given (the fixed-part size). -/
theorem C02_fixed_size_is_sizeof : ∀ s ∈ cxxStructs, ∀ bs : Bytes,
    (parseFixed (descriptor s) bs).isSome = true ↔ s.sizeof ≤ bs.length := by
  intro s hs bs
  rw [parseFixed_isSome, (C02_descriptor_matches_cxx s hs).2.2]

/-! ## The generic codec: field isolation and mutual interpretation -/

/-- Reading direction. Overwriting the bytes of member `i` (at the descriptor's offset, with its width)
changes field `i` of the parse to the new bytes and changes no other field. -/
theorem C02_field_isolation_parse (d : List Field) (bs : Bytes) (vs : List (Nat × Bytes)) (i : Nat)
    (hi : i < d.length) (new : Bytes) (hn : new.length = d[i].width) (hp : parseFixed d bs = some vs) :
    parseFixed d (overwrite bs (offsetOf d i) new) = some (vs.set i (d[i].name, new)) ∧
    ∀ j, j ≠ i → (vs.set i (d[i].name, new))[j]? = vs[j]? :=
  ⟨parse_overwrite d bs vs i hi new hn hp, fun _ hj => List.getElem?_set_ne (Ne.symm hj)⟩

/-- Writing direction. Changing value `i` changes exactly the bytes `[offset i, offset i + width i)` of
the serialisation: they become the new value, every other byte is as before, the length is unchanged. -/
theorem C02_field_isolation_build (d : List Field) (vs : List (Nat × Bytes)) (bs : Bytes) (i : Nat)
    (hi : i < d.length) (new : Bytes) (hn : new.length = d[i].width) (hb : buildFixed d vs = some bs) :
    ∃ bs', buildFixed d (vs.set i (d[i].name, new)) = some bs' ∧
      bs'.length = bs.length ∧
      slice bs' (offsetOf d i) d[i].width = new ∧
      ∀ k, k < offsetOf d i ∨ offsetOf d i + d[i].width ≤ k → bs'[k]? = bs[k]? := by
  have hb' := build_set d vs bs i hi new hn hb
  have hlen := (buildFixed_length hb).1
  have hfit : offsetOf d i + new.length ≤ bs.length := by
    rw [hlen, hn]
    exact offsetOf_add_width_le d i hi
  refine ⟨_, hb', overwrite_length _ _ _ hfit, ?_, ?_⟩
  · rw [← hn]; exact overwrite_slice _ _ _ (by omega)
  · intro k hk
    exact overwrite_getElem?_outside _ _ _ _ hfit (by rw [hn]; exact hk)

/-- Field isolation at the C++ compiler's offsets: for a struct of the table, overwriting
`[offsetof m, offsetof m + sizeof m)` changes exactly field `m` of the parse. -/
theorem C02_field_isolation_at_cxx_offsets : ∀ s ∈ cxxStructs, ∀ (bs : Bytes) (vs : List (Nat × Bytes)) (i : Nat)
    (hi : i < s.members.length) (new : Bytes), new.length = s.members[i].size →
    parseFixed (descriptor s) bs = some vs →
    parseFixed (descriptor s) (overwrite bs s.members[i].offset new) = some (vs.set i (s.members[i].name, new)) := by
  intro s hs bs vs i hi new hn hp
  have hpk := all_packed s hs
  simp only [packedB, Bool.and_eq_true, beq_iff_eq] at hpk
  exact isolation_of_tiled hpk.1.1 bs vs i hi new hn hp

/-- The same for the flattened members (the units of the Python probing): overwriting the bytes of one
leaf — e.g. `details.measurement_time.seconds` at its absolute offset — changes exactly that leaf. -/
theorem C02_leaf_isolation_at_cxx_offsets : ∀ s ∈ cxxStructs, ∀ leaves, flatten cxxStructs s = some leaves →
    ∀ (bs : Bytes) (vs : List (Nat × Bytes)) (i : Nat) (hi : i < leaves.length) (new : Bytes),
    new.length = leaves[i].size → parseFixed (leaves.map Member.toField) bs = some vs →
    parseFixed (leaves.map Member.toField) (overwrite bs leaves[i].offset new) =
      some (vs.set i (leaves[i].name, new)) := by
  intro s hs leaves hl bs vs i hi new hn hp
  obtain ⟨ls, hl', ht⟩ := flatB_sound (all_flat s hs)
  rw [hl] at hl'
  injection hl' with hl'
  subst hl'
  exact isolation_of_tiled ht bs vs i hi new hn hp

/-- Mutual interpretation. Bytes built from values by one implementation of a descriptor parse, by any
other implementation of the same descriptor, to the same values — whatever follows the record; and the
values parsed from a record build back to the record's own bytes. -/
theorem C02_bytes_interpreted_identically (d : List Field) :
    (∀ vs bs tail, buildFixed d vs = some bs → parseFixed d (bs ++ tail) = some vs) ∧
    (∀ bs vs, parseFixed d bs = some vs → buildFixed d vs = some (bs.take (totalWidth d))) :=
  ⟨fun _ _ tail h => parse_build h tail, fun _ _ h => build_parse h⟩

/-! ## Non-vacuity -/

/-- The table is the real one: more than sixty structs, none without members. -/
theorem C02_table_nonempty : 60 ≤ cxxStructs.length ∧ ∀ s ∈ cxxStructs, s.members ≠ [] := by decide

private def exDesc : List Field := [⟨1, 2, .u⟩, ⟨2, 1, .bool⟩, ⟨3, 3, .bytes⟩, ⟨4, 4, .f⟩]
private def exBytes : Bytes := [1, 2, 3, 4, 5, 6, 7, 8, 9, 10, 11]

#guard parseFixed exDesc exBytes == some [(1, [1, 2]), (2, [3]), (3, [4, 5, 6]), (4, [7, 8, 9, 10])]
#guard parseFixed exDesc (exBytes.take 9) == none
#guard parseFixed exDesc (overwrite exBytes (offsetOf exDesc 2) [0xAA, 0xBB, 0xCC]) ==
  some [(1, [1, 2]), (2, [3]), (3, [0xAA, 0xBB, 0xCC]), (4, [7, 8, 9, 10])]
#guard buildFixed exDesc [(1, [1, 2]), (2, [3]), (3, [4, 5, 6]), (4, [7, 8, 9, 10])] == some (exBytes.take 10)
#guard buildFixed exDesc [(2, [3]), (1, [1, 2]), (3, [4, 5, 6]), (4, [7, 8, 9, 10])] == none
#guard (cxxStructs.filter (fun s => (flatten cxxStructs s).map (·.length) != some s.members.length)).length ≥ 30

end FeVerif
