/-
C03 — enumerations and the message-type registry agree between C++ and Python.

Every theorem below is decided by the kernel over the two tables that the translators regenerate from the working
tree on every run (Generated/C03Cxx.lean: values printed by a C++ probe compiled against the headers;
Generated/C03Py.lean: values of the imported package, cross-checked against `ast.parse`).  The relations are defined
in Spec/C03.lean, where the hand-written pairing table `enumPairs` and the exemption list `pyNotOnWire` also live.
One theorem per pair, so that a failing one names the enumeration; the ∀-statement is assembled from them.
-/
import FeVerif.Proofs.C03

namespace FeVerif
open C03

/-! ### the pairing table reads as intended (name codes are what the translators emit) -/

example : nm "MessageType" = 0x4d65737361676554797065 := by decide +kernel
example : (same "Response").cxx = 0x526573706f6e7365 := by decide +kernel
/-- The hypotheses are satisfiable by a non-trivial instance: `MessageType` exists on both sides, is non-empty, and the
sentinels really remove something on each side (so the comparison is not vacuous and not over empty lists). -/
example : ∃ c q, lookup (nm "MessageType") cxxAll = some c ∧ lookup (nm "MessageType") Py.enums = some q ∧
    0 < (wire c [MAX_VALUE]).length ∧ (wire c [MAX_VALUE]).length < c.length ∧
    0 < (wire q [nm "RESERVED"]).length ∧ (wire q [nm "RESERVED"]).length < q.length := by decide +kernel
/-- The relation is not trivially true: it distinguishes a renumbered member and a missing member. -/
example : ¬ SameMembers [(nm "A", 1), (nm "B", 2)] [(nm "A", 1), (nm "B", 3)] := by decide +kernel
example : ¬ SameMembers [(nm "A", 1), (nm "B", 2)] [(nm "A", 1)] := by decide +kernel
example : SameMembers [(nm "A", 1), (nm "B", 2)] [(nm "B", 2), (nm "A", 1)] := by decide +kernel
example : ¬ TheOnly [((1 : Nat), (5 : Int), (0 : Int)), (2, 5, 0)] (fun _ => True) := by decide +kernel

/-- The relation for paths keyed by number: an alias is covered by the first name of its number; a name the C++
enumeration lacks, another number for a name, or an unreached number are not. -/
example : CoversByValue [(nm "A", 1), (nm "B", 1), (nm "C", 2)] [(nm "A", 1), (nm "C", 2)] := by decide +kernel
example : ¬ CoversByValue [(nm "A", 1), (nm "C", 2)] [(nm "A", 1)] := by decide +kernel
example : ¬ CoversByValue [(nm "A", 1)] [(nm "A", 1), (nm "D", 1)] := by decide +kernel
example : ¬ CoversByValue [(nm "A", 1), (nm "C", 2)] [(nm "A", 2), (nm "C", 2)] := by decide +kernel
/-- `ViewAgrees` is not vacuous: a view in which `GearType.FORWARD` answers 0 is rejected, whatever the other tables are. -/
example : ¬ ViewAgrees false [(nm "GearType", [(nm "FORWARD", 0)])] (same "GearType") := by decide +kernel

/-! ### one theorem per enumeration pair -/

theorem C03_enum_ConfigType : PairAgrees (same "ConfigType") := by decide +kernel
theorem C03_enum_ConfigurationSource : PairAgrees (same "ConfigurationSource") := by decide +kernel
theorem C03_enum_SaveAction : PairAgrees (same "SaveAction") := by decide +kernel
theorem C03_enum_CoarseOrientation_Direction :
    PairAgrees { cxx := nm "CoarseOrientation::Direction", py := nm "Direction" } := by decide +kernel
theorem C03_enum_VehicleModel : PairAgrees (same "VehicleModel") := by decide +kernel
theorem C03_enum_WheelSensorType : PairAgrees (same "WheelSensorType") := by decide +kernel
theorem C03_enum_AppliedSpeedType : PairAgrees (same "AppliedSpeedType") := by decide +kernel
theorem C03_enum_SteeringType : PairAgrees (same "SteeringType") := by decide +kernel
theorem C03_enum_TickMode : PairAgrees (same "TickMode") := by decide +kernel
theorem C03_enum_TickDirection : PairAgrees (same "TickDirection") := by decide +kernel
theorem C03_enum_IonoDelayModel : PairAgrees (same "IonoDelayModel") := by decide +kernel
theorem C03_enum_TropoDelayModel : PairAgrees (same "TropoDelayModel") := by decide +kernel
theorem C03_enum_DataType : PairAgrees (same "DataType") := by decide +kernel
theorem C03_enum_InterfaceConfigType : PairAgrees (same "InterfaceConfigType") := by decide +kernel
theorem C03_enum_ProtocolType : PairAgrees (same "ProtocolType") := by decide +kernel
theorem C03_enum_TransportType : PairAgrees (same "TransportType") := by decide +kernel
theorem C03_enum_TransportDirection : PairAgrees (same "TransportDirection") := by decide +kernel
theorem C03_enum_SocketType : PairAgrees (same "SocketType") := by decide +kernel
theorem C03_enum_NmeaMessageType : PairAgrees (same "NmeaMessageType") := by decide +kernel
theorem C03_enum_MessageRate : PairAgrees (same "MessageRate") := by decide +kernel
theorem C03_enum_MessageType :
    PairAgrees { cxx := nm "MessageType", py := nm "MessageType", cxxSentinels := [MAX_VALUE],
                 pySentinels := [nm "RESERVED"] } := by decide +kernel
theorem C03_enum_Response : PairAgrees (same "Response") := by decide +kernel
theorem C03_enum_SolutionType :
    PairAgrees { cxx := nm "SolutionType", py := nm "SolutionType", cxxSentinels := [MAX_VALUE] } := by decide +kernel
theorem C03_enum_DeviceType : PairAgrees (same "DeviceType") := by decide +kernel
theorem C03_enum_EventNotificationMessage_EventType :
    PairAgrees { cxx := nm "EventNotificationMessage::EventType", py := nm "EventType" } := by decide +kernel
theorem C03_enum_FaultType : PairAgrees (same "FaultType") := by decide +kernel
theorem C03_enum_CoComType : PairAgrees (same "CoComType") := by decide +kernel
theorem C03_enum_SensorDataSource : PairAgrees (same "SensorDataSource") := by decide +kernel
theorem C03_enum_SystemTimeSource : PairAgrees (same "SystemTimeSource") := by decide +kernel
theorem C03_enum_GearType : PairAgrees (same "GearType") := by decide +kernel
theorem C03_enum_SatelliteType :
    PairAgrees { cxx := nm "SatelliteType", py := nm "SatelliteType", cxxSentinels := [MAX_VALUE] } := by decide +kernel
theorem C03_enum_FrequencyBand :
    PairAgrees { cxx := nm "FrequencyBand", py := nm "FrequencyBand", cxxSentinels := [MAX_VALUE] } := by decide +kernel
theorem C03_enum_CalibrationStage : PairAgrees (same "CalibrationStage") := by decide +kernel
theorem C03_enum_ros_CovarianceType :
    PairAgrees { cxx := nm "ros::GPSFixMessage::COVARIANCE_TYPE_*", py := nm "CovarianceType" } := by decide +kernel

/-! ### the property -/

/-- **Enumerations agree.** For every pair of the pairing table, both enumerations exist and, sentinels removed, have
the same members as sets of (name, value): every named wire value of the C++ enumeration is a member of the Python
`IntEnum` with the same number, and conversely. -/
theorem C03_enums_agree : ∀ p ∈ enumPairs, PairAgrees p := by
  intro p hp
  simp only [enumPairs, List.mem_cons, List.not_mem_nil, or_false] at hp
  rcases hp with rfl | rfl | rfl | rfl | rfl | rfl | rfl | rfl | rfl | rfl | rfl | rfl | rfl | rfl | rfl | rfl | rfl |
    rfl | rfl | rfl | rfl | rfl | rfl | rfl | rfl | rfl | rfl | rfl | rfl | rfl | rfl | rfl | rfl | rfl
  · exact C03_enum_ConfigType
  · exact C03_enum_ConfigurationSource
  · exact C03_enum_SaveAction
  · exact C03_enum_CoarseOrientation_Direction
  · exact C03_enum_VehicleModel
  · exact C03_enum_WheelSensorType
  · exact C03_enum_AppliedSpeedType
  · exact C03_enum_SteeringType
  · exact C03_enum_TickMode
  · exact C03_enum_TickDirection
  · exact C03_enum_IonoDelayModel
  · exact C03_enum_TropoDelayModel
  · exact C03_enum_DataType
  · exact C03_enum_InterfaceConfigType
  · exact C03_enum_ProtocolType
  · exact C03_enum_TransportType
  · exact C03_enum_TransportDirection
  · exact C03_enum_SocketType
  · exact C03_enum_NmeaMessageType
  · exact C03_enum_MessageRate
  · exact C03_enum_MessageType
  · exact C03_enum_Response
  · exact C03_enum_SolutionType
  · exact C03_enum_DeviceType
  · exact C03_enum_EventNotificationMessage_EventType
  · exact C03_enum_FaultType
  · exact C03_enum_CoComType
  · exact C03_enum_SensorDataSource
  · exact C03_enum_SystemTimeSource
  · exact C03_enum_GearType
  · exact C03_enum_SatelliteType
  · exact C03_enum_FrequencyBand
  · exact C03_enum_CalibrationStage
  · exact C03_enum_ros_CovarianceType

/-- **Every access path gives the C++ number, whatever was asked before.** In each recorded order of asking the
enumerations (forward, reverse; one fresh interpreter each, every enumeration asked for every name and number that any
enumeration defines) and through each access path (`E.NAME`, `E.__members__`, `E['NAME']`, `E('NAME')`,
`E.from_string('NAME')`, the lower- and mixed-case spellings the class accepts, `E(number)`, `E[number]`, iteration,
`reversed`, the `raise_on_unrecognized=False` forms), the table name -> number of every paired Python enumeration is
the C++ enumeration's table (sentinels removed; for the paths keyed by number: every entry is a C++ (name, number)
and every C++ number is reached). -/
theorem C03_every_access_path_agrees :
    ∀ v ∈ Py.accessViews, ∀ p ∈ enumPairs, ViewAgrees v.2.2.1 v.2.2.2 p := by decide +kernel

/-- The table of access paths is not a smaller one: both required orders occur with every required path, and every
view lists exactly the enumerations of `Py.enums`. -/
theorem C03_access_paths_covered :
    (∀ o ∈ requiredOrders, ∀ a ∈ requiredPaths, ∃ v ∈ Py.accessViews, v.1 = o ∧ v.2.1 = a) ∧
    (∀ v ∈ Py.accessViews, v.2.2.2.map (·.1) = Py.enums.map (·.1)) := by decide +kernel

/-- **No name resolves outside its enumeration.** In the same sweeps every enumeration was also asked for the names and
numbers that only OTHER enumerations define; none of those look-ups returned a value: through no path does a Python
enumeration have a named value that its table (and hence, by the theorems above, the C++ enumeration) lacks. -/
theorem C03_no_name_resolves_outside_its_enumeration : Py.accessExtraNames = [] := by decide +kernel

/-- Every name excused as a sentinel exists on its side; a C++ sentinel is an alias (its value is also the value of a
non-sentinel enumerator, so no wire value is excused); a Python sentinel lies above every C++ value of the enumeration. -/
theorem C03_sentinels_justified : ∀ p ∈ enumPairs, SentinelsJustified p := by decide +kernel

/-- **Every C++ `enum class` is paired**: each `enum class` block of the message headers (and each constant group
the translator lists) is the C++ side of exactly one line of the pairing table. -/
theorem C03_every_cxx_enum_paired :
    (∀ e ∈ cxxAll, ∃ p ∈ enumPairs, p.cxx = e.1) ∧ (enumPairs.map (·.cxx)).Nodup ∧ (cxxAll.map (·.1)).Nodup := by
  decide +kernel

/-- **Every Python protocol enumeration is paired**: every `class X(IntEnum)` of `fusion_engine_client/messages/*.py`
is either the Python side of exactly one line of the pairing table or one of the two classes listed in `pyNotOnWire`
(`UpdateAction`, `SignalType`: serialised by no payload class, no C++ counterpart) — never both. -/
theorem C03_every_py_wire_enum_paired :
    (∀ e ∈ Py.enums, (e.1 ∈ pyNotOnWire ∧ ¬ ∃ p ∈ enumPairs, p.py = e.1) ∨
                     (e.1 ∉ pyNotOnWire ∧ ∃ p ∈ enumPairs, p.py = e.1)) ∧
    (enumPairs.map (·.py)).Nodup ∧ (Py.enums.map (·.1)).Nodup := by
  decide +kernel

/-- **Command / response classification agrees.** For every `MessageType` enumerator `t` of the C++ headers,
`IsCommand(t)` holds exactly when `t ∈ COMMAND_MESSAGES` and `IsResponse(t)` exactly when `t ∈ RESPONSE_MESSAGES`;
the classification table covers every C++ `MessageType` enumerator, and Python classifies no value that is not a
C++ `MessageType` value. -/
theorem C03_command_classification_agrees :
    (∀ e ∈ Cxx.classification,
        e.2.1 = decide (e.1 ∈ Py.commandTypes) ∧ e.2.2 = decide (e.1 ∈ Py.responseTypes)) ∧
    (∀ nv ∈ Cxx.enum_MessageType, ∃ e ∈ Cxx.classification, e.1 = nv.2) ∧
    (∀ t ∈ Py.commandTypes ++ Py.responseTypes, ∃ e ∈ Cxx.classification, e.1 = t) := by
  decide +kernel

/-- **Every declared call form classifies like Python.** The headers declare `IsCommand` / `IsResponse` more than once
(overloads taking a `MessageType`, a `const MessageHeader&`, ...; the translator lists every declaration it finds and the
probe calls exactly that overload with an argument of the declared parameter type).  For every declared form and every
C++ `MessageType` enumerator the result equals membership in the Python set of the function's name; every form covers
every enumerator; both functions have at least one form. -/
theorem C03_every_call_form_agrees :
    (∀ f ∈ Cxx.callForms,
        (f.1 = nm "IsCommand" ∨ f.1 = nm "IsResponse") ∧
        (∀ e ∈ f.2.2, e.2 = decide (e.1 ∈ (if f.1 = nm "IsCommand" then Py.commandTypes else Py.responseTypes))) ∧
        (∀ nv ∈ Cxx.enum_MessageType, ∃ e ∈ f.2.2, e.1 = nv.2)) ∧
    (∃ f ∈ Cxx.callForms, f.1 = nm "IsCommand") ∧ (∃ f ∈ Cxx.callForms, f.1 = nm "IsResponse") := by
  decide +kernel

/-- **Nothing in the package modifies the classification tables.** The translator's scan of every module of
`fusion_engine_client` (aliases followed) finds no statement that modifies `COMMAND_MESSAGES`, `RESPONSE_MESSAGES` or
the registry dictionaries in place or rebinds them, other than their definitions: the classification observed after
import (the tables above) is the classification at every later moment of the process. -/
theorem C03_classification_tables_never_modified : Py.mutationSites = [] := by decide +kernel

/-- **The registry is a bijection preserving type and version.** (1) For every C++ struct declaring
`MESSAGE_TYPE`/`MESSAGE_VERSION`, exactly one Python `MessagePayload` subclass declares that type; it declares the same
version and is the class `message_type_to_class` resolves the type to.  (2) For every Python payload class, exactly one
C++ struct declares its type, with the same version.  (3) The registry contains nothing but those classes. -/
theorem C03_registry_bijective :
    (∀ s : Decl, s ∈ Cxx.structs →
        TheOnly (declaring Py.payloadClasses s.type)
          (fun k => k.version = s.version ∧ (s.type, k.name, k.version) ∈ Py.registry)) ∧
    (∀ k : Decl, k ∈ Py.payloadClasses →
        TheOnly (declaring Cxx.structs k.type) (fun s => s.version = k.version)) ∧
    (∀ r ∈ Py.registry, ((r.2.1, r.1, r.2.2) : Decl) ∈ Py.payloadClasses) := by
  decide +kernel

end FeVerif
