/-
C04 — the Python stream decoder returns exactly the valid messages in a byte stream.

`pyFeed m PyDec.init chunks` is the model of a fresh `FusionEngineDecoder(max_payload_len_bytes = m)`
given `chunks` by successive `on_data` calls (model: FeVerif/Model/PyDecoder.lean, tied to decoder.py
by the correspondence harness tools/props/c04.py).  `(cfgPy m).run` is the left-to-right scan.
-/
import FeVerif.Proofs.PyDecoder

namespace FeVerif

/-- The decoder's concatenated results are exactly the messages of the left-to-right scan of the
concatenated input, in order; it retains exactly the bytes the scan cannot judge yet and has counted
exactly the bytes the scan has passed. Unbounded in the number and sizes of chunks. -/
theorem C04_decoder_refines_scan (m : Nat) (chunks : List Bytes) :
    pyFeed m PyDec.init chunks =
      (((cfgPy m).run chunks.flatten 0).msgs,
        PyDec.stopped ((cfgPy m).run chunks.flatten 0).rest ((cfgPy m).run chunks.flatten 0).off) := by
  have hnil : (cfgPy m).step [] = .stop := Cfg.stop_iff.2 (Or.inl (by show 0 < 24; omega))
  have h := pyFeed_eq_run m chunks [] 0 hnil
  have e : PyDec.stopped [] 0 = PyDec.init := by simp [PyDec.stopped, PyDec.init, HDR]
  rw [e] at h
  simpa using h

/-- What the scan accepts at the front of `buf`, spelled out: sync bytes, zero reserved bytes,
payload length within the configured maximum (and the header's sanity limit), all bytes present,
stored CRC equal to the CRC-32 of bytes `[8, 24 + payload)`. -/
theorem C04_accept_criteria (m : Nat) (buf : Bytes) (n : Nat) :
    (cfgPy m).step buf = .emit n ↔
      HDR ≤ buf.length ∧ byteAt buf 0 = 0x2E ∧ byteAt buf 1 = 0x31 ∧ u16le buf 2 = 0 ∧
      u32le buf 16 ≤ m ∧ n = HDR + u32le buf 16 ∧ n ≤ buf.length ∧ u32le buf 16 ≤ 16777216 ∧
      (crc32 0#32 ((buf.take n).drop 8)).toNat = u32le buf 4 := by
  rw [cfgPy_step, pyHeaderOk_take]
  unfold pyCrcOk SYNC0 SYNC1 MAX_EXPECTED
  constructor
  · intro h
    split at h; · cases h
    split at h; · cases h
    split at h; · cases h
    split at h
    · rename_i h1 h2 h3 h4
      injection h with h; subst h
      simp at h2 h4
      obtain ⟨a, b, c, d⟩ := h2
      refine ⟨by omega, a, b, c, d, rfl, by omega, h4.1, h4.2⟩
    · cases h
  · rintro ⟨h1, h2, h3, h4, h5, h6, h7, h8, h9⟩
    subst h6
    rw [if_neg (by omega), if_neg (by simp [h2, h3, h4, h5]), if_neg (by omega), if_pos (by simp [h8, h9])]

/-- Every returned message lies in the stream at its reported offset, passes all acceptance
criteria on its own bytes, and the returned messages are in increasing, non-overlapping order
(so none starts inside a previously accepted one and none is returned twice). -/
theorem C04_outputs_sound (m : Nat) (chunks : List Bytes) :
    Cfg.Sound (cfgPy m) chunks.flatten 0 0 (pyFeed m PyDec.init chunks).1 := by
  rw [C04_decoder_refines_scan]; exact Cfg.run_sound _ _

/-- Nothing valid is skipped: a stream position already passed by the decoder at which a message
satisfying the acceptance criteria starts is inside (or is the start of) a returned message. -/
theorem C04_outputs_complete (m : Nat) (chunks : List Bytes) (p n : Nat)
    (hp : p < (pyFeed m PyDec.init chunks).2.processed)
    (hv : (cfgPy m).step (chunks.flatten.drop p) = .emit n) :
    ∃ o l, (o, l) ∈ (pyFeed m PyDec.init chunks).1 ∧ o ≤ p ∧ p < o + l := by
  rw [C04_decoder_refines_scan] at hp ⊢
  exact Cfg.run_complete chunks.flatten 0 p n (Nat.zero_le _) hp (by simpa using hv)

/-- Bytes are conserved: consumed + buffered = given. -/
theorem C04_bytes_conserved (m : Nat) (chunks : List Bytes) :
    (pyFeed m PyDec.init chunks).2.processed + (pyFeed m PyDec.init chunks).2.buf.length =
      chunks.flatten.length := by
  rw [C04_decoder_refines_scan]
  have := Cfg.run_conserve (c := cfgPy m) chunks.flatten 0
  simpa [PyDec.stopped] using this

/-- The buffer never holds more than what cannot be judged: fewer than 24 bytes, or an accepted
header (payload within the maximum) whose message is still incomplete — strictly less than one
maximum-size message. -/
theorem C04_buffer_bound (m : Nat) (chunks : List Bytes) :
    let b := (pyFeed m PyDec.init chunks).2.buf
    b.length < HDR ∨ (pyHeaderOk m (b.take HDR) = true ∧ u32le b 16 ≤ m ∧ b.length < HDR + u32le b 16) := by
  intro b
  have hb : b = ((cfgPy m).run chunks.flatten 0).rest := by
    show (pyFeed m PyDec.init chunks).2.buf = _
    rw [C04_decoder_refines_scan]; rfl
  have hstop := (Cfg.run_rest (c := cfgPy m) chunks.flatten 0).1
  rw [← hb] at hstop
  rcases Cfg.stop_iff.1 hstop with h | ⟨h1, h2⟩
  · exact Or.inl h
  · right
    rw [cfgPy_msgLen] at h2
    refine ⟨h1, ?_, h2⟩
    have h1' : pyHeaderOk m (b.take HDR) = true := h1
    rw [pyHeaderOk_take] at h1'
    simp at h1'; exact h1'.2

/-- The final decoder state is a function of the scan (used by C05): in particular the count of
processed bytes is the stream offset the scan reached. -/
theorem C04_offsets_true (m : Nat) (chunks : List Bytes) (o n : Nat)
    (h : (o, n) ∈ (pyFeed m PyDec.init chunks).1) :
    o + n ≤ chunks.flatten.length ∧ (cfgPy m).step (chunks.flatten.drop o) = .emit n := by
  have := Cfg.sound_mem (C04_outputs_sound m chunks) h
  simp only [Nat.zero_add, Nat.sub_zero] at this
  exact ⟨this.2.2.1, this.2.2.2⟩

/-- Feeding an appended list of calls: the later calls continue from the state the earlier calls left. -/
theorem C04_calls_append (m : Nat) (s : PyDec) (a b : List Bytes) :
    pyFeed m s (a ++ b) =
      ((pyFeed m s a).1 ++ (pyFeed m (pyFeed m s a).2 b).1, (pyFeed m (pyFeed m s a).2 b).2) := by
  induction a generalizing s with
  | nil => simp [pyFeed]
  | cons d ds ih => simp [pyFeed, ih, List.append_assoc]

/-- **Observers that arrive late** (a callback registered between two `on_data` calls, a caller that
starts looking at the return values only then): what the calls `after` return, to a decoder that has
already been given the calls `before`, is exactly the part of the scan of the whole stream that the
earlier calls had not returned - nothing from before the registration is repeated, nothing after it
is missing, the order is the scan's. -/
theorem C04_late_observer (m : Nat) (before after : List Bytes) :
    ((cfgPy m).run (before ++ after).flatten 0).msgs =
      ((cfgPy m).run before.flatten 0).msgs ++
        (pyFeed m (pyFeed m PyDec.init before).2 after).1 := by
  have h := congrArg Prod.fst (C04_decoder_refines_scan m (before ++ after))
  rw [C04_calls_append] at h
  simp only at h
  rw [← h, C04_decoder_refines_scan m before]

/-- ... and each of those later results ends after the bytes of the earlier calls: it could not have
been returned before the registration, because its last byte had not been supplied. -/
theorem C04_late_observer_not_early (m : Nat) (before after : List Bytes) (o n : Nat)
    (h : (o, n) ∈ (pyFeed m (pyFeed m PyDec.init before).2 after).1) :
    ((cfgPy m).run before.flatten 0).off ≤ o ∧ o + n ≤ (before ++ after).flatten.length := by
  have hall : (o, n) ∈ (pyFeed m PyDec.init (before ++ after)).1 := by
    rw [C04_calls_append]; exact List.mem_append_right _ h
  refine ⟨?_, (C04_offsets_true m _ o n hall).1⟩
  -- the later calls are the scan resumed at the position the earlier calls reached
  have hl := C04_late_observer m before after
  rw [List.flatten_append, Cfg.run_append] at hl
  have hl' := List.append_cancel_left hl
  rw [← hl'] at h
  exact (Cfg.sound_mem (Cfg.run_sound (c := cfgPy m) _ _) h).1

/-! Non-vacuity: a concrete 24-byte message (payload 0, correct CRC) split over three calls with
junk in front is returned once, at offset 3. -/
def c04Example : Bytes :=
  [0x2E, 0x31, 0, 0, 0xF7, 0x1F, 0xA4, 0xC3, 2, 0, 0x10, 0x27, 0, 0, 0, 0, 0, 0, 0, 0, 0, 0, 0, 0]

-- executable sanity check of the model (a test, not a theorem)
#guard (pyFeed 16777216 PyDec.init [[1, 0x2E, 3] ++ c04Example.take 5, c04Example.drop 5, [9]]).1 == [(3, 24)]
-- a late observer (after the first call) sees the message; one arriving after the second call sees nothing more
#guard (pyFeed 16777216 (pyFeed 16777216 PyDec.init [[1, 0x2E, 3] ++ c04Example.take 5]).2 [c04Example.drop 5, [9]]).1 == [(3, 24)]
#guard (pyFeed 16777216 (pyFeed 16777216 PyDec.init [[1, 0x2E, 3] ++ c04Example.take 5, c04Example.drop 5]).2 [[9]]).1 == []

end FeVerif
