/-
C05 — decoder output is independent of how the stream is split into chunks.
Same model as C04.  Payload *field values* are a function of the message's own bytes
(the decoder hands `unpack` exactly the message, see the tie in tools/props/c05.py), so equality of
(offset, length) lists and of the final state gives equality of everything delivered.
-/
import FeVerif.Props.C04

namespace FeVerif

/-- Any two partitions of the same stream give the same concatenated results and leave the decoder
in the same state (buffer, cached header, processed count). -/
theorem C05_chunking_independent (m : Nat) (parts₁ parts₂ : List Bytes)
    (h : parts₁.flatten = parts₂.flatten) :
    pyFeed m PyDec.init parts₁ = pyFeed m PyDec.init parts₂ := by
  rw [C04_decoder_refines_scan, C04_decoder_refines_scan, h]

/-- In particular: one call with everything, or one call per byte. -/
theorem C05_one_call_vs_bytewise (m : Nat) (stream : Bytes) :
    pyFeed m PyDec.init [stream] = pyFeed m PyDec.init (stream.map fun b => [b]) := by
  apply C05_chunking_independent
  induction stream with
  | nil => rfl
  | cons b bs ih => simp at ih ⊢; exact ih

/-- Results after a prefix of the calls are the scan of the prefix of the stream: so the results of
the first `k` calls are a prefix of the results of all calls (nothing is delivered early, reordered
or retracted). -/
theorem C05_prefix_results (m : Nat) (calls more : List Bytes) :
    (pyFeed m PyDec.init (calls ++ more)).1 =
      (pyFeed m PyDec.init calls).1 ++
        ((cfgPy m).run (((cfgPy m).run calls.flatten 0).rest ++ more.flatten)
          ((cfgPy m).run calls.flatten 0).off).msgs := by
  rw [C04_decoder_refines_scan, C04_decoder_refines_scan, List.flatten_append, Cfg.run_append]

/-- **Delivery time.** Let the whole stream be `pre ++ post` and let `(o, n)` be a message the
decoder returns for it that ends within `pre` (its last byte has been supplied once `pre` is in).
Then it has been returned by the calls that supplied `pre` — unless the decoder is still waiting
on an *earlier* candidate: a position `q < o` with an accepted header whose announced length runs
past the end of `pre` (and therefore past the whole of the message).  Such a candidate has to be
judged first, because if its CRC matches it is the message and `(o, n)` is payload inside it. -/
theorem C05_delivered_with_last_byte (m : Nat) (pre post : Bytes) (o n : Nat)
    (hmem : (o, n) ∈ ((cfgPy m).run (pre ++ post) 0).msgs) (hend : o + n ≤ pre.length) :
    (o, n) ∈ ((cfgPy m).run pre 0).msgs ∨
      (∃ q, q < o ∧ q = ((cfgPy m).run pre 0).off ∧
        pyHeaderOk m ((pre.drop q).take HDR) = true ∧ pre.length < q + (cfgPy m).msgLen (pre.drop q)) := by
  rw [Cfg.run_append] at hmem
  simp only [List.mem_append] at hmem
  rcases hmem with h | h
  · exact Or.inl h
  · right
    -- the message was found by the resumed scan, so it starts at or after the position reached
    have hs := Cfg.sound_mem (Cfg.run_sound (c := cfgPy m) _ _) h
    obtain ⟨hlo, hnpos, _, hstep⟩ := hs
    obtain ⟨hstop, hrest, hoff⟩ := Cfg.run_rest (c := cfgPy m) pre 0
    have hcons := Cfg.run_conserve (c := cfgPy m) pre 0
    simp only [Nat.sub_zero, Nat.zero_add] at hrest hcons
    have hn24 : HDR ≤ n := by
      have := (Cfg.step_emit_iff.1 hstep).2.2.1
      rw [this]; unfold Cfg.msgLen; exact Nat.le_add_right _ _
    rcases Cfg.stop_iff.1 hstop with hshort | ⟨hok, hinc⟩
    · -- fewer than 24 bytes left: impossible, the whole message lies in `pre`
      exfalso
      have : ((cfgPy m).run pre 0).rest.length < HDR := hshort
      omega
    · refine ⟨((cfgPy m).run pre 0).off, ?_, rfl, ?_, ?_⟩
      · -- q ≠ o: at q = o the pending candidate would be the message itself, which is complete
        rcases Nat.lt_or_ge ((cfgPy m).run pre 0).off o with hlt | hge
        · exact hlt
        · exfalso
          have hq : ((cfgPy m).run pre 0).off = o := by omega
          -- the resumed scan is positioned at o, so the verdict at its front is the message
          rw [hq, Nat.sub_self, List.drop_zero] at hstep
          have hlen := (Cfg.step_emit_iff.1 hstep).2.2.1
          rw [Cfg.msgLen_append (by
            show HDR ≤ _
            rcases Nat.lt_or_ge ((cfgPy m).run pre 0).rest.length HDR with hh | hh
            · omega
            · exact hh)] at hlen
          omega
      · rw [← hrest]; exact hok
      · rw [← hrest]; omega

/-- **Calls compose, from any decoder state** (not only a fresh decoder): the results of `calls ++ more`
are the results of `calls` followed by the results of `more` fed to the state `calls` left behind, and
the final states agree.  With `C05_chunking_independent` this makes a session of `on_data` calls a
monoid action on decoder states: a caller may stop after any call, hand the decoder to other code and
have it continued there, with no difference to the result.  No hypothesis on `s` (it may hold a cached
header, leftover bytes, any processed count). -/
theorem C05_calls_compose (m : Nat) (s : PyDec) (calls more : List Bytes) :
    pyFeed m s (calls ++ more) =
      ((pyFeed m s calls).1 ++ (pyFeed m (pyFeed m s calls).2 more).1,
        (pyFeed m (pyFeed m s calls).2 more).2) := by
  induction calls generalizing s with
  | nil => simp [pyFeed]
  | cons d ds ih =>
    simp only [List.cons_append, pyFeed, ih, List.append_assoc]

/-- Empty calls are invisible, in any state and at any place of a session. -/
theorem C05_empty_call_invisible (m : Nat) (s : PyDec) (calls more : List Bytes) :
    pyFeed m s (calls ++ [] :: more) = pyFeed m s (calls ++ more) := by
  rw [C05_calls_compose, C05_calls_compose]
  simp [pyFeed, pyOnData]

end FeVerif
