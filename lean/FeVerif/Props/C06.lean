/-
C06 — encoder output validates, corruption is rejected, CRCs agree.

Objects (all executable, tied to /repo by tools/props/c06.py):
* `crcBitwise`, `crcByteSpec`, `crcShift` (Model/Crc32.lean): the bit-serial CRC-32 specification;
* `crcTable`, `crcUpdate`, `crc32 init bs` (Model/Crc32.lean): crc.cc's table algorithm
  `CalculateCRC(buffer, length, initial_value)`, which is also how `zlib.crc32(data, value)` is used;
* `encodeMessage`, `encodeAll`, `pyPackMessage` (Model/Encoder.lean): `FusionEngineEncoder.encode_message`,
  `MessageHeader.pack(payload=…)`, `calculate_crc`;  `cxxCalculateCRC`, `cxxIsValid`, `cxxFramerCrcOk`:
  `CalculateCRC(const void*)`, `IsValid()`, the framer's CRC comparison;
* `pyCrcOk` (Model/Header.lean): `MessageHeader.validate_crc`; `cfgPy m` / `pyFeed`: the Python stream
  decoder (C04);
* `crcLin`, `crcBits`, `IsBurst`, `flipPattern`, `xorBytes` (Spec/CrcBits.lean), `ExactMsg`, `CrcMatches`,
  `corruptProtected`, `replaceCrcField` (Spec/Integrity.lean): the vocabulary of the corruption clauses.

Reading of "burst … of the CRC-protected region or of the CRC field": the altered bits lie inside ONE
of the two regions.  A run of ≤ 32 altered bits straddling byte 7|8 is not a burst of the code (the CRC
field sits in front of the data it protects) and is not claimed.

What is proved: (a) table algorithm = bit-serial CRC-32 for every buffer and initial value; (b) incremental
use at every split point, Python's two-step CRC = C++ `CalculateCRC(message)`; (c) every in-range
`encode_message` call yields a message with the right fields that all validators accept, failing calls
leave the sequence number alone, produced messages are numbered consecutively modulo 2^32 over any
sequence of calls, every message of a call history carries the source identifier given to its own call (0 when
omitted; `C06_encoder_call_fields`), a refused call leaves the encoder unchanged and a history leaves nothing
behind but the count of produced messages (`C06_encoder_state_counts_messages`); (d) affine law, every burst ≤ 32 bits and every alteration of the CRC field is rejected
by `validate_crc`, `IsValid`, the framer's comparison and the Python stream decoder; (e) the polynomial
has period 2^32 - 1, hence two altered bits at ANY distance (both in the protected region, both in the CRC
field, or one in each) are rejected; (f) `C06_oversize_rejected`: for every value of the size field that puts
the message above the limit (up to 24 + (2^32 - 1), no wrap-around) `IsValid` answers false from the header
alone and the Python validator / decoder refuse it.

What does NOT hold, and why (`C06_size_field_flip_accepted`, `C06_burst_rejected_full_fails`): when the
alteration hits the `payload_size_bytes` field the validators compute the CRC over a different extent, and
for suitably chosen payload bytes a one-bit alteration of that field yields another CRC-valid (shorter)
message.  The rejection theorems for the protected region therefore carry the hypothesis that the
announced payload size is unchanged; alterations of the size field are exercised on the implementation
by the harness (a test; the crafted counterexample is listed in KNOWN_FINDINGS.txt).
-/
import FeVerif.Proofs.Integrity
import FeVerif.Proofs.CrcTwoBit
import FeVerif.Props.C04

namespace FeVerif

/-! ## (a) The table algorithm computes the bit-serial CRC-32 -/

/-- `crc_table` has 256 entries and entry `i` is eight bit-serial steps applied to `i`
(the loop of `GetCRCTable()`). -/
theorem C06_table_correct :
    crcTable.size = 256 ∧ ∀ i, i < 256 → crcTable[i]? = some (crcShift8 (BitVec.ofNat 32 i)) := by
  refine ⟨by simp [crcTable], ?_⟩
  intro i hi
  simp [crcTable, hi, crcTableGen]

/-- One table step `crc_table[(c ^ b) & 0xFF] ^ (c >> 8)` equals xoring the byte into the register and
doing eight bit-serial steps — for every register value and byte. -/
theorem C06_table_step_eq_bit_steps (c : W32) (b : Byte) : crcUpdate c b = crcByteSpec c b :=
  crcUpdate_eq_spec c b

/-- `CalculateCRC(buffer, length, initial_value)` = bit-serial CRC-32 continued from `initial_value`, for
every buffer and every initial value. -/
theorem C06_table_crc_eq_spec (init : W32) (bs : Bytes) :
    crc32 init bs = ~~~ (bs.foldl crcByteSpec (~~~ init)) :=
  crc32_eq_spec init bs

/-- With the default initial value 0 the routine is the CRC-32 specification. -/
theorem C06_crc32_eq_bitwise (bs : Bytes) : crc32 0#32 bs = crcBitwise bs := by
  rw [crc32_eq_spec]; rfl

/-! ## (b) Incremental computation; Python's two-step CRC = C++ `CalculateCRC(message)` -/

/-- Feeding a buffer in two pieces, passing the first result as `initial_value` / `value`, gives the
CRC of the whole — at every split point, for every initial value. -/
theorem C06_crc_incremental (init : W32) (a b : Bytes) :
    crc32 init (a ++ b) = crc32 (crc32 init a) b :=
  crc32_append init a b

/-- `calculate_crc`'s `crc32(header[8:])` then `crc32(payload, crc)` equals C++
`CalculateCRC(const void*)` on the header followed by the payload (whenever the header announces
that payload's length). -/
theorem C06_py_crc_eq_cxx_crc (hdr payload : Bytes) (hl : hdr.length = HDR)
    (hs : u32le hdr 16 = payload.length) :
    cxxCalculateCRC (hdr ++ payload) = some (crc32 (crc32 0#32 (hdr.drop 8)) payload) := by
  have hex : ExactMsg (hdr ++ payload) := by
    unfold ExactMsg; rw [u32le_append (by rw [hl]; decide), hs, List.length_append, hl]
  rw [cxxCalculateCRC_exact hex, List.drop_append_of_le_length (by rw [hl]; decide), crc32_append]

/-! ## (c) The encoder -/

/-- A call whose arguments fit the header's wire types returns `24 + |payload|` bytes that parse to
the payload's type and version, the encoder's sequence number, the given source identifier,
`payload_size = |payload|`, the sync bytes, zero reserved bytes and protocol version 2, followed by
the payload unchanged; `validate_crc` and the Python decoder accept them (payload within the limits),
`IsValid` accepts them (message within its limit), the framer's CRC comparison succeeds; and the
encoder's sequence number advances by one modulo 2^32. -/
theorem C06_encoder_valid (e : Encoder) (type version source : Nat) (p : Bytes)
    (hfit : EncFits e type version source p) :
    ∃ out, encodeMessage e type version source (some p) =
        (.ok out, ⟨(e.sequenceNumber + 1) % 4294967296⟩) ∧
      out.length = HDR + p.length ∧ out.drop HDR = p ∧
      (parseHeader out).messageType = type ∧ (parseHeader out).messageVersion = version ∧
      (parseHeader out).sequenceNumber = e.sequenceNumber ∧ (parseHeader out).sourceId = source ∧
      (parseHeader out).payloadSize = p.length ∧ (parseHeader out).sync0 = 0x2E ∧
      (parseHeader out).sync1 = 0x31 ∧ (parseHeader out).reserved = 0 ∧
      (parseHeader out).protocolVersion = 2 ∧
      ExactMsg out ∧ CrcMatches out ∧
      (p.length ≤ MAX_EXPECTED → pyCrcOk out = true ∧ pyUnpackValidate out = some true) ∧
      (∀ m, p.length ≤ m → p.length ≤ MAX_EXPECTED → (cfgPy m).step out = .emit out.length) ∧
      (HDR + p.length ≤ MAX_EXPECTED → cxxIsValid out = some true) ∧
      cxxFramerCrcOk out = true := by
  refine ⟨encOutput e type version source p, encodeMessage_ok hfit, ?_⟩
  have hf := structFits_final hfit
  have hp := parse_pack _ p hf
  have hcrc := pyFinalHeader_crc (encHeader e type version source) p
  have hsz : (pyFinalHeader (encHeader e type version source) p).payloadSize = p.length := rfl
  have hlen : (encOutput e type version source p).length = HDR + p.length := by
    simp [encOutput, packHeader_length, HDR]
  have hex : ExactMsg (encOutput e type version source p) := by
    unfold ExactMsg; rw [hlen]; unfold encOutput; rw [u32le16_pack _ _ hf, hsz]
  have hpy : p.length ≤ MAX_EXPECTED → pyCrcOk (encOutput e type version source p) = true :=
    pyCrcOk_pack _ p hf hsz hcrc
  have hpy2 : p.length ≤ MAX_EXPECTED → pyCrcOk (encOutput e type version source p) = true ∧
      pyUnpackValidate (encOutput e type version source p) = some true := by
    intro hm
    refine ⟨hpy hm, ?_⟩
    rw [pyUnpackValidate_exact hex, ← pyCrcOk_exact hex, hpy hm]
  have hcm : CrcMatches (encOutput e type version source p) := by
    have := cxxFramerCrcOk_pack _ p hf hsz hcrc
    rw [show packHeader _ ++ p = encOutput e type version source p from rfl, cxxFramerCrcOk_exact hex] at this
    exact of_decide_eq_true this
  unfold encOutput at *
  rw [hp]
  refine ⟨hlen, ?_, rfl, rfl, rfl, rfl, rfl, rfl, rfl, rfl, rfl, hex, hcm, hpy2, ?_,
    cxxIsValid_pack _ p hf hsz hcrc, cxxFramerCrcOk_pack _ p hf hsz hcrc⟩
  · rw [List.drop_append_of_le_length (by rw [packHeader_length]; decide),
      List.drop_of_length_le (by rw [packHeader_length]; decide), List.nil_append]
  · intro m hm hmax
    rw [C04_accept_criteria]
    have h0 : byteAt (packHeader (pyFinalHeader (encHeader e type version source) p) ++ p) 0 = 0x2E :=
      congrArg Header.sync0 hp
    have h1 : byteAt (packHeader (pyFinalHeader (encHeader e type version source) p) ++ p) 1 = 0x31 :=
      congrArg Header.sync1 hp
    have h2 : u16le (packHeader (pyFinalHeader (encHeader e type version source) p) ++ p) 2 = 0 :=
      congrArg Header.reserved hp
    have h16 := u32le16_pack _ p hf
    rw [hsz] at h16
    have hpy' := hpy hmax
    unfold pyCrcOk at hpy'
    simp only [Bool.and_eq_true, decide_eq_true_eq] at hpy'
    rw [h16] at hpy' ⊢
    rw [hlen]
    exact ⟨by omega, h0, h1, h2, hm, rfl, by omega, hmax, hpy'.2⟩

/-- A call with an argument outside its wire type (or whose `message.pack()` raises) produces no
bytes and leaves the sequence number untouched. -/
theorem C06_encoder_failure_keeps_sequence (e : Encoder) (type version source : Nat) :
    (∀ p, ¬ EncFits e type version source p →
      encodeMessage e type version source (some p) = (.error .structError, e)) ∧
    encodeMessage e type version source none = (.error .packError, e) :=
  ⟨fun _ h => encodeMessage_err h, rfl⟩

/-- Over any sequence of calls (any arguments, failing calls included, any starting state) the
messages actually produced carry consecutive sequence numbers modulo 2^32, starting from the
encoder's current one. -/
theorem C06_encoder_sequence (e : Encoder) (calls : List EncCall) :
    (okOutputs (encodeAll e calls)).map (fun o => (parseHeader o).sequenceNumber) =
      (List.range (okOutputs (encodeAll e calls)).length).map
        (fun i => (e.sequenceNumber + i) % 4294967296) := by
  induction calls generalizing e with
  | nil => rfl
  | cons c cs ih =>
    rcases encodeCall_cases e c with ⟨x, hx⟩ | ⟨s, p, -, -, hfit, hok⟩
    · rw [okOutputs_cons_err hx]; exact ih e
    · have hseq : (parseHeader (encOutput e c.type c.version s p)).sequenceNumber = e.sequenceNumber :=
        congrArg Header.sequenceNumber (parse_pack _ p (structFits_final hfit))
      rw [okOutputs_cons_ok hok]
      rw [List.map_cons, hseq, ih, List.length_cons, List.range_succ_eq_map, List.map_cons, List.map_map]
      have h0 : e.sequenceNumber < 4294967296 := hfit.1
      congr 1
      · simp; omega
      · apply List.map_congr_left
        intro i _
        simp only [Function.comp_apply]
        omega

/-- A call as a caller writes it (source identifier given, omitted, or negative; payload packing or raising)
that is refused leaves the encoder object exactly as it was. -/
theorem C06_encoder_refused_keeps_state (e : Encoder) (c : EncCall) (x : PyErr)
    (h : (encodeCall e c).1 = .error x) : (encodeCall e c).2 = e := by
  rcases encodeCall_cases e c with ⟨y, hy⟩ | ⟨s, p, -, -, -, hok⟩
  · rw [hy]
  · rw [hok] at h; cases h

/-- Every message produced anywhere in a history of calls on one encoder carries the source identifier GIVEN
TO THAT CALL - 0 when the call omits the argument, whatever earlier calls were given - together with the
type, version and payload bytes of that call's payload object.  (Call `i` of the history produced `out`.) -/
theorem C06_encoder_call_fields (e : Encoder) (calls : List EncCall) (i : Nat) (c : EncCall) (out : Bytes)
    (hc : calls[i]? = some c) (ho : (encodeAll e calls)[i]? = some (.ok out)) :
    ((parseHeader out).sourceId : Int) = c.source.getD 0 ∧
    (parseHeader out).messageType = c.type ∧ (parseHeader out).messageVersion = c.version ∧
    c.payload = some (out.drop HDR) ∧ (parseHeader out).payloadSize = (out.drop HDR).length := by
  induction calls generalizing e i with
  | nil => simp at hc
  | cons c0 cs ih =>
    cases i with
    | succ j => exact ih (encodeCall e c0).2 j (by simpa using hc) (by simpa [encodeAll] using ho)
    | zero =>
      have hc0 : c0 = c := by simpa using hc
      subst hc0
      have ho' : (encodeCall e c0).1 = .ok out := by simpa [encodeAll] using ho
      rcases encodeCall_cases e c0 with ⟨y, hy⟩ | ⟨s, p, hs, hp, hfit, hok⟩
      · rw [hy] at ho'; cases ho'
      · rw [hok] at ho'
        have hout : out = encOutput e c0.type c0.version s p := by injection ho' with h; exact h.symm
        have hpp := parse_pack (pyFinalHeader (encHeader e c0.type c0.version s) p) p (structFits_final hfit)
        have hdrop : out.drop HDR = p := by
          rw [hout]; unfold encOutput
          rw [List.drop_append_of_le_length (by rw [packHeader_length]; decide),
            List.drop_of_length_le (by rw [packHeader_length]; decide), List.nil_append]
        rw [hdrop, hp]
        rw [hout]; unfold encOutput; rw [hpp]
        refine ⟨?_, rfl, rfl, rfl, rfl⟩
        show ((s : Nat) : Int) = c0.source.getD 0
        exact hs.symm

/-- The labels of a message do not depend on what the encoder object was given before.  The same call at the end of
any two histories, on any two encoder objects, yields - whenever it produces a message at all - the type and version
of ITS payload object, and the same source identifier, payload size and payload bytes in both; only the sequence
number (and with it the CRC) may differ.  In particular a payload whose class derives from the class of the previous
call's payload goes out under its own type, exactly as it does on a fresh encoder. -/
theorem C06_encoder_labels_independent_of_history (e₁ e₂ : Encoder) (pre₁ pre₂ : List EncCall) (c : EncCall)
    (o₁ o₂ : Bytes)
    (h₁ : (encodeAll e₁ (pre₁ ++ [c]))[pre₁.length]? = some (.ok o₁))
    (h₂ : (encodeAll e₂ (pre₂ ++ [c]))[pre₂.length]? = some (.ok o₂)) :
    (parseHeader o₁).messageType = c.type ∧ (parseHeader o₁).messageVersion = c.version ∧
    (parseHeader o₂).messageType = c.type ∧ (parseHeader o₂).messageVersion = c.version ∧
    (parseHeader o₁).sourceId = (parseHeader o₂).sourceId ∧
    (parseHeader o₁).payloadSize = (parseHeader o₂).payloadSize ∧ o₁.drop HDR = o₂.drop HDR := by
  have hc₁ : (pre₁ ++ [c])[pre₁.length]? = some c := by simp
  have hc₂ : (pre₂ ++ [c])[pre₂.length]? = some c := by simp
  obtain ⟨s1, t1, v1, p1, z1⟩ := C06_encoder_call_fields e₁ _ _ c o₁ hc₁ h₁
  obtain ⟨s2, t2, v2, p2, z2⟩ := C06_encoder_call_fields e₂ _ _ c o₂ hc₂ h₂
  have hp : o₁.drop HDR = o₂.drop HDR := Option.some.inj (p1.symm.trans p2)
  refine ⟨t1, v1, t2, v2, ?_, ?_, hp⟩
  · have := s1.trans s2.symm
    omega
  · rw [z1, z2, hp]

/-- The only thing a history of calls leaves behind in the encoder object is the NUMBER of messages it
produced: the state after the history is the starting sequence number advanced by that count modulo 2^32
(so a later call cannot depend on the source identifiers, types or payloads of earlier calls, nor on the
refused calls in between). -/
theorem C06_encoder_state_counts_messages (e : Encoder) (h : e.sequenceNumber < 4294967296)
    (calls : List EncCall) :
    encodeState e calls =
      ⟨(e.sequenceNumber + (okOutputs (encodeAll e calls)).length) % 4294967296⟩ := by
  induction calls generalizing e with
  | nil =>
    show e = ⟨(e.sequenceNumber + 0) % 4294967296⟩
    rw [Nat.add_zero, Nat.mod_eq_of_lt h]
  | cons c cs ih =>
    show encodeState (encodeCall e c).2 cs = _
    rcases encodeCall_cases e c with ⟨x, hx⟩ | ⟨s, p, -, -, -, hok⟩
    · rw [okOutputs_cons_err hx, hx]; exact ih e h
    · rw [okOutputs_cons_ok hok, hok, ih _ (Nat.mod_lt _ (by decide)), List.length_cons]
      congr 1
      show ((e.sequenceNumber + 1) % 4294967296 + _) % 4294967296 = _
      omega

/-- A history splits at any point: the results of the calls after the split are those of the same calls on
the encoder state the first part left. -/
theorem C06_encoder_history_split (e : Encoder) (pre post : List EncCall) :
    encodeAll e (pre ++ post) = encodeAll e pre ++ encodeAll (encodeState e pre) post := by
  induction pre generalizing e with
  | nil => rfl
  | cons c cs ih =>
    show (encodeCall e c).1 :: encodeAll (encodeCall e c).2 (cs ++ post) = _
    rw [ih]; rfl

/-! ## (d) Error detection -/

/-- Affine law: xoring an error pattern onto a buffer changes the CRC by the pattern's linear
remainder, whatever the buffer and the initial value. -/
theorem C06_crc_affine (init : W32) (a e : Bytes) (h : a.length = e.length) :
    crc32 init (xorBytes a e) = crc32 init a ^^^ crcLin e :=
  crc32_xor init a e h

/-- The linear remainder is the register after feeding the pattern's bits into a zero register. -/
theorem C06_crcLin_bits (e : Bytes) : crcLin e = crcBits 0#32 (bitsOf e) := crcLin_eq_bits e

/-- A non-zero error pattern confined to at most 32 consecutive bit positions has a non-zero linear
remainder. -/
theorem C06_burst_detected (e : Bytes) (h : IsBurst (bitsOf e)) : crcLin e ≠ 0#32 := by
  rw [crcLin_eq_bits]; exact crcBits_burst_ne_zero h

/-- Hence such a pattern changes the CRC of every buffer, for every initial value. -/
theorem C06_burst_changes_crc (init : W32) (a e : Bytes) (hl : a.length = e.length)
    (h : IsBurst (bitsOf e)) : crc32 init (xorBytes a e) ≠ crc32 init a := by
  rw [crc32_xor init a e hl]
  intro h'
  apply C06_burst_detected e h
  have : crc32 init a ^^^ (crc32 init a ^^^ crcLin e) = crc32 init a ^^^ crc32 init a := by rw [h']
  rwa [← BitVec.xor_assoc, BitVec.xor_self, BitVec.zero_xor] at this

/-- Every single-bit flip (bit `k` of byte `i` of an `n`-byte buffer) is such a pattern. -/
theorem C06_single_bit_is_burst (n i k : Nat) (hi : i < n) (hk : k < 8) :
    IsBurst (bitsOf (flipPattern n i k)) :=
  isBurst_flipPattern n i k hi hk

/-- All three validators reduce, on an exactly framed message, to the same CRC comparison (plus their
respective size sanity limits). -/
theorem C06_validators_agree (msg : Bytes) (h : ExactMsg msg) :
    pyUnpackValidate msg = some (decide (u32le msg 16 ≤ MAX_EXPECTED) && decide (CrcMatches msg)) ∧
    pyCrcOk msg = (decide (u32le msg 16 ≤ MAX_EXPECTED) && decide (CrcMatches msg)) ∧
    cxxIsValid msg = some (decide (HDR + u32le msg 16 ≤ MAX_EXPECTED) && decide (CrcMatches msg)) ∧
    cxxFramerCrcOk msg = decide (CrcMatches msg) :=
  ⟨pyUnpackValidate_exact h, pyCrcOk_exact h, cxxIsValid_exact h, cxxFramerCrcOk_exact h⟩

/-- Corruption of the protected region, general form: a message accepted by the CRC comparison,
altered inside bytes `[8, end)` by any pattern with a non-zero linear remainder that leaves the
announced payload size intact, is rejected by `unpack(validate_crc=True)` / `validate_crc`, by `IsValid`
and by the framer's CRC comparison. -/
theorem C06_error_rejected (msg e : Bytes) (hex : ExactMsg msg) (hm : CrcMatches msg)
    (he : e.length = msg.length - 8) (hl : crcLin e ≠ 0#32)
    (hsz : u32le (corruptProtected msg e) 16 = u32le msg 16) :
    pyUnpackValidate (corruptProtected msg e) = some false ∧
    pyCrcOk (corruptProtected msg e) = false ∧ cxxIsValid (corruptProtected msg e) = some false ∧
    cxxFramerCrcOk (corruptProtected msg e) = false := by
  have h8 : 8 ≤ msg.length := by unfold ExactMsg HDR at hex; omega
  have hex' : ExactMsg (corruptProtected msg e) := by
    unfold ExactMsg; rw [corruptProtected_length h8 he, hsz]; exact hex
  have hn := corruptProtected_not_matches h8 he hm hl
  rw [pyUnpackValidate_exact hex', pyCrcOk_exact hex', cxxIsValid_exact hex', cxxFramerCrcOk_exact hex']
  simp [hn]

/-- Bursts: any non-zero alteration confined to at most 32 consecutive bit positions of the protected
region (in particular any single bit, or two bits fewer than 32 positions apart). -/
theorem C06_burst_rejected (msg e : Bytes) (hex : ExactMsg msg) (hm : CrcMatches msg)
    (he : e.length = msg.length - 8) (hb : IsBurst (bitsOf e))
    (hsz : u32le (corruptProtected msg e) 16 = u32le msg 16) :
    pyUnpackValidate (corruptProtected msg e) = some false ∧
    pyCrcOk (corruptProtected msg e) = false ∧ cxxIsValid (corruptProtected msg e) = some false ∧
    cxxFramerCrcOk (corruptProtected msg e) = false :=
  C06_error_rejected msg e hex hm he (C06_burst_detected e hb) hsz

/-- Corruption of the CRC field: replacing the stored CRC by any other four bytes (any bit pattern
altered within bytes `[4, 8)`) is rejected by all three validators. -/
theorem C06_crc_field_flip_detected (msg f : Bytes) (hex : ExactMsg msg) (hm : CrcMatches msg)
    (hf : f.length = 4) (hne : f ≠ (msg.drop 4).take 4) :
    pyUnpackValidate (replaceCrcField msg f) = some false ∧
    pyCrcOk (replaceCrcField msg f) = false ∧ cxxIsValid (replaceCrcField msg f) = some false ∧
    cxxFramerCrcOk (replaceCrcField msg f) = false := by
  have h24 : 24 ≤ msg.length := by unfold ExactMsg HDR at hex; omega
  have hlen : (replaceCrcField msg f).length = msg.length := by
    simp [replaceCrcField, hf]; omega
  have h16 : u32le (replaceCrcField msg f) 16 = u32le msg 16 := by
    unfold replaceCrcField
    have h4 : (msg.take 4 ++ f).length = 8 := by simp [hf]; omega
    have := u32le_shift (msg.take 4 ++ f) (msg.drop 8) 8
    rw [h4] at this; rw [this]
    have h2 := u32le_shift (msg.take 8) (msg.drop 8) 8
    rw [List.take_append_drop, show (msg.take 8).length = 8 by simp; omega] at h2
    exact h2.symm
  have hex' : ExactMsg (replaceCrcField msg f) := by
    unfold ExactMsg; rw [hlen, h16]; exact hex
  have hn := replaceCrcField_not_matches (by omega) hf hne hm
  rw [pyUnpackValidate_exact hex', pyCrcOk_exact hex', cxxIsValid_exact hex', cxxFramerCrcOk_exact hex']
  simp [hn]

/-- The stream decoder (C04) returns no message at the position of an exactly framed candidate that
fails the CRC comparison — whatever precedes or follows it, however the stream is chunked, for every
`max_payload_len_bytes`. -/
theorem C06_decoder_rejects_corrupt (m : Nat) (chunks : List Bytes) (pre bad post : Bytes)
    (hs : chunks.flatten = pre ++ bad ++ post) (hex : ExactMsg bad) (hn : ¬ CrcMatches bad) (n : Nat) :
    (pre.length, n) ∉ (pyFeed m PyDec.init chunks).1 := by
  intro hmem
  have h := (C04_offsets_true m chunks pre.length n hmem).2
  rw [hs, List.append_assoc, List.drop_left] at h
  rw [C04_accept_criteria] at h
  obtain ⟨h24, -, -, -, -, hnn, -, -, hcrc⟩ := h
  have hb24 : 24 ≤ bad.length := by unfold ExactMsg HDR at hex; omega
  rw [u32le_append (by omega)] at hnn hcrc
  have hnb : n = bad.length := by rw [hnn]; exact hex.symm
  rw [hnb, List.take_left] at hcrc
  exact hn hcrc

/-! ## (e) Two flipped bits at any distance -/

/-- The zero-feed step of the register returns the polynomial's bit pattern to itself after exactly
2^32 - 1 steps and not before (the CRC-32 polynomial is primitive).  Kernel-evaluated 32x32 bit-matrix
powers by repeated squaring for the exponents 2^32 - 1 and (2^32 - 1)/q, q ∈ {3, 5, 17, 257, 65537}. -/
theorem C06_polynomial_period : Function.minimalPeriod crcShift crcPoly = 4294967295 :=
  minimalPeriod_crcPoly

/-- Two altered bits any distance `d` apart, `0 < d < 2^32 - 1` (any two bits of a buffer shorter than
512 MiB), have a non-zero linear remainder. -/
theorem C06_two_bit_detected (e : Bytes) (h : TwoBits (bitsOf e)) : crcLin e ≠ 0#32 := by
  rw [crcLin_eq_bits]; exact crcBits_twoBits_ne_zero h

/-- Both altered bits in the protected region (size field untouched): rejected by every validator. -/
theorem C06_two_bit_rejected (msg e : Bytes) (hex : ExactMsg msg) (hm : CrcMatches msg)
    (he : e.length = msg.length - 8) (hb : TwoBits (bitsOf e))
    (hsz : u32le (corruptProtected msg e) 16 = u32le msg 16) :
    pyUnpackValidate (corruptProtected msg e) = some false ∧
    pyCrcOk (corruptProtected msg e) = false ∧ cxxIsValid (corruptProtected msg e) = some false ∧
    cxxFramerCrcOk (corruptProtected msg e) = false :=
  C06_error_rejected msg e hex hm he (C06_two_bit_detected e hb) hsz

/-- One altered bit in the stored CRC (bit `m` of the 32-bit field) and one in the protected region (bit
`k` of byte `8 + i`, size field untouched) of a message within the validators' size limit: rejected by
every validator.  (Both altered bits inside the CRC field is `C06_crc_field_flip_detected`.) -/
theorem C06_two_bit_cross_rejected (msg f : Bytes) (i k m : Nat) (hex : ExactMsg msg) (hm : CrcMatches msg)
    (hi : i < msg.length - 8) (hk : k < 8) (hm32 : m < 32) (hf : f.length = 4)
    (hflip : BitVec.ofNat 32 (u32le f 0) = BitVec.ofNat 32 (u32le msg 4) ^^^ (1#32 <<< m))
    (hmax : u32le msg 16 ≤ MAX_EXPECTED)
    (hsz : u32le (corruptProtected msg (flipPattern (msg.length - 8) i k)) 16 = u32le msg 16) :
    pyUnpackValidate (replaceCrcField (corruptProtected msg (flipPattern (msg.length - 8) i k)) f) = some false ∧
    cxxIsValid (replaceCrcField (corruptProtected msg (flipPattern (msg.length - 8) i k)) f) = some false ∧
    cxxFramerCrcOk (replaceCrcField (corruptProtected msg (flipPattern (msg.length - 8) i k)) f) = false := by
  have hlen : msg.length = HDR + u32le msg 16 := hex
  have h8 : 8 ≤ msg.length := by unfold HDR at hlen; omega
  have he : (flipPattern (msg.length - 8) i k).length = msg.length - 8 := flipPattern_length _ _ _
  have hcl := corruptProtected_length h8 he
  have hex' : ExactMsg (replaceCrcField (corruptProtected msg (flipPattern (msg.length - 8) i k)) f) := by
    unfold ExactMsg
    rw [replaceCrcField_length (by omega) hf, replaceCrcField_size (by unfold HDR at hlen; omega) hf, hcl, hsz]
    exact hex
  have hn : ¬ CrcMatches (replaceCrcField (corruptProtected msg (flipPattern (msg.length - 8) i k)) f) := by
    unfold CrcMatches
    rw [replaceCrcField_drop8 (by omega) hf, replaceCrcField_crcField (by omega) hf,
      corruptProtected_drop8 h8, crc32_xor _ _ _ (by simp [he]), crcLin_flipPattern _ i k hi hk]
    intro h
    have hC : BitVec.ofNat 32 (u32le msg 4) = crc32 0#32 (msg.drop 8) := by
      rw [← hm, BitVec.ofNat_toNat, BitVec.setWidth_eq]
    have h2 : BitVec.ofNat 32 (u32le f 0) =
        crc32 0#32 (msg.drop 8) ^^^ crcIter (7 - k + 8 * (msg.length - 8 - (i + 1))) crcPoly := by
      rw [← h, BitVec.ofNat_toNat, BitVec.setWidth_eq]
    rw [hflip, hC] at h2
    have h3 : crcIter (7 - k + 8 * (msg.length - 8 - (i + 1))) crcPoly = 1#32 <<< m := by
      have := congrArg (fun x => crc32 0#32 (msg.drop 8) ^^^ x) h2
      simp only [← BitVec.xor_assoc, BitVec.xor_self, BitVec.zero_xor] at this
      exact this.symm
    refine crcIter_poly_ne_bit _ m hm32 ?_ h3
    unfold HDR MAX_EXPECTED at *
    omega
  rw [pyUnpackValidate_exact hex', cxxIsValid_exact hex', cxxFramerCrcOk_exact hex']
  simp [hn]

/-! ## The size field: what does not hold -/

set_option maxRecDepth 4000 in
/-- The rejection theorem needs its hypothesis that the announced payload size is unchanged: for the
crafted message `c06Crafted` (accepted by every validator) the single-bit flip of bit 2 of byte 16 is
accepted by `unpack(validate_crc=True)`, by `IsValid`, by the framer's comparison once it has collected
the 32 bytes the altered header announces, and by the Python decoder's scan, which emits a 32-byte
message at that position. -/
theorem C06_size_field_flip_accepted :
    ExactMsg c06Crafted ∧ CrcMatches c06Crafted ∧ pyUnpackValidate c06Crafted = some true ∧
    (flipPattern 28 8 2).length = c06Crafted.length - 8 ∧ IsBurst (bitsOf (flipPattern 28 8 2)) ∧
    corruptProtected c06Crafted (flipPattern 28 8 2) ≠ c06Crafted ∧
    pyUnpackValidate (corruptProtected c06Crafted (flipPattern 28 8 2)) = some true ∧
    cxxIsValid (corruptProtected c06Crafted (flipPattern 28 8 2)) = some true ∧
    cxxFramerCrcOk ((corruptProtected c06Crafted (flipPattern 28 8 2)).take 32) = true ∧
    (cfgPy 16777216).step (corruptProtected c06Crafted (flipPattern 28 8 2)) = .emit 32 := by
  refine ⟨by decide, by decide +kernel, by decide +kernel, by decide,
    C06_single_bit_is_burst 28 8 2 (by decide) (by decide), by decide, by decide +kernel, by decide +kernel,
    by decide +kernel, by decide +kernel⟩

/-- Hence the statement "every burst on the protected region of a valid message is rejected", without
the size hypothesis, is false. -/
theorem C06_burst_rejected_full_fails :
    ¬ ∀ msg e : Bytes, ExactMsg msg → CrcMatches msg → e.length = msg.length - 8 → IsBurst (bitsOf e) →
      pyUnpackValidate (corruptProtected msg e) = some false := by
  intro h
  have w := C06_size_field_flip_accepted
  have := h c06Crafted (flipPattern 28 8 2) w.1 w.2.1 w.2.2.2.1 w.2.2.2.2.1
  rw [w.2.2.2.2.2.2.1] at this
  cases this

/-! ## The size field: what holds for every value of it -/

/-- The size sanity limits are decided on the 24 header bytes alone and for EVERY value of the 32-bit
`payload_size_bytes` field, the values next to 2^32 included (the sum `24 + payload_size_bytes` is formed
without wrap-around): on any buffer that holds at least a header announcing a message above the limit,
`IsValid` answers false and reads nothing behind the header (the model's answer is never `none`, "would
read outside the buffer"), `unpack(validate_crc=True)` / `validate_crc` raise, and the Python decoder
emits no message there, whatever its `max_payload_len_bytes`.  A header announcing more bytes than the
buffer holds is likewise refused by the Python validator.  The harness compares `IsValid`, `validate_crc`,
the framer and the decoder with this verdict on altered size fields at every such boundary, in exact-size
and in larger heap buffers. -/
theorem C06_oversize_rejected (msg : Bytes) (h24 : HDR ≤ msg.length) :
    (MAX_EXPECTED < HDR + u32le msg 16 → cxxIsValid msg = some false) ∧
    (MAX_EXPECTED < u32le msg 16 → pyUnpackValidate msg = some false ∧ pyCrcOk msg = false ∧
      ∀ m n, (cfgPy m).step msg ≠ .emit n) ∧
    (msg.length < HDR + u32le msg 16 → pyUnpackValidate msg = some false) := by
  refine ⟨fun h => ?_, fun h => ⟨?_, ?_, ?_⟩, fun h => ?_⟩
  · unfold cxxIsValid; rw [if_neg (by omega), if_pos h]
  · unfold pyUnpackValidate; rw [if_neg (by omega), if_pos h]
  · unfold pyCrcOk; simp; omega
  · intro m n hn
    rw [C04_accept_criteria] at hn
    unfold MAX_EXPECTED at h; omega
  · unfold pyUnpackValidate
    rw [if_neg (by omega)]
    split <;> rfl

/-! ## Non-vacuity -/

/-- A 24-byte header whose size field is 0xFFFFFFFF (24 + size = 2^32 + 23): hypotheses of
`C06_oversize_rejected` hold. -/
example : HDR ≤ (c06Crafted.take 16 ++ [0xFF, 0xFF, 0xFF, 0xFF] ++ (c06Crafted.drop 20).take 4).length ∧
    MAX_EXPECTED < HDR + u32le (c06Crafted.take 16 ++ [0xFF, 0xFF, 0xFF, 0xFF] ++ (c06Crafted.drop 20).take 4) 16 := by
  decide

/-- The encoder model on a concrete call (type 10000, version 1, sequence 5, source 7, two payload
bytes): hypotheses of `C06_encoder_valid` hold, and the bytes are the ones the Python encoder
returns (checked against the implementation by the harness). -/
example : EncFits ⟨5⟩ 10000 1 7 [0xAB, 0xCD] := by unfold EncFits; decide

/-- A history on one encoder: source identifier 7 given, then omitted, then 2^32 (refused), then omitted: the
second and the last message carry source identifier 0 and the produced messages are numbered 0, 1, 2. -/
example :
    (okOutputs (encodeAll Encoder.init
      [⟨10000, 0, some 7, some [1]⟩, ⟨10000, 0, none, some [2]⟩, ⟨10000, 0, some 4294967296, some [3]⟩,
       ⟨10000, 0, some (-1), some [3]⟩, ⟨10000, 0, some 9, none⟩, ⟨10000, 0, none, some [4]⟩])).map
      (fun o => ((parseHeader o).sourceId, (parseHeader o).sequenceNumber)) = [(7, 0), (0, 1), (0, 2)] := by
  decide +kernel

example : IsBurst (bitsOf (flipPattern 3 1 6)) := C06_single_bit_is_burst 3 1 6 (by decide) (by decide)

/-- Two flipped bits 31 positions apart (bit 1 of byte 0 and bit 0 of byte 4) form a burst. -/
example : IsBurst (bitsOf [0x02, 0, 0, 0, 0x01]) :=
  ⟨1, true :: (List.replicate 30 false ++ [true]), 7, by decide, by decide, by decide⟩

/-- Two flipped bits 71 positions apart (bit 0 of byte 0 and bit 7 of byte 8). -/
example : TwoBits (bitsOf [0x01, 0, 0, 0, 0, 0, 0, 0, 0x80]) :=
  ⟨0, 71, 0, by decide, by decide, by decide⟩

end FeVerif
