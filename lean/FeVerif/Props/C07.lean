/-
C07 — the C++ framer dispatches exactly the valid messages, for any chunking and capacity.

Model: FeVerif/Model/CxxFramer.lean (literal transcription of fusion_engine_framer.cc: `onByte`, `resync`,
`onData`, `setBuffer`/`construct`, `reset`), tied to the compiled code by cxx/c07_harness.cc + tools/props/c07.py.
Specification: `(cfgCxx cap).run` — the shared left-to-right scan with the C++ header acceptance
(sync bytes, no uint32 overflow of 24 + payload, reserved = 0, 24 + payload ≤ capacity) and CRC-32 of bytes
[8, 24 + payload).
-/
import FeVerif.Proofs.CxxFramer
import FeVerif.Props.C04

namespace FeVerif

open Cxx

/-! ### Chunking independence -/

/-- `OnData(a ++ b)` is `OnData(a)` followed by `OnData(b)`: same final object (every field, including the
buffer contents), return values add up, callbacks concatenate.  For every framer state whatsoever. -/
theorem C07_onData_append (f : Framer) (a b : Bytes) :
    onData f (a ++ b) =
      ⟨(onData (onData f a).f b).f, (onData f a).ret + (onData (onData f a).f b).ret,
        (onData f a).cbs ++ (onData (onData f a).f b).cbs⟩ := by
  have loop : ∀ (a : Bytes) (f : Framer), onDataLoop f (a ++ b) =
      ⟨(onDataLoop (onDataLoop f a).f b).f, (onDataLoop f a).ret + (onDataLoop (onDataLoop f a).f b).ret,
        (onDataLoop f a).cbs ++ (onDataLoop (onDataLoop f a).f b).cbs⟩ := by
    intro a
    induction a with
    | nil => intro f; simp [onDataLoop]
    | cons x xs ih =>
      intro f
      simp only [List.cons_append, onDataLoop]
      rw [ih]
      simp [Nat.add_assoc]
  unfold onData
  by_cases h : f.hasBuf = true
  · have h' : (onDataLoop f a).f.hasBuf = true := by rw [onDataLoop_hasBuf]; exact h
    simp only [h, h', if_true]
    exact loop a f
  · simp [h]

/-- Any two divisions of the same stream into `OnData` calls leave the same object behind, deliver the
same callbacks in the same order and return the same total. -/
theorem C07_chunking_independent (f : Framer) (parts₁ parts₂ : List Bytes)
    (h : parts₁.flatten = parts₂.flatten) :
    (onDataCalls f parts₁).1 = (onDataCalls f parts₂).1 ∧
    (onDataCalls f parts₁).2.1.sum = (onDataCalls f parts₂).2.1.sum ∧
    (onDataCalls f parts₁).2.2 = (onDataCalls f parts₂).2.2 := by
  have one : ∀ (parts : List Bytes) (f : Framer),
      (onDataCalls f parts).1 = (onData f parts.flatten).f ∧
      (onDataCalls f parts).2.1.sum = (onData f parts.flatten).ret ∧
      (onDataCalls f parts).2.2 = (onData f parts.flatten).cbs := by
    intro parts
    induction parts with
    | nil =>
      intro f
      have : onData f [] = ⟨f, 0, []⟩ := by unfold onData onDataLoop; split <;> rfl
      simp [onDataCalls, this]
    | cons d ds ih =>
      intro f
      obtain ⟨i1, i2, i3⟩ := ih (onData f d).f
      rw [List.flatten_cons, C07_onData_append]
      simp only [onDataCalls, List.sum_cons]
      exact ⟨i1, by rw [i2], by rw [i3]⟩
  obtain ⟨a1, a2, a3⟩ := one parts₁ f
  obtain ⟨b1, b2, b3⟩ := one parts₂ f
  rw [a1, a2, a3, b1, b2, b3, h]
  exact ⟨rfl, rfl, rfl⟩

/-! ### Construction -/

/-- The alignment arithmetic of `SetBuffer`: a framer that got a buffer has at least a header's worth of
capacity, its buffer starts at a 4-byte aligned address and lies inside the storage it was given
(`capacity` bytes at the caller's address, resp. the `capacity + 3` bytes allocated internally);
it is in the reset state and has touched nothing.  (Internal allocations: `operator new[]` returns
4-byte aligned storage.) -/
theorem C07_construct (user : Option Nat) (alloc capacity : Nat) (halloc : user = none → alloc % 4 = 0)
    (hb : (Framer.construct user alloc capacity).hasBuf = true) :
    let f := Framer.construct user alloc capacity
    HDR ≤ f.cap ∧ f.buf.length = f.cap ∧ f.addr % 4 = 0 ∧ f.state = .sync0 ∧ f.next = 0 ∧ f.hi = 0 ∧
    (match user with
      | some a => a ≤ f.addr ∧ f.addr + f.cap ≤ a + capacity
      | none => alloc ≤ f.addr ∧ f.addr + f.cap ≤ alloc + (capacity + 3)) :=
  construct_spec user alloc capacity halloc hb

/-- A buffer that is too small — counting the bytes a caller's buffer loses to alignment — leaves the
framer without a buffer, and such a framer ignores all data (as long as no `SetBuffer` gives it one). -/
theorem C07_no_buffer (user : Option Nat) (alloc capacity : Nat)
    (hb : (Framer.construct user alloc capacity).hasBuf = false) (ops : List Op) (hops : ∀ op ∈ ops, op.keepsBuffer) :
    runOps (Framer.construct user alloc capacity) ops = Framer.empty :=
  no_buffer user alloc capacity hb ops hops

/-- A caller buffer is accepted exactly when it still holds a header after alignment. -/
theorem C07_buffer_accepted_iff (a alloc capacity : Nat) :
    (Framer.construct (some a) alloc capacity).hasBuf = true ↔ HDR + (alignUp a - a) ≤ capacity := by
  show (Framer.empty.setBuffer (some a) alloc capacity).hasBuf = true ↔ _
  unfold Framer.setBuffer
  by_cases hc : capacity < HDR + (alignUp a - a)
  · rw [if_pos hc]; simp [Framer.empty]; omega
  · rw [if_neg hc]; simp; omega

/-! ### Memory safety -/

/-- **Every buffer index the framer ever reads or writes is below `capacity_bytes_`** (`hi` is
1 + the highest index of `buffer_` accessed by `OnData`, `OnByte`, `Resync`, `memmove`, `CalculateCRC`, or handed
to a callback; counted from the last accepted `SetBuffer`, i.e. in the buffer now in use), `next_byte_index_` stays
inside the buffer, and the buffer keeps its size — in every reachable state: after construction with either kind of
buffer and any history of `OnData`, `Reset()` and `SetBuffer()` calls (either kind, any address, any capacity,
at any point of a message). -/
theorem C07_framer_safe (f : Framer) (h : Reachable f) :
    f.hi ≤ f.cap ∧ f.next ≤ f.cap ∧ f.buf.length = f.cap ∧ (f.hasBuf = true → HDR ≤ f.cap) := by
  rcases reachable_inv h with ⟨_, he⟩ | ⟨p, hr, _⟩
  · rw [he]
    exact ⟨Nat.le_refl _, Nat.le_refl _, rfl, fun h => by cases h⟩
  · have := pend_lt_cap hr.pend hr.core.cap24
    exact ⟨hr.core.hi, by rw [hr.next]; omega, hr.core.len, fun _ => hr.core.cap24⟩

/-! ### Return value, alignment -/

/-- `OnData` returns the total size of the messages it dispatched during that call. -/
theorem C07_return_value (f : Framer) (h : Reachable f) (d : Bytes) :
    (onData f d).ret = sumLen (onData f d).cbs := by
  by_cases hb : f.hasBuf = true
  · obtain ⟨p, hr, _⟩ := reachable_rel h hb
    obtain ⟨_, r2, r3, _⟩ := onData_rel hr d
    rw [r3, r2]; simp
  · unfold onData; rw [if_neg hb]; rfl

/-- The header handed to a callback is the start of the buffer (`cb = buf.take …` in `crcCheck`), and
that address is 4-byte aligned in every reachable state. -/
theorem C07_header_aligned (f : Framer) (h : Reachable f) (hb : f.hasBuf = true) : f.addr % 4 = 0 := by
  obtain ⟨_, _, ha⟩ := reachable_rel h hb
  exact ha

/-! ### Refinement of the scan -/

/-- **The framer dispatches exactly the messages of the left-to-right scan.**  From the reset state
(after construction or `Reset()`), for any stream and any division of it into `OnData` calls, the
callbacks are — in order, each exactly once, with exactly the stream's bytes — the messages
`(cfgCxx capacity_bytes_).run stream 0` accepts; the return values of the calls add up to their total size. -/
theorem C07_refines_scan (f : Framer) (hf : Fresh f) (chunks : List Bytes) :
    (onDataCalls f chunks).2.2 =
      msgBytes chunks.flatten 0 ((cfgCxx f.cap).run chunks.flatten 0).msgs ∧
    (onDataCalls f chunks).2.1.sum =
      sumLen (msgBytes chunks.flatten 0 ((cfgCxx f.cap).run chunks.flatten 0).msgs) := by
  obtain ⟨a, b, _⟩ := onDataCalls_rel chunks (Fresh.rel hf)
  rw [List.nil_append] at a b
  rw [settle_msgs f.cap chunks.flatten 0] at a b
  exact ⟨a, b⟩

/-- The same from any reachable state after a `Reset()`. -/
theorem C07_refines_scan_after_reset (f : Framer) (h : Reachable f) (hb : f.hasBuf = true) (chunks : List Bytes) :
    (onDataCalls f.reset chunks).2.2 =
      msgBytes chunks.flatten 0 ((cfgCxx f.cap).run chunks.flatten 0).msgs := by
  obtain ⟨p, hr, _⟩ := reachable_rel h hb
  exact (C07_refines_scan f.reset ⟨hr.core.hasBuf, hr.core.cap24, hr.core.len, hr.core.hi, rfl, rfl⟩ chunks).1

/-- Freshly constructed framers are in the reset state. -/
theorem C07_construct_fresh (user : Option Nat) (alloc capacity : Nat) (halloc : user = none → alloc % 4 = 0)
    (hb : (Framer.construct user alloc capacity).hasBuf = true) : Fresh (Framer.construct user alloc capacity) := by
  have h0 := C07_construct user alloc capacity halloc hb
  exact ⟨hb, h0.1, h0.2.1, by rw [h0.2.2.2.2.2.1]; exact Nat.zero_le _, h0.2.2.2.1, h0.2.2.2.2.1⟩

/-! ### Replacing the buffer (`SetBuffer` on a live object) -/

/-- A `SetBuffer` call whose capacity does not hold a header behind the alignment loss is refused and
leaves the object exactly as it was (buffer, pending bytes, state). -/
theorem C07_setBuffer_refused (f : Framer) (user : Option Nat) (alloc capacity : Nat)
    (hc : capacity < HDR + slackOf user) : f.setBuffer user alloc capacity = f :=
  setBuffer_refused f user alloc capacity hc

/-- An accepted `SetBuffer` call yields an object that does not depend on the previous one: nothing of the
old buffer, of the bytes pending in it, or of `state_` / `next_byte_index_` / `current_message_size_` survives. -/
theorem C07_setBuffer_discards (f g : Framer) (user : Option Nat) (alloc capacity : Nat)
    (hc : HDR + slackOf user ≤ capacity) :
    f.setBuffer user alloc capacity = g.setBuffer user alloc capacity :=
  setBuffer_independent f g user alloc capacity hc

/-- ... and that object is in the reset state with `capacity_bytes_` = what is left of the storage behind the
first aligned address, an aligned buffer inside the storage given, nothing touched. -/
theorem C07_setBuffer_fresh (f : Framer) (user : Option Nat) (alloc capacity : Nat)
    (halloc : user = none → alloc % 4 = 0) (hc : HDR + slackOf user ≤ capacity) :
    let g := f.setBuffer user alloc capacity
    Fresh g ∧ g.cur = 0 ∧ g.hi = 0 ∧ g.addr % 4 = 0 ∧ g.cap = min capacity 0x7FFFFFFF - slackOf user ∧
    (match user with
      | some a => a ≤ g.addr ∧ g.addr + g.cap ≤ a + capacity
      | none => alloc ≤ g.addr ∧ g.addr + g.cap ≤ alloc + capacity) := by
  intro g
  have h := setBuffer_spec f user alloc capacity halloc hc
  exact ⟨setBuffer_fresh f user alloc capacity halloc hc, h.2.2.2.2.2.2.1, h.2.2.2.2.2.2.2.1, h.2.2.2.1,
    h.2.2.2.2.2.2.2.2.1, h.2.2.2.2.2.2.2.2.2.2⟩

/-- **After an accepted `SetBuffer` — applied to any object whatsoever, in the middle of a header or of a
payload, from either kind of buffer to either kind, with a capacity below, at or above the number of bytes
pending — the framer dispatches exactly the messages the scan with the new capacity accepts in the bytes that
follow**: `SetBuffer` is one more segment boundary, with a change of capacity. -/
theorem C07_refines_scan_after_setBuffer (f : Framer) (user : Option Nat) (alloc capacity : Nat)
    (halloc : user = none → alloc % 4 = 0) (hc : HDR + slackOf user ≤ capacity) (chunks : List Bytes) :
    (onDataCalls (f.setBuffer user alloc capacity) chunks).2.2 =
      msgBytes chunks.flatten 0
        ((cfgCxx (min capacity 0x7FFFFFFF - slackOf user)).run chunks.flatten 0).msgs ∧
    (onDataCalls (f.setBuffer user alloc capacity) chunks).2.1.sum =
      sumLen (msgBytes chunks.flatten 0
        ((cfgCxx (min capacity 0x7FFFFFFF - slackOf user)).run chunks.flatten 0).msgs) := by
  have h := C07_refines_scan _ (setBuffer_fresh f user alloc capacity halloc hc) chunks
  rw [(setBuffer_spec f user alloc capacity halloc hc).2.2.2.2.2.2.2.2.1] at h
  exact h

/-- **Whole histories.**  For an object constructed with either kind of buffer and any sequence of `OnData`,
`Reset()` and `SetBuffer()` calls, the callbacks are, in order, the messages of the specification `specCbs`:
the stream is cut at every `Reset()` and at every accepted `SetBuffer()` (a refused one cuts nothing), and each
segment is scanned on its own with the capacity in force — the bytes pending at a cut are discarded, the bytes
after it are framed from scratch. -/
theorem C07_history (user : Option Nat) (alloc capacity : Nat) (halloc : user = none → alloc % 4 = 0)
    (ops : List Op) (hok : ∀ op ∈ ops, op.ok) :
    opsCbs (Framer.construct user alloc capacity) ops =
      specCbs (capOf (Framer.construct user alloc capacity)) [] ops :=
  history_construct user alloc capacity halloc ops hok

/-- What the scan accepts at the front of `buf`, spelled out. -/
theorem C07_accept_criteria (cap : Nat) (buf : Bytes) (n : Nat) :
    (cfgCxx cap).step buf = .emit n ↔
      HDR ≤ buf.length ∧ byteAt buf 0 = SYNC0 ∧ byteAt buf 1 = SYNC1 ∧ u16le buf 2 = 0 ∧
      HDR + u32le buf 16 ≤ cap ∧ HDR + u32le buf 16 < U32 ∧ n = HDR + u32le buf 16 ∧ n ≤ buf.length ∧
      (crc32 0#32 ((buf.take n).drop 8)).toNat = u32le buf 4 := by
  rw [Cfg.step_emit_iff]
  show HDR ≤ buf.length ∧ cxxHeaderOk cap (buf.take HDR) = true ∧ n = (cfgCxx cap).msgLen buf ∧ n ≤ buf.length ∧
    cxxCrcOk (buf.take n) = true ↔ _
  rw [cxxHeaderOk_take, cfgCxx_msgLen]
  constructor
  · rintro ⟨h1, h2, h3, h4, h5⟩
    subst h3
    rw [cxxCrcOk_take] at h5
    unfold cxxCrcOk at h5
    simp at h2 h5
    obtain ⟨⟨⟨⟨a, b⟩, c⟩, d⟩, e⟩ := h2
    exact ⟨h1, a, b, d, e, c, rfl, h4, h5⟩
  · rintro ⟨h1, h2, h3, h4, h5, h6, h7, h8, h9⟩
    subst h7
    refine ⟨h1, by simp [h2, h3, h4, h5, h6], rfl, h8, ?_⟩
    rw [cxxCrcOk_take]
    unfold cxxCrcOk
    simp [h9]

/-! ### Same messages as the Python decoder -/

/-- With a capacity up to 24 + 2^24, the C++ framer's scan and the scan of the Python decoder configured with
`max_payload_len_bytes = capacity − 24` are the same function: same verdict on every window, hence the same
messages on every stream.  (Above that capacity the two differ by design of the sources: the Python header
rejects any payload larger than 2^24 in `validate_crc`, the C++ framer has no such limit.) -/
theorem C07_same_as_python (cap : Nat) (h24 : HDR ≤ cap) (hmax : cap ≤ HDR + MAX_EXPECTED) (buf : Bytes) (off : Nat) :
    (cfgCxx cap).run buf off = (cfgPy (cap - HDR)).run buf off := by
  apply run_congr
  intro w
  rw [cfgCxx_step, cfgPy_step, cxxHeaderOk_take, pyHeaderOk_take]
  have hpl := u32le_lt w 16
  have hhdr : (decide (byteAt w 0 = SYNC0) && decide (byteAt w 1 = SYNC1) && decide (HDR + u32le w 16 < U32) &&
      decide (u16le w 2 = 0) && decide (HDR + u32le w 16 ≤ cap)) =
      (decide (byteAt w 0 = SYNC0) && decide (byteAt w 1 = SYNC1) && decide (u16le w 2 = 0) &&
        decide (u32le w 16 ≤ cap - HDR)) := by
    have e1 : decide (HDR + u32le w 16 ≤ cap) = decide (u32le w 16 ≤ cap - HDR) := by
      apply decide_eq_decide.2; omega
    by_cases hle : u32le w 16 ≤ cap - HDR
    · have : HDR + u32le w 16 < U32 := by unfold HDR MAX_EXPECTED U32 at *; omega
      simp [this, e1, hle]
    · simp [e1, hle]
  rw [hhdr]
  split; · rfl
  split; · rfl
  rename_i hok
  have hle : u32le w 16 ≤ cap - HDR := by simp at hok; exact hok.2.2.2
  have hcrc : cxxCrcOk w = pyCrcOk w := by
    unfold cxxCrcOk pyCrcOk
    have : u32le w 16 ≤ MAX_EXPECTED := by omega
    simp [this]
  rw [hcrc]

/-- Hence the framer's callbacks are exactly what the Python decoder model returns on the same stream. -/
theorem C07_framer_eq_python (f : Framer) (hf : Fresh f) (hmax : f.cap ≤ HDR + MAX_EXPECTED) (chunks : List Bytes) :
    (onDataCalls f chunks).2.2 =
      msgBytes chunks.flatten 0 (pyFeed (f.cap - HDR) PyDec.init [chunks.flatten]).1 := by
  rw [(C07_refines_scan f hf chunks).1, C07_same_as_python f.cap hf.2.1 hmax, C04_decoder_refines_scan]
  simp

/-! ### Non-vacuity (executable checks of the model; tests, not theorems) -/

def c07Msg : Bytes :=
  [0x2E, 0x31, 0, 0, 0xF7, 0x1F, 0xA4, 0xC3, 2, 0, 0x10, 0x27, 0, 0, 0, 0, 0, 0, 0, 0, 0, 0, 0, 0]

-- a caller buffer of 27 bytes at an odd address: capacity_bytes_ = 24, junk + duplicated sync + message split over calls
#guard (Framer.construct (some 4097) 0 27).cap == 24
#guard (onDataCalls (Framer.construct (some 4097) 0 27) [[1, 0x2E, 0x2E] ++ c07Msg.take 5, c07Msg.drop 5, [9]]).2.2 == [c07Msg]
#guard (onDataCalls (Framer.construct (some 4097) 0 27) [[1, 0x2E, 0x2E] ++ c07Msg.take 5, c07Msg.drop 5, [9]]).2.1 == [0, 24, 0]
-- 24..26 bytes at an odd address: no buffer (the defect fixed by /repo commit c9bc15e)
#guard (Framer.construct (some 4097) 0 26).hasBuf == false
-- a rejected candidate containing 25 duplicated sync bytes before a real message (the defect fixed by 51c058c)
#guard (onData (Framer.construct none 4096 64) ([0x2E, 0x31] ++ List.replicate 22 1 ++ List.replicate 25 0x2E ++ c07Msg.drop 1)).cbs == [c07Msg]

-- SetBuffer in the middle of a message (20 bytes pending): the pending bytes are discarded, the new capacity applies,
-- the rest of the old message is skipped and the next message is framed; a refused SetBuffer keeps the message going
#guard (opsCbs (Framer.construct (some 4096) 0 1024) [.data (c07Msg.take 20), .setBuffer (some 8193) 0 27, .data (c07Msg.drop 20 ++ c07Msg)]) == [c07Msg]
#guard (runOps (Framer.construct (some 4096) 0 1024) [.data (c07Msg.take 20), .setBuffer (some 8193) 0 27]).cap == 24
#guard (runOps (Framer.construct (some 4096) 0 1024) [.data (c07Msg.take 20), .setBuffer (some 8193) 0 27]).next == 0
#guard (opsCbs (Framer.construct (some 4096) 0 1024) [.data (c07Msg.take 20), .setBuffer (some 8193) 0 26, .data (c07Msg.drop 20 ++ c07Msg)]) == [c07Msg, c07Msg]
#guard (opsCbs (Framer.construct (some 4096) 0 1024) [.data (c07Msg.take 20), .setBuffer none 8192 24, .data (c07Msg.drop 20 ++ c07Msg)]) == [c07Msg]
-- an object without a buffer gets one later
#guard (opsCbs (Framer.construct (some 4097) 0 26) [.data c07Msg, .setBuffer none 8192 24, .data c07Msg]) == [c07Msg]
#guard specCbs (capOf (Framer.construct (some 4096) 0 1024)) [] [.data (c07Msg.take 20), .setBuffer (some 8193) 0 27, .data (c07Msg.drop 20 ++ c07Msg)] == [c07Msg]

end FeVerif
