/-
C08 — the log index lists exactly the messages of a sequential scan of the file.

`Indexer.index file R M nt` is the model of `fast_generate_index` (FeVerif/Model/Indexer.lean) with read
size `R` (`_READ_SIZE_BYTES`), overlap `M` (`_MAX_FE_MSG_SIZE_BYTES`) and `nt` worker processes
(`Pool.starmap` = ordered map); `cfgFile.runFile file 0` is the sequential left-to-right scan of the file
(sync bytes, payload size within the sanity limit, whole message present, CRC).  The model is tied to
fast_indexer.py by tools/props/c08.py (module constants rebound to small values so that every placement
relative to block boundaries occurs, worker counts 1..16).
-/
import FeVerif.Proofs.IndexerMain

namespace FeVerif
open Indexer

/-- **Index = sequential scan**, for every file, every even read size, every overlap ≥ 24 and every
number of workers, provided no message the scan's criteria accept anywhere in the file is longer than
the overlap (the indexer's documented size limit). -/
theorem C08_index_eq_scan (file : Bytes) (R M nt : Nat) (hR : 0 < R) (hRe : R % 2 = 0) (hM : 24 ≤ M)
    (hnt : 0 < nt)
    (hsz : ∀ p n, cfgFile.stepFile (file.drop p) = .emit n → n ≤ M) :
    (index file R M nt).map (fun e => (e.off, e.size)) = cfgFile.runFile file 0 :=
  index_eq_scan file R M hR hRe hM (fun p n h => hsz p n (validAt_some h)) nt hnt

/-- The result does not depend on the number of worker processes. -/
theorem C08_independent_of_workers (file : Bytes) (R M nt nt' : Nat) (hR : 0 < R) (hRe : R % 2 = 0)
    (hM : 24 ≤ M) (hnt : 0 < nt) (hnt' : 0 < nt')
    (hsz : ∀ p n, cfgFile.stepFile (file.drop p) = .emit n → n ≤ M) :
    (index file R M nt).map (fun e => (e.off, e.size)) = (index file R M nt').map (fun e => (e.off, e.size)) := by
  rw [C08_index_eq_scan file R M nt hR hRe hM hnt hsz, C08_index_eq_scan file R M nt' hR hRe hM hnt' hsz]

/-- The result does not depend on where the block boundaries fall. -/
theorem C08_independent_of_blocking (file : Bytes) (R M R' M' nt : Nat) (hR : 0 < R) (hRe : R % 2 = 0)
    (hR' : 0 < R') (hRe' : R' % 2 = 0) (hM : 24 ≤ M) (hM' : 24 ≤ M') (hnt : 0 < nt)
    (hsz : ∀ p n, cfgFile.stepFile (file.drop p) = .emit n → n ≤ M)
    (hsz' : ∀ p n, cfgFile.stepFile (file.drop p) = .emit n → n ≤ M') :
    (index file R M nt).map (fun e => (e.off, e.size)) = (index file R' M' nt).map (fun e => (e.off, e.size)) := by
  rw [C08_index_eq_scan file R M nt hR hRe hM hnt hsz, C08_index_eq_scan file R' M' nt hR' hRe' hM' hnt hsz']

theorem sequentialPass_mem (p : Nat) (l : List Entry) : ∀ e ∈ sequentialPass p l, e ∈ l := by
  induction l generalizing p with
  | nil => intro e he; simp [sequentialPass] at he
  | cons a r ih =>
    intro e he
    unfold sequentialPass at he
    split at he
    · rcases List.mem_cons.1 he with rfl | h
      · simp
      · exact List.mem_cons_of_mem _ (ih _ e h)
    · exact List.mem_cons_of_mem _ (ih _ e he)

/-- Whatever the file contains (no size hypothesis), every entry the index holds points at a message
that passes all of the scan's criteria over the bytes of the file — in particular its CRC — and carries
that message's type. -/
theorem C08_entries_valid (file : Bytes) (R M nt : Nat) :
    ∀ e ∈ index file R M nt,
      cfgFile.stepFile (file.drop e.off) = .emit e.size ∧ e.type = u16le file (e.off + 10) := by
  intro e he
  unfold index candidates at he
  have h1 := sequentialPass_mem _ _ e he
  simp only [List.mem_flatten, List.mem_map] at h1
  obtain ⟨l, ⟨bs, _, rfl⟩, hel⟩ := h1
  obtain ⟨b, _, hbe⟩ := worker_mem bs e hel
  have := blockOut_valid file R M b e hbe
  exact ⟨validAt_some this.1, this.2.2⟩

/-- The entries are in strictly increasing file order and do not overlap (so the ordinal of an entry
is its position in the list, and no message is listed twice). -/
theorem C08_entries_ordered (file : Bytes) (R M nt : Nat) (hR : 0 < R) (hRe : R % 2 = 0) (hM : 24 ≤ M)
    (hnt : 0 < nt) (hsz : ∀ p n, cfgFile.stepFile (file.drop p) = .emit n → n ≤ M) :
    ((index file R M nt).map (fun e => (e.off, e.size))).Pairwise fun a b => a.1 + a.2 ≤ b.1 := by
  rw [C08_index_eq_scan file R M nt hR hRe hM hnt hsz]
  exact Cfg.runFile_pairwise file 0

-- executable sanity check (a test): two messages, a block boundary inside the first, 3 workers
#guard (index ([0x2E, 0x31, 0, 0, 0xF7, 0x1F, 0xA4, 0xC3, 2, 0, 0x10, 0x27, 0, 0, 0, 0, 0, 0, 0, 0, 0, 0, 0, 0] ++ [7] ++
    [0x2E, 0x31, 0, 0, 0xF7, 0x1F, 0xA4, 0xC3, 2, 0, 0x10, 0x27, 0, 0, 0, 0, 0, 0, 0, 0, 0, 0, 0, 0]) 16 24 3).map
      (fun e => (e.off, e.size)) == [(0, 24), (25, 24)]

end FeVerif
